(** C11 — local delivery uses the documented underlay destination port.
    Property theorems only; closed by lemmas of Proofs/PortDispatch.v. *)
From Coq Require Import List NArith Bool Permutation.
From Scion Require Import Lib.Check Model.PortDispatch Proofs.PortDispatch.
Import ListNotations.
Import PortDispatch.
Local Open Scope N_scope.

(** *** The port a packet documents (dstScionPort / getDstPortSCMP) *)

(** UDP and TCP: the destination port; anything that is neither UDP, TCP nor SCMP: 30041. *)
Theorem C11_derived_udp_tcp : forall pld q,
  (8 <= len pld -> dst_scion_port L4UDP pld q = Ok (be16 pld 2)) /\
  (20 <= len pld -> dst_scion_port L4TCP pld q = Ok (be16 pld 2)) /\
  (forall l4, l4 <> L4UDP -> l4 <> L4TCP -> l4 <> L4SCMP -> dst_scion_port l4 pld q = Ok endhost_port).
Proof.
  intros pld q. split; [apply port_udp | split; [apply port_tcp | intros; now apply port_other]].
Qed.
Print Assumptions C11_derived_udp_tcp.

(** SCMP echo / traceroute: a reply goes to its Identifier, a request to 30041. *)
Theorem C11_derived_scmp_info : forall code c1 c2 i1 i2 q,
  (forall s1 s2 rest,
     dst_scion_port L4SCMP (EchoReply :: code :: c1 :: c2 :: i1 :: i2 :: s1 :: s2 :: rest) q
     = Ok (256 * i1 + i2)) /\
  (forall body, 18 <= len body ->
     dst_scion_port L4SCMP (TracerouteReply :: code :: c1 :: c2 :: i1 :: i2 :: body) q
     = Ok (256 * i1 + i2)) /\
  (forall ty rest, ty = EchoRequest \/ ty = TracerouteRequest ->
     dst_scion_port L4SCMP (ty :: code :: c1 :: c2 :: rest) q = Ok endhost_port).
Proof.
  intros. split; [intros; apply port_echo_reply | split;
    [intros; now apply port_traceroute_reply | intros; now apply port_request]].
Qed.
Print Assumptions C11_derived_scmp_info.

(** SCMP errors (destination unreachable, packet too big, param. problem, interface down,
    connectivity down): the source port of the quoted UDP packet, or the Identifier of the quoted
    echo / traceroute REQUEST; [off] is where the quoted packet's L4 part starts. *)
Theorem C11_derived_scmp_error : forall ty code c1 c2 hdr quote off h,
  scmp_err_hdr ty = Some h -> length hdr = h -> quote <> [] ->
  let pld := ty :: code :: c1 :: c2 :: hdr ++ quote in
  let l4q := skipn off quote in
  (8 <= len l4q -> be16 l4q 0 <> 0 ->
     dst_scion_port L4SCMP pld (Some (L4UDP, off)) = Ok (be16 l4q 0)) /\
  (forall qc q1 q2 i1 i2 s1 s2 rest,
     l4q = EchoRequest :: qc :: q1 :: q2 :: i1 :: i2 :: s1 :: s2 :: rest ->
     dst_scion_port L4SCMP pld (Some (L4SCMP, off)) = Ok (256 * i1 + i2)) /\
  (forall qc q1 q2 i1 i2 body, 18 <= len body ->
     l4q = TracerouteRequest :: qc :: q1 :: q2 :: i1 :: i2 :: body ->
     dst_scion_port L4SCMP pld (Some (L4SCMP, off)) = Ok (256 * i1 + i2)).
Proof.
  intros ty code c1 c2 hdr quote off h Hh Hl Hq pld l4q. subst pld l4q.
  split; [|split]; intros.
  - rewrite (port_scmp_error _ _ _ _ _ _ _ _ _ Hh Hl Hq). now apply quoted_udp.
  - rewrite (port_scmp_error _ _ _ _ _ _ _ _ _ Hh Hl Hq), H. apply quoted_echo_request.
  - rewrite (port_scmp_error _ _ _ _ _ _ _ _ _ Hh Hl Hq), H0. now apply quoted_traceroute_request.
Qed.
Print Assumptions C11_derived_scmp_error.

(** *** Delivery to an IP host *)

(** After ANY configuration history, a packet for a (valid) IP host that documents port [p] is
    delivered to that host, to port [p] if start <= p <= end of the configured range and to
    30041 otherwise. *)
Theorem C11_port : forall ov ops ty raw l4 pld q ip p,
  dst_addr ty raw = Some (HIP ip) -> bad_ip ip = false -> dst_scion_port l4 pld q = Ok p ->
  let c := configured ov ops in
  resolve_local_dst (run ov ops) ty raw l4 pld q =
  [Delivered ip (if (r_start c <=? p) && (p <=? r_end c) then p else endhost_port)].
Proof. exact resolve_local_dst_ip. Qed.
Print Assumptions C11_port.

(** The same against the documented meaning of the range ("-" empty, "all", [a,b], router
    configuration overriding the topology) — everywhere except the known corner. *)
Theorem C11_port_documented_except_known : forall ov ops ty raw l4 pld q ip p,
  dst_addr ty raw = Some (HIP ip) -> bad_ip ip = false -> dst_scion_port l4 pld q = Ok p ->
  known ov ops ty raw l4 pld q = false ->
  resolve_local_dst (run ov ops) ty raw l4 pld q = [Delivered ip (expected_port ops ov p)].
Proof.
  intros ov ops ty raw l4 pld q ip p Ha Hb Hp Hk.
  rewrite (resolve_local_dst_ip _ _ _ _ _ _ _ _ _ Ha Hb Hp). unfold expected_port.
  now rewrite (in_range_documented ov ops p (known_false_corner _ _ _ _ _ _ _ _ _ Ha Hb Hp Hk)).
Qed.
Print Assumptions C11_port_documented_except_known.

(** The known corner is a real deviation: with the empty range "-" a packet documenting port 0
    goes to port 0, not to 30041 (the empty range is represented as [0,0]). *)
Theorem C11_port_empty_range_port0_refuted : exists ov ops ty raw l4 pld q o,
  In o (resolve_local_dst (run ov ops) ty raw l4 pld q) /\
  oracle ov ops ty raw l4 pld q o = false.
Proof.
  exists None, [OAddInternal; OSetRange TEmpty], 0, [10; 0; 0; 1], L4UDP, [0; 7; 0; 0; 0; 8; 0; 0], None,
    (Delivered [10; 0; 0; 1] 0).
  vm_compute. split; [now left | reflexivity].
Qed.
Print Assumptions C11_port_empty_range_port0_refuted.

(** *** Service addresses *)

(** A packet for a service address goes to the address AND port of an instance registered for
    the (base) service, whatever the range; "no backend" iff none is registered. *)
Theorem C11_svc : forall ov ops ty raw l4 pld q s o,
  dst_addr ty raw = Some (HSVC s) ->
  let is := filter (fun i => i_svc i =? svc_base s) (registered ops []) in
  In o (resolve_local_dst (run ov ops) ty raw l4 pld q) <->
  (is = [] /\ o = NoSvc) \/ (exists i, In i is /\ o = Delivered (i_ip i) (i_port i)).
Proof.
  intros ov ops ty raw l4 pld q s o Ha. unfold resolve_local_dst. rewrite Ha. apply resolve_svc.
Qed.
Print Assumptions C11_svc.

(** "registered" = the last AddSvc/DelSvc call about that instance was AddSvc. *)
Theorem C11_svc_registered : forall i ops,
  In i (registered ops []) <-> last_about i ops None = Some true.
Proof.
  intros i ops. rewrite (registered_spec i ops [] None I).
  destruct (last_about i ops None) as [[|]|]; cbn; split; intros H; try tauto; try discriminate;
    try reflexivity.
Qed.
Print Assumptions C11_svc_registered.

(** *** Order independence of the configuration *)

(** For every sequence of configuration calls (SetPortRange any number of times, before or
    after AddInternalInterface, interleaved with anything else) the range used by the internal
    link is the configured one: that of the last SetPortRange with the router-config override. *)
Theorem C11_order : forall ov ops, prov (run ov ops) = configured ov ops.
Proof. exact run_prov. Qed.
Print Assumptions C11_order.

(** In particular every permutation of a start-up sequence that sets one range yields the same
    effective range, and it is the topology's range with the override applied. *)
Theorem C11_order_permutation : forall ov ops ops' t,
  Permutation ops ops' ->
  In (OSetRange t) ops -> (forall t', In (OSetRange t') ops -> t' = t) ->
  prov (run ov ops') = range_of ov t /\ prov (run ov ops) = range_of ov t.
Proof.
  intros ov ops ops' t HP Hin Hu.
  assert (Hc : configured ov ops = range_of ov t).
  { unfold configured. destruct (last_range ops None) as [t'|] eqn:E.
    - apply last_range_some_in in E. now rewrite (Hu t' E).
    - exfalso. exact (last_range_none_notin ops E t Hin). }
  rewrite !run_prov. split; [|assumption].
  rewrite <- (configured_permutation ov ops ops' HP); [assumption|].
  intros a b Ha Hb. now rewrite (Hu a Ha), (Hu b Hb).
Qed.
Print Assumptions C11_order_permutation.

(** *** The oracle of the correspondence check holds on the model (outside the known corner) *)
Theorem C11_oracle_holds_on_model_except_known : forall ov ops ty raw l4 pld q o,
  known ov ops ty raw l4 pld q = false ->
  In o (resolve_local_dst (run ov ops) ty raw l4 pld q) ->
  oracle ov ops ty raw l4 pld q o = true.
Proof. exact oracle_model. Qed.
Print Assumptions C11_oracle_holds_on_model_except_known.

(** Non-vacuity: the real start-up order (range set last), range 31000-32767; an SCMP error
    quoting a UDP packet with source port 31005 is delivered to 31005, a UDP packet for port 80 to
    30041, and a service packet to the registered instance's own port although it is outside
    the range. *)
Example C11_example :
  let ops := [OOther; OAddInternal; OAddExternal; OAddSvc 2 [127; 0; 0; 9] 30252;
              OSetRange (TSpan 31000 32767)] in
  let quote := repeat 0 36 ++ [121; 29; 0; 80; 0; 8; 0; 0] in
  resolve_local_dst (run None ops) 0 [10; 0; 0; 7] L4SCMP ([1; 0; 0; 0; 0; 0; 0; 0] ++ quote)
                    (Some (L4UDP, 36%nat)) = [Delivered [10; 0; 0; 7] 31005] /\
  resolve_local_dst (run None ops) 0 [10; 0; 0; 7] L4UDP [121; 29; 0; 80; 0; 8; 0; 0] None
    = [Delivered [10; 0; 0; 7] 30041] /\
  resolve_local_dst (run None ops) 4 [128; 2; 0; 0] L4UDP [] None = [Delivered [127; 0; 0; 9] 30252] /\
  resolve_local_dst (run (Some (1, 100)) ops) 0 [10; 0; 0; 7] L4UDP [121; 29; 0; 80; 0; 8; 0; 0] None
    = [Delivered [10; 0; 0; 7] 80].
Proof. vm_compute. repeat split; reflexivity. Qed.
