(** C05 at the BYTE level — source / destination / ingress consistency of forwarded packets.
    Property theorems only: Props/C05.v (and the expiry / ingress-interface checks of the same
    ingress stage) transported through [RouterBytes.abstract]; every statement is about an
    arbitrary byte string [raw] and what the C18 decoders read from it. *)
From Coq Require Import List NArith Bool.
From Scion Require Import Lib.Bytes Lib.BytesX Lib.Check.
From Scion Require Import Model.Router Proofs.Router Proofs.RouterInv Model.RouterTotal.
From Scion Require Import Model.RouterBytes Proofs.RouterBytesCodec Proofs.RouterBytes Proofs.RouterBytesLift.
From Scion Require Import Props.C01 Props.C05.
Import ListNotations.
Import RouterBytes.
Local Open Scope N_scope.

Ltac lift_forward H :=
  match type of H with
  | process_bytes ?q ?mq ?c ?now ?ing ?raw = ForwardB ?e ?r ?d =>
    let p := fresh "p" in let out := fresh "out" in let A := fresh "A" in let HP := fresh "HP" in
    destruct (process_bytes_forward_inv q c now ing mq raw e r d H) as (p & out & A & HP & _)
  end.

(** A datagram whose current hop field (as decoded from the bytes) has expired is never forwarded
    nor delivered ... *)
Theorem C05_bytes_expired_never_forwarded : forall qport mac c now ing raw p i h,
  abstract qport raw = Some p -> R.cur_inf p = Some i -> R.cur_hop p = Some h ->
  R.expired now i h = true ->
  forall e raw' d, process_bytes qport (total mac) c now ing raw <> ForwardB e raw' d.
Proof.
  intros qport mac c now ing raw p i h Ap Hi Hh X e raw' d H. lift_forward H.
  unfold abstract in Ap. rewrite A in Ap. injection Ap as ->.
  exact (C01_bad_never_forwarded mac c now ing p i h Hi Hh (or_intror X) e out d HP).
Qed.
Print Assumptions C05_bytes_expired_never_forwarded.

(** ... and neither is one that arrives over an external interface other than the one its
    current hop field names (ConsIngress in construction direction, ConsEgress against it). *)
Theorem C05_bytes_wrong_ingress_never_forwarded : forall qport mac c now ing raw p i h,
  abstract qport raw = Some p -> R.cur_inf p = Some i -> R.cur_hop p = Some h ->
  R.from0 ing = false ->
  R.ing_ifid ing <> (if R.i_consdir i then R.h_in h else R.h_eg h) ->
  forall e raw' d, process_bytes qport (total mac) c now ing raw <> ForwardB e raw' d.
Proof.
  intros qport mac c now ing raw p i h Ap Hi Hh F0 Bad e raw' d H. lift_forward H.
  unfold abstract in Ap. rewrite A in Ap. injection Ap as ->.
  exact (Bad (forward_ingress_id mac c now ing p e out d i h HP Hi Hh F0)).
Qed.
Print Assumptions C05_bytes_wrong_ingress_never_forwarded.

(** From another AS: the source ISD-AS bytes are not the local AS, and the datagram is delivered
    locally (egress 0) iff it is at its last hop and its destination ISD-AS bytes are the local AS. *)
Theorem C05_bytes_inbound : forall qport mac c now ing raw e raw' d,
  R.from0 ing = false ->
  process_bytes qport (total mac) c now ing raw = ForwardB e raw' d ->
  exists p, abstract qport raw = Some p /\
    R.p_src_ia p <> R.c_ia c /\
    (R.is_last_hop p = true <-> R.p_dst_ia p = R.c_ia c) /\
    (e = 0 <-> R.is_last_hop p = true /\ R.p_dst_ia p = R.c_ia c).
Proof.
  intros qport mac c now ing raw e raw' d F0 H. lift_forward H.
  exists p. unfold abstract. rewrite A. split; [reflexivity|].
  exact (C05_inbound mac c now ing p e out d F0 HP).
Qed.
Print Assumptions C05_bytes_inbound.

(** From inside the AS: on its first hop the source is the local AS, the destination is never the
    local AS, and off its first hop it came over the link to the sibling router owning the
    interface through which it claims to have entered. *)
Theorem C05_bytes_outbound : forall qport mac c now ing raw e raw' d,
  R.from0 ing = true ->
  process_bytes qport (total mac) c now ing raw = ForwardB e raw' d ->
  exists p, abstract qport raw = Some p /\
    (R.is_first_hop p = true -> R.p_src_ia p = R.c_ia c) /\ R.p_dst_ia p <> R.c_ia c /\
    (R.is_first_hop p = false ->
     exists id f, R.claimed_ingress p = Some id /\ R.get_if c id = Some f /\
                  R.if_scope f = R.Sibling /\ R.if_link f = R.ing_link ing).
Proof.
  intros qport mac c now ing raw e raw' d F0 H. lift_forward H.
  exists p. unfold abstract. rewrite A. split; [reflexivity|].
  destruct (C05_outbound mac c now ing p e out d F0 HP) as [O1 O2].
  split; [exact O1|]. split; [exact O2|]. intros NF.
  exact (C05_transit mac c now ing p e out d F0 NF HP).
Qed.
Print Assumptions C05_bytes_outbound.

(** Non-vacuity, on datagrams: (1) inbound at its last hop delivered; (2) the same bytes with the
    source ISD-AS overwritten by the local AS answered with InvalidSourceAddress (pointer 20 = the
    source ISD-AS bytes); (3) arriving on interface 1 instead of 2: UnknownHopFieldIngress;
    (4) an old timestamp: PathExpired. *)
Definition run (now : N) (ing : R.ingress) (raw : bytes) : bresult :=
  process_bytes q0 (total ex_mac) ex_cfg now ing raw.
Definition ex_raw : bytes := wrap (ex_pkt 600 100 2 0 1).
Example C05_bytes_example :
  abstract q0 ex_raw = Some (ex_pkt 600 100 2 0 1) /\
  (match run 1000000000001 (R.InExt 2) ex_raw with ForwardB 0 _ (Some _) => True | _ => False end) /\
  (match run 1000000000001 (R.InExt 2) (wrap (ex_pkt 100 100 2 0 1)) with
   | SlowPathB (R.SpScmp 4 33 20) _ _ => True | _ => False end) /\
  (match run 1000000000001 (R.InExt 1) ex_raw with
   | SlowPathB (R.SpScmp 4 49 _) _ _ => True | _ => False end) /\
  (match run 30000000000000 (R.InExt 2) ex_raw with
   | SlowPathB (R.SpScmp 4 52 _) _ _ => True | _ => False end).
Proof. vm_compute. repeat split. Qed.
