(** C03, part 2: the reversed provenance path is well formed over the same
    topology, its interface list is the reversed one, and the real reversal
    ([Network.reverse_path] / [mk_reply], the model of scion.Decoded.Reverse) of
    the packet as delivered is the rendering of the reversed provenance path at
    its first hop — the SegIDs left behind by forwarding are exactly the ones
    the reversed traversal needs (C22). *)
From Coq Require Import List NArith Bool Arith Lia ZifyBool ZifyN ZifyNat.
From Scion Require Import Lib.Check Model.Router Model.Network Model.Prov.
From Scion Require Import Proofs.ProvStruct Proofs.ProvRender Proofs.ForwardView Proofs.ProvFacts
  Proofs.ReverseStruct Proofs.RouterPass.
Import ListNotations.
Import Router Network Prov.

Lemma flat_map_rev {B} (f f' : nat -> list B) : forall m,
  (forall k, (k < m)%nat -> f' k = rev (f (m - 1 - k)%nat)) ->
  flat_map f' (seq 0 m) = rev (flat_map f (seq 0 m)).
Proof.
  intros m. revert f f'. induction m as [|m IH]; intros f f' H; [reflexivity|].
  rewrite seq_S at 2. rewrite flat_map_app, rev_app_distr. cbn [flat_map]. rewrite app_nil_r.
  cbn [seq flat_map]. rewrite <- seq_shift, flat_map_concat_map, map_map, <- flat_map_concat_map.
  rewrite (H 0%nat) by lia. replace (S m - 1 - 0)%nat with m by lia. cbn [Nat.add]. f_equal.
  apply IH. intros k Hk. rewrite (H (S k)) by lia. do 2 f_equal. lia.
Qed.

Lemma list_ext {A} (l l' : list A) :
  length l = length l' -> (forall i, (i < length l)%nat -> nth_error l i = nth_error l' i) -> l = l'.
Proof.
  revert l'. induction l as [|x l IH]; intros [|y l'] HL H; cbn [length] in HL; try lia; [reflexivity|].
  f_equal.
  - specialize (H 0%nat ltac:(cbn; lia)). cbn in H. congruence.
  - apply IH; [lia|]. intros i Hi. apply (H (S i)). cbn. lia.
Qed.

(** the far end of a link points back *)
Lemma far_end_back t a x f b g :
  wf_topo t = true -> find_as t (a_ia a) = Some a -> find_nif (a_ifs a) x = Some f ->
  find_as t (ni_nbr f) = Some b -> find_nif (a_ifs b) (ni_remote f) = Some g ->
  ni_nbr g = a_ia a /\ ni_remote g = x.
Proof.
  intros Hwt Ha Hf Hb Hg. destruct (find_as_ia _ _ _ Ha) as [_ Ia]. destruct (find_nif_id _ _ _ Hf) as [Ix If].
  pose proof (nif_ok_in t Hwt a f Ia If) as K. unfold nif_ok in K.
  apply andb_true_iff in K as [_ K]. rewrite Hb in K. apply andb_true_iff in K as [_ K].
  rewrite Hg in K. apply andb_true_iff in K as [K _]. apply andb_true_iff in K as [K1 K2].
  apply N.eqb_eq in K1, K2. rewrite K2. auto.
Qed.

Section Rev.
Variable mac : N -> N -> N -> N -> N -> N -> list N.
Variable t : topology.
Variable p : prov.
Hypothesis HG : good mac t p.

Notation n := (nhops p).
Notation js := (seg_idx (lens p)).
Notation nsegs := (length (pv_segs p)).
Notation p' := (rev_prov p).
Notation macq := (macq_of mac).
Notation Hs := (Hshape mac t p HG).
Notation HT := (Htot p Hs).
Notation HP := (Hpos p Hs).

(** * Shape *)
Lemma shape_rev : shape_ok p' = true.
Proof.
  destruct (shape_parts p Hs) as ([A B] & T & L64 & F).
  unfold shape_ok. cbv zeta. rewrite rev_nsegs, rev_nhops, rev_lens.
  fold (total (rev (lens p))). rewrite total_rev, T.
  apply andb_true_iff; split; [repeat (apply andb_true_iff; split)|].
  - apply Nat.leb_le; lia.
  - apply Nat.leb_le; lia.
  - apply Nat.eqb_eq; reflexivity.
  - apply Nat.leb_le; lia.
  - apply forallb_forall. intros s Hin. unfold rev_prov in Hin. cbn [pv_segs] in Hin.
    apply in_rev in Hin. apply in_map_iff in Hin as (s0 & <- & Hs0).
    rewrite Forall_forall in F. destruct (F s0 Hs0) as [X Y]. cbn [flip_seg sg_len sg_peer].
    apply andb_true_iff; split; [apply Nat.leb_le; lia|].
    destruct Y as [Y|Y]; [now rewrite Y|]. apply orb_true_iff. right. apply Nat.leb_le. lia.
  - destruct (existsb sg_peer (pv_segs p')) eqn:E; [|reflexivity].
    apply existsb_exists in E as (s & Hin & Ps). unfold rev_prov in Hin. cbn [pv_segs] in Hin.
    apply in_rev in Hin. apply in_map_iff in Hin as (s0 & <- & Hs0). cbn [flip_seg sg_peer] in Ps.
    apply (In_nth _ _ dseg) in Hs0 as (j & Hj & Ej).
    rewrite <- Ej in Ps.
    destruct (peer_shape p Hs j Hj Ps) as (a & b & Eab & Pa & Pb & Ca & Cb & Ka & Kb).
    unfold rev_prov. cbn [pv_segs]. rewrite Eab. cbn [map rev app flip_seg sg_peer sg_consdir sg_kind].
    now rewrite Pa, Pb, Ca, Cb, Ka, Kb.
Qed.

(** * Link types under reversal *)
Lemma eg_type_rev k : (S k < n)%nat -> crosses p (n - 2 - k) = true ->
  eg_type p' k = mirror (eg_type p (n - 2 - k)).
Proof.
  intros Hk C. set (m := (n - 2 - k)%nat) in *.
  assert (Hm : (S m < n)%nat) by (unfold m; lia).
  unfold eg_type. rewrite (rev_peerhop p Hs k) by lia. rewrite (rev_cons p Hs k) by lia.
  rewrite (rev_hdr p Hs k) by lia. cbn [flip_seg sg_kind].
  replace (n - 1 - k)%nat with (S m) by (unfold m; lia).
  destruct (is_first p (S m)) eqn:F.
  - destruct (arrive_first _ _ _ HG m Hm C F) as (_ & _ & Cm & Cm1 & Phm & Phm1 & _).
    rewrite Phm, Phm1, Cm, Cm1. reflexivity.
  - destruct (prev_same p HP HT m Hm F) as (L & J).
    assert (Hh : hdr p m = hdr p (S m)) by (unfold hdr; now rewrite J).
    assert (P1 : peerhop p (S m) && negb (negb (cons p (S m))) = false).
    { unfold peerhop. destruct (cons p (S m)); [now rewrite F, andb_false_r|now rewrite andb_false_r]. }
    assert (P2 : peerhop p m && negb (cons p m) = false).
    { unfold peerhop. destruct (cons p m); [now rewrite andb_false_r|now rewrite L, !andb_false_r]. }
    rewrite P1, P2. unfold cons. rewrite Hh.
    destruct (sg_kind (hdr p (S m))); [reflexivity|]. destruct (sg_consdir (hdr p (S m))); reflexivity.
Qed.

(** * Well-formedness of the reversed path *)
Lemma range_in m k : In k (range m) -> (k < m)%nat.
Proof. unfold range. rewrite in_seq. lia. Qed.

Lemma wf_rev : wf_prov_b macq t p' = true.
Proof.
  pose proof (n_ge2 _ _ _ HG) as N2.
  pose proof HG as (Hwt & Hup & Hwf).
  unfold wf_prov_b. rewrite rev_nhops.
  apply andb_true_iff; split; [apply andb_true_iff; split; [apply andb_true_iff; split;
    [apply andb_true_iff; split; [apply andb_true_iff; split|]|]|]|].
  - apply shape_rev.
  - apply Nat.leb_le. lia.
  - (* MACs *)
    apply forallb_forall. intros k Hk. apply range_in in Hk.
    unfold hop_ok. rewrite (rev_ia p Hs k Hk), (rev_beta p Hs k Hk), (rev_hdr p Hs k Hk), (rev_hop p Hs k Hk).
    cbn [flip_seg sg_ts].
    destruct (hop_fact _ _ _ HG (n - 1 - k) ltac:(lia)) as (a & Fa & _ & M).
    rewrite Fa. unfold macq_of. rewrite <- M. apply list_eqb_N_refl.
  - apply forallb_forall. intros k Hk. apply range_in in Hk.
    assert (Hk1 : (S k < n)%nat) by lia.
    set (m := (n - 2 - k)%nat).
    assert (Hm : (S m < n)%nat) by (unfold m; lia).
    assert (E1 : (n - 1 - k)%nat = S m) by (unfold m; lia).
    assert (E2 : (n - 1 - S k)%nat = m) by (unfold m; lia).
    destruct (pair_fact _ _ _ HG m Hm) as (Ch & Lk & Jn).
    apply andb_true_iff; split; [apply andb_true_iff; split|].
    + (* beta chain *)
      unfold chain_ok. rewrite (rev_is_last p Hs k) by lia. rewrite E1.
      destruct (is_first p (S m)) eqn:F; [reflexivity|]. cbn [orb].
      destruct (prev_same p HP HT m Hm F) as (L & J).
      assert (Hh : hdr p m = hdr p (S m)) by (unfold hdr; now rewrite J).
      unfold chain_ok in Ch. rewrite L in Ch. cbn [orb] in Ch.
      rewrite (rev_cons p Hs k) by lia. rewrite (rev_beta p Hs (S k)), (rev_beta p Hs k) by lia.
      rewrite (rev_peerhop p Hs k), (rev_peerhop p Hs (S k)) by lia.
      rewrite (rev_sigma p Hs k), (rev_sigma p Hs (S k)) by lia. rewrite E1, E2.
      assert (Cc : cons p m = cons p (S m)) by (unfold cons; now rewrite Hh). rewrite Cc in Ch.
      destruct (cons p (S m)); cbn [negb]; apply N.eqb_eq in Ch; apply N.eqb_eq.
      * destruct (peerhop p m); rewrite Ch; [reflexivity|].
        now rewrite N.lxor_assoc, N.lxor_nilpotent, N.lxor_0_r.
      * destruct (peerhop p (S m)); rewrite Ch; [reflexivity|].
        now rewrite N.lxor_assoc, N.lxor_nilpotent, N.lxor_0_r.
    + (* links *)
      unfold link_ok. rewrite (rev_crosses p Hs k Hk1). fold m.
      destruct (crosses p m) eqn:C; [|reflexivity]. cbn [negb orb].
      destruct (link_fact _ _ _ HG m Hm C) as (Ff & Fg & Tf & Tg & Ez & Iz & Up & Nb & Rm).
      destruct (as_of_ok _ _ _ HG m ltac:(lia)) as [Am Im].
      destruct (as_of_ok _ _ _ HG (S m) Hm) as [Am1 Im1].
      rewrite (rev_ia p Hs k) by lia. rewrite E1, Am1.
      rewrite (rev_tr_eg p Hs k) by lia. rewrite E1, Fg.
      rewrite (rev_ia p Hs (S k)), (rev_tr_in p Hs (S k)) by lia. rewrite E2.
      assert (Fb : find_as t (ni_nbr (nif_of t p m (tr_eg p m))) = Some (as_of t p (S m))) by (now rewrite Nb).
      assert (Fgb : find_nif (a_ifs (as_of t p (S m))) (ni_remote (nif_of t p m (tr_eg p m))) =
                    Some (nif_of t p (S m) (tr_in p (S m)))) by (now rewrite Rm).
      destruct (far_end_back t (as_of t p m) (tr_eg p m) _ _ _ Hwt (as_of_self _ _ _ HG m ltac:(lia)) Ff Fb Fgb)
        as (Gn & Gr).
      rewrite Gn, Im, Gr, !N.eqb_refl. cbn [andb].
      rewrite Tg, (eg_type_rev k Hk1 C). fold m. destruct (mirror (eg_type p m)); reflexivity.
    + (* segment changes *)
      unfold junction_ok. rewrite (rev_crosses p Hs k Hk1). fold m.
      destruct (crosses p m) eqn:C; [reflexivity|]. cbn [orb].
      unfold junction_ok in Jn. rewrite C in Jn. cbn [orb] in Jn.
      apply andb_true_iff in Jn as [Ia Kk]. apply N.eqb_eq in Ia.
      rewrite (rev_ia p Hs k), (rev_ia p Hs (S k)) by lia. rewrite E1, E2, Ia, N.eqb_refl. cbn [andb].
      rewrite (rev_hdr p Hs k), (rev_hdr p Hs (S k)) by lia. cbn [flip_seg sg_kind].
      rewrite (rev_cons p Hs k), (rev_cons p Hs (S k)) by lia. rewrite E1, E2.
      destruct (sg_kind (hdr p m)), (sg_kind (hdr p (S m))); try discriminate;
        destruct (cons p m), (cons p (S m)); try discriminate; reflexivity.
  - apply forallb_forall. intros k Hk. apply in_seq in Hk.
    rewrite (rev_ia p Hs k), (rev_ia p Hs 0) by lia. rewrite Nat.sub_0_r.
    apply negb_true_iff, N.eqb_neq. apply (ia_not_dst _ _ _ HG). lia.
  - apply forallb_forall. intros k Hk. apply range_in in Hk.
    rewrite (rev_ia p Hs k), (rev_ia p Hs (n - 1)) by lia. replace (n - 1 - (n - 1))%nat with 0%nat by lia.
    apply negb_true_iff, N.eqb_neq. apply (ia_not_src _ _ _ HG); lia.
Qed.

Lemma good_rev : good mac t p'.
Proof. destruct HG as (A & B & C). repeat split; try assumption. apply wf_rev. Qed.

(** * Interfaces *)
Lemma interfaces_rev : interfaces p' = rev (interfaces p).
Proof.
  unfold interfaces. rewrite rev_nhops.
  apply flat_map_rev. intros k Hk.
  rewrite (rev_crosses p Hs k) by lia.
  replace (n - 1 - 1 - k)%nat with (n - 2 - k)%nat by lia.
  destruct (crosses p (n - 2 - k)); [|reflexivity].
  rewrite (rev_ia p Hs k), (rev_ia p Hs (S k)), (rev_tr_eg p Hs k), (rev_tr_in p Hs (S k)) by lia.
  replace (n - 1 - k)%nat with (S (n - 2 - k)) by lia.
  replace (n - 1 - S k)%nat with (n - 2 - k)%nat by lia. reflexivity.
Qed.

(** * Expiry *)
Lemma unexpired_rev now : all_unexpired now p = true -> all_unexpired now p' = true.
Proof.
  intros H. unfold all_unexpired in *. rewrite rev_nhops.
  apply forallb_forall. intros k Hk. apply range_in in Hk.
  unfold hop_unexpired. rewrite (rev_hdr p Hs k Hk), (rev_hop p Hs k Hk). cbn [flip_seg sg_ts].
  apply (forallb_range _ _ (n - 1 - k) H). lia.
Qed.

(** * The reversal of the delivered packet *)

(** the last hop lies in the last slice *)
Lemma js_last : js (n - 1) = (nsegs - 1)%nat.
Proof.
  pose proof (n_ge2 _ _ _ HG) as N2.
  destruct (pos_facts p HT (n - 1) ltac:(lia)) as (A & B & C).
  destruct (Nat.eq_dec (js (n - 1)) (nsegs - 1)) as [E|E]; [assumption|exfalso].
  pose proof (seg_start_mono (lens p) (js (n - 1)) (nsegs - 1) ltac:(lia) ltac:(rewrite lens_length; lia)) as M.
  rewrite nth_lens, <- hdr_nth in M.
  pose proof (seg_start_total (lens p) (nsegs - 1) ltac:(rewrite lens_length; lia)) as T.
  rewrite HT in T. pose proof (lens_ge1 p Hs (nsegs - 1) ltac:(lia)). lia.
Qed.

(** SegID of info field [j] of the reply = SegID the delivered packet carries in the
    matching info field *)
Lemma sid_rev j : (j < nsegs)%nat -> sid p' j 0 false = sid p (nsegs - 1 - j) (n - 1) true.
Proof.
  intros Hj. pose proof (n_ge2 _ _ _ HG) as N2.
  set (j2 := (nsegs - 1 - j)%nat).
  assert (Hj2 : (j2 < nsegs)%nat) by (unfold j2; lia).
  pose proof (seg_start_rev (lens p) j ltac:(rewrite lens_length; lia)) as R.
  rewrite lens_length, HT in R. replace (nsegs - j)%nat with (S j2) in R by (unfold j2; lia).
  rewrite (seg_start_next (lens p) j2) in R by (rewrite lens_length; lia). rewrite nth_lens in R.
  pose proof (len_pos p HP j2 Hj2) as L1.
  (* left: the first hop of slice j of the reversed path *)
  unfold sid at 1. unfold clampi. rewrite rev_lens.
  replace (if sg_consdir (nth j (pv_segs p') dseg) || false then 0%nat else Nat.pred 0) with 0%nat
    by (destruct (sg_consdir (nth j (pv_segs p') dseg) || false); reflexivity).
  cbn [Nat.sub Nat.min]. rewrite Nat.add_0_r.
  rewrite (rev_beta p Hs) by lia.
  (* right: the last hop of slice j2 *)
  unfold sid, clampi. rewrite orb_true_r. fold j2.
  pose proof (seg_start_total (lens p) j2 ltac:(rewrite lens_length; lia)) as T.
  rewrite HT, nth_lens in T. f_equal. lia.
Qed.

Lemma rinfo_rev j : (j < nsegs)%nat ->
  rinfo p' 0 false j = flip_consdir (rinfo p (n - 1) true (nsegs - 1 - j)).
Proof.
  intros Hj. unfold rinfo, flip_consdir. cbv zeta. cbn [i_peer i_consdir i_segid i_ts i_rsv].
  rewrite (rev_seg_nth p Hs j Hj). cbn [flip_seg sg_peer sg_consdir sg_ts]. now rewrite sid_rev.
Qed.

Lemma seg_idx_rev0 : seg_idx (lens p') 0 = 0%nat.
Proof.
  pose proof (n_ge2 _ _ _ HG) as N2.
  destruct (first_0 p' (Hpos p' shape_rev) (Htot p' shape_rev)) as [_ J]; [rewrite rev_nhops; lia|exact J].
Qed.

Lemma reverse_render pp st sr pay port :
  mk_reply (render p pp (n - 1) true) st sr pay port =
  Some (render p' (rev_params pp st sr pay port) 0 false).
Proof.
  pose proof (n_ge2 _ _ _ HG) as N2.
  destruct (shape_parts p Hs) as ([A B] & _).
  assert (Hops : rev (map rhop (pv_hops p)) = map rhop (pv_hops p')).
  { unfold rev_prov. cbn [pv_hops]. now rewrite map_rev. }
  assert (Inf : map flip_consdir (rev (rinfos p (n - 1) true)) = rinfos p' 0 false).
  { unfold rinfos. rewrite rev_nsegs. rewrite <- map_rev, map_map.
    apply list_ext.
    - now rewrite !map_length, rev_length, !seq_length.
    - intros i Hi. rewrite map_length, rev_length, seq_length in Hi.
      rewrite nth_error_map_seq by assumption.
      erewrite map_nth_error.
      2:{ rewrite (nth_error_nth' _ 0%nat) by (now rewrite rev_length, seq_length).
          rewrite rev_nth by (now rewrite seq_length). rewrite seq_length, seq_nth by lia. reflexivity. }
      cbn [Nat.add]. rewrite rinfo_rev by assumption.
      replace (nsegs - S i)%nat with (nsegs - 1 - i)%nat by lia. reflexivity. }
  assert (CH : (((N.of_nat n + 256 - N.of_nat (n - 1) - 1) mod 256) mod 64 = 0)%N).
  { replace (N.of_nat n + 256 - N.of_nat (n - 1) - 1)%N with 256%N by lia. reflexivity. }
  assert (CI : (((N.of_nat nsegs + 256 - N.of_nat (nsegs - 1) - 1) mod 256) mod 4 = 0)%N).
  { replace (N.of_nat nsegs + 256 - N.of_nat (nsegs - 1) - 1)%N with 256%N by lia. reflexivity. }
  unfold mk_reply, reverse_path.
  rewrite (num_inf_render p pp Hs), (num_hops_render p pp Hs).
  replace (N.of_nat nsegs =? 0)%N with false by lia.
  unfold render, rev_params.
  cbn [p_dst_ia p_src_ia p_dst_type p_src_type p_dst_raw p_src_raw p_pay_len p_pay_actual p_l4_port
       p_curr_inf p_curr_hf p_seg0 p_seg1 p_seg2 p_meta_rsv p_infos p_hops
       pp_dst_ia pp_src_ia pp_dst_type pp_src_type pp_dst_raw pp_src_raw pp_pay pp_port].
  rewrite js_last, CH, CI, seg_idx_rev0, Hops. cbn [N.of_nat].
  unfold len_at. rewrite rev_lens. rewrite <- Inf.
  destruct (segs_cases p Hs) as [[a E]|[[a [b E]]|[a [b [c E]]]]];
    unfold rinfos, lens; rewrite E;
    cbn [length map seq rev app nth N.of_nat N.eqb Pos.eqb swap_ends last removelast
         p_curr_inf p_curr_hf p_seg0 p_seg1 p_seg2 p_meta_rsv p_infos p_hops];
    reflexivity.
Qed.

End Rev.
