(** Lemmas about Model/Extend.v. *)
From Coq Require Import List NArith ZArith Bool Lia.
From Coq Require Import ZifyBool ZifyN ZifyNat.
From Scion Require Import Lib.Check Lib.Bytes Model.Extend.
Import ListNotations.
Import Extend.
Local Open Scope Z_scope.

(** ---------- ExpTimeFromDuration / ExpTimeToDuration *)
Lemma exp_unit_val : exp_unit = 337500000000.
Proof. reflexivity. Qed.
Lemma max_ttl_val : max_ttl = 86400000000000.
Proof. reflexivity. Qed.

Lemma exp_from_dur_spec d e :
  exp_from_dur d = Some e ->
  0 <= e <= 255 /\ exp_to_dur e <= d /\ d < exp_to_dur e + exp_unit /\ exp_unit <= d <= max_ttl.
Proof.
  unfold exp_from_dur, exp_to_dur. rewrite exp_unit_val, max_ttl_val.
  destruct (d <? 337500000000) eqn:A; [discriminate|].
  destruct (d >? 86400000000000) eqn:B; [discriminate|].
  intros H. inversion H; subst e; clear H.
  assert (Hq : 1 <= d * 256 / 86400000000000 <= 256).
  { split; [apply Z.div_le_lower_bound; lia|apply Z.div_le_upper_bound; lia]. }
  rewrite Z.mod_small by lia.
  pose proof (Z.mul_div_le (d * 256) 86400000000000 ltac:(lia)).
  pose proof (Z.mul_succ_div_gt (d * 256) 86400000000000 ltac:(lia)).
  lia.
Qed.

Lemma exp_from_dur_none d : exp_from_dur d = None <-> d < exp_unit \/ d > max_ttl.
Proof.
  unfold exp_from_dur. destruct (d <? exp_unit) eqn:A; [split; [lia|reflexivity]|].
  destruct (d >? max_ttl) eqn:B; [split; [lia|reflexivity]|]. split; [discriminate|lia].
Qed.

Lemma exp_to_dur_mono a b : exp_to_dur a < exp_to_dur b -> a < b.
Proof. unfold exp_to_dur. rewrite exp_unit_val. lia. Qed.

(** ---------- LastExpiring *)
Lemma number_in {A} (l : list A) : forall n i x,
  In (i, x) (number n l) -> (n <= i)%N /\ nth_error l (N.to_nat (i - n)) = Some x.
Proof.
  induction l as [|y t IH]; intros n i x H; [destruct H|]. cbn [number] in H. destruct H as [H|H].
  - inversion H; subst. split; [lia|]. now rewrite N.sub_diag.
  - apply IH in H as [H1 H2]. split; [lia|].
    replace (N.to_nat (i - n)) with (S (N.to_nat (i - (n + 1)))) by lia. exact H2.
Qed.

Lemma number_has {A} (l : list A) x : In x l -> forall n, exists i, In (i, x) (number n l).
Proof.
  induction l as [|y t IH]; intros H n; [destruct H|]. cbn [number]. destruct H as [->|H].
  - exists n. now left.
  - destruct (IH H (n + 1)%N) as (i & Hi). exists i. now right.
Qed.

Lemma fold_latest rest : forall c : N * signer,
  let r := fold_left (fun latest s => if s_na (snd s) >? s_na (snd latest) then s else latest) rest c in
  In r (c :: rest) /\ forall s, In s (c :: rest) -> s_na (snd s) <= s_na (snd r).
Proof.
  induction rest as [|x t IH]; intros c; cbn [fold_left].
  - split; [now left|]. intros s [<-|[]]. lia.
  - destruct (s_na (snd x) >? s_na (snd c)) eqn:E.
    + destruct (IH x) as [H1 H2]. split.
      * destruct H1 as [H1|H1]; [right; now left|right; now right].
      * intros s [<-|[<-|Hs]].
        -- specialize (H2 x (or_introl eq_refl)). lia.
        -- apply H2. now left.
        -- apply H2. now right.
    + destruct (IH c) as [H1 H2]. split.
      * destruct H1 as [H1|H1]; [now left|right; now right].
      * intros s [<-|[<-|Hs]].
        -- apply H2. now left.
        -- specialize (H2 c (or_introl eq_refl)). lia.
        -- apply H2. now right.
Qed.

Lemma last_expiring_some ss ts now idx sg :
  last_expiring ss ts now = Some (idx, sg) ->
  nth_error ss (N.to_nat idx) = Some sg /\ covers sg ts now = true /\
  forall sg', In sg' ss -> covers sg' ts now = true -> s_na sg' <= s_na sg.
Proof.
  unfold last_expiring.
  destruct (filter (fun p => covers (snd p) ts now) (number 0%N ss)) as [|c rest] eqn:F; [discriminate|].
  intros H. inversion H as [Hr]; clear H.
  destruct (fold_latest rest c) as [Hin Hmax]. rewrite Hr in Hin, Hmax.
  rewrite <- F in Hin. apply filter_In in Hin as [Hin Hc]. cbn [snd] in Hc.
  apply number_in in Hin as [_ Hn]. rewrite N.sub_0_r in Hn.
  split; [exact Hn|]. split; [exact Hc|]. intros sg' Hs Hc'.
  destruct (number_has ss sg' Hs 0%N) as (i & Hi).
  assert (X : In (i, sg') (c :: rest)) by (rewrite <- F; apply filter_In; split; [exact Hi|exact Hc']).
  apply (Hmax (i, sg') X).
Qed.

Lemma last_expiring_none ss ts now :
  last_expiring ss ts now = None -> forall sg, In sg ss -> covers sg ts now = false.
Proof.
  unfold last_expiring.
  destruct (filter (fun p => covers (snd p) ts now) (number 0%N ss)) as [|c rest] eqn:F; [|discriminate].
  intros _ sg Hs. destruct (covers sg ts now) eqn:C; [|reflexivity]. exfalso.
  destruct (number_has ss sg Hs 0%N) as (i & Hi).
  assert (X : In (i, sg) []) by (rewrite <- F; apply filter_In; split; [exact Hi|exact C]). destruct X.
Qed.

(** ---------- peers *)
Section WithMac.
Variable mac : list N -> option (list N).

Definition peer_ok (t : intfs) (beta : N) (ts exp : Z) (eg : N) (p : peer) : Prop :=
  hop_mac mac beta ts exp (p_in p) eg = Some (p_mac p) /\ p_exp p = exp /\ p_eg p = eg /\
  remote_info t (p_in p) = Some (p_ia p, p_rif p, p_mtu p).

Lemma peer_entries_spec t beta ts exp eg ps : forall pes,
  peer_entries mac t beta ts exp eg ps = Some pes ->
  Forall (peer_ok t beta ts exp eg) pes /\ (forall p, In p pes -> In (p_in p) ps).
Proof.
  induction ps as [|p rest IH]; intros pes; cbn [peer_entries].
  - intros H; inversion H. split; [constructor|intros p []].
  - destruct (remote_info t p) as [[[pia rif] mtu]|] eqn:R.
    + destruct (hop_mac mac beta ts exp p eg) as [m|] eqn:M; [|discriminate].
      destruct (peer_entries mac t beta ts exp eg rest) as [r|]; [|discriminate].
      intros H; inversion H; subst pes. destruct (IH r eq_refl) as [F I]. split.
      * constructor; [|exact F]. unfold peer_ok. cbn. auto.
      * intros q [<-|Hq]; [now left|right; now apply I].
    + intros H. destruct (IH pes H) as [F I]. split; [exact F|]. intros q Hq. right. now apply I.
Qed.

(** ---------- Extend: everything an accepted extension implies *)
Record accepted (c : cfg) (signers : list signer) (now : Z) (s : segment) (ingress egress : N) (peers : list N)
                (e : entry) (idx : N) (sg : signed_input) (sgn : signer) : Prop := {
  a_mtu : c_mtu c <> 0%N;
  a_pos : position_inconsistent s ingress egress = false;
  a_signer : last_expiring signers (ns (s_ts s)) now = Some (idx, sgn);
  a_exp : (if ns (s_ts s) + exp_to_dur (c_maxexp c) >? s_na sgn
           then exp_from_dur (s_na sgn - ns (s_ts s)) else Some (c_maxexp c)) = Some (e_exp e);
  a_local : e_local e = c_ia c;
  a_next : remote_ia (c_ifs c) egress = Some (e_next e);
  a_in : e_in e = ingress;
  a_eg : e_eg e = egress;
  a_mtus : e_mtu e = c_mtu c /\ remote_mtu (c_ifs c) ingress = Some (e_inmtu e);
  a_mac : hop_mac mac (extract_beta s) (s_ts s) (e_exp e) ingress egress = Some (e_mac e);
  a_peers : peer_entries mac (c_ifs c) (N.lxor (extract_beta s) (sigma (e_mac e))) (s_ts s) (e_exp e) egress peers
            = Some (e_peers e);
  a_valid : validate (map fst (s_entries s) ++ [e]) (negb (egress =? 0)%N) = true;
  a_signed : sg = {| sg_body := e; sg_info := (s_ts s, s_segid s); sg_prev := map snd (s_entries s) |}
}.

Lemma extend_ok c signers gen_err now s ingress egress peers e idx sg :
  extend mac c signers gen_err now s ingress egress peers = Ok e idx sg ->
  gen_err = false /\ exists sgn, accepted c signers now s ingress egress peers e idx sg sgn.
Proof.
  unfold extend. destruct (c_mtu c =? 0)%N eqn:M; [discriminate|].
  set (first := match s_entries s with [] => true | _ => false end).
  destruct ((ingress =? 0)%N && negb first) eqn:P1; [discriminate|].
  destruct (negb (ingress =? 0)%N && first) eqn:P2; [discriminate|].
  destruct ((ingress =? 0)%N && (egress =? 0)%N) eqn:P3; [discriminate|].
  destruct gen_err; [discriminate|].
  destruct (last_expiring signers (ns (s_ts s)) now) as [[idx' sgn]|] eqn:L; [|discriminate].
  destruct (if ns (s_ts s) + exp_to_dur (c_maxexp c) >? s_na sgn
            then exp_from_dur (s_na sgn - ns (s_ts s)) else Some (c_maxexp c)) as [exp|] eqn:X; [|discriminate].
  destruct (remote_mtu (c_ifs c) ingress) as [inmtu|] eqn:RM; [|discriminate].
  destruct (hop_mac mac (extract_beta s) (s_ts s) exp ingress egress) as [hm|] eqn:HM; [|discriminate].
  destruct (peer_entries mac (c_ifs c) (N.lxor (extract_beta s) (sigma hm)) (s_ts s) exp egress peers) as [pes|] eqn:PE;
    [|discriminate].
  destruct (remote_ia (c_ifs c) egress) as [next|] eqn:RI; [|discriminate].
  match goal with |- (if validate ?l ?b then _ else _) = _ -> _ => destruct (validate l b) eqn:V end; [|discriminate].
  intros H. inversion H; subst e idx sg; clear H. split; [reflexivity|]. exists sgn.
  constructor; cbn [e_local e_next e_mtu e_inmtu e_in e_eg e_exp e_mac e_peers]; auto.
  - apply N.eqb_neq. exact M.
  - unfold position_inconsistent. fold first. now rewrite P1, P2, P3.
Qed.

(** rejection cases of the statement *)
Lemma extend_rejects_position c signers gen_err now s ingress egress peers :
  position_inconsistent s ingress egress = true ->
  exists x, extend mac c signers gen_err now s ingress egress peers = Err x.
Proof.
  unfold extend, position_inconsistent. intros H.
  destruct (c_mtu c =? 0)%N; [eexists; reflexivity|].
  set (first := match s_entries s with [] => true | _ => false end) in *.
  destruct ((ingress =? 0)%N && negb first); [eexists; reflexivity|].
  destruct (negb (ingress =? 0)%N && first); [eexists; reflexivity|].
  destruct ((ingress =? 0)%N && (egress =? 0)%N); [eexists; reflexivity|discriminate].
Qed.

Lemma extend_not_ok_is_err_or_miss c signers gen_err now s ingress egress peers :
  match extend mac c signers gen_err now s ingress egress peers with
  | Ok _ _ _ => True | Err _ => True | MacMiss => True end.
Proof. destruct (extend mac c signers gen_err now s ingress egress peers); exact I. Qed.

End WithMac.

(** ---------- expiry *)
Lemma expiry_bound maxexp ts na exp :
  0 <= maxexp <= 255 ->
  (if ts + exp_to_dur maxexp >? na then exp_from_dur (na - ts) else Some maxexp) = Some exp ->
  0 <= exp <= maxexp /\ ts + exp_to_dur exp <= Z.min (ts + exp_to_dur maxexp) na.
Proof.
  intros Hm. destruct (ts + exp_to_dur maxexp >? na) eqn:C.
  - intros H. apply exp_from_dur_spec in H as (H1 & H2 & _ & _).
    assert (exp < maxexp) by (apply exp_to_dur_mono; lia).
    unfold exp_to_dur in *. rewrite exp_unit_val in *. lia.
  - intros H. inversion H; subst exp. lia.
Qed.

(** ---------- the oracle holds on the model *)
Lemma ia_eqb_refl a : ia_eqb a a = true.
Proof. unfold ia_eqb. now rewrite !N.eqb_refl. Qed.

Lemma bytes_eqb_refl l : bytes_eqb l l = true.
Proof. now apply bytes_eqb_eq. Qed.

Lemma list_N_eqb_refl l : list_eqb N.eqb l l = true.
Proof. apply list_eqb_eq; [intros; apply N.eqb_eq|reflexivity]. Qed.

Lemma peer_eqb_refl p : peer_eqb p p = true.
Proof. unfold peer_eqb. now rewrite ia_eqb_refl, !N.eqb_refl, Z.eqb_refl, bytes_eqb_refl. Qed.

Lemma entry_eqb_refl e : entry_eqb e e = true.
Proof.
  unfold entry_eqb. rewrite !ia_eqb_refl, !N.eqb_refl, Z.eqb_refl, bytes_eqb_refl. cbn [andb].
  induction (e_peers e) as [|p t IH]; [reflexivity|]. cbn. now rewrite peer_eqb_refl, IH.
Qed.

(** the model's own result as an observation; the two verdicts computed on the
    Go side are replaced by what the model establishes *)
Definition obs_of (r : result) : option obs :=
  match r with
  | Ok e idx sg => Some {| o_entry := e; o_signer := idx; o_assoc := assoc_codes (length (sg_prev sg));
                           o_body_ok := entry_eqb (sg_body sg) e; o_macs_ok := true |}
  | _ => None
  end.

Lemma oracle_model c signers gen_err now s ingress egress peers macs :
  0 <= c_maxexp c <= 255 ->
  oracle c signers now s ingress egress macs
         (obs_of (extend (table_mac macs) c signers gen_err now s ingress egress peers)) = true.
Proof.
  intros Hm. destruct (extend (table_mac macs) c signers gen_err now s ingress egress peers) as [e idx sg| |] eqn:E;
    [|reflexivity|reflexivity].
  apply extend_ok in E as (_ & sgn & A). destruct A.
  destruct (last_expiring_some _ _ _ _ _ a_signer0) as (Hn & Hc & _).
  destruct (expiry_bound _ _ _ _ Hm a_exp0) as (He & Hb).
  cbn [obs_of oracle o_entry o_signer o_assoc o_body_ok o_macs_ok].
  rewrite a_pos0, a_local0, ia_eqb_refl, a_next0, ia_eqb_refl, a_in0, a_eg0, !N.eqb_refl. cbn [negb andb].
  rewrite a_signed0. cbn [sg_body sg_prev]. rewrite entry_eqb_refl, map_length, list_N_eqb_refl. cbn [andb].
  rewrite Hn, Hc. cbn [andb].
  replace (0 <=? e_exp e) with true by lia. replace (e_exp e <=? c_maxexp c) with true by lia.
  replace (ns (s_ts s) + exp_to_dur (e_exp e) <=? s_na sgn) with true by lia. cbn [andb].
  unfold mac_verifies. rewrite a_mac0, bytes_eqb_refl. cbn [andb].
  apply forallb_forall. intros p Hp.
  destruct (peer_entries_spec _ _ _ _ _ _ _ _ a_peers0) as [F _]. rewrite Forall_forall in F.
  destruct (F p Hp) as (P1 & P2 & P3 & _). rewrite P2, P3, P1, bytes_eqb_refl, Z.eqb_refl, N.eqb_refl. reflexivity.
Qed.

Lemma check_exp_oracle d :
  match exp_from_dur d with
  | Some e => (0 <=? e) && (e <=? 255) && (exp_to_dur e =? exp_to_dur e) && (exp_to_dur e <=? d) && (d <? exp_to_dur e + exp_unit)
  | None => (d <? exp_unit) || (d >? max_ttl)
  end = true.
Proof.
  destruct (exp_from_dur d) as [e|] eqn:E.
  - apply exp_from_dur_spec in E. lia.
  - apply exp_from_dur_none in E. lia.
Qed.
