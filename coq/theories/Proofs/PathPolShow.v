(** C47 audit follow-up: a fully parenthesised printer [show] for sequence
    expressions, and the proof that the specification parser (lexer, hop parser,
    precedence climbing with its fuel) reads [show e] back as exactly [e].
    This ties the TEXT of an expression to its language and shows that the fuel
    [2 * length ts + 4] of [new_sequence] is adequate on the image of [show]. *)
From Coq Require Import String Ascii.
From Coq Require Import List NArith ZArith Bool Lia ZifyBool ZifyN ZifyNat.
From Scion Require Import Lib.Check Lib.Regex Model.AddrFmt Proofs.AddrFmt Model.PathPol.
Import ListNotations.
Import AddrFmt PathPol.
Local Open Scope N_scope.

(** ---------------------------------------------------------------- the printer, token level *)
Definition num_tok (i : N) : tok := if i =? 0 then TZero else TNum (print_uint 10 i).

Definition bad_as_text : str := Eval compute in s2l "4294967296".   (* no AS number *)

Definition as_tok (a : option N) : tok :=
  match a with
  | None => TLegacyAS bad_as_text
  | Some v => if v =? 0 then TWildAS
              else if v <=? max_bgp then TLegacyAS (fmt_as colon v)
              else TAS (fmt_as colon v)
  end.

Definition hop_toks (p : hpred) : list tok :=
  match p with
  | HPIsd i => [num_tok i]
  | HPIsdAs i a => [num_tok i; as_tok a]
  | HPIf i a f => [num_tok i; as_tok a; THash; num_tok f]
  | HPInOut i a f o => [num_tok i; as_tok a; THash; num_tok f; TComma; num_tok o]
  end.

(** every sub-expression in parentheses *)
Fixpoint atom_toks (e : seq) : list tok :=
  TLPar ::
  match e with
  | SHop p => hop_toks p
  | SCat a b => atom_toks a ++ atom_toks b
  | SOr a b => atom_toks a ++ TBar :: atom_toks b
  | SOpt a => atom_toks a ++ [TQ]
  | SPlus a => atom_toks a ++ [TPlus]
  | SStar a => atom_toks a ++ [TStar]
  end ++ [TRPar].

(** AS values that have a text *)
Definition as_wf (a : option N) : Prop := match a with Some v => v <= max_as | None => True end.
Definition hp_wf_seq (p : hpred) : Prop :=
  match p with HPIsd _ => True | HPIsdAs _ a | HPIf _ a _ | HPInOut _ a _ _ => as_wf a end.
Fixpoint seq_wf (e : seq) : Prop :=
  match e with
  | SHop p => hp_wf_seq p
  | SCat a b | SOr a b => seq_wf a /\ seq_wf b
  | SOpt a | SPlus a | SStar a => seq_wf a
  end.

(** ---------------------------------------------------------------- hop level *)
Lemma p_num_tok i : p_num (num_tok i) = Some i.
Proof.
  unfold num_tok. destruct (i =? 0) eqn:E; cbn [p_num]; [f_equal; lia|].
  unfold num_val. now rewrite print_uint_val by lia.
Qed.

Lemma p_as_num_tok i : p_as (num_tok i) = None.
Proof. unfold num_tok. now destruct (i =? 0). Qed.

Lemma p_as_tok a : as_wf a -> p_as (as_tok a) = Some a.
Proof.
  destruct a as [v|]; cbn [as_wf as_tok]; [|reflexivity]. intros Hv.
  destruct (v =? 0) eqn:E0; [cbn; do 2 f_equal; lia|].
  destruct (v <=? max_bgp); cbn [p_as]; unfold as_val;
    (rewrite parse_fmt_as; [reflexivity | apply sep_ok_head, colon_ok | assumption]).
Qed.

Lemma p_num_as_tok a : p_num (as_tok a) = None.
Proof. destruct a as [v|]; cbn [as_tok]; [|reflexivity]. destruct (v =? 0); [reflexivity|]. now destruct (v <=? max_bgp). Qed.

Lemma p_hop_toks p rest : hp_wf_seq p ->
  p_hop (hop_toks p ++ TRPar :: rest) = Some (p, TRPar :: rest).
Proof.
  destruct p as [i|i a|i a f|i a f o]; cbn [hop_toks hp_wf_seq app p_hop]; intros Hw;
    rewrite ?p_num_tok, ?p_as_tok by assumption; cbn [p_as]; rewrite ?p_num_tok; reflexivity.
Qed.

(** ---------------------------------------------------------------- parser level: fuel *)
Fixpoint cost (e : seq) : nat :=
  match e with
  | SHop _ => 2
  | SCat a b | SOr a b => S (S (S (cost a + cost b)))
  | SOpt a | SPlus a | SStar a => S (S (S (cost a)))
  end.

Lemma cost_ge2 e : exists x, cost e = S (S x).
Proof. destruct e; cbn [cost]; eauto. Qed.

Notation parse_spec := (parse 3 4).
Notation ploop_spec := (ploop 3 4).

Lemma ploop_rpar f p e rest : ploop_spec (S f) p e (TRPar :: rest) = Some (e, TRPar :: rest).
Proof. reflexivity. Qed.

Lemma ploop_nil f p e : ploop_spec (S f) p e [] = Some (e, []).
Proof. reflexivity. Qed.

(** body of a parenthesis: parsed back, stopping at the closing parenthesis *)
Definition body_toks (e : seq) : list tok :=
  match e with
  | SHop p => hop_toks p
  | SCat a b => atom_toks a ++ atom_toks b
  | SOr a b => atom_toks a ++ TBar :: atom_toks b
  | SOpt a => atom_toks a ++ [TQ]
  | SPlus a => atom_toks a ++ [TPlus]
  | SStar a => atom_toks a ++ [TStar]
  end.

Lemma atom_body e : atom_toks e = TLPar :: body_toks e ++ [TRPar].
Proof. destruct e; reflexivity. Qed.

Lemma hop_toks_head p : exists t r, hop_toks p = t :: r /\ (t = TZero \/ exists d, t = TNum d).
Proof.
  assert (H : forall i, num_tok i = TZero \/ exists d, num_tok i = TNum d).
  { intros i. unfold num_tok. destruct (i =? 0); eauto. }
  destruct p as [i|i a|i a f|i a f o]; cbn [hop_toks]; eexists _, _; (split; [reflexivity|apply H]).
Qed.

Lemma ploop_cat_step f e b rest :
  ploop_spec (S f) 0 e (atom_toks b ++ rest) =
  match parse_spec f 5 (atom_toks b ++ rest) with
  | Some (e2, r2) => ploop_spec f 0 (SCat e e2) r2
  | None => None
  end.
Proof. rewrite (atom_body b). reflexivity. Qed.

Lemma ploop_or_step f e ts :
  ploop_spec (S f) 0 e (TBar :: ts) =
  match parse_spec f 4 ts with
  | Some (e2, r2) => ploop_spec f 0 (SOr e e2) r2
  | None => None
  end.
Proof. reflexivity. Qed.

Lemma ploop_post_step f e rest :
  ploop_spec (S f) 0 e (TQ :: rest) = ploop_spec f 0 (SOpt e) rest /\
  ploop_spec (S f) 0 e (TPlus :: rest) = ploop_spec f 0 (SPlus e) rest /\
  ploop_spec (S f) 0 e (TStar :: rest) = ploop_spec f 0 (SStar e) rest.
Proof. repeat split; reflexivity. Qed.

Lemma parse_body : forall e, seq_wf e -> forall k rest,
  parse_spec (cost e + k) 0 (body_toks e ++ TRPar :: rest) = Some (e, TRPar :: rest).
Proof.
  assert (Hatom : forall e, (forall k rest, parse_spec (cost e + k) 0 (body_toks e ++ TRPar :: rest) =
                                            Some (e, TRPar :: rest)) ->
            forall k p rest, parse_spec (S (cost e + k)) p (atom_toks e ++ rest) =
                             ploop_spec (cost e + k) p e rest).
  { intros e He k p rest. rewrite atom_body. cbn [app]. rewrite <- app_assoc. cbn [app].
    cbn [parse]. now rewrite He. }
  induction e as [hp|a IHa b IHb|a IHa b IHb|a IHa|a IHa|a IHa]; intros Hw k rest.
  - (* hop *)
    cbn [cost body_toks]. cbn [Nat.add].
    destruct (hop_toks_head hp) as (t & r & Et & Ht).
    cbn [parse]. rewrite Et. cbn [app].
    assert (Ep : p_hop (t :: r ++ TRPar :: rest) = Some (hp, TRPar :: rest)).
    { rewrite <- (p_hop_toks hp rest Hw), Et. reflexivity. }
    destruct Ht as [->|(d & ->)]; rewrite Ep; reflexivity.
  - (* Cat *)
    destruct Hw as [Hwa Hwb]. cbn [cost body_toks]. rewrite <- app_assoc.
    destruct (cost_ge2 b) as (xb & Eb).
    replace (S (S (S (cost a + cost b))) + k)%nat with (S (cost a + (S (S (cost b + k)))))%nat by lia.
    rewrite (Hatom a (IHa Hwa)).
    replace (cost a + S (S (cost b + k)))%nat with (S (S (cost b + (cost a + k))))%nat by lia.
    rewrite ploop_cat_step.
    rewrite (Hatom b (IHb Hwb)).
    rewrite Eb. cbn [Nat.add]. rewrite ploop_rpar. reflexivity.
  - (* Or *)
    destruct Hw as [Hwa Hwb]. cbn [cost body_toks]. rewrite <- app_assoc. cbn [app].
    destruct (cost_ge2 b) as (xb & Eb).
    replace (S (S (S (cost a + cost b))) + k)%nat with (S (cost a + (S (S (cost b + k)))))%nat by lia.
    rewrite (Hatom a (IHa Hwa)).
    replace (cost a + S (S (cost b + k)))%nat with (S (S (cost b + (cost a + k))))%nat by lia.
    rewrite ploop_or_step.
    rewrite (Hatom b (IHb Hwb)).
    rewrite Eb. cbn [Nat.add]. rewrite ploop_rpar. reflexivity.
  - cbn [cost body_toks seq_wf] in *. rewrite <- app_assoc. cbn [app].
    destruct (cost_ge2 a) as (xa & Ea).
    replace (S (S (S (cost a))) + k)%nat with (S (cost a + (S (S k))))%nat by lia.
    rewrite (Hatom a (IHa Hw)).
    replace (cost a + S (S k))%nat with (S (S (cost a + k)))%nat by lia.
    rewrite (proj1 (ploop_post_step _ _ _)), (proj1 (proj2 (ploop_post_step _ _ _))), (proj2 (proj2 (ploop_post_step _ _ _))) || idtac.
    try (rewrite (proj1 (ploop_post_step _ _ _))); try (rewrite (proj1 (proj2 (ploop_post_step _ _ _))));
    try (rewrite (proj2 (proj2 (ploop_post_step _ _ _)))). apply ploop_rpar.
  - cbn [cost body_toks seq_wf] in *. rewrite <- app_assoc. cbn [app].
    replace (S (S (S (cost a))) + k)%nat with (S (cost a + (S (S k))))%nat by lia.
    rewrite (Hatom a (IHa Hw)).
    replace (cost a + S (S k))%nat with (S (S (cost a + k)))%nat by lia.
    rewrite (proj1 (ploop_post_step _ _ _)), (proj1 (proj2 (ploop_post_step _ _ _))), (proj2 (proj2 (ploop_post_step _ _ _))) || idtac.
    try (rewrite (proj1 (ploop_post_step _ _ _))); try (rewrite (proj1 (proj2 (ploop_post_step _ _ _))));
    try (rewrite (proj2 (proj2 (ploop_post_step _ _ _)))). apply ploop_rpar.
  - cbn [cost body_toks seq_wf] in *. rewrite <- app_assoc. cbn [app].
    replace (S (S (S (cost a))) + k)%nat with (S (cost a + (S (S k))))%nat by lia.
    rewrite (Hatom a (IHa Hw)).
    replace (cost a + S (S k))%nat with (S (S (cost a + k)))%nat by lia.
    rewrite (proj1 (ploop_post_step _ _ _)), (proj1 (proj2 (ploop_post_step _ _ _))), (proj2 (proj2 (ploop_post_step _ _ _))) || idtac.
    try (rewrite (proj1 (ploop_post_step _ _ _))); try (rewrite (proj1 (proj2 (ploop_post_step _ _ _))));
    try (rewrite (proj2 (proj2 (ploop_post_step _ _ _)))). apply ploop_rpar.
Qed.

Lemma cost_le_len e : (cost e <= 2 * length (atom_toks e))%nat.
Proof.
  induction e; cbn [cost atom_toks]; rewrite ?app_length; cbn [length]; rewrite ?app_length; cbn [length]; try lia.
Qed.

(** the fuel of [new_sequence] suffices on printed expressions *)
Lemma parse_atom_toks e : seq_wf e ->
  parse_spec (2 * length (atom_toks e) + 4) 0 (atom_toks e) = Some (e, []).
Proof.
  intros Hw. pose proof (cost_le_len e) as Hc.
  destruct (cost_ge2 e) as (x & Ex).
  replace (2 * length (atom_toks e) + 4)%nat
    with (S (cost e + (2 * length (atom_toks e) + 3 - cost e)))%nat by lia.
  rewrite (atom_body e). cbn [app parse]. rewrite parse_body by assumption.
  rewrite Ex. reflexivity.
Qed.

(** ---------------------------------------------------------------- the printer, text level *)
Definition tok_text (t : tok) : str :=
  match t with
  | TZero => [48] | TNum d => d
  | TWildAS => [45; 48] | TLegacyAS d => 45 :: d | TAS x => 45 :: x
  | THash => [35] | TComma => [44] | TQ => [63] | TPlus => [43] | TStar => [42]
  | TBar => [124] | TLPar => [40] | TRPar => [41]
  end.

Definition toks_text (ts : list tok) : str := concat (map tok_text ts).
Definition show (e : seq) : str := toks_text (atom_toks e).

Definition tapp (ts : list tok) (r : option (list tok)) : option (list tok) :=
  match r with Some l => Some (ts ++ l) | None => None end.

Lemma tapp_cons t ts r : tapp (t :: ts) r = tcons t (tapp ts r).
Proof. destruct r; reflexivity. Qed.

Lemma tapp_nil r : tapp [] r = r.
Proof. now destruct r. Qed.

Lemma tapp_app a b r : tapp (a ++ b) r = tapp a (tapp b r).
Proof. destruct r; cbn; [now rewrite app_assoc|reflexivity]. Qed.

(** a character after which a number / AS token cannot continue *)
Definition stop (c : N) : bool := negb (is_hex c) && negb (c =? 58).

Lemma span_all p (t rest : str) :
  forallb p t = true -> (match rest with c :: _ => p c = false | [] => True end) ->
  span p (t ++ rest) = (t, rest).
Proof.
  intros Ht Hr. induction t as [|x t IH]; cbn [app].
  - destruct rest as [|c r]; [reflexivity|]. cbn [span]. now rewrite Hr.
  - cbn [forallb] in Ht. apply andb_true_iff in Ht. destruct Ht as [Hx Ht].
    cbn [span]. rewrite Hx, (IH Ht). reflexivity.
Qed.

(** the first digit printed for a non-zero number is not '0' *)
Lemma pr'_head b : 2 <= b <= 16 -> forall v, v <> 0 ->
  exists c t, pr' b v = c :: t /\ c <> 48.
Proof.
  intros Hb v. induction v as [v IH] using (well_founded_induction N.lt_wf_0). intros Hv.
  rewrite pr'_step by lia. destruct (N.eq_dec (v / b) 0) as [Hz|Hnz].
  - rewrite Hz, pr'_zero. cbn [app]. exists (dchar (v mod b)), []. split; [reflexivity|].
    assert (v mod b = v) by (apply N.mod_small; apply N.div_small_iff in Hz; lia).
    apply lower_hex_dchar_ne0; [lia|]. assert (v mod b < b) by (apply N.mod_lt; lia). lia.
  - destruct (IH (v / b)) as (c & t & E & Hc); [apply N.div_lt; lia|assumption|].
    rewrite E. cbn [app]. eauto.
Qed.

Lemma print_head b v : 2 <= b <= 16 -> v <> 0 -> exists c t, print_uint b v = c :: t /\ c <> 48.
Proof. intros Hb Hv. unfold print_uint. replace (v =? 0) with false by lia. now apply pr'_head. Qed.

Lemma is_dec_nz c : is_dec c = true -> c <> 48 -> is_nz c = true.
Proof. unfold is_dec, is_nz. lia. Qed.

Lemma is_nz_not_ws c : is_nz c = true -> is_ws c = false /\ (c =? 48) = false /\ is_hex c = true.
Proof. unfold is_nz, is_ws, is_hex, is_dec. lia. Qed.

Lemma stop_facts c : stop c = true ->
  is_hex c = false /\ is_dec c = false /\ (c =? 58) = false.
Proof. unfold stop, is_hex, is_dec. lia. Qed.

(** NUM / ZERO *)
Lemma lex_num_tok f i rest :
  (match rest with c :: _ => is_dec c = false | [] => True end) ->
  lex (S f) (print_uint 10 i ++ rest) = tcons (num_tok i) (lex f rest).
Proof.
  intros Hr. unfold num_tok. destruct (i =? 0) eqn:E.
  - assert (i = 0) by lia. subst. reflexivity.
  - destruct (print_head 10 i) as (c & t & Ep & Hc); [lia|lia|].
    pose proof (print10_dec i) as Hd. rewrite Ep in *. cbn [forallb] in Hd.
    apply andb_true_iff in Hd. destruct Hd as [Hdc Hdt].
    pose proof (is_dec_nz c Hdc Hc) as Hnz. destruct (is_nz_not_ws c Hnz) as (Hws & H48 & _).
    cbn [app lex]. rewrite Hws, H48, Hnz. cbn [lex_num]. rewrite Hnz.
    rewrite (span_all is_dec t rest Hdt Hr). reflexivity.
Qed.

Lemma lex_as_eq s :
  lex_as s =
  match lex_hexa s with
  | Some (h1, c1 :: r1) =>
    if c1 =? 58 then
      match lex_hexa r1 with
      | Some (h2, c2 :: r2) =>
        if c2 =? 58 then
          match lex_hexa r2 with
          | Some (h3, r3) => Some (h1 ++ [58] ++ h2 ++ [58] ++ h3, r3)
          | None => None
          end
        else None
      | _ => None
      end
    else None
  | _ => None
  end.
Proof.
  unfold lex_as. destruct (lex_hexa s) as [[h1 [|c1 r1]]|]; try reflexivity.
  destruct c1 as [|p]; [reflexivity|].
  do 6 (destruct p as [p|p|]; try reflexivity).
  destruct (lex_hexa r1) as [[h2 [|c2 r2]]|]; try reflexivity.
  destruct c2 as [|p]; [reflexivity|].
  do 6 (destruct p as [p|p|]; try reflexivity).
Qed.

(** a run of hex digits with a non-zero head, followed by a non-hex character *)
Lemma lex_hexa_run c t rest :
  is_hex c = true -> c <> 48 -> forallb is_hex t = true ->
  (match rest with x :: _ => is_hex x = false | [] => True end) ->
  lex_hexa (c :: t ++ rest) = Some (c :: t, rest).
Proof.
  intros Hc H48 Ht Hr. cbn [lex_hexa]. replace (c =? 48) with false by lia.
  rewrite Hc, (span_all is_hex t rest Ht Hr). reflexivity.
Qed.

Lemma lex_hexa_print x rest :
  (match rest with c :: _ => is_hex c = false | [] => True end) ->
  lex_hexa (print_uint 16 x ++ rest) = Some (print_uint 16 x, rest).
Proof.
  intros Hr. destruct (N.eq_dec x 0) as [->|Hx]; [reflexivity|].
  destruct (print_head 16 x) as (c & t & Ep & Hc); [lia|assumption|].
  pose proof (print16_hex x) as Hh. rewrite Ep in *. cbn [forallb] in Hh.
  apply andb_true_iff in Hh. destruct Hh as [Hhc Hht]. cbn [app]. now apply lex_hexa_run.
Qed.

Lemma lex_wild f c r : stop c = true ->
  lex (S f) ([45; 48] ++ c :: r) = tcons TWildAS (lex f (c :: r)).
Proof.
  intros Hs. destruct (stop_facts c Hs) as (Hh & Hd & H58).
  cbn [app lex]. cbn [is_ws N.eqb Pos.eqb orb is_nz N.leb andb]. 
  change (45 =? 48) with false. change (is_nz 45) with false. change (is_ws 45) with false. cbn [N.eqb Pos.eqb].
  rewrite lex_as_eq. change (lex_hexa (48 :: c :: r)) with (Some ([48], c :: r)). cbv beta iota. rewrite H58. reflexivity.
Qed.

Lemma is_dec_hex c : is_dec c = true -> is_hex c = true.
Proof. unfold is_hex. now intros ->. Qed.

(** LEGACYAS: '-' followed by a number without leading zero *)
Lemma lex_legacy f c0 t c r :
  is_nz c0 = true -> forallb is_dec t = true -> stop c = true ->
  lex (S f) (45 :: (c0 :: t) ++ c :: r) = tcons (TLegacyAS (c0 :: t)) (lex f (c :: r)).
Proof.
  intros Hnz Ht Hs. destruct (stop_facts c Hs) as (Hh & Hd & H58).
  destruct (is_nz_not_ws c0 Hnz) as (_ & H48 & Hhex).
  cbn [lex]. change (is_ws 45) with false. change (45 =? 48) with false. change (is_nz 45) with false.
  change (45 =? 45) with true. cbv beta iota.
  rewrite lex_as_eq. cbn [app].
  rewrite lex_hexa_run; [|assumption|lia|apply (forallb_impl is_dec); [apply is_dec_hex|assumption]|exact Hh].
  cbv beta iota. rewrite H58.
  cbn [lex_num]. rewrite Hnz. rewrite (span_all is_dec t (c :: r) Ht Hd). reflexivity.
Qed.

Lemma lex_legacy_print f v c r : v <> 0 -> stop c = true ->
  lex (S f) (45 :: print_uint 10 v ++ c :: r) = tcons (TLegacyAS (print_uint 10 v)) (lex f (c :: r)).
Proof.
  intros Hv Hs. destruct (print_head 10 v) as (c0 & t & Ep & Hc); [lia|assumption|].
  pose proof (print10_dec v) as Hd. rewrite Ep in *. cbn [forallb] in Hd.
  apply andb_true_iff in Hd. destruct Hd as [Hdc Hdt].
  apply lex_legacy; [now apply is_dec_nz|assumption|assumption].
Qed.

(** AS: three hex groups *)
Lemma lex_hex_as f x y z c r : stop c = true ->
  let txt := print_uint 16 x ++ [58] ++ print_uint 16 y ++ [58] ++ print_uint 16 z in
  lex (S f) (45 :: txt ++ c :: r) = tcons (TAS txt) (lex f (c :: r)).
Proof.
  intros Hs txt. destruct (stop_facts c Hs) as (Hh & Hd & H58).
  cbn [lex]. change (is_ws 45) with false. change (45 =? 48) with false. change (is_nz 45) with false.
  change (45 =? 45) with true. cbv beta iota.
  rewrite lex_as_eq. subst txt. rewrite <- !app_assoc. cbn [app].
  rewrite lex_hexa_print by reflexivity. cbv beta iota. change (58 =? 58) with true. cbv beta iota.
  rewrite lex_hexa_print by reflexivity. cbv beta iota. change (58 =? 58) with true. cbv beta iota.
  rewrite lex_hexa_print by exact Hh. cbv beta iota. reflexivity.
Qed.

Lemma lex_as_tok f a c r : as_wf a -> stop c = true ->
  lex (S f) (tok_text (as_tok a) ++ c :: r) = tcons (as_tok a) (lex f (c :: r)).
Proof.
  intros Hw Hs. destruct a as [v|]; cbn [as_tok as_wf] in *.
  - destruct (v =? 0) eqn:E0; [now apply lex_wild|].
    unfold fmt_as. replace (max_as <? v) with false by lia.
    destruct (v <=? max_bgp) eqn:Eb; cbn [tok_text app].
    + apply lex_legacy_print; [lia|assumption].
    + apply (lex_hex_as f _ _ _ c r Hs).
  - cbn [tok_text]. apply (lex_legacy f 52 _ c r); [reflexivity|reflexivity|assumption].
Qed.

Lemma tok_text_num i : tok_text (num_tok i) = print_uint 10 i.
Proof. unfold num_tok. destruct (i =? 0) eqn:E; [|reflexivity]. assert (i = 0) by lia. now subst. Qed.

Lemma as_text_head a : exists t, tok_text (as_tok a) = 45 :: t.
Proof.
  destruct a as [v|]; cbn [as_tok]; [|eexists; reflexivity].
  destruct (v =? 0); [eexists; reflexivity|]. destruct (v <=? max_bgp); eexists; reflexivity.
Qed.

Lemma toks_text_app a b : toks_text (a ++ b) = toks_text a ++ toks_text b.
Proof. unfold toks_text. now rewrite map_app, concat_app. Qed.

Lemma toks_text_cons t ts : toks_text (t :: ts) = tok_text t ++ toks_text ts.
Proof. reflexivity. Qed.

(** one hop followed by the closing parenthesis *)
Lemma lex_hop p f rest : hp_wf_seq p ->
  lex (length (hop_toks p) + S f) (toks_text (hop_toks p) ++ 41 :: rest) =
  tapp (hop_toks p) (tcons TRPar (lex f rest)).
Proof.
  assert (Hrp : forall g s, lex (S g) (41 :: s) = tcons TRPar (lex g s)) by reflexivity.
  assert (Hha : forall g s, lex (S g) (35 :: s) = tcons THash (lex g s)) by reflexivity.
  assert (Hco : forall g s, lex (S g) (44 :: s) = tcons TComma (lex g s)) by reflexivity.
  destruct p as [i|i a|i a fi|i a fi fo]; cbn [hop_toks hp_wf_seq length]; intros Hw;
    rewrite ?toks_text_cons, ?tok_text_num; cbn [toks_text map concat tok_text]; rewrite ?app_nil_r;
    rewrite <- ?app_assoc; cbn [app Nat.add].
  - rewrite lex_num_tok by (cbv; reflexivity). rewrite Hrp. now rewrite !tapp_cons, tapp_nil.
  - destruct (as_text_head a) as (t & Et).
    rewrite lex_num_tok by (rewrite Et; cbv; reflexivity).
    rewrite (lex_as_tok _ a 41 rest Hw eq_refl). rewrite Hrp. now rewrite !tapp_cons, tapp_nil.
  - destruct (as_text_head a) as (t & Et).
    rewrite lex_num_tok by (rewrite Et; cbv; reflexivity).
    rewrite (lex_as_tok _ a 35 _ Hw eq_refl). rewrite Hha.
    rewrite lex_num_tok by (cbv; reflexivity). rewrite Hrp. now rewrite !tapp_cons, tapp_nil.
  - destruct (as_text_head a) as (t & Et).
    rewrite lex_num_tok by (rewrite Et; cbv; reflexivity).
    rewrite (lex_as_tok _ a 35 _ Hw eq_refl). rewrite Hha.
    rewrite lex_num_tok by (cbv; reflexivity). rewrite Hco.
    rewrite lex_num_tok by (cbv; reflexivity). rewrite Hrp. now rewrite !tapp_cons, tapp_nil.
Qed.

(** ---------------------------------------------------------------- whole expressions *)
Lemma lex_atom : forall e, seq_wf e -> forall f rest,
  lex (length (atom_toks e) + f) (show e ++ rest) = tapp (atom_toks e) (lex f rest).
Proof.
  assert (Hlp : forall g s, lex (S g) (40 :: s) = tcons TLPar (lex g s)) by reflexivity.
  assert (Hrp : forall g s, lex (S g) (41 :: s) = tcons TRPar (lex g s)) by reflexivity.
  assert (Hbar : forall g s, lex (S g) (124 :: s) = tcons TBar (lex g s)) by reflexivity.
  assert (Hq : forall g s, lex (S g) (63 :: s) = tcons TQ (lex g s)) by reflexivity.
  assert (Hpl : forall g s, lex (S g) (43 :: s) = tcons TPlus (lex g s)) by reflexivity.
  assert (Hst : forall g s, lex (S g) (42 :: s) = tcons TStar (lex g s)) by reflexivity.
  unfold show.
  induction e as [hp|a IHa b IHb|a IHa b IHb|a IHa|a IHa|a IHa]; intros Hw f rest;
    cbn [atom_toks seq_wf] in *; rewrite toks_text_cons, !toks_text_app; cbn [tok_text app];
    cbn [length Nat.add]; rewrite Hlp, tapp_cons; f_equal; rewrite ?app_length; cbn [length];
    rewrite ?toks_text_cons; change (toks_text []) with (@nil N); rewrite <- ?app_assoc; cbn [tok_text app].
  - replace (length (hop_toks hp) + 1 + f)%nat with (length (hop_toks hp) + S f)%nat by lia.
    rewrite (lex_hop hp f rest Hw). repeat (rewrite tapp_app || rewrite tapp_cons || rewrite tapp_nil); reflexivity.
  - destruct Hw as [Hwa Hwb].
    replace (length (atom_toks a) + length (atom_toks b) + 1 + f)%nat
      with (length (atom_toks a) + (length (atom_toks b) + S f))%nat by lia.
    rewrite (IHa Hwa), (IHb Hwb), Hrp. repeat (rewrite tapp_app || rewrite tapp_cons || rewrite tapp_nil); reflexivity.
  - destruct Hw as [Hwa Hwb]. cbn [length].
    replace (length (atom_toks a) + S (length (atom_toks b)) + 1 + f)%nat
      with (length (atom_toks a) + S (length (atom_toks b) + S f))%nat by lia.
    rewrite (IHa Hwa). rewrite Hbar.
    rewrite (IHb Hwb), Hrp. repeat (rewrite tapp_app || rewrite tapp_cons || rewrite tapp_nil); reflexivity.
  - replace (length (atom_toks a) + 1 + 1 + f)%nat with (length (atom_toks a) + S (S f))%nat by lia.
    rewrite (IHa Hw), Hq, Hrp. repeat (rewrite tapp_app || rewrite tapp_cons || rewrite tapp_nil); reflexivity.
  - replace (length (atom_toks a) + 1 + 1 + f)%nat with (length (atom_toks a) + S (S f))%nat by lia.
    rewrite (IHa Hw), Hpl, Hrp. repeat (rewrite tapp_app || rewrite tapp_cons || rewrite tapp_nil); reflexivity.
  - replace (length (atom_toks a) + 1 + 1 + f)%nat with (length (atom_toks a) + S (S f))%nat by lia.
    rewrite (IHa Hw), Hst, Hrp. repeat (rewrite tapp_app || rewrite tapp_cons || rewrite tapp_nil); reflexivity.
Qed.

Lemma tok_text_nonempty t : (1 <= length (tok_text t))%nat \/ exists d, t = TNum d.
Proof. destruct t; cbn; try (left; lia). now right; eexists. Qed.

Lemma hop_text_len p : (length (hop_toks p) <= length (toks_text (hop_toks p)))%nat.
Proof.
  assert (Hn : forall i, (1 <= length (tok_text (num_tok i)))%nat).
  { intros i. rewrite tok_text_num. pose proof (print_uint_nonempty 10 i).
    destruct (print_uint 10 i); [congruence|cbn; lia]. }
  assert (Ha : forall a, (1 <= length (tok_text (as_tok a)))%nat).
  { intros a. destruct (as_text_head a) as (t & ->). cbn. lia. }
  destruct p as [i|i a|i a fi|i a fi fo]; cbn [hop_toks length];
    rewrite ?toks_text_cons, ?app_length; cbn [toks_text map concat length tok_text];
    repeat match goal with
    | |- context [length (tok_text (num_tok ?i))] => pose proof (Hn i); generalize dependent (length (tok_text (num_tok i))); intros
    | |- context [length (tok_text (as_tok ?a))] => pose proof (Ha a); generalize dependent (length (tok_text (as_tok a))); intros
    end; lia.
Qed.

Lemma atom_text_len e : (length (atom_toks e) <= length (show e))%nat.
Proof.
  unfold show. induction e; cbn [atom_toks]; rewrite toks_text_cons, !toks_text_app;
    rewrite ?toks_text_cons, ?app_length; cbn [length tok_text toks_text map concat]; rewrite ?app_length;
    cbn [length]; try lia.
  pose proof (hop_text_len p). lia.
Qed.

(** the specification parser reads a printed expression back as itself *)
Lemma new_sequence_show e : seq_wf e -> new_sequence_spec (show e) = SSeq e.
Proof.
  intros Hw. unfold new_sequence_spec, new_sequence.
  assert (Hne : exists t, show e = 40 :: t).
  { unfold show. destruct e; cbn [atom_toks]; rewrite toks_text_cons; eexists; reflexivity. }
  destruct Hne as (t & Et). rewrite Et. rewrite <- Et.
  assert (Htok : tokenize (show e) = Some (atom_toks e)).
  { unfold tokenize. pose proof (atom_text_len e) as Hl.
    replace (S (length (show e))) with (length (atom_toks e) + S (length (show e) - length (atom_toks e)))%nat by lia.
    rewrite <- (app_nil_r (show e)) at 2. rewrite lex_atom by assumption. cbn [lex tapp]. now rewrite app_nil_r. }
  rewrite Htok. now rewrite parse_atom_toks.
Qed.
