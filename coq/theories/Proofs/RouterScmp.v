(** Lemmas about Model/RouterScmp.v (the slow path): the shape of every reply, the path
    reversal on packets that satisfy the fast-path invariant, header geometry and size. *)
From Coq Require Import List Arith NArith Bool Lia.
From Scion Require Import Lib.Check Lib.Bytes Model.Router Proofs.Router Model.Checksum Proofs.Checksum
     Model.Spao Model.RouterScmp Proofs.RouterInv.
Import ListNotations.
Import Router.
Import RouterScmp.
Local Open Scope N_scope.

(** * Small facts *)
Lemma u8_rev a b : b < a -> a <= 256 -> u8 (a + 256 - b - 1) = a - 1 - b.
Proof.
  intros H1 H2. unfold u8. replace (a + 256 - b - 1) with ((a - 1 - b) + 1 * 256) by lia.
  rewrite N.mod_add by discriminate. apply N.mod_small. lia.
Qed.

Lemma u8_small a : a < 256 -> u8 a = a.
Proof. intros H. unfold u8. now apply N.mod_small. Qed.

Lemma lenN_app {A} (a b : list A) : lenN (a ++ b) = lenN a + lenN b.
Proof. unfold lenN. rewrite app_length. lia. Qed.

Lemma lenN_takeN {A} n (l : list A) : lenN (takeN n l) = N.min n (lenN l).
Proof. unfold lenN, takeN. rewrite firstn_length. lia. Qed.

Lemma lenN_be k n : lenN (be k n) = N.of_nat k.
Proof. unfold lenN. now rewrite be_length. Qed.

Lemma addr_type_len_bounds t : 4 <= addr_type_len t <= 16 /\ exists k, addr_type_len t = 4 * k.
Proof.
  unfold addr_type_len, LineLen.
  assert (N.land t 3 <= 3).
  { destruct (N.le_gt_cases (N.land t 3) 3) as [H|H]; [exact H|].
    exfalso. assert (N.land t 3 < 4).
    { change 4 with (2 ^ 2). change 3 with (N.ones 2). rewrite N.land_ones. apply N.mod_lt. discriminate. }
    assert (N.land t 3 = 3 \/ 3 < N.land t 3) by lia. lia. }
  split; [lia|]. exists (1 + N.land t 3). reflexivity.
Qed.

(** * [Checksum.serialize] of an SCMP message *)
Lemma serialize_scmp_shape h ty code pl b :
  Checksum.serialize h (Checksum.SCMP ty code) pl = Checksum.Ok b ->
  exists ck, b = [ty; code] ++ be 2 ck ++ pl.
Proof.
  unfold Checksum.serialize. cbn [Checksum.pre].
  destruct (Checksum.compute_checksum _ _ _) as [ck| | |]; try discriminate.
  intros H. injection H as <-. now exists ck.
Qed.

(** * Path reversal preserves the invariant *)
Lemma seglen_cases p :
  seglen_ok p = true ->
  (num_inf p = 0 /\ p_seg0 p = 0 /\ p_seg1 p = 0 /\ p_seg2 p = 0) \/
  (num_inf p = 1 /\ 0 < p_seg0 p /\ p_seg1 p = 0 /\ p_seg2 p = 0) \/
  (num_inf p = 2 /\ 0 < p_seg0 p /\ 0 < p_seg1 p /\ p_seg2 p = 0) \/
  (num_inf p = 3 /\ 0 < p_seg0 p /\ 0 < p_seg1 p /\ 0 < p_seg2 p).
Proof.
  unfold seglen_ok, num_inf. intros H.
  apply andb_true_iff in H as [H1 H2]. apply negb_true_iff in H1, H2.
  destruct (0 <? p_seg2 p) eqn:A; destruct (0 <? p_seg1 p) eqn:B; destruct (0 <? p_seg0 p) eqn:C;
    destruct (p_seg0 p =? 0) eqn:D; destruct (p_seg1 p =? 0) eqn:E; destruct (p_seg2 p =? 0) eqn:F;
    cbn in H1, H2; try discriminate;
    rewrite ?N.ltb_lt, ?N.ltb_ge, ?N.eqb_eq, ?N.eqb_neq in *; lia.
Qed.

Ltac pos H :=
  match type of H with
  | 0 < ?x =>
    try rewrite (proj2 (N.ltb_lt 0 x) H) in *;
    try rewrite (proj2 (N.eqb_neq x 0) (N.neq_sym _ _ (N.lt_neq _ _ H))) in *
  end.
Ltac zero H := match type of H with ?x = 0 => try rewrite H in * end.
Ltac btests :=
  repeat match goal with |- context [?a <? ?b] => destruct (N.ltb_spec a b) end;
  repeat match goal with |- context [?a =? ?b] => destruct (N.eqb_spec a b) end.

Lemma reverse_inv p r0 : pkt_inv p -> reverse p = Some r0 -> pkt_inv r0 /\ p_meta_rsv r0 = 0.
Proof.
  intros (S & M & W & L & C) R. unfold reverse in R.
  destruct (num_inf p =? 0) eqn:E0; [discriminate|]. apply N.eqb_neq in E0.
  injection R as <-. split; [|reflexivity].
  apply well_formed_spec in W as [W1 W2].
  pose proof (inf_index_lt p _ L) as IL. rewrite <- C in IL.
  unfold MaxHops in *.
  assert (NI : num_inf p <= 3) by (unfold num_inf; repeat destruct (_ <? _); lia).
  rewrite (u8_rev (num_inf p) (p_curr_inf p)) by lia.
  rewrite (u8_rev (num_hops p) (p_curr_hf p)) by lia.
  destruct (seglen_cases p S) as [(N0 & _)|[(N1 & A0 & A1 & A2)|[(N2 & A0 & A1 & A2)|(N3 & A0 & A1 & A2)]]];
    [contradiction| | |].
  - rewrite N1. change (1 =? 3) with false. change (1 =? 2) with false. cbv iota.
    clear S E0 NI.
    unfold pkt_inv, MaxHops, seglen_ok, well_formed, num_inf, inf_index_for_hf, num_hops in *.
    cbn [p_seg0 p_seg1 p_seg2 p_curr_inf p_curr_hf p_infos p_hops].
    rewrite !rev_length, !map_length.
    zero A1. zero A2. pos A0.
    change (0 <? 0) with false in *. change (0 =? 0) with true in *. cbn [negb andb orb] in *.
    clear N1. revert M W1 W2 L C IL. btests; cbn [negb andb orb]; intros; repeat split; lia.
  - rewrite N2. change (2 =? 3) with false. change (2 =? 2) with true. cbv iota.
    clear S E0 NI.
    unfold pkt_inv, MaxHops, seglen_ok, well_formed, num_inf, inf_index_for_hf, num_hops in *.
    cbn [p_seg0 p_seg1 p_seg2 p_curr_inf p_curr_hf p_infos p_hops].
    rewrite !rev_length, !map_length.
    zero A2. pos A0. pos A1.
    change (0 <? 0) with false in *. change (0 =? 0) with true in *. cbn [negb andb orb] in *.
    clear N2. revert M W1 W2 L C IL. btests; cbn [negb andb orb]; intros; repeat split; lia.
  - rewrite N3. change (3 =? 3) with true. change (3 =? 2) with false. cbv iota.
    clear S E0 NI.
    unfold pkt_inv, MaxHops, seglen_ok, well_formed, num_inf, inf_index_for_hf, num_hops in *.
    cbn [p_seg0 p_seg1 p_seg2 p_curr_inf p_curr_hf p_infos p_hops].
    rewrite !rev_length, !map_length.
    pos A0. pos A1. pos A2.
    cbn [negb andb orb] in *.
    clear N3. revert M W1 W2 L C IL. btests; cbn [negb andb orb]; intros; repeat split; lia.
Qed.

(** * The rest of the path preparation preserves the invariant *)
Lemma inc_path_dec_inv p q : pkt_inv p -> inc_path_dec p = Some q -> pkt_inv q.
Proof.
  intros I H. unfold inc_path_dec in H.
  destruct (num_inf p =? 0); [discriminate|].
  destruct (num_hops p - 1 <=? p_curr_hf p) eqn:E; [discriminate|]. injection H as <-.
  apply N.leb_gt in E. apply pkt_inv_inc_path; [exact I | lia].
Qed.

Lemma revert_xover_inv p pe q : pkt_inv p -> revert_xover p pe = Some q -> pkt_inv q.
Proof.
  intros I H. unfold revert_xover in H. destruct (_ && _).
  - eapply inc_path_dec_inv; eassumption.
  - now injection H as <-.
Qed.

Lemma ext_inc_inv e p pe q : pkt_inv p -> ext_inc e p pe = EOk q -> pkt_inv q.
Proof.
  intros I H. unfold ext_inc in H. destruct (negb e); [now injection H as <-|].
  destruct (nthN (p_infos p) (p_curr_inf p)) as [i|]; [|discriminate].
  destruct (i_consdir i && negb pe).
  - destruct (nthN (p_hops p) (p_curr_hf p)) as [h|]; [|discriminate].
    destruct (inc_path_dec _) as [p2|] eqn:E; [|discriminate]. injection H as <-.
    eapply inc_path_dec_inv; [|exact E]. apply pkt_inv_with_infos; [exact I | apply set_nthN_length].
  - destruct (inc_path_dec p) as [p2|] eqn:E; [|discriminate]. injection H as <-.
    eapply inc_path_dec_inv; eassumption.
Qed.

(** no panic in the path preparation of a packet that satisfies the invariant *)
Lemma ext_inc_no_panic e p pe : pkt_inv p -> ext_inc e p pe <> EPanic.
Proof.
  intros I. unfold ext_inc. destruct (negb e); [discriminate|].
  destruct (pkt_inv_inf p I) as [i ->]. destruct (pkt_inv_hop p I) as [h ->].
  destruct (i_consdir i && negb pe).
  - destruct (inc_path_dec _); discriminate.
  - destruct (inc_path_dec _); discriminate.
Qed.

(** * Shape of a reply *)
Definition reply_hdr (c : cfg) (x : spin) (rp : pkt) (lt : N) (lraw : bytes) (pay : N) : pkt :=
  mkPkt (p_src_ia (sp_pkt x)) (c_ia c) (p_src_type (sp_pkt x)) lt (p_src_raw (sp_pkt x)) lraw
        (pay mod 65536) pay None
        (p_curr_inf rp) (p_curr_hf rp) (p_seg0 rp) (p_seg1 rp) (p_seg2 rp) 0 (p_infos rp) (p_hops rp).

Definition reply_ah (c : cfg) (x : spin) (lraw : bytes) : Checksum.addr_hdr :=
  {| Checksum.dst_ia := p_src_ia (sp_pkt x); Checksum.src_ia := c_ia c;
     Checksum.raw_dst := p_src_raw (sp_pkt x); Checksum.raw_src := lraw |}.

Definition reply_scn (x : spin) (rp : pkt) (lt : N) : N :=
  CmnHdrLen + (2 * IABytes + addr_type_len (p_src_type (sp_pkt x)) + addr_type_len lt) +
  MetaLen + InfoLen * num_inf rp + HopLen * num_hops rp.

Definition auth_len (na : bool) : N := if na then E2EAuthHdrLen else 0.

Definition reply_hl (x : spin) (rp : pkt) (lt ty : N) (na : bool) : N :=
  reply_scn x rp lt + scmp_header_size ty + auth_len na.

Definition reply_quote (x : spin) (rp : pkt) (lt ty : N) (ie na : bool) : bytes :=
  if ie then takeN (N.min (lenN (sp_raw x)) (MaxSCMPPacketLen - reply_hl x rp lt ty na)) (quoted x) else [].

Definition reply_l4 (x : spin) (rp : pkt) (lt ty code ck : N) (body : bytes) (ie na : bool) : bytes :=
  [ty; code] ++ be 2 ck ++ body ++ reply_quote x rp lt ty ie na.

Lemma scn_len_reply c x rp lt lraw pay : scn_len (reply_hdr c x rp lt lraw pay) = reply_scn x rp lt.
Proof. reflexivity. Qed.

Lemma build_inv macq c x rp ty code body ie na ats r :
  build macq c x rp ty code body ie na ats = SReply r ->
  exists lt lraw ck,
    pack_local (c_local_host c) = Some (lt, lraw) /\
    (ie = true -> reply_hl x rp lt ty na <= MaxSCMPPacketLen) /\
    reply_scn x rp lt <= MaxHdrLen /\
    Checksum.serialize (reply_ah c x lraw) (Checksum.SCMP ty code) (body ++ reply_quote x rp lt ty ie na)
      = Checksum.Ok (reply_l4 x rp lt ty code ck body ie na) /\
    r_hdr r = reply_hdr c x rp lt lraw (auth_len na + lenN (reply_l4 x rp lt ty code ck body ie na)) /\
    r_tc r = sp_tc x /\ r_flow r = sp_flow x /\
    r_hdr_len r = u8 (reply_scn x rp lt / LineLen) /\ r_path_type r = ScionPathType /\
    r_l4 r = reply_l4 x rp lt ty code ck body ie na /\
    (if na then
       r_next r = E2E /\
       exists inp tag,
         auth_input (r_hdr r) (sp_tc x) (sp_flow x) ats (r_l4 r) = Some inp /\ macq inp = Some tag /\
         r_auth r = Some (mkAuth E2EAuthHdrLen L4SCMP SpiScmp AlgCMAC ats tag)
     else r_next r = L4SCMP /\ r_auth r = None).
Proof.
  unfold build. destruct (pack_local (c_local_host c)) as [[lt lraw]|]; [|discriminate].
  cbv zeta. repeat match goal with |- context [scn_len ?h] => change (scn_len h) with (reply_scn x rp lt) end.
  fold (auth_len na). fold (reply_hl x rp lt ty na).
  destruct (ie && (MaxSCMPPacketLen <? reply_hl x rp lt ty na)) eqn:E1; [discriminate|].
  fold (reply_quote x rp lt ty ie na). fold (reply_ah c x lraw).
  destruct (Checksum.serialize _ _ _) as [l4| | |] eqn:ES; try discriminate.
  destruct (MaxHdrLen <? reply_scn x rp lt) eqn:E2; [discriminate|]. apply N.ltb_ge in E2.
  destruct (serialize_scmp_shape _ _ _ _ _ ES) as [ck ->].
  fold (reply_l4 x rp lt ty code ck body ie na) in *.
  assert (HL : ie = true -> reply_hl x rp lt ty na <= MaxSCMPPacketLen).
  { intros ->. cbn [andb] in E1. now apply N.ltb_ge in E1. }
  destruct na.
  - destruct (parse_host _ _); try discriminate.
    + destruct (auth_input _ _ _ _ _) as [inp|] eqn:EA; [|discriminate].
      destruct (macq inp) as [tag|] eqn:EM; [|discriminate].
      intros H. injection H as <-. exists lt, lraw, ck. cbn [r_hdr r_tc r_flow r_hdr_len r_path_type r_l4 r_next r_auth].
      repeat split; try assumption; try reflexivity. exists inp, tag. auto.
    + destruct (auth_input _ _ _ _ _) as [inp|] eqn:EA; [|discriminate].
      destruct (macq inp) as [tag|] eqn:EM; [|discriminate].
      intros H. injection H as <-. exists lt, lraw, ck. cbn [r_hdr r_tc r_flow r_hdr_len r_path_type r_l4 r_next r_auth].
      repeat split; try assumption; try reflexivity. exists inp, tag. auto.
  - intros H. injection H as <-. exists lt, lraw, ck. cbn [r_hdr r_tc r_flow r_hdr_len r_path_type r_l4 r_next r_auth].
    repeat split; try assumption; try reflexivity.
Qed.

(** * Inversions *)
Lemma prepare_inv macq c ing x ty code body ie na ats r :
  prepare macq c ing x ty code body ie na ats = SReply r ->
  exists rp, build macq c x rp ty code body ie na ats = SReply r /\
             (pkt_inv (sp_pkt x) -> pkt_inv rp).
Proof.
  unfold prepare.
  destruct (reverse (sp_pkt x)) as [r0|] eqn:ER; [|discriminate].
  destruct (nthN (p_infos r0) (p_curr_inf r0)) as [i0|]; [|discriminate].
  destruct (det_peer r0 i0) as [pe|]; [|discriminate].
  destruct (revert_xover r0 pe) as [r1|] eqn:EX; [|discriminate].
  destruct (ext_inc (external ing) r1 pe) as [| |r2] eqn:EE; try discriminate.
  intros H. exists r2. split; [exact H|]. intros I.
  destruct (reverse_inv _ _ I ER) as [I0 _].
  pose proof (revert_xover_inv _ _ _ I0 EX) as I1.
  exact (ext_inc_inv _ _ _ _ I1 EE).
Qed.

Lemma slow_path_scmp_inv macq c ing ty code ptr eg x va ats r :
  slow_path macq c ing (SpScmp ty code ptr) eg x va ats = SReply r ->
  exists ll body,
    last_layer (sp_next x) (payload x) = Some ll /\ scmp_body c ing ty ptr eg = Some body /\
    (classify ll = NotScmp \/ classify ll = ScmpInfo) /\
    prepare macq c ing x ty code body true (c_scmp_auth c) ats = SReply r.
Proof.
  unfold slow_path. destruct (_ || _); [discriminate|]. destruct (negb _); [discriminate|].
  destruct (last_layer _ _) as [ll|]; [|discriminate].
  destruct (scmp_body c ing ty ptr eg) as [body|]; [|discriminate].
  destruct (classify ll) eqn:EC; try discriminate; intros H; exists ll, body; auto.
Qed.

Lemma scmp_body_size c ing ty ptr eg body :
  scmp_body c ing ty ptr eg = Some body -> lenN body + 4 = scmp_header_size ty.
Proof.
  unfold scmp_body, scmp_header_size.
  destruct (ty =? ScmpParameterProblem) eqn:E4.
  { apply N.eqb_eq in E4. subst ty. intros H. injection H as <-. reflexivity. }
  destruct (ty =? ScmpDestUnreachable) eqn:E1.
  { apply N.eqb_eq in E1. subst ty. intros H. injection H as <-. reflexivity. }
  destruct (ty =? ScmpExternalInterfaceDown) eqn:E5.
  { intros H. injection H as <-. reflexivity. }
  destruct (ty =? ScmpInternalConnectivityDown) eqn:E6; [|discriminate].
  intros H. injection H as <-. reflexivity.
Qed.

(** * Addressing *)
Lemma bytes_eqb_refl l : bytes_eqb l l = true.
Proof. now apply bytes_eqb_eq. Qed.

Lemma build_addressing macq c x rp ty code body ie na ats r :
  build macq c x rp ty code body ie na ats = SReply r -> addressing_ok c x r = true.
Proof.
  intros H. apply build_inv in H as (lt & lraw & ck & PL & _ & _ & _ & HH & _).
  unfold addressing_ok. rewrite HH, PL. cbn [reply_hdr p_dst_ia p_dst_type p_dst_raw p_src_ia p_src_type p_src_raw].
  now rewrite !N.eqb_refl, !bytes_eqb_refl.
Qed.

(** * Type, code, body; quote *)
Lemma be2_two ck : exists a b, be 2 ck = [a; b].
Proof. cbn [be]. eauto. Qed.

Lemma firstn_app_exact {A} (a b : list A) : firstn (length a) (a ++ b) = a.
Proof.
  rewrite firstn_app, Nat.sub_diag, firstn_O, firstn_all. apply app_nil_r.
Qed.

Lemma skipn_app_exact {A} (a b : list A) : skipn (length a) (a ++ b) = b.
Proof. rewrite skipn_app, Nat.sub_diag, skipn_all. reflexivity. Qed.

Lemma reply_l4_quote x rp lt ty code ck body ie na :
  lenN body + 4 = scmp_header_size ty ->
  dropN (scmp_header_size ty) (reply_l4 x rp lt ty code ck body ie na) = reply_quote x rp lt ty ie na.
Proof.
  intros HS. unfold reply_l4, dropN. destruct (be2_two ck) as (a & b & ->).
  rewrite <- HS. unfold lenN. replace (N.to_nat (N.of_nat (length body) + 4)) with (4 + length body)%nat by lia.
  cbn [app plus skipn]. apply skipn_app_exact.
Qed.

Lemma build_type_code macq c ing x rp ty code ptr eg body na ats r :
  scmp_body c ing ty ptr eg = Some body ->
  build macq c x rp ty code body true na ats = SReply r ->
  type_code_ok c ing ty code ptr eg r = true.
Proof.
  intros HB H. apply build_inv in H as (lt & lraw & ck & _ & _ & _ & _ & _ & _ & _ & _ & _ & HL & _).
  unfold type_code_ok. rewrite HL, HB. unfold reply_l4. destruct (be2_two ck) as (a & b & ->).
  cbn [app]. rewrite !N.eqb_refl. rewrite firstn_app_exact, bytes_eqb_refl.
  rewrite (scmp_body_size _ _ _ _ _ _ HB). now rewrite N.eqb_refl.
Qed.

Lemma firstn_prefix {A} n (l : list A) : firstn (length (firstn n l)) l = firstn n l.
Proof.
  rewrite firstn_length. destruct (Nat.le_ge_cases n (length l)) as [H|H].
  - now rewrite Nat.min_l.
  - rewrite Nat.min_r by exact H. rewrite firstn_all. symmetry. now apply firstn_all2.
Qed.

Lemma land3_small b : b / 4 = 0 -> N.land b 3 = b.
Proof.
  intros H. change 3 with (N.ones 2). rewrite N.land_ones. apply N.mod_small.
  change (2 ^ 2) with 4. destruct (N.lt_ge_cases b 4) as [L|L]; [exact L|].
  exfalso. assert (1 <= b / 4) by (apply N.div_le_lower_bound; lia). lia.
Qed.

Lemma quoted_unknown x : known_quote x = false -> quoted x = sp_raw x.
Proof.
  unfold known_quote, quoted, clear_rsv_at.
  destruct (nth_error (sp_raw x) (N.to_nat (meta_rsv_off x))) as [b|] eqn:E; [|reflexivity].
  intros H. apply negb_false_iff, N.eqb_eq in H. rewrite (land3_small b H).
  rewrite <- (firstn_skipn (N.to_nat (meta_rsv_off x)) (sp_raw x)) at 3. f_equal.
  apply nth_error_split in E as (l1 & l2 & E1 & E2). rewrite E1, <- E2.
  rewrite skipn_app_exact. replace (S (length l1)) with (length (l1 ++ [b])) by (rewrite app_length; cbn; lia).
  replace (l1 ++ b :: l2) with ((l1 ++ [b]) ++ l2) by (now rewrite <- app_assoc).
  now rewrite skipn_app_exact.
Qed.

Lemma build_quote macq c x rp ty code body na ats r :
  lenN body + 4 = scmp_header_size ty ->
  build macq c x rp ty code body true na ats = SReply r ->
  exists lt,
    quote_of ty r = takeN (N.min (lenN (sp_raw x)) (MaxSCMPPacketLen - reply_hl x rp lt ty na)) (quoted x).
Proof.
  intros HS H. apply build_inv in H as (lt & lraw & ck & _ & _ & _ & _ & _ & _ & _ & _ & _ & HL & _).
  exists lt. unfold quote_of. rewrite HL. now rewrite reply_l4_quote.
Qed.

Lemma build_quote_prefix macq c x rp ty code body na ats r :
  lenN body + 4 = scmp_header_size ty -> known_quote x = false ->
  build macq c x rp ty code body true na ats = SReply r -> quote_ok x ty r = true.
Proof.
  intros HS K H. destruct (build_quote _ _ _ _ _ _ _ _ _ _ HS H) as [lt Q].
  unfold quote_ok, is_prefix. rewrite Q, (quoted_unknown x K). unfold takeN.
  rewrite firstn_prefix. apply bytes_eqb_refl.
Qed.

(** * Size *)
Lemma reply_scn_mul4 x rp lt : exists k, reply_scn x rp lt = 4 * k.
Proof.
  unfold reply_scn, CmnHdrLen, IABytes, MetaLen, InfoLen, HopLen.
  destruct (addr_type_len_bounds (p_src_type (sp_pkt x))) as [_ [k1 ->]].
  destruct (addr_type_len_bounds lt) as [_ [k2 ->]].
  exists (3 + (4 + k1 + k2) + 1 + 2 * num_inf rp + 3 * num_hops rp). lia.
Qed.

Lemma reply_hdr_len x rp lt :
  reply_scn x rp lt <= MaxHdrLen -> LineLen * u8 (reply_scn x rp lt / LineLen) = reply_scn x rp lt.
Proof.
  intros H. destruct (reply_scn_mul4 x rp lt) as [k E]. rewrite E in *. unfold LineLen, MaxHdrLen in *.
  rewrite (N.mul_comm 4 k), N.div_mul by discriminate. rewrite u8_small by lia. lia.
Qed.

Lemma lenN_reply_l4 x rp lt ty code ck body ie na :
  lenN (reply_l4 x rp lt ty code ck body ie na) = 4 + lenN body + lenN (reply_quote x rp lt ty ie na).
Proof.
  unfold reply_l4. rewrite !lenN_app, lenN_be. unfold lenN at 1. cbn [length]. lia.
Qed.

Lemma lenN_reply_quote x rp lt ty ie na :
  lenN (reply_quote x rp lt ty ie na) <=
  if ie then MaxSCMPPacketLen - reply_hl x rp lt ty na else 0.
Proof.
  unfold reply_quote. destruct ie; [|cbn; lia]. rewrite lenN_takeN. lia.
Qed.

Lemma build_size macq c x rp ty code body na ats r :
  lenN body + 4 = scmp_header_size ty ->
  build macq c x rp ty code body true na ats = SReply r -> size_ok r = true.
Proof.
  intros HS H. apply build_inv in H as (lt & lraw & ck & _ & HL & HM & _ & HH & _ & _ & HN & _ & _ & _).
  unfold size_ok, total_len. rewrite HN, HH. cbn [reply_hdr p_pay_actual].
  specialize (HL eq_refl). pose proof (reply_hdr_len x rp lt HM) as E. unfold LineLen in *. rewrite E.
  rewrite lenN_reply_l4. pose proof (lenN_reply_quote x rp lt ty true na) as Q. cbv iota in Q.
  apply N.leb_le. unfold reply_hl in *. lia.
Qed.

(** the quote is as long as the bound allows: the whole packet, or the reply is exactly 1232 bytes *)
Lemma build_quote_maximal macq c x rp ty code body na ats r :
  lenN body + 4 = scmp_header_size ty ->
  build macq c x rp ty code body true na ats = SReply r ->
  lenN (quote_of ty r) = lenN (sp_raw x) \/ total_len r = MaxSCMPPacketLen.
Proof.
  intros HS H. destruct (build_quote _ _ _ _ _ _ _ _ _ _ HS H) as [lt' Q].
  pose proof H as H'.
  apply build_inv in H as (lt & lraw & ck & _ & HL & HM & _ & HH & _ & _ & HN & _ & HL4 & _).
  specialize (HL eq_refl).
  assert (LQ : lenN (quoted x) = lenN (sp_raw x)).
  { unfold quoted, clear_rsv_at. destruct (nth_error _ _) eqn:E; [|reflexivity].
    apply nth_error_split in E as (l1 & l2 & E1 & E2). rewrite E1, <- E2.
    rewrite firstn_app_exact. unfold lenN. rewrite !app_length. cbn [length].
    replace (S (length l1)) with (length (l1 ++ [n])) by (rewrite app_length; cbn; lia).
    replace (l1 ++ n :: l2) with ((l1 ++ [n]) ++ l2) by (now rewrite <- app_assoc).
    rewrite skipn_app_exact. lia. }
  unfold quote_of in *. rewrite HL4 in *. rewrite reply_l4_quote in * by exact HS.
  unfold reply_quote. rewrite lenN_takeN, LQ.
  destruct (N.le_gt_cases (lenN (sp_raw x)) (MaxSCMPPacketLen - reply_hl x rp lt ty na)) as [A|A].
  - left. lia.
  - right. unfold total_len. rewrite HN, HH. cbn [reply_hdr p_pay_actual].
    pose proof (reply_hdr_len x rp lt HM) as E. unfold LineLen in *. rewrite E.
    rewrite lenN_reply_l4. unfold reply_quote. rewrite lenN_takeN, LQ. unfold reply_hl in *. lia.
Qed.

(** * Header geometry *)
Definition src_addr_ok (p : pkt) : Prop := lenN (p_src_raw p) = addr_type_len (p_src_type p).

Lemma some_pair_inj {A B} (a c : A) (b d : B) : Some (a, b) = Some (c, d) -> a = c /\ b = d.
Proof. intros H. injection H as -> ->. auto. Qed.

Lemma pack_local_len ip lt lraw : pack_local ip = Some (lt, lraw) -> lenN lraw = addr_type_len lt.
Proof.
  unfold pack_local. destruct (lenN ip =? 4) eqn:E4.
  - intros H. apply some_pair_inj in H as [<- <-]. apply N.eqb_eq in E4. rewrite E4. reflexivity.
  - destruct (lenN ip =? 16) eqn:E16; [|discriminate]. apply N.eqb_eq in E16.
    destruct (is_4in6 ip); intros H; apply some_pair_inj in H as [<- <-].
    + unfold lenN in *. rewrite skipn_length. change (addr_type_len T4Ip) with 4. lia.
    + rewrite E16. reflexivity.
Qed.

Lemma reply_scn_bound x rp lt : num_hops rp <= MaxHops -> reply_scn x rp lt <= 856.
Proof.
  intros H. unfold reply_scn, CmnHdrLen, IABytes, MetaLen, InfoLen, HopLen, MaxHops in *.
  pose proof (addr_type_len_bounds (p_src_type (sp_pkt x))) as [[_ A] _].
  pose proof (addr_type_len_bounds lt) as [[_ B] _].
  assert (num_inf rp <= 3) by (unfold num_inf; repeat destruct (_ <? _); lia). lia.
Qed.

Lemma scmp_header_size_bound ty : 8 <= scmp_header_size ty <= 28.
Proof. unfold scmp_header_size. repeat destruct (_ =? _); cbn; lia. Qed.

Lemma build_geom macq c x rp ty code body ie na ats r :
  lenN body + 4 = scmp_header_size ty -> pkt_inv rp -> src_addr_ok (sp_pkt x) ->
  build macq c x rp ty code body ie na ats = SReply r -> geom_ok r = true.
Proof.
  intros HS (I1 & I2 & I3 & I4 & I5) SA H.
  apply build_inv in H as (lt & lraw & ck & PL & HL & HM & _ & HH & _ & _ & HN & HP & HL4 & HA).
  pose proof (pack_local_len _ _ _ PL) as LL.
  pose proof (reply_hdr_len x rp lt HM) as E.
  pose proof (scmp_header_size_bound ty) as SB.
  assert (PAY : auth_len na + lenN (reply_l4 x rp lt ty code ck body ie na) <= 1300).
  { rewrite lenN_reply_l4. pose proof (lenN_reply_quote x rp lt ty ie na) as Q.
    assert (auth_len na <= 32) by (unfold auth_len, E2EAuthHdrLen; destruct na; lia).
    unfold MaxSCMPPacketLen in *. destruct ie; cbv iota in Q; lia. }
  unfold geom_ok. rewrite HN, HH, HP, HL4.
  cbn [reply_hdr p_pay_len p_pay_actual p_dst_raw p_dst_type p_src_raw p_src_type p_curr_hf p_curr_inf].
  change (scn_len (reply_hdr c x rp lt lraw (auth_len na + lenN (reply_l4 x rp lt ty code ck body ie na))))
    with (reply_scn x rp lt).
  change (seglen_ok (reply_hdr c x rp lt lraw (auth_len na + lenN (reply_l4 x rp lt ty code ck body ie na))))
    with (seglen_ok rp).
  change (num_hops (reply_hdr c x rp lt lraw (auth_len na + lenN (reply_l4 x rp lt ty code ck body ie na))))
    with (num_hops rp).
  change (well_formed (reply_hdr c x rp lt lraw (auth_len na + lenN (reply_l4 x rp lt ty code ck body ie na))))
    with (well_formed rp).
  change (inf_index_for_hf (reply_hdr c x rp lt lraw (auth_len na + lenN (reply_l4 x rp lt ty code ck body ie na)))
                           (p_curr_hf rp))
    with (inf_index_for_hf rp (p_curr_hf rp)).
  rewrite E, N.eqb_refl, I1, I3. cbn [andb].
  replace (u8 (reply_scn x rp lt / LineLen) <? 256) with true
    by (symmetry; apply N.ltb_lt; unfold u8; apply N.mod_lt; discriminate).
  rewrite (N.mod_small _ 65536) by lia. rewrite N.eqb_refl.
  replace (num_hops rp <=? MaxHops) with true by (symmetry; now apply N.leb_le).
  replace (p_curr_hf rp <? num_hops rp) with true by (symmetry; now apply N.ltb_lt).
  rewrite <- I5, N.eqb_refl. unfold src_addr_ok in SA. rewrite SA, LL, !N.eqb_refl. cbn [andb].
  destruct na.
  - destruct HA as (HX & inp & tag & _ & _ & ->). rewrite HX. cbn [a_len a_next auth_len].
    now rewrite !N.eqb_refl.
  - destruct HA as (HX & ->). rewrite HX. cbn [auth_len]. now rewrite !N.eqb_refl.
Qed.

(** * Checksum *)
Lemma even_of_mul4 n k : N.of_nat n = 4 * k -> Nat.even n = true.
Proof.
  intros H. replace n with (2 * (2 * N.to_nat k))%nat by lia. apply Nat.even_mul.
Qed.

Lemma Forall_firstn' {A} (P : A -> Prop) n (l : list A) : Forall P l -> Forall P (firstn n l).
Proof. intros H. rewrite <- (firstn_skipn n l) in H. now apply Forall_app in H as [H _]. Qed.
Lemma Forall_skipn' {A} (P : A -> Prop) n (l : list A) : Forall P l -> Forall P (skipn n l).
Proof. intros H. rewrite <- (firstn_skipn n l) in H. now apply Forall_app in H as [_ H]. Qed.

Lemma quoted_wf x : wf_bytes (sp_raw x) -> wf_bytes (quoted x).
Proof.
  intros W. unfold quoted, clear_rsv_at. destruct (nth_error _ _) as [b|]; [|exact W].
  apply Forall_app. split; [now apply Forall_firstn'|]. constructor; [|now apply Forall_skipn'].
  unfold wf_byte. assert (N.land b 3 < 4).
  { change 3 with (N.ones 2). rewrite N.land_ones. apply N.mod_lt. discriminate. }
  lia.
Qed.

Lemma pack_local_wf ip lt lraw :
  wf_bytes ip -> pack_local ip = Some (lt, lraw) -> wf_bytes lraw.
Proof.
  intros W. unfold pack_local. destruct (_ =? 4); [intros H; now apply some_pair_inj in H as [<- <-]|].
  destruct (_ =? 16); [|discriminate].
  destruct (is_4in6 ip); intros H; apply some_pair_inj in H as [<- <-]; [now apply Forall_skipn' | exact W].
Qed.

Lemma addr_wf_side (raw : bytes) t :
  lenN raw = addr_type_len t -> wf_bytes raw ->
  raw <> [] /\ Nat.even (length raw) = true /\ (length raw <= 16)%nat.
Proof.
  intros L W. destruct (addr_type_len_bounds t) as [[B1 B2] [k K]]. unfold lenN in L.
  split; [|split].
  - intros ->. cbn [length N.of_nat] in L. lia.
  - apply (even_of_mul4 _ k). lia.
  - lia.
Qed.

Lemma reply_ah_wf c x lt lraw :
  src_addr_ok (sp_pkt x) -> wf_bytes (p_src_raw (sp_pkt x)) -> wf_bytes (c_local_host c) ->
  pack_local (c_local_host c) = Some (lt, lraw) -> wf_hdr (reply_ah c x lraw).
Proof.
  intros SA W1 W2 PL. pose proof (pack_local_len _ _ _ PL) as LL. pose proof (pack_local_wf _ _ _ W2 PL) as W3.
  destruct (addr_wf_side _ _ SA W1) as (A1 & A2 & A3). destruct (addr_wf_side _ _ LL W3) as (B1 & B2 & B3).
  unfold wf_hdr. cbn [reply_ah Checksum.raw_dst Checksum.raw_src]. repeat split; assumption.
Qed.

Lemma build_checksum macq c x rp ty code body ie na ats r :
  ty < 256 -> code < 256 -> wf_bytes body -> lenN body <= 100 -> wf_bytes (sp_raw x) ->
  src_addr_ok (sp_pkt x) -> wf_bytes (p_src_raw (sp_pkt x)) -> wf_bytes (c_local_host c) ->
  build macq c x rp ty code body ie na ats = SReply r -> checksum_ok r = true.
Proof.
  intros T C WB LB WR SA W1 W2 H.
  apply build_inv in H as (lt & lraw & ck & PL & _ & _ & ES & HH & _ & _ & _ & _ & HL4 & _).
  pose proof (reply_ah_wf c x lt lraw SA W1 W2 PL) as WH.
  assert (WQ : wf_bytes (body ++ reply_quote x rp lt ty ie na)).
  { apply Forall_app. split; [exact WB|]. unfold reply_quote. destruct ie; [|constructor].
    apply Forall_firstn'. now apply quoted_wf. }
  assert (SM : small (body ++ reply_quote x rp lt ty ie na)).
  { unfold small. fold (lenN (body ++ reply_quote x rp lt ty ie na)). rewrite lenN_app.
    pose proof (lenN_reply_quote x rp lt ty ie na) as Q. unfold MaxSCMPPacketLen in Q.
    destruct ie; lia. }
  pose proof (serialize_verifies _ (Checksum.SCMP ty code) _ _ WH (conj T C) WQ SM ES) as V.
  unfold checksum_ok. rewrite HL4, HH.
  cbn [reply_hdr p_dst_ia p_src_ia p_dst_raw p_src_raw].
  fold (reply_ah c x lraw). unfold lenN at 1.
  change L4SCMP with (Checksum.proto_of (Checksum.SCMP ty code)). rewrite V. reflexivity.
Qed.

(** * Authenticator *)
Lemma build_auth macq c x rp ty code body ie ats r :
  build macq c x rp ty code body ie (c_scmp_auth c) ats = SReply r -> auth_ok macq c r = true.
Proof.
  intros H. apply build_inv in H as (lt & lraw & ck & _ & _ & _ & _ & _ & HT & HF & _ & _ & _ & HA).
  unfold auth_ok. destruct (c_scmp_auth c).
  - destruct HA as (_ & inp & tag & EA & EM & ->). cbn [a_spi a_alg a_ts a_mac].
    rewrite !N.eqb_refl, HT, HF, EA, EM. cbn [andb]. apply bytes_eqb_refl.
  - destruct HA as (_ & ->). reflexivity.
Qed.

(** * No panic *)
Lemma addr_sum_even a : forall cc, Nat.even (length a) = true -> Checksum.addr_sum a cc <> None.
Proof.
  revert a. apply (pair_ind (fun a => forall cc, Nat.even (length a) = true -> Checksum.addr_sum a cc <> None)).
  - discriminate.
  - intros x cc H. discriminate.
  - intros x y t IH cc H. cbn [Checksum.addr_sum]. apply IH. exact H.
Qed.

Lemma serialize_no_panic h l pl :
  Nat.even (length (Checksum.raw_dst h)) = true -> Nat.even (length (Checksum.raw_src h)) = true ->
  Checksum.serialize h l pl <> Checksum.Panic.
Proof.
  intros E1 E2. unfold Checksum.serialize, Checksum.compute_checksum, Checksum.pseudo.
  destruct (Checksum.raw_dst h) eqn:D; [discriminate|]. rewrite <- D in *.
  destruct (Checksum.raw_src h) eqn:S; [discriminate|]. rewrite <- S in *.
  destruct (Checksum.addr_sum (Checksum.raw_src h) _) as [c1|] eqn:A1.
  - destruct (Checksum.addr_sum (Checksum.raw_dst h) c1) as [c2|] eqn:A2; [discriminate|].
    exfalso. exact (addr_sum_even _ _ E1 A2).
  - exfalso. exact (addr_sum_even _ _ E2 A1).
Qed.

Lemma pack_local_even ip lt lraw : pack_local ip = Some (lt, lraw) -> Nat.even (length lraw) = true.
Proof.
  intros H. apply pack_local_len in H. destruct (addr_type_len_bounds lt) as [_ [k K]].
  apply (even_of_mul4 _ k). unfold lenN in H. lia.
Qed.

Lemma build_no_panic macq c x rp ty code body ie na ats :
  num_hops rp <= MaxHops -> src_addr_ok (sp_pkt x) ->
  build macq c x rp ty code body ie na ats <> SPanic.
Proof.
  intros NH SA. unfold build. destruct (pack_local (c_local_host c)) as [[lt lraw]|] eqn:PL; [|discriminate].
  cbv zeta. repeat match goal with |- context [scn_len ?h] => change (scn_len h) with (reply_scn x rp lt) end.
  pose proof (reply_scn_bound x rp lt NH) as B. pose proof (scmp_header_size_bound ty) as SB.
  replace (ie && (MaxSCMPPacketLen <? reply_scn x rp lt + scmp_header_size ty + (if na then E2EAuthHdrLen else 0)))
    with false.
  2:{ symmetry. apply andb_false_iff. right. apply N.ltb_ge. unfold MaxSCMPPacketLen, E2EAuthHdrLen. destruct na; lia. }
  destruct (Checksum.serialize _ _ _) as [l4| | |] eqn:ES; try discriminate.
  - destruct (MaxHdrLen <? _); [discriminate|]. destruct na; [|discriminate].
    destruct (parse_host _ _); try discriminate;
      (destruct (auth_input _ _ _ _ _); [|discriminate]; destruct (macq _); discriminate).
  - exfalso. revert ES. apply serialize_no_panic; cbn [Checksum.raw_dst Checksum.raw_src].
    + destruct (addr_type_len_bounds (p_src_type (sp_pkt x))) as [_ [k K]].
      apply (even_of_mul4 _ k). unfold src_addr_ok, lenN in SA. lia.
    + eapply pack_local_even; eassumption.
Qed.

Lemma prepare_no_panic macq c ing x ty code body ie na ats :
  pkt_inv (sp_pkt x) -> src_addr_ok (sp_pkt x) ->
  prepare macq c ing x ty code body ie na ats <> SPanic.
Proof.
  intros I SA. unfold prepare.
  destruct (reverse (sp_pkt x)) as [r0|] eqn:ER; [|discriminate].
  destruct (reverse_inv _ _ I ER) as [I0 _].
  destruct (pkt_inv_inf r0 I0) as [i0 ->].
  destruct (det_peer r0 i0) as [pe|]; [|discriminate].
  destruct (revert_xover r0 pe) as [r1|] eqn:EX; [|discriminate].
  pose proof (revert_xover_inv _ _ _ I0 EX) as I1.
  destruct (ext_inc (external ing) r1 pe) as [| |r2] eqn:EE; [|discriminate|].
  - exfalso. exact (ext_inc_no_panic _ _ _ I1 EE).
  - pose proof (ext_inc_inv _ _ _ _ I1 EE) as (_ & NH & _). now apply build_no_panic.
Qed.

(** the slow path never panics on what the fast path hands it *)
Definition req_ty_known (req : spreq) : Prop :=
  match req with SpScmp ty _ _ => ty_known ty | _ => True end.

Lemma req_good_ty req p : req_good req p -> req_ty_known req.
Proof. destruct req; cbn; tauto. Qed.

Lemma slow_path_no_panic macq c ing req eg x va ats :
  pkt_inv (sp_pkt x) -> req_ty_known req -> src_addr_ok (sp_pkt x) ->
  slow_path macq c ing req eg x va ats <> SPanic.
Proof.
  intros I RG SA. unfold slow_path.
  destruct (_ || _); [discriminate|]. destruct (negb _); [discriminate|].
  destruct (last_layer _ _) as [ll|]; [|discriminate].
  assert (TR : forall ifid, traceroute macq c ing x ll ifid va ats <> SPanic).
  { intros ifid. unfold traceroute. destruct (negb _); [discriminate|].
    destruct (snd ll) as [|t [|cd [|b2 [|b3 rest]]]]; try discriminate.
    destruct (negb _); [discriminate|]. destruct (_ <? _); [discriminate|].
    now apply prepare_no_panic. }
  destruct req as [ty code ptr| |]; [|apply TR|apply TR].
  cbn in RG. rename RG into TK.
  assert (EB : exists body, scmp_body c ing ty ptr eg = Some body).
  { unfold scmp_body. destruct TK as [-> | [-> | [-> | ->]]]; cbn; eauto. }
  destruct EB as [body EB]. rewrite EB.
  destruct (classify ll); try discriminate; now apply prepare_no_panic.
Qed.

(** * The oracle of the correspondence check holds on the model *)
Definition wf_input (c : cfg) (x : spin) : Prop :=
  wf_bytes (sp_raw x) /\ src_addr_ok (sp_pkt x) /\ wf_bytes (p_src_raw (sp_pkt x)) /\
  wf_bytes (c_local_host c).

(** what the fast path guarantees about the request it leaves (for an EPIC packet the pointer
    is taken relative to the packet, i.e. shifted by the EPIC header) *)
Definition req_ok_x (req : spreq) (x : spin) : Prop :=
  match req with
  | SpScmp ty code ptr => ty_known ty /\ ty < 256 /\ code < 256 /\ ptr_ok x ty code ptr = true
  | _ => True
  end.

Lemma req_good_x req x : sp_epic x = false -> req_good req (sp_pkt x) -> req_ok_x req x.
Proof.
  intros E. destruct req as [ty code ptr| |]; cbn; auto.
  unfold ptr_ok, path_shift. now rewrite E.
Qed.

Lemma req_ok_x_ty req x : req_ok_x req x -> req_ty_known req.
Proof. destruct req; cbn; tauto. Qed.

Lemma skip_ext_wf d n d' : wf_bytes d -> skip_ext d = Some (n, d') -> wf_bytes d'.
Proof.
  intros W. unfold skip_ext. destruct d as [|nh [|el t]]; try discriminate.
  destruct (_ <? _); [discriminate|]. intros H. apply some_pair_inj in H as [_ <-].
  now apply Forall_skipn'.
Qed.

Lemma skip_e2e_wf d ll : wf_bytes d -> skip_e2e d = Some ll -> wf_bytes (snd ll).
Proof.
  intros W. unfold skip_e2e. destruct (skip_ext d) as [[n d']|] eqn:E; [|discriminate].
  destruct (_ || _); [discriminate|]. intros H. injection H as <-. cbn [snd]. eapply skip_ext_wf; eassumption.
Qed.

Lemma last_layer_wf next pld ll : wf_bytes pld -> last_layer next pld = Some ll -> wf_bytes (snd ll).
Proof.
  intros W. unfold last_layer. destruct (next =? HBH).
  - destruct (skip_ext pld) as [[n1 d1]|] eqn:E; [|discriminate].
    pose proof (skip_ext_wf _ _ _ W E) as W1.
    destruct (n1 =? HBH); [discriminate|]. destruct (n1 =? E2E).
    + now apply skip_e2e_wf.
    + intros H. injection H as <-. exact W1.
  - destruct (next =? E2E); [now apply skip_e2e_wf|]. intros H. injection H as <-. exact W.
Qed.

Lemma scmp_body_wf c ing ty ptr eg body : scmp_body c ing ty ptr eg = Some body -> wf_bytes body.
Proof.
  unfold scmp_body.
  destruct (ty =? ScmpParameterProblem).
  { intros H. apply (f_equal (fun o => match o with Some b => b | None => [] end)) in H. subst body.
    apply Forall_app. split; [|apply be_wf]. repeat constructor; unfold wf_byte; lia. }
  destruct (ty =? ScmpDestUnreachable).
  { intros H. apply (f_equal (fun o => match o with Some b => b | None => [] end)) in H. subst body.
    repeat constructor; unfold wf_byte; lia. }
  destruct (ty =? ScmpExternalInterfaceDown).
  { intros H. apply (f_equal (fun o => match o with Some b => b | None => [] end)) in H. subst body.
    apply Forall_app. split; apply be_wf. }
  destruct (ty =? ScmpInternalConnectivityDown); [|discriminate].
  intros H. apply (f_equal (fun o => match o with Some b => b | None => [] end)) in H. subst body.
  apply Forall_app. split; [apply be_wf|]. apply Forall_app. split; apply be_wf.
Qed.

Lemma is_scmp_error_false x ll :
  last_layer (sp_next x) (payload x) = Some ll -> classify ll = NotScmp \/ classify ll = ScmpInfo ->
  is_scmp_error x = false.
Proof. intros E [C|C]; unfold is_scmp_error; now rewrite E, C. Qed.

Lemma c09_ok_scmp macq c ing ty code ptr eg x va ats :
  pkt_inv (sp_pkt x) -> wf_input c x -> req_ok_x (SpScmp ty code ptr) x -> known_quote x = false ->
  c09_ok macq c ing (SpScmp ty code ptr) eg x
         (slow_path macq c ing (SpScmp ty code ptr) eg x va ats) = true.
Proof.
  intros I (WR & SA & W1 & W2) (TK & T & C & PO) K.
  destruct (slow_path macq c ing (SpScmp ty code ptr) eg x va ats) as [| |r| | | |] eqn:ES; try reflexivity.
  - exfalso. revert ES. now apply slow_path_no_panic.
  - destruct (slow_path_scmp_inv _ _ _ _ _ _ _ _ _ _ _ ES) as (ll & body & EL & EB & EC & EP).
    destruct (prepare_inv _ _ _ _ _ _ _ _ _ _ _ EP) as (rp & EBu & IR). specialize (IR I).
    pose proof (scmp_body_size _ _ _ _ _ _ EB) as HS. pose proof (scmp_body_wf _ _ _ _ _ _ EB) as WB.
    pose proof (scmp_header_size_bound ty) as SB.
    unfold c09_ok.
    rewrite (is_scmp_error_false x ll EL EC), (build_addressing _ _ _ _ _ _ _ _ _ _ _ EBu),
            (build_type_code _ _ _ _ _ _ _ _ _ _ _ _ _ EB EBu), PO,
            (build_quote_prefix _ _ _ _ _ _ _ _ _ _ HS K EBu), (build_size _ _ _ _ _ _ _ _ _ _ HS EBu),
            (build_geom _ _ _ _ _ _ _ _ _ _ _ HS IR SA EBu),
            (build_checksum _ _ _ _ _ _ _ _ _ _ _ T C WB ltac:(lia) WR SA W1 W2 EBu),
            (build_auth _ _ _ _ _ _ _ _ _ _ EBu).
    reflexivity.
  - exfalso. unfold slow_path in ES. destruct (_ || _); [discriminate|]. destruct (negb _); [discriminate|].
    destruct (last_layer _ _); [|discriminate]. destruct (scmp_body _ _ _ _ _); [|discriminate].
    destruct (classify _); try discriminate; unfold prepare in ES;
      (destruct (reverse _); [|discriminate]; destruct (nthN _ _); [|discriminate];
       destruct (det_peer _ _); [|discriminate]; destruct (revert_xover _ _); [|discriminate];
       destruct (ext_inc _ _ _); try discriminate; unfold build in ES;
       destruct (pack_local _) as [[? ?]|]; [|discriminate]; cbv zeta in ES;
       destruct (_ && _); [discriminate|]; destruct (Checksum.serialize _ _ _); try discriminate;
       destruct (_ <? _); [discriminate|]; destruct (c_scmp_auth c); [|discriminate];
       destruct (parse_host _ _); try discriminate;
       (destruct (auth_input _ _ _ _ _); [|discriminate]; destruct (macq _); discriminate)).
Qed.

(** traceroute replies: only well-formedness and checksum are claimed here (C10 is about them) *)
Lemma c09_ok_alert macq c ing req eg x va ats :
  (req = SpAlertIngress \/ req = SpAlertEgress) ->
  pkt_inv (sp_pkt x) -> wf_input c x ->
  c09_ok macq c ing req eg x (slow_path macq c ing req eg x va ats) = true.
Proof.
  intros HR I (WR & SA & W1 & W2).
  assert (TR : forall ll ifid, wf_bytes (snd ll) ->
             match traceroute macq c ing x ll ifid va ats with
             | SReply r => geom_ok r && checksum_ok r = true
             | SPanic | SUnparsable => False
             | _ => True end).
  { intros ll ifid WL. unfold traceroute. destruct (negb _); [exact Logic.I|].
    destruct (snd ll) as [|t [|cd [|b2 [|b3 rest]]]]; try exact Logic.I.
    destruct (negb _); [exact Logic.I|]. destruct (lenN rest <? 20) eqn:EL; [exact Logic.I|]. apply N.ltb_ge in EL.
    set (body := firstn 4 rest ++ be 8 (c_ia c) ++ be 8 ifid).
    assert (LB : lenN body + 4 = scmp_header_size ScmpTracerouteReply).
    { unfold body. rewrite !lenN_app, !lenN_be. unfold lenN at 1. rewrite firstn_length.
      unfold lenN in EL. change (scmp_header_size ScmpTracerouteReply) with 24. lia. }
    assert (WB : wf_bytes body).
    { unfold body. apply Forall_app. split.
      - apply Forall_firstn'. now do 4 apply Forall_inv_tail in WL.
      - apply Forall_app. split; apply be_wf. }
    destruct (prepare macq c ing x ScmpTracerouteReply 0 body false (c_scmp_auth c && va) ats) as [| |r| | | |] eqn:EP;
      try exact Logic.I.
    - revert EP. now apply prepare_no_panic.
    - destruct (prepare_inv _ _ _ _ _ _ _ _ _ _ _ EP) as (rp & EBu & IR). specialize (IR I).
      rewrite (build_geom _ _ _ _ _ _ _ _ _ _ _ LB IR SA EBu).
      assert (LB' : lenN body <= 100)
        by (change (scmp_header_size ScmpTracerouteReply) with 24 in LB; lia).
      rewrite (build_checksum macq c x rp ScmpTracerouteReply 0 body false (c_scmp_auth c && va) ats r
                              eq_refl eq_refl WB LB' WR SA W1 W2 EBu).
      reflexivity.
    - unfold prepare in EP.
      destruct (reverse _); [|discriminate]. destruct (nthN _ _); [|discriminate].
      destruct (det_peer _ _); [|discriminate]. destruct (revert_xover _ _); [|discriminate].
      destruct (ext_inc _ _ _); try discriminate. unfold build in EP.
      destruct (pack_local _) as [[? ?]|]; [|discriminate]. cbv zeta in EP.
      destruct (_ && (_ <? _)); [discriminate|]. destruct (Checksum.serialize _ _ _); try discriminate.
      destruct (_ <? _); [discriminate|]. destruct (_ && va); [|discriminate].
      destruct (parse_host _ _); try discriminate;
        (destruct (auth_input _ _ _ _ _); [|discriminate]; destruct (macq _); discriminate). }
  unfold slow_path. destruct (_ || _); [now destruct HR as [-> | ->]|].
  destruct (negb _); [now destruct HR as [-> | ->]|].
  destruct (last_layer _ _) as [ll|] eqn:EL; [|now destruct HR as [-> | ->]].
  assert (WL : wf_bytes (snd ll)).
  { eapply last_layer_wf; [|exact EL]. unfold payload, dropN. now apply Forall_skipn'. }
  destruct HR as [-> | ->].
  - specialize (TR ll (ing_ifid ing) WL). destruct (traceroute _ _ _ _ _ _ _ _); try reflexivity; try contradiction.
    exact TR.
  - specialize (TR ll eg WL). destruct (traceroute _ _ _ _ _ _ _ _); try reflexivity; try contradiction.
    exact TR.
Qed.
