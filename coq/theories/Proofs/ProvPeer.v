(** Provenance paths over a peering link, given as their two slices (first against, second in
    construction direction, joined by the peering link between the two peer entries): a sufficient
    condition for [wf_prov_b] stated on the two hop lists, and the interface list.  The peering
    counterpart of Proofs/ProvSlices.v (C02, layer 3). *)
From Coq Require Import List NArith Bool Arith Lia.
From Scion Require Import Lib.Check Model.Router Model.Network Model.Prov.
From Scion Require Import Proofs.ProvStruct Proofs.ProvRender Proofs.ForwardView Proofs.ProvFacts
  Proofs.RouterPass Proofs.ProvSlices.
Import ListNotations.
Import Scion.Model.Router.Router Network Prov.

Definition peer_sl1 (ts1 : N) (h1 : list phop) : pslice := mkSl KIntra false true ts1 h1.
Definition peer_sl2 (ts2 : N) (h2 : list phop) : pslice := mkSl KIntra true true ts2 h2.
Definition peer_prov (ts1 ts2 : N) (h1 h2 : list phop) : prov :=
  of_slices [peer_sl1 ts1 h1; peer_sl2 ts2 h2].

Section Peer.
Variables ts1 ts2 : N.
Variables h1 h2 : list phop.

Notation sl1 := (peer_sl1 ts1 h1).
Notation sl2 := (peer_sl2 ts2 h2).
Notation p := (peer_prov ts1 ts2 h1 h2).
Notation n := (nhops p).
Notation m1 := (length h1).
Notation m2 := (length h2).

Lemma pp_hops : pv_hops p = h1 ++ h2.
Proof. unfold peer_prov, peer_sl1, peer_sl2. cbn [of_slices pv_hops flat_map sl_hops]. now rewrite app_nil_r. Qed.
Lemma pp_lens : lens p = [m1; m2].
Proof. reflexivity. Qed.
Lemma pp_n : n = (m1 + m2)%nat.
Proof. unfold nhops. now rewrite pp_hops, app_length. Qed.

Lemma pos1 k : (k < m1)%nat -> seg_idx (lens p) k = 0%nat /\ seg_off (lens p) k = k.
Proof. intros H. rewrite pp_lens. cbn [seg_idx seg_off]. apply Nat.ltb_lt in H. now rewrite H. Qed.

Lemma pos2 j : (j < m2)%nat -> seg_idx (lens p) (m1 + j) = 1%nat /\ seg_off (lens p) (m1 + j) = j.
Proof.
  intros H. rewrite pp_lens. cbn [seg_idx seg_off].
  replace (m1 + j <? m1)%nat with false by (symmetry; apply Nat.ltb_ge; lia).
  replace (m1 + j - m1)%nat with j by lia. apply Nat.ltb_lt in H. now rewrite H.
Qed.

Lemma hdr1 k : (k < m1)%nat -> hdr p k = hdr_of sl1.
Proof. intros H. unfold hdr. destruct (pos1 k H) as [-> _]. reflexivity. Qed.
Lemma hdr2 j : (j < m2)%nat -> hdr p (m1 + j) = hdr_of sl2.
Proof. intros H. unfold hdr. destruct (pos2 j H) as [-> _]. reflexivity. Qed.
Lemma hop1 k : (k < m1)%nat -> hop p k = nth k h1 dhop.
Proof. intros H. unfold hop. rewrite pp_hops. now apply app_nth1. Qed.
Lemma hop2 j : hop p (m1 + j) = nth j h2 dhop.
Proof. unfold hop. rewrite pp_hops, app_nth2 by lia. f_equal. lia. Qed.

Lemma cons1 k : (k < m1)%nat -> cons p k = false.
Proof. intros H. unfold cons. now rewrite hdr1. Qed.
Lemma cons2 j : (j < m2)%nat -> cons p (m1 + j) = true.
Proof. intros H. unfold cons. now rewrite hdr2. Qed.
Lemma last1 k : (k < m1)%nat -> is_last p k = Nat.eqb (S k) m1.
Proof. intros H. unfold is_last. rewrite hdr1 by assumption. destruct (pos1 k H) as [_ ->]. reflexivity. Qed.
Lemma last2 j : (j < m2)%nat -> is_last p (m1 + j) = Nat.eqb (S j) m2.
Proof. intros H. unfold is_last. rewrite hdr2 by assumption. destruct (pos2 j H) as [_ ->]. reflexivity. Qed.
Lemma first2 j : (j < m2)%nat -> is_first p (m1 + j) = Nat.eqb j 0.
Proof. intros H. unfold is_first. destruct (pos2 j H) as [_ ->]. reflexivity. Qed.
Lemma peer1 k : (k < m1)%nat -> sg_peer (hdr p k) = true.
Proof. intros H. now rewrite hdr1. Qed.
Lemma peer2 j : (j < m2)%nat -> sg_peer (hdr p (m1 + j)) = true.
Proof. intros H. now rewrite hdr2. Qed.
Lemma peerhop1 k : (k < m1)%nat -> peerhop p k = Nat.eqb (S k) m1.
Proof. intros H. unfold peerhop. now rewrite peer1, cons1, last1. Qed.
Lemma peerhop2 j : (j < m2)%nat -> peerhop p (m1 + j) = Nat.eqb j 0.
Proof. intros H. unfold peerhop. now rewrite peer2, cons2, first2. Qed.
Lemma crosses1 k : (k < m1)%nat -> crosses p k = true.
Proof. intros H. unfold crosses. rewrite peer1 by assumption. apply orb_true_r. Qed.
Lemma crosses2 j : (j < m2)%nat -> crosses p (m1 + j) = true.
Proof. intros H. unfold crosses. rewrite peer2 by assumption. apply orb_true_r. Qed.

(** * The interface list *)
Lemma fpair1 i : (S i < m1)%nat -> fpair p i = pair_at sl1 (nth i h1 dhop) (nth (S i) h1 dhop).
Proof.
  intros H. unfold fpair, ia, tr_eg, tr_in. rewrite crosses1, !cons1, !hop1 by lia. reflexivity.
Qed.

Lemma fpair2 j : (S j < m2)%nat -> fpair p (m1 + j) = pair_at sl2 (nth j h2 dhop) (nth (S j) h2 dhop).
Proof.
  intros H. unfold fpair, ia, tr_eg, tr_in. rewrite crosses2 by lia.
  replace (S (m1 + j)) with (m1 + S j)%nat by lia. rewrite !cons2, !hop2 by lia. reflexivity.
Qed.

Lemma fpair_junc : (1 <= m1)%nat -> (1 <= m2)%nat ->
  fpair p (m1 - 1) = [(ph_ia (last h1 dhop), ph_in (last h1 dhop)); (ph_ia (hd dhop h2), ph_in (hd dhop h2))].
Proof.
  intros L1 L2. unfold fpair, ia, tr_eg, tr_in. rewrite crosses1, cons1, hop1 by lia.
  replace (S (m1 - 1)) with (m1 + 0)%nat by lia. rewrite cons2, hop2 by lia.
  rewrite nth_last by (intros X; rewrite X in L1; cbn in L1; lia).
  destruct h2; reflexivity.
Qed.

Theorem interfaces_peer : (1 <= m1)%nat -> (1 <= m2)%nat ->
  interfaces p = pairs_ifs sl1 h1 ++
    [(ph_ia (last h1 dhop), ph_in (last h1 dhop)); (ph_ia (hd dhop h2), ph_in (hd dhop h2))] ++
    pairs_ifs sl2 h2.
Proof.
  intros L1 L2. rewrite interfaces_fpair, pp_n, !pairs_ifs_seq.
  replace (m1 + m2 - 1)%nat with ((m1 - 1) + (1 + (m2 - 1)))%nat by lia.
  rewrite seq_app, flat_map_app, seq_app, flat_map_app. cbn [seq flat_map Nat.add]. rewrite app_nil_r.
  rewrite fpair_junc by assumption. f_equal; [|f_equal].
  - apply flat_map_ext_in'. intros i Hi. apply in_seq in Hi. apply fpair1. lia.
  - match goal with |- context [seq ?s (m2 - 1)] => replace s with (m1 + 0)%nat by lia end.
    assert (G : forall c s, flat_map (fpair p) (seq (m1 + s) c) =
                            flat_map (fun j => fpair p (m1 + j)) (seq s c)).
    { induction c as [|c IH]; intros s; [reflexivity|]. cbn [seq flat_map]. f_equal.
      replace (S (m1 + s)) with (m1 + S s)%nat by lia. apply IH. }
    rewrite G. apply flat_map_ext_in'. intros j Hj. apply in_seq in Hj. apply fpair2. lia.
Qed.

Variable mac : N -> N -> N -> N -> N -> N -> list N.
Variable t : topology.

(** * Slice-level well-formedness *)
Record wf_peer : Prop := {
  wp_l1 : (1 <= m1)%nat;
  wp_l2 : (1 <= m2)%nat;
  wp_tot : (m1 + m2 <= 64)%nat;
  wp_hop1 : forall h, In h h1 -> hop_good mac t sl1 h;
  wp_hop2 : forall h, In h h2 -> hop_good mac t sl2 h;
  wp_pair1 : forall i h h', nth_error h1 i = Some h -> nth_error h1 (S i) = Some h' ->
    ph_beta h' = (if Nat.eqb (S (S i)) m1 then ph_beta h else N.lxor (ph_beta h) (mac_prefix (ph_mac h'))) /\
    exists a f, find_as t (ph_ia h) = Some a /\ find_nif (a_ifs a) (ph_in h) = Some f /\
      ni_nbr f = ph_ia h' /\ ni_remote f = ph_eg h' /\ ni_lt f = Parent;
  wp_pair2 : forall i h h', nth_error h2 i = Some h -> nth_error h2 (S i) = Some h' ->
    ph_beta h' = (if Nat.eqb i 0 then ph_beta h else N.lxor (ph_beta h) (mac_prefix (ph_mac h))) /\
    exists a f, find_as t (ph_ia h) = Some a /\ find_nif (a_ifs a) (ph_eg h) = Some f /\
      ni_nbr f = ph_ia h' /\ ni_remote f = ph_in h' /\ ni_lt f = Child;
  wp_junc : exists a f, find_as t (ph_ia (last h1 dhop)) = Some a /\
      find_nif (a_ifs a) (ph_in (last h1 dhop)) = Some f /\
      ni_nbr f = ph_ia (hd dhop h2) /\ ni_remote f = ph_in (hd dhop h2) /\ ni_lt f = Peer;
  wp_src : forall k, (1 <= k)%nat -> (k < n)%nat -> ia p k <> ia p 0;
  wp_dst : forall k, (S k < n)%nat -> ia p k <> ia p (n - 1)
}.

Hypothesis W : wf_peer.

Lemma peer_shape : shape_ok p = true.
Proof.
  destruct W as [L1 L2 Tot _ _ _ _ _ _ _].
  unfold shape_ok. cbv zeta. rewrite pp_lens.
  change (pv_segs p) with [hdr_of sl1; hdr_of sl2].
  cbn [length fold_right existsb forallb hdr_of sg_peer sg_len sg_consdir sg_kind sl_peer sl_consdir sl_kind
       peer_sl1 peer_sl2 sl_hops negb andb orb].
  rewrite pp_n, Nat.add_0_r, Nat.eqb_refl. cbn [andb].
  replace (m1 + m2 <=? 64)%nat with true by (symmetry; apply Nat.leb_le; lia).
  replace (1 <=? m1)%nat with true by (symmetry; apply Nat.leb_le; lia).
  replace (1 <=? m2)%nat with true by (symmetry; apply Nat.leb_le; lia).
  reflexivity.
Qed.

Theorem wf_peer_prov : wf_prov_b (macq_of mac) t p = true.
Proof.
  pose proof W as [L1 L2 Tot Hop1 Hop2 Pair1 Pair2 Junc Src Dst].
  unfold wf_prov_b.
  apply andb_true_iff; split; [apply andb_true_iff; split; [apply andb_true_iff; split;
    [apply andb_true_iff; split; [apply andb_true_iff; split|]|]|]|].
  - apply peer_shape.
  - apply Nat.leb_le. rewrite pp_n. lia.
  - apply forallb_forall. intros k Hk. apply in_seq in Hk. destruct Hk as [_ Hk]. cbn [Nat.add] in Hk.
    rewrite pp_n in Hk. unfold hop_ok, ia, beta.
    destruct (Nat.lt_ge_cases k m1) as [K|K].
    + destruct (Hop1 (nth k h1 dhop)) as (a & Fa & M); [now apply nth_In|].
      rewrite hdr1, hop1 by assumption. rewrite Fa. cbn [hdr_of sg_ts]. unfold macq_of. rewrite <- M.
      apply list_eqb_N_refl.
    + replace k with (m1 + (k - m1))%nat by lia.
      destruct (Hop2 (nth (k - m1) h2 dhop)) as (a & Fa & M); [apply nth_In; lia|].
      rewrite hdr2, hop2 by lia. rewrite Fa. cbn [hdr_of sg_ts]. unfold macq_of. rewrite <- M.
      apply list_eqb_N_refl.
  - apply forallb_forall. intros k Hk. apply in_seq in Hk. destruct Hk as [_ Hk]. cbn [Nat.add] in Hk.
    rewrite pp_n in Hk.
    destruct (Nat.lt_ge_cases (S k) m1) as [K|K].
    + (* inside the first slice *)
      assert (K0 : (k < m1)%nat) by lia.
      assert (E1 : nth_error h1 k = Some (nth k h1 dhop)) by now apply nth_error_nth'.
      assert (E2 : nth_error h1 (S k) = Some (nth (S k) h1 dhop)) by now apply nth_error_nth'.
      destruct (Pair1 _ _ _ E1 E2) as (Ch & a & f & Fa & Ff & Nb & Rm & Lt).
      unfold chain_ok, link_ok, junction_ok, eg_type.
      rewrite (crosses1 k K0), (last1 k K0), (cons1 k K0), (peerhop1 k K0), (peerhop1 (S k) K).
      replace (Nat.eqb (S k) m1) with false by (symmetry; apply Nat.eqb_neq; lia).
      cbn [negb orb andb]. unfold beta, sigma, ia, tr_eg, tr_in.
      rewrite (cons1 k K0), (cons1 (S k) K), (hdr1 k K0), (hop1 k K0), (hop1 (S k) K).
      cbn [hdr_of sg_kind sl_kind peer_sl1].
      rewrite Fa, Ff, Nb, Rm, Lt, Ch, !N.eqb_refl. reflexivity.
    + destruct (Nat.eq_dec (S k) m1) as [Q|Q].
      * (* the peering link *)
        assert (K0 : (k < m1)%nat) by lia.
        destruct Junc as (a & f & Fa & Ff & Nb & Rm & Lt).
        assert (El : nth k h1 dhop = last h1 dhop).
        { replace k with (m1 - 1)%nat by lia. apply nth_last. intros X. rewrite X in L1. cbn in L1. lia. }
        assert (Ef : nth 0 h2 dhop = hd dhop h2) by (destruct h2; reflexivity).
        unfold chain_ok, link_ok, junction_ok, eg_type.
        rewrite (crosses1 k K0), (last1 k K0), (cons1 k K0), (peerhop1 k K0).
        replace (Nat.eqb (S k) m1) with true by (symmetry; apply Nat.eqb_eq; lia).
        cbn [negb orb andb]. unfold ia, tr_eg, tr_in. rewrite (cons1 k K0), (hop1 k K0).
        replace (S k) with (m1 + 0)%nat by lia. rewrite (cons2 0 ltac:(lia)), hop2.
        rewrite El, Ef, Fa, Ff, Nb, Rm, Lt, !N.eqb_refl. reflexivity.
      * (* inside the second slice *)
        replace k with (m1 + (k - m1))%nat by lia. set (j := (k - m1)%nat).
        assert (J0 : (j < m2)%nat) by (subst j; lia). assert (J1 : (S j < m2)%nat) by (subst j; lia).
        assert (E1 : nth_error h2 j = Some (nth j h2 dhop)) by now apply nth_error_nth'.
        assert (E2 : nth_error h2 (S j) = Some (nth (S j) h2 dhop)) by now apply nth_error_nth'.
        destruct (Pair2 _ _ _ E1 E2) as (Ch & a & f & Fa & Ff & Nb & Rm & Lt).
        unfold chain_ok, link_ok, junction_ok, eg_type.
        rewrite (crosses2 j J0), (last2 j J0), (cons2 j J0), (peerhop2 j J0).
        replace (Nat.eqb (S j) m2) with false by (symmetry; apply Nat.eqb_neq; lia).
        cbn [negb orb andb]. rewrite andb_false_r. unfold beta, sigma, ia, tr_eg, tr_in.
        replace (S (m1 + j)) with (m1 + S j)%nat by lia.
        rewrite (cons2 j J0), (cons2 (S j) J1), (hdr2 j J0), !hop2.
        cbn [hdr_of sg_kind sl_kind peer_sl2].
        rewrite Fa, Ff, Nb, Rm, Lt, Ch, !N.eqb_refl. reflexivity.
  - apply forallb_forall. intros k Hk. apply in_seq in Hk. apply negb_true_iff, N.eqb_neq. apply Src; lia.
  - apply forallb_forall. intros k Hk. apply in_seq in Hk. apply negb_true_iff, N.eqb_neq. apply Dst; lia.
Qed.

End Peer.
