(** The C35 oracles hold on the model (Model/TrustStore.v). *)
From Coq Require Import List NArith ZArith Bool Lia.
From Scion Require Import Lib.Check Model.PKIChain Model.TrustStore Proofs.TrustStore.
Import ListNotations.
Import PKIChain TrustStore.
Local Open Scope N_scope.

Lemma nlist_eqb_refl (x : list N) : list_eqb N.eqb x x = true.
Proof. apply list_eqb_eq; auto. intros; apply N.eqb_eq. Qed.

Lemma keys_eqb_iff a b : keys_eqb (key a) (key b) = true <->
  t_isd a = t_isd b /\ t_base a = t_base b /\ t_serial a = t_serial b /\ t_h a = t_h b.
Proof.
  unfold keys_eqb, key. split.
  - intros H. apply list_eqb_eq in H; [|intros; apply N.eqb_eq]. injection H. auto.
  - intros (-> & -> & -> & ->). apply nlist_eqb_refl.
Qed.

Lemma in_store_In t s : In t s -> in_store t s = true.
Proof. intros H. apply existsb_exists. exists t. split; auto. apply nlist_eqb_refl. Qed.

Lemma in_store_false t s :
  (forall u, In u s -> t_isd u = t_isd t -> t_base u = t_base t -> t_serial u <> t_serial t) ->
  in_store t s = false.
Proof.
  intros H. destruct (in_store t s) eqn:E; auto. apply existsb_exists in E as (u & Hin & K).
  apply keys_eqb_iff in K as (K1 & K2 & K3 & _). exfalso. eapply H; eauto.
Qed.

Lemma subset_keys_refl l : subset_keys l l = true.
Proof.
  apply forallb_forall. intros x Hx. apply existsb_exists. exists x. split; auto. apply nlist_eqb_refl.
Qed.

Lemma same_store_refl s : same_store s s = true.
Proof. unfold same_store. now rewrite N.eqb_refl, subset_keys_refl. Qed.

Lemma all_in_store_app pre added : forallb (fun t => in_store t (pre ++ added)) pre = true.
Proof. apply forallb_forall. intros t Ht. apply in_store_In. apply in_or_app. now left. Qed.

Lemma all_in_store_self s : forallb (fun t => in_store t s) s = true.
Proof. apply forallb_forall. intros t Ht. now apply in_store_In. Qed.

Lemma filter_all {A} (p : A -> bool) l : (forall x, In x l -> p x = true) -> filter p l = l.
Proof.
  induction l as [|x r IH]; intros H; cbn; auto. rewrite (H x (or_introl eq_refl)).
  f_equal. apply IH. intros y Hy. apply H. now right.
Qed.
Lemma filter_none {A} (p : A -> bool) l : (forall x, In x l -> p x = false) -> filter p l = [].
Proof.
  induction l as [|x r IH]; intros H; cbn; auto. rewrite (H x (or_introl eq_refl)).
  apply IH. intros y Hy. apply H. now right.
Qed.

Lemma new_of_app pre added :
  (forall f, In f added -> in_store f pre = false) -> new_of pre (pre ++ added) = added.
Proof.
  intros H. unfold new_of. rewrite filter_app.
  rewrite (filter_none _ pre), (filter_all _ added); auto.
  - intros f Hf. now rewrite (H f Hf).
  - intros t Ht. now rewrite (in_store_In t pre Ht).
Qed.

Lemma consecutive_seqN len : forall from, consecutive from (seqN from len) = true.
Proof. induction len as [|k IH]; intros from; cbn; auto. now rewrite N.eqb_refl, IH. Qed.

Section Chain.
Variable fetch : trcid -> option trc.
Notation chain := (chain_ok verify_update fetch).

Lemma chain_serials added : forall cur, chain cur added ->
  forall f, In f added ->
    t_isd f = t_isd cur /\ t_base f = t_base cur /\ t_serial cur < t_serial f
    /\ t_serial f <= t_serial cur + N.of_nat (length added).
Proof.
  induction added as [|g r IH]; intros cur C f Hf; [destruct Hf|].
  destruct C as (_ & V & C). destruct (verify_update_ids _ _ V) as (I & B & S).
  cbn [length]. rewrite Nat2N.inj_succ.
  destruct Hf as [<-|Hf].
  - repeat split; auto; lia.
  - destruct (IH g C f Hf) as (I' & B' & S1 & S2). repeat split; try congruence; lia.
Qed.

Lemma follow_chain added : forall cur, chain cur added -> follow (length added) cur added = true.
Proof.
  induction added as [|f r IH]; intros cur C; [reflexivity|].
  assert (C' := C). destruct C as (_ & V & C). destruct (verify_update_ids _ _ V) as (I & B & S).
  cbn [length follow find].
  rewrite I, B, S, !N.eqb_refl. cbn [andb]. rewrite V. cbn [andb filter].
  rewrite nlist_eqb_refl. cbn [negb].
  rewrite filter_all.
  - now apply IH.
  - intros g Hg. destruct (chain_serials r f C g Hg) as (_ & _ & Sg & _).
    apply negb_true_iff. destruct (keys_eqb (key g) (key f)) eqn:K; auto.
    apply keys_eqb_iff in K as (_ & _ & K & _). lia.
Qed.
End Chain.

Lemma step_oracle_model pre o res post req :
  step verify_update pre o = (res, post, req) ->
  step_oracle pre o (nres_ok res) req post = true.
Proof.
  unfold step. set (fetch := script_fetch (o_script o)). intros H.
  unfold step_oracle.
  destruct (latest_trc pre (o_isd o)) as [l|] eqn:L.
  2:{ rewrite (notify_no_trc _ _ _ _ _ _ _ L) in H. inversion H; subst.
      rewrite all_in_store_self, same_store_refl. reflexivity. }
  destruct (N.eq_dec (t_base l) (o_base o)) as [B|B].
  2:{ rewrite (notify_base_mismatch _ _ _ _ _ _ _ _ L B) in H. inversion H; subst.
      rewrite all_in_store_self, same_store_refl.
      apply N.eqb_neq in B. rewrite B. reflexivity. }
  assert (B' := B). apply N.eqb_eq in B'. rewrite B'. cbn [negb].
  destruct (N.le_gt_cases (o_serial o) (t_serial l)) as [Hs|Hs].
  { rewrite (notify_stale _ _ _ _ _ _ _ _ L B Hs) in H. inversion H; subst.
    rewrite all_in_store_self, same_store_refl.
    apply N.leb_le in Hs. rewrite Hs. reflexivity. }
  assert (S' := Hs). apply N.leb_gt in S'. rewrite S'.
  destruct (latest_in _ _ _ L) as [Lin Li].
  assert (Hadd : exists added, post = pre ++ added /\ chain_ok verify_update fetch l added
            /\ req = seqN (t_serial l + 1) (length req)
            /\ ((res = NOk /\ N.of_nat (length added) = o_serial o - t_serial l
                 /\ N.of_nat (length req) = o_serial o - t_serial l)
                \/ (nres_ok res = false /\ req = [] /\ added = [])
                \/ (nres_ok res = false /\ length req = S (length added)
                    /\ N.of_nat (length added) < o_serial o - t_serial l))).
  { destruct (o_rec o) eqn:R.
    - destruct (notify_update verify_update fetch verify_update_ids _ _ _ _ _ _ _ _ L B Hs H)
        as (added & E & C & Q & End).
      exists added. repeat split; auto.
      destruct End as [E1 E2 | E1 E2 E3 | f0 E1 E2 E3 E4].
      + left. rewrite E1, E2, N2Nat.id. auto.
      + right. right. repeat split; auto. lia.
      + right. right. repeat split; auto. lia.
    - rewrite (notify_no_recursion _ _ _ _ _ _ _ L B Hs) in H. inversion H; subst.
      exists []. rewrite app_nil_r. repeat split; auto. }
  destruct Hadd as (added & -> & C & Q & Cnt).
  rewrite all_in_store_app. cbn [andb].
  assert (Hser := chain_serials fetch added l C).
  rewrite new_of_app.
  2:{ intros f Hf. destruct (Hser f Hf) as (I & Bf & S1 & _). apply in_store_false.
      intros u Hu Iu Bu Su.
      assert (M := latest_max _ _ _ L u Hu ltac:(congruence)). apply id_le_iff in M. lia. }
  rewrite (follow_chain fetch added l C). cbn [andb].
  assert (Hle : forallb (fun f => t_serial f <=? o_serial o) added = true).
  { apply forallb_forall. intros f Hf. destruct (Hser f Hf) as (_ & _ & _ & S2). apply N.leb_le.
    destruct Cnt as [(_ & K & _)|[(_ & _ & ->)|(_ & _ & K)]]; [lia | destruct Hf | lia]. }
  rewrite Hle. cbn [andb].
  rewrite Q, consecutive_seqN, <- Q. cbn [andb].
  destruct (superset_no_regress pre added _ l L) as (l' & L' & Le). rewrite L', Le, andb_true_r.
  destruct Cnt as [(-> & K1 & K2)|[(K0 & -> & ->)|(K0 & K1 & K2)]].
  - cbn [nres_ok]. rewrite K1, K2, !N.eqb_refl. reflexivity.
  - rewrite K0. reflexivity.
  - rewrite K0, K1. rewrite Nat2N.inj_succ, <- N.add_1_r, N.eqb_refl. apply orb_true_r.
Qed.

Theorem hist_oracle_model ops : forall init,
  hist_oracle init ops (trace verify_update init ops) = true.
Proof.
  induction ops as [|o r IH]; intros init; [reflexivity|].
  cbn [trace]. destruct (step verify_update init o) as [[res s'] req] eqn:E.
  cbn [hist_oracle]. now rewrite (step_oracle_model _ _ _ _ _ E), IH.
Qed.

Lemma latest_oracle_model s isd : latest_oracle s isd (latest_key s isd) = true.
Proof.
  unfold latest_oracle, latest_key. destruct (latest_trc s isd) as [l|] eqn:L.
  - destruct (latest_in _ _ _ L) as [Hin Hi]. cbn [key].
    apply existsb_exists. exists l. split; auto.
    fold (key l). rewrite nlist_eqb_refl. apply N.eqb_eq in Hi. rewrite Hi. cbn [andb].
    apply forallb_forall. intros t Ht. destruct (t_isd t =? isd) eqn:E; cbn [negb orb]; auto.
    apply N.eqb_eq in E. eapply latest_max; eauto.
  - apply forallb_forall. intros t Ht. apply negb_true_iff. apply N.eqb_neq.
    eapply latest_none_notin; eauto.
Qed.

Theorem load_oracle_model now files init :
  let s' := snd (load_trcs now files init [] []) in
  load_oracle now init s' (latest_key s' 1) = true.
Proof.
  destruct (load_trcs now files init [] []) as [[[e l] i] s'] eqn:E. cbn [snd].
  unfold load_oracle. rewrite latest_oracle_model, andb_true_r. apply andb_true_iff. split.
  - apply forallb_forall. intros t Ht.
    destruct (load_trcs_origin _ _ _ _ _ _ _ _ _ E t Ht) as [K|(n & _ & K)].
    + now rewrite (in_store_In t init K).
    + apply Z.leb_le in K. rewrite K. apply orb_true_r.
  - apply forallb_forall. intros t Ht. apply in_store_In. eapply load_trcs_grows; eauto.
Qed.
