(** Completeness (valid combination => chain of the graph), parity of the
    interface lists (no panic on well-formed input), and the resulting
    statements about [combine]. *)
From Coq Require Import List NArith Bool Arith Lia.
From Scion Require Import Lib.Check Model.Segment Model.CombSpec Model.Combinator.
From Scion Require Import Proofs.CombinatorGraph Proofs.CombinatorRender Proofs.CombinatorFilter
  Proofs.CombinatorPaths Proofs.CombinatorIfs Proofs.CombSpec Proofs.CombinatorSpec
  Proofs.CombinatorSound Proofs.CombinatorComplete.
Import ListNotations.
Import Segment Combinator.
Local Open Scope N_scope.

Definition dflt_entry : as_entry := mkAS 0 (mkHop 0 0 0 []) 0 0 [].

(** ---- positions in a well-formed segment ---- *)
Lemma nth_error_last {A} (l : list A) d : l <> [] -> nth_error l (length l - 1) = Some (last l d).
Proof.
  induction l as [|x l IH]; intros H; [contradiction|].
  destruct l as [|y l]; [reflexivity|]. cbn [length last] in *.
  replace (S (S (length l)) - 1)%nat with (S (S (length l) - 1)) by lia. cbn [nth_error].
  apply IH. discriminate.
Qed.

Lemma nth_error_skipn' {A} (l : list A) : forall k i, nth_error (skipn k l) i = nth_error l (k + i).
Proof.
  induction l as [|x l IH]; intros k i.
  - rewrite skipn_nil. destruct i, k; reflexivity.
  - destruct k; [reflexivity|]. cbn [skipn]. rewrite IH. reflexivity.
Qed.

Lemma last_ia_nth s : sg_entries s <> [] ->
  exists a, nth_error (sg_entries s) (length (sg_entries s) - 1) = Some a /\ last_ia s = ae_ia a.
Proof.
  intros H. exists (last (sg_entries s) dflt_entry). split; [now apply nth_error_last | reflexivity].
Qed.

Lemma cut_not_last s j c :
  wf_seg s -> nth_error (sg_entries s) j = Some c -> (S j < length (sg_entries s))%nat ->
  ae_ia c <> last_ia s.
Proof.
  intros W Hc Hl E. destruct (last_ia_nth s) as [a [Ha Ea]]; [destruct (sg_entries s); [destruct j; discriminate | discriminate]|].
  rewrite Ea in E. pose proof (ws_nodup _ W _ _ _ _ Hc Ha E). lia.
Qed.

Lemma core_ends_differ c :
  wf_seg c -> (2 <= length (sg_entries c))%nat -> last_ia c <> first_ia c.
Proof.
  intros W Hl E. destruct (last_ia_nth c) as [a [Ha Ea]]; [destruct (sg_entries c); [cbn in Hl; lia | discriminate]|].
  unfold first_ia in E. destruct (sg_entries c) as [|b t] eqn:Ees; [cbn in Hl; lia|].
  rewrite Ea in E. assert (H0 : nth_error (b :: t) 0 = Some b) by reflexivity.
  pose proof (ws_nodup _ W). rewrite Ees in H. specialize (H _ _ _ _ Ha H0 E). cbn [length] in *. lia.
Qed.

Lemma inner_eg b es : inner_ifs_ok b es = true ->
  forall i c, nth_error es i = Some c -> (S i < length es)%nat -> h_eg (ae_hop c) <> 0.
Proof.
  revert b. induction es as [|a t IH]; intros b H i c Hc Hl; [destruct i; discriminate|].
  cbn in H. apply andb_true_iff in H as [H H3]. apply andb_true_iff in H as [H1 H2].
  destruct i as [|i]; cbn in Hc.
  - inversion Hc; subst. destruct t; [cbn in Hl; lia|]. apply negb_true_iff in H2. now apply N.eqb_neq.
  - eapply IH; eauto. cbn in Hl. lia.
Qed.

Lemma inner_in es : inner_ifs_ok true es = true ->
  forall i c, nth_error es i = Some c -> (0 < i)%nat -> h_in (ae_hop c) <> 0.
Proof.
  assert (G : forall es, inner_ifs_ok false es = true -> forall i c, nth_error es i = Some c -> h_in (ae_hop c) <> 0).
  { induction es0 as [|a t IH]; intros H i c Hc; [destruct i; discriminate|].
    cbn in H. apply andb_true_iff in H as [H H3]. apply andb_true_iff in H as [H1 H2].
    destruct i as [|i]; cbn in Hc.
    - inversion Hc; subst. apply negb_true_iff in H1. now apply N.eqb_neq.
    - eapply IH; eauto. }
  intros H i c Hc Hi. destruct es as [|a t]; [destruct i; discriminate|].
  cbn in H. apply andb_true_iff in H as [_ H3]. destruct i as [|i]; [lia|]. cbn in Hc. eapply G; eauto.
Qed.

(** ---- counting interfaces of an AS ---- *)
Lemma count_ia_app ia l1 l2 : count_ia ia (l1 ++ l2) = (count_ia ia l1 + count_ia ia l2)%nat.
Proof. unfold count_ia. now rewrite filter_app, app_length. Qed.

Lemma count_ia_in ia x l : In (ia, x) l -> (1 <= count_ia ia l)%nat.
Proof.
  intros H. unfold count_ia.
  assert (Hf : In (ia, x) (filter (fun y => fst y =? ia) l)) by (apply filter_In; split; [exact H | apply N.eqb_refl]).
  destruct (filter (fun y => fst y =? ia) l); [destruct Hf | cbn; lia].
Qed.

Lemma in_nz ia x : x <> 0 -> In (ia, x) (nz ia x).
Proof. intros H. unfold nz. apply N.eqb_neq in H. rewrite H. now left. Qed.

(** ---- completeness: a valid combination is a chain of the graph ---- *)
Section Complete.
Variables ups cores downs : list (N * segment).
Hypothesis W : wf_all ups cores downs.
Let segs := insegs ups cores downs.

Lemma wf_of_up u : In u (segs_of ups) -> wf_seg u.
Proof. intros H. destruct (inseg_of_up ups cores downs u H) as [s [Hs [_ <-]]]. now apply (proj1 W). Qed.
Lemma wf_of_core u : In u (segs_of cores) -> wf_seg u.
Proof. intros H. destruct (inseg_of_core ups cores downs u H) as [s [Hs [_ <-]]]. now apply (proj1 W). Qed.
Lemma wf_of_down u : In u (segs_of downs) -> wf_seg u.
Proof. intros H. destruct (inseg_of_down ups cores downs u H) as [s [Hs [_ <-]]]. now apply (proj1 W). Qed.

Lemma down_piece_from_not_dst d q : In d (segs_of downs) -> down_piece d q -> pc_from q <> pc_to q.
Proof.
  intros Hd Hq. inversion Hq as [j c Hc Hl]; subst q. cbn. eapply cut_not_last; eauto. now apply wf_of_down.
Qed.

Lemma core_piece_ends c q : In c (segs_of cores) -> core_piece c q -> pc_from q <> pc_to q.
Proof.
  intros Hc Hq. inversion Hq; subst q. cbn. apply core_ends_differ; [now apply wf_of_core | now apply (proj2 W)].
Qed.

(** the AS where a piece ends / starts owns an interface of the piece *)
Lemma up_piece_has_to u p : In u (segs_of ups) -> up_piece u p -> exists x, In (pc_to p, x) (pc_ifs p).
Proof.
  intros Hu Hp. inversion Hp as [i c Hc Hl]; subst p. cbn.
  exists (h_eg (ae_hop c)). apply in_or_app. right. apply in_nz.
  eapply inner_eg; [apply (ws_inner _ (wf_of_up _ Hu)) | exact Hc | exact Hl].
Qed.

Lemma core_piece_has_from c q : In c (segs_of cores) -> core_piece c q -> exists x, In (pc_from q, x) (pc_ifs q).
Proof.
  intros Hc Hq. inversion Hq as [Hne]; subst q. cbn.
  pose proof (wf_of_core _ Hc) as Wc. pose proof (proj2 W _ Hc) as Hl.
  destruct (last_ia_nth c Hne) as [a [Ha Ea]]. rewrite Ea.
  exists (h_in (ae_hop a)). apply in_flat_map. exists a. split.
  - apply in_rev. rewrite rev_involutive. eapply nth_error_In; exact Ha.
  - unfold entry_bwd, hop_bwd. apply in_or_app. right. apply in_nz.
    eapply inner_in; [apply (ws_inner _ Wc) | exact Ha | lia].
Qed.

Lemma down_piece_has_to d r : In d (segs_of downs) -> down_piece d r -> exists x, In (pc_to r, x) (pc_ifs r).
Proof.
  intros Hd Hr. inversion Hr as [j c Hc Hl]; subst r. cbn.
  pose proof (wf_of_down _ Hd) as Wd.
  assert (Hne : sg_entries d <> []) by (destruct (sg_entries d); [destruct j; discriminate | discriminate]).
  destruct (last_ia_nth d Hne) as [a [Ha Ea]]. rewrite Ea.
  exists (h_in (ae_hop a)). apply in_or_app. right. unfold walk_fwd. apply in_flat_map. exists a. split.
  - assert (Hs : nth_error (skipn (S j) (sg_entries d)) (length (sg_entries d) - 1 - S j) = Some a).
    { rewrite nth_error_skipn'. replace (S j + (length (sg_entries d) - 1 - S j))%nat with (length (sg_entries d) - 1)%nat by lia. exact Ha. }
    eapply nth_error_In; exact Hs.
  - unfold entry_fwd, hop_fwd. apply in_or_app. left. apply in_nz.
    eapply inner_in; [apply (ws_inner _ Wd) | exact Ha | lia].
Qed.

Theorem complete_chain src dst ifs :
  valid_combination (segs_of ups) (segs_of cores) (segs_of downs) src dst ifs ->
  no_as_thrice ifs ->
  exists es, is_chain segs src dst es /\ sol_ifs es = ifs.
Proof.
  intros H Hn. unfold is_chain, sol_ifs.
  destruct H as [u p Hu Hp Hf Ht | c p Hc Hp Hf Ht | d p Hd Hp Hf Ht
                | u p c q Hu Hp Hc Hq Hf Hj Ht | u p d q Hu Hp Hd Hq Hf Hj Ht
                | c p d q Hc Hp Hd Hq Hf Hj Ht
                | u p c q d r Hu Hp Hc Hq Hd Hr Hf Hj1 Hj2 Ht
                | u x d y Hu Hx Hd Hy Hf Hl Ht].
  - destruct (up_piece_edge _ _ _ W u p Hu Hp) as [e [He [Ty [Es [Ed Ei]]]]].
    exists [e]. cbn [chain flat_map]. rewrite app_nil_r, Ty. split; [|exact Ei].
    repeat split; [exact He | congruence | congruence].
  - destruct (core_piece_edge _ _ _ W c p Hc Hp) as [e [He [Ty [Es [Ed Ei]]]]].
    exists [e]. cbn [chain flat_map]. rewrite app_nil_r, Ty. split; [|exact Ei].
    repeat split; [exact He | congruence | congruence].
  - destruct (down_piece_edge _ _ _ W d p Hd Hp) as [e [He [Ty [Es [Ed Ei]]]]].
    exists [e]. cbn [chain flat_map]. rewrite app_nil_r, Ty. split; [|exact Ei].
    repeat split; [exact He | congruence | congruence].
  - destruct (up_piece_edge _ _ _ W u p Hu Hp) as [e1 [He1 [Ty1 [Es1 [Ed1 Ei1]]]]].
    destruct (core_piece_edge _ _ _ W c q Hc Hq) as [e2 [He2 [Ty2 [Es2 [Ed2 Ei2]]]]].
    exists [e1; e2]. cbn [chain flat_map]. rewrite app_nil_r, Ty1, Ty2. split; [|congruence].
    repeat split; try assumption; try congruence.
    intros E. rewrite Ed1 in E. apply v_ia_inj in E. apply (core_piece_ends c q Hc Hq). congruence.
  - destruct (up_piece_edge _ _ _ W u p Hu Hp) as [e1 [He1 [Ty1 [Es1 [Ed1 Ei1]]]]].
    destruct (down_piece_edge _ _ _ W d q Hd Hq) as [e2 [He2 [Ty2 [Es2 [Ed2 Ei2]]]]].
    exists [e1; e2]. cbn [chain flat_map]. rewrite app_nil_r, Ty1, Ty2. split; [|congruence].
    repeat split; try assumption; try congruence.
    intros E. rewrite Ed1 in E. apply v_ia_inj in E. apply (down_piece_from_not_dst d q Hd Hq). congruence.
  - destruct (core_piece_edge _ _ _ W c p Hc Hp) as [e1 [He1 [Ty1 [Es1 [Ed1 Ei1]]]]].
    destruct (down_piece_edge _ _ _ W d q Hd Hq) as [e2 [He2 [Ty2 [Es2 [Ed2 Ei2]]]]].
    exists [e1; e2]. cbn [chain flat_map]. rewrite app_nil_r, Ty1, Ty2. split; [|congruence].
    repeat split; try assumption; try congruence.
    intros E. rewrite Ed1 in E. apply v_ia_inj in E. apply (down_piece_from_not_dst d q Hd Hq). congruence.
  - destruct (up_piece_edge _ _ _ W u p Hu Hp) as [e1 [He1 [Ty1 [Es1 [Ed1 Ei1]]]]].
    destruct (core_piece_edge _ _ _ W c q Hc Hq) as [e2 [He2 [Ty2 [Es2 [Ed2 Ei2]]]]].
    destruct (down_piece_edge _ _ _ W d r Hd Hr) as [e3 [He3 [Ty3 [Es3 [Ed3 Ei3]]]]].
    exists [e1; e2; e3]. cbn [chain flat_map]. rewrite app_nil_r, Ty1, Ty2, Ty3. split; [|congruence].
    repeat split; try assumption; try congruence.
    + (* the up segment does not end in the destination AS: it would be passed three times *)
      intros E. rewrite Ed1 in E. apply v_ia_inj in E.
      destruct (up_piece_has_to u p Hu Hp) as [x1 H1].
      destruct (core_piece_has_from c q Hc Hq) as [x2 H2].
      destruct (down_piece_has_to d r Hd Hr) as [x3 H3].
      assert (E2 : pc_from q = dst) by congruence. assert (E1 : pc_to p = dst) by congruence.
      rewrite E1 in H1. rewrite E2 in H2. rewrite Ht in H3.
      apply count_ia_in in H1, H2, H3. specialize (Hn dst). rewrite !count_ia_app in Hn. lia.
    + intros E. rewrite Ed2 in E. apply v_ia_inj in E. apply (down_piece_from_not_dst d r Hd Hr). congruence.
  - destruct (up_half_edge _ _ _ W u x Hu Hx) as [e1 [He1 [Ty1 [Es1 [Ed1 [Ei1 N1]]]]]].
    destruct (down_half_edge _ _ _ W d y Hd Hy) as [e2 [He2 [Ty2 [Es2 [Ed2 Ei2]]]]].
    exists [e1; e2]. cbn [chain flat_map]. rewrite app_nil_r, Ty1, Ty2. split; [|congruence].
    repeat split; try assumption; try congruence.
    intros E. rewrite Ed1 in E. apply CombinatorSound.vlink_ia in E as [E _]. contradiction.
Qed.

End Complete.

(** ---- parity ---- *)
Lemma odd_double m : Nat.odd (2 * m) = false.
Proof. rewrite Nat.odd_mul. reflexivity. Qed.
Lemma odd_double_1 m : Nat.odd (2 * m + 1) = true.
Proof. rewrite Nat.odd_add, odd_double. reflexivity. Qed.

Lemma nz_len_nz ia x : x <> 0 -> length (nz ia x) = 1%nat.
Proof. intros H. unfold nz. apply N.eqb_neq in H. now rewrite H. Qed.

Lemma len_bwd_fwd l : length (flat_map entry_bwd (rev l)) = length (flat_map entry_fwd l).
Proof.
  rewrite <- (rev_length (flat_map entry_bwd (rev l))), rev_flat_map_rev.
  now rewrite (flat_map_eq _ entry_fwd) by apply rev_entry_bwd.
Qed.

(** a non-empty run of entries that all have an ingress, all but the last an
    egress, the last none: 2k-1 interfaces *)
Lemma tail_len l d :
  inner_ifs_ok false l = true -> l <> [] -> h_eg (ae_hop (last l d)) = 0 ->
  length (flat_map entry_fwd l) = (2 * length l - 1)%nat.
Proof.
  induction l as [|a t IH]; intros H Hne Hl; [contradiction|].
  cbn [inner_ifs_ok] in H. apply andb_true_iff in H as [H H3]. apply andb_true_iff in H as [H1 H2].
  cbn [orb] in H1. apply negb_true_iff, N.eqb_neq in H1.
  cbn [flat_map]. rewrite app_length. unfold entry_fwd at 1, hop_fwd. rewrite app_length, (nz_len_nz _ _ H1).
  destruct t as [|b t'].
  - cbn [last] in Hl. rewrite Hl. reflexivity.
  - apply negb_true_iff, N.eqb_neq in H2. rewrite (nz_len_nz _ _ H2).
    rewrite IH; [cbn [length]; lia | exact H3 | discriminate | exact Hl].
Qed.

Lemma inner_skipn l : forall b k, inner_ifs_ok b l = true -> inner_ifs_ok false (skipn (S k) l) = true.
Proof.
  induction l as [|a t IH]; intros b k H; [reflexivity|].
  cbn [inner_ifs_ok] in H. apply andb_true_iff in H as [_ H3]. cbn [skipn].
  destruct k; [destruct t; exact H3 | now apply (IH false)].
Qed.

Lemma last_skipn {A} (l : list A) k d : (k < length l)%nat -> last (skipn k l) d = last l d.
Proof.
  revert k. induction l as [|x l IH]; intros k H; [cbn in H; lia|].
  destruct k; [reflexivity|]. cbn [skipn]. cbn [length] in H. rewrite IH by lia.
  destruct l; [cbn in H; lia | reflexivity].
Qed.

Lemma validate_last_zero s : validate s = true -> h_eg (ae_hop (last (sg_entries s) dflt_entry)) = 0.
Proof.
  unfold validate. intros H. destruct (sg_entries s) as [|a t] eqn:E; [discriminate|].
  apply andb_true_iff in H as [H _]. apply andb_true_iff in H as [_ H]. apply N.eqb_eq in H.
  rewrite (last_indep _ dflt_entry a) by discriminate. exact H.
Qed.

Lemma walk_fwd_len s i :
  wf_seg s -> (S i < length (sg_entries s))%nat ->
  length (walk_fwd i (sg_entries s)) = (2 * (length (sg_entries s) - 1 - i) - 1)%nat.
Proof.
  intros W Hl. unfold walk_fwd. rewrite (tail_len _ dflt_entry).
  - rewrite skipn_length. lia.
  - eapply inner_skipn. apply (ws_inner _ W).
  - intros E. apply (f_equal (@length _)) in E. rewrite skipn_length in E. cbn in E. lia.
  - rewrite last_skipn by lia. apply validate_last_zero. apply (ws_valid _ W).
Qed.

Lemma walk_fwd_len_last s i :
  (length (sg_entries s) <= S i)%nat -> walk_fwd i (sg_entries s) = [].
Proof. intros H. unfold walk_fwd. now rewrite skipn_all2. Qed.

Lemma walk_bwd_len_eq i es : length (walk_bwd i es) = length (walk_fwd i es).
Proof. unfold walk_bwd, walk_fwd. apply len_bwd_fwd. Qed.

Lemma up_piece_even u p : wf_seg u -> up_piece u p -> Nat.odd (length (pc_ifs p)) = false.
Proof.
  intros W Hp. inversion Hp as [i c Hc Hl]; subst p. cbn [pc_ifs].
  rewrite app_length, walk_bwd_len_eq, walk_fwd_len by assumption.
  rewrite nz_len_nz by (eapply inner_eg; [apply (ws_inner _ W) | exact Hc | exact Hl]).
  replace (2 * (length (sg_entries u) - 1 - i) - 1 + 1)%nat with (2 * (length (sg_entries u) - 1 - i))%nat by lia.
  apply odd_double.
Qed.

Lemma down_piece_even d p : wf_seg d -> down_piece d p -> Nat.odd (length (pc_ifs p)) = false.
Proof.
  intros W Hp. inversion Hp as [i c Hc Hl]; subst p. cbn [pc_ifs].
  rewrite app_length, walk_fwd_len by assumption.
  rewrite nz_len_nz by (eapply inner_eg; [apply (ws_inner _ W) | exact Hc | exact Hl]).
  replace (1 + (2 * (length (sg_entries d) - 1 - i) - 1))%nat with (2 * (length (sg_entries d) - 1 - i))%nat by lia.
  apply odd_double.
Qed.

Lemma core_piece_even c p : wf_seg c -> core_piece c p -> Nat.odd (length (pc_ifs p)) = false.
Proof.
  intros W Hp. inversion Hp as [Hne]; subst p. cbn [pc_ifs]. rewrite len_bwd_fwd.
  destruct (sg_entries c) as [|a t] eqn:E; [contradiction|].
  cbn [flat_map]. rewrite app_length. unfold entry_fwd at 1, hop_fwd.
  assert (Hin : h_in (ae_hop a) = 0) by (eapply validate_first_zero; [apply (ws_valid _ W) | exact E]).
  rewrite Hin. cbn [nz N.eqb app].
  destruct t as [|b t'].
  - pose proof (validate_last_zero c (ws_valid _ W)) as Hz. rewrite E in Hz. cbn [last] in Hz.
    rewrite Hz. reflexivity.
  - assert (Heg : h_eg (ae_hop a) <> 0).
    { apply (inner_eg true (a :: b :: t')) with (i := O); [rewrite <- E; apply (ws_inner _ W) | reflexivity | cbn; lia]. }
    rewrite nz_len_nz by exact Heg.
    pose proof (walk_fwd_len c 0 W) as Hw. rewrite E in Hw. unfold walk_fwd in Hw. cbn [skipn] in Hw.
    rewrite Hw by (cbn; lia). cbn [length].
    replace (1 + (2 * (S (S (length t')) - 1 - 0) - 1))%nat with (2 * (S (length t')))%nat by lia.
    apply odd_double.
Qed.

Lemma peer_hop_len s i c k p :
  wf_seg s -> nth_error (sg_entries s) i = Some c -> nth_error (ae_peers c) k = Some p ->
  length (hop_bwd (ae_ia c) (pe_hop p)) = (if (S i <? length (sg_entries s))%nat then 2 else 1)%nat /\
  length (hop_fwd (ae_ia c) (pe_hop p)) = (if (S i <? length (sg_entries s))%nat then 2 else 1)%nat.
Proof.
  intros W Hc Hp.
  assert (Hi : h_in (pe_hop p) <> 0).
  { eapply (ws_pin _ W c p); [eapply nth_error_In; exact Hc | eapply nth_error_In; exact Hp]. }
  assert (He : h_eg (pe_hop p) = h_eg (ae_hop c)).
  { pose proof (ws_valid _ W) as V. unfold validate in V.
    destruct (sg_entries s) as [|a t] eqn:E; [destruct i; discriminate|].
    apply andb_true_iff in V as [_ V]. rewrite forallb_forall in V.
    specialize (V c ltac:(eapply nth_error_In; exact Hc)). unfold peers_ok in V. rewrite forallb_forall in V.
    apply N.eqb_eq. apply V. eapply nth_error_In; exact Hp. }
  unfold hop_bwd, hop_fwd. rewrite !app_length, He, (nz_len_nz _ _ Hi).
  destruct (Nat.ltb_spec (S i) (length (sg_entries s))) as [L|L].
  - rewrite nz_len_nz by (eapply inner_eg; [apply (ws_inner _ W) | exact Hc | exact L]). auto.
  - assert (Hlast : c = last (sg_entries s) dflt_entry).
    { assert (Hl : (i < length (sg_entries s))%nat) by (apply nth_error_Some; congruence).
      assert (Hn : nth_error (sg_entries s) (length (sg_entries s) - 1) = Some (last (sg_entries s) dflt_entry)).
      { apply nth_error_last. destruct (sg_entries s); [cbn in Hl; lia | discriminate]. }
      replace (length (sg_entries s) - 1)%nat with i in Hn by lia. congruence. }
    pose proof (validate_last_zero s (ws_valid _ W)) as Hz. rewrite <- Hlast in Hz. rewrite Hz. auto.
Qed.

Lemma up_half_odd u x : wf_seg u -> up_half u x -> Nat.odd (length (hf_ifs x)) = true.
Proof.
  intros W Hx. inversion Hx as [i c k p Hc Hp]; subst x. cbn [hf_ifs].
  destruct (peer_hop_len u i c k p W Hc Hp) as [Hb _]. rewrite app_length, walk_bwd_len_eq, Hb.
  destruct (Nat.ltb_spec (S i) (length (sg_entries u))) as [L|L].
  - rewrite walk_fwd_len by assumption.
    replace (2 * (length (sg_entries u) - 1 - i) - 1 + 2)%nat with (2 * (length (sg_entries u) - 1 - i) + 1)%nat by lia.
    apply odd_double_1.
  - rewrite walk_fwd_len_last by exact L. reflexivity.
Qed.

Lemma down_half_odd d y : wf_seg d -> down_half d y -> Nat.odd (length (hf_ifs y)) = true.
Proof.
  intros W Hy. inversion Hy as [i c k p Hc Hp]; subst y. cbn [hf_ifs].
  destruct (peer_hop_len d i c k p W Hc Hp) as [_ Hf]. rewrite app_length, Hf.
  destruct (Nat.ltb_spec (S i) (length (sg_entries d))) as [L|L].
  - rewrite walk_fwd_len by assumption.
    replace (2 + (2 * (length (sg_entries d) - 1 - i) - 1))%nat with (2 * (length (sg_entries d) - 1 - i) + 1)%nat by lia.
    apply odd_double_1.
  - rewrite walk_fwd_len_last by exact L. reflexivity.
Qed.

Lemma valid_combination_even ups cores downs src dst ifs :
  wf_all ups cores downs ->
  valid_combination (segs_of ups) (segs_of cores) (segs_of downs) src dst ifs ->
  Nat.odd (length ifs) = false.
Proof.
  intros W H.
  destruct H as [u p Hu Hp Hf Ht | c p Hc Hp Hf Ht | d p Hd Hp Hf Ht
                | u p c q Hu Hp Hc Hq Hf Hj Ht | u p d q Hu Hp Hd Hq Hf Hj Ht
                | c p d q Hc Hp Hd Hq Hf Hj Ht
                | u p c q d r Hu Hp Hc Hq Hd Hr Hf Hj1 Hj2 Ht
                | u x d y Hu Hx Hd Hy Hf Hl Ht];
    rewrite ?app_length, ?Nat.odd_add;
    repeat match goal with
    | H : up_piece ?u ?p |- _ => rewrite (up_piece_even u p (wf_of_up _ _ _ W u ltac:(assumption)) H); clear H
    | H : core_piece ?u ?p |- _ => rewrite (core_piece_even u p (wf_of_core _ _ _ W u ltac:(assumption)) H); clear H
    | H : down_piece ?u ?p |- _ => rewrite (down_piece_even u p (wf_of_down _ _ _ W u ltac:(assumption)) H); clear H
    | H : up_half ?u ?p |- _ => rewrite (up_half_odd u p (wf_of_up _ _ _ W u ltac:(assumption)) H); clear H
    | H : down_half ?u ?p |- _ => rewrite (down_half_odd u p (wf_of_down _ _ _ W u ltac:(assumption)) H); clear H
    end; reflexivity.
Qed.

(** ---- consequences for [combine] ---- *)
Lemma wf_input_valid ups cores downs :
  wf_input ups cores downs = true -> valid_input ups cores downs = true.
Proof.
  unfold wf_input, valid_input. intros H. apply andb_true_iff in H as [H Hd]. apply andb_true_iff in H as [Hu Hc].
  assert (G : forall s, wf_segment s = true -> valid_segment s = true).
  { intros s Hs. unfold wf_segment in Hs. unfold valid_segment.
    do 4 (apply andb_true_iff in Hs as [Hs _]). exact Hs. }
  rewrite forallb_forall in Hu, Hc, Hd.
  apply andb_true_iff; split; [apply andb_true_iff; split|]; apply forallb_forall; intros s Hs; apply G; auto.
  specialize (Hc s Hs). unfold wf_core in Hc. now apply andb_true_iff in Hc as [Hc _].
Qed.

Theorem combine_no_panic src dst ups cores downs fa :
  wf_input (segs_of ups) (segs_of cores) (segs_of downs) = true ->
  exists ps, combine src dst ups cores downs fa = Done ps.
Proof.
  intros Hw. pose proof (wf_input_all _ _ _ Hw) as W. pose proof (wf_input_valid _ _ _ Hw) as V.
  destruct (all_paths_no_panic src dst (insegs ups cores downs)) as [all Ha].
  - intros s Hs E. pose proof (ws_valid _ (proj1 W s Hs)) as Vs. unfold validate in Vs. rewrite E in Vs. discriminate.
  - intros es Hc. eapply valid_combination_even; [exact W|]. eapply chain_sound; eauto.
  - unfold combine. rewrite Ha. eauto.
Qed.

Theorem combine_complete src dst ups cores downs fa ps ifs :
  wf_input (segs_of ups) (segs_of cores) (segs_of downs) = true ->
  combine src dst ups cores downs fa = Done ps ->
  valid_combination (segs_of ups) (segs_of cores) (segs_of downs) src dst ifs ->
  no_as_thrice ifs ->
  exists p, In p ps /\ p_ifs p = ifs.
Proof.
  intros Hw Hc Hv Hn. pose proof (wf_input_all _ _ _ Hw) as W.
  destruct (complete_chain ups cores downs W src dst ifs Hv Hn) as [es [Hch <-]].
  eapply combine_represents; eauto.
Qed.

Theorem combine_sound src dst ups cores downs fa ps p :
  valid_input (segs_of ups) (segs_of cores) (segs_of downs) = true ->
  combine src dst ups cores downs fa = Done ps -> In p ps ->
  valid_combination (segs_of ups) (segs_of cores) (segs_of downs) src dst (p_ifs p).
Proof.
  intros V Hc Hp. destruct (combine_in _ _ _ _ _ _ _ _ Hc Hp) as [es [Hch [-> _]]].
  cbn [path_of p_ifs]. eapply chain_sound; eauto.
Qed.
