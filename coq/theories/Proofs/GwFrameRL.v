(** C41 — the reassembly list and the worker on genuine frame streams:
    in-order delivery gives back exactly the packets (within the capacity of the
    reassembly list); any delivery of genuine frames only gives packets that were sent. *)
From Coq Require Import List Arith NArith Bool Lia.
From Coq Require Import ZifyBool ZifyN ZifyNat.
From Scion Require Import Lib.Bytes Lib.Check Model.GwFrame.
From Scion Require Import Proofs.GwFrameSpec Proofs.GwFrameEnc Proofs.GwFrameRx.
Import ListNotations.
Import GwFrame.
Local Open Scope nat_scope.

Definition two64 : N := 18446744073709551616%N.

(** the reassembly list fed with a sequence of frames *)
Fixpoint rl_run (es : list fbuf) (fs : list fbuf) : list fbuf * list bytes :=
  match fs with
  | [] => (es, [])
  | f :: t =>
    let '(es1, o1) := insert es f in
    let '(es2, o2) := rl_run es1 t in
    (es2, o1 ++ o2)
  end.

Section RL.
Variable room : nat.
Hypothesis Hroom : (N.of_nat room <= 65519)%N.
Variables sess stream : N.

Notation gbytes := (g_bytes room sess stream).
Notation gwf := (g_wf room).
Notation fr := (fr room sess stream).
Notation pending := (pending room sess stream).
Notation mids := (mk_mids room).

Lemma fr_seq g : seq_ok g -> fb_seq (fr g) = g_seq g.
Proof. intros S. unfold GwFrameRx.fr, fresh. cbn [fb_seq]. unfold g_bytes. now apply header_seq. Qed.

Definition seg (b : bool) (s0 : N) (cin0 : carry) (pkts0 : list bytes) (Q : bytes) (k m : nat) :=
  pending b (GGen s0 cin0 pkts0 (Some (Q, k))) :: map fr (mids (s0 + 1)%N Q k m).

Lemma seg_snoc b s0 cin0 pkts0 Q k m :
  seg b s0 cin0 pkts0 Q k m ++ [fr (GMid (s0 + 1 + N.of_nat m)%N Q (k + m * room))] =
  seg b s0 cin0 pkts0 Q k (S m).
Proof. unfold seg. rewrite mk_mids_snoc, map_app. reflexivity. Qed.

(** ---------------------------------------------------------------- in-order delivery *)

Definition fits (Q : bytes) : Prop := length Q <= 40 + 99 * room.
Definition carry_fits (c : carry) : Prop := match c with None => True | Some (Q, _) => fits Q end.

(** the receiver's pending fragment is the sender's carried packet *)
Definition rel (c : carry) (s : N) (es : list fbuf) : Prop :=
  match c with
  | None => es = []
  | Some (Q, n) =>
    exists b s0 cin0 pkts0 k m,
      gwf (GGen s0 cin0 pkts0 (Some (Q, k))) /\
      (forall i, i < m -> k + i * room + room < length Q) /\
      es = seg b s0 cin0 pkts0 Q k m /\ n = k + m * room /\ s = (s0 + 1 + N.of_nat m)%N
  end.

Lemma seg_cap s0 cin0 pkts0 Q k m :
  gwf (GGen s0 cin0 pkts0 (Some (Q, k))) ->
  (forall i, i < m -> k + i * room + room < length Q) -> fits Q ->
  Nat.eqb (S m) rlist_cap = false.
Proof.
  intros (_ & _ & (_ & Hk) & L) Hm F. apply Nat.eqb_neq. unfold rlist_cap, fits in *.
  rewrite !app_length in L. cbn [post_of] in L. rewrite firstn_length in L.
  destruct m as [|m']; [lia|]. specialize (Hm m' ltac:(lia)). nia.
Qed.

Lemma inorder_step g c s c' es :
  gwf g -> g_cin g = c -> g_seq g = s -> g_cout room g = c' ->
  (s < two64)%N -> carry_fits c -> rel c s es ->
  exists es', insert es (fr g) = (es', g_done g) /\ rel c' (s + 1)%N es'.
Proof.
  intros W Hc Hs Hc' Sq F R. assert (Sg : seq_ok g) by (unfold seq_ok; fold two64; lia).
  destruct c as [[Q n]|]; cbn [rel] in R.
  - destruct R as (b & s0 & cin0 & pkts0 & k & m & W0 & Hm & -> & -> & Es).
    unfold seg. rewrite insert_seg by (fold two64; lia).
    rewrite (fr_seq g Sg), Hs, Es.
    replace (s0 + 1 + N.of_nat m <? s0)%N with false by lia.
    replace ((s0 <=? s0 + 1 + N.of_nat m)%N && (s0 + 1 + N.of_nat m <=? s0 + N.of_nat m)%N)
      with false by lia.
    replace (s0 + N.of_nat m + 1 <? s0 + 1 + N.of_nat m)%N with false by lia.
    rewrite (seg_cap _ _ _ _ _ _ W0 Hm F).
    destruct g as [sn P nn|sn cin pkts cout]; cbn [g_cin g_seq g_cout] in *.
    + inversion Hc; subst P nn. rewrite push_mid by assumption.
      eexists. split; [reflexivity|]. subst c'. cbn [rel].
      exists b, s0, cin0, pkts0, k, (S m). split; [exact W0|].
      split.
      { intros i Hi. destruct (Nat.eq_dec i m) as [->|Ne]; [|apply Hm; lia].
        destruct W as (_ & _ & L). lia. }
      split; [subst sn; subst s; apply seg_snoc|]. split; lia.
    + subst cin. rewrite push_gen by assumption.
      eexists. split; [reflexivity|]. subst c'.
      destruct cout as [[Q' k']|]; cbn [rel]; [|reflexivity].
      exists true, sn, (Some (Q, k + m * room)), pkts, k', 0.
      split; [exact W|]. split; [intros i Hi; lia|]. split; [reflexivity|]. split; lia.
  - subst es. destruct g as [sn P nn|sn cin pkts cout]; cbn [g_cin g_seq g_cout] in *; [discriminate|].
    subst cin. change (insert [] (fr (GGen sn None pkts cout))) with (insert_first (fr (GGen sn None pkts cout))).
    rewrite insert_first_gen by assumption.
    eexists. split; [reflexivity|]. subst c'.
    destruct cout as [[Q' k']|]; cbn [rel]; [|reflexivity].
    eexists _, sn, None, pkts, k', 0.
    split; [exact W|]. split; [intros i Hi; lia|]. split; [reflexivity|]. split; lia.
Qed.

Lemma carry_fits_out g : carry_fits (g_cin g) -> Forall fits (g_started g) ->
  carry_fits (g_cout room g).
Proof.
  destruct g as [sn P nn|sn cin pkts cout]; cbn [g_cin g_cout g_started carry_fits]; [auto|].
  intros _ F. destruct cout as [[Q k]|]; [|exact I]. cbn [carry_pkt] in F.
  rewrite Forall_forall in F. apply F. apply in_or_app. right. now left.
Qed.

Lemma inorder_run : forall G c s c' es,
  chain_from room c s G c' -> rel c s es ->
  (s + N.of_nat (length G) <= two64)%N ->
  carry_fits c -> Forall (fun g => Forall fits (g_started g)) G ->
  exists es', rl_run es (map fr G) = (es', concat (map g_done G)) /\
              rel c' (s + N.of_nat (length G))%N es'.
Proof.
  induction G as [|g G IH]; intros c s c' es Hch R Hs F FG.
  - apply chain_from_nil_inv in Hch. subst c'. exists es. cbn.
    split; [reflexivity|]. now replace (s + 0)%N with s by lia.
  - apply chain_from_cons_inv in Hch as (-> & -> & W & Hch).
    inversion FG as [|? ? Fg FG']; subst. cbn [length] in Hs.
    destruct (inorder_step g (g_cin g) (g_seq g) (g_cout room g) es W eq_refl eq_refl eq_refl
                ltac:(lia) F R) as (es1 & E1 & R1).
    destruct (IH _ _ _ es1 Hch R1 ltac:(lia) (carry_fits_out g F Fg) FG') as (es2 & E2 & R2).
    exists es2. cbn [map rl_run concat]. rewrite E1, E2. split; [reflexivity|].
    replace (g_seq g + N.of_nat (length (g :: G)))%N with (g_seq g + 1 + N.of_nat (length G))%N
      by (cbn [length]; lia).
    exact R2.
Qed.

(** ---------------------------------------------------------------- arbitrary delivery *)

Section Lossy.
Variables (G : list gframe) (sG : N) (cE : carry).
Hypothesis HG : chain_from room None sG G cE.
Hypothesis HS : (sG + N.of_nat (length G) <= two64)%N.

Lemma G_seq_ok g : In g G -> seq_ok g.
Proof. intros H. pose proof (chain_from_seq_lt _ _ _ _ _ HG g H). unfold seq_ok. fold two64. lia. Qed.

Lemma G_wf g : In g G -> gwf g.
Proof. intros H. pose proof (chain_from_wf _ _ _ _ _ HG) as F. rewrite Forall_forall in F. now apply F. Qed.

Lemma G_done_incl g : In g G -> incl (g_done g) (concat (map g_done G)).
Proof. intros H p Hp. apply in_concat. exists (g_done g). split; [now apply in_map|exact Hp]. Qed.

(** the reassembly list holds a packet start of the stream followed by the
    continuation frames that follow it in the stream, or nothing *)
Definition rinv (es : list fbuf) : Prop :=
  es = [] \/
  exists G1 b s0 cin0 pkts0 Q k m G2,
    G = G1 ++ GGen s0 cin0 pkts0 (Some (Q, k)) :: mids (s0 + 1)%N Q k m ++ G2 /\
    es = seg b s0 cin0 pkts0 Q k m.

Lemma insert_first_G g : In g G ->
  exists es' out, insert_first (fr g) = (es', out) /\ rinv es' /\ incl out (concat (map g_done G)).
Proof.
  intros Hin. pose proof (G_wf g Hin) as W. pose proof (G_seq_ok g Hin) as S.
  destruct g as [sn P nn|sn cin pkts cout].
  - rewrite insert_first_mid by assumption. exists [], []. split; [reflexivity|].
    split; [now left|intros p []].
  - rewrite insert_first_gen by assumption. eexists _, pkts. split; [reflexivity|]. split.
    + destruct cout as [[Q k]|]; [|now left]. right.
      apply in_split in Hin as (G1 & G2 & E).
      exists G1, (g_index (GGen sn cin pkts (Some (Q, k))) =? 0)%N, sn, cin, pkts, Q, k, 0, G2.
      split; [exact E|reflexivity].
    + intros p Hp. apply (G_done_incl _ Hin). cbn [g_done]. apply in_or_app. now right.
Qed.

Lemma nth_error_split {A} (l : list A) i x : nth_error l i = Some x ->
  exists l1 l2, l = l1 ++ x :: l2 /\ length l1 = i.
Proof. apply nth_error_split. Qed.

Lemma lossy_step es g : rinv es -> In g G ->
  exists es' out, insert es (fr g) = (es', out) /\ rinv es' /\ incl out (concat (map g_done G)).
Proof.
  intros [->|(G1 & b & s0 & cin0 & pkts0 & Q & k & m & G2 & EG & ->)] Hin.
  - change (insert [] (fr g)) with (insert_first (fr g)). now apply insert_first_G.
  - pose proof (G_seq_ok g Hin) as Sg.
    set (g0 := GGen s0 cin0 pkts0 (Some (Q, k))) in *.
    (* what the stream says about the segment *)
    pose proof HG as Hch. rewrite EG in Hch.
    apply chain_from_app in Hch as (c1 & Hch1 & Hch).
    apply chain_from_cons_inv in Hch as (Ec1 & Es0 & W0 & Hch).
    cbn [g_cout g_seq g0] in Hch, Es0.
    apply chain_mids in Hch as (Hch & Hm).
    assert (Hs0m : (s0 + N.of_nat m < two64)%N).
    { assert (Hl : length G = length G1 + S (m + length G2)).
      { rewrite EG, app_length. cbn [length]. now rewrite app_length, mk_mids_length. }
      lia. }
    unfold seg. rewrite insert_seg by assumption. fold (seg b s0 cin0 pkts0 Q k m).
    rewrite (fr_seq g Sg).
    destruct (g_seq g <? s0)%N eqn:C1.
    { eexists _, []. split; [reflexivity|]. split; [|intros p []].
      right. exists G1, b, s0, cin0, pkts0, Q, k, m, G2. split; [exact EG|reflexivity]. }
    destruct ((s0 <=? g_seq g)%N && (g_seq g <=? s0 + N.of_nat m)%N) eqn:C2.
    { eexists _, []. split; [reflexivity|]. split; [|intros p []].
      right. exists G1, b, s0, cin0, pkts0, Q, k, m, G2. split; [exact EG|reflexivity]. }
    destruct (s0 + N.of_nat m + 1 <? g_seq g)%N eqn:C3; [now apply insert_first_G|].
    destruct (Nat.eqb (S m) rlist_cap) eqn:C4; [now apply insert_first_G|].
    (* the frame is the successor of the segment in the stream *)
    assert (Eseq : g_seq g = (s0 + 1 + N.of_nat m)%N) by lia.
    apply In_nth_error in Hin as (i & Ei).
    pose proof (chain_from_seq _ _ _ _ _ HG i g Ei) as Si.
    assert (Hi : i = length G1 + S m) by lia.
    assert (EG2 : exists G2', G2 = g :: G2').
    { rewrite EG in Ei. rewrite nth_error_app2 in Ei by lia.
      replace (i - length G1) with (S m) in Ei by lia. cbn [nth_error] in Ei.
      rewrite nth_error_app2 in Ei by (rewrite mk_mids_length; lia).
      rewrite mk_mids_length, Nat.sub_diag in Ei.
      destruct G2 as [|x G2']; cbn in Ei; [discriminate|]. inversion Ei; subst. now exists G2'. }
    destruct EG2 as (G2' & ->).
    apply chain_from_cons_inv in Hch as (Ecin & _ & Wg & _).
    destruct g as [sn P nn|sn cin pkts cout]; cbn [g_cin g_seq] in *.
    + inversion Ecin; subst P nn. unfold seg. rewrite push_mid by assumption.
      eexists _, []. split; [reflexivity|]. split; [|intros p []].
      right. exists G1, b, s0, cin0, pkts0, Q, k, (S m), G2'. split.
      * rewrite EG. f_equal. f_equal. rewrite mk_mids_snoc, <- app_assoc. cbn [app].
        subst sn. reflexivity.
      * subst sn. apply seg_snoc.
    + subst cin. unfold seg. rewrite push_gen by assumption.
      eexists _, (Q :: pkts). split; [reflexivity|]. split.
      * destruct cout as [[Q' k']|]; [|now left]. right.
        exists (G1 ++ g0 :: mids (s0 + 1)%N Q k m), true, sn, (Some (Q, k + m * room)), pkts, Q', k', 0, G2'.
        split; [|reflexivity]. etransitivity; [exact EG|]. rewrite <- app_assoc. reflexivity.
      * assert (Hin : In (GGen sn (Some (Q, k + m * room)) pkts cout) G).
        { rewrite EG. apply in_or_app. right. right. apply in_or_app. right. now left. }
        intros p Hp. apply (G_done_incl _ Hin). exact Hp.
Qed.

End Lossy.
End RL.

(** ---------------------------------------------------------------- byte-level accounting *)

Lemma chain_payload room c s G c' : chain_from room c s G c' ->
  concat (map (g_payload room) G) ++ pre_of c' = pre_of c ++ concat (concat (map g_started G)).
Proof.
  induction 1 as [c s|g G c' W H IH]; cbn [map concat].
  - now rewrite app_nil_r.
  - rewrite <- app_assoc, IH, concat_app, !app_assoc. f_equal.
    destruct g as [sq P n|sq cin pkts cout]; cbn [g_payload g_cout g_cin g_started pre_of concat].
    + rewrite app_nil_r. rewrite <- (skipn_skipn P room n). apply firstn_skipn.
    + rewrite concat_app, <- !app_assoc. f_equal. f_equal.
      destruct cout as [[Q k]|]; cbn [post_of pre_of carry_pkt concat]; [|reflexivity].
      now rewrite app_nil_r, firstn_skipn.
Qed.

(** ---------------------------------------------------------------- the worker *)

Record gsender := { gs_room : nat; gs_sess : N; gs_stream : N; gs_G : list gframe }.

Definition gs_ok (S : gsender) : Prop :=
  (N.of_nat (gs_room S) <= 65519)%N /\
  (exists cE, chain_from (gs_room S) None 0%N (gs_G S) cE) /\
  (N.of_nat (length (gs_G S)) <= two64)%N.

Definition gs_frames (S : gsender) : list bytes :=
  map (g_bytes (gs_room S) (gs_sess S) (gs_stream S)) (gs_G S).
Definition gs_ep (S : gsender) : N := (gs_stream S mod 1048576)%N.
Definition gs_sent (S : gsender) : list bytes := concat (map g_done (gs_G S)).

Definition rl_ok (sds : list gsender) (kr : N * rlist) : Prop :=
  rl_entries (snd kr) = [] \/
  exists S, In S sds /\ gs_ep S = fst kr /\
            rinv (gs_room S) (gs_sess S) (gs_stream S) (gs_G S) (rl_entries (snd kr)).

Definition winv (sds : list gsender) (w : worker) : Prop := Forall (rl_ok sds) w.

Lemma lookup_in ep w rl : lookup ep w = Some rl -> In (ep, rl) w.
Proof.
  induction w as [|[k r] w IH]; cbn [lookup]; [discriminate|].
  destruct (N.eqb_spec k ep) as [->|Ne]; intros H.
  - inversion H; subst. now left.
  - right. now apply IH.
Qed.

Lemma update_forall (P : N * rlist -> Prop) ep rl w :
  Forall P w -> P (ep, rl) -> Forall P (update ep rl w).
Proof.
  intros F Hp. induction F as [|[k r] w Hk F IH]; cbn [update].
  - constructor; [exact Hp|constructor].
  - destruct (N.eqb_spec k ep) as [->|Ne]; constructor; auto.
Qed.

Lemma cleanup_winv sds w : winv sds w -> winv sds (cleanup w).
Proof.
  unfold winv, cleanup. intros F. apply Forall_map.
  apply Forall_forall. intros kr Hin. apply filter_In in Hin as [Hin _].
  rewrite Forall_forall in F. exact (F kr Hin).
Qed.

Lemma nodup_map_inj {A B} (f : A -> B) l x y :
  NoDup (map f l) -> In x l -> In y l -> f x = f y -> x = y.
Proof.
  induction l as [|a l IH]; cbn [map]; intros ND Hx Hy E; [destruct Hx|].
  inversion ND as [|? ? Hn ND']; subst.
  destruct Hx as [->|Hx]; destruct Hy as [->|Hy]; auto.
  - exfalso. apply Hn. rewrite E. now apply in_map.
  - exfalso. apply Hn. rewrite <- E. now apply in_map.
Qed.

Definition genuine (sds : list gsender) (raw : bytes) : Prop :=
  accepted raw = false \/ exists S, In S sds /\ In raw (gs_frames S).

Definition op_genuine (sds : list gsender) (o : rop) : Prop :=
  match o with RFrame raw => genuine sds raw | RCleanup => True end.

Lemma rstep_safe sds w o :
  Forall gs_ok sds -> NoDup (map gs_ep sds) -> winv sds w -> op_genuine sds o ->
  winv sds (fst (rstep w o)) /\ incl (snd (rstep w o)) (flat_map gs_sent sds).
Proof.
  intros Hok ND Hw Ho. destruct o as [raw|]; cbn [rstep].
  2:{ cbn [fst snd]. split; [now apply cleanup_winv|intros p []]. }
  unfold deliver. destruct Ho as [Hacc|(S & HS & Hraw)].
  { rewrite Hacc. cbn [fst snd]. split; [exact Hw|intros p []]. }
  unfold gs_frames in Hraw. apply in_map_iff in Hraw as (g & <- & Hg).
  assert (Hacc : accepted (g_bytes (gs_room S) (gs_sess S) (gs_stream S) g) = true)
    by apply header_accepted.
  rewrite Hacc. unfold process_frame.
  rewrite Forall_forall in Hok. destruct (Hok S HS) as (Hroom & (cE & Hch) & Hlen).
  set (raw := g_bytes (gs_room S) (gs_sess S) (gs_stream S) g).
  assert (Eep : frame_epoch raw = gs_ep S) by apply header_epoch.
  rewrite Eep.
  assert (Hes : rinv (gs_room S) (gs_sess S) (gs_stream S) (gs_G S)
                  (match lookup (gs_ep S) w with Some rl => rl_entries rl | None => [] end)).
  { destruct (lookup (gs_ep S) w) as [rl|] eqn:El; [|now left].
    apply lookup_in in El. unfold winv in Hw. rewrite Forall_forall in Hw.
    destruct (Hw _ El) as [E|(S' & HS' & Eep' & R)]; cbn [fst snd] in *.
    - rewrite E. now left.
    - assert (S' = S) by (apply (nodup_map_inj gs_ep sds); auto). subst S'. exact R. }
  destruct (lossy_step (gs_room S) Hroom (gs_sess S) (gs_stream S) (gs_G S) 0%N cE Hch
              ltac:(lia) _ g Hes Hg) as (es' & out & E & R' & Hincl).
  change (fresh raw) with (fr (gs_room S) (gs_sess S) (gs_stream S) g).
  rewrite E. cbn [fst snd]. split.
  - apply update_forall; [exact Hw|]. right. exists S. cbn [fst snd rl_entries]. auto.
  - intros p Hp. apply in_flat_map. exists S. split; [exact HS|]. now apply Hincl.
Qed.

Lemma wrun_safe sds : Forall gs_ok sds -> NoDup (map gs_ep sds) ->
  forall ops w, winv sds w -> Forall (op_genuine sds) ops ->
  forall p, In p (concat (wrun w ops)) -> In p (flat_map gs_sent sds).
Proof.
  intros Hok ND. induction ops as [|o ops IH]; intros w Hw Hops p Hp; [destruct Hp|].
  inversion Hops as [|? ? Ho Hops']; subst.
  destruct (rstep_safe sds w o Hok ND Hw Ho) as [Hw' Hincl].
  cbn [wrun] in Hp. destruct (rstep w o) as [w' out]. cbn [fst snd] in *.
  cbn [concat] in Hp. apply in_app_or in Hp as [Hp|Hp]; [now apply Hincl|].
  now apply (IH w').
Qed.

(** in-order delivery of one stream to a fresh worker is the reassembly list's run *)
Lemma wrun_single ep : forall fs es w,
  Forall (fun f => accepted f = true /\ frame_epoch f = ep) fs ->
  (w = [] /\ es = []) \/ w = [(ep, {| rl_marked := false; rl_entries := es |})] ->
  concat (wrun w (map RFrame fs)) = snd (rl_run es (map fresh fs)).
Proof.
  induction fs as [|f fs IH]; intros es w F Hw; [reflexivity|].
  inversion F as [|? ? [Ha He] F']; subst.
  cbn [map wrun rstep rl_run]. unfold deliver. rewrite Ha. unfold process_frame.
  assert (El : match lookup (frame_epoch f) w with Some rl => rl_entries rl | None => [] end = es).
  { destruct Hw as [[-> ->]| ->]; [reflexivity|]. cbn [lookup]. now rewrite N.eqb_refl. }
  rewrite El. destruct (insert es (fresh f)) as [es1 o1].
  assert (Hw1 : update (frame_epoch f) {| rl_marked := false; rl_entries := es1 |} w
                = [(frame_epoch f, {| rl_marked := false; rl_entries := es1 |})]).
  { destruct Hw as [[-> _]| ->]; [reflexivity|]. cbn [update]. now rewrite N.eqb_refl. }
  rewrite Hw1. cbn [concat].
  rewrite (IH es1 _ F' (or_intror eq_refl)).
  destruct (rl_run es1 (map fresh fs)) as [es2 o2]. reflexivity.
Qed.

(** the same with cleanup ticks between the frames, never two in a row: the list of the
    stream is touched between any two ticks, so it is only ever marked, never removed *)
Lemma wrun_ticks ep : forall ops es w prev,
  Forall (fun f => accepted f = true /\ frame_epoch f = ep) (rframes ops) ->
  no_adjacent_ticks ops prev = true ->
  (w = [] /\ es = []) \/
  (exists b, w = [(ep, {| rl_marked := b; rl_entries := es |})] /\ (b = true -> prev = true)) ->
  concat (wrun w ops) = snd (rl_run es (map fresh (rframes ops))).
Proof.
  induction ops as [|o ops IH]; intros es w prev F NT Hw; [reflexivity|].
  destruct o as [f|].
  - cbn [rframes flat_map app] in F |- *. fold (rframes ops) in F |- *.
    inversion F as [|? ? [Ha He] F']; subst. cbn [no_adjacent_ticks] in NT.
    cbn [map wrun rstep rl_run]. unfold deliver. rewrite Ha. unfold process_frame.
    assert (El : match lookup (frame_epoch f) w with Some rl => rl_entries rl | None => [] end = es).
    { destruct Hw as [[-> ->]|(b & -> & _)]; [reflexivity|]. cbn [lookup]. now rewrite N.eqb_refl. }
    rewrite El. destruct (insert es (fresh f)) as [es1 o1].
    assert (Hw1 : update (frame_epoch f) {| rl_marked := false; rl_entries := es1 |} w
                  = [(frame_epoch f, {| rl_marked := false; rl_entries := es1 |})]).
    { destruct Hw as [[-> _]|(b & -> & _)]; [reflexivity|]. cbn [update]. now rewrite N.eqb_refl. }
    rewrite Hw1. cbn [concat].
    rewrite (IH es1 _ false F' NT).
    + destruct (rl_run es1 (map fresh (rframes ops))) as [es2 o2]. reflexivity.
    + right. exists false. split; [reflexivity|discriminate].
  - cbn [rframes flat_map app] in F |- *. fold (rframes ops) in F |- *.
    cbn [no_adjacent_ticks] in NT. apply andb_true_iff in NT as [Np NT].
    apply negb_true_iff in Np. subst prev.
    cbn [wrun rstep concat app].
    apply (IH es _ true F NT).
    destruct Hw as [[-> ->]|(b & -> & Hb)]; [left; split; reflexivity|].
    right. exists true. split; [|reflexivity].
    destruct b; [specialize (Hb eq_refl); discriminate|]. reflexivity.
Qed.
