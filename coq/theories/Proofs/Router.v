(** Lemmas about Model/Router.v: what every step of the fast path does to the
    processor state, and the facts established when the ingress part and the
    egress part of [process_scion] succeed. *)
From Coq Require Import List NArith Bool Lia.
From Scion Require Import Lib.Check Model.Router.
Import ListNotations.
Import Router.
Local Open Scope N_scope.

(** * Generic *)
Lemma bind_ok o f s : bind o f = Ok s -> exists s0, o = Ok s0 /\ f s0 = Ok s.
Proof. destruct o as [s0|r]; cbn; intros H; [eauto | discriminate]. Qed.

Lemma bind_stop o f r :
  bind o f = Stop r -> o = Stop r \/ exists s0, o = Ok s0 /\ f s0 = Stop r.
Proof. destruct o as [s0|r0]; cbn; intros H; [right; eauto | left; congruence]. Qed.

Definition not_forward (r : result) : Prop :=
  match r with Forward _ _ _ => False | _ => True end.

Lemma scope_eqb_eq a b : scope_eqb a b = true <-> a = b.
Proof. destruct a, b; cbn; split; intros; try reflexivity; try discriminate. Qed.

Lemma list_eqb_N l1 l2 : list_eqb N.eqb l1 l2 = true <-> l1 = l2.
Proof. apply list_eqb_eq. intros; apply N.eqb_eq. Qed.

(** * Steps that only check *)
Section Steps.
Variable macq : N -> N -> N -> N -> N -> option (list N).
Variable c : cfg.
Variable now : N.
Variable ing : ingress.

Lemma slow_nf ty code ptr s r : slow ty code ptr s = Stop r -> not_forward r.
Proof. unfold slow. intros H; inversion H; exact I. Qed.

Lemma parse_path_ok p s :
  parse_path p = Ok s ->
  s = mkSt p (s_hop s) (s_inf s) false false 0 /\
  nthN (p_hops p) (p_curr_hf p) = Some (s_hop s) /\
  nthN (p_infos p) (p_curr_inf p) = Some (s_inf s) /\
  well_formed p = true /\ seglen_ok p = true /\
  p_curr_inf p = inf_index_for_hf p (p_curr_hf p) /\
  (i_peer (s_inf s) = false ->
   p_seg0 p <> 1 /\ p_seg1 p <> 1 /\ p_seg2 p <> 1).
Proof.
  unfold parse_path.
  destruct (negb (seglen_ok p) || (MaxHops <? num_hops p)) eqn:E1; [discriminate|].
  destruct (negb (well_formed p)) eqn:E2; [discriminate|].
  destruct (nthN (p_hops p) (p_curr_hf p)) as [h|] eqn:Eh; [|discriminate].
  destruct (nthN (p_infos p) (p_curr_inf p)) as [i|] eqn:Ei; [|discriminate].
  destruct (negb (i_peer i) && _) eqn:E3; [discriminate|].
  destruct (negb (p_curr_inf p =? _)) eqn:E4; [discriminate|].
  intros H; inversion H; subst s; cbn.
  apply orb_false_iff in E1 as [E1 _]. apply negb_false_iff in E1, E2, E4.
  apply N.eqb_eq in E4.
  split; [reflexivity|]. split; [reflexivity|]. split; [reflexivity|].
  split; [assumption|]. split; [assumption|]. split; [assumption|].
  intros Hp. rewrite Hp in E3. cbn [negb andb] in E3.
  apply orb_false_iff in E3 as [E3 E3c]. apply orb_false_iff in E3 as [E3a E3b].
  repeat split; apply N.eqb_neq; assumption.
Qed.

Lemma parse_path_nf p r : parse_path p = Stop r -> not_forward r.
Proof.
  unfold parse_path.
  repeat match goal with
  | |- context [if ?b then _ else _] => destruct b
  | |- context [match ?x with Some _ => _ | None => _ end] => destruct x
  end; intros H; inversion H; exact I.
Qed.

Lemma determine_peer_ok s s' :
  determine_peer s = Ok s' ->
  s' = mkSt (s_p s) (s_hop s) (s_inf s)
            (i_peer (s_inf s) &&
             ((p_curr_hf (s_p s) =? p_seg0 (s_p s) - 1) || (p_curr_hf (s_p s) =? p_seg0 (s_p s))))
            (s_xover s) (s_eg s) \/
  (i_peer (s_inf s) = false /\ s' = s).
Proof.
  unfold determine_peer. destruct (i_peer (s_inf s)) eqn:Ep; cbn.
  - destruct (p_seg0 (s_p s) =? 0); [discriminate|].
    destruct (p_seg1 (s_p s) =? 0); [discriminate|].
    destruct (negb (p_seg2 (s_p s) =? 0)); [discriminate|].
    intros [= <-]. left. reflexivity.
  - intros [= <-]. right. split; reflexivity.
Qed.

Lemma determine_peer_seg s s' :
  determine_peer s = Ok s' -> i_peer (s_inf s) = true ->
  p_seg0 (s_p s) <> 0 /\ p_seg1 (s_p s) <> 0 /\ p_seg2 (s_p s) = 0.
Proof.
  unfold determine_peer. intros H Ep. rewrite Ep in H. cbn in H.
  destruct (p_seg0 (s_p s) =? 0) eqn:A; [discriminate|].
  destruct (p_seg1 (s_p s) =? 0) eqn:B; [discriminate|].
  destruct (negb (p_seg2 (s_p s) =? 0)) eqn:C; [discriminate|].
  apply N.eqb_neq in A, B. apply negb_false_iff, N.eqb_eq in C. auto.
Qed.

Lemma determine_peer_nf s r : determine_peer s = Stop r -> not_forward r.
Proof.
  unfold determine_peer.
  repeat match goal with |- context [if ?b then _ else _] => destruct b end;
    intros H; inversion H; exact I.
Qed.

Lemma validate_hop_expiry_ok s s' :
  validate_hop_expiry now s = Ok s' -> s' = s /\ expired now (s_inf s) (s_hop s) = false.
Proof.
  unfold validate_hop_expiry. destruct (expired now (s_inf s) (s_hop s)); [discriminate|].
  intros [= <-]; auto.
Qed.
Lemma validate_hop_expiry_nf s r : validate_hop_expiry now s = Stop r -> not_forward r.
Proof.
  unfold validate_hop_expiry. destruct (expired _ _ _); [apply slow_nf | discriminate].
Qed.

Lemma validate_ingress_id_ok s s' :
  validate_ingress_id ing s = Ok s' ->
  s' = s /\ (from0 ing = false ->
             ing_ifid ing = if i_consdir (s_inf s) then h_in (s_hop s) else h_eg (s_hop s)).
Proof.
  unfold validate_ingress_id.
  destruct (negb (from0 ing) && _) eqn:E; [discriminate|].
  intros [= <-]; split; [reflexivity|]. intros F. rewrite F in E. cbn in E.
  apply negb_false_iff, N.eqb_eq in E. exact E.
Qed.
Lemma validate_ingress_id_nf s r : validate_ingress_id ing s = Stop r -> not_forward r.
Proof.
  unfold validate_ingress_id. destruct (negb (from0 ing) && _); [apply slow_nf | discriminate].
Qed.

Lemma validate_pkt_len_ok s s' :
  validate_pkt_len s = Ok s' -> s' = s /\ p_pay_len (s_p s) = p_pay_actual (s_p s).
Proof.
  unfold validate_pkt_len. destruct (_ =? _) eqn:E; [|discriminate].
  intros [= <-]; split; [reflexivity | now apply N.eqb_eq].
Qed.
Lemma validate_pkt_len_nf s r : validate_pkt_len s = Stop r -> not_forward r.
Proof. unfold validate_pkt_len. destruct (_ =? _); [discriminate | apply slow_nf]. Qed.

Lemma validate_transit_ok s s' :
  validate_transit_underlay_src c ing s = Ok s' ->
  s' = s /\
  (is_first_hop (s_p s) = false -> from0 ing = true ->
   exists id f, ingress_interface s = Some id /\ get_if c id = Some f /\
                if_link f = ing_link ing /\ if_scope f = Sibling).
Proof.
  unfold validate_transit_underlay_src.
  destruct (is_first_hop (s_p s) || negb (from0 ing)) eqn:E.
  - intros [= <-]; split; [reflexivity|]. intros A B. rewrite A, B in E. discriminate.
  - destruct (ingress_interface s) as [id|]; [|discriminate].
    destruct (get_if c id) as [f|] eqn:G; [|discriminate].
    destruct ((if_link f =? ing_link ing) && scope_eqb (if_scope f) Sibling) eqn:L; [|discriminate].
    intros [= <-]; split; [reflexivity|]. intros _ _.
    apply andb_true_iff in L as [L1 L2]. apply N.eqb_eq in L1. apply scope_eqb_eq in L2.
    exists id, f. auto.
Qed.
Lemma validate_transit_nf s r : validate_transit_underlay_src c ing s = Stop r -> not_forward r.
Proof.
  unfold validate_transit_underlay_src.
  repeat match goal with
  | |- context [if ?b then _ else _] => destruct b
  | |- context [match ?x with Some _ => _ | None => _ end] => destruct x
  end; intros H; inversion H; exact I.
Qed.

Lemma validate_src_dst_ia_ok s s' :
  validate_src_dst_ia c ing s = Ok s' ->
  s' = s /\
  (if from0 ing
   then (is_first_hop (s_p s) = true -> p_src_ia (s_p s) = c_ia c) /\ p_dst_ia (s_p s) <> c_ia c
   else p_src_ia (s_p s) <> c_ia c /\
        is_last_hop (s_p s) = (p_dst_ia (s_p s) =? c_ia c)).
Proof.
  unfold validate_src_dst_ia, resp_invalid_src_ia, resp_invalid_dst_ia, slow.
  destruct (from0 ing).
  - destruct (is_first_hop (s_p s) && negb (p_src_ia (s_p s) =? c_ia c)) eqn:A; [discriminate|].
    destruct (p_dst_ia (s_p s) =? c_ia c) eqn:B; [discriminate|].
    intros [= <-]; split; [reflexivity|]. split.
    + intros F. rewrite F in A. cbn in A. apply negb_false_iff, N.eqb_eq in A. exact A.
    + now apply N.eqb_neq.
  - destruct (p_src_ia (s_p s) =? c_ia c) eqn:A; [discriminate|].
    destruct (negb (Bool.eqb (is_last_hop (s_p s)) (p_dst_ia (s_p s) =? c_ia c))) eqn:B; [discriminate|].
    intros [= <-]; split; [reflexivity|]. split.
    + now apply N.eqb_neq.
    + apply negb_false_iff, eqb_prop in B. exact B.
Qed.
Lemma validate_src_dst_ia_nf s r : validate_src_dst_ia c ing s = Stop r -> not_forward r.
Proof.
  unfold validate_src_dst_ia, resp_invalid_src_ia, resp_invalid_dst_ia, slow.
  repeat match goal with |- context [if ?b then _ else _] => destruct b end;
    intros H; inversion H; exact I.
Qed.

Lemma validate_src_host_ok s s' : validate_src_host c s = Ok s' -> s' = s.
Proof.
  unfold validate_src_host, slow.
  destruct (negb _); [intros [= <-]; reflexivity|].
  destruct (parse_host _ _); try discriminate.
  - destruct (is_4in6 ip); [discriminate|]. intros [= <-]; reflexivity.
  - intros [= <-]; reflexivity.
Qed.
Lemma validate_src_host_nf s r : validate_src_host c s = Stop r -> not_forward r.
Proof.
  unfold validate_src_host, slow.
  destruct (negb _); [discriminate|].
  destruct (parse_host _ _); try (intros H; inversion H; exact I).
  destruct (is_4in6 ip); intros H; inversion H; exact I.
Qed.

Lemma update_segid_ok s s' :
  update_noncons_ingress_segid ing s = Ok s' ->
  s' = (if negb (i_consdir (s_inf s)) && negb (from0 ing) && negb (s_peer s)
        then store_inf s (upd_segid (s_inf s) (s_hop s)) else s).
Proof.
  unfold update_noncons_ingress_segid.
  destruct (negb (i_consdir (s_inf s)) && negb (from0 ing) && negb (s_peer s));
    intros [= <-]; reflexivity.
Qed.
Lemma update_segid_nf s r : update_noncons_ingress_segid ing s = Stop r -> not_forward r.
Proof.
  unfold update_noncons_ingress_segid. destruct (_ && _); discriminate.
Qed.

Lemma verify_mac_ok s s' :
  verify_current_mac macq s = Ok s' ->
  s' = s /\ exists m, mac_of macq (s_inf s) (s_hop s) = Some m /\ h_mac (s_hop s) = m.
Proof.
  unfold verify_current_mac.
  destruct (mac_of macq (s_inf s) (s_hop s)) as [m|]; [|discriminate].
  destruct (list_eqb N.eqb (h_mac (s_hop s)) m) eqn:E; [|discriminate].
  intros [= <-]; split; [reflexivity|]. exists m. split; [reflexivity|].
  now apply list_eqb_N.
Qed.
Lemma verify_mac_stop s r :
  verify_current_mac macq s = Stop r ->
  r = MacMiss \/
  r = SlowPath (SpScmp ScmpParameterProblem CodeInvalidHopFieldMAC (hop_ptr (s_p s))) (s_eg s) (s_p s).
Proof.
  unfold verify_current_mac, slow.
  destruct (mac_of macq (s_inf s) (s_hop s)) as [m|]; [|intros H; inversion H; auto].
  destruct (list_eqb N.eqb (h_mac (s_hop s)) m); [discriminate|].
  intros H; inversion H; auto.
Qed.
Lemma verify_mac_nf s r : verify_current_mac macq s = Stop r -> not_forward r.
Proof. intros H. apply verify_mac_stop in H as [->| ->]; exact I. Qed.

Lemma ingress_alert_ok s s' :
  handle_ingress_router_alert ing s = Ok s' -> s' = s.
Proof.
  unfold handle_ingress_router_alert. destruct (from0 ing); [intros [= <-]; reflexivity|].
  destruct (negb _); [intros [= <-]; reflexivity | discriminate].
Qed.
Lemma ingress_alert_nf s r : handle_ingress_router_alert ing s = Stop r -> not_forward r.
Proof.
  unfold handle_ingress_router_alert. destruct (from0 ing); [discriminate|].
  destruct (negb _); [discriminate|]. intros H; inversion H; exact I.
Qed.

(** * The ingress part never forwards by itself *)
Lemma ingress_part_nf p r : ingress_part macq c now ing p = Stop r -> not_forward r.
Proof.
  unfold ingress_part. intros H.
  repeat (apply bind_stop in H as [H | (s0 & H & H')];
          [| first [ eapply ingress_alert_nf; eassumption
                   | eapply verify_mac_nf; eassumption
                   | eapply update_segid_nf; eassumption
                   | eapply validate_src_host_nf; eassumption
                   | eapply validate_src_dst_ia_nf; eassumption
                   | eapply validate_transit_nf; eassumption
                   | eapply validate_pkt_len_nf; eassumption
                   | eapply validate_ingress_id_nf; eassumption
                   | eapply validate_hop_expiry_nf; eassumption
                   | eapply determine_peer_nf; eassumption ]]).
  eapply parse_path_nf; eassumption.
Qed.

End Steps.

(** * What holds when the ingress part succeeds (total MAC function) *)
Section Facts.
Variable mac : N -> N -> N -> N -> N -> list N.
Definition total (m : N -> N -> N -> N -> N -> list N) :=
  fun a b c d e => Some (m a b c d e).
Notation macq := (total mac).
Variable c : cfg.
Variable now : N.
Variable ing : ingress.

Definition mac_valid (i : info) (h : hop) : Prop :=
  h_mac h = mac (i_segid i) (i_ts i) (h_exp h) (h_in h) (h_eg h).

Definition folds (p : pkt) (i : info) : bool :=
  negb (i_consdir i) && negb (ing_ifid ing =? 0) && negb (peering_of p).

Lemma verif_info_fold p i h :
  verif_info ing p i h = if folds p i then upd_segid i h else i.
Proof. reflexivity. Qed.

Lemma expired_upd i h h' : expired now (upd_segid i h') h = expired now i h.
Proof. reflexivity. Qed.

Record ingress_facts (p : pkt) (s : st) (i : info) (h : hop) : Prop := {
  if_inf : cur_inf p = Some i;
  if_hop : cur_hop p = Some h;
  if_shop : s_hop s = h;
  if_sinf : s_inf s = verif_info ing p i h;
  if_peer : s_peer s = peering_of p;
  if_xover : s_xover s = false;
  if_eg : s_eg s = 0;
  if_pkt : s_p s = if folds p i
                   then with_infos p (set_nthN (p_infos p) (p_curr_inf p) (ser_info (upd_segid i h)))
                   else p;
  if_live : expired now i h = false;
  if_mac : mac_valid (verif_info ing p i h) h;
  if_ingress : from0 ing = false ->
               ing_ifid ing = if i_consdir i then h_in h else h_eg h;
  if_len : p_pay_len p = p_pay_actual p;
  if_transit : is_first_hop p = false -> from0 ing = true ->
               exists id f, claimed_ingress p = Some id /\ get_if c id = Some f /\
                            if_link f = ing_link ing /\ if_scope f = Sibling;
  if_ia : if from0 ing
          then (is_first_hop p = true -> p_src_ia p = c_ia c) /\ p_dst_ia p <> c_ia c
          else p_src_ia p <> c_ia c /\ is_last_hop p = (p_dst_ia p =? c_ia c);
  if_wf : well_formed p = true;
  if_seglen : seglen_ok p = true;
  if_match : p_curr_inf p = inf_index_for_hf p (p_curr_hf p);
  if_nosingle : i_peer i = false -> p_seg0 p <> 1 /\ p_seg1 p <> 1 /\ p_seg2 p <> 1;
  if_noalert : from0 ing = false -> (if i_consdir i then h_ialert h else h_ealert h) = false;
  if_peerseg : i_peer i = true -> p_seg0 p <> 0 /\ p_seg1 p <> 0 /\ p_seg2 p = 0
}.

Lemma ingress_part_ok p s :
  ingress_part macq c now ing p = Ok s -> exists i h, ingress_facts p s i h.
Proof.
  unfold ingress_part. intros H.
  apply bind_ok in H as (s10 & H & H11). apply bind_ok in H as (s9 & H & H10).
  apply bind_ok in H as (s8 & H & H9). apply bind_ok in H as (s7 & H & H8).
  apply bind_ok in H as (s6 & H & H7). apply bind_ok in H as (s5 & H & H6).
  apply bind_ok in H as (s4 & H & H5). apply bind_ok in H as (s3 & H & H4).
  apply bind_ok in H as (s2 & H & H3). apply bind_ok in H as (s1 & H1 & H2).
  apply parse_path_ok in H1 as (E1 & Ph & Pi & Pwf & Psl & Pm & Pns).
  destruct s1 as [p1 h i pe1 xo1 eg1]. cbn [s_hop s_inf s_p] in *.
  injection E1 as -> -> -> ->.
  pose proof (determine_peer_seg _ _ H2) as Pseg. cbn [s_inf s_p] in Pseg.
  assert (Epeer : s2 = mkSt p h i (peering_of p) false 0).
  { apply determine_peer_ok in H2. cbn [s_hop s_inf s_p s_xover s_eg] in H2.
    unfold peering_of. rewrite Pi.
    destruct H2 as [-> | [Hp ->]]; [reflexivity|].
    rewrite Hp. reflexivity. }
  apply validate_hop_expiry_ok in H3 as [-> H3].
  apply validate_ingress_id_ok in H4 as [-> H4].
  apply validate_pkt_len_ok in H5 as [-> H5].
  apply validate_transit_ok in H6 as [-> H6].
  apply validate_src_dst_ia_ok in H7 as [-> H7].
  apply validate_src_host_ok in H8 as ->.
  apply update_segid_ok in H9.
  apply verify_mac_ok in H10 as [-> (m & Hm1 & Hm2)].
  pose proof H11 as H11'. apply ingress_alert_ok in H11 as ->.
  subst s2. cbn in *.
  assert (Efold : negb (i_consdir i) && negb (from0 ing) && negb (peering_of p) = folds p i)
    by reflexivity.
  rewrite Efold in H9.
  exists i, h. constructor; try assumption.
  - subst s9. destruct (folds p i); reflexivity.
  - rewrite verif_info_fold. subst s9. destruct (folds p i); reflexivity.
  - subst s9. destruct (folds p i); reflexivity.
  - subst s9. destruct (folds p i); reflexivity.
  - subst s9. destruct (folds p i); reflexivity.
  - subst s9. destruct (folds p i); reflexivity.
  - rewrite verif_info_fold. unfold mac_valid.
    assert (s_hop s9 = h /\ s_inf s9 = (if folds p i then upd_segid i h else i)) as [Eh Ei]
      by (subst s9; destruct (folds p i); split; reflexivity).
    unfold mac_of, total in Hm1. rewrite Eh, Ei in Hm1. rewrite Eh in Hm2.
    inversion Hm1. congruence.
  - intros A B. destruct (H6 A B) as (id & f & Hi & G & L & S).
    exists id, f. repeat split; try assumption.
    unfold claimed_ingress, cur_inf, cur_hop. rewrite Pi, Ph. exact Hi.
  - intros F. unfold handle_ingress_router_alert in H11'. rewrite F in H11'.
    assert (s_hop s9 = h /\ i_consdir (s_inf s9) = i_consdir i) as [Eh Ei]
      by (subst s9; destruct (folds p i); split; reflexivity).
    rewrite Eh, Ei in H11'.
    destruct (if i_consdir i then h_ialert h else h_ealert h); [discriminate | reflexivity].
Qed.

End Facts.

(** * The egress part *)
Section Egress.
Variable mac : N -> N -> N -> N -> N -> list N.
Notation macq := (total mac).
Variable c : cfg.
Variable now : N.
Variable ing : ingress.

Lemma do_xover_ok s s' :
  do_xover s = Ok s' ->
  exists h' i',
    nthN (p_hops (s_p s)) (p_curr_hf (s_p s) + 1) = Some h' /\
    nthN (p_infos (s_p s)) (inf_index_for_hf (s_p s) (p_curr_hf (s_p s) + 1)) = Some i' /\
    s' = mkSt (inc_path (s_p s)) h' i' (s_peer s) true (s_eg s).
Proof.
  unfold do_xover. cbn [inc_path with_meta p_hops p_infos p_curr_hf p_curr_inf].
  destruct (nthN (p_hops (s_p s)) (p_curr_hf (s_p s) + 1)) as [h'|]; [|discriminate].
  destruct (nthN (p_infos (s_p s)) _) as [i'|]; [|discriminate].
  intros [= <-]. exists h', i'. auto.
Qed.

Lemma do_xover_nf s r : do_xover s = Stop r -> not_forward r.
Proof.
  unfold do_xover.
  destruct (nthN (p_hops _) _); [destruct (nthN (p_infos _) _)|]; intros H; inversion H; exact I.
Qed.

Definition xover_cond (s : st) : bool := is_xover (s_p s) && negb (s_peer s).

Lemma xover_part_ok s s' :
  xover_part macq now s = Ok s' ->
  if xover_cond s then
    exists h' i',
      nthN (p_hops (s_p s)) (p_curr_hf (s_p s) + 1) = Some h' /\
      nthN (p_infos (s_p s)) (inf_index_for_hf (s_p s) (p_curr_hf (s_p s) + 1)) = Some i' /\
      s' = mkSt (inc_path (s_p s)) h' i' (s_peer s) true (s_eg s) /\
      expired now i' h' = false /\ mac_valid mac i' h'
  else s' = s.
Proof.
  unfold xover_part, xover_cond. destruct (is_xover (s_p s) && negb (s_peer s)).
  - intros H. apply bind_ok in H as (s2 & H & H3). apply bind_ok in H as (s1 & H1 & H2).
    apply do_xover_ok in H1 as (h' & i' & Eh & Ei & ->).
    apply validate_hop_expiry_ok in H2 as [-> H2].
    apply verify_mac_ok in H3 as [-> (m & M1 & M2)].
    exists h', i'. repeat split; try assumption.
    cbn in *. unfold mac_valid. unfold mac_of, total in M1. inversion M1. congruence.
  - intros [= <-]. reflexivity.
Qed.

Lemma xover_part_nf s r : xover_part macq now s = Stop r -> not_forward r.
Proof.
  unfold xover_part. destruct (_ && _); [|discriminate]. intros H.
  apply bind_stop in H as [H | (s2 & H & H')]; [| eapply verify_mac_nf; eassumption].
  apply bind_stop in H as [H | (s1 & H & H')]; [| eapply validate_hop_expiry_nf; eassumption].
  eapply do_xover_nf; eassumption.
Qed.

Lemma validate_egress_id_ok s s' :
  validate_egress_id c ing s = Ok s' ->
  s' = s /\
  validate_egress (from0 ing) (lt_of c (ing_ifid ing)) (get_if c (s_eg s)) (s_xover s) = EgOk.
Proof.
  unfold validate_egress_id, slow.
  destruct (validate_egress _ _ _ _); try discriminate. intros [= <-]. auto.
Qed.
Lemma validate_egress_id_nf s r : validate_egress_id c ing s = Stop r -> not_forward r.
Proof.
  unfold validate_egress_id, slow.
  destruct (validate_egress _ _ _ _); intros H; inversion H; exact I.
Qed.

Definition egress_alert (s : st) : bool :=
  if i_consdir (s_inf s) then h_ealert (s_hop s) else h_ialert (s_hop s).

Lemma egress_alert_ok s s' :
  handle_egress_router_alert c s = Ok s' ->
  s' = s /\ (egress_alert s = false \/ if_scope (egress_if c s) <> External).
Proof.
  unfold handle_egress_router_alert, egress_alert.
  destruct (negb _) eqn:A.
  - intros [= <-]. split; [reflexivity|]. left. now apply negb_true_iff in A.
  - destruct (negb (scope_eqb _ _)) eqn:B; [|discriminate].
    intros [= <-]. split; [reflexivity|]. right. intros E.
    apply negb_true_iff in B. rewrite E in B. discriminate.
Qed.
Lemma egress_alert_nf s r : handle_egress_router_alert c s = Stop r -> not_forward r.
Proof.
  unfold handle_egress_router_alert.
  destruct (negb _); [discriminate|]. destruct (negb _); [discriminate|].
  intros H; inversion H; exact I.
Qed.

Lemma validate_egress_up_ok s s' :
  validate_egress_up c s = Ok s' -> s' = s /\ if_up (egress_if c s) = true.
Proof.
  unfold validate_egress_up, slow. destruct (if_up _); [|destruct (scope_eqb _ _); discriminate].
  intros [= <-]. auto.
Qed.
Lemma validate_egress_up_nf s r : validate_egress_up c s = Stop r -> not_forward r.
Proof.
  unfold validate_egress_up, slow. destruct (if_up _); [discriminate|].
  destruct (scope_eqb _ _); intros H; inversion H; exact I.
Qed.

Lemma egress_part_nf s r : egress_part macq c now ing s = Stop r -> not_forward r.
Proof.
  unfold egress_part. intros H.
  apply bind_stop in H as [H | (s0 & H & H')]; [| eapply validate_egress_up_nf; eassumption].
  apply bind_stop in H as [H | (s0 & H & H')]; [| eapply egress_alert_nf; eassumption].
  apply bind_stop in H as [H | (s0 & H & H')]; [| eapply validate_egress_id_nf; eassumption].
  apply bind_stop in H as [H | (s0 & H & H')]; [| discriminate].
  eapply xover_part_nf; eassumption.
Qed.

(** state after the (possible) cross-over, before the egress checks *)
Record egress_facts (s s' : st) : Prop := {
  ef_x : if xover_cond s then
           exists h' i',
             nthN (p_hops (s_p s)) (p_curr_hf (s_p s) + 1) = Some h' /\
             nthN (p_infos (s_p s)) (inf_index_for_hf (s_p s) (p_curr_hf (s_p s) + 1)) = Some i' /\
             s_p s' = inc_path (s_p s) /\ s_hop s' = h' /\ s_inf s' = i' /\ s_xover s' = true /\
             expired now i' h' = false /\ mac_valid mac i' h'
         else s_p s' = s_p s /\ s_hop s' = s_hop s /\ s_inf s' = s_inf s /\ s_xover s' = s_xover s;
  ef_peer : s_peer s' = s_peer s;
  ef_eg : s_eg s' = egress_interface s';
  ef_adm : validate_egress (from0 ing) (lt_of c (ing_ifid ing)) (get_if c (s_eg s')) (s_xover s') = EgOk;
  ef_alert : egress_alert s' = false \/ if_scope (egress_if c s') <> External;
  ef_up : if_up (egress_if c s') = true
}.

Lemma egress_part_ok s s' : egress_part macq c now ing s = Ok s' -> egress_facts s s'.
Proof.
  unfold egress_part. intros H.
  apply bind_ok in H as (s4 & H & H5). apply bind_ok in H as (s3 & H & H4).
  apply bind_ok in H as (s2 & H & H3). apply bind_ok in H as (s1 & H1 & H2).
  apply xover_part_ok in H1.
  unfold set_egress in H2. injection H2 as <-.
  apply validate_egress_id_ok in H3 as [-> H3].
  apply egress_alert_ok in H4 as [-> H4].
  apply validate_egress_up_ok in H5 as [-> H5].
  constructor; try assumption; try reflexivity.
  - destruct (xover_cond s).
    + destruct H1 as (h' & i' & A & B & -> & D & E). exists h', i'. cbn. auto 10.
    + subst s1. cbn. auto.
  - destruct (xover_cond s).
    + destruct H1 as (h' & i' & A & B & -> & D & E). reflexivity.
    + subst s1. reflexivity.
Qed.

(** * Inversion of a Forward result *)
Definition forward_out (s' : st) : pkt :=
  let s1 := if i_consdir (s_inf s') && negb (s_peer s')
            then store_inf s' (upd_segid (s_inf s') (s_hop s')) else s' in
  inc_path (s_p s1).

Lemma process_forward_inv p e out d :
  process_scion macq c now ing p = Forward e out d ->
  exists s i h, ingress_facts mac c now ing p s i h /\
    ((p_dst_ia p = c_ia c /\ e = 0 /\ out = s_p s /\ d <> None) \/
     (p_dst_ia p <> c_ia c /\ d = None /\
      exists s', egress_facts s s' /\ e = s_eg s' /\
        if scope_eqb (if_scope (egress_if c s')) External
        then out = forward_out s' /\ p_curr_hf (s_p s') + 1 < num_hops (s_p s')
        else out = s_p s')).
Proof.
  unfold process_scion.
  destruct (ingress_part macq c now ing p) as [s|r] eqn:EI.
  2:{ intros ->. apply ingress_part_nf in EI. destruct EI. }
  destruct (ingress_part_ok _ _ _ _ _ _ EI) as (i & h & F).
  destruct (p_dst_ia p =? c_ia c) eqn:ED.
  - apply N.eqb_eq in ED. intros HR. exists s, i, h. split; [exact F|]. left.
    unfold resolve_inbound in HR. rewrite (if_eg _ _ _ _ _ _ _ _ F) in HR.
    destruct (parse_host _ _); try discriminate.
    + destruct (p_l4_port (s_p s)); [|discriminate].
      destruct (_ || _); [discriminate|]. injection HR as <- <- <-.
      repeat split; try assumption; discriminate.
    + destruct (lookup_svc _ _); [|discriminate]. injection HR as <- <- <-.
      repeat split; try assumption; discriminate.
  - apply N.eqb_neq in ED.
    destruct (egress_part macq c now ing s) as [s'|r] eqn:EE.
    2:{ intros ->. apply egress_part_nf in EE. destruct EE. }
    intros HR. exists s, i, h. split; [exact F|]. right. split; [exact ED|].
    pose proof (egress_part_ok _ _ EE) as G.
    unfold finish in HR. destruct (scope_eqb (if_scope (egress_if c s')) External) eqn:ES.
    + unfold process_egress in HR.
      destruct (i_consdir (s_inf s') && negb (s_peer s')) eqn:EU.
      * cbn [store_inf s_p s_eg with_infos p_curr_hf num_hops p_seg0 p_seg1 p_seg2] in HR.
        destruct (_ <=? _) eqn:EL; [discriminate|]. injection HR as <- <- <-.
        split; [reflexivity|]. exists s'. split; [exact G|]. split; [reflexivity|].
        rewrite ES. unfold forward_out. rewrite EU. split; [reflexivity|].
        apply N.leb_gt in EL. exact EL.
      * destruct (_ <=? _) eqn:EL; [discriminate|]. injection HR as <- <- <-.
        split; [reflexivity|]. exists s'. split; [exact G|]. split; [reflexivity|].
        rewrite ES. unfold forward_out. rewrite EU. split; [reflexivity|].
        apply N.leb_gt in EL. exact EL.
    + injection HR as <- <- <-. split; [reflexivity|]. exists s'. split; [exact G|].
      split; [reflexivity|]. rewrite ES. reflexivity.
Qed.

End Egress.

(** * C06 *)
Lemma validate_egress_spec f0 ilt eg xover :
  (f0 = true -> ilt = Unset) ->
  (validate_egress f0 ilt eg xover = EgOk <-> admissible f0 ilt eg xover = true).
Proof.
  intros H. destruct eg as [[id sc lt nbr up lk]|]; [|cbn; split; discriminate].
  unfold validate_egress, admissible. cbn [if_scope if_lt].
  destruct f0.
  - rewrite (H eq_refl). destruct sc, lt, xover; cbn; split; intros; try reflexivity; discriminate.
  - destruct sc, ilt, lt, xover; cbn; split; intros; try reflexivity; discriminate.
Qed.

Lemma lt_of_zero c : lt_of c 0 = Unset.
Proof. reflexivity. Qed.

Lemma from0_unset c ing : from0 ing = true -> lt_of c (ing_ifid ing) = Unset.
Proof. unfold from0. intros H. apply N.eqb_eq in H. rewrite H. reflexivity. Qed.

Lemma is_xover_with_infos p l : is_xover (with_infos p l) = is_xover p.
Proof. reflexivity. Qed.

Section C06.
Variable mac : N -> N -> N -> N -> N -> list N.
Notation macq := (total mac).
Variable c : cfg.
Variable now : N.
Variable ing : ingress.

Lemma xover_cond_eff p s i h :
  ingress_facts mac c now ing p s i h -> xover_cond s = eff_xover p.
Proof.
  intros F. unfold xover_cond, eff_xover.
  rewrite (if_peer _ _ _ _ _ _ _ _ F), (if_pkt _ _ _ _ _ _ _ _ F).
  destruct (folds ing p i); reflexivity.
Qed.

Lemma s_xover_eff p s i h s' :
  ingress_facts mac c now ing p s i h -> egress_facts mac c now ing s s' ->
  s_xover s' = eff_xover p.
Proof.
  intros F G. rewrite <- (xover_cond_eff _ _ _ _ F).
  pose proof (ef_x _ _ _ _ _ _ G) as X. destruct (xover_cond s).
  - destruct X as (h' & i' & _ & _ & _ & _ & _ & X & _). exact X.
  - destruct X as (_ & _ & _ & X). rewrite X. apply (if_xover _ _ _ _ _ _ _ _ F).
Qed.

Lemma forward_admissible p e out d :
  process_scion macq c now ing p = Forward e out d ->
  (p_dst_ia p = c_ia c /\ e = 0) \/
  (p_dst_ia p <> c_ia c /\
   admissible (from0 ing) (lt_of c (ing_ifid ing)) (get_if c e) (eff_xover p) = true).
Proof.
  intros H. apply process_forward_inv in H as (s & i & h & F & [(A & B & _) | (A & _ & s' & G & -> & _)]).
  - left. auto.
  - right. split; [exact A|].
    apply validate_egress_spec; [apply from0_unset|].
    rewrite <- (s_xover_eff _ _ _ _ _ F G). apply (ef_adm _ _ _ _ _ _ G).
Qed.

Lemma c06_ok_model p : c06_ok c ing p (process macq c now ing p) = true.
Proof.
  unfold c06_ok, process. destruct (process_scion macq c now ing p) eqn:E; try reflexivity.
  apply forward_admissible in E as [[A B] | [A B]].
  - apply N.eqb_eq in A. apply N.eqb_eq in B. rewrite A, B. reflexivity.
  - apply N.eqb_neq in A. rewrite A. cbn. exact B.
Qed.

Lemma egress_rejected_scmp s :
  validate_egress (from0 ing) (lt_of c (ing_ifid ing)) (get_if c (s_eg s)) (s_xover s) <> EgOk ->
  exists code ptr,
    validate_egress_id c ing s =
      Stop (SlowPath (SpScmp ScmpParameterProblem code ptr) (s_eg s) (s_p s)) /\
    In code [CodeInvalidPath; CodeUnknownHopFieldIngress; CodeUnknownHopFieldEgress;
             CodeInvalidSegmentChange].
Proof.
  unfold validate_egress_id, slow. intros H.
  destruct (validate_egress _ _ _ _); [congruence | | |].
  - destruct (i_consdir (s_inf s)); eexists; eexists; (split; [reflexivity|]); cbn; auto.
  - eexists; eexists; (split; [reflexivity|]); cbn; auto.
  - eexists; eexists; (split; [reflexivity|]); cbn; auto.
Qed.

End C06.

(** * List helpers *)
Lemma set_nth_same {A} (l : list A) n x y :
  nth_error l n = Some y -> nth_error (set_nth l n x) n = Some x.
Proof.
  revert n. induction l as [|a t IH]; intros [|n]; cbn; intros H; try discriminate; auto.
Qed.

Lemma set_nth_other {A} (l : list A) n m x :
  n <> m -> nth_error (set_nth l n x) m = nth_error l m.
Proof.
  revert n m. induction l as [|a t IH]; intros [|n] [|m] H; cbn; try reflexivity.
  - congruence.
  - apply IH. congruence.
Qed.

Lemma set_nth_length {A} (l : list A) n x : length (set_nth l n x) = length l.
Proof. revert n. induction l as [|a t IH]; intros [|n]; cbn; auto. Qed.

Lemma nthN_set_same {A} (l : list A) n x y :
  nthN l n = Some y -> nthN (set_nthN l n x) n = Some x.
Proof. unfold nthN, set_nthN. apply set_nth_same. Qed.

Lemma nthN_set_other {A} (l : list A) n m x :
  n <> m -> nthN (set_nthN l n x) m = nthN l m.
Proof.
  unfold nthN, set_nthN. intros H. apply set_nth_other. intros E. apply H.
  now apply N2Nat.inj.
Qed.

Lemma nthN_lt {A} (l : list A) n y : nthN l n = Some y -> n < N.of_nat (length l).
Proof.
  unfold nthN. intros H. assert (N.to_nat n < length l)%nat by (apply nth_error_Some; congruence).
  lia.
Qed.

(** the info index moves by exactly one at a segment boundary *)
Lemma inf_index_step p hf :
  seglen_ok p = true -> hf + 1 < num_hops p ->
  inf_index_for_hf p (hf + 1) <> inf_index_for_hf p hf ->
  inf_index_for_hf p (hf + 1) = inf_index_for_hf p hf + 1.
Proof.
  unfold seglen_ok, num_hops, inf_index_for_hf. intros S L.
  destruct (hf + 1 <? p_seg0 p) eqn:A; destruct (hf <? p_seg0 p) eqn:B;
    destruct (hf + 1 <? p_seg0 p + p_seg1 p) eqn:C; destruct (hf <? p_seg0 p + p_seg1 p) eqn:D;
    intros H; try congruence; try reflexivity; exfalso;
    apply andb_true_iff in S as [S1 S2]; apply negb_true_iff in S1, S2;
    rewrite ?N.ltb_lt, ?N.ltb_ge in *.
  all: try lia.
  (* 0 -> 2: seg1 = 0 while seg2 > 0 *)
  assert (p_seg1 p = 0) by lia.
  assert (0 <? p_seg2 p = true) by (apply N.ltb_lt; lia).
  rewrite H1 in S1. cbn in S1. apply orb_false_iff in S1 as [S1 _]. apply N.eqb_neq in S1. lia.
Qed.

(** * C05 *)
Lemma no_egress_zero_from_outside c ilt x : validate_egress false ilt (get_if c 0) x <> EgOk.
Proof. cbn. destruct ilt, x; cbn; discriminate. Qed.

Section C05.
Variable mac : N -> N -> N -> N -> N -> list N.
Notation macq := (total mac).
Variable c : cfg.
Variable now : N.
Variable ing : ingress.

Lemma forward_from_outside p e out d :
  from0 ing = false ->
  process_scion macq c now ing p = Forward e out d ->
  p_src_ia p <> c_ia c /\
  (is_last_hop p = true <-> p_dst_ia p = c_ia c) /\
  (e = 0 <-> is_last_hop p = true /\ p_dst_ia p = c_ia c).
Proof.
  intros F0 H.
  apply process_forward_inv in H as (s & i & h & F & D).
  pose proof (if_ia _ _ _ _ _ _ _ _ F) as IA. rewrite F0 in IA. destruct IA as [IA1 IA2].
  split; [exact IA1|]. split.
  - rewrite IA2. apply N.eqb_eq.
  - destruct D as [(A & B & _) | (A & _ & s' & G & -> & _)].
    + split; [intros _|auto]. split; [|exact A]. rewrite IA2. now apply N.eqb_eq.
    + split.
      * intros E0. exfalso. pose proof (ef_adm _ _ _ _ _ _ G) as Adm.
        rewrite E0, F0 in Adm. now apply no_egress_zero_from_outside in Adm.
      * intros [_ B]. contradiction.
Qed.

Lemma forward_from_inside p e out d :
  from0 ing = true ->
  process_scion macq c now ing p = Forward e out d ->
  (is_first_hop p = true -> p_src_ia p = c_ia c) /\
  p_dst_ia p <> c_ia c /\
  (is_first_hop p = false ->
   exists id f, claimed_ingress p = Some id /\ get_if c id = Some f /\
                if_scope f = Sibling /\ if_link f = ing_link ing).
Proof.
  intros F0 H.
  apply process_forward_inv in H as (s & i & h & F & _).
  pose proof (if_ia _ _ _ _ _ _ _ _ F) as IA. rewrite F0 in IA. destruct IA as [IA1 IA2].
  split; [exact IA1|]. split; [exact IA2|].
  intros NF. destruct (if_transit _ _ _ _ _ _ _ _ F NF F0) as (id & f & A & B & C & D).
  exists id, f. auto.
Qed.

Lemma c05_ok_model p : c05_ok c ing p (process macq c now ing p) = true.
Proof.
  unfold c05_ok, process. destruct (process_scion macq c now ing p) eqn:E; try reflexivity.
  change (ing_ifid ing =? 0) with (from0 ing). destruct (from0 ing) eqn:F0.
  - destruct (forward_from_inside _ _ _ _ F0 E) as (A & B & C).
    apply N.eqb_neq in B. rewrite B. cbn [negb]. rewrite andb_true_r.
    destruct (is_first_hop p) eqn:FH.
    + apply N.eqb_eq. auto.
    + destruct (C eq_refl) as (id & f & C1 & C2 & C3 & C4). rewrite C1.
      unfold owner_is_sibling_link. rewrite C2, C3, C4. cbn. apply N.eqb_refl.
  - destruct (forward_from_outside _ _ _ _ F0 E) as (A & B & C).
    apply N.eqb_neq in A. rewrite A. cbn [negb andb].
    apply andb_true_iff. split; apply eqb_true_iff.
    + destruct (egress =? 0) eqn:E0.
      * apply N.eqb_eq in E0. destruct (proj1 C E0) as [C1 C2]. rewrite C1.
        apply N.eqb_eq in C2. rewrite C2. reflexivity.
      * destruct (is_last_hop p && (p_dst_ia p =? c_ia c)) eqn:X; [|reflexivity].
        apply andb_true_iff in X as [X1 X2]. apply N.eqb_eq in X2.
        apply N.eqb_neq in E0. exfalso. apply E0. apply C. auto.
    + destruct (is_last_hop p) eqn:L.
      * symmetry. apply N.eqb_eq. now apply B.
      * symmetry. apply N.eqb_neq. intros X. apply B in X. discriminate.
Qed.

(** the SCMP answers of validateSrcDstIA *)
Lemma src_dst_ia_answers s :
  (from0 ing = false -> p_src_ia (s_p s) = c_ia c ->
   validate_src_dst_ia c ing s =
     Stop (SlowPath (SpScmp ScmpParameterProblem CodeInvalidSourceAddress (CmnHdrLen + IABytes))
                    (s_eg s) (s_p s))) /\
  (from0 ing = false -> p_src_ia (s_p s) <> c_ia c ->
   is_last_hop (s_p s) <> (p_dst_ia (s_p s) =? c_ia c) ->
   validate_src_dst_ia c ing s =
     Stop (SlowPath (SpScmp ScmpParameterProblem CodeInvalidDestinationAddress CmnHdrLen)
                    (s_eg s) (s_p s))) /\
  (from0 ing = true -> is_first_hop (s_p s) = true -> p_src_ia (s_p s) <> c_ia c ->
   validate_src_dst_ia c ing s =
     Stop (SlowPath (SpScmp ScmpParameterProblem CodeInvalidSourceAddress (CmnHdrLen + IABytes))
                    (s_eg s) (s_p s))) /\
  (from0 ing = true -> (is_first_hop (s_p s) = true -> p_src_ia (s_p s) = c_ia c) ->
   p_dst_ia (s_p s) = c_ia c ->
   validate_src_dst_ia c ing s =
     Stop (SlowPath (SpScmp ScmpParameterProblem CodeInvalidDestinationAddress CmnHdrLen)
                    (s_eg s) (s_p s))).
Proof.
  unfold validate_src_dst_ia, resp_invalid_src_ia, resp_invalid_dst_ia, slow.
  repeat split.
  - intros -> E. apply N.eqb_eq in E. rewrite E. reflexivity.
  - intros -> E L. apply N.eqb_neq in E. rewrite E.
    destruct (is_last_hop (s_p s)), (p_dst_ia (s_p s) =? c_ia c); cbn; try reflexivity; congruence.
  - intros -> F E. apply N.eqb_neq in E. rewrite F, E. reflexivity.
  - intros -> F E. apply N.eqb_eq in E. rewrite E.
    destruct (is_first_hop (s_p s)); [|reflexivity].
    specialize (F eq_refl). apply N.eqb_eq in F. rewrite F. reflexivity.
Qed.

End C05.

(** * C01 *)
Section C01.
Variable mac : N -> N -> N -> N -> N -> list N.
Notation macq := (total mac).
Variable c : cfg.
Variable now : N.
Variable ing : ingress.

Lemma hop_ok_total i h :
  hop_ok macq now i h = true <-> mac_valid mac i h /\ expired now i h = false.
Proof.
  unfold hop_ok, total, mac_valid. rewrite andb_true_iff, list_eqb_N, negb_true_iff. tauto.
Qed.

(** Forward => the current hop (and at an effective cross-over the first hop of the next
    segment) carries the MAC the AS key gives for the packet's SegID accumulator, and is live. *)
Lemma forward_sound p e out d :
  process_scion macq c now ing p = Forward e out d ->
  exists i h, cur_inf p = Some i /\ cur_hop p = Some h /\
    mac_valid mac (verif_info ing p i h) h /\ expired now i h = false /\
    (p_dst_ia p <> c_ia c -> eff_xover p = true ->
     exists i' h', nthN (p_infos p) (p_curr_inf p + 1) = Some i' /\
                   nthN (p_hops p) (p_curr_hf p + 1) = Some h' /\
                   mac_valid mac i' h' /\ expired now i' h' = false).
Proof.
  intros H. apply process_forward_inv in H as (s & i & h & F & D).
  exists i, h. split; [apply (if_inf _ _ _ _ _ _ _ _ F)|]. split; [apply (if_hop _ _ _ _ _ _ _ _ F)|].
  split; [apply (if_mac _ _ _ _ _ _ _ _ F)|]. split; [apply (if_live _ _ _ _ _ _ _ _ F)|].
  intros ND X. destruct D as [(A & _) | (_ & _ & s' & G & _)]; [contradiction|].
  pose proof (ef_x _ _ _ _ _ _ G) as EX. rewrite (xover_cond_eff _ _ _ _ _ _ _ _ F), X in EX.
  destruct EX as (h' & i' & Eh & Ei & _ & _ & _ & _ & L & M).
  exists i', h'.
  pose proof (if_pkt _ _ _ _ _ _ _ _ F) as EP.
  assert (Hops : p_hops (s_p s) = p_hops p) by (rewrite EP; destruct (folds ing p i); reflexivity).
  assert (Hf : p_curr_hf (s_p s) = p_curr_hf p) by (rewrite EP; destruct (folds ing p i); reflexivity).
  assert (Idx : inf_index_for_hf (s_p s) (p_curr_hf (s_p s) + 1) = p_curr_inf p + 1).
  { assert (E : inf_index_for_hf (s_p s) (p_curr_hf (s_p s) + 1) = inf_index_for_hf p (p_curr_hf p + 1))
      by (rewrite EP; destruct (folds ing p i); reflexivity).
    rewrite E. unfold eff_xover in X. apply andb_true_iff in X as [X _].
    unfold is_xover in X. apply andb_true_iff in X as [X1 X2].
    apply N.ltb_lt in X1. apply negb_true_iff, N.eqb_neq in X2.
    rewrite (if_match _ _ _ _ _ _ _ _ F) in X2 |- *.
    apply inf_index_step; [apply (if_seglen _ _ _ _ _ _ _ _ F) | exact X1 | congruence]. }
  rewrite Idx in Ei. rewrite Hops, Hf in Eh.
  repeat split; try assumption.
  rewrite EP in Ei. destruct (folds ing p i); [|exact Ei].
  cbn [with_infos p_infos] in Ei. rewrite nthN_set_other in Ei; [exact Ei | lia].
Qed.

(** ** Stops: which results the individual checks can produce *)
Definition c01_clause (p : pkt) (r : result) : bool := c01_ok macq c now ing p r.

Lemma benign_scmp p ty code ptr e out :
  (ty =? ScmpParameterProblem) && ((code =? CodeInvalidHopFieldMAC) || (code =? CodePathExpired)) = false ->
  c01_clause p (SlowPath (SpScmp ty code ptr) e out) = true.
Proof. intros H. unfold c01_clause, c01_ok. rewrite H. reflexivity. Qed.

(** coherence of the processor's copies with the buffer, as far as the MAC input goes *)
Record coherent (p : pkt) (s : st) : Prop := {
  co_geom : addr_len (s_p s) = addr_len p /\ num_inf (s_p s) = num_inf p /\ num_hops (s_p s) = num_hops p;
  co_hops : p_hops (s_p s) = p_hops p;
  co_hop : nthN (p_hops (s_p s)) (p_curr_hf (s_p s)) = Some (s_hop s);
  co_inf : exists i0, nthN (p_infos (s_p s)) (p_curr_inf (s_p s)) = Some i0 /\
                      i_segid i0 = i_segid (s_inf s) /\ i_ts i0 = i_ts (s_inf s);
  co_len : p_curr_hf (s_p s) < num_hops p
}.

Lemma expiry_stop_clause p s r :
  coherent p s -> validate_hop_expiry now s = Stop r -> c01_clause p r = true.
Proof.
  intros [(G1 & G2 & G3) HP CH (i0 & CI & S1 & S2) CL]. rewrite HP in CH.
  unfold validate_hop_expiry, slow.
  destruct (expired now (s_inf s) (s_hop s)) eqn:E; [|discriminate]. intros [= <-].
  unfold c01_clause, c01_ok. cbn [andb orb N.eqb ScmpParameterProblem CodePathExpired CodeInvalidHopFieldMAC Pos.eqb].
  rewrite CI, CH.
  assert (P : hop_ptr (s_p s) = hop_off p (p_curr_hf (s_p s))).
  { unfold hop_ptr, hop_off, meta_off. rewrite G1, G2. reflexivity. }
  rewrite P, N.eqb_refl. apply N.ltb_lt in CL. rewrite CL. cbn [andb].
  unfold expired in *. rewrite S2. exact E.
Qed.

Lemma mac_stop_clause p s r :
  coherent p s -> verify_current_mac macq s = Stop r -> c01_clause p r = true.
Proof.
  intros [(G1 & G2 & G3) HP CH (i0 & CI & S1 & S2) CL]. rewrite HP in CH.
  unfold verify_current_mac, slow, mac_of, total.
  destruct (list_eqb N.eqb (h_mac (s_hop s)) _) eqn:E; [discriminate|]. intros [= <-].
  unfold c01_clause, c01_ok. cbn [andb orb N.eqb ScmpParameterProblem CodePathExpired CodeInvalidHopFieldMAC Pos.eqb].
  rewrite CI, CH.
  assert (P : hop_ptr (s_p s) = hop_off p (p_curr_hf (s_p s))).
  { unfold hop_ptr, hop_off, meta_off. rewrite G1, G2. reflexivity. }
  rewrite P, N.eqb_refl. apply N.ltb_lt in CL. rewrite CL. cbn [andb].
  unfold total. rewrite S1, S2, E. reflexivity.
Qed.

End C01.

Section C01b.
Variable mac : N -> N -> N -> N -> N -> list N.
Notation macq := (total mac).
Variable c : cfg.
Variable now : N.
Variable ing : ingress.
Notation clause := (c01_clause mac c now ing).
Notation coh := (coherent).

Ltac benign :=
  let H := fresh in
  intros H; inversion H; subst;
  first [ reflexivity | apply benign_scmp; reflexivity ].

Lemma parse_path_clause p r : parse_path p = Stop r -> clause p r = true.
Proof.
  unfold parse_path.
  repeat match goal with
  | |- context [if ?b then _ else _] => destruct b
  | |- context [match ?x with Some _ => _ | None => _ end] => destruct x
  end; benign.
Qed.
Lemma determine_peer_clause p s r : determine_peer s = Stop r -> clause p r = true.
Proof.
  unfold determine_peer.
  repeat match goal with |- context [if ?b then _ else _] => destruct b end; benign.
Qed.
Lemma ingress_id_clause p s r : validate_ingress_id ing s = Stop r -> clause p r = true.
Proof.
  unfold validate_ingress_id, slow. destruct (negb (from0 ing) && _); [|discriminate].
  destruct (i_consdir (s_inf s)); benign.
Qed.
Lemma pkt_len_clause p s r : validate_pkt_len s = Stop r -> clause p r = true.
Proof. unfold validate_pkt_len, slow. destruct (_ =? _); [discriminate | benign]. Qed.
Lemma transit_clause p s r : validate_transit_underlay_src c ing s = Stop r -> clause p r = true.
Proof.
  unfold validate_transit_underlay_src.
  repeat match goal with
  | |- context [if ?b then _ else _] => destruct b
  | |- context [match ?x with Some _ => _ | None => _ end] => destruct x
  end; benign.
Qed.
Lemma src_dst_clause p s r : validate_src_dst_ia c ing s = Stop r -> clause p r = true.
Proof.
  unfold validate_src_dst_ia, resp_invalid_src_ia, resp_invalid_dst_ia, slow.
  repeat match goal with |- context [if ?b then _ else _] => destruct b end; benign.
Qed.
Lemma src_host_clause p s r : validate_src_host c s = Stop r -> clause p r = true.
Proof.
  unfold validate_src_host, slow. destruct (negb _); [discriminate|].
  destruct (parse_host _ _); try benign. destruct (is_4in6 ip); benign.
Qed.
Lemma ingress_alert_clause p s r : handle_ingress_router_alert ing s = Stop r -> clause p r = true.
Proof.
  unfold handle_ingress_router_alert. destruct (from0 ing); [discriminate|].
  destruct (negb _); [discriminate|]. benign.
Qed.
Lemma egress_id_clause p s r : validate_egress_id c ing s = Stop r -> clause p r = true.
Proof.
  unfold validate_egress_id, slow. destruct (validate_egress _ _ _ _); try discriminate;
    try destruct (i_consdir (s_inf s)); benign.
Qed.
Lemma egress_alert_clause p s r : handle_egress_router_alert c s = Stop r -> clause p r = true.
Proof.
  unfold handle_egress_router_alert. destruct (negb _); [discriminate|].
  destruct (negb _); [discriminate|]. benign.
Qed.
Lemma egress_up_clause p s r : validate_egress_up c s = Stop r -> clause p r = true.
Proof.
  unfold validate_egress_up, slow. destruct (if_up _); [discriminate|].
  destruct (scope_eqb _ _); benign.
Qed.
Lemma do_xover_clause p s r : do_xover s = Stop r -> clause p r = true.
Proof.
  unfold do_xover. destruct (nthN (p_hops _) _); [destruct (nthN (p_infos _) _)|]; benign.
Qed.

Lemma coherent_initial p h i pe :
  well_formed p = true ->
  nthN (p_hops p) (p_curr_hf p) = Some h -> nthN (p_infos p) (p_curr_inf p) = Some i ->
  coh p (mkSt p h i pe false 0).
Proof.
  intros W Hh Hi. constructor; cbn; auto.
  - exists i. auto.
  - apply nthN_lt in Hh. unfold well_formed in W. apply andb_true_iff in W as [_ W].
    apply N.eqb_eq in W. lia.
Qed.

Lemma coherent_store_inf p s i' :
  coh p s -> i_ts i' = i_ts (s_inf s) -> coh p (store_inf s i').
Proof.
  intros [G HP CH (i0 & CI & S1 & S2) CL] T. constructor; cbn; auto.
  exists (ser_info i'). split; [eapply nthN_set_same; eassumption|]. auto.
Qed.

Lemma coherent_xover p s h' i' :
  well_formed p = true ->
  coh p s ->
  nthN (p_hops (s_p s)) (p_curr_hf (s_p s) + 1) = Some h' ->
  nthN (p_infos (s_p s)) (inf_index_for_hf (s_p s) (p_curr_hf (s_p s) + 1)) = Some i' ->
  coh p (mkSt (inc_path (s_p s)) h' i' (s_peer s) true (s_eg s)).
Proof.
  intros W [G HP CH CI CL] Hh Hi. constructor; cbn; auto.
  - exists i'. auto.
  - apply nthN_lt in Hh. rewrite HP in Hh. unfold well_formed in W.
    apply andb_true_iff in W as [_ W]. apply N.eqb_eq in W. lia.
Qed.

Lemma ingress_stop_clause p r :
  ingress_part macq c now ing p = Stop r -> clause p r = true.
Proof.
  unfold ingress_part. intros H.
  apply bind_stop in H as [H | (s10 & H & H')]; [| eapply ingress_alert_clause; eassumption].
  apply bind_stop in H as [H | (s9 & H & H')].
  2:{ (* verifyCurrentMAC *)
    eapply mac_stop_clause; [|eassumption].
    apply bind_ok in H as (s8 & H & H9). apply bind_ok in H as (s7 & H & H8).
    apply bind_ok in H as (s6 & H & H7). apply bind_ok in H as (s5 & H & H6).
    apply bind_ok in H as (s4 & H & H5). apply bind_ok in H as (s3 & H & H4).
    apply bind_ok in H as (s2 & H & H3). apply bind_ok in H as (s1 & H1 & H2).
    apply parse_path_ok in H1 as (E1 & Ph & Pi & Pwf & _).
    destruct s1 as [p1 h i pe1 xo1 eg1]. cbn [s_hop s_inf s_p] in *.
    injection E1 as -> -> -> ->.
    apply validate_hop_expiry_ok in H3 as [-> _].
    apply validate_ingress_id_ok in H4 as [-> _].
    apply validate_pkt_len_ok in H5 as [-> _].
    apply validate_transit_ok in H6 as [-> _].
    apply validate_src_dst_ia_ok in H7 as [-> _].
    apply validate_src_host_ok in H8 as ->.
    apply update_segid_ok in H9.
    assert (C2 : coh p s2).
    { apply determine_peer_ok in H2. cbn [s_hop s_inf s_p s_xover s_eg] in H2.
      destruct H2 as [-> | [_ ->]]; apply coherent_initial; assumption. }
    subst s9. destruct (_ && _); [|exact C2].
    apply coherent_store_inf; [exact C2 | reflexivity]. }
  apply bind_stop in H as [H | (s8 & H & H')];
    [| exfalso; unfold update_noncons_ingress_segid in H'; destruct (_ && _) in H'; discriminate H'].
  apply bind_stop in H as [H | (s7 & H & H')]; [| eapply src_host_clause; eassumption].
  apply bind_stop in H as [H | (s6 & H & H')]; [| eapply src_dst_clause; eassumption].
  apply bind_stop in H as [H | (s5 & H & H')]; [| eapply transit_clause; eassumption].
  apply bind_stop in H as [H | (s4 & H & H')]; [| eapply pkt_len_clause; eassumption].
  apply bind_stop in H as [H | (s3 & H & H')]; [| eapply ingress_id_clause; eassumption].
  apply bind_stop in H as [H | (s2 & H & H')].
  2:{ (* validateHopExpiry *)
    eapply expiry_stop_clause; [|eassumption].
    apply bind_ok in H as (s1 & H1 & H2).
    apply parse_path_ok in H1 as (E1 & Ph & Pi & Pwf & _).
    destruct s1 as [p1 h i pe1 xo1 eg1]. cbn [s_hop s_inf s_p] in *.
    injection E1 as -> -> -> ->.
    apply determine_peer_ok in H2. cbn [s_hop s_inf s_p s_xover s_eg] in H2.
    destruct H2 as [-> | [_ ->]]; apply coherent_initial; assumption. }
  apply bind_stop in H as [H | (s1 & H & H')]; [| eapply determine_peer_clause; eassumption].
  eapply parse_path_clause; eassumption.
Qed.

Lemma ingress_coherent p s i h :
  ingress_facts mac c now ing p s i h -> coh p s.
Proof.
  intros F.
  assert (C0 : coh p (mkSt p h i (peering_of p) false 0)).
  { apply coherent_initial; [apply (if_wf _ _ _ _ _ _ _ _ F) | apply (if_hop _ _ _ _ _ _ _ _ F)
                            | apply (if_inf _ _ _ _ _ _ _ _ F)]. }
  destruct s as [sp sh si spe sx se].
  pose proof (if_shop _ _ _ _ _ _ _ _ F) as E1. pose proof (if_sinf _ _ _ _ _ _ _ _ F) as E2.
  pose proof (if_peer _ _ _ _ _ _ _ _ F) as E3. pose proof (if_xover _ _ _ _ _ _ _ _ F) as E4.
  pose proof (if_eg _ _ _ _ _ _ _ _ F) as E5. pose proof (if_pkt _ _ _ _ _ _ _ _ F) as E6.
  cbn in E1, E2, E3, E4, E5, E6. subst sh si spe sx se sp.
  rewrite verif_info_fold. destruct (folds ing p i).
  - apply (coherent_store_inf p (mkSt p h i (peering_of p) false 0) (upd_segid i h) C0). reflexivity.
  - exact C0.
Qed.

Lemma egress_stop_clause p s i h r :
  ingress_facts mac c now ing p s i h ->
  egress_part macq c now ing s = Stop r -> clause p r = true.
Proof.
  intros F. pose proof (ingress_coherent _ _ _ _ F) as C.
  unfold egress_part. intros H.
  apply bind_stop in H as [H | (s0 & H & H')]; [| eapply egress_up_clause; eassumption].
  apply bind_stop in H as [H | (s0 & H & H')]; [| eapply egress_alert_clause; eassumption].
  apply bind_stop in H as [H | (s0 & H & H')]; [| eapply egress_id_clause; eassumption].
  apply bind_stop in H as [H | (s0 & H & H')]; [| unfold set_egress in H'; discriminate H'].
  unfold xover_part in H. destruct (_ && _); [|discriminate].
  apply bind_stop in H as [H | (s2 & H & H')].
  2:{ eapply mac_stop_clause; [|eassumption].
      apply bind_ok in H as (s1 & H1 & H2). apply validate_hop_expiry_ok in H2 as [-> _].
      apply do_xover_ok in H1 as (h' & i' & A & B & ->).
      apply coherent_xover; try assumption. apply (if_wf _ _ _ _ _ _ _ _ F). }
  apply bind_stop in H as [H | (s1 & H & H')]; [eapply do_xover_clause; eassumption|].
  eapply expiry_stop_clause; [|eassumption].
  apply do_xover_ok in H as (h' & i' & A & B & ->).
  apply coherent_xover; try assumption. apply (if_wf _ _ _ _ _ _ _ _ F).
Qed.

Lemma resolve_inbound_clause p s r :
  resolve_inbound c s = r -> not_forward r -> clause p r = true.
Proof.
  unfold resolve_inbound. intros <-.
  destruct (parse_host _ _).
  - destruct (p_l4_port _); [destruct (_ || _)|]; cbn; intros N; try reflexivity; destruct N.
  - destruct (lookup_svc _ _); cbn; intros N; try reflexivity; destruct N.
  - reflexivity.
Qed.

Lemma nonforward_clause p r :
  process_scion macq c now ing p = r -> not_forward r -> clause p r = true.
Proof.
  unfold process_scion.
  destruct (ingress_part macq c now ing p) as [s|r0] eqn:EI.
  2:{ intros <- _. now apply ingress_stop_clause. }
  destruct (ingress_part_ok _ _ _ _ _ _ EI) as (i & h & F).
  destruct (p_dst_ia p =? c_ia c).
  - apply resolve_inbound_clause.
  - destruct (egress_part macq c now ing s) as [s'|r0] eqn:EE.
    + unfold finish, process_egress. intros <-.
      repeat match goal with |- context [if ?b then _ else _] => destruct b end;
        cbn; intros N; try reflexivity; destruct N.
    + intros <- _. eapply egress_stop_clause; eassumption.
Qed.

Lemma c01_ok_model p : c01_ok macq c now ing p (process macq c now ing p) = true.
Proof.
  unfold process.
  destruct (process_scion macq c now ing p) as [| | |e out d| rq e out| |] eqn:E; try reflexivity.
  - (* Forward *)
    destruct (forward_sound _ _ _ _ _ _ _ _ E) as (i & h & A & B & M & L & X).
    unfold c01_ok. unfold cur_inf, cur_hop in A, B |- *. rewrite A, B.
    assert (EV : expired now (verif_info ing p i h) h = expired now i h)
      by (unfold verif_info; destruct (_ && _); reflexivity).
    apply andb_true_iff. split; [apply hop_ok_total; split; [assumption | now rewrite EV]|].
    destruct (negb (p_dst_ia p =? c_ia c) && eff_xover p) eqn:Y; [|reflexivity].
    apply andb_true_iff in Y as [Y1 Y2]. apply negb_true_iff, N.eqb_neq in Y1.
    destruct (X Y1 Y2) as (i' & h' & A' & B' & M' & L'). rewrite A', B'.
    apply hop_ok_total; split; assumption.
  - (* SlowPath *)
    change (clause p (SlowPath rq e out) = true). apply nonforward_clause; [exact E | exact I].
Qed.

(** ** "exactly that SCMP" *)
Lemma expired_answered s :
  expired now (s_inf s) (s_hop s) = true ->
  validate_hop_expiry now s =
    Stop (SlowPath (SpScmp ScmpParameterProblem CodePathExpired (hop_ptr (s_p s))) (s_eg s) (s_p s)).
Proof. unfold validate_hop_expiry, slow. intros ->. reflexivity. Qed.

Lemma bad_mac_answered s :
  h_mac (s_hop s) <> mac (i_segid (s_inf s)) (i_ts (s_inf s)) (h_exp (s_hop s))
                         (h_in (s_hop s)) (h_eg (s_hop s)) ->
  verify_current_mac macq s =
    Stop (SlowPath (SpScmp ScmpParameterProblem CodeInvalidHopFieldMAC (hop_ptr (s_p s)))
                   (s_eg s) (s_p s)).
Proof.
  unfold verify_current_mac, slow, mac_of, total. intros H.
  destruct (list_eqb N.eqb _ _) eqn:E; [|reflexivity].
  apply list_eqb_N in E. contradiction.
Qed.

End C01b.

Section C01c.
Variable mac : N -> N -> N -> N -> N -> list N.
Notation macq := (total mac).
Variable c : cfg.
Variable now : N.
Variable ing : ingress.

Lemma scmp_designates_hop p code ptr e out :
  process_scion macq c now ing p = SlowPath (SpScmp ScmpParameterProblem code ptr) e out ->
  code = CodeInvalidHopFieldMAC \/ code = CodePathExpired ->
  ptr = hop_off p (p_curr_hf out) /\ p_curr_hf out < num_hops p /\
  exists i h, nthN (p_infos out) (p_curr_inf out) = Some i /\
              nthN (p_hops p) (p_curr_hf out) = Some h /\
              (code = CodePathExpired -> expired now i h = true) /\
              (code = CodeInvalidHopFieldMAC -> ~ mac_valid mac i h).
Proof.
  intros E HC. pose proof (c01_ok_model mac c now ing p) as O. unfold process in O.
  rewrite E in O. unfold c01_ok in O.
  assert (T : (ScmpParameterProblem =? ScmpParameterProblem) &&
              ((code =? CodeInvalidHopFieldMAC) || (code =? CodePathExpired)) = true).
  { destruct HC as [-> | ->]; reflexivity. }
  rewrite T in O.
  apply andb_true_iff in O as [O O3]. apply andb_true_iff in O as [O1 O2].
  apply N.eqb_eq in O1. apply N.ltb_lt in O2. split; [exact O1|]. split; [exact O2|].
  destruct (nthN (p_infos out) (p_curr_inf out)) as [i|]; [|discriminate].
  destruct (nthN (p_hops p) (p_curr_hf out)) as [h|]; [|discriminate].
  exists i, h. split; [reflexivity|]. split; [reflexivity|]. split.
  - intros ->. exact O3.
  - intros ->. cbn in O3. unfold total in O3. apply negb_true_iff in O3.
    unfold mac_valid. intros M. rewrite <- M in O3.
    assert (list_eqb N.eqb (h_mac h) (h_mac h) = true) by now apply list_eqb_N.
    congruence.
Qed.

(** when the checks before it pass, an expired / wrongly MACed current hop field is
    answered with exactly that SCMP *)
Lemma expired_exact p s :
  bind (parse_path p) determine_peer = Ok s ->
  expired now (s_inf s) (s_hop s) = true ->
  process_scion macq c now ing p =
    SlowPath (SpScmp ScmpParameterProblem CodePathExpired (hop_ptr (s_p s))) (s_eg s) (s_p s).
Proof.
  intros H X. unfold process_scion, ingress_part. rewrite H. cbn [bind].
  rewrite (expired_answered now s X). reflexivity.
Qed.

Definition upto_mac (p : pkt) : outcome :=
  bind (bind (bind (bind (bind (bind (bind (bind (parse_path p) determine_peer)
    (validate_hop_expiry now)) (validate_ingress_id ing)) validate_pkt_len)
    (validate_transit_underlay_src c ing)) (validate_src_dst_ia c ing)) (validate_src_host c))
    (update_noncons_ingress_segid ing).

Lemma bad_mac_exact p s :
  upto_mac p = Ok s ->
  ~ mac_valid mac (s_inf s) (s_hop s) ->
  process_scion macq c now ing p =
    SlowPath (SpScmp ScmpParameterProblem CodeInvalidHopFieldMAC (hop_ptr (s_p s))) (s_eg s) (s_p s).
Proof.
  intros H X. unfold process_scion, ingress_part. unfold upto_mac in H. rewrite H. cbn [bind].
  rewrite (bad_mac_answered mac s X). reflexivity.
Qed.

End C01c.

(** * C07 *)
Inductive pw (R : N -> info -> info -> Prop) : N -> list info -> list info -> Prop :=
| pw_nil k : pw R k [] []
| pw_cons k x y l l' : R k x y -> pw R (k + 1) l l' -> pw R k (x :: l) (y :: l').

Lemma pw_refl (R : N -> info -> info -> Prop) : (forall k x, R k x x) -> forall l k, pw R k l l.
Proof. intros H. induction l; intros k; constructor; auto. Qed.

Lemma pw_set (R : N -> info -> info -> Prop) l : forall l' k0 n x y,
  pw R k0 l l' -> nth_error l n = Some x -> R (k0 + N.of_nat n) x y ->
  pw R k0 l (set_nth l' n y).
Proof.
  induction l as [|a t IH]; intros l' k0 n x y P Hn Hr.
  - destruct n; discriminate.
  - inversion P as [|k a' b t' t'' Hab Pt]; subst. destruct n as [|n]; cbn in *.
    + injection Hn as ->. constructor; [|exact Pt]. now rewrite N.add_0_r in Hr.
    + constructor; [exact Hab|]. eapply IH; eauto.
      replace (k0 + 1 + N.of_nat n) with (k0 + N.of_nat (S n)) by lia. exact Hr.
Qed.

Lemma pw_setN (R : N -> info -> info -> Prop) l l' n x y :
  pw R 0 l l' -> nthN l n = Some x -> R n x y -> pw R 0 l (set_nthN l' n y).
Proof.
  unfold nthN, set_nthN. intros P Hn Hr. eapply pw_set; eauto.
  cbn. now rewrite N2Nat.id.
Qed.

(** how an info field may have been rewritten *)
Definition step_rel (p : pkt) (k : N) (x y : info) : Prop :=
  y = x \/
  (seg_changeable p k = true /\
   exists h, (nthN (p_hops p) (p_curr_hf p) = Some h \/ nthN (p_hops p) (p_curr_hf p + 1) = Some h) /\
             y = ser_info (upd_segid x h)).

Lemma step_rel_refl p k x : step_rel p k x x.
Proof. now left. Qed.

Record same_static (p q : pkt) : Prop := {
  ss1 : p_dst_ia q = p_dst_ia p; ss2 : p_src_ia q = p_src_ia p;
  ss3 : p_dst_type q = p_dst_type p; ss4 : p_src_type q = p_src_type p;
  ss5 : p_dst_raw q = p_dst_raw p; ss6 : p_src_raw q = p_src_raw p;
  ss7 : p_pay_len q = p_pay_len p; ss8 : p_pay_actual q = p_pay_actual p;
  ss9 : p_l4_port q = p_l4_port p;
  ss10 : p_seg0 q = p_seg0 p; ss11 : p_seg1 q = p_seg1 p; ss12 : p_seg2 q = p_seg2 p;
  ss13 : p_hops q = p_hops p;
  ss14 : p_meta_rsv q = p_meta_rsv p \/ p_meta_rsv q = 0
}.

(** the shape of a forwarded packet relative to the received one *)
Record out_shape (p out : pkt) : Prop := {
  os_static : same_static p out;
  os_infos : pw (step_rel p) 0 (p_infos p) (p_infos out);
  os_ptr : (p_curr_hf out = p_curr_hf p /\ p_curr_inf out = p_curr_inf p /\
            p_meta_rsv out = p_meta_rsv p) \/
           ((p_curr_hf out = p_curr_hf p + 1 \/ p_curr_hf out = p_curr_hf p + 2) /\
            p_curr_inf out = inf_index_for_hf p (p_curr_hf out))
}.

Section C07.
Variable mac : N -> N -> N -> N -> N -> list N.
Notation macq := (total mac).
Variable c : cfg.
Variable now : N.
Variable ing : ingress.

Lemma ci_changeable p : seg_changeable p (p_curr_inf p) = true.
Proof. unfold seg_changeable. now rewrite N.eqb_refl. Qed.

Lemma ci1_changeable p : eff_xover p = true -> seg_changeable p (p_curr_inf p + 1) = true.
Proof. unfold seg_changeable. intros ->. rewrite N.eqb_refl. now rewrite orb_true_r. Qed.

(** infos after the ingress part *)
Lemma ingress_infos p s i h :
  ingress_facts mac c now ing p s i h ->
  pw (step_rel p) 0 (p_infos p) (p_infos (s_p s)).
Proof.
  intros F. rewrite (if_pkt _ _ _ _ _ _ _ _ F). destruct (folds ing p i).
  - cbn [with_infos p_infos]. eapply pw_setN.
    + apply pw_refl. apply step_rel_refl.
    + apply (if_inf _ _ _ _ _ _ _ _ F).
    + right. split; [apply ci_changeable|]. exists h. split; [|reflexivity].
      left. apply (if_hop _ _ _ _ _ _ _ _ F).
  - apply pw_refl. apply step_rel_refl.
Qed.

Lemma ingress_static p s i h :
  ingress_facts mac c now ing p s i h ->
  same_static p (s_p s) /\ p_curr_hf (s_p s) = p_curr_hf p /\ p_curr_inf (s_p s) = p_curr_inf p /\
  p_meta_rsv (s_p s) = p_meta_rsv p.
Proof.
  intros F. rewrite (if_pkt _ _ _ _ _ _ _ _ F).
  destruct (folds ing p i); (split; [constructor; auto | auto]).
Qed.

Lemma xover_next p s i h s' :
  ingress_facts mac c now ing p s i h -> egress_facts mac c now ing s s' ->
  if eff_xover p then
    exists i' h', nthN (p_infos p) (p_curr_inf p + 1) = Some i' /\
                  nthN (p_hops p) (p_curr_hf p + 1) = Some h' /\
                  s_p s' = inc_path (s_p s) /\ s_hop s' = h' /\ s_inf s' = i' /\
                  p_curr_inf (s_p s') = p_curr_inf p + 1 /\ i_peer i = false
  else s_p s' = s_p s /\ s_hop s' = h /\ s_inf s' = verif_info ing p i h.
Proof.
  intros F G. pose proof (ef_x _ _ _ _ _ _ G) as EX.
  rewrite (xover_cond_eff _ _ _ _ _ _ _ _ F) in EX.
  destruct (eff_xover p) eqn:X.
  - destruct EX as (h' & i' & Eh & Ei & EP' & EH & EI & _).
    pose proof (if_pkt _ _ _ _ _ _ _ _ F) as EP.
    assert (Hops : p_hops (s_p s) = p_hops p) by (rewrite EP; destruct (folds ing p i); reflexivity).
    assert (Hf : p_curr_hf (s_p s) = p_curr_hf p) by (rewrite EP; destruct (folds ing p i); reflexivity).
    assert (E : inf_index_for_hf (s_p s) (p_curr_hf (s_p s) + 1) = inf_index_for_hf p (p_curr_hf p + 1))
      by (rewrite EP; destruct (folds ing p i); reflexivity).
    assert (Idx : inf_index_for_hf p (p_curr_hf p + 1) = p_curr_inf p + 1).
    { unfold eff_xover in X. apply andb_true_iff in X as [X _].
      unfold is_xover in X. apply andb_true_iff in X as [X1 X2].
      apply N.ltb_lt in X1. apply negb_true_iff, N.eqb_neq in X2.
      rewrite (if_match _ _ _ _ _ _ _ _ F) in X2 |- *.
      apply inf_index_step; [apply (if_seglen _ _ _ _ _ _ _ _ F) | exact X1 | congruence]. }
    rewrite E, Idx in Ei. rewrite Hops, Hf in Eh.
    exists i', h'. split.
    { rewrite EP in Ei. destruct (folds ing p i); [|exact Ei].
      cbn [with_infos p_infos] in Ei. rewrite nthN_set_other in Ei; [exact Ei | lia]. }
    split; [exact Eh|]. split; [exact EP'|]. split; [exact EH|]. split; [exact EI|]. split.
    { rewrite EP'. cbn. rewrite E. exact Idx. }
    (* an effective cross-over happens on a segment without the peer flag *)
    destruct (i_peer i) eqn:PF; [|reflexivity]. exfalso.
    unfold eff_xover, peering_of in X. apply andb_true_iff in X as [X1 X2].
    pose proof (if_inf _ _ _ _ _ _ _ _ F) as CI. unfold cur_inf in CI. rewrite CI, PF in X2.
    cbn [andb] in X2. apply negb_true_iff, orb_false_iff in X2 as [X2 X3].
    apply N.eqb_neq in X2, X3.
    destruct (if_peerseg _ _ _ _ _ _ _ _ F PF) as (Z0 & Z1 & Z2).
    unfold is_xover in X1. apply andb_true_iff in X1 as [X1 X4].
    apply N.ltb_lt in X1. apply negb_true_iff, N.eqb_neq in X4.
    rewrite (if_match _ _ _ _ _ _ _ _ F) in X4.
    unfold inf_index_for_hf, num_hops in *. rewrite Z2 in *.
    destruct (p_curr_hf p + 1 <? p_seg0 p) eqn:A1; destruct (p_curr_hf p <? p_seg0 p) eqn:A2;
      destruct (p_curr_hf p + 1 <? p_seg0 p + p_seg1 p) eqn:A3;
      destruct (p_curr_hf p <? p_seg0 p + p_seg1 p) eqn:A4;
      rewrite ?N.ltb_lt, ?N.ltb_ge in *; try lia.
  - destruct EX as (A & B & C0 & _). split; [exact A|]. split.
    + rewrite B. apply (if_shop _ _ _ _ _ _ _ _ F).
    + rewrite C0. apply (if_sinf _ _ _ _ _ _ _ _ F).
Qed.

End C07.

Section C07b.
Variable mac : N -> N -> N -> N -> N -> list N.
Notation macq := (total mac).
Variable c : cfg.
Variable now : N.
Variable ing : ingress.

Lemma same_static_inc p q : same_static p q -> same_static p (inc_path q).
Proof. intros [? ? ? ? ? ? ? ? ? ? ? ? ? ?]. constructor; cbn; auto. Qed.

Lemma same_static_infos p q l : same_static p q -> same_static p (with_infos q l).
Proof. intros [? ? ? ? ? ? ? ? ? ? ? ? ? ?]. constructor; cbn; auto. Qed.

Lemma inf_index_static p q hf :
  same_static p q -> inf_index_for_hf q hf = inf_index_for_hf p hf.
Proof. intros S. unfold inf_index_for_hf. now rewrite (ss10 _ _ S), (ss11 _ _ S). Qed.

Lemma inc_ptr p q :
  same_static p q ->
  p_curr_hf (inc_path q) = p_curr_hf q + 1 /\
  p_curr_inf (inc_path q) = inf_index_for_hf p (p_curr_hf q + 1).
Proof.
  intros S. split; [reflexivity|]. cbn [inc_path with_meta p_curr_inf]. now apply inf_index_static.
Qed.

Lemma forward_shape p e out d :
  process_scion macq c now ing p = Forward e out d -> out_shape p out.
Proof.
  intros H. apply process_forward_inv in H as (s & i & h & F & D).
  destruct (ingress_static _ _ _ _ _ _ _ _ F) as (SS & Ehf & Eci & Ersv).
  pose proof (ingress_infos _ _ _ _ _ _ _ _ F) as PI.
  destruct D as [(_ & _ & -> & _) | (_ & _ & s' & G & _ & OUT)].
  { constructor; auto. }
  pose proof (xover_next _ _ _ _ _ _ _ _ _ F G) as XN.
  destruct (eff_xover p) eqn:X.
  - (* effective cross-over *)
    destruct XN as (i' & h' & Ni & Nh & EP' & EH & EI & ECI & _).
    assert (SS' : same_static p (s_p s')) by (rewrite EP'; now apply same_static_inc).
    assert (PI' : pw (step_rel p) 0 (p_infos p) (p_infos (s_p s'))) by (rewrite EP'; exact PI).
    destruct (inc_ptr p (s_p s) SS) as [A1 A2]. rewrite <- EP', Ehf in A1, A2.
    destruct (scope_eqb _ _).
    + destruct OUT as [-> _]. unfold forward_out.
      destruct (i_consdir (s_inf s') && negb (s_peer s')).
      * cbn [store_inf s_p].
        set (q := with_infos (s_p s') _).
        assert (SQ : same_static p q) by (apply same_static_infos, SS').
        destruct (inc_ptr p q SQ) as [B1 B2]. change (p_curr_hf q) with (p_curr_hf (s_p s')) in B1, B2.
        constructor.
        -- now apply same_static_inc.
        -- subst q. cbn [inc_path with_meta with_infos p_infos]. rewrite ECI.
           eapply pw_setN; [exact PI' | exact Ni |].
           right. split; [now apply ci1_changeable|]. exists h'. split; [now right|].
           rewrite EI, EH. reflexivity.
        -- right. rewrite B2, B1, A1. split; [right; lia | reflexivity].
      * destruct (inc_ptr p (s_p s') SS') as [B1 B2].
        constructor.
        -- now apply same_static_inc.
        -- exact PI'.
        -- right. rewrite B2, B1, A1. split; [right; lia | reflexivity].
    + subst out. constructor; auto. right. rewrite A2, A1. split; [now left | reflexivity].
  - (* same segment (or peering hop) *)
    destruct XN as (EP' & EH & EI).
    destruct (scope_eqb _ _).
    + destruct OUT as [-> _]. unfold forward_out.
      destruct (i_consdir (s_inf s') && negb (s_peer s')) eqn:U.
      * cbn [store_inf s_p]. rewrite EP'.
        (* in construction direction nothing was folded in on ingress *)
        assert (NF : folds ing p i = false).
        { rewrite EI in U. apply andb_true_iff in U as [U _].
          unfold folds. destruct (i_consdir i) eqn:CD; [reflexivity|].
          unfold verif_info in U. rewrite CD in U.
          destruct (negb false && _ && _) in U; cbn in U; rewrite ?CD in U; discriminate. }
        pose proof (if_pkt _ _ _ _ _ _ _ _ F) as EP. rewrite NF in EP. rewrite EP.
        set (q := with_infos p _).
        assert (SQ : same_static p q) by (apply same_static_infos; constructor; auto).
        destruct (inc_ptr p q SQ) as [B1 B2]. change (p_curr_hf q) with (p_curr_hf p) in B1, B2.
        constructor.
        -- now apply same_static_inc.
        -- subst q. cbn [inc_path with_meta with_infos p_infos].
           eapply pw_setN; [apply pw_refl, step_rel_refl | apply (if_inf _ _ _ _ _ _ _ _ F) |].
           right. split; [apply ci_changeable|]. exists h. split; [left; apply (if_hop _ _ _ _ _ _ _ _ F)|].
           rewrite EI, EH, verif_info_fold, NF. reflexivity.
        -- right. rewrite B2, B1. split; [now left | reflexivity].
      * rewrite EP'. destruct (inc_ptr p (s_p s) SS) as [B1 B2]. rewrite Ehf in B1, B2.
        constructor.
        -- now apply same_static_inc.
        -- exact PI.
        -- right. rewrite B2, B1. split; [now left | reflexivity].
    + subst out. rewrite EP'. constructor; auto.
Qed.

End C07b.

Lemma hop_eqb_refl h : hop_eqb h h = true.
Proof.
  unfold hop_eqb. rewrite !eqb_reflx, !N.eqb_refl.
  assert (list_eqb N.eqb (h_mac h) (h_mac h) = true) as -> by now apply list_eqb_N.
  reflexivity.
Qed.

Lemma hops_eqb_refl l : list_eqb hop_eqb l l = true.
Proof. induction l; cbn; [reflexivity|]. now rewrite hop_eqb_refl. Qed.

Lemma info_frame_refl b x : info_frame b x x = true.
Proof. unfold info_frame. rewrite !eqb_reflx, !N.eqb_refl. now rewrite orb_true_r. Qed.

Definition rsv0 (l : list info) : bool := forallb (fun i => i_rsv i =? 0) l.

Lemma pw_infos_frame p : forall k l l',
  pw (step_rel p) k l l' -> rsv0 l = true -> infos_frame (seg_changeable p) k l l' = true.
Proof.
  intros k l l' P. induction P as [|k x y l l' R P IH]; [reflexivity|].
  cbn. intros Z. apply andb_true_iff in Z as [Z1 Z2]. rewrite (IH Z2), andb_true_r.
  destruct R as [-> | (Ch & h & _ & ->)]; [apply info_frame_refl|].
  unfold info_frame. cbn. rewrite Ch, !eqb_reflx, N.eqb_refl. apply N.eqb_eq in Z1.
  rewrite Z1. reflexivity.
Qed.

Lemma pw_segids p : forall k l l', pw (step_rel p) k l l' -> segids_ok p l l' = true.
Proof.
  intros k l l' P. induction P as [|k x y l l' R P IH]; [reflexivity|].
  cbn. rewrite IH, andb_true_r. unfold segid_step_ok.
  destruct R as [-> | (_ & h & Hh & ->)]; [now rewrite N.eqb_refl|].
  apply orb_true_iff. right. cbn [i_segid ser_info upd_segid].
  apply existsb_exists. exists h. split; [|apply N.eqb_refl].
  apply in_or_app. destruct Hh as [-> | ->]; [left | right]; now left.
Qed.

Lemma pw_infos_diff p : forall k l l',
  pw (step_rel p) k l l' -> rsv0 l = true ->
  forallb (fun o => memN o (allowed_offsets p)) (infos_diff p k l l') = true.
Proof.
  intros k l l' P. induction P as [|k x y l l' R P IH]; [reflexivity|].
  cbn [infos_diff rsv0 forallb]. intros Z. apply andb_true_iff in Z as [Z1 Z2].
  rewrite !forallb_app, (IH Z2), andb_true_r.
  destruct R as [-> | (Ch & h & _ & ->)].
  - now rewrite !N.eqb_refl.
  - cbn [i_rsv ser_info]. apply N.eqb_eq in Z1. rewrite Z1. cbn [N.eqb forallb andb].
    rewrite andb_true_r.
    destruct (i_segid x =? _); [reflexivity|]. cbn [forallb]. rewrite andb_true_r.
    unfold seg_changeable in Ch. unfold allowed_offsets, memN.
    apply orb_true_iff in Ch as [Ch | Ch].
    + apply N.eqb_eq in Ch. subst k. cbn [existsb app]. rewrite !N.eqb_refl.
      now rewrite !orb_true_r.
    + apply andb_true_iff in Ch as [X Ch]. apply N.eqb_eq in Ch. subst k. rewrite X.
      cbn [existsb app]. rewrite !N.eqb_refl. now rewrite !orb_true_r.
Qed.

Section C07c.
Variable mac : N -> N -> N -> N -> N -> list N.
Notation macq := (total mac).
Variable c : cfg.
Variable now : N.
Variable ing : ingress.

Lemma rsv_clear_split p : rsv_clear p = true -> p_meta_rsv p = 0 /\ rsv0 (p_infos p) = true.
Proof. unfold rsv_clear. intros H. apply andb_true_iff in H as [A B]. apply N.eqb_eq in A. auto. Qed.

Lemma shape_frame p out : out_shape p out -> rsv_clear p = true -> frame_ok p out = true.
Proof.
  intros [S PI _] R. destruct (rsv_clear_split _ R) as [R1 R2].
  unfold frame_ok.
  assert (p_meta_rsv out = p_meta_rsv p) as -> by (destruct (ss14 _ _ S); congruence).
  rewrite (ss1 _ _ S), (ss2 _ _ S), (ss3 _ _ S), (ss4 _ _ S), (ss5 _ _ S), (ss6 _ _ S),
    (ss7 _ _ S), (ss8 _ _ S), (ss9 _ _ S), (ss10 _ _ S), (ss11 _ _ S), (ss12 _ _ S), (ss13 _ _ S).
  rewrite !N.eqb_refl, hops_eqb_refl, (pw_infos_frame _ _ _ _ PI R2).
  assert (forall l, list_eqb N.eqb l l = true) as L by (intros; now apply list_eqb_N).
  rewrite !L. destruct (p_l4_port p); cbn; rewrite ?N.eqb_refl; reflexivity.
Qed.

Lemma shape_exact p out : out_shape p out -> exact_ok p out = true.
Proof.
  intros [_ PI PT]. unfold exact_ok. rewrite (pw_segids _ _ _ _ PI), andb_true_r.
  destruct PT as [(A & B & _) | ([A | A] & B)].
  - rewrite A, B, !N.eqb_refl. reflexivity.
  - rewrite A in B. rewrite A, B, !N.eqb_refl. cbn. now rewrite orb_true_r.
  - rewrite A in B. rewrite A, B, !N.eqb_refl. cbn. now rewrite !orb_true_r.
Qed.

Lemma shape_offsets p out :
  out_shape p out -> rsv_clear p = true ->
  forallb (fun o => memN o (allowed_offsets p)) (record_diff_offsets p out) = true.
Proof.
  intros [S PI PT] R. destruct (rsv_clear_split _ R) as [R1 R2]. unfold record_diff_offsets.
  rewrite !forallb_app, (pw_infos_diff _ _ _ _ PI R2), andb_true_r.
  assert (p_meta_rsv out = p_meta_rsv p) as -> by (destruct (ss14 _ _ S); congruence).
  rewrite N.eqb_refl. cbn [forallb andb]. rewrite andb_true_r.
  destruct (_ && _); [reflexivity|]. cbn [forallb]. rewrite andb_true_r.
  unfold allowed_offsets, memN. cbn [app existsb]. now rewrite N.eqb_refl.
Qed.

Lemma c07_ok_model_except_known p len :
  rsv_clear p = true ->
  match process macq c now ing p with
  | Forward e out d =>
    c07_ok p (Forward e out d) (record_diff_offsets p out) len len = true
  | r => c07_ok p r [] len len = true
  end.
Proof.
  intros R. unfold process. destruct (process_scion macq c now ing p) eqn:E; try reflexivity.
  pose proof (forward_shape _ _ _ _ _ _ _ _ E) as Sh. unfold c07_ok.
  rewrite (shape_frame _ _ Sh R), (shape_exact _ _ Sh), N.eqb_refl, (shape_offsets _ _ Sh R).
  reflexivity.
Qed.

End C07c.

Lemma pw_nth (R : N -> info -> info -> Prop) : forall l l' k0 n x y,
  pw R k0 l l' -> nth_error l n = Some x -> nth_error l' n = Some y -> R (k0 + N.of_nat n) x y.
Proof.
  induction l as [|a t IH]; intros l' k0 n x y P Hx Hy.
  - destruct n; discriminate.
  - inversion P as [|k a' b t' t'' Hab Pt]; subst. destruct n as [|n]; cbn in *.
    + injection Hx as ->. injection Hy as ->. now rewrite N.add_0_r.
    + replace (k0 + N.pos (Pos.of_succ_nat n)) with (k0 + 1 + N.of_nat n) by lia. eapply IH; eauto.
Qed.

Lemma pw_length (R : N -> info -> info -> Prop) : forall l l' k, pw R k l l' -> length l' = length l.
Proof. induction l; intros l' k P; inversion P; subst; cbn; [reflexivity | f_equal; eauto]. Qed.

Lemma shape_infos p out k x y :
  out_shape p out -> nthN (p_infos p) k = Some x -> nthN (p_infos out) k = Some y ->
  i_peer y = i_peer x /\ i_consdir y = i_consdir x /\ i_ts y = i_ts x /\
  (seg_changeable p k = false -> y = x).
Proof.
  intros [_ PI _] Hx Hy. unfold nthN in *.
  pose proof (pw_nth _ _ _ _ _ _ _ PI Hx Hy) as R. cbn in R. rewrite N2Nat.id in R.
  destruct R as [-> | (Ch & h & _ & ->)]; [auto|].
  cbn. repeat split; try reflexivity. congruence.
Qed.
