(** Lemmas about Model/RouterBfd.v: the fast path depends on the BFD sessions
    only through the up flag of the egress interface, consulted at one point. *)
From Coq Require Import List NArith Bool Lia.
From Scion Require Import Lib.Check Model.BFD Model.Router Model.RouterOHP Model.RouterBfd Proofs.BFD Proofs.Router.
Import ListNotations.
Import Scion.Model.Router.Router.
Import Scion.Model.RouterBfd.RouterBfd.
Local Open Scope N_scope.

(** * Generic *)
Lemma bind_congr o o' f g :
  o = o' -> (forall s, f s = g s) -> bind o f = bind o' g.
Proof. intros <- H. destruct o; cbn; [apply H | reflexivity]. Qed.

Lemma list_eqb_N_refl l : list_eqb N.eqb l l = true.
Proof. now apply list_eqb_N. Qed.

(** * Sessions *)
Lemma find_sess_step_same ls l o :
  find_sess (step_links ls l o) l = option_map (fun s => BFD.step s o) (find_sess ls l).
Proof.
  induction ls as [|[k s] t IH]; cbn [step_links find_sess option_map]; [reflexivity|].
  destruct (k =? l) eqn:E; cbn [find_sess]; rewrite E; [reflexivity | exact IH].
Qed.

Lemma find_sess_step_other ls l k o :
  k <> l -> find_sess (step_links ls l o) k = find_sess ls k.
Proof.
  intros NE. induction ls as [|[j s] t IH]; cbn [step_links find_sess]; [reflexivity|].
  destruct (j =? l) eqn:E; cbn [find_sess].
  - apply N.eqb_eq in E. subst j. assert (l =? k = false) as -> by (apply N.eqb_neq; congruence).
    reflexivity.
  - destruct (j =? k); [reflexivity | exact IH].
Qed.

Lemma links_after_app ls a b : links_after ls (a ++ b) = links_after (links_after ls a) b.
Proof. unfold links_after. apply fold_left_app. Qed.

(** the session of a link after a history is its session run over the BFD events of that link *)
Lemma find_sess_after evs : forall ls l,
  find_sess (links_after ls evs) l =
  option_map (fun s => BFD.run s (ops_on l evs)) (find_sess ls l).
Proof.
  induction evs as [|e t IH]; intros ls l.
  - cbn. destruct (find_sess ls l); reflexivity.
  - change (links_after ls (e :: t)) with (links_after (links_step ls e) t). rewrite IH.
    destruct e as [k o | now ing p]; cbn [links_step ops_on]; [|reflexivity].
    destruct (k =? l) eqn:E.
    + apply N.eqb_eq in E. subst k. rewrite find_sess_step_same.
      destruct (find_sess ls l); reflexivity.
    + apply N.eqb_neq in E. rewrite find_sess_step_other by congruence. reflexivity.
Qed.

Lemma no_session_after evs ls l :
  find_sess ls l = None -> find_sess (links_after ls evs) l = None.
Proof. intros H. rewrite find_sess_after, H. reflexivity. Qed.

Lemma link_up_no_session ls l : find_sess ls l = None -> link_up ls l = true.
Proof. unfold link_up. now intros ->. Qed.

Lemma link_up_session ls l s :
  find_sess ls l = Some s -> link_up ls l = true <-> BFD.local s = BFD.Up.
Proof.
  unfold link_up. intros ->. destruct (BFD.local s); cbn; split; intros; congruence.
Qed.

(** * Histories *)
Section Hist.
Variable macq : N -> N -> N -> N -> N -> option (list N).
Variable c : cfg.

Lemma run_history_app pre : forall ls post,
  run_history macq c ls (pre ++ post) =
  run_history macq c ls pre ++ run_history macq c (links_after ls pre) post.
Proof.
  induction pre as [|e t IH]; intros ls post; [reflexivity|].
  destruct e as [l o | now ing p]; cbn [app run_history].
  - rewrite IH. reflexivity.
  - rewrite IH. reflexivity.
Qed.

Lemma run_history_length pre : forall ls,
  length (run_history macq c ls pre) = count_pkts pre.
Proof.
  induction pre as [|e t IH]; intros ls; [reflexivity|].
  destruct e; cbn [run_history count_pkts length]; rewrite IH; reflexivity.
Qed.

(** the result of a data packet anywhere in a history *)
Lemma run_history_nth ls pre now ing p post :
  nth_error (run_history macq c ls (pre ++ EvPkt now ing p :: post)) (count_pkts pre) =
  Some (process_at macq c (links_after ls pre) now ing p).
Proof.
  rewrite run_history_app, nth_error_app2 by (rewrite run_history_length; lia).
  rewrite run_history_length, PeanoNat.Nat.sub_diag. reflexivity.
Qed.
End Hist.

(** * The configuration seen under given session states *)
Lemma set_up_internal ls : set_up ls internal_if = internal_if.
Proof. reflexivity. Qed.

Lemma find_if_map ls l id :
  find_if (map (set_up ls) l) id = option_map (set_up ls) (find_if l id).
Proof.
  induction l as [|f t IH]; cbn [map find_if option_map]; [reflexivity|].
  cbn [set_up if_id]. destruct (if_id f =? id); [reflexivity | exact IH].
Qed.

Lemma get_if_cfg_at c ls id :
  get_if (cfg_at c ls) id = option_map (set_up ls) (get_if c id).
Proof.
  unfold get_if. cbn [cfg_at c_ifs]. destruct (id =? 0); [reflexivity | apply find_if_map].
Qed.

Lemma lt_of_cfg_at c ls id : lt_of (cfg_at c ls) id = lt_of c id.
Proof. unfold lt_of. rewrite get_if_cfg_at. destruct (get_if c id); reflexivity. Qed.

Lemma validate_egress_set_up ls f0 ilt o x :
  validate_egress f0 ilt (option_map (set_up ls) o) x = validate_egress f0 ilt o x.
Proof. destruct o; reflexivity. Qed.

Lemma egress_if_cfg_at c ls s : egress_if (cfg_at c ls) s = set_up ls (egress_if c s).
Proof.
  unfold egress_if. rewrite get_if_cfg_at. destruct (get_if c (s_eg s)); reflexivity.
Qed.

Lemma find_if_id l id f : find_if l id = Some f -> if_id f = id.
Proof.
  induction l as [|g t IH]; cbn [find_if]; [discriminate|].
  destruct (if_id g =? id) eqn:E; [|exact IH]. intros [= <-]. now apply N.eqb_eq.
Qed.

Lemma get_if_id c id f : get_if c id = Some f -> if_id f = id.
Proof.
  unfold get_if. destruct (id =? 0) eqn:E.
  - intros [= <-]. apply N.eqb_eq in E. now subst.
  - apply find_if_id.
Qed.

(** * The fast path around [validateEgressUp] (any configuration) *)
Section Split.
Variable macq : N -> N -> N -> N -> N -> option (list N).
Variable c : cfg.
Variable now : N.
Variable ing : ingress.

(** [process()] = everything before [validateEgressUp], then [validateEgressUp], then the rest *)
Lemma process_split p :
  process_scion macq c now ing p =
  match up_check_state macq c now ing p with
  | Some s => match validate_egress_up c s with Ok s' => finish c s' | Stop r => r end
  | None => no_up_check macq c now ing p
  end.
Proof.
  unfold process_scion, up_check_state, no_up_check.
  destruct (ingress_part macq c now ing p) as [s|r]; [|reflexivity].
  destruct (p_dst_ia p =? c_ia c); [reflexivity|].
  change (egress_part macq c now ing s) with (before_up macq c now ing s >>= validate_egress_up c).
  destruct (before_up macq c now ing s) as [s'|r]; reflexivity.
Qed.

Lemma no_up_check_some p s :
  up_check_state macq c now ing p = Some s -> no_up_check macq c now ing p = finish c s.
Proof.
  unfold up_check_state, no_up_check.
  destruct (ingress_part macq c now ing p) as [s0|r]; [|discriminate].
  destruct (p_dst_ia p =? c_ia c); [discriminate|].
  destruct (before_up macq c now ing s0) as [s'|r]; [|discriminate].
  now intros [= ->].
Qed.

(** * What is known at the up check *)
Lemma xover_part_nf_gen s r : xover_part macq now s = Stop r -> not_forward r.
Proof.
  unfold xover_part. destruct (_ && _); [|discriminate]. intros H.
  apply bind_stop in H as [H | (s2 & H & H')]; [| eapply verify_mac_nf; eassumption].
  apply bind_stop in H as [H | (s1 & H & H')]; [| eapply validate_hop_expiry_nf; eassumption].
  eapply do_xover_nf; eassumption.
Qed.

Lemma before_up_nf s r : before_up macq c now ing s = Stop r -> not_forward r.
Proof.
  unfold before_up. intros H.
  apply bind_stop in H as [H | (s0 & H & H')]; [| eapply egress_alert_nf; eassumption].
  apply bind_stop in H as [H | (s0 & H & H')]; [| eapply validate_egress_id_nf; eassumption].
  apply bind_stop in H as [H | (s0 & H & H')]; [| discriminate].
  eapply xover_part_nf_gen; eassumption.
Qed.

Lemma egress_zero_rejected f0 ilt x : validate_egress f0 ilt (get_if c 0) x <> EgOk.
Proof. cbn. destruct f0, ilt, x; cbn; discriminate. Qed.

Record up_facts (s : st) : Prop := {
  uf_eg : s_eg s = egress_interface s;
  uf_adm : validate_egress (from0 ing) (lt_of c (ing_ifid ing)) (get_if c (s_eg s)) (s_xover s) = EgOk;
  uf_if : get_if c (s_eg s) = Some (egress_if c s);
  uf_id : if_id (egress_if c s) = s_eg s;
  uf_nz : s_eg s <> 0;
  uf_alert : egress_alert s = false \/ if_scope (egress_if c s) <> External
}.

Lemma before_up_ok s0 s : before_up macq c now ing s0 = Ok s -> up_facts s.
Proof.
  unfold before_up. intros H.
  apply bind_ok in H as (s3 & H & H4). apply bind_ok in H as (s2 & H & H3).
  apply bind_ok in H as (s1 & H1 & H2).
  unfold set_egress in H2. injection H2 as <-.
  apply validate_egress_id_ok in H3 as [-> H3].
  apply egress_alert_ok in H4 as [-> H4].
  assert (NZ : egress_interface s1 <> 0).
  { intros Z. cbn [s_eg s_xover] in H3. rewrite Z in H3. now apply egress_zero_rejected in H3. }
  assert (G : exists f, get_if c (egress_interface s1) = Some f).
  { cbn [s_eg] in H3. destruct (get_if c (egress_interface s1)) as [f|]; [eauto | discriminate]. }
  destruct G as [f G].
  assert (EI : forall x, egress_if c (mkSt (s_p s1) (s_hop s1) (s_inf s1) (s_peer s1) x (egress_interface s1)) = f)
    by (intros x; unfold egress_if; cbn [s_eg]; now rewrite G).
  constructor; cbn [s_eg s_xover] in *; try assumption.
  - reflexivity.
  - rewrite EI. exact G.
  - rewrite EI. now apply get_if_id in G.
Qed.

Lemma up_check_state_facts p s : up_check_state macq c now ing p = Some s -> up_facts s.
Proof.
  unfold up_check_state.
  destruct (ingress_part macq c now ing p) as [s0|r]; [|discriminate].
  destruct (p_dst_ia p =? c_ia c); [discriminate|].
  destruct (before_up macq c now ing s0) as [s'|r] eqn:B; [|discriminate].
  intros [= <-]. eapply before_up_ok; eassumption.
Qed.

(** * Forwarding without an underlay destination happens only after the up check *)
Lemma resolve_inbound_dst s e out d : resolve_inbound c s = Forward e out d -> d <> None.
Proof.
  unfold resolve_inbound. destruct (parse_host _ _); try discriminate.
  - destruct (p_l4_port (s_p s)); [|discriminate]. destruct (_ || _); [discriminate|].
    intros [= <- <- <-]. discriminate.
  - destruct (lookup_svc _ _); [|discriminate]. intros [= <- <- <-]. discriminate.
Qed.

Lemma finish_forward s e out d : finish c s = Forward e out d -> e = s_eg s /\ d = None.
Proof.
  unfold finish. destruct (scope_eqb _ _).
  - unfold process_egress. destruct (i_consdir (s_inf s) && negb (s_peer s)).
    + cbn [store_inf s_p s_eg]. destruct (_ <=? _); [discriminate|]. intros [= <- <- <-]. auto.
    + destruct (_ <=? _); [discriminate|]. intros [= <- <- <-]. auto.
  - intros [= <- <- <-]. auto.
Qed.

Lemma no_up_check_forward p e out :
  no_up_check macq c now ing p = Forward e out None ->
  exists s, up_check_state macq c now ing p = Some s /\ finish c s = Forward e out None.
Proof.
  unfold no_up_check, up_check_state.
  destruct (ingress_part macq c now ing p) as [s0|r] eqn:EI.
  2:{ intros ->. apply ingress_part_nf in EI. destruct EI. }
  destruct (p_dst_ia p =? c_ia c).
  - intros H. apply resolve_inbound_dst in H. now elim H.
  - destruct (before_up macq c now ing s0) as [s'|r] eqn:B.
    + intros H. exists s'. auto.
    + intros ->. apply before_up_nf in B. destruct B.
Qed.

End Split.

(** * Steps that look at the configuration *)
Section Steps.
Variable macq : N -> N -> N -> N -> N -> option (list N).
Variable c : cfg.
Variable ls : links.
Variable now : N.
Variable ing : ingress.

Lemma transit_cfg_at s :
  validate_transit_underlay_src (cfg_at c ls) ing s = validate_transit_underlay_src c ing s.
Proof.
  unfold validate_transit_underlay_src.
  destruct (is_first_hop (s_p s) || negb (from0 ing)); [reflexivity|].
  destruct (ingress_interface s) as [id|]; [|reflexivity].
  rewrite get_if_cfg_at. destruct (get_if c id); reflexivity.
Qed.

Lemma ingress_part_cfg_at p :
  ingress_part macq (cfg_at c ls) now ing p = ingress_part macq c now ing p.
Proof.
  unfold ingress_part.
  repeat (apply bind_congr; [| intros s; first [reflexivity | apply transit_cfg_at]]).
  reflexivity.
Qed.

Lemma resolve_inbound_cfg_at s : resolve_inbound (cfg_at c ls) s = resolve_inbound c s.
Proof. reflexivity. Qed.

Lemma validate_egress_id_cfg_at s :
  validate_egress_id (cfg_at c ls) ing s = validate_egress_id c ing s.
Proof.
  unfold validate_egress_id. rewrite lt_of_cfg_at, get_if_cfg_at, validate_egress_set_up.
  reflexivity.
Qed.

Lemma egress_alert_cfg_at s :
  handle_egress_router_alert (cfg_at c ls) s = handle_egress_router_alert c s.
Proof. unfold handle_egress_router_alert. rewrite egress_if_cfg_at. reflexivity. Qed.

Lemma before_up_cfg_at s :
  before_up macq (cfg_at c ls) now ing s = before_up macq c now ing s.
Proof.
  unfold before_up.
  apply bind_congr; [| apply egress_alert_cfg_at].
  apply bind_congr; [reflexivity | apply validate_egress_id_cfg_at].
Qed.

Lemma finish_cfg_at s : finish (cfg_at c ls) s = finish c s.
Proof. unfold finish. rewrite egress_if_cfg_at. reflexivity. Qed.

Lemma validate_egress_up_cfg_at s :
  validate_egress_up (cfg_at c ls) s =
  if iface_up ls (egress_if c s) then Ok s else Stop (down_result c s).
Proof.
  unfold validate_egress_up, slow, down_result, down_type. rewrite egress_if_cfg_at.
  cbn [set_up if_up if_scope].
  destruct (iface_up ls (egress_if c s)); [reflexivity|].
  destruct (scope_eqb (if_scope (egress_if c s)) External); reflexivity.
Qed.

Lemma up_check_state_cfg_at p :
  up_check_state macq (cfg_at c ls) now ing p = up_check_state macq c now ing p.
Proof.
  unfold up_check_state. rewrite ingress_part_cfg_at.
  destruct (ingress_part macq c now ing p) as [s|r]; [|reflexivity].
  cbn [cfg_at c_ia]. destruct (p_dst_ia p =? c_ia c); [reflexivity|].
  rewrite before_up_cfg_at. reflexivity.
Qed.

Lemma no_up_check_cfg_at p :
  no_up_check macq (cfg_at c ls) now ing p = no_up_check macq c now ing p.
Proof.
  unfold no_up_check. rewrite ingress_part_cfg_at.
  destruct (ingress_part macq c now ing p) as [s|r]; [|reflexivity].
  cbn [cfg_at c_ia]. destruct (p_dst_ia p =? c_ia c); [reflexivity|].
  rewrite before_up_cfg_at. destruct (before_up macq c now ing s); [apply finish_cfg_at | reflexivity].
Qed.

(** The characterisation everything else follows from: the result of a data packet
    while the sessions are in state [ls]. *)
Lemma process_at_char p :
  process_at macq c ls now ing p =
  match up_check_state macq c now ing p with
  | Some s => if iface_up ls (egress_if c s) then finish c s else down_result c s
  | None => no_up_check macq c now ing p
  end.
Proof.
  unfold process_at. rewrite process_split, up_check_state_cfg_at, no_up_check_cfg_at.
  destruct (up_check_state macq c now ing p) as [s|]; [|reflexivity].
  rewrite validate_egress_up_cfg_at.
  destruct (iface_up ls (egress_if c s)); [apply finish_cfg_at | reflexivity].
Qed.

(** at the up check the up flag of the egress interface is the state of its link *)
Lemma iface_up_at_check s :
  up_facts c ing s -> iface_up ls (egress_if c s) = link_up ls (if_link (egress_if c s)).
Proof.
  intros F. unfold iface_up. rewrite (uf_id _ _ _ F).
  destruct (s_eg s =? 0) eqn:E; [|reflexivity]. apply N.eqb_eq in E. now apply (uf_nz _ _ _ F) in E.
Qed.

(** * The oracle of the correspondence check holds on the model *)
Lemma down_type_cases f :
  (down_type f = ScmpExternalInterfaceDown /\ if_scope f = External) \/
  (down_type f = ScmpInternalConnectivityDown /\ if_scope f <> External).
Proof.
  unfold down_type. destruct (scope_eqb (if_scope f) External) eqn:E.
  - left. split; [reflexivity | now apply scope_eqb_eq].
  - right. split; [reflexivity|]. intros X. rewrite X in E. discriminate.
Qed.

Lemma c15_ok_model p :
  let m := process_at macq c ls now ing p in
  c15_ok c ls ing (no_up_check macq c now ing p) m (fwd_link c m) (reply_of c ing m) = true.
Proof.
  cbv zeta. rewrite process_at_char.
  destruct (up_check_state macq c now ing p) as [s|] eqn:U.
  - pose proof (up_check_state_facts _ _ _ _ _ _ U) as F.
    rewrite (no_up_check_some _ _ _ _ _ _ U).
    assert (IO : iface_of c (s_eg s) = egress_if c s) by reflexivity.
    destruct (iface_up ls (egress_if c s)) eqn:UP.
    + (* link up: forwarded as without BFD *)
      unfold c15_ok. destruct (finish c s) as [| | |e out d| | |] eqn:FI; try reflexivity.
      apply finish_forward in FI as [-> ->].
      cbn [fwd_link]. rewrite IO, UP.
      rewrite (iface_up_at_check _ F) in UP. rewrite UP, orb_true_r, N.eqb_refl. reflexivity.
    + (* link down *)
      unfold c15_ok, down_result. cbn [fwd_link].
      destruct (finish c s) as [| | |e out d| | |] eqn:FI; try reflexivity.
      apply finish_forward in FI as [-> ->]. rewrite IO, UP.
      rewrite !N.eqb_refl. cbn [andb].
      destruct (down_type_cases (egress_if c s)) as [[-> _] | [-> _]]; reflexivity || idtac.
      all: cbn; rewrite ?N.eqb_refl; reflexivity.
  - (* the up check is not reached: no forwarding to another router at all *)
    unfold c15_ok.
    destruct (no_up_check macq c now ing p) as [| | |e out [d|]| | |] eqn:NU; try reflexivity.
    apply no_up_check_forward in NU as (s & X & _). congruence.
Qed.

End Steps.

Lemma reply_agree_refl m : reply_agree m m = true.
Proof. destruct m as [l|]; cbn; [apply list_eqb_N_refl | reflexivity]. Qed.

Lemma info_eqb_refl i : info_eqb i i = true.
Proof.
  unfold info_eqb. rewrite !eqb_reflx, !N.eqb_refl. reflexivity.
Qed.
Lemma hop_eqb_refl h : hop_eqb h h = true.
Proof.
  unfold hop_eqb. rewrite !eqb_reflx, !N.eqb_refl, list_eqb_N_refl. reflexivity.
Qed.
Lemma list_eqb_refl {A} (f : A -> A -> bool) :
  (forall x, f x x = true) -> forall l, list_eqb f l l = true.
Proof. intros H. induction l as [|x t IH]; cbn; [reflexivity | now rewrite H, IH]. Qed.
Lemma pkt_eqb_refl p : pkt_eqb p p = true.
Proof.
  unfold pkt_eqb. rewrite !N.eqb_refl, !list_eqb_N_refl.
  rewrite (list_eqb_refl _ info_eqb_refl), (list_eqb_refl _ hop_eqb_refl).
  destruct (p_l4_port p); cbn; rewrite ?N.eqb_refl; reflexivity.
Qed.
Lemma result_eqb_refl r :
  match r with MacMiss | BadInput => True | _ => result_eqb r r = true end.
Proof.
  destruct r as [| | |e out d|q e out| |]; cbn; try exact I; try reflexivity.
  - rewrite N.eqb_refl, pkt_eqb_refl. destruct d as [[ip port]|]; cbn; [|reflexivity].
    now rewrite list_eqb_N_refl, N.eqb_refl.
  - rewrite N.eqb_refl, pkt_eqb_refl. destruct q; cbn; rewrite ?N.eqb_refl; reflexivity.
Qed.

(** * One-hop packets: no dependence on the sessions at all *)
Lemma nbr_of_cfg_at c ls id : RouterOHP.nbr_of (cfg_at c ls) id = RouterOHP.nbr_of c id.
Proof. unfold RouterOHP.nbr_of. rewrite get_if_cfg_at. destruct (get_if c id); reflexivity. Qed.

Lemma process_ohp_cfg_at macq c ls ing p :
  process_ohp_at macq c ls ing p = RouterOHP.process_ohp macq c ing p.
Proof.
  unfold process_ohp_at, RouterOHP.process_ohp.
  destruct (RouterOHP.ohp_shape p) as [[[i h1] h2]|]; [|reflexivity].
  destruct (negb (i_consdir i)); [reflexivity|].
  destruct (negb (p_pay_len p =? p_pay_actual p)); [reflexivity|].
  destruct (from0 ing).
  - unfold RouterOHP.ohp_out. cbn [cfg_at c_ia]. rewrite nbr_of_cfg_at, get_if_cfg_at.
    destruct (get_if c (h_eg h1)); reflexivity.
  - unfold RouterOHP.ohp_in. cbn [cfg_at c_ia]. rewrite nbr_of_cfg_at. reflexivity.
Qed.

Lemma run_history2_nth macq c pre : forall ls ing d post,
  nth_error (run_history2 macq c ls (pre ++ Ev2Data ing d :: post)) (count_data2 pre) =
  Some (process_any macq c (links_after2 ls pre) ing d).
Proof.
  induction pre as [|e t IH]; intros ls ing d post; [reflexivity|].
  destruct e as [l o | ing' d']; cbn [app run_history2 count_data2 nth_error]; apply IH.
Qed.

Lemma c15_ok_reply_none c ls ing allup impl fwd reply :
  c15_ok c ls ing allup impl fwd reply = true -> c15_ok c ls ing allup impl fwd None = true.
Proof.
  unfold c15_ok. intros H. apply andb_true_iff in H as [A B]. rewrite A. cbn [andb].
  destruct allup as [| | |e out [d|]| | |]; try exact B.
  destruct (iface_up ls (iface_of c e)); [exact B|].
  destruct impl as [| | |e' o' d'|q e' o'| |]; try exact B.
  destruct q as [ty code ptr| |]; try exact B.
  apply andb_true_iff in B as [B _]. rewrite B. reflexivity.
Qed.

Definition no_hohp (evs : list hev) : bool := forallb (fun e => negb (is_hohp e)) evs.

(** the oracle part of [hist_check] is true on the model's own observations for every history
    without one-hop data packets (the known-finding class) *)
Lemma hist_oracle_model_except_ohp c macs pkts evs : forall ls,
  no_hohp evs = true ->
  snd (hist_check c macs pkts ls (with_model_obs c macs pkts ls evs)) = true.
Proof.
  unfold no_hohp.
  induction evs as [|e t IH]; intros ls NH; [reflexivity|].
  cbn [forallb] in NH. apply andb_true_iff in NH as [NE NH]. specialize (IH).
  destruct e as [l o up | now ing k impl fwd reply | ing k impl fwd | now ing k impl rl up];
    cbn [with_model_obs]; try discriminate NE.
  - destruct (op_of o) as [op|] eqn:O; cbn [hist_check hev_step]; rewrite O.
    + specialize (IH (step_links ls l op) NH).
      destruct (hist_check c macs pkts (step_links ls l op) _) as [a' o']. cbn in *. exact IH.
    + specialize (IH ls NH). destruct (hist_check c macs pkts ls _) as [a' o']. cbn in *. exact IH.
  - destruct (nthN pkts k) as [p|] eqn:K; cbn [hist_check hev_step]; rewrite K.
    + specialize (IH ls NH). destruct (hist_check c macs pkts ls _) as [a' o']. cbn [snd] in *.
      rewrite IH, andb_true_r. apply c15_ok_model.
    + specialize (IH ls NH). destruct (hist_check c macs pkts ls _) as [a' o']. cbn in *. exact IH.
  - destruct (nthN pkts k) as [p|] eqn:K; cbn [hist_check hev_step]; rewrite K.
    + specialize (IH ls NH). destruct (hist_check c macs pkts ls _) as [a' o']. cbn [snd] in *.
      rewrite IH, andb_true_r. eapply c15_ok_reply_none. apply c15_ok_model.
    + specialize (IH ls NH). destruct (hist_check c macs pkts ls _) as [a' o']. cbn in *. exact IH.
Qed.

(** * The two main facts at the level of one processed SCION-path packet *)
Lemma process_at_forward_up macq c ls now ing p e out :
  process_at macq c ls now ing p = Forward e out None ->
  exists f, get_if c e = Some f /\ e <> 0 /\ link_up ls (if_link f) = true.
Proof.
  intros H. rewrite process_at_char in H.
  destruct (up_check_state macq c now ing p) as [s|] eqn:U.
  - pose proof (up_check_state_facts _ _ _ _ _ _ U) as F.
    destruct (iface_up ls (egress_if c s)) eqn:UP; [|discriminate].
    apply finish_forward in H as [-> _]. exists (egress_if c s).
    split; [apply (uf_if _ _ _ F)|]. split; [apply (uf_nz _ _ _ F)|].
    now rewrite <- (iface_up_at_check _ _ _ _ F).
  - apply no_up_check_forward in H as (s & X & _). congruence.
Qed.

Lemma process_at_down macq c ls now ing p s :
  up_check_state macq c now ing p = Some s ->
  link_up ls (if_link (egress_if c s)) = false ->
  process_at macq c ls now ing p = down_result c s.
Proof.
  intros U D. pose proof (up_check_state_facts _ _ _ _ _ _ U) as F.
  rewrite process_at_char, U, (iface_up_at_check _ _ _ _ F), D. reflexivity.
Qed.
