(** C02, layer 3: assembling.  For a chain of non-peering edges of the combinator's graph over
    beaconed segments: the provenance path [prov_of es] is well formed, renders to the packet
    built from the combinator's path, and its interface list is the path metadata. *)
From Coq Require Import List NArith Bool Arith Lia.
From Scion Require Import Lib.Check Model.Router Model.Network Model.Prov.
From Scion Require Import Model.Segment Model.SegID Model.CombSpec Model.Combinator Model.CombProv.
From Scion Require Import Proofs.SegID.
From Scion Require Import Proofs.CombinatorGraph Proofs.CombinatorRender Proofs.CombinatorPaths
  Proofs.CombinatorIfs Proofs.CombinatorSpec.
From Scion Require Import Proofs.ProvStruct Proofs.ProvRender Proofs.ForwardView Proofs.ProvFacts
  Proofs.ProvSlices Proofs.ProvLoopFree Proofs.CombineProv.
Import ListNotations.
Import CombProv.
Import Segment CombSpec Combinator.
Local Open Scope N_scope.

Lemma validate_ne s : validate s = true -> sg_entries s <> [].
Proof. unfold validate. destruct (sg_entries s); [discriminate|discriminate]. Qed.

(** * Interfaces of one slice *)
Lemma traversed_step cd x y rest : rest <> [] ->
  traversed cd false (x :: y :: rest) =
  nz (fst x) (leave cd (snd x)) ++ nz (fst y) (enter cd (snd y)) ++ traversed cd false (y :: rest).
Proof.
  intros H. rewrite (traversed_cons cd false x (y :: rest)) by discriminate.
  rewrite (traversed_cons cd false y rest) by assumption.
  destruct rest as [|z r]; [congruence|].
  change (removelast (y :: z :: r)) with (y :: removelast (z :: r)).
  change (last (y :: z :: r) x) with (last (z :: r) x).
  rewrite (last_indep (z :: r) x y) by discriminate.
  cbn [flat_map andb]. unfold hop_ifs at 1 2 4. cbn [app]. rewrite <- !app_assoc. reflexivity.
Qed.

Lemma traversed_two cd x y :
  traversed cd false [x; y] = nz (fst x) (leave cd (snd x)) ++ nz (fst y) (enter cd (snd y)).
Proof. unfold traversed, hop_ifs. cbn [andb removelast flat_map last app]. now rewrite !app_nil_r. Qed.

Lemma nz_ne ia x : x <> 0 -> nz ia x = [(ia, x)].
Proof. intros H. unfold nz. apply N.eqb_neq in H. now rewrite H. Qed.

Lemma pairs_traversed sl : forall hs,
  (forall i h h', nth_error hs i = Some h -> nth_error hs (S i) = Some h' ->
     s_tr_eg sl h <> 0 /\ s_tr_in sl h' <> 0) ->
  (2 <= length hs)%nat ->
  pairs_ifs sl hs = traversed (Prov.sl_consdir sl) false (map proj_hop hs).
Proof.
  induction hs as [|x hs IH]; intros NZ L; [cbn in L; lia|].
  destruct hs as [|y rest]; [cbn in L; lia|].
  destruct (NZ 0%nat x y eq_refl eq_refl) as [Z1 Z2].
  assert (P : pair_at sl x y =
              nz (fst (proj_hop x)) (leave (Prov.sl_consdir sl) (snd (proj_hop x))) ++
              nz (fst (proj_hop y)) (enter (Prov.sl_consdir sl) (snd (proj_hop y)))).
  { unfold pair_at, s_tr_eg, s_tr_in, proj_hop, leave, enter in *. cbn [fst snd h_in h_eg].
    destruct (Prov.sl_consdir sl); rewrite !nz_ne by assumption; reflexivity. }
  destruct rest as [|z r].
  - cbn [map]. rewrite traversed_two. cbn [pairs_ifs]. now rewrite app_nil_r.
  - change (pairs_ifs sl (x :: y :: z :: r)) with (pair_at sl x y ++ pairs_ifs sl (y :: z :: r)).
    cbn [map]. rewrite traversed_step by discriminate. rewrite P, <- app_assoc. do 2 f_equal.
    change (proj_hop y :: proj_hop z :: map proj_hop r) with (map proj_hop (y :: z :: r)).
    apply IH; [|cbn; lia]. intros i h h' Hi Hi'. apply (NZ (S i)); assumption.
Qed.

Lemma nth_map_dflt {A B} (f : A -> B) (d : B) l j :
  nth j (map f l) d = match nth_error l j with Some a => f a | None => d end.
Proof. revert j; induction l as [|a l IH]; intros [|j]; cbn; auto. Qed.

Lemma nth_error_ext' {A} (l l' : list A) :
  length l = length l' -> (forall i, (i < length l)%nat -> nth_error l i = nth_error l' i) -> l = l'.
Proof.
  revert l'. induction l as [|x l IH]; intros [|y l'] HL H; cbn [length] in HL; try lia; [reflexivity|].
  f_equal.
  - specialize (H 0%nat ltac:(cbn; lia)). cbn in H. congruence.
  - apply IH; [lia|]. intros i Hi. apply (H (S i)). cbn. lia.
Qed.

Lemma seg_idx_00 ls : (forall x, nth_error ls 0 = Some x -> (1 <= x)%nat) -> Prov.seg_idx ls 0 = 0%nat.
Proof.
  destruct ls as [|x r]; [reflexivity|]. intros H. specialize (H x eq_refl). cbn [Prov.seg_idx].
  destruct (Nat.ltb_spec 0 x); [reflexivity|lia].
Qed.

Lemma chain_first g dst es cur cs e : chain g dst cur cs es -> nth_error es 0 = Some e -> e_src e = cur.
Proof. destruct es as [|x r]; cbn; [tauto|]. intros (_ & S' & _) E. inversion E; now subst. Qed.

Lemma chain_last g dst : forall es cur cs e,
  chain g dst cur cs es -> nth_error es (length es - 1) = Some e -> e_dst e = dst.
Proof.
  induction es as [|x r IH]; intros cur cs e H E; [contradiction|].
  cbn [chain] in H. destruct H as (_ & _ & _ & H). destruct r as [|y r'].
  - cbn in E. inversion E; now subst.
  - destruct H as [_ H]. apply (IH _ _ e H).
    replace (length (x :: y :: r') - 1)%nat with (S (length (y :: r') - 1)) in E by (cbn [length]; lia).
    exact E.
Qed.

Section Main.
Variable mac : N -> N -> N -> N -> N -> N -> list N.
Variable t : Nw.topology.
Hypothesis Hwt : Nw.wf_topo t = true.
Variables ups cores downs : list (N * segment).
Variables src dst : N.
Variable es : list edge.
Hypothesis HBu : Forall (beaconed mac t false) (segs_of ups).
Hypothesis HBc : Forall (beaconed mac t true) (segs_of cores).
Hypothesis HBd : Forall (beaconed mac t false) (segs_of downs).
Hypothesis Hch : is_chain (insegs ups cores downs) src dst es.
Hypothesis Hnp : Forall nopeer es.

Notation segs := (insegs ups cores downs).
Notation l := (map pslice_of es).
Notation p := (prov_of es).

(** everything we know about one edge of the chain *)
Lemma edge_facts e : In e es ->
  exists s, tuple_of s e /\ nopeer e /\ beaconed mac t (is_core e) (is_seg (e_seg e)) /\ edge_good e /\
            (is_ty s = CoreT -> (2 <= length (sg_entries (is_seg s)))%nat).
Proof.
  intros Hin. pose proof (chain_from_segs _ _ _ _ _ Hch) as Hf. rewrite Forall_forall in Hf, Hnp.
  destruct (Hf e Hin) as (s & Hs & Ht). exists s. split; [exact Ht|]. split; [now apply Hnp|].
  pose proof (tuple_seg _ _ Ht) as Es. pose proof (insegs_seg_in _ _ _ _ Hs) as Hr.
  assert (B : beaconed mac t (is_core e) (is_seg s)).
  { unfold is_core. rewrite Es. rewrite Forall_forall in HBu, HBc, HBd.
    destruct (is_ty s); [now apply HBu|now apply HBc|now apply HBd]. }
  rewrite Es. split; [exact B|]. split.
  - eapply tuple_good; [exact Ht|]. apply validate_ne. apply B.
  - intros Ty. destruct B as (_ & _ & C & _). apply C. unfold is_core. now rewrite Es, Ty.
Qed.

Lemma slice_len2 e : In e es -> (2 <= length (Prov.sl_hops (pslice_of e)))%nat.
Proof.
  intros Hin. destruct (edge_facts e Hin) as (s & Ht & Np & _ & _ & Hc).
  rewrite slice_hops_length. now destruct (edge_ends s e Ht Np Hc).
Qed.

Lemma chain_junction j sl sl' : nth_error l j = Some sl -> nth_error l (S j) = Some sl' -> junction_good sl sl'.
Proof.
  intros Hj Hj'. rewrite nth_error_map in Hj, Hj'.
  destruct (nth_error es j) as [e|] eqn:Ej; [|discriminate].
  destruct (nth_error es (S j)) as [e'|] eqn:Ej'; [|discriminate].
  cbn in Hj, Hj'. inversion Hj; inversion Hj'; subst sl sl'.
  destruct (chain_adjacent _ _ _ _ _ Hch j e e' Ej Ej') as (Sd & V).
  destruct (edge_facts e (nth_error_In _ _ Ej)) as (s & Ht & Np & _ & _ & Hc).
  destruct (edge_facts e' (nth_error_In _ _ Ej')) as (s' & Ht' & Np' & _ & _ & Hc').
  destruct (edge_ends s e Ht Np Hc) as (_ & _ & D).
  destruct (edge_ends s' e' Ht' Np' Hc') as (_ & S' & _).
  split.
  - apply v_ia_inj. now rewrite <- D, <- S'.
  - unfold pslice_of. cbn [Prov.sl_kind Prov.sl_consdir]. unfold is_down. unfold ety in V.
    destruct (is_ty (e_seg e)), (is_ty (e_seg e')); cbn in V |- *; try discriminate; auto.
Qed.

(** the hop fields of the path, as (AS, hop field) *)
Lemma hops_proj : map proj_hop (Prov.pv_hops p) = flat_map Cb.sl_hops (map edge_slice es).
Proof.
  unfold prov_of. cbn [Prov.of_slices Prov.pv_hops].
  rewrite !flat_map_concat_map, concat_map, !map_map. f_equal.
  apply map_ext_in. intros e He. destruct (edge_facts e He) as (s & _ & Np & _ & G & _).
  cbn [edge_slice Cb.sl_hops]. now rewrite <- (slice_hops_proj e G Np).
Qed.

Lemma path_ias_eq : path_ias (path_of es) = map Prov.ph_ia (Prov.pv_hops p).
Proof. unfold path_ias. cbn [path_of p_slices]. rewrite <- hops_proj, map_map. reflexivity. Qed.

Lemma ia_nth k : Prov.ia p k = nth k (path_ias (path_of es)) 0.
Proof.
  rewrite path_ias_eq. unfold Prov.ia, Prov.hop.
  change 0 with (Prov.ph_ia Prov.dhop). now rewrite map_nth.
Qed.

(** * Interfaces *)
Lemma slice_ifs e : In e es ->
  pairs_ifs (pslice_of e) (Prov.sl_hops (pslice_of e)) = edge_ifs e.
Proof.
  intros He. destruct (edge_facts e He) as (s & Ht & Np & B & G & Hc).
  rewrite (trav_ifs_traversed e G ltac:(apply B)). unfold nopeer in Np. rewrite Np. cbn [Nat.eqb negb].
  rewrite <- (slice_hops_proj e G Np).
  change (is_down e) with (Prov.sl_consdir (pslice_of e)).
  apply pairs_traversed; [|now apply slice_len2].
  intros i h h' Hi Hi'.
  destruct (slice_pair_good mac t Hwt e B i h h' Hi Hi') as (_ & a & f & Fa & Ff & _ & Rm & _).
  destruct (find_as_ia _ _ _ Fa) as [Ia _].
  destruct (far t Hwt a _ f ltac:(now rewrite Ia) Ff) as (_ & _ & _ & _ & _ & _ & _ & Z1 & Z2).
  split; [exact Z1|]. now rewrite <- Rm.
Qed.

Theorem chain_interfaces : Prov.interfaces p = p_ifs (path_of es).
Proof.
  unfold prov_of. rewrite interfaces_slices.
  - cbn [path_of p_ifs]. unfold sol_ifs. rewrite flat_map_concat_map, map_map, <- flat_map_concat_map.
    apply flat_map_ext_in'. intros e He. now apply slice_ifs.
  - apply Forall_forall. intros sl Hin. apply in_map_iff in Hin as (e & <- & He).
    split; [now apply slice_len2|reflexivity].
Qed.

(** * The packet *)
Lemma edge_len e : In e es ->
  length (Cb.sl_hops (edge_slice e)) = length (Prov.sl_hops (pslice_of e)).
Proof.
  intros He. destruct (edge_facts e He) as (s & _ & Np & _ & G & _).
  cbn [edge_slice Cb.sl_hops]. rewrite <- (slice_hops_proj e G Np). now rewrite map_length.
Qed.

Lemma lens_p : Prov.lens p = map (fun e => length (Prov.sl_hops (pslice_of e))) es.
Proof. unfold prov_of. rewrite lens_of_slices, map_map. reflexivity. Qed.

Lemma len_at_eq j :
  Prov.len_at p j = N.of_nat (length (Cb.sl_hops (nth j (map edge_slice es) dflt_slice))).
Proof.
  unfold Prov.len_at. f_equal. rewrite lens_p, !nth_map_dflt.
  destruct (nth_error es j) as [e|] eqn:E; [|reflexivity].
  symmetry. apply edge_len. eapply nth_error_In; eassumption.
Qed.

Lemma nth_lens_p j e : nth_error es j = Some e ->
  nth j (Prov.lens p) 0%nat = length (Prov.sl_hops (pslice_of e)).
Proof. intros E. rewrite lens_p, nth_map_dflt, E. reflexivity. Qed.

Lemma first_hop_beta j e : nth_error es j = Some e ->
  Prov.beta p (Prov.seg_start (Prov.lens p) j) = calc_beta e.
Proof.
  intros E. pose proof (nth_error_In _ _ E) as He.
  destruct (edge_facts e He) as (s & Ht & Np & B & G & Hc).
  destruct (edge_ends s e Ht Np Hc) as (L2 & _ & _).
  pose proof (slice_len2 e He) as L.
  assert (Lj : (j < length (Prov.lens p))%nat).
  { rewrite lens_p, map_length. apply nth_error_Some. congruence. }
  pose proof (seg_start_total (Prov.lens p) j Lj) as T. rewrite (nth_lens_p j e E) in T.
  destruct (seg_compose (Prov.lens p) j 0 Lj) as [I O]; [rewrite (nth_lens_p j e E); lia|].
  rewrite Nat.add_0_r in I, O.
  destruct (slice_pos l (Prov.seg_start (Prov.lens p) j)) as (sl & Hsl & _ & Hh & _).
  { unfold prov_of in T |- *. rewrite nhops_of_slices. lia. }
  fold p in Hsl, Hh. rewrite I in Hsl. rewrite O in Hh.
  rewrite nth_error_map, E in Hsl. cbn in Hsl. inversion Hsl; subst sl.
  unfold Prov.beta. rewrite Hh.
  replace (nth 0 (Prov.sl_hops (pslice_of e)) Prov.dhop) with (hd Prov.dhop (Prov.sl_hops (pslice_of e)))
    by (destruct (Prov.sl_hops (pslice_of e)); reflexivity).
  rewrite slice_first by lia. cbn [ph_of Prov.ph_beta].
  assert (Bi : beta_index e = cidx e 0).
  { unfold beta_index, cidx, entries. unfold nopeer in Np. rewrite Np. cbn [Nat.eqb negb].
    rewrite andb_false_r. destruct (is_down e); lia. }
  rewrite calc_beta_at; [now rewrite Bi|]. rewrite Bi. destruct (cidx_range e 0); lia.
Qed.

Lemma infos_eq : Prov.rinfos p 0 false = map pkt_info (map edge_slice es).
Proof.
  unfold Prov.rinfos. apply nth_error_ext'.
  - unfold prov_of. rewrite segs_of_slices, !map_length, seq_length. reflexivity.
  - intros i Hi. rewrite map_length, seq_length in Hi. rewrite nth_error_map_seq by assumption.
    unfold prov_of in Hi. rewrite segs_of_slices, !map_length in Hi.
    destruct (nth_error es i) as [e|] eqn:E; [|apply nth_error_None in E; lia].
    rewrite map_map, (map_nth_error _ _ _ E). f_equal.
    pose proof (nth_error_In _ _ E) as He.
    destruct (edge_facts e He) as (s & _ & Np & _ & _ & _).
    assert (Hs : nth i (Prov.pv_segs p) Prov.dseg = hdr_of (pslice_of e)).
    { unfold prov_of. rewrite segs_of_slices. apply nth_error_nth. rewrite map_map.
      now rewrite (map_nth_error _ _ _ E). }
    unfold Prov.rinfo, Prov.sid. cbv zeta. rewrite Hs.
    replace (Prov.clampi (hdr_of (pslice_of e)) (Prov.seg_start (Prov.lens p) i) 0 false)
      with (Prov.seg_start (Prov.lens p) i)
      by (unfold Prov.clampi; destruct (Prov.sg_consdir (hdr_of (pslice_of e)) || false); cbn; lia).
    rewrite (first_hop_beta i e E).
    unfold pkt_info, edge_slice, edge_info, hdr_of, pslice_of, ts_of.
    cbn [Cb.sl_info Cb.i_peer Cb.i_consdir Cb.i_segid Cb.i_ts
         Prov.sg_peer Prov.sg_consdir Prov.sg_ts Prov.sl_peer Prov.sl_consdir Prov.sl_ts].
    unfold nopeer in Np. rewrite Np. reflexivity.
Qed.

Lemma hops_eq :
  map Prov.rhop (Prov.pv_hops p) = flat_map (fun sl => map pkt_hop (Cb.sl_hops sl)) (map edge_slice es).
Proof.
  unfold prov_of. cbn [Prov.of_slices Prov.pv_hops].
  rewrite !flat_map_concat_map, concat_map, !map_map. f_equal.
  apply map_ext_in. intros e He. destruct (edge_facts e He) as (s & _ & Np & _ & G & _).
  cbn [edge_slice Cb.sl_hops]. rewrite <- (slice_hops_proj e G Np), map_map. reflexivity.
Qed.

Theorem chain_render pp : Prov.render p pp 0 false = pkt_of_path (path_of es) pp.
Proof.
  unfold Prov.render, pkt_of_path. cbv zeta. cbn [path_of p_slices].
  rewrite !len_at_eq, infos_eq, hops_eq.
  rewrite seg_idx_00; [reflexivity|].
  intros x Hx. rewrite lens_p in Hx. rewrite nth_error_map in Hx.
  destruct (nth_error es 0) as [e|] eqn:E; [|discriminate]. cbn [option_map] in Hx.
  injection Hx as <-. pose proof (slice_len2 e (nth_error_In _ _ E)) as L2.
  apply Nat.le_trans with (2 := L2). auto.
Qed.

(** * The side conditions of the forwarding theorem *)
Lemma hop_at j e o : nth_error es j = Some e -> (o < length (Prov.sl_hops (pslice_of e)))%nat ->
  (Prov.seg_start (Prov.lens p) j + o < Prov.nhops p)%nat /\
  Prov.hop p (Prov.seg_start (Prov.lens p) j + o) = nth o (Prov.sl_hops (pslice_of e)) Prov.dhop /\
  Prov.hdr p (Prov.seg_start (Prov.lens p) j + o) = hdr_of (pslice_of e).
Proof.
  intros E Ho.
  assert (Lj : (j < length (Prov.lens p))%nat).
  { rewrite lens_p, map_length. apply nth_error_Some. congruence. }
  pose proof (seg_start_total (Prov.lens p) j Lj) as T. rewrite (nth_lens_p j e E) in T.
  destruct (seg_compose (Prov.lens p) j o Lj) as [I O]; [now rewrite (nth_lens_p j e E)|].
  assert (K : (Prov.seg_start (Prov.lens p) j + o < Prov.nhops p)%nat).
  { unfold prov_of in T |- *. rewrite nhops_of_slices. lia. }
  split; [exact K|].
  destruct (slice_pos l _ K) as (sl & Hsl & Hd & Hh & _).
  fold p in Hsl, Hh, Hd. rewrite I in Hsl. rewrite O in Hh.
  rewrite nth_error_map, E in Hsl. cbn in Hsl. inversion Hsl; subst sl. now split.
Qed.

Lemma es_first : exists e, nth_error es 0 = Some e.
Proof.
  pose proof (chain_nonempty _ _ _ _ _ Hch) as Ne.
  destruct (nth_error es 0) as [e|] eqn:E; [now exists e|]. apply nth_error_None in E.
  destruct es; [congruence|cbn in E; lia].
Qed.

Lemma es_last : exists e, nth_error es (length es - 1) = Some e.
Proof.
  pose proof (chain_nonempty _ _ _ _ _ Hch) as Ne.
  destruct (nth_error es (length es - 1)) as [e|] eqn:E; [now exists e|]. apply nth_error_None in E.
  destruct es; [congruence|cbn [length] in E; lia].
Qed.

Lemma ia_first : Prov.ia p 0 = src.
Proof.
  destruct es_first as [e E]. pose proof (nth_error_In _ _ E) as He.
  destruct (edge_facts e He) as (s & Ht & Np & _ & _ & Hc).
  destruct (edge_ends s e Ht Np Hc) as (_ & S' & _).
  destruct (hop_at 0 e 0 E) as (_ & Hh & _); [pose proof (slice_len2 e He); lia|].
  rewrite seg_start_0 in Hh. cbn [Nat.add] in Hh. unfold Prov.ia. rewrite Hh.
  replace (nth 0 (Prov.sl_hops (pslice_of e)) Prov.dhop) with (hd Prov.dhop (Prov.sl_hops (pslice_of e)))
    by (destruct (Prov.sl_hops (pslice_of e)); reflexivity).
  apply v_ia_inj. rewrite <- S'. exact (chain_first _ _ _ _ _ _ Hch E).
Qed.

Lemma ia_last : Prov.ia p (Prov.nhops p - 1) = dst.
Proof.
  destruct es_last as [e E]. pose proof (nth_error_In _ _ E) as He.
  destruct (edge_facts e He) as (s & Ht & Np & _ & _ & Hc).
  destruct (edge_ends s e Ht Np Hc) as (_ & _ & D).
  pose proof (slice_len2 e He) as L2.
  destruct (hop_at _ e (length (Prov.sl_hops (pslice_of e)) - 1) E) as (_ & Hh & _); [lia|].
  assert (Lj : (length es - 1 < length (Prov.lens p))%nat).
  { rewrite lens_p, map_length. apply nth_error_Some. congruence. }
  pose proof (seg_start_next (Prov.lens p) _ Lj) as Nx. rewrite (nth_lens_p _ e E) in Nx.
  rewrite seg_start_all in Nx by (rewrite lens_p, map_length; lia).
  assert (En : (Prov.nhops p - 1 =
               Prov.seg_start (Prov.lens p) (length es - 1) + (length (Prov.sl_hops (pslice_of e)) - 1))%nat).
  { unfold prov_of in Nx |- *. rewrite nhops_of_slices. lia. }
  unfold Prov.ia. rewrite En, Hh. rewrite nth_last.
  - apply v_ia_inj. rewrite <- D. exact (chain_last _ _ _ _ _ _ Hch E).
  - intros X. rewrite X in L2. cbn in L2. lia.
Qed.

Lemma endpoints_of pp : hosts_ok t src dst pp -> Prov.endpoints_ok t p pp = true.
Proof.
  intros (S' & D & Hs & a & d & Fa & Dt). unfold Prov.endpoints_ok.
  rewrite ia_first, ia_last, S', D, !N.eqb_refl, Hs, Fa, Dt. reflexivity.
Qed.

Lemma unexpired_of now : path_unexpired now (path_of es) -> Prov.all_unexpired now p = true.
Proof.
  intros U. unfold path_unexpired in U. cbn [path_of p_slices] in U. rewrite Forall_forall in U.
  unfold Prov.all_unexpired. apply forallb_forall. intros k Hk. apply in_seq in Hk.
  destruct (slice_pos l k) as (sl & Hsl & Hd & Hh & Ho); [unfold Prov.range, prov_of in Hk |- *; lia|]. fold p in Hsl, Hd, Hh, Ho.
  rewrite nth_error_map in Hsl. destruct (nth_error es _) as [e|] eqn:E; [|discriminate].
  cbn in Hsl. inversion Hsl; subst sl. pose proof (nth_error_In _ _ E) as He.
  destruct (edge_facts e He) as (s & _ & Np & _ & G & _).
  specialize (U (edge_slice e) (in_map _ _ _ He)). rewrite Forall_forall in U.
  specialize (U (proj_hop (Prov.hop p k))). cbn [edge_slice Cb.sl_hops Cb.sl_info edge_info Cb.i_ts] in U.
  rewrite <- (slice_hops_proj e G Np) in U.
  unfold Prov.hop_unexpired. rewrite Hd. apply negb_true_iff. apply U.
  apply in_map. rewrite Hh. now apply nth_In.
Qed.

(** * Well-formedness *)
Lemma p_pos : segs_pos p.
Proof.
  unfold segs_pos, prov_of. rewrite segs_of_slices, map_map. apply Forall_forall.
  intros s Hs. apply in_map_iff in Hs as (e & <- & He). unfold hdr_of. cbn [Prov.sg_len].
  pose proof (slice_len2 e He). lia.
Qed.

Lemma p_tot : total (Prov.lens p) = Prov.nhops p.
Proof. unfold prov_of. now rewrite nhops_of_slices. Qed.

Lemma p_nopeer k : Prov.sg_peer (Prov.hdr p k) = false.
Proof.
  unfold Prov.hdr, prov_of. rewrite segs_of_slices, map_map.
  match goal with |- Prov.sg_peer (nth ?i ?L ?d) = _ => destruct (nth_in_or_default i L d) as [H | ->] end;
    [|reflexivity].
  apply in_map_iff in H as (e & <- & _). reflexivity.
Qed.

Lemma p_len2 j : (j < length (Prov.pv_segs p))%nat -> (2 <= Prov.sg_len (nth j (Prov.pv_segs p) Prov.dseg))%nat.
Proof.
  unfold prov_of. rewrite segs_of_slices, map_map.
  intros H. pose proof (nth_In _ Prov.dseg H) as I.
  apply in_map_iff in I as (e & <- & He). unfold hdr_of. cbn [Prov.sg_len]. now apply slice_len2.
Qed.

Lemma p_junction k : (S k < Prov.nhops p)%nat -> Prov.is_last p k = true -> Prov.ia p k = Prov.ia p (S k).
Proof.
  intros H L. assert (Hk : (k < Prov.nhops p)%nat) by lia.
  destruct (step_next p p_pos p_tot k H L) as (I & O & _).
  destruct (slice_pos l k Hk) as (sl & Hsl & Hd & Hh & Ho).
  destruct (slice_pos l (S k) H) as (sl' & Hsl' & _ & Hh' & _).
  fold p in Hsl, Hd, Hh, Ho, Hsl', Hh'. rewrite I in Hsl'. rewrite O in Hh'.
  destruct (chain_junction _ _ _ Hsl Hsl') as [J _].
  unfold Prov.is_last in L. apply Nat.eqb_eq in L. rewrite Hd in L. unfold hdr_of in L. cbn [Prov.sg_len] in L.
  unfold Prov.ia. rewrite Hh, Hh'.
  replace (Prov.seg_off (Prov.lens p) k) with (length (Prov.sl_hops sl) - 1)%nat by lia.
  rewrite nth_last by (intros X; rewrite X in Ho; cbn in Ho; lia).
  rewrite J. destruct (Prov.sl_hops sl'); reflexivity.
Qed.

Hypothesis H64' : (length (path_ias (path_of es)) <= 64)%nat.
Hypothesis Hn3 : no_as_thrice (p_ifs (path_of es)).
Hypothesis Hsd : src <> dst.

Lemma H64 : (length (flat_map Prov.sl_hops l) <= 64)%nat.
Proof. rewrite path_ias_eq, map_length in H64'. exact H64'. Qed.

(** the combinator's loop filter and src <> dst give the two "not in between" conditions *)
Lemma Hlf : loop_free p.
Proof.
  assert (N3 : no_as_thrice (Prov.interfaces p)) by (rewrite chain_interfaces; exact Hn3).
  assert (D : Prov.ia p 0 <> Prov.ia p (Prov.nhops p - 1)) by (rewrite ia_first, ia_last; exact Hsd).
  split.
  - intros k K1 K2. apply (src_free p p_pos p_tot p_nopeer p_len2 p_junction N3 k K1 K2). congruence.
  - intros k K. apply (dst_free p p_pos p_tot p_nopeer p_len2 p_junction N3 k K D).
Qed.

Lemma chain_wf_slices : wf_slices mac t l.
Proof.
  apply Build_wf_slices.
  - rewrite map_length. pose proof (chain_nonempty _ _ _ _ _ Hch) as Ne.
    pose proof (types_ok_length _ _ (chain_types _ _ _ _ _ Hch)) as Le. cbn [rank] in Le.
    destruct es; [congruence|cbn [length] in *; lia].
  - apply Forall_forall. intros sl Hin. apply in_map_iff in Hin as (e & <- & He). now apply slice_len2.
  - apply Forall_forall. intros sl Hin. apply in_map_iff in Hin as (e & <- & He). reflexivity.
  - exact H64.
  - intros sl h Hin Hh. apply in_map_iff in Hin as (e & <- & He).
    destruct (edge_facts e He) as (s & _ & Np & B & G & _). now apply (slice_hop_good mac t e B).
  - intros sl i h h' Hin Hi Hi'. apply in_map_iff in Hin as (e & <- & He).
    destruct (edge_facts e He) as (s & _ & Np & B & G & _). now apply (slice_pair_good mac t Hwt e B i).
  - exact chain_junction.
  - apply Hlf.
  - apply Hlf.
Qed.

Theorem chain_wf_prov : Prov.wf_prov_b (macq_of mac) t p = true.
Proof. apply (wf_slices_prov mac t l). exact chain_wf_slices. Qed.

End Main.
