(** Lemmas about Model/PktCls.v: evaluation = value of the expression, numbers as
    text, the lexer on printed tokens, the parser on printed trees, and what the
    parser can return. *)
From Coq Require Import List Arith NArith ZArith Bool Lia ZifyN ZifyNat ZifyBool.
From Scion Require Import Lib.Check Model.PktCls.
Import ListNotations.
From Coq Require String.
Import String.StringSyntax.
Import PktCls.
Local Open Scope N_scope.

Ltac Zify.zify_post_hook ::= Z.div_mod_to_equations.

(** ------------------------------------------------------------------
    Induction over condition trees (nested lists). *)
Section CondInd.
  Variable Pc : cond -> Prop.
  Hypothesis HAll : forall l, Forall Pc l -> Pc (CAll l).
  Hypothesis HAny : forall l, Forall Pc l -> Pc (CAny l).
  Hypothesis HNot : forall c, Pc c -> Pc (CNot c).
  Hypothesis HBool : forall b, Pc (CBool b).
  Hypothesis HSrc : forall ip len, Pc (CSrc ip len).
  Hypothesis HDst : forall ip len, Pc (CDst ip len).
  Hypothesis HTos : forall v, Pc (CTos v).
  Hypothesis HDscp : forall v, Pc (CDscp v).
  Hypothesis HProto : forall v, Pc (CProto v).
  Hypothesis HSrcPort : forall lo hi, Pc (CSrcPort lo hi).
  Hypothesis HDstPort : forall lo hi, Pc (CDstPort lo hi).
  Hypothesis HCls : forall n, Pc (CCls n).

  Fixpoint cond_ind' (c : cond) : Pc c :=
    match c with
    | CAll l => HAll l ((fix go (l : list cond) : Forall Pc l :=
                           match l with [] => Forall_nil _ | x :: r => Forall_cons x (cond_ind' x) (go r) end) l)
    | CAny l => HAny l ((fix go (l : list cond) : Forall Pc l :=
                           match l with [] => Forall_nil _ | x :: r => Forall_cons x (cond_ind' x) (go r) end) l)
    | CNot c => HNot c (cond_ind' c)
    | CBool b => HBool b
    | CSrc a b => HSrc a b
    | CDst a b => HDst a b
    | CTos v => HTos v
    | CDscp v => HDscp v
    | CProto v => HProto v
    | CSrcPort a b => HSrcPort a b
    | CDstPort a b => HDstPort a b
    | CCls n => HCls n
    end.
End CondInd.

(** ------------------------------------------------------------------
    Well-formed inputs: 32-bit addresses, prefix lengths <= 32. *)
Fixpoint wf_cond (c : cond) : bool :=
  match c with
  | CAll l | CAny l => forallb wf_cond l
  | CNot c => wf_cond c
  | CSrc ip len | CDst ip len => (ip <? 4294967296) && (len <=? 32)
  | _ => true
  end.
Definition wf_layer (v : layer) : bool :=
  match v with Some p => (p_src p <? 4294967296) && (p_dst p <? 4294967296) | None => true end.

Lemma eval_all l v :
  eval (CAll l) v = forallb (fun x => eval x v) l.
Proof.
  cbn [eval]. induction l as [|x r IH]; [reflexivity|].
  cbn [forallb]. rewrite <- IH. destruct (eval x v); reflexivity.
Qed.

Lemma any_fix v m :
  (fix any (l : list cond) : bool :=
     match l with [] => false | x :: r => if eval x v then true else any r end) m =
  existsb (fun x => eval x v) m.
Proof.
  induction m as [|x r IH]; [reflexivity|]. cbn [existsb]. rewrite <- IH.
  destruct (eval x v); reflexivity.
Qed.

Lemma eval_any l v :
  eval (CAny l) v = match l with [] => true | _ => existsb (fun x => eval x v) l end.
Proof.
  destruct l as [|y l0]; [reflexivity|].
  cbn [eval existsb]. rewrite any_fix. destruct (eval y v); reflexivity.
Qed.

(** masking with a CIDR mask keeps the bits from [32 - len] upwards *)
Lemma land_mask a len :
  a < 4294967296 -> len <= 32 ->
  N.land a (mask_of len) = (a / 2 ^ (32 - len)) * 2 ^ (32 - len).
Proof.
  intros Ha Hl. unfold mask_of.
  rewrite <- N.shiftr_div_pow2, <- N.shiftl_mul_pow2.
  apply N.bits_inj. intros i.
  rewrite N.land_spec.
  destruct (N.ltb_spec i (32 - len)) as [Hi|Hi].
  - rewrite (N.shiftl_spec_low _ _ i) by assumption.
    rewrite (N.shiftl_spec_low _ _ i) by assumption. apply andb_false_r.
  - rewrite !N.shiftl_spec_high' by assumption.
    rewrite N.shiftr_spec'. replace (i - (32 - len) + (32 - len)) with i by lia.
    destruct (N.ltb_spec (i - (32 - len)) len) as [Hj|Hj].
    + rewrite N.ones_spec_low by assumption. apply andb_true_r.
    + rewrite N.ones_spec_high by assumption. rewrite andb_false_r.
      symmetry. apply N.bits_above_log2.
      destruct (N.eq_dec a 0) as [->|Hz]; [cbn; lia|].
      apply N.log2_lt_pow2; [lia|].
      apply N.lt_le_trans with (2 ^ 32); [exact Ha|].
      apply N.pow_le_mono_r; lia.
Qed.

Lemma contains_div ip len a :
  ip < 4294967296 -> a < 4294967296 -> len <= 32 ->
  contains ip len a = (a / 2 ^ (32 - len) =? ip / 2 ^ (32 - len)).
Proof.
  intros Hi Ha Hl. unfold contains. rewrite !land_mask by assumption.
  assert (Hp : 2 ^ (32 - len) <> 0) by (apply N.pow_nonzero; lia).
  destruct (N.eqb_spec (a / 2 ^ (32 - len)) (ip / 2 ^ (32 - len))) as [E|E].
  - rewrite E. apply N.eqb_refl.
  - apply N.eqb_neq. intros H. apply E. apply N.mul_cancel_r in H; [congruence|exact Hp].
Qed.

Lemma land_mask_idem ip len : N.land (N.land ip (mask_of len)) (mask_of len) = N.land ip (mask_of len).
Proof. rewrite <- N.land_assoc, N.land_diag. reflexivity. Qed.

Lemma eval_sem : forall e v, has_empty_any e = false ->
  wf_cond e = true -> wf_layer v = true -> eval e v = sem e v.
Proof.
  intros e v. induction e as [l IH|l IH|c IH|b|ip len|ip len|t|d|n|lo hi|lo hi|n] using cond_ind';
    intros Ne We Wv.
  - rewrite eval_all. cbn [sem]. cbn [wf_cond has_empty_any] in We, Ne.
    induction IH as [|x r Hx Hr IHr]; [reflexivity|].
    cbn [forallb existsb] in *. apply andb_true_iff in We as [W1 W2]. apply orb_false_iff in Ne as [N1 N2].
    rewrite Hx, IHr by assumption. reflexivity.
  - rewrite eval_any. cbn [sem]. cbn [wf_cond] in We.
    destruct l as [|y l0]; [discriminate Ne|].
    assert (Ne' : existsb has_empty_any (y :: l0) = false) by exact Ne. clear Ne.
    revert IH We Ne'. generalize (y :: l0). intros m IH We Ne.
    induction IH as [|x r Hx Hr IHr]; [reflexivity|].
    cbn [forallb existsb] in *. apply andb_true_iff in We as [W1 W2]. apply orb_false_iff in Ne as [N1 N2].
    rewrite Hx, IHr by assumption. reflexivity.
  - cbn [eval sem]. cbn [wf_cond has_empty_any] in We, Ne. rewrite IH by assumption. reflexivity.
  - reflexivity.
  - cbn [eval sem]. destruct v as [p|]; [|reflexivity]. cbn [wf_cond wf_layer] in *.
    apply contains_div; lia.
  - cbn [eval sem]. destruct v as [p|]; [|reflexivity]. cbn [wf_cond wf_layer] in *.
    apply contains_div; lia.
  - cbn [eval sem]. destruct v as [p|]; [|reflexivity]. apply N.eqb_sym.
  - cbn [eval sem]. destruct v as [p|]; [|reflexivity].
    rewrite N.shiftr_div_pow2. change (2 ^ 2) with 4. apply N.eqb_sym.
  - cbn [eval sem]. destruct v as [p|]; [|reflexivity]. apply N.eqb_sym.
  - reflexivity.
  - reflexivity.
  - reflexivity.
Qed.

(** ------------------------------------------------------------------
    Decimal and hexadecimal text. *)
Definition undec_from (a : N) (w : list N) : N := fold_left (fun a c => 10 * a + (c - 48)) w a.

Lemma dec_aux_undec : forall fuel n acc,
  n < 2 ^ N.of_nat fuel -> undec (dec_aux fuel n acc) = undec_from n acc.
Proof.
  induction fuel as [|f IH]; intros n acc Hn.
  - cbn in Hn. assert (n = 0) by lia. subst. reflexivity.
  - cbn [dec_aux]. destruct (N.ltb_spec n 10) as [H|H].
    + unfold undec, undec_from. cbn [fold_left]. f_equal. lia.
    + rewrite IH.
      * unfold undec_from. cbn [fold_left]. f_equal. lia.
      * rewrite Nnat.Nat2N.inj_succ, N.pow_succ_r' in Hn. lia.
Qed.

Lemma size_nat_bound n : n < 2 ^ N.of_nat (N.size_nat n).
Proof.
  destruct n as [|p]; [cbn; lia|].
  cbn [N.size_nat]. induction p as [p IH|p IH|]; cbn [Pos.size_nat].
  - rewrite Nnat.Nat2N.inj_succ, N.pow_succ_r'. lia.
  - rewrite Nnat.Nat2N.inj_succ, N.pow_succ_r'. lia.
  - cbn. lia.
Qed.

Lemma dec_fuel n : n < 2 ^ N.of_nat (S (N.size_nat n)).
Proof.
  rewrite Nnat.Nat2N.inj_succ, N.pow_succ_r'. pose proof (size_nat_bound n). lia.
Qed.

Lemma undec_dec n : undec (dec n) = n.
Proof. unfold dec. rewrite dec_aux_undec by apply dec_fuel. reflexivity. Qed.

Lemma is_digit_spec c : is_digit c = true <-> 48 <= c <= 57.
Proof. unfold is_digit. rewrite andb_true_iff, !N.leb_le. tauto. Qed.

(** shape of the digits produced *)
Lemma dec_aux_shape : forall fuel n acc,
  n < 2 ^ N.of_nat fuel ->
  exists ds, dec_aux fuel n acc = ds ++ acc /\ forallb is_digit ds = true /\
             (n = 0 -> ds = match fuel with O => [] | _ => [48] end) /\
             (n <> 0 -> exists c r, ds = c :: r /\ c <> 48).
Proof.
  induction fuel as [|f IH]; intros n acc Hn.
  - cbn in Hn. exists []. repeat split; try reflexivity. intros; lia.
  - cbn [dec_aux]. destruct (N.ltb_spec n 10) as [H|H].
    + exists [48 + n]. repeat split.
      * cbn [forallb]. rewrite andb_true_r. apply is_digit_spec. lia.
      * intros ->. reflexivity.
      * intros Hz. exists (48 + n), []. split; [reflexivity|lia].
    + destruct (IH (n / 10) ((48 + n mod 10) :: acc)) as (ds & E & D & _ & NZ).
      * rewrite Nnat.Nat2N.inj_succ, N.pow_succ_r' in Hn. lia.
      * exists (ds ++ [48 + n mod 10]). repeat split.
        -- rewrite E, <- app_assoc. reflexivity.
        -- rewrite forallb_app, D. cbn [forallb andb]. rewrite andb_true_r. apply is_digit_spec. lia.
        -- intros ->. lia.
        -- intros _. destruct NZ as (c & r & -> & Hc); [lia|].
           exists c, (r ++ [48 + n mod 10]). split; [reflexivity|exact Hc].
Qed.

Lemma is_dec_dec n : is_dec (dec n) = true.
Proof.
  unfold dec. destruct (dec_aux_shape (S (N.size_nat n)) n [] (dec_fuel n)) as (ds & E & D & Z & NZ).
  rewrite E, app_nil_r.
  destruct (N.eq_dec n 0) as [Hz|Hz].
  - rewrite (Z Hz). reflexivity.
  - destruct (NZ Hz) as (c & r & -> & Hc). cbn [is_dec forallb] in *.
    apply N.eqb_neq in Hc. rewrite Hc. exact D.
Qed.

Lemma is_dec_digits w : is_dec w = true -> forallb is_digit w = true.
Proof.
  destruct w as [|c r]; [discriminate|]. cbn [is_dec forallb].
  destruct (N.eqb_spec c 48) as [->|_].
  - destruct r; [reflexivity|discriminate].
  - trivial.
Qed.

Lemma is_dec_nonempty w : is_dec w = true -> w <> [].
Proof. destruct w; [discriminate|discriminate]. Qed.

Lemma is_digit_hex c : is_digit c = true -> is_hex c = true.
Proof. unfold is_hex. intros ->. reflexivity. Qed.

Lemma forallb_impl {A} (p q : A -> bool) l :
  (forall x, p x = true -> q x = true) -> forallb p l = true -> forallb q l = true.
Proof.
  intros H. induction l as [|x r IH]; [reflexivity|]. cbn [forallb].
  intros E. apply andb_true_iff in E as [E1 E2]. rewrite (H _ E1), (IH E2). reflexivity.
Qed.

(** all 256 byte values, for finite sweeps *)
Definition bytes256 : list N := List.map N.of_nat (seq 0 256).
Lemma in_bytes256 v : v < 256 -> In v bytes256.
Proof.
  intros H. unfold bytes256. apply in_map_iff. exists (N.to_nat v). split; [lia|].
  apply in_seq. lia.
Qed.
Lemma sweep256 (p : N -> bool) : forallb p bytes256 = true -> forall v, v < 256 -> p v = true.
Proof. intros H v Hv. rewrite forallb_forall in H. apply H. now apply in_bytes256. Qed.



(** ------------------------------------------------------------------
    The lexer on the text of a token list. *)
Definition kw_text (k : kw) : list N :=
  match k with
  | KAny => str "any" | KAll => str "all" | KNot => str "not" | KBool => str "BOOL"
  | KSrc => str "src" | KDst => str "dst" | KDscp => str "dscp" | KTos => str "tos"
  | KProtocol => str "protocol" | KSrcPort => str "srcport" | KDstPort => str "dstport"
  end.

Definition text1 (t : tok) : list N :=
  match t with
  | TEq => [61] | TEq0x => [61; 48; 120] | TDash => [45] | TClsEq => str "cls="
  | TLP => [40] | TComma => [44] | TRP => [41] | TTrue => str "true" | TFalse => str "false"
  | TDigits w | THex w | TStr w => w
  | TNet a b c d l => a ++ 46 :: b ++ 46 :: c ++ 46 :: d ++ 47 :: l
  | TKw k => kw_text k
  end.

Definition text (ts : list tok) : list N := concat (List.map text1 ts).

Definition sep_char (c : N) : bool := (c =? 40) || (c =? 41) || (c =? 44) || (c =? 45) || (c =? 61).
Definition sep_start (s : list N) : bool := match s with [] => true | c :: _ => sep_char c end.

(** a token the lexer returns for exactly its text *)
Definition tok_valid (t : tok) : bool :=
  match t with
  | TDigits w => is_dec w
  | THex w => match w with [] => false | _ => forallb is_hex w && negb (is_dec w) end
  | TNet a b c d l => is_dec a && is_dec b && is_dec c && is_dec d && is_dec l
  | TStr w => match w with [] => false | _ => forallb is_alpha w && negb (forallb is_hex w) &&
                match word_tok w with TStr _ => true | _ => false end && negb (weqb w (str "cls")) end
  | _ => true
  end.

(** what may follow it without changing how it is lexed *)
Definition follow_ok (t : tok) (s : list N) : bool :=
  match t with
  | TEq => match strip [48; 120] s with Some _ => false | None => true end
  | TDigits _ | THex _ | TNet _ _ _ _ _ | TStr _ | TKw _ | TTrue | TFalse => sep_start s
  | _ => true
  end.

Fixpoint chain_ok (ts : list tok) : bool :=
  match ts with
  | [] => true
  | t :: r => tok_valid t && follow_ok t (text r) && chain_ok r
  end.

Lemma sep_char_cases c : sep_char c = true -> c = 40 \/ c = 41 \/ c = 44 \/ c = 45 \/ c = 61.
Proof. unfold sep_char. rewrite !orb_true_iff, !N.eqb_eq. tauto. Qed.

Lemma sep_not_hex c : sep_char c = true -> is_hex c = false.
Proof. intros H. destruct (sep_char_cases c H) as [->|[->|[->|[->| ->]]]]; reflexivity. Qed.
Lemma sep_not_alpha c : sep_char c = true -> is_alpha c = false.
Proof. intros H. destruct (sep_char_cases c H) as [->|[->|[->|[->| ->]]]]; reflexivity. Qed.
Lemma sep_not_digit c : sep_char c = true -> is_digit c = false.
Proof. intros H. destruct (sep_char_cases c H) as [->|[->|[->|[->| ->]]]]; reflexivity. Qed.

Lemma span_app p w s :
  forallb p w = true -> match s with [] => True | c :: _ => p c = false end ->
  span p (w ++ s) = (w, s).
Proof.
  intros Hw Hs. induction w as [|x w IH].
  - cbn [app]. destruct s as [|c s']; [reflexivity|]. cbn [span]. rewrite Hs. reflexivity.
  - cbn [forallb] in Hw. apply andb_true_iff in Hw as [Hx Hw].
    cbn [app span]. rewrite Hx, (IH Hw). reflexivity.
Qed.

Lemma span_sep p w s :
  (forall c, sep_char c = true -> p c = false) ->
  forallb p w = true -> sep_start s = true -> span p (w ++ s) = (w, s).
Proof.
  intros Hp Hw Hs. apply span_app; [exact Hw|].
  destruct s as [|c s']; [exact I|]. apply Hp. exact Hs.
Qed.

Lemma span_fst_forallb p s : forallb p (fst (span p s)) = true.
Proof.
  induction s as [|c r IH]; [reflexivity|]. cbn [span].
  destruct (p c) eqn:E; [|reflexivity].
  destruct (span p r) as [a b]. cbn [fst forallb] in *. rewrite E, IH. reflexivity.
Qed.

Lemma digits_tok_app w s :
  is_dec w = true -> match s with [] => True | c :: _ => is_digit c = false end ->
  digits_tok (w ++ s) = Some (w, s).
Proof.
  intros Hw Hs. destruct w as [|c r]; [discriminate|].
  cbn [is_dec] in Hw. cbn [app digits_tok].
  destruct (N.eqb_spec c 48) as [->|Hc].
  - destruct r; [reflexivity|discriminate].
  - apply andb_true_iff in Hw as [H1 H2]. rewrite H1.
    change (c :: r ++ s) with ((c :: r) ++ s). rewrite span_app; [reflexivity| |exact Hs].
    cbn [forallb]. rewrite H1, H2. reflexivity.
Qed.

Lemma net_tok_text a b c d l s :
  is_dec a = true -> is_dec b = true -> is_dec c = true -> is_dec d = true -> is_dec l = true ->
  sep_start s = true ->
  net_tok (a ++ 46 :: b ++ 46 :: c ++ 46 :: d ++ 47 :: l ++ s) = Some (TNet a b c d l, s).
Proof.
  intros Ha Hb Hc Hd Hl Hs. unfold net_tok.
  rewrite (digits_tok_app a) by (assumption || reflexivity). cbn [expect N.eqb Pos.eqb].
  rewrite (digits_tok_app b) by (assumption || reflexivity). cbn [expect N.eqb Pos.eqb].
  rewrite (digits_tok_app c) by (assumption || reflexivity). cbn [expect N.eqb Pos.eqb].
  rewrite (digits_tok_app d) by (assumption || reflexivity). cbn [expect N.eqb Pos.eqb].
  rewrite (digits_tok_app l); [reflexivity|assumption|].
  destruct s as [|x s']; [exact I|]. apply sep_not_digit. exact Hs.
Qed.

Lemma is_hex_not46 x : is_hex x = true -> (x =? 46) = false.
Proof.
  intros H. destruct (N.eqb_spec x 46) as [->|]; [discriminate H|reflexivity].
Qed.

Lemma expect_span w s :
  forallb is_hex w = true -> sep_start s = true ->
  expect 46 (snd (span is_digit (w ++ s))) = None.
Proof.
  intros Hw Hs. induction w as [|x w IH].
  - cbn [app]. destruct s as [|c s']; [reflexivity|].
    cbn [span]. rewrite (sep_not_digit c Hs). cbn [snd expect].
    destruct (sep_char_cases c Hs) as [->|[->|[->|[->| ->]]]]; reflexivity.
  - cbn [forallb] in Hw. apply andb_true_iff in Hw as [Hx Hw]. cbn [app span].
    destruct (is_digit x).
    + destruct (span is_digit (w ++ s)) as [p q] eqn:E. cbn [snd] in *. apply IH. exact Hw.
    + cbn [snd expect]. rewrite (is_hex_not46 x Hx). reflexivity.
Qed.

(** the tests of lex1 that precede the digit / letter branches *)
Lemma lex1_digit c r : is_digit c = true ->
  lex1 c r = match net_tok (c :: r) with
             | Some (t, r') => (Some t, r')
             | None => let '(h, rh) := span is_hex (c :: r) in
                       if is_dec h then (Some (TDigits h), rh) else (Some (THex h), rh)
             end.
Proof.
  intros H. apply is_digit_spec in H. unfold lex1, is_ws.
  replace (c =? 32) with false by lia. replace (c =? 13) with false by lia.
  replace (c =? 10) with false by lia. replace (c =? 9) with false by lia.
  replace (c =? 40) with false by lia. replace (c =? 41) with false by lia.
  replace (c =? 44) with false by lia. replace (c =? 45) with false by lia.
  replace (c =? 61) with false by lia.
  replace (is_digit c) with true by (symmetry; apply is_digit_spec; lia). reflexivity.
Qed.

Lemma is_alpha_spec c : is_alpha c = true <-> (97 <= c <= 122) \/ (65 <= c <= 90).
Proof. unfold is_alpha. rewrite orb_true_iff, !andb_true_iff, !N.leb_le. tauto. Qed.

Lemma lex1_alpha c r : is_alpha c = true ->
  lex1 c r =
    let '(l, rl) := span is_alpha (c :: r) in
    match (if weqb l (str "cls") then strip [61] rl else None) with
    | Some r' => (Some TClsEq, r')
    | None =>
      if forallb is_hex l then let '(h, rh) := span is_hex (c :: r) in (Some (THex h), rh)
      else (Some (word_tok l), rl)
    end.
Proof.
  intros H. pose proof H as H'. apply is_alpha_spec in H. unfold lex1, is_ws.
  replace (c =? 32) with false by lia. replace (c =? 13) with false by lia.
  replace (c =? 10) with false by lia. replace (c =? 9) with false by lia.
  replace (c =? 40) with false by lia. replace (c =? 41) with false by lia.
  replace (c =? 44) with false by lia. replace (c =? 45) with false by lia.
  replace (c =? 61) with false by lia.
  replace (is_digit c) with false by (unfold is_digit; lia).
  rewrite H'. reflexivity.
Qed.

Lemma weqb_eq a b : weqb a b = true <-> a = b.
Proof. apply bytes_eqb_eq. Qed.

(** a run of letters that is not all hex and not cls, followed by a separator *)
Lemma lex1_word c w s :
  forallb is_alpha (c :: w) = true -> forallb is_hex (c :: w) = false ->
  weqb (c :: w) (str "cls") = false -> sep_start s = true ->
  lex1 c (w ++ s) = (Some (word_tok (c :: w)), s).
Proof.
  intros Ha Hh Hc Hs. rewrite lex1_alpha by (cbn [forallb] in Ha; apply andb_true_iff in Ha; tauto).
  change (c :: w ++ s) with ((c :: w) ++ s).
  rewrite (span_sep is_alpha (c :: w) s sep_not_alpha Ha Hs).
  rewrite Hc, Hh. reflexivity.
Qed.

Lemma is_dec_head_digit c w : is_dec (c :: w) = true -> is_digit c = true.
Proof.
  cbn [is_dec]. destruct (N.eqb_spec c 48) as [->|_]; [reflexivity|].
  intros H. apply andb_true_iff in H. tauto.
Qed.

Lemma is_dec_hex w : is_dec w = true -> forallb is_hex w = true.
Proof. intros H. apply (forallb_impl is_digit is_hex w is_digit_hex). now apply is_dec_digits. Qed.

Lemma expect46_sep s : sep_start s = true -> expect 46 s = None.
Proof.
  destruct s as [|c s']; [reflexivity|]. cbn [sep_start expect]. intros H.
  destruct (sep_char_cases c H) as [->|[->|[->|[->| ->]]]]; reflexivity.
Qed.

Lemma strip0x_dec w s : is_dec w = true -> sep_start s = true -> strip [48; 120] (w ++ s) = None.
Proof.
  intros Hw Hs. destruct w as [|c r]; [discriminate|]. cbn [is_dec] in Hw. cbn [app strip].
  destruct (N.eqb_spec c 48) as [->|Hc].
  - destruct r; [|discriminate]. cbn [app N.eqb Pos.eqb].
    destruct s as [|x s']; [reflexivity|]. cbn [sep_start] in Hs.
    destruct (sep_char_cases x Hs) as [->|[->|[->|[->| ->]]]]; reflexivity.
  - replace (48 =? c) with false by lia. reflexivity.
Qed.

Lemma lex1_text t s c w :
  tok_valid t = true -> follow_ok t s = true -> text1 t = c :: w ->
  lex1 c (w ++ s) = (Some t, s).
Proof.
  intros Hv Hf Ht. destruct t; cbn [text1 tok_valid follow_ok] in *.
  - (* TEq *) inversion Ht; subst. cbn [app]. unfold lex1. cbn [is_ws N.eqb Pos.eqb orb].
    destruct (strip [48; 120] s); [discriminate|reflexivity].
  - inversion Ht; subst. reflexivity.
  - inversion Ht; subst. reflexivity.
  - inversion Ht; subst. reflexivity.
  - inversion Ht; subst. reflexivity.
  - inversion Ht; subst. reflexivity.
  - inversion Ht; subst. reflexivity.
  - (* TTrue *) inversion Ht; subst. now rewrite lex1_word.
  - inversion Ht; subst. now rewrite lex1_word.
  - (* TDigits *) subst w0. rewrite lex1_digit by (eapply is_dec_head_digit; exact Hv).
    change (c :: w ++ s) with ((c :: w) ++ s).
    unfold net_tok. rewrite digits_tok_app; [|exact Hv|].
    2:{ destruct s as [|x s']; [exact I|]. now apply sep_not_digit. }
    rewrite (expect46_sep s Hf).
    rewrite (span_sep is_hex (c :: w) s sep_not_hex (is_dec_hex _ Hv) Hf). rewrite Hv. reflexivity.
  - (* THex *) subst w0. apply andb_true_iff in Hv as [Hh Hd]. apply negb_true_iff in Hd.
    destruct (is_digit c) eqn:Dc.
    + rewrite lex1_digit by exact Dc.
      change (c :: w ++ s) with ((c :: w) ++ s).
      assert (Hn : net_tok ((c :: w) ++ s) = None).
      { unfold net_tok, digits_tok. cbn [app].
        destruct (N.eqb_spec c 48) as [->|Hc].
        - destruct w as [|x w'].
          + cbn [app]. now rewrite expect46_sep.
          + cbn [app expect]. cbn [forallb] in Hh.
            apply andb_true_iff in Hh as [_ Hh]. apply andb_true_iff in Hh as [Hx _].
            rewrite (is_hex_not46 x Hx). reflexivity.
        - rewrite Dc. change (c :: w ++ s) with ((c :: w) ++ s).
          pose proof (expect_span (c :: w) s Hh Hf) as E.
          destruct (span is_digit ((c :: w) ++ s)) as [p q]. cbn [snd] in E. rewrite E. reflexivity. }
      rewrite Hn. rewrite (span_sep is_hex (c :: w) s sep_not_hex Hh Hf). rewrite Hd. reflexivity.
    + assert (Ac : is_alpha c = true).
      { cbn [forallb] in Hh. apply andb_true_iff in Hh as [Hc _]. unfold is_hex in Hc. rewrite Dc in Hc.
        cbn [orb] in Hc. apply is_alpha_spec. lia. }
      rewrite lex1_alpha by exact Ac. change (c :: w ++ s) with ((c :: w) ++ s).
      destruct (span is_alpha ((c :: w) ++ s)) as [l rl] eqn:El.
      assert (Hl : forallb is_hex l = true).
      { (* the letter run stops inside w or at the separator *)
        assert (G : forall u, forallb is_hex u = true -> forallb is_hex (fst (span is_alpha (u ++ s))) = true).
        { induction u as [|x u IH]; intros Hu.
          - cbn [app]. destruct s as [|y s']; [reflexivity|]. cbn [span].
            rewrite (sep_not_alpha y Hf). reflexivity.
          - cbn [forallb] in Hu. apply andb_true_iff in Hu as [Hx Hu]. cbn [app span].
            destruct (is_alpha x); [|reflexivity].
            destruct (span is_alpha (u ++ s)) as [p q] eqn:E. cbn [fst forallb] in *.
            rewrite Hx. now apply IH. }
        specialize (G (c :: w) Hh). rewrite El in G. exact G. }
      assert (Hcls : weqb l (str "cls") = false).
      { destruct (weqb l (str "cls")) eqn:E; [|reflexivity].
        apply weqb_eq in E. subst l. discriminate Hl. }
      rewrite Hcls, Hl. rewrite (span_sep is_hex (c :: w) s sep_not_hex Hh Hf). reflexivity.
  - (* TNet *) apply andb_true_iff in Hv as [Hv Hl]. apply andb_true_iff in Hv as [Hv Hd].
    apply andb_true_iff in Hv as [Hv Hc]. apply andb_true_iff in Hv as [Ha Hb].
    destruct a as [|x a']; [discriminate|]. cbn [app] in Ht. inversion Ht; subst.
    rewrite lex1_digit by (eapply is_dec_head_digit; exact Ha).
    replace (c :: (a' ++ 46 :: b ++ 46 :: c0 ++ 46 :: d ++ 47 :: l) ++ s)
      with ((c :: a') ++ 46 :: b ++ 46 :: c0 ++ 46 :: d ++ 47 :: l ++ s).
    2:{ cbn [app]. f_equal. rewrite <- !app_assoc. cbn [app]. repeat (f_equal; rewrite <- ?app_assoc; cbn [app]). }
    rewrite net_tok_text by assumption. reflexivity.
  - (* TKw *) destruct k; inversion Ht; subst; now rewrite lex1_word.
  - (* TStr *) subst w0. apply andb_true_iff in Hv as [Hv Hc]. apply andb_true_iff in Hv as [Hv Hw].
    apply andb_true_iff in Hv as [Ha Hh]. apply negb_true_iff in Hh, Hc.
    rewrite lex1_word by assumption. destruct (word_tok (c :: w)) eqn:E; try discriminate.
    f_equal. f_equal.
    unfold word_tok in E. destruct (weqb (c :: w) (str "true")); [discriminate|].
    destruct (weqb (c :: w) (str "false")); [discriminate|].
    destruct (find _ kw_table); [discriminate|]. congruence.
Qed.



Lemma text_cons t ts : text (t :: ts) = text1 t ++ text ts.
Proof. reflexivity. Qed.
Lemma text_app a b : text (a ++ b) = text a ++ text b.
Proof. unfold text. rewrite map_app, concat_app. reflexivity. Qed.

Lemma tok_valid_nonempty t : tok_valid t = true -> text1 t <> [].
Proof.
  destruct t; cbn [tok_valid text1]; try discriminate.
  - intros H. now apply is_dec_nonempty.
  - destruct w; discriminate.
  - intros H. destruct a; [discriminate|discriminate].
  - destruct k; discriminate.
  - destruct w; discriminate.
Qed.

Lemma lex_text : forall ts, chain_ok ts = true ->
  forall fuel, (length (text ts) <= fuel)%nat -> lex fuel (text ts) = ts.
Proof.
  induction ts as [|t ts IH]; intros Hc fuel Hf.
  - destruct fuel; reflexivity.
  - cbn [chain_ok] in Hc. apply andb_true_iff in Hc as [Hc Hr]. apply andb_true_iff in Hc as [Hv Hfo].
    rewrite text_cons in *. destruct (text1 t) as [|c w] eqn:Et.
    + exfalso. now apply (tok_valid_nonempty t Hv).
    + cbn [app length] in Hf. destruct fuel as [|f]; [lia|].
      cbn [app lex]. rewrite (lex1_text t (text ts) c w Hv Hfo Et).
      f_equal. apply IH; [exact Hr|]. rewrite app_length in Hf. lia.
Qed.

(** ------------------------------------------------------------------
    The tokens of a printed tree. *)
Definition hex_tok (w : list N) : tok := if is_dec w then TDigits w else THex w.

Fixpoint tjoin (l : list (list tok)) : list tok :=
  match l with
  | [] => []
  | [x] => x
  | x :: r => x ++ TComma :: tjoin r
  end.

Definition net_tokn (ip len : N) : tok :=
  TNet (dec (ip / 16777216 mod 256)) (dec (ip / 65536 mod 256)) (dec (ip / 256 mod 256))
       (dec (ip mod 256)) (dec len).

Fixpoint toks (e : cond) : list tok :=
  match e with
  | CAll l => TKw KAll :: TLP :: tjoin (List.map toks l) ++ [TRP]
  | CAny l => TKw KAny :: TLP :: tjoin (List.map toks l) ++ [TRP]
  | CNot c => TKw KNot :: TLP :: toks c ++ [TRP]
  | CBool b => [TKw KBool; TEq; if b then TTrue else TFalse]
  | CSrc ip len => [TKw KSrc; TEq; net_tokn ip len]
  | CDst ip len => [TKw KDst; TEq; net_tokn ip len]
  | CTos v => [TKw KTos; TEq0x; hex_tok (hex8 v)]
  | CDscp v => [TKw KDscp; TEq0x; hex_tok (hex8 v)]
  | CProto v => [TKw KProtocol; TEq; TStr (proto_name v)]
  | CSrcPort lo hi => [TKw KSrcPort; TEq; TDigits (dec lo); TDash; TDigits (dec hi)]
  | CDstPort lo hi => [TKw KDstPort; TEq; TDigits (dec lo); TDash; TDigits (dec hi)]
  | CCls n => [TClsEq; TDigits (dec n)]
  end.

Lemma text_tjoin l : text (tjoin l) = join [44] (List.map text l).
Proof.
  induction l as [|x r IH]; [reflexivity|].
  destruct r as [|y r']; [reflexivity|].
  change (tjoin (x :: y :: r')) with (x ++ TComma :: tjoin (y :: r')).
  change (join [44] (List.map text (x :: y :: r'))) with (text x ++ [44] ++ join [44] (List.map text (y :: r'))).
  rewrite text_app, text_cons, IH. reflexivity.
Qed.

Lemma text_hex_tok w : text1 (hex_tok w) = w.
Proof. unfold hex_tok. destruct (is_dec w); reflexivity. Qed.

Lemma print_toks : forall e, print e = text (toks e).
Proof.
  induction e as [l IH|l IH|c IH|b|ip len|ip len|t|d|n|lo hi|lo hi|n] using cond_ind'.
  - cbn [print toks]. rewrite !text_cons, text_app, text_tjoin, map_map.
    replace (List.map (fun x => text (toks x)) l) with (List.map print l).
    + reflexivity.
    + induction IH as [|x r Hx Hr IHr]; [reflexivity|]. cbn [List.map]. now rewrite Hx, IHr.
  - cbn [print toks]. rewrite !text_cons, text_app, text_tjoin, map_map.
    replace (List.map (fun x => text (toks x)) l) with (List.map print l).
    + reflexivity.
    + induction IH as [|x r Hx Hr IHr]; [reflexivity|]. cbn [List.map]. now rewrite Hx, IHr.
  - cbn [print toks]. rewrite !text_cons, text_app, <- IH. reflexivity.
  - destruct b; reflexivity.
  - cbn [print toks]. rewrite !text_cons. cbn [text1 net_tokn kw_text]. unfold netstr, ip4str, text. cbn [List.map concat].
    rewrite app_nil_r, <- !app_assoc. reflexivity.
  - cbn [print toks]. rewrite !text_cons. cbn [text1 net_tokn kw_text]. unfold netstr, ip4str, text. cbn [List.map concat].
    rewrite app_nil_r, <- !app_assoc. reflexivity.
  - cbn [print toks]. rewrite !text_cons, text_hex_tok. cbn [text1 kw_text]. unfold text. cbn [List.map concat].
    rewrite app_nil_r. reflexivity.
  - cbn [print toks]. rewrite !text_cons, text_hex_tok. cbn [text1 kw_text]. unfold text. cbn [List.map concat].
    rewrite app_nil_r. reflexivity.
  - cbn [print toks]. rewrite !text_cons. cbn [text1 kw_text]. unfold text. cbn [List.map concat].
    rewrite app_nil_r. reflexivity.
  - cbn [print toks]. rewrite !text_cons. cbn [text1 kw_text]. unfold text. cbn [List.map concat].
    rewrite app_nil_r. reflexivity.
  - cbn [print toks]. rewrite !text_cons. cbn [text1 kw_text]. unfold text. cbn [List.map concat].
    rewrite app_nil_r. reflexivity.
  - cbn [print toks]. rewrite !text_cons. cbn [text1 kw_text]. unfold text. cbn [List.map concat].
    rewrite app_nil_r. reflexivity.
Qed.



Lemma chain_ok_cons t ts : chain_ok (t :: ts) = tok_valid t && follow_ok t (text ts) && chain_ok ts.
Proof. reflexivity. Qed.

Lemma hex8_sweep : forall v, v < 256 ->
  tok_valid (hex_tok (hex8 v)) = true /\ hex_u8 (hex8 v) = Some v.
Proof.
  intros v Hv.
  pose proof (sweep256 (fun v => tok_valid (hex_tok (hex8 v)) &&
      match hex_u8 (hex8 v) with Some v' => v' =? v | None => false end)) as S.
  specialize (S ltac:(vm_compute; reflexivity) v Hv). cbv beta in S.
  apply andb_true_iff in S as [S1 S2]. split; [exact S1|].
  destruct (hex_u8 (hex8 v)); [|discriminate]. apply N.eqb_eq in S2. now subst.
Qed.

Lemma strip0x_dec' w x s : is_dec w = true -> x <> 120 -> strip [48; 120] (w ++ x :: s) = None.
Proof.
  intros Hw Hx. destruct w as [|c r]; [discriminate|]. cbn [is_dec] in Hw. cbn [app strip].
  destruct (N.eqb_spec c 48) as [->|Hc].
  - destruct r; [|discriminate]. cbn [app]. rewrite N.eqb_refl. replace (120 =? x) with false by lia. reflexivity.
  - replace (48 =? c) with false by lia. reflexivity.
Qed.

Lemma follow_hex_tok w s : follow_ok (hex_tok w) s = sep_start s.
Proof. unfold hex_tok. destruct (is_dec w); reflexivity. Qed.

Lemma sep_start_text_cons t ts : sep_char (hd 0 (text1 t)) = true -> text1 t <> [] -> sep_start (text (t :: ts)) = true.
Proof.
  intros H Hn. rewrite text_cons. destruct (text1 t) as [|c w]; [congruence|]. exact H.
Qed.

Lemma proto_printable_valid v : proto_printable v = true ->
  tok_valid (TStr (proto_name v)) = true /\ proto_of_name (proto_name v) = Some v.
Proof.
  unfold proto_printable. intros H.
  (* only finitely many names are printable: check each *)
  assert (In v (List.map fst proto_names) \/ proto_name v = []) as [Hin|He].
  { unfold proto_name. destruct (find (fun e => fst e =? v) proto_names) as [e|] eqn:E; [|now right].
    left. apply find_some in E as [Hin He]. apply N.eqb_eq in He. subst v. now apply in_map. }
  - revert H. cbn [List.map fst proto_names] in Hin.
    repeat (destruct Hin as [<-|Hin]; [vm_compute; intros H; try discriminate H; split; reflexivity|]).
    destruct Hin.
  - rewrite He in H. discriminate.
Qed.

(** the token list of a printable tree is lexed back from its text *)
Lemma chain_toks : forall e, printable e = true ->
  forall r, chain_ok r = true -> sep_start (text r) = true -> chain_ok (toks e ++ r) = true.
Proof.
  induction e as [l IH|l IH|c IH|b|ip len|ip len|t|d|n|lo hi|lo hi|n] using cond_ind';
    intros Hp r Hr Hs.
  - cbn [toks app]. rewrite !chain_ok_cons. cbn [tok_valid follow_ok andb].
    rewrite <- app_assoc. cbn [app].
    assert (G : forall m, Forall (fun e => printable e = true ->
                 forall r, chain_ok r = true -> sep_start (text r) = true -> chain_ok (toks e ++ r) = true) m ->
               m <> [] -> forallb printable m = true ->
               chain_ok (tjoin (List.map toks m) ++ TRP :: r) = true).
    { clear -Hr Hs. induction m as [|x m IHm]; intros F Hne Hpm; [congruence|].
      inversion F as [|? ? Fx Fm]; subst. cbn [forallb] in Hpm. apply andb_true_iff in Hpm as [Px Pm].
      destruct m as [|y m'].
      - cbn [List.map tjoin].
        apply Fx; [exact Px| |reflexivity]. rewrite chain_ok_cons. cbn [tok_valid follow_ok andb]. exact Hr.
      - change (tjoin (List.map toks (x :: y :: m'))) with (toks x ++ TComma :: tjoin (List.map toks (y :: m'))).
        pose proof (IHm Fm ltac:(discriminate) Pm) as C. rewrite <- app_assoc. cbn [app].
        apply Fx; [exact Px| |reflexivity]. rewrite chain_ok_cons. cbn [tok_valid follow_ok andb]. exact C. }
    cbn [printable] in Hp. destruct l as [|x l']; [discriminate|].
    pose proof (G (x :: l') IH ltac:(discriminate) Hp) as C.
    rewrite C. rewrite text_cons. cbn [text1 app sep_start sep_char N.eqb Pos.eqb orb]. reflexivity.
  - cbn [toks app]. rewrite !chain_ok_cons. cbn [tok_valid follow_ok andb].
    rewrite <- app_assoc. cbn [app].
    assert (G : forall m, Forall (fun e => printable e = true ->
                 forall r, chain_ok r = true -> sep_start (text r) = true -> chain_ok (toks e ++ r) = true) m ->
               m <> [] -> forallb printable m = true ->
               chain_ok (tjoin (List.map toks m) ++ TRP :: r) = true).
    { clear -Hr Hs. induction m as [|x m IHm]; intros F Hne Hpm; [congruence|].
      inversion F as [|? ? Fx Fm]; subst. cbn [forallb] in Hpm. apply andb_true_iff in Hpm as [Px Pm].
      destruct m as [|y m'].
      - cbn [List.map tjoin].
        apply Fx; [exact Px| |reflexivity]. rewrite chain_ok_cons. cbn [tok_valid follow_ok andb]. exact Hr.
      - change (tjoin (List.map toks (x :: y :: m'))) with (toks x ++ TComma :: tjoin (List.map toks (y :: m'))).
        pose proof (IHm Fm ltac:(discriminate) Pm) as C. rewrite <- app_assoc. cbn [app].
        apply Fx; [exact Px| |reflexivity]. rewrite chain_ok_cons. cbn [tok_valid follow_ok andb]. exact C. }
    cbn [printable] in Hp. destruct l as [|x l']; [discriminate|].
    pose proof (G (x :: l') IH ltac:(discriminate) Hp) as C.
    rewrite C. rewrite text_cons. cbn [text1 app sep_start sep_char N.eqb Pos.eqb orb]. reflexivity.
  - cbn [toks app]. rewrite !chain_ok_cons. cbn [tok_valid follow_ok andb].
    rewrite <- app_assoc. cbn [app]. cbn [printable] in Hp.
    rewrite IH; [| exact Hp | rewrite chain_ok_cons; cbn [tok_valid follow_ok andb]; exact Hr | reflexivity].
    rewrite text_cons. reflexivity.
  - cbn [toks app]. rewrite !chain_ok_cons. rewrite Hr. destruct b; cbn [tok_valid follow_ok andb]; rewrite !text_cons;
      cbn [text1 kw_text app]; rewrite Hs; reflexivity.
  - cbn [toks app printable] in *. apply andb_true_iff in Hp as [H1 H2].
    unfold net_tokn. rewrite !chain_ok_cons, Hr. cbn [tok_valid follow_ok andb]. rewrite !is_dec_dec. cbn [andb].
    rewrite !text_cons. cbn [text1]. rewrite Hs.
    rewrite <- !app_assoc. cbn [app]. rewrite <- !app_assoc. cbn [app].
    rewrite strip0x_dec' by (try apply is_dec_dec; discriminate). reflexivity.
  - cbn [toks app printable] in *. apply andb_true_iff in Hp as [H1 H2].
    unfold net_tokn. rewrite !chain_ok_cons, Hr. cbn [tok_valid follow_ok andb]. rewrite !is_dec_dec. cbn [andb].
    rewrite !text_cons. cbn [text1]. rewrite Hs.
    rewrite <- !app_assoc. cbn [app]. rewrite <- !app_assoc. cbn [app].
    rewrite strip0x_dec' by (try apply is_dec_dec; discriminate). reflexivity.
  - cbn [toks app printable] in *. apply N.ltb_lt in Hp. destruct (hex8_sweep t Hp) as [V _].
    rewrite !chain_ok_cons, Hr, V, follow_hex_tok. cbn [tok_valid follow_ok andb]. rewrite Hs. reflexivity.
  - cbn [toks app printable] in *. apply N.ltb_lt in Hp. destruct (hex8_sweep d Hp) as [V _].
    rewrite !chain_ok_cons, Hr, V, follow_hex_tok. cbn [tok_valid follow_ok andb]. rewrite Hs. reflexivity.
  - cbn [toks app printable] in *. destruct (proto_printable_valid n Hp) as [V _].
    rewrite !chain_ok_cons, Hr, V. cbn [tok_valid follow_ok andb]. rewrite Hs.
    rewrite !text_cons. cbn [text1].
    destruct (proto_name n) as [|c w] eqn:E; [discriminate V|].
    cbn [app strip]. cbn [tok_valid] in V.
    apply andb_true_iff in V as [V _]. apply andb_true_iff in V as [V _]. apply andb_true_iff in V as [V _].
    cbn [forallb] in V. apply andb_true_iff in V as [Vc _]. apply is_alpha_spec in Vc.
    replace (48 =? c) with false by lia. reflexivity.
  - cbn [toks app printable] in *.
    rewrite !chain_ok_cons, Hr. cbn [tok_valid follow_ok andb]. rewrite !is_dec_dec, Hs. cbn [andb].
    rewrite !text_cons. cbn [text1]. cbn [app sep_start sep_char N.eqb Pos.eqb orb].
    rewrite strip0x_dec' by (try apply is_dec_dec; discriminate). reflexivity.
  - cbn [toks app printable] in *.
    rewrite !chain_ok_cons, Hr. cbn [tok_valid follow_ok andb]. rewrite !is_dec_dec, Hs. cbn [andb].
    rewrite !text_cons. cbn [text1]. cbn [app sep_start sep_char N.eqb Pos.eqb orb].
    rewrite strip0x_dec' by (try apply is_dec_dec; discriminate). reflexivity.
  - cbn [toks app]. rewrite !chain_ok_cons, Hr. cbn [tok_valid follow_ok andb]. rewrite is_dec_dec, Hs. reflexivity.
Qed.



(** fuel the parser needs for a tree *)
Fixpoint need (e : cond) : nat :=
  match e with
  | CAll l | CAny l => S (fold_right (fun x acc => S (need x + acc)) O l)
  | CNot c => S (need c)
  | _ => 1%nat
  end.
Definition needs (l : list cond) : nat := fold_right (fun x acc => S (need x + acc)) O l.

Lemma cidr_dec ip len : ip < 4294967296 -> len <= 32 ->
  cidr (dec (ip / 16777216 mod 256)) (dec (ip / 65536 mod 256)) (dec (ip / 256 mod 256))
       (dec (ip mod 256)) (dec len) = Some (N.land ip (mask_of len), len).
Proof.
  intros Hi Hl. unfold cidr. rewrite !undec_dec.
  replace ((ip / 16777216 mod 256 <=? 255) && (ip / 65536 mod 256 <=? 255) && (ip / 256 mod 256 <=? 255)
           && (ip mod 256 <=? 255) && (len <=? 32)) with true by lia.
  f_equal. f_equal. f_equal. lia.
Qed.

Lemma port_dec v : v < 65536 -> port (dec v) = Some v.
Proof. intros H. unfold port. rewrite undec_dec. replace (v <=? 65535) with true by lia. reflexivity. Qed.

Lemma hex_tok_cases w : hex_tok w = TDigits w \/ hex_tok w = THex w.
Proof. unfold hex_tok. destruct (is_dec w); auto. Qed.

Lemma pcond_leaf f ts : 
  match ts with
  | TKw KAll :: TLP :: _ | TKw KAny :: TLP :: _ | TKw KNot :: TLP :: _ => False
  | _ => True
  end -> pcond (S f) ts = leaf ts.
Proof.
  intros H. cbn [pcond].
  destruct ts as [|t1 ts]; [reflexivity|]. destruct t1; try reflexivity.
  destruct k; try reflexivity; destruct ts as [|t2 ts]; try reflexivity; destruct t2; try reflexivity; contradiction.
Qed.

Lemma pcond_toks : forall e, printable e = true ->
  forall fuel r, (need e <= fuel)%nat -> pcond fuel (toks e ++ r) = Some (norm e, r).
Proof.
  induction e as [l IH|l IH|c IH|b|ip len|ip len|t|d|n|lo hi|lo hi|n] using cond_ind';
    intros Hp fuel r Hf.
  - cbn [need] in Hf. fold (needs l) in Hf. destruct fuel as [|f]; [lia|].
    cbn [toks app pcond]. rewrite <- app_assoc. cbn [app norm].
    assert (G : forall m, Forall (fun e => printable e = true -> forall fuel r, (need e <= fuel)%nat ->
                  pcond fuel (toks e ++ r) = Some (norm e, r)) m ->
                m <> [] -> forallb printable m = true -> forall f, (needs m <= f)%nat ->
                pargs f (tjoin (List.map toks m) ++ TRP :: r) = Some (List.map norm m, r)).
    { clear. induction m as [|x m IHm]; intros F Hne Hpm f Hf; [congruence|].
      inversion F as [|? ? Fx Fm]; subst. cbn [forallb] in Hpm. apply andb_true_iff in Hpm as [Px Pm].
      unfold needs in Hf. cbn [fold_right] in Hf. fold (needs m) in Hf.
      destruct f as [|f]; [lia|]. cbn [pargs].
      destruct m as [|y m'].
      - cbn [List.map tjoin]. rewrite (Fx Px f (TRP :: r)) by lia. reflexivity.
      - change (tjoin (List.map toks (x :: y :: m'))) with (toks x ++ TComma :: tjoin (List.map toks (y :: m'))).
        rewrite <- app_assoc. cbn [app].
        rewrite (Fx Px f) by lia.
        rewrite (IHm Fm ltac:(discriminate) Pm f) by lia. reflexivity. }
    cbn [printable] in Hp. destruct l as [|x l']; [discriminate|].
    rewrite (G (x :: l') IH ltac:(discriminate) Hp f) by lia. reflexivity.
  - cbn [need] in Hf. fold (needs l) in Hf. destruct fuel as [|f]; [lia|].
    cbn [toks app pcond]. rewrite <- app_assoc. cbn [app norm].
    assert (G : forall m, Forall (fun e => printable e = true -> forall fuel r, (need e <= fuel)%nat ->
                  pcond fuel (toks e ++ r) = Some (norm e, r)) m ->
                m <> [] -> forallb printable m = true -> forall f, (needs m <= f)%nat ->
                pargs f (tjoin (List.map toks m) ++ TRP :: r) = Some (List.map norm m, r)).
    { clear. induction m as [|x m IHm]; intros F Hne Hpm f Hf; [congruence|].
      inversion F as [|? ? Fx Fm]; subst. cbn [forallb] in Hpm. apply andb_true_iff in Hpm as [Px Pm].
      unfold needs in Hf. cbn [fold_right] in Hf. fold (needs m) in Hf.
      destruct f as [|f]; [lia|]. cbn [pargs].
      destruct m as [|y m'].
      - cbn [List.map tjoin]. rewrite (Fx Px f (TRP :: r)) by lia. reflexivity.
      - change (tjoin (List.map toks (x :: y :: m'))) with (toks x ++ TComma :: tjoin (List.map toks (y :: m'))).
        rewrite <- app_assoc. cbn [app].
        rewrite (Fx Px f) by lia.
        rewrite (IHm Fm ltac:(discriminate) Pm f) by lia. reflexivity. }
    cbn [printable] in Hp. destruct l as [|x l']; [discriminate|].
    rewrite (G (x :: l') IH ltac:(discriminate) Hp f) by lia. reflexivity.
  - cbn [need] in Hf. destruct fuel as [|f]; [lia|].
    cbn [toks app pcond]. rewrite <- app_assoc. cbn [app norm printable] in *.
    rewrite (IH Hp f (TRP :: r)) by lia. reflexivity.
  - destruct fuel as [|f]; [cbn [need] in Hf; lia|]. destruct b; reflexivity.
  - destruct fuel as [|f]; [cbn [need] in Hf; lia|]. cbn [printable] in Hp. apply andb_true_iff in Hp as [H1 H2].
    cbn [toks app]. rewrite pcond_leaf by exact I. unfold net_tokn. cbn [leaf].
    rewrite cidr_dec by lia. reflexivity.
  - destruct fuel as [|f]; [cbn [need] in Hf; lia|]. cbn [printable] in Hp. apply andb_true_iff in Hp as [H1 H2].
    cbn [toks app]. rewrite pcond_leaf by exact I. unfold net_tokn. cbn [leaf].
    rewrite cidr_dec by lia. reflexivity.
  - destruct fuel as [|f]; [cbn [need] in Hf; lia|]. cbn [printable] in Hp. apply N.ltb_lt in Hp.
    destruct (hex8_sweep t Hp) as [_ U].
    cbn [toks app]. rewrite pcond_leaf by exact I.
    destruct (hex_tok_cases (hex8 t)) as [-> | ->]; cbn [leaf]; rewrite U; reflexivity.
  - destruct fuel as [|f]; [cbn [need] in Hf; lia|]. cbn [printable] in Hp. apply N.ltb_lt in Hp.
    destruct (hex8_sweep d Hp) as [_ U].
    cbn [toks app]. rewrite pcond_leaf by exact I.
    destruct (hex_tok_cases (hex8 d)) as [-> | ->]; cbn [leaf]; rewrite U; reflexivity.
  - destruct fuel as [|f]; [cbn [need] in Hf; lia|]. cbn [printable] in Hp.
    destruct (proto_printable_valid n Hp) as [_ U].
    cbn [toks app]. rewrite pcond_leaf by exact I. cbn [leaf]. rewrite U. reflexivity.
  - destruct fuel as [|f]; [cbn [need] in Hf; lia|]. cbn [printable] in Hp. apply andb_true_iff in Hp as [H1 H2].
    cbn [toks app]. rewrite pcond_leaf by exact I. cbn [leaf]. rewrite !port_dec by lia. reflexivity.
  - destruct fuel as [|f]; [cbn [need] in Hf; lia|]. cbn [printable] in Hp. apply andb_true_iff in Hp as [H1 H2].
    cbn [toks app]. rewrite pcond_leaf by exact I. cbn [leaf]. rewrite !port_dec by lia. reflexivity.
  - destruct fuel as [|f]; [cbn [need] in Hf; lia|].
    cbn [toks app]. rewrite pcond_leaf by exact I. cbn [leaf]. rewrite undec_dec. reflexivity.
Qed.



Lemma join_cons2 sep x y m : join sep (x :: y :: m) = x ++ sep ++ join sep (y :: m).
Proof. reflexivity. Qed.

Lemma need_le_print : forall e, (need e <= length (print e))%nat.
Proof.
  induction e as [l IH|l IH|c IH|b|ip len|ip len|t|d|n|lo hi|lo hi|n] using cond_ind';
    try (cbn [need print]; rewrite app_length;
         match goal with |- context [length (str ?s)] =>
           let k := eval vm_compute in (length (str s)) in change (length (str s)) with k end; lia).
  - cbn [need print]. fold (needs l). rewrite !app_length.
    change (length (str "all(")) with 4%nat. cbn [length].
    assert (G : (needs l <= length (join [44%N] (List.map print l)) + 1)%nat).
    { induction IH as [|x m Hx Hm IHm]; [cbn; lia|].
      unfold needs. cbn [fold_right]. fold (needs m).
      destruct m as [|y m'].
      - cbn [List.map join needs fold_right]. lia.
      - cbn [List.map]. rewrite join_cons2, !app_length. cbn [length]. cbn [List.map] in IHm. lia. }
    lia.
  - cbn [need print]. fold (needs l). rewrite !app_length.
    change (length (str "any(")) with 4%nat. cbn [length].
    assert (G : (needs l <= length (join [44%N] (List.map print l)) + 1)%nat).
    { induction IH as [|x m Hx Hm IHm]; [cbn; lia|].
      unfold needs. cbn [fold_right]. fold (needs m).
      destruct m as [|y m'].
      - cbn [List.map join needs fold_right]. lia.
      - cbn [List.map]. rewrite join_cons2, !app_length. cbn [length]. cbn [List.map] in IHm. lia. }
    lia.
  - cbn [need print]. rewrite !app_length. change (length (str "not(")) with 4%nat. cbn [length]. lia.
Qed.

(** printing then parsing a printable tree gives its normal form *)
Lemma parse_print : forall e, printable e = true -> parse (print e) = Some (norm e).
Proof.
  intros e Hp. unfold parse, parse_toks.
  assert (C : chain_ok (toks e) = true).
  { rewrite <- (app_nil_r (toks e)). now apply chain_toks. }
  rewrite (print_toks e) at 2 3. rewrite (lex_text (toks e) C) by (rewrite <- print_toks; lia).
  rewrite <- (app_nil_r (toks e)).
  rewrite (pcond_toks e Hp) by (pose proof (need_le_print e); lia). reflexivity.
Qed.

Lemma norm_eval : forall e v, eval (norm e) v = eval e v.
Proof.
  induction e as [l IH|l IH|c IH|b|ip len|ip len|t|d|n|lo hi|lo hi|n] using cond_ind'; intros v;
    try reflexivity.
  - cbn [norm]. rewrite !eval_all. induction IH as [|x m Hx Hm IHm]; [reflexivity|].
    cbn [List.map forallb]. now rewrite Hx, IHm.
  - cbn [norm]. rewrite !eval_any.
    assert (E : existsb (fun x => eval x v) (List.map norm l) = existsb (fun x => eval x v) l).
    { induction IH as [|x m' Hx Hm IHm]; [reflexivity|]. cbn [List.map existsb]. now rewrite Hx, IHm. }
    destruct l as [|y l0]; [reflexivity|]. exact E.
  - cbn [norm eval]. now rewrite IH.
  - cbn [norm eval]. destruct v; [|reflexivity]. unfold contains. now rewrite land_mask_idem.
  - cbn [norm eval]. destruct v; [|reflexivity]. unfold contains. now rewrite land_mask_idem.
Qed.

(** ------------------------------------------------------------------
    What the parser can return. *)
Definition tok_wf (t : tok) : bool := match t with TStr w => forallb is_alpha w | _ => true end.
Definition good (e : cond) : Prop := printable e = true /\ norm e = e.

Lemma land_mask_lt ip len : len <= 32 -> N.land ip (mask_of len) < 4294967296.
Proof.
  intros Hl. unfold mask_of.
  destruct (N.eq_dec (N.land ip (N.shiftl (N.ones len) (32 - len))) 0) as [->|Hz]; [lia|].
  apply N.log2_lt_pow2 with (b := 32); [lia|].
  apply N.le_lt_trans with (N.log2 (N.shiftl (N.ones len) (32 - len))).
  - eapply N.le_trans; [apply N.log2_land|apply N.le_min_r].
  - destruct (N.eq_dec len 0) as [->|Hn]; [cbn; lia|].
    assert (P : 1 < 2 ^ len) by (apply N.pow_gt_1; lia).
    assert (O : N.ones len <> 0) by (rewrite N.ones_equiv; lia).
    rewrite N.log2_shiftl by exact O.
    assert (N.log2 (N.ones len) < len).
    { apply N.log2_lt_pow2; [lia|]. rewrite N.ones_equiv. lia. }
    lia.
Qed.

Lemma cidr_good a b c d l ip len : cidr a b c d l = Some (ip, len) ->
  ip < 4294967296 /\ len <= 32 /\ N.land ip (mask_of len) = ip.
Proof.
  unfold cidr. destruct (_ && _) eqn:E; [|discriminate]. intros H. inversion H; subst. clear H.
  assert (undec l <= 32) by lia. repeat split.
  - now apply land_mask_lt.
  - assumption.
  - apply land_mask_idem.
Qed.

Lemma eqfold_alpha w n : eqfold w n = true -> forallb is_alpha w = true -> forallb is_alpha n = true.
Proof.
  unfold eqfold. revert n. induction w as [|x w IH]; intros [|y n]; cbn [List.map list_eqb forallb]; try discriminate; [reflexivity|].
  intros H Hw. apply andb_true_iff in H as [H1 H2]. apply andb_true_iff in Hw as [Hx Hw].
  rewrite (IH n H2 Hw), andb_true_r.
  apply N.eqb_eq in H1. apply is_alpha_spec in Hx. apply is_alpha_spec. unfold lower in H1.
  destruct ((65 <=? x) && (x <=? 90)) eqn:Ex; destruct ((65 <=? y) && (y <=? 90)) eqn:Ey; lia.
Qed.

Lemma proto_names_alpha_printable :
  forallb (fun e => implb (forallb is_alpha (snd e)) (proto_printable (fst e))) proto_names = true.
Proof. vm_compute. reflexivity. Qed.

Lemma proto_of_name_good w v : forallb is_alpha w = true -> proto_of_name w = Some v -> proto_printable v = true.
Proof.
  intros Hw. unfold proto_of_name. destruct (find _ proto_names) as [e|] eqn:E; [|discriminate].
  intros H. inversion H; subst. apply find_some in E as [Hin He].
  pose proof proto_names_alpha_printable as T. rewrite forallb_forall in T. specialize (T e Hin).
  rewrite (eqfold_alpha w (snd e) He Hw) in T. exact T.
Qed.

Lemma hex_u8_lt w v : hex_u8 w = Some v -> v < 256.
Proof. unfold hex_u8. destruct (unhex w <=? 255) eqn:E; [|discriminate]. intros H. inversion H. lia. Qed.
Lemma port_lt w v : port w = Some v -> v < 65536.
Proof. unfold port. destruct (undec w <=? 65535) eqn:E; [|discriminate]. intros H. inversion H. lia. Qed.

Ltac leaf_step :=
  match goal with
  | H : Some _ = Some _ |- _ => inversion H; subst; clear H
  | H : None = Some _ |- _ => discriminate H
  | H : context [match ?x with _ => _ end] |- _ =>
    match type of x with
    | list tok => destruct x
    | tok => destruct x
    | kw => destruct x
    | option _ => destruct x eqn:?
    | prod _ _ => destruct x
    end
  end.

Lemma leaf_sound ts e r : Forall (fun t => tok_wf t = true) ts -> leaf ts = Some (e, r) ->
  good e /\ Forall (fun t => tok_wf t = true) r.
Proof.
  intros F H. unfold leaf in H.
  repeat leaf_step;
  repeat match goal with F : Forall _ (_ :: _) |- _ => inversion F; subst; clear F end;
  (split; [|repeat (first [assumption | constructor])]); unfold good; cbn [printable norm].
  all: try (split; reflexivity).
  all: try match goal with H : cidr _ _ _ _ _ = Some _ |- _ =>
         destruct (cidr_good _ _ _ _ _ _ _ H) as (? & ? & ->); split; [lia|reflexivity] end.
  all: try match goal with H : hex_u8 _ = Some _ |- _ => apply hex_u8_lt in H; split; [lia|reflexivity] end.
  all: try match goal with H : proto_of_name _ = Some _ |- _ =>
         split; [eapply proto_of_name_good; [|exact H]; assumption|reflexivity] end.
  all: repeat match goal with H : port _ = Some _ |- _ => apply port_lt in H end; split; [lia|reflexivity].
Qed.



Notation wfs := (Forall (fun t => tok_wf t = true)).

Lemma pcond_cases f ts :
  (exists r, ts = TKw KAll :: TLP :: r) \/ (exists r, ts = TKw KAny :: TLP :: r) \/
  (exists r, ts = TKw KNot :: TLP :: r) \/ pcond (S f) ts = leaf ts.
Proof.
  destruct ts as [|t1 ts]; [now repeat right|].
  destruct t1; try (now repeat right).
  destruct k; try (now repeat right);
  destruct ts as [|t2 ts]; try (now repeat right); destruct t2; try (now repeat right); eauto.
Qed.

Lemma good_list_norm l : Forall good l -> List.map norm l = l /\ forallb printable l = true.
Proof.
  induction 1 as [|x m [Hp Hn] Hm [IH1 IH2]]; [split; reflexivity|].
  cbn [List.map forallb]. rewrite Hn, IH1, Hp, IH2. split; reflexivity.
Qed.

Lemma parser_sound : forall fuel,
  (forall ts e r, wfs ts -> pcond fuel ts = Some (e, r) -> good e /\ wfs r) /\
  (forall ts l r, wfs ts -> pargs fuel ts = Some (l, r) -> l <> [] /\ Forall good l /\ wfs r).
Proof.
  induction fuel as [|f [IHc IHa]]; [split; intros; discriminate|].
  split.
  - intros ts e r W H.
    destruct (pcond_cases f ts) as [[q ->]|[[q ->]|[[q ->]|E]]].
    + cbn [pcond] in H. destruct (pargs f q) as [[l r']|] eqn:Ea; [|discriminate].
      inversion H; subst. inversion W as [|? ? _ W1]; subst. inversion W1 as [|? ? _ W2]; subst.
      destruct (IHa _ _ _ W2 Ea) as (Hne & G & Wr). split; [|exact Wr].
      destruct (good_list_norm l G) as [N1 N2]. unfold good. cbn [printable norm]. rewrite N1, N2.
      destruct l; [congruence|]. split; reflexivity.
    + cbn [pcond] in H. destruct (pargs f q) as [[l r']|] eqn:Ea; [|discriminate].
      inversion H; subst. inversion W as [|? ? _ W1]; subst. inversion W1 as [|? ? _ W2]; subst.
      destruct (IHa _ _ _ W2 Ea) as (Hne & G & Wr). split; [|exact Wr].
      destruct (good_list_norm l G) as [N1 N2]. unfold good. cbn [printable norm]. rewrite N1, N2.
      destruct l; [congruence|]. split; reflexivity.
    + cbn [pcond] in H. destruct (pcond f q) as [[c r']|] eqn:Ec; [|discriminate].
      destruct r' as [|t r']; [discriminate|]. destruct t; try discriminate.
      inversion H; subst. inversion W as [|? ? _ W1]; subst. inversion W1 as [|? ? _ W2]; subst.
      destruct (IHc _ _ _ W2 Ec) as ([Gp Gn] & Wr). inversion Wr; subst.
      split; [|assumption]. unfold good. cbn [printable norm]. rewrite Gn. split; [exact Gp|reflexivity].
    + rewrite E in H. eapply leaf_sound; eassumption.
  - intros ts l r W H. cbn [pargs] in H.
    destruct (pcond f ts) as [[c r']|] eqn:Ec; [|discriminate].
    destruct (IHc _ _ _ W Ec) as (Gc & Wr).
    destruct r' as [|t r']; [discriminate|]. inversion Wr; subst.
    destruct t; try discriminate.
    + destruct (pargs f r') as [[l' r'']|] eqn:Ea; [|discriminate]. inversion H; subst.
      destruct (IHa _ _ _ ltac:(eassumption) Ea) as (_ & G & Wr').
      split; [discriminate|]. split; [constructor; assumption|assumption].
    + inversion H; subst. split; [discriminate|]. split; [constructor; [assumption|constructor]|assumption].
Qed.

Lemma word_tok_wf l : forallb is_alpha l = true -> tok_wf (word_tok l) = true.
Proof.
  intros H. unfold word_tok.
  destruct (weqb l (str "true")); [reflexivity|]. destruct (weqb l (str "false")); [reflexivity|].
  destruct (find _ kw_table); [reflexivity|]. exact H.
Qed.

Lemma lex1_wf c r t r' : lex1 c r = (Some t, r') -> tok_wf t = true.
Proof.
  unfold lex1.
  destruct (is_ws c); [discriminate|].
  destruct (c =? 40); [intros H; inversion H; reflexivity|].
  destruct (c =? 41); [intros H; inversion H; reflexivity|].
  destruct (c =? 44); [intros H; inversion H; reflexivity|].
  destruct (c =? 45); [intros H; inversion H; reflexivity|].
  destruct (c =? 61).
  { destruct (strip [48; 120] r); intros H; inversion H; reflexivity. }
  destruct (is_digit c).
  { destruct (net_tok (c :: r)) as [[t0 r0]|] eqn:En.
    - intros H; inversion H; subst. unfold net_tok in En.
      repeat match type of En with
             | match ?x with _ => _ end = _ => destruct x as [[? ?]|] eqn:?; [|discriminate]
             | match ?x with _ => _ end = _ => destruct x eqn:?; [|discriminate]
             end.
      inversion En; reflexivity.
    - destruct (span is_hex (c :: r)) as [h rh]. destruct (is_dec h); intros H; inversion H; reflexivity. }
  destruct (is_alpha c); [|discriminate].
  pose proof (span_fst_forallb is_alpha (c :: r)) as A.
  destruct (span is_alpha (c :: r)) as [l rl]. cbn [fst] in A.
  destruct (if weqb l (str "cls") then strip [61] rl else None); [intros H; inversion H; reflexivity|].
  destruct (forallb is_hex l).
  - destruct (span is_hex (c :: r)). intros H; inversion H; reflexivity.
  - intros H; inversion H; subst. now apply word_tok_wf.
Qed.

Lemma lex_wf : forall fuel s, wfs (lex fuel s).
Proof.
  induction fuel as [|f IH]; intros s; [constructor|].
  destruct s as [|c r]; [constructor|]. cbn [lex].
  destruct (lex1 c r) as [[t|] r'] eqn:E; [|apply IH].
  constructor; [eapply lex1_wf; exact E|apply IH].
Qed.

(** every accepted text yields a printable tree in normal form *)
Lemma parse_good s e : parse s = Some e -> good e.
Proof.
  unfold parse, parse_toks. destruct (pcond _ _) as [[c r]|] eqn:E; [|discriminate].
  destruct r; [|discriminate]. intros H; inversion H; subst.
  destruct (parser_sound (S (length s))) as [Hc _].
  destruct (Hc _ _ _ (lex_wf _ _) E) as [G _]. exact G.
Qed.

(** printing a parsed expression and parsing the text again gives the same expression *)
Lemma parse_print_parse s e : parse s = Some e -> parse (print e) = Some e.
Proof.
  intros H. destruct (parse_good s e H) as [Hp Hn]. rewrite (parse_print e Hp), Hn. reflexivity.
Qed.


(** ------------------------------------------------------------------
    The oracles of [check] hold on the model's own observations. *)
Lemma bools_eqb_refl l : bools_eqb l l = true.
Proof. apply list_eqb_eq; [intros x y; apply Bool.eqb_true_iff|reflexivity]. Qed.

Lemma evals_sem e ps : has_empty_any e = false -> wf_cond e = true -> forallb wf_layer ps = true ->
  List.map (sem e) ps = evals e ps.
Proof.
  intros Ne We Wp. unfold evals. induction ps as [|p ps IH]; [reflexivity|].
  cbn [forallb] in Wp. apply andb_true_iff in Wp as [W1 W2]. cbn [List.map].
  rewrite (eval_sem e p Ne We W1), (IH W2). reflexivity.
Qed.

Lemma evals_norm e ps : evals (norm e) ps = evals e ps.
Proof. unfold evals. apply map_ext. intros v. apply norm_eval. Qed.

Lemma tree_oracle_model e ps : has_empty_any e = false -> wf_cond e = true -> forallb wf_layer ps = true ->
  let '(_, ev, re) := tree_model e ps in tree_oracle e ps ev re = true.
Proof.
  intros Ne We Wp. unfold tree_model, tree_oracle. rewrite (evals_sem e ps Ne We Wp), bools_eqb_refl.
  cbn [andb]. destruct (printable e) eqn:Hp; [|reflexivity].
  unfold pobs_of. rewrite (parse_print e Hp). cbn [reparse_ok]. rewrite evals_norm. apply bools_eqb_refl.
Qed.

Lemma text_oracle_model s ps :
  let '(impl, re) := text_model s ps in text_oracle impl re = true.
Proof.
  unfold text_model, text_oracle, pobs_of. destruct (parse s) as [e|] eqn:E; [|reflexivity].
  rewrite (parse_print_parse s e E). cbn [reparse_ok]. rewrite bools_eqb_refl. cbn [andb].
  apply bytes_eqb_eq. reflexivity.
Qed.
