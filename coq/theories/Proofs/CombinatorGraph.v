(** Lemmas about the graph part of Model/Combinator.v: the edges AddEdge leaves in
    the graph, the solutions found by the level-wise search (never out of fuel),
    and the sort. *)
From Coq Require Import List NArith Bool Arith Lia Permutation Sorted.
From Scion Require Import Lib.Check Model.Segment Model.CombSpec Model.Combinator.
Import ListNotations.
Import Segment Combinator.
Local Open Scope N_scope.

(** ---- small utilities ---- *)
Lemma vertex_eqb_eq x y : vertex_eqb x y = true <-> x = y.
Proof.
  destruct x as [[[[x1 x2] x3] x4] x5], y as [[[[y1 y2] y3] y4] y5]. cbn.
  rewrite !andb_true_iff, !N.eqb_eq. split.
  - intros [[[[-> ->] ->] ->] ->]. reflexivity.
  - intros E. inversion E. auto.
Qed.

Lemma vertex_eqb_refl x : vertex_eqb x x = true.
Proof. now apply vertex_eqb_eq. Qed.

Lemma vertex_eqb_neq x y : vertex_eqb x y = false <-> x <> y.
Proof.
  split.
  - intros E H. apply vertex_eqb_eq in H. congruence.
  - intros H. destruct (vertex_eqb x y) eqn:E; [|reflexivity]. apply vertex_eqb_eq in E. contradiction.
Qed.

Lemma segtype_eqb_eq a b : segtype_eqb a b = true <-> a = b.
Proof. destruct a, b; cbn; split; intros; try reflexivity; discriminate. Qed.

Lemma in_enum {A} (l : list A) i a : In (i, a) (enum l) <-> nth_error l i = Some a.
Proof.
  unfold enum.
  assert (G : forall (l : list A) s i a, In (i, a) (List.combine (seq s (length l)) l) <->
                (s <= i)%nat /\ nth_error l (i - s) = Some a).
  { clear. induction l as [|x l IH]; intros s i a; cbn [length seq List.combine].
    - split; [intros [] | intros [_ H]; destruct (i - s)%nat; discriminate].
    - cbn [In]. rewrite IH. split.
      + intros [E | [L H]].
        * inversion E; subst. split; [lia|]. now rewrite Nat.sub_diag.
        * split; [lia|]. replace (i - s)%nat with (S (i - S s)) by lia. exact H.
      + intros [L H]. destruct (Nat.eq_dec s i) as [->|N].
        * left. rewrite Nat.sub_diag in H. cbn in H. now inversion H.
        * right. split; [lia|]. replace (i - s)%nat with (S (i - S s)) in H by lia. exact H. }
  rewrite G. rewrite Nat.sub_0_r. split; [now intros [_ H] | intros H; split; [lia | exact H]].
Qed.

Lemma enum_length {A} (l : list A) : length (enum l) = length l.
Proof. unfold enum. rewrite combine_length, seq_length. lia. Qed.

Lemma map_snd_enum {A} (l : list A) : map snd (enum l) = l.
Proof.
  unfold enum. generalize 0%nat. induction l as [|x l IH]; intros s; cbn; [reflexivity|].
  now rewrite IH.
Qed.

(** ---- AddEdge ---- *)
Lemma in_fold_add l : forall acc e, In e (fold_left add_edge l acc) -> In e l \/ In e acc.
Proof.
  induction l as [|x l IH]; intros acc e H; cbn in *; [now right|].
  apply IH in H as [H|H]; [now left; right|].
  unfold add_edge in H. apply in_app_or in H as [H|H].
  - apply filter_In in H. now right.
  - destruct H as [<-|[]]. now left; left.
Qed.

Lemma in_build_tuples segs e : In e (build segs) -> In e (all_tuples segs).
Proof. unfold build. intros H. apply in_fold_add in H as [H|[]]. exact H. Qed.

Lemma fold_add_keep l : forall acc e,
  In e acc -> (forall e', In e' l -> same_key e e' = true -> e' = e) ->
  In e (fold_left add_edge l acc).
Proof.
  induction l as [|x l IH]; intros acc e Hin Hk; cbn; [exact Hin|].
  apply IH.
  - unfold add_edge. destruct (same_key e x) eqn:E.
    + apply in_or_app. right. left. apply Hk; [now left | exact E].
    + apply in_or_app. left. apply filter_In. split; [exact Hin|]. now rewrite E.
  - intros e' H'. apply Hk. now right.
Qed.

Lemma fold_add_in l : forall acc e,
  In e l -> (forall e', In e' l -> same_key e e' = true -> e' = e) ->
  In e (fold_left add_edge l acc).
Proof.
  induction l as [|x l IH]; intros acc e Hin Hk; [destruct Hin|].
  destruct Hin as [->|Hin]; cbn.
  - apply fold_add_keep.
    + unfold add_edge. apply in_or_app. right. now left.
    + intros e' H'. apply Hk. now right.
  - apply IH; [exact Hin|]. intros e' H'. apply Hk. now right.
Qed.

Lemma in_tuples_build segs e :
  In e (all_tuples segs) ->
  (forall e', In e' (all_tuples segs) -> same_key e e' = true -> e' = e) ->
  In e (build segs).
Proof. intros. unfold build. now apply fold_add_in. Qed.

(** ---- the search ---- *)
Definition ety (e : edge) : segtype := is_ty (e_seg e).

(** [chain g dst cur cs es]: [es] is a sequence of graph edges starting at vertex
    [cur] after a segment of type [cs], obeying validNextSeg, reaching [dst] with
    its last edge and not before. *)
Fixpoint chain (g : list edge) (dst cur : vertex) (cs : option segtype) (es : list edge) : Prop :=
  match es with
  | [] => False
  | e :: rest =>
    In e g /\ e_src e = cur /\ valid_next cs (ety e) = true /\
    match rest with
    | [] => e_dst e = dst
    | _ => e_dst e <> dst /\ chain g dst (e_dst e) (Some (ety e)) rest
    end
  end.

Definition walk (s : psol) (es : list edge) : psol := fold_left extend es s.

Lemma walk_edges es : forall s, ps_edges (walk s es) = ps_edges s ++ es.
Proof.
  induction es as [|e es IH]; intros s; cbn; [now rewrite app_nil_r|].
  unfold walk in IH. rewrite IH. cbn. now rewrite <- app_assoc.
Qed.

Definition sum_w (es : list edge) : N := fold_right (fun e a => e_w e + a) 0 es.

Lemma walk_cost es : forall s, ps_cost (walk s es) = ps_cost s + sum_w es.
Proof.
  induction es as [|e es IH]; intros s; cbn [walk fold_left sum_w fold_right]; [lia|].
  unfold walk in IH. rewrite IH. cbn [extend ps_cost]. fold (sum_w es). lia.
Qed.

Lemma partition_filter {A} (f : A -> bool) l :
  partition f l = (filter f l, filter (fun x => negb (f x)) l).
Proof.
  induction l as [|x l IH]; cbn; [reflexivity|]. rewrite IH. destruct (f x); reflexivity.
Qed.

Lemma in_expand_fst g dst s n :
  In n (fst (expand1 g dst s)) <->
  exists e, In e g /\ e_src e = ps_cur s /\ valid_next (ps_seg s) (ety e) = true /\
            e_dst e = dst /\ n = extend s e.
Proof.
  unfold expand1. rewrite partition_filter. cbn [fst]. rewrite filter_In, in_map_iff. split.
  - intros [[e [<- He]] Hd]. apply filter_In in He as [He Hu].
    unfold usable in Hu. apply andb_true_iff in Hu as [Hs Hv]. apply vertex_eqb_eq in Hs.
    cbn in Hd. apply vertex_eqb_eq in Hd. exists e. auto.
  - intros [e [He [Hs [Hv [Hd ->]]]]]. split.
    + exists e. split; [reflexivity|]. apply filter_In. split; [exact He|].
      unfold usable. rewrite Hs, vertex_eqb_refl. exact Hv.
    + cbn. now apply vertex_eqb_eq.
Qed.

Lemma in_expand_snd g dst s n :
  In n (snd (expand1 g dst s)) <->
  exists e, In e g /\ e_src e = ps_cur s /\ valid_next (ps_seg s) (ety e) = true /\
            e_dst e <> dst /\ n = extend s e.
Proof.
  unfold expand1. rewrite partition_filter. cbn [snd]. rewrite filter_In, in_map_iff. split.
  - intros [[e [<- He]] Hd]. apply filter_In in He as [He Hu].
    unfold usable in Hu. apply andb_true_iff in Hu as [Hs Hv]. apply vertex_eqb_eq in Hs.
    cbn in Hd. apply negb_true_iff, vertex_eqb_neq in Hd. exists e. auto.
  - intros [e [He [Hs [Hv [Hd ->]]]]]. split.
    + exists e. split; [reflexivity|]. apply filter_In. split; [exact He|].
      unfold usable. rewrite Hs, vertex_eqb_refl. exact Hv.
    + cbn. now apply negb_true_iff, vertex_eqb_neq.
Qed.

Lemma levels_spec g dst fuel : forall F L,
  levels fuel g dst F = Done L ->
  forall s, In s L <->
    exists s0 es, In s0 F /\ chain g dst (ps_cur s0) (ps_seg s0) es /\ s = walk s0 es.
Proof.
  induction fuel as [|f IH]; intros F L H s.
  - destruct F; cbn in H; [|discriminate]. inversion H; subst. split; [intros [] | intros [s0 [es [[] _]]]].
  - destruct F as [|x F'] eqn:EF.
    { cbn in H. inversion H; subst. split; [intros [] | intros [s0 [es [[] _]]]]. }
    rewrite <- EF in *. assert (HF : F <> []) by (rewrite EF; discriminate). clear EF x F'.
    assert (H' : match levels f g dst (flat_map snd (map (expand1 g dst) F)) with
                 | Done rest => Done (flat_map fst (map (expand1 g dst) F) ++ rest)
                 | x => x end = Done L).
    { destruct F; [contradiction | exact H]. }
    clear H. destruct (levels f g dst _) as [rest| |] eqn:ER; try discriminate.
    inversion H'; subst L; clear H'. specialize (IH _ _ ER s).
    rewrite in_app_iff, IH. clear IH ER. split.
    + intros [H|H].
      * apply in_flat_map in H as [r [Hr Hs]]. apply in_map_iff in Hr as [s0 [<- H0]].
        apply in_expand_fst in Hs as [e [He [Hsrc [Hv [Hd ->]]]]].
        exists s0, [e]. cbn. repeat split; assumption.
      * destruct H as [s1 [es [H1 [Hc ->]]]].
        apply in_flat_map in H1 as [r [Hr H1]]. apply in_map_iff in Hr as [s0 [<- H0]].
        apply in_expand_snd in H1 as [e [He [Hsrc [Hv [Hd ->]]]]].
        exists s0, (e :: es). split; [exact H0|]. split; [|reflexivity].
        cbn [chain]. repeat split; try assumption.
        destruct es as [|e' es']; [destruct Hc|]. split; [exact Hd|]. exact Hc.
    + intros [s0 [es [H0 [Hc ->]]]]. destruct es as [|e rest']; [destruct Hc|].
      cbn [chain] in Hc. destruct Hc as [He [Hsrc [Hv Hr]]].
      destruct rest' as [|e' es'].
      * left. apply in_flat_map. exists (expand1 g dst s0). split; [now apply in_map|].
        apply in_expand_fst. exists e. auto.
      * right. destruct Hr as [Hd Hc]. exists (extend s0 e), (e' :: es').
        split; [|split; [exact Hc | reflexivity]].
        apply in_flat_map. exists (expand1 g dst s0). split; [now apply in_map|].
        apply in_expand_snd. exists e. auto.
Qed.

(** fuel: the type of the current segment strictly advances *)
Definition rank (o : option segtype) : nat :=
  match o with None => 0 | Some Up => 1 | Some CoreT => 2 | Some Down => 3 end.

Lemma valid_next_rank cs t : valid_next cs t = true -> (S (rank cs) <= rank (Some t))%nat.
Proof. destruct cs as [[]|], t; cbn; intros; try discriminate; lia. Qed.

Lemma levels_done g dst fuel : forall F,
  (forall s, In s F -> (4 <= rank (ps_seg s) + fuel)%nat) ->
  exists L, levels fuel g dst F = Done L.
Proof.
  induction fuel as [|f IH]; intros F HF.
  - destruct F as [|x F]; [now exists []|]. exfalso.
    specialize (HF x (or_introl eq_refl)). destruct (ps_seg x) as [[]|]; cbn in HF; lia.
  - destruct F as [|x F'] eqn:EF; [now exists []|]. rewrite <- EF in *.
    assert (HN : forall s, In s (flat_map snd (map (expand1 g dst) F)) -> (4 <= rank (ps_seg s) + f)%nat).
    { intros s Hs. apply in_flat_map in Hs as [r [Hr Hs]]. apply in_map_iff in Hr as [s0 [<- H0]].
      apply in_expand_snd in Hs as [e [_ [_ [Hv [_ ->]]]]]. specialize (HF _ H0).
      apply valid_next_rank in Hv. cbn [extend ps_seg]. unfold ety in Hv. lia. }
    destruct (IH _ HN) as [rest Hrest].
    exists (flat_map fst (map (expand1 g dst) F) ++ rest).
    rewrite EF. cbn [levels]. rewrite <- EF. now rewrite Hrest.
Qed.

(** ---- the sort ---- *)
Lemma insert_perm x l : Permutation (x :: l) (insert x l).
Proof.
  induction l as [|y t IH]; cbn; [reflexivity|].
  destruct (sol_leb x y); [reflexivity|].
  rewrite perm_swap. now apply perm_skip.
Qed.

Lemma isort_perm l : Permutation l (isort l).
Proof.
  induction l as [|x l IH]; cbn; [constructor|].
  rewrite <- insert_perm. now apply perm_skip.
Qed.

Lemma in_isort l s : In s (isort l) <-> In s l.
Proof.
  split; intros H.
  - eapply Permutation_in; [symmetry; apply isort_perm | exact H].
  - eapply Permutation_in; [apply isort_perm | exact H].
Qed.

Definition cost_le (a b : psol) : Prop := ps_cost a <= ps_cost b.

Lemma sol_leb_cost a b : sol_leb a b = true -> cost_le a b.
Proof.
  unfold sol_leb, sol_cmp, cost_le, cmp_or.
  destruct (N.compare_spec (ps_cost a) (ps_cost b)) as [E|E|E]; intros H; try lia; try discriminate.
Qed.

Lemma sol_leb_false_cost a b : sol_leb a b = false -> cost_le b a.
Proof.
  unfold sol_leb, sol_cmp, cost_le, cmp_or.
  destruct (N.compare_spec (ps_cost a) (ps_cost b)) as [E|E|E]; intros H; try lia; try discriminate.
Qed.

Lemma insert_sorted x l :
  StronglySorted cost_le l -> StronglySorted cost_le (insert x l).
Proof.
  induction 1 as [|y t Ht IH Hy]; cbn; [repeat constructor|].
  destruct (sol_leb x y) eqn:E.
  - constructor; [now constructor|]. constructor; [now apply sol_leb_cost|].
    apply sol_leb_cost in E. eapply Forall_impl; [|exact Hy]. unfold cost_le in *. intros; lia.
  - constructor; [exact IH|]. apply sol_leb_false_cost in E.
    rewrite Forall_forall. intros z Hz.
    eapply Permutation_in in Hz; [|symmetry; apply insert_perm].
    destruct Hz as [<-|Hz]; [exact E|]. rewrite Forall_forall in Hy. now apply Hy.
Qed.

Lemma isort_sorted l : StronglySorted cost_le (isort l).
Proof. induction l as [|x l IH]; cbn; [constructor | now apply insert_sorted]. Qed.

(** ---- get_paths ---- *)
Lemma get_paths_total g src dst : exists L, get_paths g src dst = Done L.
Proof.
  unfold get_paths.
  destruct (levels_done g dst 4 [init_sol src]) as [L HL].
  - intros s [<-|[]]. cbn. lia.
  - rewrite HL. eauto.
Qed.

Lemma get_paths_spec g src dst L :
  get_paths g src dst = Done L ->
  forall s, In s L <-> exists es, chain g dst src None es /\ s = walk (init_sol src) es.
Proof.
  unfold get_paths. destruct (levels 4 g dst [init_sol src]) as [l| |] eqn:E; try discriminate.
  intros H. inversion H; subst L; clear H. intros s. rewrite in_isort.
  rewrite (levels_spec _ _ _ _ _ E). split.
  - intros [s0 [es [[<-|[]] [Hc ->]]]]. exists es. split; [exact Hc | reflexivity].
  - intros [es [Hc ->]]. exists (init_sol src), es. split; [now left|]. split; [exact Hc | reflexivity].
Qed.

Lemma get_paths_sorted g src dst L :
  get_paths g src dst = Done L -> StronglySorted cost_le L.
Proof.
  unfold get_paths. destruct (levels 4 g dst [init_sol src]); try discriminate.
  intros H. inversion H. apply isort_sorted.
Qed.

(** a chain has 1..3 edges whose segment types strictly advance *)
Fixpoint types_ok (cs : option segtype) (es : list edge) : Prop :=
  match es with
  | [] => True
  | e :: t => valid_next cs (ety e) = true /\ types_ok (Some (ety e)) t
  end.

Lemma chain_types g dst es : forall cur cs, chain g dst cur cs es -> types_ok cs es.
Proof.
  induction es as [|e t IH]; intros cur cs H; cbn in *; [exact I|].
  destruct H as [_ [_ [Hv Hr]]]. split; [exact Hv|].
  destruct t as [|e' t']; [exact I|]. destruct Hr as [_ Hc]. eapply IH; exact Hc.
Qed.

Lemma chain_in g dst es : forall cur cs, chain g dst cur cs es -> Forall (fun e => In e g) es.
Proof.
  induction es as [|e t IH]; intros cur cs H; cbn in *; [constructor|].
  destruct H as [Hi [_ [_ Hr]]]. constructor; [exact Hi|].
  destruct t as [|e' t']; [constructor|]. destruct Hr as [_ Hc]. eapply IH; exact Hc.
Qed.

Lemma types_ok_length cs es : types_ok cs es -> (length es + rank cs <= 3)%nat.
Proof.
  revert cs. induction es as [|e t IH]; intros cs H; cbn in *.
  - destruct cs as [[]|]; cbn; lia.
  - destruct H as [Hv Ht]. apply IH in Ht. apply valid_next_rank in Hv. lia.
Qed.

Lemma chain_nonempty g dst cur cs es : chain g dst cur cs es -> es <> [].
Proof. destruct es; [intros [] | discriminate]. Qed.
