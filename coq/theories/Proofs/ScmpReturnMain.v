(** C10, part 6: composition.  A router of a valid path that answers while its
    packet is in the state "current hop [kc], ingress SegID update done" emits the
    rendering of the reversed provenance path at [ret_pos], with itself as source;
    the packet is accepted by every router back and delivered to the source host. *)
From Coq Require Import List NArith Bool Arith Lia ZifyBool ZifyN ZifyNat.
From Scion Require Import Lib.Check Lib.Bytes Model.Router Model.Network Model.Prov Model.RouterScmp
  Model.ScmpReturn.
From Scion Require Import Proofs.ProvStruct Proofs.ProvRender Proofs.ForwardView Proofs.ProvFacts
  Proofs.ReverseStruct Proofs.Reverse Proofs.Reply Proofs.ForwardStep Proofs.Forward
  Proofs.RouterInv Proofs.RouterScmp
  Proofs.ScmpReturnPath Proofs.ScmpReturnCong Proofs.ScmpReturnWalk Proofs.ScmpReturn.
Import ListNotations.
Import Scion.Model.Router.Router Network Prov.

Section Main.
Variable mac : N -> N -> N -> N -> N -> N -> list N.
Variable t : topology.
Variable p : prov.
Variable pp : pparams.
Hypothesis HG : good mac t p.
Hypothesis Hep : endpoints_ok t p pp = true.

Notation n := (nhops p).
Notation p' := (rev_prov p).
Notation macq := (macq_of mac).
Notation ret_hop := (ScmpReturn.ret_hop p).

(** the link the packet came in on matches the kind of arrival *)
Definition ing_how (ing : ingress) (how : ScmpReturn.arrival) : Prop :=
  match how, ing with
  | ScmpReturn.AExt, InExt _ => True
  | ScmpReturn.ASib, InSib _ => True
  | ScmpReturn.AHost, InInt => True
  | _, _ => False
  end.

(** ** the path of the answer (any request the slow path answers) *)
Theorem reply_is_render cmac c ing req eg x va ats r how kc port :
  (kc < n)%nat -> ing_how ing how ->
  (how = ScmpReturn.AExt -> (1 <= ret_hop kc)%nat /\ crosses p (ret_hop kc - 1) = true) ->
  RouterScmp.sp_pkt x = render p pp kc true ->
  RouterScmp.slow_path cmac c ing req eg x va ats = RouterScmp.SReply r ->
  exists lt lraw pay,
    RouterScmp.pack_local (c_local_host c) = Some (lt, lraw) /\
    ScmpReturn.set_port (RouterScmp.r_hdr r) port =
    set_src (c_ia c) (render p' (rev_params pp lt lraw pay port)
                             (fst (ScmpReturn.ret_pos p how kc)) (snd (ScmpReturn.ret_pos p how kc))).
Proof.
  intros Hk IH Hx Ex H.
  apply slow_path_path in H as (rp & ty & code & body & ie & na & P & B & LB).
  rewrite Ex in P.
  assert (Ee : ScmpReturn.is_ext ing = match how with ScmpReturn.AExt => true | _ => false end).
  { destruct how, ing; cbn in IH; try contradiction; reflexivity. }
  rewrite Ee in P.
  rewrite (reply_path_render mac t p HG pp how kc Hk Hx) in P. injection P as <-.
  apply build_inv in B as (lt & lraw & ck & PL & HL & HM & _ & HH & _).
  exists lt, lraw, (auth_len na + RouterScmp.lenN (reply_l4 x (render p' pp (fst (ScmpReturn.ret_pos p how kc))
                                                            (snd (ScmpReturn.ret_pos p how kc))) lt ty code ck body ie na))%N.
  split; [exact PL|]. rewrite HH.
  apply (walk_pkt_render p pp c x kc); [exact Ex|].
  rewrite lenN_reply_l4.
  pose proof (lenN_reply_quote x (render p' pp (fst (ScmpReturn.ret_pos p how kc)) (snd (ScmpReturn.ret_pos p how kc)))
                               lt ty ie na) as Q.
  unfold auth_len, RouterScmp.E2EAuthHdrLen, RouterScmp.MaxSCMPPacketLen in *.
  destruct na, ie; lia.
Qed.

Variable now' : N.
Hypothesis Hexp' : all_unexpired now' p = true.
Hypothesis Hsip : ScmpReturn.src_ip_ok pp = true.

(** ** it is accepted by every router on the way back and delivered to the source host *)
Theorem answer_returns cmac c ing req eg x va ats r how kc l next qoff pt d0 :
  (kc < n)%nat -> ing_how ing how ->
  RouterScmp.sp_pkt x = render p pp kc true ->
  RouterScmp.slow_path cmac c ing req eg x va ats = RouterScmp.SReply r ->
  c_ia c = ia p kc ->
  (forall j, (j < ret_hop kc)%nat -> ia p j <> ia p kc) ->
  ScmpReturn.reply_port (RouterScmp.r_l4 r) next qoff = Some pt ->
  reply_target pp (Some pt) = Some d0 ->
  (* where the router is, by kind of arrival *)
  match how with
  | ScmpReturn.AHost => l = mkLoc (ia p kc) (l_rtr l) InInt
  | ScmpReturn.AExt =>
    (1 <= ret_hop kc)%nat /\ crosses p (ret_hop kc - 1) = true /\
    l = mkLoc (ia p kc) (l_rtr l) (InExt (tr_in p (ret_hop kc))) /\ ing = l_ing l
  | ScmpReturn.ASib =>
    (S kc < n)%nat /\ crosses p kc = true /\ (1 <= ret_hop kc)%nat /\ crosses p (ret_hop kc - 1) = true /\
    ForwardStep.in_rtr t p (ret_hop kc) <> ForwardStep.eg_rtr t p kc /\
    l = mkLoc (ia p kc) (ForwardStep.eg_rtr t p kc) (InSib (ForwardStep.in_rtr t p (ret_hop kc) + 1))
  end ->
  match how with
  | ScmpReturn.AHost =>
    ScmpReturn.go_back macq t now' l (RouterScmp.SReply r) next qoff = ScmpReturn.BDirect (ia p kc) (l_rtr l)
  | _ =>
    exists tr rtr,
      ScmpReturn.go_back macq t now' l (RouterScmp.SReply r) next qoff =
        ScmpReturn.BWalk (tr, Delivered (pp_src_ia pp) rtr (fst d0) (snd d0)) /\
      crossed tr = ScmpReturn.back_ifs p how kc
  end.
Proof.
  intros Hk IH Ex H Cia NR RP RT Hl.
  unfold ScmpReturn.go_back, ScmpReturn.walk_pkt. rewrite RP.
  destruct how.
  - rewrite Hl. reflexivity.
  - destruct Hl as (K1 & C & -> & Ei).
    destruct (reply_is_render cmac c ing req eg x va ats r ScmpReturn.AExt kc (Some pt) Hk IH
                (fun _ => conj K1 C) Ex H) as (lt & lraw & pay & PL & E).
    rewrite E. cbn [ScmpReturn.ret_pos fst snd].
    pose proof (next_ext mac t p pp HG now' (ret_hop kc) (l_rtr l) K1 ltac:(destruct (ret_hop_le p kc); lia) C) as NL.
    rewrite (ret_hop_ia mac t p pp HG now' kc Hk) in NL. rewrite NL.
    destruct (back_ext mac t p pp HG Hep now' Hexp' kc (c_ia c) (c_local_host c) lt lraw pay pt d0
                Hk K1 C NR Cia PL Hsip RT) as (tr & rtr & W & Cr).
    exists tr, rtr. rewrite W. split; [reflexivity|exact Cr].
  - destruct Hl as (Hk1 & Cc & K1 & C & Hne & ->).
    destruct (reply_is_render cmac c ing req eg x va ats r ScmpReturn.ASib kc (Some pt) Hk IH
                (fun X => ltac:(discriminate X)) Ex H) as (lt & lraw & pay & PL & E).
    rewrite E. cbn [ScmpReturn.ret_pos fst snd].
    rewrite (next_sib t p pp now').
    destruct (back_sib mac t p pp HG Hep now' Hexp' kc (c_ia c) (c_local_host c) lt lraw pay pt d0
                Hk1 Cc K1 C Hne NR Cia PL Hsip RT) as (tr & rtr & W & Cr).
    exists tr, rtr. rewrite W. split; [reflexivity|exact Cr].
Qed.

End Main.
