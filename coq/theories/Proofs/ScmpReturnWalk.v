(** C10, part 3: the walk of a packet whose source ISD-AS is not the first AS of
    its path.  The step lemmas of C02 (Proofs/ForwardStep.v) are stated for packets
    in view of a provenance path whose parameters name the first AS as source; the
    reply of a router in the middle of a path differs from such a packet in the source
    ISD-AS only, which no router on the way looks at ([process_src]) as long as it
    is not its own.  This file replays the induction of Proofs/Forward.v for
    [set_src s' q]. *)
From Coq Require Import List NArith Bool Arith Lia ZifyBool ZifyN ZifyNat.
From Scion Require Import Lib.Check Model.Router Model.Network Model.Prov.
From Scion Require Import Proofs.ProvStruct Proofs.ProvRender Proofs.ForwardView Proofs.ProvFacts
  Proofs.RouterPass Proofs.ForwardStep Proofs.Forward Proofs.ScmpReturnCong.
Import ListNotations.
Import Scion.Model.Router.Router Network Prov.

Lemma obs_step_src s' l e ext q : obs_step l e ext (set_src s' q) = obs_step l e ext q.
Proof. reflexivity. Qed.

Section Walk.
Variable mac : N -> N -> N -> N -> N -> N -> list N.
Variable t : topology.
Variable now : N.
Variable p : prov.
Variable pp : pparams.
Hypothesis HG : good mac t p.
Hypothesis Hep : endpoints_ok t p pp = true.
Hypothesis Hexp : all_unexpired now p = true.
(** the real source ISD-AS, and the hop from which on no AS of the path is that AS *)
Variable s' : N.
Variable lo : nat.
Hypothesis Hlo : (1 <= lo)%nat.
Hypothesis Hsrc : forall j, (lo <= j)%nat -> (j < nhops p)%nat -> ia p j <> s'.

Notation n := (nhops p).
Notation js := (seg_idx (lens p)).
Notation nsegs := (length (pv_segs p)).
Notation macq := (macq_of mac).
Notation Hs := (Hshape mac t p HG).
Notation asof := (as_of t p).
Notation nifof := (nif_of t p).
Notation View := (view p pp n nsegs).
Notation eff := (ForwardStep.eff p).
Notation in_rtr := (ForwardStep.in_rtr t p).
Notation eg_rtr := (ForwardStep.eg_rtr t p).
Notation arrives := (ForwardStep.arrives p).
Notation ext_loc := (Forward.ext_loc t p).
Notation src := (set_src s').

Lemma src_fake q k ki mid : View q k ki mid -> p_src_ia q = ia p 0.
Proof.
  intros V. rewrite (v_src_ia _ _ _ _ _ _ _ _ V).
  unfold endpoints_ok in Hep. apply andb_true_iff in Hep as [E _]. apply andb_true_iff in E as [E _].
  apply andb_true_iff in E as [Es _]. now apply N.eqb_eq in Es.
Qed.

(** a router of an AS that is neither the real nor the nominal source *)
Lemma src_ok_other q k ki mid r ing : View q k ki mid -> (lo <= k)%nat -> (k < n)%nat ->
  src_ok s' (cfg_of (asof k) r) ing q.
Proof.
  intros V Hk Hn. destruct (as_of_ok _ _ _ HG k Hn) as [_ Ik].
  assert (A : (p_src_ia q =? c_ia (cfg_of (asof k) r))%N = false).
  { rewrite (src_fake q k ki mid V). cbn [cfg_of c_ia]. rewrite Ik. apply N.eqb_neq.
    intros X. apply (ia_not_src _ _ _ HG k); [lia|assumption|now symmetry]. }
  assert (B : (s' =? c_ia (cfg_of (asof k) r))%N = false).
  { cbn [cfg_of c_ia]. rewrite Ik. apply N.eqb_neq. intros X. apply (Hsrc k Hk Hn). now symmetry. }
  split; [left; now rewrite A, B|right; split; assumption].
Qed.

Lemma run_arrive_src f q k ing r :
  View q k k false -> (S k < n)%nat -> (lo <= k)%nat -> arrives k ing ->
  exists q' st,
    t_ia st = ia p k /\ t_ing st = ing /\ t_eg st = tr_eg p (eff k) /\ t_rtr st = r /\
    (S (eff k) < n)%nat /\ crosses p (eff k) = true /\ ia p (eff k) = ia p k /\
    if (eg_rtr (eff k) =? r)%N
    then t_ext st = true /\ View q' (S (eff k)) (S (eff k)) false /\
         run_fuel macq t now (S f) (mkLoc (ia p k) r ing) (src q) =
         (let '(tr, fin) := run_fuel macq t now f (ext_loc (S (eff k))) (src q') in ((st, src q') :: tr, fin))
    else t_ext st = false /\ View q' (eff k) (eff k) true /\
         run_fuel macq t now (S f) (mkLoc (ia p k) r ing) (src q) =
         (let '(tr, fin) := run_fuel macq t now f (mkLoc (ia p k) (eg_rtr (eff k)) (InSib (r + 1))) (src q') in
          ((st, src q') :: tr, fin)).
Proof.
  intros V Hk Hl Ha. assert (Hk' : (k < n)%nat) by lia.
  assert (H0 : k = 0%nat -> r = eg_rtr (eff k)) by (intros; lia).
  assert (Hle : (eff k < n)%nat).
  { unfold ForwardStep.eff. destruct (crosses p k || Nat.eqb (S k) n); lia. }
  destruct (step_arrive mac t now p pp HG Hep Hexp n nsegs q k ing r V Hk Hle (js_lt p Hs _ Hle) Ha H0)
    as (q' & Eps & Vq & As & Hn & C & Frq).
  pose proof (process_src s' (macq (a_key (asof k))) (cfg_of (asof k) r) now ing q
                (src_ok_other q k k false r ing V Hl Hk')) as Eps'.
  rewrite Eps in Eps'. cbn [src_res] in Eps'.
  destruct (as_of_ok _ _ _ HG k Hk') as [Ak Ik].
  destruct (as_of_ok _ _ _ HG (eff k) Hle) as [Ake Ike].
  assert (Iae : ia p (eff k) = ia p k) by (rewrite <- Ike, <- Ik; now rewrite As).
  destruct (link_fact _ _ _ HG (eff k) Hn C) as (Ff & Fg & _ & _ & _ & _ & _ & Nb & Rm).
  rewrite As in Ff.
  destruct (as_of_ok _ _ _ HG (S (eff k)) Hn) as [Ak1 Ik1].
  exists q'.
  cbn [run_fuel l_ia l_rtr l_ing]. rewrite Ak, Eps', Ff.
  change (ni_owner (nifof (eff k) (tr_eg p (eff k)))) with (eg_rtr (eff k)).
  destruct (eg_rtr (eff k) =? r)%N eqn:Ow.
  - rewrite Nb, Ak1, Rm, Fg. rewrite ?Ik, ?Ik1.
    exists (obs_step (mkLoc (ia p k) r ing) (tr_eg p (eff k)) true q').
    do 7 (split; [first [reflexivity | assumption]|]).
    split; [reflexivity|]. split; [exact Vq|reflexivity].
  - rewrite ?Ik.
    exists (obs_step (mkLoc (ia p k) r ing) (tr_eg p (eff k)) false q').
    do 7 (split; [first [reflexivity | assumption]|]).
    split; [reflexivity|]. split; [exact Vq|reflexivity].
Qed.

Lemma run_mid_src f q k k0 :
  View q k k true -> (S k < n)%nat -> crosses p k = true -> (lo <= k)%nat ->
  ForwardStep.entry p k = k0 -> (1 <= k0)%nat -> crosses p (k0 - 1) = true -> asof k0 = asof k ->
  in_rtr k0 <> eg_rtr k ->
  exists q' st,
    t_ia st = ia p k /\ t_ing st = InSib (in_rtr k0 + 1) /\ t_eg st = tr_eg p k /\ t_ext st = true /\
    View q' (S k) (S k) false /\
    run_fuel macq t now (S f) (mkLoc (ia p k) (eg_rtr k) (InSib (in_rtr k0 + 1))) (src q) =
    (let '(tr, fin) := run_fuel macq t now f (ext_loc (S k)) (src q') in ((st, src q') :: tr, fin)).
Proof.
  intros V Hk C Hl He K0 C0 As0 Hne. assert (Hk' : (k < n)%nat) by lia.
  destruct (step_mid mac t now p pp HG Hep Hexp n nsegs q k k0 (eg_rtr k) V Hk C Hk' (js_lt p Hs k Hk') He K0 C0 As0 eq_refl Hne)
    as (q' & Eps & Vq & Frq).
  pose proof (process_src s' (macq (a_key (asof k))) (cfg_of (asof k) (eg_rtr k)) now (InSib (in_rtr k0 + 1)) q
                (src_ok_other q k k true _ _ V Hl Hk')) as Eps'.
  rewrite Eps in Eps'. cbn [src_res] in Eps'.
  destruct (as_of_ok _ _ _ HG k Hk') as [Ak Ik].
  destruct (link_fact _ _ _ HG k Hk C) as (Ff & Fg & _ & _ & _ & _ & _ & Nb & Rm).
  destruct (as_of_ok _ _ _ HG (S k) Hk) as [Ak1 Ik1].
  exists q', (obs_step (mkLoc (ia p k) (eg_rtr k) (InSib (in_rtr k0 + 1))) (tr_eg p k) true q').
  do 4 (split; [reflexivity|]). split; [exact Vq|].
  cbn [run_fuel l_ia l_rtr l_ing]. rewrite Ak, Eps', Ff.
  change (ni_owner (nifof k (tr_eg p k))) with (eg_rtr k). rewrite N.eqb_refl.
  rewrite Nb, Ak1, Rm, Fg. rewrite ?Ik1. reflexivity.
Qed.

Lemma run_deliver_src f q k ing r :
  View q k k false -> S k = n -> (lo <= k)%nat -> arrives k ing ->
  exists q' st d,
    t_ia st = ia p k /\ t_ing st = ing /\ t_ext st = false /\ View q' k k true /\
    deliver_target (asof k) pp = Some d /\
    run_fuel macq t now (S f) (mkLoc (ia p k) r ing) (src q) =
      ([(st, src q')], Delivered (ia p k) r (fst d) (snd d)).
Proof.
  intros V Hn Hl Ha. assert (Hk : (k < n)%nat) by lia.
  destruct (step_deliver mac t now p pp HG Hep Hexp n nsegs q k ing r V Hn Hk (js_lt p Hs k Hk) Ha)
    as (q' & d & Eps & Vq & Dt).
  pose proof (process_src s' (macq (a_key (asof k))) (cfg_of (asof k) r) now ing q
                (src_ok_other q k k false r ing V Hl Hk)) as Eps'.
  rewrite Eps in Eps'. cbn [src_res] in Eps'.
  destruct (as_of_ok _ _ _ HG k Hk) as [Ak Ik].
  exists q', (obs_step (mkLoc (ia p k) r ing) 0 false q'), d.
  do 3 (split; [reflexivity|]). split; [exact Vq|]. split; [exact Dt|].
  cbn [run_fuel l_ia l_rtr l_ing]. rewrite Ak, Eps'. now rewrite Ik.
Qed.

Notation pairs_of := (Forward.pairs_of p).
Notation ifs_from := (Forward.ifs_from p).
Notation pre := (Forward.pre p).

(** the walk of [src q] from an arrival at hop [k >= lo] to the destination host *)
Lemma walk_from_arrive_src : forall m k f q ing r,
  (n - k <= m)%nat -> (k < n)%nat -> (lo <= k)%nat -> View q k k false -> arrives k ing ->
  r = in_rtr k -> (2 * (n - k) <= f)%nat ->
  exists tr rtr d,
    run_fuel macq t now f (mkLoc (ia p k) r ing) (src q) =
      (tr, Delivered (ia p (n - 1)) rtr (fst d) (snd d)) /\
    crossed (map fst tr) = pre ing k ++ ifs_from k (n - 1 - k) /\
    deliver_target (asof (n - 1)) pp = Some d.
Proof.
  induction m as [|m IH]; intros k f q ing r Hm Hk Hl V Ha H1 Hf; [lia|].
  destruct f as [|f]; [lia|].
  destruct (Nat.eq_dec (S k) n) as [Last|NotLast].
  - destruct (run_deliver_src f q k ing r V Last Hl Ha)
      as (q' & st & d & Tia & Ting & Text & Vq & Dt & Er).
    exists [(st, src q')], r, d. replace (n - 1)%nat with k by lia.
    split; [exact Er|]. split; [|assumption].
    cbn [map fst]. unfold crossed. cbn [flat_map]. unfold crossed_step. rewrite Ting, Text, Tia.
    replace (k - k)%nat with 0%nat by lia. unfold Forward.ifs_from. cbn [seq flat_map]. unfold Forward.pre.
    destruct ing; now rewrite ?app_nil_r.
  - assert (Hk1 : (S k < n)%nat) by lia.
    destruct (eff_le t now p pp Hep Hexp k Hk1) as [El Eu].
    assert (Hle : (eff k < n)%nat) by lia.
    destruct (run_arrive_src f q k ing r V Hk1 Hl Ha)
      as (q' & st & Tia & Ting & Teg & Trt & Hn & C & Iae & Rest).
    assert (Arr' : arrives (S (eff k)) (InExt (tr_in p (S (eff k))))).
    { right. replace (S (eff k) - 1)%nat with (eff k) by lia. repeat split; [lia|assumption]. }
    destruct (eg_rtr (eff k) =? r)%N eqn:Ow.
    + destruct Rest as (Text & Vq & Er).
      destruct (IH (S (eff k)) f q' (InExt (tr_in p (S (eff k)))) (in_rtr (S (eff k))))
        as (tr & rtr & d & Er' & Cr & Dt); try assumption; try lia; try reflexivity.
      unfold Forward.ext_loc in Er. rewrite Er' in Er.
      exists ((st, src q') :: tr), rtr, d.
      split; [exact Er|]. split; [|assumption].
      cbn [map fst]. unfold crossed in *. cbn [flat_map]. rewrite Cr.
      unfold crossed_step. rewrite Ting, Text, Tia, Teg.
      rewrite (ifs_from_eff t now p pp Hep Hexp k Hk1 Hn C). rewrite Iae. unfold Forward.pre.
      destruct ing; cbn [app]; reflexivity.
    + destruct Rest as (Text & Vq & Er).
      assert (K1 : (1 <= k)%nat) by lia.
      destruct Ha as [[-> _]|(_ & Cp & Eing)]; [lia|].
      rewrite H1 in *.
      destruct f as [|f]; [lia|].
      assert (En : ForwardStep.entry p (eff k) = k).
      { unfold ForwardStep.eff in *. destruct (crosses p k) eqn:Ck; cbn [orb] in *.
        - now apply (entry_same mac t now p pp HG Hep Hexp).
        - replace (Nat.eqb (S k) n) with false in * by (symmetry; apply Nat.eqb_neq; lia).
          now apply (entry_junction mac t now p pp HG Hep Hexp). }
      assert (As0 : asof k = asof (eff k)).
      { unfold as_of. now rewrite Iae. }
      assert (Hne : in_rtr k <> eg_rtr (eff k)).
      { intros X. rewrite X, N.eqb_refl in Ow. discriminate. }
      destruct (run_mid_src f q' (eff k) k Vq Hn C ltac:(lia) En K1 Cp As0 Hne)
        as (q2 & st2 & Tia2 & Ting2 & Teg2 & Text2 & Vq2 & Er2).
      rewrite <- Iae in Er. rewrite Er2 in Er.
      destruct (IH (S (eff k)) f q2 (InExt (tr_in p (S (eff k)))) (in_rtr (S (eff k))))
        as (tr & rtr & d & Er' & Cr & Dt); try assumption; try lia; try reflexivity.
      unfold Forward.ext_loc in Er. rewrite Er' in Er. rewrite Iae in Er.
      exists ((st, src q') :: (st2, src q2) :: tr), rtr, d.
      split; [exact Er|]. split; [|assumption].
      cbn [map fst]. unfold crossed in *. cbn [flat_map]. rewrite Cr.
      unfold crossed_step. rewrite Ting, Text, Tia, Ting2, Text2, Tia2, Teg2.
      rewrite (ifs_from_eff t now p pp Hep Hexp k Hk1 Hn C). unfold Forward.pre. rewrite Eing. cbn [app]. reflexivity.
Qed.

(** the first router is a sibling of the sender, in the sender's own AS: it accepts a
    packet from inside the AS whose source is local if the source host address is acceptable *)
Lemma run_mid_src_local f q k k0 :
  View q k k true -> (S k < n)%nat -> crosses p k = true -> src_host_good q = true ->
  ForwardStep.entry p k = k0 -> (1 <= k0)%nat -> crosses p (k0 - 1) = true -> asof k0 = asof k ->
  in_rtr k0 <> eg_rtr k ->
  exists q' st,
    t_ia st = ia p k /\ t_ing st = InSib (in_rtr k0 + 1) /\ t_eg st = tr_eg p k /\ t_ext st = true /\
    View q' (S k) (S k) false /\
    run_fuel macq t now (S f) (mkLoc (ia p k) (eg_rtr k) (InSib (in_rtr k0 + 1))) (src q) =
    (let '(tr, fin) := run_fuel macq t now f (ext_loc (S k)) (src q') in ((st, src q') :: tr, fin)).
Proof.
  intros V Hk C Hg He K0 C0 As0 Hne. assert (Hk' : (k < n)%nat) by lia.
  assert (K1 : (1 <= k)%nat).
  { unfold ForwardStep.entry in He. destruct (is_first p k && negb (peerhop p k)); lia. }
  destruct (step_mid mac t now p pp HG Hep Hexp n nsegs q k k0 (eg_rtr k) V Hk C Hk' (js_lt p Hs k Hk') He K0 C0 As0 eq_refl Hne)
    as (q' & Eps & Vq & Frq).
  assert (SO : src_ok s' (cfg_of (asof k) (eg_rtr k)) (InSib (in_rtr k0 + 1)) q).
  { split; [right|left; exact Hg]. split; [reflexivity|]. split; [|exact Hg].
    unfold is_first_hop. rewrite (v_ch _ _ _ _ _ _ _ _ V). apply N.eqb_neq. lia. }
  pose proof (process_src s' (macq (a_key (asof k))) (cfg_of (asof k) (eg_rtr k)) now (InSib (in_rtr k0 + 1)) q SO) as Eps'.
  rewrite Eps in Eps'. cbn [src_res] in Eps'.
  destruct (as_of_ok _ _ _ HG k Hk') as [Ak Ik].
  destruct (link_fact _ _ _ HG k Hk C) as (Ff & Fg & _ & _ & _ & _ & _ & Nb & Rm).
  destruct (as_of_ok _ _ _ HG (S k) Hk) as [Ak1 Ik1].
  exists q', (obs_step (mkLoc (ia p k) (eg_rtr k) (InSib (in_rtr k0 + 1))) (tr_eg p k) true q').
  do 4 (split; [reflexivity|]). split; [exact Vq|].
  cbn [run_fuel l_ia l_rtr l_ing]. rewrite Ak, Eps', Ff.
  change (ni_owner (nifof k (tr_eg p k))) with (eg_rtr k). rewrite N.eqb_refl.
  rewrite Nb, Ak1, Rm, Fg. rewrite ?Ik1. reflexivity.
Qed.

(** the walk of [src q] from the sibling router to the destination host *)
Lemma walk_from_mid_src f q k k0 :
  View q k k true -> (S k < n)%nat -> crosses p k = true -> src_host_good q = true ->
  ForwardStep.entry p k = k0 -> (1 <= k0)%nat -> crosses p (k0 - 1) = true -> asof k0 = asof k ->
  in_rtr k0 <> eg_rtr k -> (lo <= S k)%nat -> (2 * (n - k) <= f)%nat ->
  exists tr rtr d,
    run_fuel macq t now f (mkLoc (ia p k) (eg_rtr k) (InSib (in_rtr k0 + 1))) (src q) =
      (tr, Delivered (ia p (n - 1)) rtr (fst d) (snd d)) /\
    crossed (map fst tr) = ifs_from k (n - 1 - k) /\
    deliver_target (asof (n - 1)) pp = Some d.
Proof.
  intros V Hk C Hg He K0 C0 As0 Hne Hl Hf.
  destruct f as [|f]; [lia|].
  destruct (run_mid_src_local f q k k0 V Hk C Hg He K0 C0 As0 Hne)
    as (q' & st & Tia & Ting & Teg & Text & Vq & Er).
  assert (Arr' : arrives (S k) (InExt (tr_in p (S k)))).
  { right. replace (S k - 1)%nat with k by lia. repeat split; [lia|assumption]. }
  destruct (walk_from_arrive_src (n - S k) (S k) f q' (InExt (tr_in p (S k))) (in_rtr (S k)))
    as (tr & rtr & d & Er' & Cr & Dt); try assumption; try lia; try reflexivity.
  unfold Forward.ext_loc in Er. rewrite Er' in Er.
  exists ((st, src q') :: tr), rtr, d.
  split; [exact Er|]. split; [|assumption].
  cbn [map fst]. unfold crossed in *. cbn [flat_map]. rewrite Cr.
  unfold crossed_step. rewrite Ting, Text, Tia, Teg. unfold Forward.pre. cbn [app].
  replace (n - 1 - k)%nat with (S (n - 1 - S k)) by lia.
  rewrite (ifs_from_S p). unfold Forward.pairs_of. rewrite C. reflexivity.
Qed.

End Walk.
