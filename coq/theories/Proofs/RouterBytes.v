(** Lemmas for Model/RouterBytes.v, part 2: the router on bytes.
      - the output record of a forwarded packet is encodable and differs from the input's only
        in path state ([out_encodable], from [forward_shape] and [process_good]);
      - which bytes of the path header differ ([diff_path]): allowed offsets, or reserved-bit
        offsets of a packet in the known-finding class;
      - [forward_bytes]: the forwarded byte string is pre ++ enc_path out ++ post, re-decodes to
        the router's output record, and has a consistent header geometry;
      - [frame_core], [immutable_core], [values_core], [forward_ok_model], no-panic lemmas. *)
From Coq Require Import List Arith NArith ZArith Bool Lia ZifyN ZifyNat ZifyBool.
From Scion Require Import Lib.Bytes Lib.BytesX Lib.Check.
From Scion Require Import Model.HdrPath Proofs.HdrPath Model.HdrScion Proofs.HdrScion.
From Scion Require Import Model.HdrL4 Proofs.HdrL4 Model.HdrExt Proofs.HdrExt.
From Scion Require Import Model.Router Proofs.Router Proofs.RouterInv Model.RouterTotal Proofs.RouterTotal.
From Scion Require Import Model.RouterBytes Proofs.RouterBytesCodec.
Import ListNotations.
Local Open Scope N_scope.
Import RouterBytes.

(** ------------------------------------------------------------ the output record is encodable *)
Lemma lxor_lt16 a b : a < 65536 -> b < 65536 -> N.lxor a b < 65536.
Proof.
  intros Ha Hb. destruct (N.eq_dec (N.lxor a b) 0) as [->|NZ]; [lia|].
  change 65536 with (2 ^ 16) in *. apply N.log2_lt_pow2; [lia|].
  eapply N.le_lt_trans; [apply N.log2_lxor|].
  assert (L : forall x, x < 2 ^ 16 -> N.log2 x < 16).
  { intros x Hx. destruct (N.eq_dec x 0) as [->|N0]; [reflexivity|]. apply N.log2_lt_pow2; lia. }
  apply N.max_lub_lt; apply L; assumption.
Qed.

Lemma mac_prefix_lt h : wf_rhop h -> R.mac_prefix (R.h_mac h) < 65536.
Proof.
  intros (_ & _ & _ & _ & W & _). unfold R.mac_prefix.
  destruct (R.h_mac h) as [|a [|b t]]; try lia.
  inversion W as [|? ? Wa W1]; inversion W1 as [|? ? Wb _]. unfold wf_byte in *. lia.
Qed.

Lemma nthN_in {A} (l : list A) n x : R.nthN l n = Some x -> In x l.
Proof. unfold R.nthN. apply nth_error_In. Qed.

Lemma pw_wf p : Forall wf_rhop (R.p_hops p) -> forall k l l',
  pw (step_rel p) k l l' -> Forall wf_rinfo l -> Forall wf_rinfo l'.
Proof.
  intros WH k l l' P. induction P as [|k x y l l' Rxy P IH]; intros F; [constructor|].
  inversion F as [|? ? Wx Wl]; subst. constructor; [|now apply IH].
  destruct Rxy as [-> | (_ & h & Hh & ->)]; [exact Wx|].
  assert (Wh : wf_rhop h).
  { rewrite Forall_forall in WH. apply WH. destruct Hh as [Hh|Hh]; eapply nthN_in; exact Hh. }
  destruct Wx as (X1 & X2 & X3 & X4). unfold wf_rinfo. cbn.
  repeat split; try assumption; try lia; try reflexivity.
  apply lxor_lt16; [exact X1 | now apply mac_prefix_lt].
Qed.

Lemma inf_index_lt4 p hf : R.inf_index_for_hf p hf < 4.
Proof. unfold R.inf_index_for_hf. destruct (_ <? _); [lia|]. destruct (_ <? _); lia. Qed.

Lemma out_encodable p out : wf_fields p -> out_shape p out -> pkt_inv out ->
  wf_fields out /\ same_outside p out.
Proof.
  intros (P1 & P2 & P3 & P4 & P5 & P6 & P7 & P8) [S PI PT] (I1 & I2 & I3 & I4 & I5).
  destruct S as [s1 s2 s3 s4 s5 s6 s7 s8 s9 s10 s11 s12 s13 s14].
  split.
  - unfold wf_fields. rewrite s10, s11, s12, s13.
    split. { rewrite I5. apply inf_index_lt4. }
    split. { unfold R.MaxHops in I2. lia. }
    split. { destruct s14 as [-> | ->]; [exact P3 | lia]. }
    repeat (split; [assumption|]). split; [|exact P8].
    eapply pw_wf; eauto.
  - unfold same_outside. rewrite s13. repeat (split; [assumption|]).
    split; [|reflexivity]. eapply pw_length; eauto.
Qed.

(** ------------------------------------------------------------ lists *)
Lemma nth_error_mid {A} (pre x y post : list A) o : length x = length y ->
  nth_error (pre ++ y ++ post) o <> nth_error (pre ++ x ++ post) o ->
  (length pre <= o)%nat /\ nth_error y (o - length pre) <> nth_error x (o - length pre).
Proof.
  intros L H. destruct (Nat.lt_ge_cases o (length pre)) as [Lt|Ge].
  - exfalso. apply H. now rewrite !nth_error_app1 by exact Lt.
  - split; [exact Ge|]. rewrite !(nth_error_app2 pre) in H by exact Ge.
    set (j := (o - length pre)%nat) in *. intros E. apply H.
    destruct (Nat.lt_ge_cases j (length x)) as [Lx|Gx].
    + rewrite !nth_error_app1 by lia. exact E.
    + rewrite !nth_error_app2 by lia. now rewrite L.
Qed.

Lemma nth_error_concat_hd {A} (a b ra rb : list A) j : length a = length b ->
  nth_error (a ++ ra) j <> nth_error (b ++ rb) j ->
  ((j < length a)%nat /\ nth_error a j <> nth_error b j) \/
  ((length a <= j)%nat /\ nth_error ra (j - length a) <> nth_error rb (j - length a)).
Proof.
  intros L H. destruct (Nat.lt_ge_cases j (length a)) as [Lt|Ge].
  - left. split; [exact Lt|]. rewrite !nth_error_app1 in H by lia. exact H.
  - right. split; [exact Ge|]. rewrite !nth_error_app2 in H by lia. now rewrite <- L in H.
Qed.

(** ------------------------------------------------------------ which bytes of the path header differ *)
Definition known (p : R.pkt) : Prop := R.rsv_clear p = false.

Lemma memN_app x l1 l2 : R.memN x (l1 ++ l2) = R.memN x l1 || R.memN x l2.
Proof. unfold R.memN. apply existsb_app. Qed.

Lemma changeable_allowed p k : R.seg_changeable p k = true ->
  R.memN (R.inf_off p k + 2) (R.allowed_offsets p) = true /\
  R.memN (R.inf_off p k + 3) (R.allowed_offsets p) = true /\
  R.memN (R.inf_off p k) (rsv_offsets p) = true /\
  R.memN (R.inf_off p k + 1) (rsv_offsets p) = true.
Proof.
  unfold R.seg_changeable, R.allowed_offsets, rsv_offsets, R.memN. intros Ch.
  apply orb_true_iff in Ch as [Ch | Ch].
  - apply N.eqb_eq in Ch. subst k. cbn [existsb app]. rewrite !N.eqb_refl.
    repeat split; now rewrite ?orb_true_r.
  - apply andb_true_iff in Ch as [X Ch]. apply N.eqb_eq in Ch. subst k. rewrite X.
    cbn [existsb app]. rewrite !N.eqb_refl. repeat split; now rewrite ?orb_true_r.
Qed.

Lemma inf_off_succ p k : R.inf_off p (k + 1) = R.inf_off p k + 8.
Proof. unfold R.inf_off, R.InfoLen. lia. Qed.

Lemma diff_info x h j :
  nth_error (enc_info (R.ser_info (R.upd_segid x h))) j <> nth_error (enc_info x) j ->
  (j = 2 \/ j = 3)%nat \/ ((j = 0 \/ j = 1)%nat /\ R.i_rsv x <> 0).
Proof.
  unfold enc_info. cbn [R.ser_info R.upd_segid R.i_rsv R.i_consdir R.i_peer R.i_segid R.i_ts].
  cbn [be app].
  destruct j as [|[|[|[|[|[|[|[|j]]]]]]]]; cbn [nth_error]; intros H;
    try (exfalso; apply H; reflexivity); try (left; lia).
  - right. split; [lia|]. intros Z. apply H. rewrite Z. reflexivity.
  - right. split; [lia|]. intros Z. apply H. rewrite Z. reflexivity.
Qed.

Lemma diff_infos p : forall k l l', pw (step_rel p) k l l' -> forall j,
  nth_error (concat (map enc_info l')) j <> nth_error (concat (map enc_info l)) j ->
  R.memN (R.inf_off p k + N.of_nat j) (R.allowed_offsets p) = true \/
  (R.memN (R.inf_off p k + N.of_nat j) (rsv_offsets p) = true /\ exists x, In x l /\ R.i_rsv x <> 0).
Proof.
  intros k l l' P. induction P as [|k x y l l' Rxy P IH]; intros j H; [exfalso; now apply H|].
  cbn [map concat] in H.
  apply nth_error_concat_hd in H; [|now rewrite !enc_info_length].
  rewrite enc_info_length in H. destruct H as [[Lt H] | [Ge H]].
  - destruct Rxy as [-> | (Ch & h & _ & ->)]; [exfalso; now apply H|].
    destruct (changeable_allowed p k Ch) as (A2 & A3 & A0 & A1).
    apply diff_info in H. destruct H as [[-> | ->] | [[-> | ->] Z]].
    + left. exact A2.
    + left. exact A3.
    + right. rewrite N.add_0_r. split; [exact A0|]. exists x. split; [now left | exact Z].
    + right. split; [exact A1|]. exists x. split; [now left | exact Z].
  - specialize (IH _ H). rewrite inf_off_succ in IH. unfold HP.info_len in *.
    replace (R.inf_off p k + 8 + N.of_nat (j - 8)) with (R.inf_off p k + N.of_nat j) in IH by lia.
    destruct IH as [IH | (IH & z & Hz & Z)]; [now left|].
    right. split; [exact IH|]. exists z. split; [now right | exact Z].
Qed.

Lemma diff_meta p out j : same_static p out ->
  nth_error (enc_meta out) j <> nth_error (enc_meta p) j ->
  j = 0%nat \/ (j = 1%nat /\ R.p_meta_rsv p <> 0).
Proof.
  intros S. unfold enc_meta, enc_meta_f. rewrite (ss10 _ _ S), (ss11 _ _ S), (ss12 _ _ S).
  destruct j as [|[|j]]; cbn [app nth_error]; intros H; [now left | right | exfalso; now apply H].
  split; [reflexivity|]. intros Z. apply H.
  destruct (ss14 _ _ S) as [E | E]; rewrite E; [reflexivity | now rewrite Z].
Qed.

Lemma rsv_known_meta p : R.p_meta_rsv p <> 0 -> known p.
Proof. intros H. unfold known, R.rsv_clear. apply N.eqb_neq in H. now rewrite H. Qed.

Lemma rsv_known_info p x : In x (R.p_infos p) -> R.i_rsv x <> 0 -> known p.
Proof.
  intros Hin H. unfold known, R.rsv_clear. apply andb_false_iff. right.
  destruct (forallb _ _) eqn:F; [|reflexivity]. rewrite forallb_forall in F.
  specialize (F x Hin). apply N.eqb_eq in F. contradiction.
Qed.

Lemma diff_path p out j : out_shape p out ->
  nth_error (enc_path out) j <> nth_error (enc_path p) j ->
  let o := R.meta_off p + N.of_nat j in
  R.memN o (R.allowed_offsets p) = true \/ (R.memN o (rsv_offsets p) = true /\ known p).
Proof.
  intros [S PI PT] H o. subst o. unfold enc_path in H. rewrite (ss13 _ _ S) in H.
  assert (LM' : length (enc_meta out) = 4%nat) by apply enc_meta_length.
  assert (LM : length (enc_meta p) = 4%nat) by apply enc_meta_length.
  apply nth_error_concat_hd in H; [|congruence]. rewrite LM' in H.
  destruct H as [[Lt H] | [Ge H]].
  - apply (diff_meta p out j S) in H. destruct H as [-> | [-> Z]].
    + left. rewrite N.add_0_r. unfold R.allowed_offsets, R.memN. cbn [app existsb]. now rewrite N.eqb_refl.
    + right. split; [|now apply rsv_known_meta].
      unfold rsv_offsets, R.memN. cbn [app existsb]. now rewrite N.eqb_refl.
  - assert (LI : length (concat (map enc_info (R.p_infos out))) = length (concat (map enc_info (R.p_infos p)))).
    { rewrite !(concat_length_const enc_info HP.info_len) by apply enc_info_length.
      now rewrite (pw_length _ _ _ _ PI). }
    apply nth_error_concat_hd in H; [|exact LI].
    destruct H as [[_ H] | [_ H]]; [|exfalso; now apply H].
    apply (diff_infos p _ _ _ PI) in H.
    replace (R.inf_off p 0 + N.of_nat (j - 4)) with (R.meta_off p + N.of_nat j) in H
      by (unfold R.inf_off, R.MetaLen; lia).
    destruct H as [H | (H & x & Hx & Z)]; [now left|].
    right. split; [exact H | eapply rsv_known_info; eauto].
Qed.

(** ------------------------------------------------------------ no decoder panics *)
Lemma skip_exts_no_panic nh pld : skip_exts nh pld <> Panic.
Proof.
  unfold skip_exts. destruct (nh =? HbhClass).
  - pose proof (ext_skip_no_panic HdrExt.HBH pld) as P.
    destruct (HdrExt.ext_skip_decode HdrExt.HBH pld) as [[[n el] p]| |]; cbn [BytesX.bind]; try congruence.
    destruct (n =? E2eClass); [|discriminate].
    pose proof (ext_skip_no_panic HdrExt.E2E p) as P2.
    destruct (HdrExt.ext_skip_decode HdrExt.E2E p) as [[[n2 el2] p2]| |]; cbn [BytesX.bind]; congruence.
  - cbn [BytesX.bind]. destruct (nh =? E2eClass); [|discriminate].
    pose proof (ext_skip_no_panic HdrExt.E2E pld) as P2.
    destruct (HdrExt.ext_skip_decode HdrExt.E2E pld) as [[[n2 el2] p2]| |]; cbn [BytesX.bind]; congruence.
Qed.

Lemma l4_port_no_panic qport proto b : l4_port qport proto b <> Panic.
Proof.
  unfold l4_port. destruct (proto =? L4UDP).
  { destruct (Nat.ltb (length b) 8) eqn:L; [discriminate|]. apply Nat.ltb_ge in L.
    np_take lia. np_word lia. discriminate. }
  destruct (proto =? L4TCP).
  { destruct (Nat.ltb (length b) 20) eqn:L; [discriminate|]. apply Nat.ltb_ge in L.
    np_take lia. np_word lia. discriminate. }
  destruct (proto =? L4SCMP); [|discriminate].
  pose proof (fmt_decode_no_panic HdrL4.scmp_base_fmt b) as P.
  destruct (HdrL4.fmt_decode HdrL4.scmp_base_fmt b) as [[hd4 r]| |]; cbn [BytesX.bind]; try congruence.
  cbv zeta. destruct (_ || _); [discriminate|].
  destruct (hd 0 hd4 =? 129).
  { pose proof (fmt_decode_no_panic HdrL4.scmp_echo_fmt r) as P1.
    destruct (HdrL4.fmt_decode HdrL4.scmp_echo_fmt r) as [[m r']| |]; cbn [BytesX.bind]; congruence. }
  destruct (hd 0 hd4 =? 131).
  { pose proof (fmt_decode_no_panic HdrL4.scmp_traceroute_fmt r) as P1.
    destruct (HdrL4.fmt_decode HdrL4.scmp_traceroute_fmt r) as [[m r']| |]; cbn [BytesX.bind]; congruence. }
  destruct (HdrL4.scmp_msg_fmt (hd 0 hd4)); [|discriminate].
  destruct (qport (hd 0 hd4) r); discriminate.
Qed.

Lemma abstract_no_panic qport raw : wf_bytes raw -> abstract_res qport raw <> APanic.
Proof.
  intros W. unfold abstract_res.
  pose proof (scion_no_panic raw) as P.
  destruct (HS.scion_decode raw) as [[h pld]| |] eqn:Es; try congruence.
  pose proof (skip_exts_no_panic (HS.s_nexthdr h) pld) as P2.
  destruct (skip_exts (HS.s_nexthdr h) pld) as [[proto l4]| |] eqn:Ex; try congruence.
  destruct (HS.s_path h) eqn:Epath; try discriminate.
  match type of Epath with _ = HP.PScion ?x => rename x into rp end.
  destruct (scion_decode_view _ _ _ _ W Es Epath) as (pre & slack & _ & _ & Er & _ & Wps & _).
  destruct (raw_decode_view _ _ _ Wps Er) as (rsv & infos & hops & Ef & _).
  rewrite Ef. pose proof (l4_port_no_panic qport proto l4) as P3.
  destruct (l4_port qport proto l4); congruence.
Qed.

(** ------------------------------------------------------------ the forwarded bytes *)
Lemma patch_mid raw pre x post out :
  raw = pre ++ x ++ post -> length pre = N.to_nat (R.meta_off out) -> length x = length (enc_path out) ->
  patch raw out = pre ++ enc_path out ++ post.
Proof.
  intros -> Lp Lx. unfold patch. rewrite <- Lp, <- Lx.
  rewrite firstn_app_exact by reflexivity. f_equal. f_equal.
  rewrite app_assoc. rewrite skipn_app_exact; [reflexivity | now rewrite app_length].
Qed.

Lemma enc_path_length q :
  length (enc_path q) = (4 + length (R.p_infos q) * 8 + length (R.p_hops q) * 12)%nat.
Proof. rewrite enc_path_fields, enc_fields_length. reflexivity. Qed.

Lemma geo_ok_with p out hl total :
  pkt_inv out -> same_outside p out ->
  N.of_nat (length (R.p_infos p)) = numinf_of (R.p_seg0 p) (R.p_seg1 p) (R.p_seg2 p) ->
  N.of_nat (length (R.p_hops p)) = R.p_seg0 p + R.p_seg1 p + R.p_seg2 p ->
  (N.to_nat (R.meta_off p) + length (enc_path p) <= N.to_nat hl * 4)%nat ->
  total = 4 * hl + R.p_pay_len p ->
  RouterTotal.geo_ok (geo_with p out hl total) = true.
Proof.
  intros (I1 & I2 & I3 & I4 & I5) SO Li Lh Hhl ->.
  destruct SO as (_ & _ & _ & _ & _ & _ & _ & _ & _ & S10 & S11 & S12 & _ & _).
  unfold R.seglen_ok in I1. unfold R.num_hops in I2, I4. unfold R.inf_index_for_hf in I5.
  rewrite S10, S11, S12 in *.
  rewrite enc_path_length in Hhl.
  unfold RouterTotal.geo_ok, RouterTotal.g_path_len, geo_with.
  cbn [RouterTotal.g_path_type RouterTotal.g_total RouterTotal.g_hdr_len RouterTotal.g_pay_len
       RouterTotal.g_dst_type RouterTotal.g_src_type].
  change (1 =? 1) with true. cbn [orb].
  unfold RouterTotal.g_seglen_ok, RouterTotal.g_num_hops, RouterTotal.g_num_inf, RouterTotal.g_inf_index.
  cbn [RouterTotal.g_seg0 RouterTotal.g_seg1 RouterTotal.g_seg2 RouterTotal.g_curr_hf RouterTotal.g_curr_inf].
  fold (numinf_of (R.p_seg0 p) (R.p_seg1 p) (R.p_seg2 p)). rewrite <- Li.
  rewrite I1. cbn [andb].
  repeat (apply andb_true_iff; split).
  - apply N.leb_le. unfold R.meta_off, R.addr_len, R.CmnHdrLen, R.IABytes, R.LineLen, R.MetaLen, R.InfoLen, R.HopLen in *.
    lia.
  - apply N.eqb_eq. unfold R.LineLen. lia.
  - apply N.leb_le. exact I2.
  - apply N.ltb_lt. exact I4.
  - apply N.eqb_eq. exact I5.
Qed.

Section Main.
Variable qport : N -> bytes -> option N.
Variable mac : N -> N -> N -> N -> N -> list N.
Notation macq := (total mac).
Variable c : R.cfg.
Variable now : N.
Variable ing : R.ingress.

Lemma forward_bytes raw p e out d : wf_bytes raw ->
  abstract_res qport raw = ARec p -> R.process_scion macq c now ing p = R.Forward e out d ->
  exists pre post,
    raw = pre ++ enc_path p ++ post /\ patch raw out = pre ++ enc_path out ++ post /\
    length pre = N.to_nat (R.meta_off p) /\ length (enc_path out) = length (enc_path p) /\
    out_shape p out /\ pkt_inv out /\ wf_fields p /\ wf_fields out /\ same_outside p out /\
    N.of_nat (length (R.p_infos p)) = R.num_inf p /\
    abstract_res qport (patch raw out) = ARec out /\
    exists g, geo_of_bytes (patch raw out) = Some g /\ RouterTotal.geo_ok g = true.
Proof.
  intros W A H.
  destruct (abstract_view qport raw p W A) as (pre & post & hl & Eraw & Lpre & WP & Li & Lh & Sok & H64 & Hhl & Hcov & Hlen & Sub).
  pose proof (forward_shape mac c now ing p e out d H) as Sh.
  pose proof (process_good macq c now ing p) as G. rewrite H in G. cbn in G.
  destruct (out_encodable p out WP Sh G) as [WO SO].
  destruct (Sub out SO WO) as [A' Ge].
  assert (Lo : length (enc_path out) = length (enc_path p)).
  { rewrite !enc_path_length. destruct SO as (_ & _ & _ & _ & _ & _ & _ & _ & _ & _ & _ & _ & -> & ->). reflexivity. }
  assert (Moff : R.meta_off out = R.meta_off p).
  { unfold R.meta_off, R.addr_len. destruct SO as (_ & _ & -> & -> & _). reflexivity. }
  assert (Pm : patch raw out = pre ++ enc_path out ++ post).
  { eapply patch_mid; [exact Eraw | now rewrite Moff | now rewrite Lo]. }
  exists pre, post. rewrite Pm.
  repeat (split; [first [assumption | reflexivity]|]).
  eexists. split; [exact Ge|].
  pose proof (forward_paylen mac c now ing p e out d H) as PL.
  assert (PLp : R.p_pay_len p = R.p_pay_actual p).
  { destruct SO as (_ & _ & _ & _ & _ & _ & S7 & S8 & _). congruence. }
  apply geo_ok_with; try assumption.
  - lia.
  - rewrite PLp. lia.
Qed.

End Main.

Lemma nth_concat_chunks {A} (f : A -> bytes) n : (forall x, length (f x) = n) ->
  forall l k x j, nth_error l k = Some x -> (j < n)%nat ->
  nth_error (concat (map f l)) (k * n + j) = nth_error (f x) j.
Proof.
  intros Hn. induction l as [|a l IH]; intros k x j Hk Hj; [destruct k; discriminate|].
  cbn [map concat]. destruct k as [|k]; cbn [nth_error] in Hk.
  - injection Hk as ->. cbn [Nat.mul Nat.add]. apply nth_error_app1. now rewrite Hn.
  - rewrite nth_error_app2 by (rewrite Hn; cbn [Nat.mul]; lia). rewrite Hn.
    replace (S k * n + j - n)%nat with (k * n + j)%nat by (cbn [Nat.mul]; lia). now apply IH.
Qed.

Lemma diff_from_spec : forall a b k o, In o (diff_from k a b) ->
  exists j, o = k + N.of_nat j /\ nth_error a j <> nth_error b j.
Proof.
  induction a as [|x ta IH]; intros b k o H; [destruct H|].
  destruct b as [|y tb]; [destruct H|]. cbn [diff_from] in H. apply in_app_or in H as [H|H].
  - destruct (x =? y) eqn:E; [destruct H|]. destruct H as [<-|[]]. exists 0%nat. split; [lia|].
    cbn. apply N.eqb_neq in E. congruence.
  - destruct (IH _ _ _ H) as (j & -> & Hj). exists (S j). split; [lia | exact Hj].
Qed.

Section Main.
Variable qport : N -> bytes -> option N.
Variable mac : N -> N -> N -> N -> N -> list N.
Notation macq := (total mac).
Variable c : R.cfg.
Variable now : N.
Variable ing : R.ingress.

(** the commuting diagram *)
Lemma process_bytes_commute mq raw p : abstract qport raw = Some p ->
  process_bytes qport mq c now ing raw = lift raw (R.process_scion mq c now ing p).
Proof.
  unfold abstract, process_bytes. destruct (abstract_res qport raw); try discriminate.
  intros H; injection H as ->. reflexivity.
Qed.

Lemma process_bytes_forward_inv mq raw e raw' d :
  process_bytes qport mq c now ing raw = ForwardB e raw' d ->
  exists p out, abstract_res qport raw = ARec p /\
    R.process_scion mq c now ing p = R.Forward e out d /\ raw' = patch raw out.
Proof.
  unfold process_bytes. destruct (abstract_res qport raw) as [| | |p]; try discriminate.
  destruct (R.process_scion mq c now ing p) as [| | |e' out d'| | |] eqn:E; cbn [lift]; try discriminate.
  intros H; injection H as -> <- ->. eauto.
Qed.

Lemma process_bytes_no_panic mq raw : wf_bytes raw -> process_bytes qport mq c now ing raw <> PanicB.
Proof.
  intros W. unfold process_bytes. pose proof (abstract_no_panic qport raw W) as NP.
  destruct (abstract_res qport raw) as [| | |p]; try congruence; try discriminate.
  pose proof (process_good mq c now ing p) as G.
  destruct (R.process_scion mq c now ing p); cbn [lift]; try discriminate. destruct G.
Qed.

Lemma frame_core raw p e out d : wf_bytes raw ->
  abstract_res qport raw = ARec p -> R.process_scion macq c now ing p = R.Forward e out d ->
  forall o, R.nthN (patch raw out) o <> R.nthN raw o ->
  R.memN o (R.allowed_offsets p) = true \/ (R.memN o (rsv_offsets p) = true /\ known p).
Proof.
  intros W A H o Ho.
  destruct (forward_bytes qport mac c now ing raw p e out d W A H)
    as (pre & post & Eraw & Pm & Lpre & Lo & Sh & _).
  unfold R.nthN in Ho. rewrite Pm in Ho. rewrite Eraw in Ho.
  apply nth_error_mid in Ho; [|now rewrite Lo]. destruct Ho as [Ge Ho].
  apply (diff_path p out _ Sh) in Ho. cbv zeta in Ho.
  replace (R.meta_off p + N.of_nat (N.to_nat o - length pre)) with o in Ho by lia. exact Ho.
Qed.

Lemma immutable_core raw p e out d : wf_bytes raw ->
  abstract_res qport raw = ARec p -> R.process_scion macq c now ing p = R.Forward e out d ->
  length (patch raw out) = length raw /\
  firstn (N.to_nat (R.meta_off p)) (patch raw out) = firstn (N.to_nat (R.meta_off p)) raw /\
  skipn (N.to_nat (R.hop_off p 0)) (patch raw out) = skipn (N.to_nat (R.hop_off p 0)) raw.
Proof.
  intros W A H.
  destruct (forward_bytes qport mac c now ing raw p e out d W A H)
    as (pre & post & Eraw & Pm & Lpre & Lo & Sh & _ & _ & _ & _ & Li & _).
  rewrite Pm. rewrite Eraw.
  split. { rewrite !app_length. now rewrite Lo. }
  split. { rewrite <- Lpre. now rewrite !firstn_app_exact by reflexivity. }
  destruct Sh as [S PI _]. unfold enc_path. rewrite (ss13 _ _ S).
  set (Hs := concat (map enc_hop (R.p_hops p))).
  assert (LI : length (concat (map enc_info (R.p_infos out))) = length (concat (map enc_info (R.p_infos p)))).
  { rewrite !(concat_length_const enc_info HP.info_len) by apply enc_info_length.
    now rewrite (pw_length _ _ _ _ PI). }
  assert (Off : forall M I, length M = 4%nat -> length I = length (concat (map enc_info (R.p_infos p))) ->
            skipn (N.to_nat (R.hop_off p 0)) (pre ++ (M ++ I ++ Hs) ++ post) = Hs ++ post).
  { intros M I LM LIq.
    replace (pre ++ (M ++ I ++ Hs) ++ post) with ((pre ++ M ++ I) ++ Hs ++ post) by (now rewrite <- !app_assoc).
    apply skipn_app_exact. rewrite !app_length, LM, LIq, Lpre.
    rewrite (concat_length_const enc_info HP.info_len) by apply enc_info_length.
    unfold R.hop_off, R.MetaLen, R.InfoLen, R.HopLen, HP.info_len. lia. }
  rewrite !Off; try reflexivity; try assumption; apply enc_meta_length.
Qed.

Lemma values_core raw p e out d : wf_bytes raw ->
  abstract_res qport raw = ARec p -> R.process_scion macq c now ing p = R.Forward e out d ->
  R.nthN (patch raw out) (R.meta_off p) = Some (R.p_curr_inf out * 64 + R.p_curr_hf out) /\
  forall k i', R.nthN (R.p_infos out) k = Some i' ->
    R.nthN (patch raw out) (R.inf_off p k + 2) = Some (R.i_segid i' / 256) /\
    R.nthN (patch raw out) (R.inf_off p k + 3) = Some (R.i_segid i' mod 256).
Proof.
  intros W A H.
  destruct (forward_bytes qport mac c now ing raw p e out d W A H)
    as (pre & post & Eraw & Pm & Lpre & Lo & Sh & _ & _ & WO & _).
  destruct WO as (Q1 & Q2 & _ & _ & _ & _ & Q7 & _).
  rewrite Pm. unfold R.nthN.
  assert (At : forall t, (t < length (enc_path out))%nat ->
            nth_error (pre ++ enc_path out ++ post) (N.to_nat (R.meta_off p) + t) = nth_error (enc_path out) t).
  { intros t Ht. rewrite nth_error_app2 by lia. rewrite <- Lpre.
    replace (length pre + t - length pre)%nat with t by lia. now apply nth_error_app1. }
  pose proof (enc_path_length out) as Lout.
  split.
  - replace (N.to_nat (R.meta_off p)) with (N.to_nat (R.meta_off p) + 0)%nat by lia.
    rewrite At by lia. unfold enc_path, enc_meta, enc_meta_f. cbn [app nth_error].
    now rewrite !N.mod_small by assumption.
  - intros k i' Hk.
    assert (Hlt : (N.to_nat k < length (R.p_infos out))%nat) by (apply nth_error_Some; congruence).
    assert (Wi : wf_rinfo i') by (rewrite Forall_forall in Q7; apply Q7; eapply nth_error_In; exact Hk).
    destruct Wi as (Ws & _).
    assert (I : forall j, (j < 8)%nat ->
              nth_error (enc_path out) (4 + (N.to_nat k * 8 + j)) = nth_error (enc_info i') j).
    { intros j Hj. unfold enc_path. rewrite nth_error_app2 by (unfold enc_meta; rewrite enc_meta_length; unfold HP.meta_len; lia).
      unfold enc_meta. rewrite enc_meta_length.
      replace (4 + (N.to_nat k * 8 + j) - HP.meta_len)%nat with (N.to_nat k * 8 + j)%nat by (unfold HP.meta_len; lia).
      rewrite nth_error_app1.
      - apply (nth_concat_chunks enc_info 8 enc_info_length); assumption.
      - rewrite (concat_length_const enc_info HP.info_len) by apply enc_info_length. unfold HP.info_len. lia. }
    split.
    + replace (N.to_nat (R.inf_off p k + 2)) with (N.to_nat (R.meta_off p) + (4 + (N.to_nat k * 8 + 2)))%nat
        by (unfold R.inf_off, R.MetaLen, R.InfoLen; lia).
      rewrite At by lia. rewrite I by lia. unfold enc_info. cbn [be app nth_error].
      change (256 ^ N.of_nat 1) with 256. f_equal. lia.
    + replace (N.to_nat (R.inf_off p k + 3)) with (N.to_nat (R.meta_off p) + (4 + (N.to_nat k * 8 + 3)))%nat
        by (unfold R.inf_off, R.MetaLen, R.InfoLen; lia).
      rewrite At by lia. rewrite I by lia. unfold enc_info. cbn [be app nth_error].
      change (256 ^ N.of_nat 0) with 1. now rewrite N.div_1_r.
Qed.

(** the oracle of the byte cases on the model's own output *)
Lemma forward_ok_model raw p e out d : wf_bytes raw -> R.rsv_clear p = true ->
  abstract_res qport raw = ARec p -> R.process_scion macq c now ing p = R.Forward e out d ->
  forward_ok qport raw (patch raw out) = true.
Proof.
  intros W RC A H.
  destruct (forward_bytes qport mac c now ing raw p e out d W A H)
    as (pre & post & Eraw & Pm & Lpre & Lo & Sh & G & _ & _ & _ & _ & A' & g & Hg & Gok).
  destruct (immutable_core raw p e out d W A H) as (Len & _).
  unfold forward_ok, abstract. rewrite A, A', Hg, Gok, Len, N.eqb_refl.
  rewrite (shape_frame p out Sh RC), (shape_exact p out Sh).
  rewrite (fwd_wf_intro out G (forward_paylen mac c now ing p e out d H)).
  cbn [andb]. rewrite !andb_true_r. apply forallb_forall. intros o Ho.
  unfold diff_offsets in Ho. apply diff_from_spec in Ho as (j & -> & Hj).
  destruct (frame_core raw p e out d W A H (N.of_nat j)) as [F | [_ K]].
  - unfold R.nthN. rewrite Nat2N.id. congruence.
  - rewrite N.add_0_l. exact F.
  - unfold known in K. congruence.
Qed.

End Main.

(** ------------------------------------------------------------ emitted bytes are bytes *)
Lemma enc_path_wf q : wf_fields q -> wf_bytes (enc_path q).
Proof.
  intros (_ & _ & _ & _ & _ & _ & Wi & Wh). unfold enc_path.
  apply wf_bytes_app. split.
  { unfold enc_meta, enc_meta_f. apply wf_bytes_app. split; [|apply be_wf].
    repeat constructor; unfold wf_byte; lia. }
  apply wf_bytes_app. split.
  - induction Wi as [|i l (W1 & W2 & W3 & W4) _ IH]; cbn [map concat]; [constructor|].
    apply wf_bytes_app. split; [|exact IH]. unfold enc_info.
    apply wf_bytes_app. split; [|apply wf_bytes_app; split; apply be_wf].
    pose proof (flags_small (R.i_consdir i) (R.i_peer i)).
    repeat constructor; unfold wf_byte; lia.
  - induction Wh as [|h l (W1 & W2 & W3 & W4 & W5 & W6 & W7) _ IH]; cbn [map concat]; [constructor|].
    apply wf_bytes_app. split; [|exact IH]. unfold enc_hop.
    apply wf_bytes_app. split.
    { pose proof (flags_small (R.h_ealert h) (R.h_ialert h)). repeat constructor; unfold wf_byte; lia. }
    apply wf_bytes_app. split; [apply be_wf|]. apply wf_bytes_app. split; [apply be_wf|].
    now apply fit_wf.
Qed.

Section Out.
Variable qport : N -> bytes -> option N.
Variable mac : N -> N -> N -> N -> N -> list N.
Variable c : R.cfg.
Variable now : N.
Variable ing : R.ingress.

Lemma forward_wf_bytes raw p e out d : wf_bytes raw ->
  abstract_res qport raw = ARec p -> R.process_scion (total mac) c now ing p = R.Forward e out d ->
  wf_bytes (patch raw out).
Proof.
  intros W A H.
  destruct (forward_bytes qport mac c now ing raw p e out d W A H)
    as (pre & post & Eraw & Pm & _ & _ & _ & _ & _ & WO & _).
  rewrite Pm. rewrite Eraw in W. apply wf_bytes_app in W as [Wpre W]. apply wf_bytes_app in W as [_ Wpost].
  apply wf_bytes_app. split; [exact Wpre|]. apply wf_bytes_app. split; [now apply enc_path_wf | exact Wpost].
Qed.
End Out.
