(** Provenance paths given slice by slice ([Prov.of_slices]): a sufficient condition for
    [wf_prov_b] stated on the slices (non-peering paths: every slice has at least two hops),
    and the interface list of such a path as the concatenation of what each slice traverses.
    Used to turn the solutions of the path combinator into provenance paths (C02, layer 3). *)
From Coq Require Import List NArith Bool Arith Lia.
From Scion Require Import Lib.Check Model.Router Model.Network Model.Prov.
From Scion Require Import Proofs.ProvStruct Proofs.ProvRender Proofs.ForwardView Proofs.ProvFacts
  Proofs.RouterPass.
Import ListNotations.
Import Scion.Model.Router.Router Network Prov.

Definition dsl : pslice := mkSl KIntra false false 0 [].
Definition hdr_of (s : pslice) : pseg :=
  mkSg (sl_kind s) (sl_consdir s) (sl_peer s) (sl_ts s) (length (sl_hops s)).

Lemma nth_flat_map {A B} (f : A -> list B) (d : B) (da : A) : forall l k,
  (k < total (map (fun a => length (f a)) l))%nat ->
  nth k (flat_map f l) d =
  nth (seg_off (map (fun a => length (f a)) l) k)
      (f (nth (seg_idx (map (fun a => length (f a)) l) k) l da)) d.
Proof.
  induction l as [|a l IH]; intros k H; cbn [map total fold_right] in H; [lia|].
  cbn [flat_map map seg_idx seg_off]. destruct (k <? length (f a))%nat eqn:E.
  - apply Nat.ltb_lt in E. now rewrite app_nth1.
  - apply Nat.ltb_ge in E. rewrite app_nth2 by assumption. cbn [nth].
    apply IH. fold (total (map (fun a => length (f a)) l)) in H. lia.
Qed.

Lemma length_flat_map {A B} (f : A -> list B) l :
  length (flat_map f l) = total (map (fun a => length (f a)) l).
Proof. induction l as [|a l IH]; [reflexivity|]. cbn [flat_map map total fold_right]. rewrite app_length, IH. reflexivity. Qed.

Lemma nth_last {A} (l : list A) d : l <> [] -> nth (length l - 1) l d = last l d.
Proof.
  induction l as [|x l IH]; [congruence|]. intros _. destruct l as [|y l]; [reflexivity|].
  specialize (IH ltac:(discriminate)). cbn [length] in *.
  replace (S (S (length l)) - 1)%nat with (S (length l)) by lia.
  replace (S (length l) - 1)%nat with (length l) in IH by lia.
  change (nth (S (length l)) (x :: y :: l) d) with (nth (length l) (y :: l) d). rewrite IH. reflexivity.
Qed.

Section Slices.
Variable mac : N -> N -> N -> N -> N -> N -> list N.
Variable t : topology.
Variable l : list pslice.

Notation p := (of_slices l).
Notation n := (nhops p).
Notation slen := (fun s : pslice => length (sl_hops s)).

Lemma segs_of_slices : pv_segs p = map hdr_of l.
Proof. reflexivity. Qed.
Lemma lens_of_slices : lens p = map slen l.
Proof. unfold lens. cbn [of_slices pv_segs]. now rewrite map_map. Qed.
Lemma nhops_of_slices : n = total (lens p).
Proof. unfold nhops. cbn [of_slices pv_hops]. rewrite length_flat_map, lens_of_slices. reflexivity. Qed.

(** hop [k] lies in slice [seg_idx k] at offset [seg_off k] *)
Lemma slice_pos k : (k < n)%nat ->
  exists sl, nth_error l (seg_idx (lens p) k) = Some sl /\ hdr p k = hdr_of sl /\
             hop p k = nth (seg_off (lens p) k) (sl_hops sl) dhop /\
             (seg_off (lens p) k < length (sl_hops sl))%nat.
Proof.
  intros H. rewrite nhops_of_slices in H. destruct (seg_decomp _ _ H) as (A & _ & C).
  rewrite lens_of_slices in *. rewrite map_length in A.
  exists (nth (seg_idx (map slen l) k) l dsl). split; [now apply nth_error_nth'|]. split; [|split].
  - unfold hdr. rewrite lens_of_slices, segs_of_slices. change dseg with (hdr_of dsl). apply map_nth.
  - unfold hop. cbn [of_slices pv_hops]. now apply nth_flat_map.
  - change 0%nat with (slen dsl) in C. now rewrite map_nth in C.
Qed.

(** * Slice-level well-formedness (non-peering paths) *)
Definition s_tr_in (sl : pslice) (h : phop) : N := if sl_consdir sl then ph_in h else ph_eg h.
Definition s_tr_eg (sl : pslice) (h : phop) : N := if sl_consdir sl then ph_eg h else ph_in h.
Definition base_of (sl : pslice) : linktype :=
  match sl_kind sl with KCore => Core | KIntra => if sl_consdir sl then Child else Parent end.

Definition hop_good (sl : pslice) (h : phop) : Prop :=
  exists a, find_as t (ph_ia h) = Some a /\
    ph_mac h = mac (a_key a) (ph_beta h) (sl_ts sl) (ph_exp h) (ph_in h) (ph_eg h).

(** consecutive hops of a slice: the beta chain and the link between the two ASes *)
Definition pair_good (sl : pslice) (h h' : phop) : Prop :=
  ph_beta h' = N.lxor (ph_beta h) (mac_prefix (ph_mac (if sl_consdir sl then h else h'))) /\
  exists a f, find_as t (ph_ia h) = Some a /\ find_nif (a_ifs a) (s_tr_eg sl h) = Some f /\
    ni_nbr f = ph_ia h' /\ ni_remote f = s_tr_in sl h' /\ ni_lt f = base_of sl.

(** consecutive slices meet in one AS, in an order the router admits *)
Definition junction_good (sl sl' : pslice) : Prop :=
  ph_ia (last (sl_hops sl) dhop) = ph_ia (hd dhop (sl_hops sl')) /\
  match sl_kind sl, sl_kind sl' with
  | KIntra, KCore => sl_consdir sl = false
  | KCore, KIntra => sl_consdir sl' = true
  | KIntra, KIntra => sl_consdir sl = false /\ sl_consdir sl' = true
  | KCore, KCore => False
  end.

Record wf_slices : Prop := {
  ws_n : (1 <= length l <= 3)%nat;
  ws_len : Forall (fun sl => (2 <= length (sl_hops sl))%nat) l;
  ws_np : Forall (fun sl => sl_peer sl = false) l;
  ws_tot : (length (flat_map sl_hops l) <= 64)%nat;
  ws_hop : forall sl h, In sl l -> In h (sl_hops sl) -> hop_good sl h;
  ws_pair : forall sl i h h', In sl l -> nth_error (sl_hops sl) i = Some h ->
            nth_error (sl_hops sl) (S i) = Some h' -> pair_good sl h h';
  ws_junc : forall j sl sl', nth_error l j = Some sl -> nth_error l (S j) = Some sl' -> junction_good sl sl';
  ws_src : forall k, (1 <= k)%nat -> (k < n)%nat -> ia p k <> ia p 0;
  ws_dst : forall k, (S k < n)%nat -> ia p k <> ia p (n - 1)
}.

Hypothesis W : wf_slices.

Lemma slices_shape : shape_ok p = true.
Proof.
  destruct W as [[N1 N3] Len Np Tot _ _ _ _ _].
  unfold shape_ok. cbv zeta. rewrite segs_of_slices, map_length.
  apply andb_true_iff; split; [repeat (apply andb_true_iff; split)|].
  - apply Nat.leb_le; lia.
  - apply Nat.leb_le; lia.
  - apply Nat.eqb_eq. fold (total (lens p)). now rewrite <- nhops_of_slices.
  - apply Nat.leb_le. exact Tot.
  - apply forallb_forall. intros s Hin. apply in_map_iff in Hin as (sl & <- & Hsl).
    rewrite Forall_forall in Len. specialize (Len sl Hsl). cbn [hdr_of sg_len sg_peer].
    apply andb_true_iff; split; [apply Nat.leb_le; lia|]. apply orb_true_iff. right. apply Nat.leb_le. lia.
  - replace (existsb sg_peer (map hdr_of l)) with false; [reflexivity|].
    symmetry. apply not_true_iff_false. intros E. apply existsb_exists in E as (s & Hin & Ps).
    apply in_map_iff in Hin as (sl & <- & Hsl). rewrite Forall_forall in Np. cbn [hdr_of sg_peer] in Ps.
    rewrite (Np sl Hsl) in Ps. discriminate.
Qed.

Notation Hs := slices_shape.
Notation HT := (Htot p slices_shape).
Notation HP := (Hpos p slices_shape).

Lemma nopeer_k k : (k < n)%nat -> sg_peer (hdr p k) = false.
Proof.
  intros H. destruct (slice_pos k H) as (sl & Hn & Hh & _). rewrite Hh. cbn [hdr_of sg_peer].
  destruct W as [_ _ Np _ _ _ _ _ _]. rewrite Forall_forall in Np. apply Np. eapply nth_error_In; eauto.
Qed.

Lemma nopeerhop_k k : (k < n)%nat -> peerhop p k = false.
Proof. intros H. unfold peerhop. now rewrite nopeer_k. Qed.

Theorem wf_slices_prov : wf_prov_b (macq_of mac) t p = true.
Proof.
  pose proof W as [[N1 N3] Len Np Tot Hop Pair Junc Src Dst].
  assert (N2 : (2 <= n)%nat).
  { destruct l as [|s0 r]; [cbn in N1; lia|]. inversion Len as [|? ? L0 _]; subst.
    unfold nhops. cbn [of_slices pv_hops flat_map]. rewrite app_length. lia. }
  unfold wf_prov_b.
  apply andb_true_iff; split; [apply andb_true_iff; split; [apply andb_true_iff; split;
    [apply andb_true_iff; split; [apply andb_true_iff; split|]|]|]|].
  - apply Hs.
  - now apply Nat.leb_le.
  - apply forallb_forall. intros k Hk. apply in_seq in Hk. destruct Hk as [_ Hk]. cbn [Nat.add] in Hk.
    destruct (slice_pos k Hk) as (sl & Hn & Hh & Hp & Ho).
    assert (Isl : In sl l) by (eapply nth_error_In; eauto).
    destruct (Hop sl (hop p k) Isl) as (a & Fa & M); [rewrite Hp; now apply nth_In|].
    unfold hop_ok, ia, beta. rewrite Fa, Hh. cbn [hdr_of sg_ts]. unfold macq_of. rewrite <- M.
    apply list_eqb_N_refl.
  - apply forallb_forall. intros k Hk. apply in_seq in Hk. destruct Hk as [_ Hk]. cbn [Nat.add] in Hk.
    assert (Hk0 : (k < n)%nat) by lia. assert (Hk1 : (S k < n)%nat) by lia.
    destruct (slice_pos k Hk0) as (sl & Hn & Hh & Hp & Ho).
    assert (Isl : In sl l) by (eapply nth_error_In; eauto).
    destruct (slice_pos (S k) Hk1) as (sl' & Hn' & Hh' & Hp' & Ho').
    assert (Cr : crosses p k = negb (is_last p k)).
    { unfold crosses. now rewrite (nopeer_k k Hk0), orb_false_r. }
    destruct (is_last p k) eqn:L.
    + (* segment change *)
      destruct (step_next p HP HT k Hk1 L) as (J & O & _). rewrite J in Hn'. rewrite O in Hp'.
      destruct (Junc _ sl sl' Hn Hn') as (Ia & Kk).
      unfold chain_ok, link_ok, junction_ok. rewrite Cr, L. cbn [negb orb andb].
      unfold is_last in L. apply Nat.eqb_eq in L. rewrite Hh in L. cbn [hdr_of sg_len] in L.
      assert (El : hop p k = last (sl_hops sl) dhop).
      { rewrite Hp. replace (seg_off (lens p) k) with (length (sl_hops sl) - 1)%nat by lia.
        apply nth_last. intros X. rewrite X in Ho. cbn in Ho. lia. }
      assert (Ef : hop p (S k) = hd dhop (sl_hops sl')).
      { rewrite Hp'. destruct (sl_hops sl'); reflexivity. }
      unfold ia. rewrite El, Ef, Ia, N.eqb_refl. cbn [andb]. unfold cons. rewrite Hh, Hh'.
      cbn [hdr_of sg_kind sg_consdir].
      destruct (sl_kind sl), (sl_kind sl'); try contradiction.
      * now rewrite Kk.
      * now rewrite Kk.
      * destruct Kk as [K1 K2]. now rewrite K1, K2.
    + (* inside a slice *)
      destruct (step_same p HT k Hk0 L) as (J & O & _). rewrite J, Hn in Hn'. inversion Hn'; subst sl'. clear Hn'.
      rewrite O in Hp', Ho'.
      assert (E1 : nth_error (sl_hops sl) (seg_off (lens p) k) = Some (hop p k)).
      { rewrite Hp. now apply nth_error_nth'. }
      assert (E2 : nth_error (sl_hops sl) (S (seg_off (lens p) k)) = Some (hop p (S k))).
      { rewrite Hp'. now apply nth_error_nth'. }
      destruct (Pair sl _ _ _ Isl E1 E2) as (Ch & a & f & Fa & Ff & Nb & Rm & Lt).
      unfold chain_ok, link_ok, junction_ok. rewrite Cr, L. cbn [negb orb andb].
      rewrite (nopeerhop_k k Hk0), (nopeerhop_k (S k) Hk1).
      unfold cons, beta, sigma, ia, tr_eg, tr_in, eg_type, cons. rewrite (nopeerhop_k k Hk0). cbn [andb].
      rewrite Hh, Hh'. cbn [hdr_of sg_consdir sg_kind].
      unfold s_tr_eg, s_tr_in, base_of in *.
      rewrite Fa.
      destruct (sl_consdir sl); rewrite Ff, Nb, Rm, Lt, Ch, !N.eqb_refl; cbn [andb];
        destruct (sl_kind sl); reflexivity.
  - apply forallb_forall. intros k Hk. apply in_seq in Hk. apply negb_true_iff, N.eqb_neq. apply Src; lia.
  - apply forallb_forall. intros k Hk. apply in_seq in Hk. apply negb_true_iff, N.eqb_neq. apply Dst; lia.
Qed.

End Slices.

(** * The interface list, slice by slice *)
Definition pair_at (sl : pslice) (h h' : phop) : list (N * N) :=
  [(ph_ia h, s_tr_eg sl h); (ph_ia h', s_tr_in sl h')].
Fixpoint pairs_ifs (sl : pslice) (hs : list phop) : list (N * N) :=
  match hs with
  | h :: ((h' :: _) as tl) => pair_at sl h h' ++ pairs_ifs sl tl
  | _ => []
  end.

Lemma flat_map_seq_S {B} (f : nat -> list B) : forall c s,
  flat_map f (seq (S s) c) = flat_map (fun i => f (S i)) (seq s c).
Proof. induction c as [|c IH]; intros s; [reflexivity|]. cbn [seq flat_map]. now rewrite IH. Qed.

Lemma flat_map_ext_in' {A B} (f g : A -> list B) l :
  (forall a, In a l -> f a = g a) -> flat_map f l = flat_map g l.
Proof.
  induction l as [|a l IH]; intros H; [reflexivity|]. cbn [flat_map].
  rewrite (H a (or_introl eq_refl)), IH; [reflexivity|]. intros b Hb. apply H. now right.
Qed.

Lemma pairs_ifs_seq sl : forall hs,
  pairs_ifs sl hs =
  flat_map (fun i => pair_at sl (nth i hs dhop) (nth (S i) hs dhop)) (seq 0 (length hs - 1)).
Proof.
  induction hs as [|h hs IH]; [reflexivity|]. destruct hs as [|h' tl]; [reflexivity|].
  change (pairs_ifs sl (h :: h' :: tl)) with (pair_at sl h h' ++ pairs_ifs sl (h' :: tl)).
  rewrite IH. cbn [length]. replace (S (S (length tl)) - 1)%nat with (S (length tl)) by lia.
  replace (S (length tl) - 1)%nat with (length tl) by lia.
  cbn [seq flat_map]. rewrite flat_map_seq_S. reflexivity.
Qed.

Section Shift.
Variable sl : pslice.
Variable r : list pslice.
Notation m := (length (sl_hops sl)).
Notation p1 := (of_slices (sl :: r)).
Notation p0 := (of_slices r).

Lemma lens_cons : lens p1 = m :: lens p0.
Proof. rewrite !lens_of_slices. reflexivity. Qed.

Lemma nhops_cons : nhops p1 = (m + nhops p0)%nat.
Proof. unfold nhops. cbn [of_slices pv_hops flat_map]. now rewrite app_length. Qed.

Lemma local_idx i : (i < m)%nat -> seg_idx (lens p1) i = 0%nat /\ seg_off (lens p1) i = i.
Proof. intros H. rewrite lens_cons. cbn [seg_idx seg_off]. apply Nat.ltb_lt in H. now rewrite H. Qed.

Lemma shift_idx k : seg_idx (lens p1) (m + k) = S (seg_idx (lens p0) k) /\
                    seg_off (lens p1) (m + k) = seg_off (lens p0) k.
Proof.
  rewrite lens_cons. cbn [seg_idx seg_off].
  replace (m + k <? m)%nat with false by (symmetry; apply Nat.ltb_ge; lia).
  now replace (m + k - m)%nat with k by lia.
Qed.

Lemma local_hop i : (i < m)%nat -> hop p1 i = nth i (sl_hops sl) dhop.
Proof. intros H. unfold hop. cbn [of_slices pv_hops flat_map]. now rewrite app_nth1. Qed.
Lemma shift_hop k : hop p1 (m + k) = hop p0 k.
Proof.
  unfold hop. cbn [of_slices pv_hops flat_map]. rewrite app_nth2 by lia. f_equal. lia.
Qed.
Lemma local_hdr i : (i < m)%nat -> hdr p1 i = hdr_of sl.
Proof. intros H. unfold hdr. destruct (local_idx i H) as [-> _]. reflexivity. Qed.
Lemma shift_hdr k : hdr p1 (m + k) = hdr p0 k.
Proof. unfold hdr. destruct (shift_idx k) as [-> _]. reflexivity. Qed.

Definition fpair (p : prov) (k : nat) : list (N * N) :=
  if crosses p k then [(ia p k, tr_eg p k); (ia p (S k), tr_in p (S k))] else [].

Lemma shift_fpair k : fpair p1 (m + k) = fpair p0 k.
Proof.
  unfold fpair, crosses, is_last, ia, tr_eg, tr_in, cons.
  replace (S (m + k)) with (m + S k)%nat by lia.
  rewrite !shift_hdr, !shift_hop. destruct (shift_idx k) as [_ ->]. reflexivity.
Qed.

Lemma local_fpair i : (S i < m)%nat -> sl_peer sl = false ->
  fpair p1 i = pair_at sl (nth i (sl_hops sl) dhop) (nth (S i) (sl_hops sl) dhop).
Proof.
  intros H Np. unfold fpair, crosses, is_last, ia, tr_eg, tr_in, cons.
  rewrite !local_hdr, !local_hop by lia. destruct (local_idx i ltac:(lia)) as [_ ->].
  cbn [hdr_of sg_len sg_peer sg_consdir]. rewrite Np, orb_false_r.
  replace (Nat.eqb (S i) m) with false by (symmetry; apply Nat.eqb_neq; lia). reflexivity.
Qed.

Lemma last_fpair : (1 <= m)%nat -> sl_peer sl = false -> fpair p1 (m - 1) = [].
Proof.
  intros H Np. unfold fpair, crosses, is_last. rewrite local_hdr by lia.
  destruct (local_idx (m - 1) ltac:(lia)) as [_ ->]. cbn [hdr_of sg_len sg_peer]. rewrite Np, orb_false_r.
  replace (Nat.eqb (S (m - 1)) m) with true by (symmetry; apply Nat.eqb_eq; lia). reflexivity.
Qed.

Lemma interfaces_fpair p : interfaces p = flat_map (fpair p) (seq 0 (nhops p - 1)).
Proof. reflexivity. Qed.

Lemma interfaces_cons : (2 <= m)%nat -> sl_peer sl = false ->
  interfaces p1 = pairs_ifs sl (sl_hops sl) ++ interfaces p0.
Proof.
  intros Hm Np. rewrite !interfaces_fpair, nhops_cons, pairs_ifs_seq.
  assert (Loc : flat_map (fpair p1) (seq 0 (m - 1)) =
                flat_map (fun i => pair_at sl (nth i (sl_hops sl) dhop) (nth (S i) (sl_hops sl) dhop))
                         (seq 0 (m - 1))).
  { apply flat_map_ext_in'. intros i Hi. apply in_seq in Hi. apply local_fpair; [lia|exact Np]. }
  destruct (nhops p0) as [|n0] eqn:E0.
  - rewrite Nat.add_0_r. cbn [Nat.sub seq flat_map]. now rewrite Loc, app_nil_r.
  - replace (m + S n0 - 1)%nat with ((m - 1) + (1 + n0))%nat by lia.
    rewrite seq_app, flat_map_app, Loc. f_equal.
    rewrite seq_app, flat_map_app. cbn [seq flat_map Nat.add].
    replace (0 + (m - 1))%nat with (m - 1)%nat by lia. rewrite (last_fpair ltac:(lia) Np). cbn [app].
    replace (S n0 - 1)%nat with n0 by lia.
    assert (G : forall c s, flat_map (fpair p1) (seq (m + s) c) = flat_map (fpair p0) (seq s c)).
    { induction c as [|c IH]; intros s; [reflexivity|]. cbn [seq flat_map]. rewrite shift_fpair.
      f_equal. replace (S (m + s)) with (m + S s)%nat by lia. apply IH. }
    replace (m - 1 + 1)%nat with (m + 0)%nat by lia. apply G.
Qed.

End Shift.

Lemma interfaces_slices : forall l,
  Forall (fun sl => (2 <= length (sl_hops sl))%nat /\ sl_peer sl = false) l ->
  interfaces (of_slices l) = flat_map (fun sl => pairs_ifs sl (sl_hops sl)) l.
Proof.
  induction l as [|sl r IH]; intros H; [reflexivity|].
  inversion H as [|? ? [Hm Np] Hr]; subst. rewrite interfaces_cons by assumption. cbn [flat_map].
  now rewrite IH.
Qed.
