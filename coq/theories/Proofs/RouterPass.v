(** Completeness-direction lemmas about [Router.process_scion]: sufficient
    conditions under which a packet passes every check and is forwarded, with
    the exact output.  (Proofs/Router.v has the soundness direction: what a
    Forward result implies.)  Used by the end-to-end forwarding proof (C02). *)
From Coq Require Import List NArith Bool Lia.
From Scion Require Import Lib.Check Model.Router.
Import ListNotations.
Import Router.
Local Open Scope N_scope.

Section Pass.
Variable macq : N -> N -> N -> N -> N -> option (list N).
Variable c : cfg.
Variable now : N.
Variable ing : ingress.

Lemma list_eqb_N_refl (l : list N) : list_eqb N.eqb l l = true.
Proof. induction l as [|x l IH]; cbn; [reflexivity|]. now rewrite N.eqb_refl, IH. Qed.

(** the ingress half: everything up to and including the ingress router alert *)
Lemma ingress_part_pass q h i pr :
  parse_path q = Ok (mkSt q h i false false 0) ->
  determine_peer (mkSt q h i false false 0) = Ok (mkSt q h i pr false 0) ->
  expired now i h = false ->
  (from0 ing = true \/ ing_ifid ing = (if i_consdir i then h_in h else h_eg h)) ->
  p_pay_len q = p_pay_actual q ->
  validate_transit_underlay_src c ing (mkSt q h i pr false 0) = Ok (mkSt q h i pr false 0) ->
  validate_src_dst_ia c ing (mkSt q h i pr false 0) = Ok (mkSt q h i pr false 0) ->
  validate_src_host c (mkSt q h i pr false 0) = Ok (mkSt q h i pr false 0) ->
  forall s1,
  s1 = (if negb (i_consdir i) && negb (from0 ing) && negb pr
        then store_inf (mkSt q h i pr false 0) (upd_segid i h) else mkSt q h i pr false 0) ->
  macq (i_segid (s_inf s1)) (i_ts i) (h_exp h) (h_in h) (h_eg h) = Some (h_mac h) ->
  h_ialert h = false -> h_ealert h = false ->
  ingress_part macq c now ing q = Ok s1.
Proof.
  intros Hpp Hdp Hexp Hing Hlen Htr Hsd Hsh s1 Hs1 Hmac Hia Hea.
  unfold ingress_part. rewrite Hpp. cbn [bind]. rewrite Hdp. cbn [bind].
  unfold validate_hop_expiry. cbn [s_inf s_hop]. rewrite Hexp. cbn [bind].
  assert (Hvi : validate_ingress_id ing (mkSt q h i pr false 0) = Ok (mkSt q h i pr false 0)).
  { unfold validate_ingress_id. cbn [s_inf s_hop s_p].
    destruct Hing as [Hf|Hid].
    - rewrite Hf. reflexivity.
    - destruct (from0 ing); cbn [negb andb]; [reflexivity|].
      rewrite Hid. destruct (i_consdir i); rewrite N.eqb_refl; reflexivity. }
  rewrite Hvi. cbn [bind].
  unfold validate_pkt_len. cbn [s_p]. rewrite Hlen, N.eqb_refl. cbn [bind].
  rewrite Htr. cbn [bind]. rewrite Hsd. cbn [bind]. rewrite Hsh. cbn [bind].
  assert (Hup : update_noncons_ingress_segid ing (mkSt q h i pr false 0) = Ok s1).
  { unfold update_noncons_ingress_segid. cbn [s_inf s_hop s_peer]. subst s1.
    destruct (negb (i_consdir i) && negb (from0 ing) && negb pr); reflexivity. }
  rewrite Hup. cbn [bind].
  assert (Hs1' : s_hop s1 = h /\ i_ts (s_inf s1) = i_ts i /\ i_consdir (s_inf s1) = i_consdir i).
  { subst s1. destruct (negb (i_consdir i) && negb (from0 ing) && negb pr); cbn; auto. }
  destruct Hs1' as (Hh & Hts & Hcd).
  unfold verify_current_mac, mac_of. rewrite Hh, Hts, Hmac. rewrite list_eqb_N_refl. cbn [bind].
  unfold handle_ingress_router_alert. rewrite Hh, Hcd.
  destruct (from0 ing); [reflexivity|].
  destruct (i_consdir i); [rewrite Hia | rewrite Hea]; reflexivity.
Qed.

(** the effective cross-over: the next hop field becomes current and is checked *)
Lemma xover_part_pass s h2 i2 :
  is_xover (s_p s) && negb (s_peer s) = true ->
  nthN (p_hops (s_p s)) (p_curr_hf (s_p s) + 1) = Some h2 ->
  nthN (p_infos (s_p s)) (inf_index_for_hf (s_p s) (p_curr_hf (s_p s) + 1)) = Some i2 ->
  expired now i2 h2 = false ->
  macq (i_segid i2) (i_ts i2) (h_exp h2) (h_in h2) (h_eg h2) = Some (h_mac h2) ->
  xover_part macq now s = Ok (mkSt (inc_path (s_p s)) h2 i2 (s_peer s) true (s_eg s)).
Proof.
  intros Hx Hh Hi Hexp Hmac.
  unfold xover_part. rewrite Hx.
  unfold do_xover. unfold inc_path at 1 2 3 4. cbn [p_hops p_infos p_curr_hf p_curr_inf with_meta].
  rewrite Hh, Hi. cbn [bind].
  unfold validate_hop_expiry. cbn [s_inf s_hop]. rewrite Hexp. cbn [bind].
  unfold verify_current_mac, mac_of. cbn [s_inf s_hop]. rewrite Hmac, list_eqb_N_refl. reflexivity.
Qed.

Lemma xover_part_skip s :
  is_xover (s_p s) && negb (s_peer s) = false -> xover_part macq now s = Ok s.
Proof. intros H. unfold xover_part. now rewrite H. Qed.

(** after the cross-over decision: egress interface, link-type check, alerts, BFD *)
Definition after_xover (s : st) : outcome :=
  set_egress s >>= validate_egress_id c ing >>= handle_egress_router_alert c >>= validate_egress_up c.

Lemma egress_part_split s :
  egress_part macq c now ing s = (xover_part macq now s >>= after_xover).
Proof.
  unfold egress_part, after_xover.
  destruct (xover_part macq now s); reflexivity.
Qed.

Lemma after_xover_pass s f :
  let e := egress_interface s in
  get_if c e = Some f ->
  validate_egress (from0 ing) (lt_of c (ing_ifid ing)) (Some f) (s_xover s) = EgOk ->
  h_ialert (s_hop s) = false -> h_ealert (s_hop s) = false ->
  if_up f = true ->
  after_xover s = Ok (mkSt (s_p s) (s_hop s) (s_inf s) (s_peer s) (s_xover s) e).
Proof.
  intros e Hg Hv Hia Hea Hup.
  unfold after_xover, set_egress. cbn [bind]. fold e.
  unfold validate_egress_id. cbn [s_eg s_xover]. rewrite Hg, Hv. cbn [bind].
  unfold handle_egress_router_alert. cbn [s_inf s_hop].
  rewrite Hia, Hea. destruct (i_consdir (s_inf s)); cbn [negb bind];
  unfold validate_egress_up, egress_if; cbn [s_eg]; rewrite Hg, Hup; reflexivity.
Qed.

End Pass.
