(** Link between the combinator model and the declarative specification:
    every chain of graph edges is a valid combination (soundness, for validated
    segments) and every valid combination is a chain of the graph (completeness,
    for segments as beaconing produces them). *)
From Coq Require Import List NArith Bool Arith Lia.
From Scion Require Import Lib.Check Model.Segment Model.CombSpec Model.Combinator.
From Scion Require Import Proofs.CombinatorGraph Proofs.CombinatorRender Proofs.CombinatorFilter
  Proofs.CombinatorPaths Proofs.CombinatorIfs Proofs.CombSpec.
Import ListNotations.
Import Segment Combinator.
Local Open Scope N_scope.

(** ---- the input segments ---- *)
Lemma in_insegs ups cores downs s :
  In s (insegs ups cores downs) <->
  (exists i x, nth_error ups i = Some x /\ s = mkIn Up i (fst x) (snd x)) \/
  (exists i x, nth_error cores i = Some x /\ s = mkIn CoreT i (fst x) (snd x)) \/
  (exists i x, nth_error downs i = Some x /\ s = mkIn Down i (fst x) (snd x)).
Proof.
  unfold insegs. rewrite !in_app_iff, !in_map_iff.
  assert (G : forall ty (l : list (N * segment)),
    (exists x : nat * (N * segment), mkIn ty (fst x) (fst (snd x)) (snd (snd x)) = s /\ In x (enum l)) <->
    (exists i x, nth_error l i = Some x /\ s = mkIn ty i (fst x) (snd x))).
  { intros ty l. split.
    - intros [[i x] [<- H]]. apply in_enum in H. exists i, x. auto.
    - intros [i [x [H ->]]]. exists (i, x). split; [reflexivity | now apply in_enum]. }
  now rewrite !G.
Qed.

Lemma insegs_seg_in ups cores downs s :
  In s (insegs ups cores downs) ->
  match is_ty s with
  | Up => In (is_seg s) (segs_of ups)
  | CoreT => In (is_seg s) (segs_of cores)
  | Down => In (is_seg s) (segs_of downs)
  end.
Proof.
  intros H. apply in_insegs in H as [[i [x [H ->]]]|[[i [x [H ->]]]|[i [x [H ->]]]]]; cbn;
    unfold segs_of; apply in_map; eapply nth_error_In; exact H.
Qed.

Lemma segs_of_inseg (l : list (N * segment)) u :
  In u (segs_of l) -> exists i x, nth_error l i = Some x /\ snd x = u.
Proof.
  unfold segs_of. intros H. apply in_map_iff in H as [x [<- H]].
  apply In_nth_error in H as [i Hi]. eauto.
Qed.

Lemma insegs_unique ups cores downs s s' :
  In s (insegs ups cores downs) -> In s' (insegs ups cores downs) ->
  inseg_same s s' = true -> s = s'.
Proof.
  intros H H' E. unfold inseg_same in E. apply andb_true_iff in E as [Et Ep].
  apply segtype_eqb_eq in Et. apply Nat.eqb_eq in Ep.
  apply in_insegs in H as [[i [x [H ->]]]|[[i [x [H ->]]]|[i [x [H ->]]]]];
  apply in_insegs in H' as [[j [y [H' ->]]]|[[j [y [H' ->]]]|[j [y [H' ->]]]]];
  cbn in Et, Ep; try discriminate; subst j; rewrite H in H'; inversion H'; reflexivity.
Qed.

(** ---- closed forms of the interface list of an edge ---- *)
Lemma edge_cut_eq e a : nth_error (entries e) (e_sc e) = Some a -> edge_cut e = a.
Proof. intros H. unfold edge_cut. now apply nth_error_nth. Qed.

Lemma trav_ifs_reg e a :
  nth_error (entries e) (e_sc e) = Some a -> e_peer e = O ->
  (e_sc e = O -> h_in (ae_hop a) = 0) ->
  trav_ifs e = walk_bwd (e_sc e) (entries e) ++ nz (ae_ia a) (h_eg (ae_hop a)).
Proof.
  intros Ha Hp H0. unfold trav_ifs, walk_bwd, edge_rest, cut_ifs, cut_hop.
  rewrite (edge_cut_eq _ _ Ha), Hp. cbn [Nat.eqb negb]. rewrite orb_false_r. f_equal.
  destruct (Nat.eqb_spec (e_sc e) 0) as [E|]; [|now rewrite app_nil_r].
  rewrite (H0 E). cbn. now rewrite app_nil_r.
Qed.

Lemma trav_ifs_core e a t :
  entries e = a :: t -> e_sc e = O -> e_peer e = O ->
  trav_ifs e = flat_map entry_bwd (rev (entries e)).
Proof.
  intros He Hs Hp. unfold trav_ifs, edge_rest, cut_ifs, cut_hop, edge_cut.
  rewrite Hs, Hp, He. cbn [skipn nth Nat.eqb orb rev]. rewrite flat_map_app. cbn [flat_map].
  now rewrite app_nil_r.
Qed.

Lemma trav_ifs_peer e a k p :
  nth_error (entries e) (e_sc e) = Some a -> e_peer e = S k -> nth_error (ae_peers a) k = Some p ->
  trav_ifs e = walk_bwd (e_sc e) (entries e) ++ hop_bwd (ae_ia a) (pe_hop p).
Proof.
  intros Ha Hp Hk. unfold trav_ifs, walk_bwd, edge_rest, cut_ifs, cut_hop.
  rewrite (edge_cut_eq _ _ Ha), Hp, Hk. cbn [Nat.eqb negb]. now rewrite orb_true_r.
Qed.

Lemma rev_walk_bwd i es : rev (walk_bwd i es) = walk_fwd i es.
Proof.
  unfold walk_bwd, walk_fwd. rewrite rev_flat_map_rev. apply flat_map_eq. apply rev_entry_bwd.
Qed.

Lemma rev_hop_bwd ia h : rev (hop_bwd ia h) = hop_fwd ia h.
Proof. unfold hop_bwd, hop_fwd. now rewrite rev_app_distr, !rev_nz. Qed.

(** ---- vertices ---- *)
Lemma v_ia_inj a b : v_ia a = v_ia b -> a = b.
Proof. unfold v_ia. intros H. now inversion H. Qed.

Lemma v_rev_ia a : v_rev (v_ia a) = v_ia a.
Proof. reflexivity. Qed.

Lemma v_rev_peer a i b j : v_rev (v_peer a i b j) = v_peer b j a i.
Proof. reflexivity. Qed.

Definition vlink (l : plink) : vertex :=
  match l with (a, i, b, j) => v_peer a i b j end.

Lemma vlink_inj l l' : vlink l = vlink l' -> l = l'.
Proof.
  destruct l as [[[a i] b] j], l' as [[[a' i'] b'] j']. unfold vlink, v_peer. intros H. now inversion H.
Qed.

(** ---- every graph edge is a piece or half of the specification ---- *)
Inductive edge_class (ups cores downs : list segment) (e : edge) : Prop :=
| EC_up u p : ety e = Up -> In u ups -> up_piece u p ->
    e_src e = v_ia (pc_from p) -> e_dst e = v_ia (pc_to p) -> edge_ifs e = pc_ifs p ->
    edge_class ups cores downs e
| EC_core c p : ety e = CoreT -> In c cores -> core_piece c p ->
    e_src e = v_ia (pc_from p) -> e_dst e = v_ia (pc_to p) -> edge_ifs e = pc_ifs p ->
    edge_class ups cores downs e
| EC_down d p : ety e = Down -> In d downs -> down_piece d p ->
    e_src e = v_ia (pc_from p) -> e_dst e = v_ia (pc_to p) -> edge_ifs e = pc_ifs p ->
    edge_class ups cores downs e
| EC_uph u x : ety e = Up -> In u ups -> up_half u x ->
    e_src e = v_ia (hf_end x) -> e_dst e = vlink (hf_link x) -> edge_ifs e = hf_ifs x ->
    fst (fst (fst (hf_link x))) <> 0 ->
    edge_class ups cores downs e
| EC_downh d y : ety e = Down -> In d downs -> down_half d y ->
    e_src e = vlink (hf_link y) -> e_dst e = v_ia (hf_end y) -> edge_ifs e = hf_ifs y ->
    snd (fst (hf_link y)) <> 0 ->
    edge_class ups cores downs e.

Lemma valid_segment_parts s :
  valid_segment s = true ->
  validate s = true /\ forall a, In a (sg_entries s) -> ae_ia a <> 0.
Proof.
  unfold valid_segment. intros H. apply andb_true_iff in H as [H1 H2]. split; [exact H1|].
  intros a Ha. rewrite forallb_forall in H2. specialize (H2 a Ha).
  apply negb_true_iff in H2. now apply N.eqb_neq.
Qed.

Lemma valid_input_seg ups cores downs s :
  valid_input (segs_of ups) (segs_of cores) (segs_of downs) = true ->
  In s (insegs ups cores downs) -> valid_segment (is_seg s) = true.
Proof.
  unfold valid_input. intros H Hs. apply andb_true_iff in H as [H Hd]. apply andb_true_iff in H as [Hu Hc].
  rewrite forallb_forall in Hu, Hc, Hd. apply insegs_seg_in in Hs.
  destruct (is_ty s); auto.
Qed.

Lemma validate_first_zero s a t : validate s = true -> sg_entries s = a :: t -> h_in (ae_hop a) = 0.
Proof.
  unfold validate. intros H E. rewrite E in H. apply andb_true_iff in H as [H _].
  apply andb_true_iff in H as [H _]. now apply N.eqb_eq.
Qed.

Lemma nth0_first {A} (l : list A) a : nth_error l 0 = Some a -> exists t, l = a :: t.
Proof. destruct l; cbn; intros H; [discriminate|]. inversion H. eauto. Qed.

Lemma classify ups cores downs e :
  valid_input (segs_of ups) (segs_of cores) (segs_of downs) = true ->
  from_segs (insegs ups cores downs) e ->
  edge_class (segs_of ups) (segs_of cores) (segs_of downs) e.
Proof.
  intros V [s [Hs Ht]]. pose proof (valid_input_seg _ _ _ _ V Hs) as Vs.
  apply valid_segment_parts in Vs as [Vv Vn]. pose proof (insegs_seg_in _ _ _ _ Hs) as Hin.
  inversion Ht as [T | idx a T Ha Hn | idx a k p T Ha Hp]; subst e.
  - (* core *)
    rewrite T in Hin.
    assert (Hne : (sg_entries (is_seg s)) <> []).
    { unfold validate in Vv.  destruct (sg_entries (is_seg s)); [discriminate | discriminate]. }
    eapply EC_core with (c := (is_seg s)) (p := mkPiece (last_ia (is_seg s)) (first_ia (is_seg s)) (flat_map entry_bwd (rev (sg_entries (is_seg s))))).
    + exact T.
    + exact Hin.
    + now constructor.
    + reflexivity.
    + reflexivity.
    + unfold edge_ifs, is_down. cbn [e_seg]. rewrite T. cbn [segtype_eqb pc_ifs].
      destruct (sg_entries (is_seg s)) as [|a t] eqn:Ees; [contradiction|].
      erewrite trav_ifs_core; [ | | reflexivity | reflexivity].
      * unfold entries. cbn [e_seg]. now rewrite Ees.
      * unfold entries. cbn [e_seg]. exact Ees.
  - (* regular tuple *)
    assert (Hl : (S idx < length (sg_entries (is_seg s)))%nat).
    { assert (idx < length (sg_entries (is_seg s)))%nat by (apply nth_error_Some; congruence). lia. }
    assert (H0 : idx = O -> h_in (ae_hop a) = 0).
    { intros ->. apply nth0_first in Ha as [t Et]. eapply validate_first_zero; eauto. }
    destruct (is_ty s) eqn:Ty; [| contradiction |].
    + eapply EC_up with (u := (is_seg s)) (p := mkPiece (last_ia (is_seg s)) (ae_ia a) (walk_bwd idx (sg_entries (is_seg s)) ++ nz (ae_ia a) (h_eg (ae_hop a)))).
      * unfold ety. now rewrite mk_tuple_seg.
      * exact Hin.
      * now constructor.
      * unfold mk_tuple. now rewrite Ty.
      * unfold mk_tuple. now rewrite Ty.
      * unfold edge_ifs, is_down. rewrite mk_tuple_seg, Ty. cbn [segtype_eqb].
        rewrite (trav_ifs_reg _ a); unfold entries; rewrite ?mk_tuple_seg, ?mk_tuple_sc, ?mk_tuple_peer; auto.
    + eapply EC_down with (d := (is_seg s)) (p := mkPiece (ae_ia a) (last_ia (is_seg s)) (nz (ae_ia a) (h_eg (ae_hop a)) ++ walk_fwd idx (sg_entries (is_seg s)))).
      * unfold ety. now rewrite mk_tuple_seg.
      * exact Hin.
      * now constructor.
      * unfold mk_tuple. now rewrite Ty.
      * unfold mk_tuple. now rewrite Ty.
      * unfold edge_ifs, is_down. rewrite mk_tuple_seg, Ty. cbn [segtype_eqb].
        rewrite (trav_ifs_reg _ a); unfold entries; rewrite ?mk_tuple_seg, ?mk_tuple_sc, ?mk_tuple_peer; auto.
        rewrite rev_app_distr, rev_nz, rev_walk_bwd. reflexivity.
  - (* peer tuple *)
    assert (Hia : ae_ia a <> 0) by (apply Vn; eapply nth_error_In; exact Ha).
    destruct (is_ty s) eqn:Ty; [| contradiction |].
    + eapply EC_uph with (u := (is_seg s))
        (x := mkHalf (last_ia (is_seg s)) (ae_ia a, h_in (pe_hop p), pe_ia p, pe_if p)
                     (walk_bwd idx (sg_entries (is_seg s)) ++ hop_bwd (ae_ia a) (pe_hop p))).
      * unfold ety. now rewrite mk_tuple_seg.
      * exact Hin.
      * econstructor; eauto.
      * unfold mk_tuple. now rewrite Ty.
      * unfold mk_tuple. now rewrite Ty.
      * unfold edge_ifs, is_down. rewrite mk_tuple_seg, Ty. cbn [segtype_eqb].
        rewrite (trav_ifs_peer _ a k p); unfold entries; rewrite ?mk_tuple_seg, ?mk_tuple_sc, ?mk_tuple_peer; auto.
      * exact Hia.
    + eapply EC_downh with (d := (is_seg s))
        (y := mkHalf (last_ia (is_seg s)) (pe_ia p, pe_if p, ae_ia a, h_in (pe_hop p))
                     (hop_fwd (ae_ia a) (pe_hop p) ++ walk_fwd idx (sg_entries (is_seg s)))).
      * unfold ety. now rewrite mk_tuple_seg.
      * exact Hin.
      * econstructor; eauto.
      * unfold mk_tuple. now rewrite Ty.
      * unfold mk_tuple. now rewrite Ty.
      * unfold edge_ifs, is_down. rewrite mk_tuple_seg, Ty. cbn [segtype_eqb].
        rewrite (trav_ifs_peer _ a k p); unfold entries; rewrite ?mk_tuple_seg, ?mk_tuple_sc, ?mk_tuple_peer; auto.
        rewrite rev_app_distr, rev_hop_bwd, rev_walk_bwd. reflexivity.
      * exact Hia.
Qed.
