(** End-to-end forwarding, part 2: what ONE router does with a packet that is in
    view of a well-formed provenance path — on arrival from the source host or
    from the previous AS ([step_arrive], [step_deliver]) and on arrival over a
    sibling link ([step_mid]). *)
From Coq Require Import List NArith Bool Arith Lia ZifyBool ZifyN ZifyNat.
From Scion Require Import Lib.Check Model.Router Model.Network Model.Prov.
From Scion Require Import Proofs.ProvStruct Proofs.ProvRender Proofs.ForwardView Proofs.ProvFacts
  Proofs.RouterPass.
Import ListNotations.
Import Router Network Prov.

(** what a router leaves untouched: the hop fields, and the info fields from index [jl] on *)
Definition frame (jl : nat) (q q' : pkt) : Prop :=
  p_hops q' = p_hops q /\
  forall j, (jl <= j)%nat -> nth_error (p_infos q') j = nth_error (p_infos q) j.

Lemma frame_refl jl q : frame jl q q.
Proof. split; auto. Qed.

Lemma frame_trans jl q1 q2 q3 : frame jl q1 q2 -> frame jl q2 q3 -> frame jl q1 q3.
Proof.
  intros [A1 B1] [A2 B2]. split; [congruence|]. intros j Hj. rewrite B2, B1 by assumption. reflexivity.
Qed.

Lemma frame_store jl q j0 x : p_curr_inf q = N.of_nat j0 -> (j0 < jl)%nat ->
  frame jl q (with_infos q (set_nthN (p_infos q) (p_curr_inf q) x)).
Proof.
  intros E Hj. split; [reflexivity|]. intros j Hjl. cbn [with_infos p_infos].
  unfold set_nthN. rewrite E, Nat2N.id, nth_error_set_nth.
  destruct (Nat.eqb j j0) eqn:X; [apply Nat.eqb_eq in X; lia|reflexivity].
Qed.

Lemma frame_inc jl q : frame jl q (inc_path q).
Proof. split; reflexivity. Qed.

Section Step.
Variable mac : N -> N -> N -> N -> N -> N -> list N.
Variable t : topology.
Variable now : N.
Variable p : prov.
Variable pp : pparams.
Hypothesis HG : good mac t p.
Hypothesis Hep : endpoints_ok t p pp = true.
Hypothesis Hexp : all_unexpired now p = true.
Variables lim jlim : nat.

Notation n := (nhops p).
Notation js := (seg_idx (lens p)).
Notation nsegs := (length (pv_segs p)).
Notation macq := (macq_of mac).
Notation Hs := (Hshape mac t p HG).
Notation HT := (Htot p Hs).
Notation HP := (Hpos p Hs).
Notation asof := (as_of t p).
Notation nifof := (nif_of t p).
Notation View := (view p pp lim jlim).

(** the hop whose egress interface the AS of hop [k] uses: the next hop at an
    effective segment change *)
Definition eff (k : nat) : nat := if crosses p k || Nat.eqb (S k) n then k else S k.
Definition in_rtr (k : nat) : N := ni_owner (nifof k (tr_in p k)).
Definition eg_rtr (k : nat) : N := ni_owner (nifof k (tr_eg p k)).

(** * Field projections of the rendered hop and info fields *)
Lemma rinfo_consdir k ki mid : i_consdir (rinfo p ki mid (js k)) = cons p k.
Proof. reflexivity. Qed.
Lemma rinfo_ts k ki mid : i_ts (rinfo p ki mid (js k)) = sg_ts (hdr p k).
Proof. reflexivity. Qed.
Lemma rinfo_segid j ki mid : i_segid (rinfo p ki mid j) = sid p j ki mid.
Proof. reflexivity. Qed.

Lemma rinfo_eq j ki mid ki' mid' : sid p j ki mid = sid p j ki' mid' -> rinfo p ki mid j = rinfo p ki' mid' j.
Proof. intros H. unfold rinfo. cbv zeta. now rewrite H. Qed.

Lemma unexpired k ki mid : (k < n)%nat -> expired now (rinfo p ki mid (js k)) (rhop (hop p k)) = false.
Proof.
  intros Hk. unfold all_unexpired in Hexp. pose proof (forallb_range _ _ k Hexp Hk) as X.
  unfold hop_unexpired in X. apply negb_true_iff in X.
  unfold expired. rewrite rinfo_ts. cbn [rhop h_exp]. exact X.
Qed.

Lemma mac_ok k ki mid : (k < n)%nat -> sid p (js k) ki mid = beta p k ->
  macq (a_key (asof k)) (i_segid (rinfo p ki mid (js k))) (i_ts (rinfo p ki mid (js k)))
       (h_exp (rhop (hop p k))) (h_in (rhop (hop p k))) (h_eg (rhop (hop p k))) =
  Some (h_mac (rhop (hop p k))).
Proof.
  intros Hk Hb. rewrite rinfo_segid, Hb, rinfo_ts. cbn [rhop h_exp h_in h_eg h_mac]. unfold macq_of.
  now rewrite (mac_fact _ _ _ HG k Hk).
Qed.

(** * The ingress half on arrival from the host (k = 0) or from the previous AS *)
Definition arrives (k : nat) (ing : ingress) : Prop :=
  (k = 0%nat /\ ing = InInt) \/ ((1 <= k)%nat /\ crosses p (k - 1) = true /\ ing = InExt (tr_in p k)).

Lemma arrives_from0 k ing : (k < n)%nat -> arrives k ing -> from0 ing = Nat.eqb k 0.
Proof.
  intros Hk [[-> ->]|(H1 & C & ->)]; [reflexivity|].
  destruct k as [|k]; [lia|]. replace (S k - 1)%nat with k in C by lia.
  destruct (link_fact _ _ _ HG k Hk C) as (_ & _ & _ & _ & _ & Nz & _).
  unfold from0. cbn [ing_ifid Nat.eqb]. now apply N.eqb_neq.
Qed.

Lemma ingress_arrive q k ing r :
  View q k k false -> (k < n)%nat -> (k < lim)%nat -> (js k < jlim)%nat -> arrives k ing ->
  exists q1,
    ingress_part (macq (a_key (asof k))) (cfg_of (asof k) r) now ing q =
    Ok (mkSt q1 (rhop (hop p k)) (rinfo p k true (js k)) (peerhop p k) false 0) /\
    View q1 k k true /\ frame jlim q q1.
Proof.
  intros V Hk Hl Hj Ha.
  pose proof (arrives_from0 k ing Hk Ha) as F0.
  destruct (as_of_ok _ _ _ HG k Hk) as [Ak Ik].
  set (h := rhop (hop p k)). set (i0 := rinfo p k false (js k)).
  set (pr := peerhop p k). set (c := cfg_of (asof k) r).
  set (s0 := mkSt q h i0 pr false 0).
  set (s1 := if negb (i_consdir i0) && negb (from0 ing) && negb pr then store_inf s0 (upd_segid i0 h) else s0).
  assert (Cond : negb (i_consdir i0) && negb (from0 ing) && negb pr = upd_in p k).
  { unfold upd_in, i0, pr. now rewrite rinfo_consdir, F0. }
  assert (Hc : k = 0%nat \/ crosses p (k - 1) = true).
  { destruct Ha as [[-> _]|(_ & C & _)]; auto. }
  pose proof (arrive_beta _ _ _ HG k Hk Hc) as AB.
  (* the state after the SegID update *)
  assert (S1 : exists q1, s1 = mkSt q1 h (rinfo p k true (js k)) pr false 0 /\ View q1 k k true /\
                          frame jlim q q1).
  { unfold s1. rewrite Cond. rewrite <- (sid_cur_mid p Hs k Hk) in AB.
    destruct (upd_in p k) eqn:U.
    - eexists. split; [|split].
      + unfold store_inf, s0. cbn [s_p s_hop s_inf s_peer s_xover s_eg]. f_equal.
        unfold upd_segid, i0, h. unfold rinfo at 1 2 3 4 5. cbn [i_peer i_consdir i_segid i_ts i_rsv rhop h_mac].
        fold (sigma p k). rewrite AB. reflexivity.
      + apply (view_store p pp Hs lim jlim q k k false k true); try assumption.
        * unfold ser_info, upd_segid, i0, h. unfold rinfo. cbn [i_peer i_consdir i_segid i_ts i_rsv rhop h_mac].
          fold (sigma p k). now rewrite AB.
        * intros j _ Hjs Hne. apply rinfo_eq. now apply (sid_other_mid _ _ _ HG).
      + apply (frame_store jlim q (js k)); [apply (v_ci _ _ _ _ _ _ _ _ V)|assumption].
    - exists q. split; [|split].
      + unfold s0. f_equal. apply rinfo_eq. exact AB.
      + apply (view_reinfo p pp lim jlim q k k false k true V). intros j _ Hjs.
        apply rinfo_eq. destruct (Nat.eq_dec j (js k)) as [->|Ne]; [exact AB|].
        now apply (sid_other_mid _ _ _ HG).
      + apply frame_refl. }
  destruct S1 as (q1 & Es1 & V1 & Fr1). exists q1. split; [|split; [exact V1|exact Fr1]]. rewrite <- Es1.
  apply (ingress_part_pass _ c now ing q h i0 pr).
  - apply (parse_path_view p pp Hs lim jlim q k false V Hk Hl Hj).
  - apply (determine_peer_view p pp Hs lim jlim q k k false false h V Hk).
  - now apply unexpired.
  - destruct Ha as [[-> ->]|(H1 & C & ->)]; [now left|right].
    cbn [ing_ifid]. unfold i0, h. rewrite rinfo_consdir. unfold tr_in. cbn [rhop h_in h_eg]. reflexivity.
  - now rewrite (v_pay_len _ _ _ _ _ _ _ _ V), (v_pay_actual _ _ _ _ _ _ _ _ V).
  - unfold validate_transit_underlay_src. cbn [s_p]. unfold is_first_hop.
    rewrite (v_ch _ _ _ _ _ _ _ _ V). rewrite F0.
    destruct k as [|k']; [reflexivity|]. cbn [Nat.eqb negb]. now rewrite orb_true_r.
  - unfold validate_src_dst_ia. cbn [s_p]. unfold is_first_hop, is_last_hop.
    rewrite (v_ch _ _ _ _ _ _ _ _ V), (v_src_ia _ _ _ _ _ _ _ _ V), (v_dst_ia _ _ _ _ _ _ _ _ V).
    rewrite (num_hops_meta _ _ (view_meta p pp _ _ _ _ _ _ false V)), (num_hops_render p pp Hs).
    unfold c. cbn [cfg_of c_ia]. rewrite Ik. rewrite F0.
    unfold endpoints_ok in Hep. apply andb_true_iff in Hep as [E _]. apply andb_true_iff in E as [E _].
    apply andb_true_iff in E as [Es Ed]. apply N.eqb_eq in Es, Ed. rewrite Es, Ed.
    pose proof (n_ge2 _ _ _ HG) as N2.
    destruct k as [|k]; cbn [Nat.eqb].
    + rewrite !N.eqb_refl. cbn [negb andb].
      replace (ia p (n - 1) =? ia p 0)%N with false; [reflexivity|].
      symmetry. apply N.eqb_neq. intros X. apply (ia_not_dst _ _ _ HG 0); [lia|now symmetry].
    + replace (ia p 0 =? ia p (S k))%N with false
        by (symmetry; apply N.eqb_neq; intros X; apply (ia_not_src _ _ _ HG (S k)); [lia|lia|now symmetry]).
      destruct (Nat.eq_dec (S (S k)) n) as [E|E].
      * replace (n - 1)%nat with (S k) by lia. rewrite N.eqb_refl.
        replace (N.of_nat (S k) + 1 =? N.of_nat n)%N with true by lia. reflexivity.
      * replace (ia p (n - 1) =? ia p (S k))%N with false
          by (symmetry; apply N.eqb_neq; intros X; apply (ia_not_dst _ _ _ HG (S k)); [lia|now symmetry]).
        replace (N.of_nat (S k) + 1 =? N.of_nat n)%N with false by lia. reflexivity.
  - unfold validate_src_host. cbn [s_p]. rewrite (v_src_ia _ _ _ _ _ _ _ _ V).
    unfold c. cbn [cfg_of c_ia]. rewrite Ik.
    unfold endpoints_ok in Hep. apply andb_true_iff in Hep as [E _]. apply andb_true_iff in E as [E Sh].
    apply andb_true_iff in E as [Es Ed]. apply N.eqb_eq in Es. rewrite Es.
    destruct k as [|k].
    + rewrite N.eqb_refl. cbn [negb].
      rewrite (v_src_type _ _ _ _ _ _ _ _ V), (v_src_raw _ _ _ _ _ _ _ _ V).
      unfold src_host_ok in Sh. destruct (parse_host (pp_src_type pp) (pp_src_raw pp)); try discriminate; try reflexivity.
      apply negb_true_iff in Sh. now rewrite Sh.
    + replace (ia p 0 =? ia p (S k))%N with false
        by (symmetry; apply N.eqb_neq; intros X; apply (ia_not_src _ _ _ HG (S k)); [lia|lia|now symmetry]).
      reflexivity.
  - reflexivity.
  - rewrite Es1. cbn [s_inf]. unfold i0, h. rewrite (rinfo_ts k k false).
    rewrite <- (rinfo_ts k k true). apply mac_ok; [assumption|]. now apply (sid_cur_mid p Hs).
  - reflexivity.
  - reflexivity.
Qed.

(** * The egress half *)
Lemma peer_exit k : (S k < n)%nat -> crosses p k = true -> is_last p k = true -> peerhop p k = true.
Proof.
  intros Hk C L. destruct (step_next p HP HT k Hk L) as (_ & O & _).
  assert (F : is_first p (S k) = true) by (unfold is_first; now rewrite O).
  now destruct (arrive_first _ _ _ HG k Hk C F) as (_ & _ & _ & _ & Ph & _).
Qed.

Lemma egress_tail q1 k ing r xo :
  View q1 k k true -> (S k < n)%nat -> crosses p k = true ->
  validate_egress (from0 ing) (lt_of (cfg_of (asof k) r) (ing_ifid ing))
                  (Some (if_of r (nifof k (tr_eg p k)))) xo = EgOk ->
  let c := cfg_of (asof k) r in
  let s := mkSt q1 (rhop (hop p k)) (rinfo p k true (js k)) (peerhop p k) xo 0 in
  exists s' q',
    after_xover c ing s = Ok s' /\ finish c s' = Forward (tr_eg p k) q' None /\
    (if (eg_rtr k =? r)%N then View q' (S k) (S k) false else View q' k k true) /\
    ((js k < jlim)%nat -> frame jlim q1 q').
Proof.
  intros V Hk C Hv c s. assert (Hk' : (k < n)%nat) by lia.
  destruct (link_fact _ _ _ HG k Hk C) as (Ff & _ & _ & _ & Ez & _ & Up & _).
  set (f := nifof k (tr_eg p k)) in *.
  assert (Eg : egress_interface s = tr_eg p k).
  { unfold egress_interface, s. cbn [s_inf s_hop]. rewrite rinfo_consdir. unfold tr_eg. reflexivity. }
  assert (Gi : get_if c (tr_eg p k) = Some (if_of r f)) by (apply get_if_cfg; assumption).
  assert (Upf : if_up (if_of r f) = true).
  { unfold if_of. destruct (ni_owner f =? r)%N; [exact Up|reflexivity]. }
  pose proof (after_xover_pass c ing s (if_of r f)) as AX. cbv zeta in AX. rewrite Eg in AX.
  specialize (AX Gi Hv eq_refl eq_refl Upf).
  eexists.
  unfold finish, egress_if. unfold s in AX at 2 3 4 5 6. cbn [s_p s_hop s_inf s_peer s_xover] in AX.
  fold (eg_rtr k).
  assert (Sc : scope_eqb (if_scope (if_of r f)) External = (eg_rtr k =? r)%N).
  { unfold if_of, eg_rtr. fold f. destruct (ni_owner f =? r)%N; reflexivity. }
  destruct (eg_rtr k =? r)%N eqn:Ow.
  - (* this router owns the egress interface: processEgress *)
    pose proof (depart_beta _ _ _ HG k Hk C) as DB.
    destruct (upd_out p k) eqn:U;
      (eexists; split; [exact AX|]; cbn [s_eg]; rewrite Gi, Sc;
       unfold process_egress; cbn [s_inf s_peer s_hop s_p s_eg]; rewrite rinfo_consdir;
       fold (upd_out p k); rewrite U).
    + unfold store_inf. cbn [s_p s_hop s_inf s_peer s_xover s_eg].
      set (q2 := with_infos q1 _).
      assert (V2 : View q2 k (S k) false).
      { unfold q2. apply (view_store p pp Hs lim jlim q1 k k true (S k) false); try assumption.
        - unfold ser_info, upd_segid. unfold rinfo. cbn [i_peer i_consdir i_segid i_ts i_rsv rhop h_mac].
          fold (sigma p k). rewrite (sid_cur_mid p Hs k Hk'). now rewrite DB.
        - intros j _ Hjs Hne. apply rinfo_eq. now apply (sid_depart_other _ _ _ HG). }
      rewrite (num_hops_meta _ _ (view_meta p pp _ _ _ _ _ _ false V2)), (num_hops_render p pp Hs).
      rewrite (v_ch _ _ _ _ _ _ _ _ V2).
      replace (N.of_nat n <=? N.of_nat k + 1)%N with false by lia.
      split; [reflexivity|]. split; [now apply (view_inc p pp Hs)|].
      intros Hj. apply (frame_trans jlim q1 q2); [|apply frame_inc].
      unfold q2. apply (frame_store jlim q1 (js k)); [apply (v_ci _ _ _ _ _ _ _ _ V)|assumption].
    + assert (V2 : View q1 k (S k) false).
      { apply (view_reinfo p pp lim jlim q1 k k true (S k) false V). intros j _ Hjs. apply rinfo_eq.
        destruct (Nat.eq_dec j (js k)) as [->|Ne].
        - now rewrite (sid_cur_mid p Hs k Hk').
        - now apply (sid_depart_other _ _ _ HG). }
      cbn [s_p s_eg].
      rewrite (num_hops_meta _ _ (view_meta p pp _ _ _ _ _ _ false V2)), (num_hops_render p pp Hs).
      rewrite (v_ch _ _ _ _ _ _ _ _ V2).
      replace (N.of_nat n <=? N.of_nat k + 1)%N with false by lia.
      split; [reflexivity|]. split; [now apply (view_inc p pp Hs)|]. intros _. apply frame_inc.
  - (* a sibling router owns it *)
    eexists. split; [exact AX|]. cbn [s_eg s_p]. rewrite Gi, Sc. split; [reflexivity|].
    split; [exact V|]. intros _. apply frame_refl.
Qed.

(** * Position facts used by the steps *)
Lemma cross0 : crosses p 0 = true.
Proof.
  pose proof (n_ge2 _ _ _ HG) as N2.
  destruct (crosses p 0) eqn:C; [reflexivity|exfalso].
  unfold crosses in C. apply orb_false_iff in C as [L P]. apply negb_false_iff in L.
  destruct (first_0 p HP HT ltac:(lia)) as [F J].
  unfold is_first in F. apply Nat.eqb_eq in F. unfold is_last in L. rewrite F in L. apply Nat.eqb_eq in L.
  pose proof (single_peer p Hs (js 0) (js_lt p Hs 0 ltac:(lia))) as SP. rewrite <- hdr_nth in SP.
  rewrite SP in P; [discriminate|now symmetry].
Qed.

Lemma after_junction k : (S k < n)%nat -> crosses p k = false ->
  crosses p (S k) = true /\ (S (S k) < n)%nat /\ peerhop p (S k) = false /\ peerhop p k = false /\
  is_last p k = true /\ js (S k) = S (js k) /\ (1 <= k)%nat.
Proof.
  intros Hk C. assert (Hk' : (k < n)%nat) by lia.
  assert (K1 : (1 <= k)%nat).
  { destruct k; [|lia]. rewrite cross0 in C. discriminate. }
  unfold crosses in C. apply orb_false_iff in C as [L P]. apply negb_false_iff in L.
  destruct (step_next p HP HT k Hk L) as (J & O & _).
  pose proof (nopeer_all p Hs (js k) (js (S k)) (js_lt p Hs k Hk') (js_lt p Hs (S k) Hk) P) as P1.
  rewrite <- hdr_nth in P1.
  destruct (shape_parts p Hs) as (_ & _ & _ & Fa). rewrite Forall_forall in Fa.
  destruct (Fa (hdr p (S k))) as [_ [X|X]].
  { unfold hdr. apply nth_In. apply (js_lt p Hs). assumption. }
  { congruence. }
  assert (L1 : is_last p (S k) = false).
  { unfold is_last. rewrite O. apply Nat.eqb_neq. lia. }
  destruct (step_same p HT (S k) Hk L1) as (_ & _ & N3).
  repeat split; try assumption.
  - unfold crosses. now rewrite L1.
  - now apply (nopeer_hop _ _ _ HG k).
  - now apply (nopeer_hop _ _ _ HG k).
Qed.

Lemma veg_int ilt r f : ni_owner f = r -> validate_egress true ilt (Some (if_of r f)) false = EgOk.
Proof. intros <-. unfold validate_egress, if_of. now rewrite N.eqb_refl. Qed.

Lemma veg_ext ilt r f (xo : bool) :
  (if xo then xover_pair ilt (ni_lt f) else intra_pair ilt (ni_lt f)) = true ->
  validate_egress false ilt (Some (if_of r f)) xo = EgOk.
Proof.
  intros H. unfold validate_egress. cbn [andb].
  replace (if_lt (if_of r f)) with (ni_lt f) by (unfold if_of; destruct (ni_owner f =? r)%N; reflexivity).
  destruct xo; cbn [negb]; now rewrite H.
Qed.

(** the link type of the interface a packet arrived on *)
Lemma ingress_type k r : (1 <= k)%nat -> (k < n)%nat -> crosses p (k - 1) = true ->
  lt_of (cfg_of (asof k) r) (tr_in p k) = mirror (eg_type p (k - 1)) /\ tr_in p k <> 0%N /\
  find_nif (a_ifs (asof k)) (tr_in p k) = Some (nifof k (tr_in p k)).
Proof.
  intros H1 Hk C. destruct k as [|k]; [lia|]. replace (S k - 1)%nat with k in * by lia.
  destruct (link_fact _ _ _ HG k Hk C) as (_ & Fg & _ & Tg & _ & Nz & _).
  repeat split; try assumption. rewrite (lt_of_cfg _ _ _ _ Nz Fg). exact Tg.
Qed.

(** * A router receives the packet from the host or from the previous AS and sends it on *)
Lemma step_arrive q k ing r :
  View q k k false -> (S k < n)%nat -> (eff k < lim)%nat -> (js (eff k) < jlim)%nat -> arrives k ing ->
  (k = 0%nat -> r = eg_rtr (eff k)) ->
  exists q',
    process_scion (macq (a_key (asof k))) (cfg_of (asof k) r) now ing q = Forward (tr_eg p (eff k)) q' None /\
    (if (eg_rtr (eff k) =? r)%N then View q' (S (eff k)) (S (eff k)) false else View q' (eff k) (eff k) true) /\
    asof (eff k) = asof k /\ (S (eff k) < n)%nat /\ crosses p (eff k) = true /\ frame jlim q q'.
Proof.
  intros V Hk Hl Hj Ha H0. assert (Hk' : (k < n)%nat) by lia.
  pose proof (arrives_from0 k ing Hk' Ha) as F0.
  destruct (as_of_ok _ _ _ HG k Hk') as [Ak Ik].
  assert (Hll : (k < lim)%nat /\ (js k < jlim)%nat).
  { unfold eff in Hl, Hj. destruct (crosses p k) eqn:C; cbn [orb] in *; [auto|].
    replace (Nat.eqb (S k) n) with false in * by (symmetry; apply Nat.eqb_neq; lia).
    destruct (after_junction k Hk C) as (_ & _ & _ & _ & _ & J & _). lia. }
  destruct Hll as [Hlk Hjk].
  destruct (ingress_arrive q k ing r V Hk' Hlk Hjk Ha) as (q1 & Ein & V1 & Fr1).
  unfold process_scion. rewrite Ein.
  rewrite (v_dst_ia _ _ _ _ _ _ _ _ V). cbn [cfg_of c_ia]. rewrite Ik.
  pose proof Hep as Hep'. unfold endpoints_ok in Hep'.
  apply andb_true_iff in Hep' as [E _]. apply andb_true_iff in E as [E _].
  apply andb_true_iff in E as [_ Ed]. apply N.eqb_eq in Ed. rewrite Ed.
  replace (ia p (n - 1) =? ia p k)%N with false
    by (symmetry; apply N.eqb_neq; intros X; apply (ia_not_dst _ _ _ HG k Hk); now symmetry).
  rewrite egress_part_split.
  pose proof (view_meta p pp _ _ _ _ _ _ true V1) as M1.
  assert (Xo : is_xover q1 = is_last p k).
  { rewrite (is_xover_meta _ _ M1), (is_xover_render p pp Hs k true Hk').
    replace (Nat.eqb (S k) n) with false by (symmetry; apply Nat.eqb_neq; lia). reflexivity. }
  unfold eff in *. destruct (crosses p k) eqn:C; cbn [orb] in *.
  - (* no segment change *)
    rewrite xover_part_skip.
    2:{ cbn [s_p s_peer]. rewrite Xo. destruct (is_last p k) eqn:L; [|reflexivity].
        now rewrite (peer_exit k Hk C L). }
    cbn [bind].
    assert (Hv : validate_egress (from0 ing) (lt_of (cfg_of (asof k) r) (ing_ifid ing))
                   (Some (if_of r (nifof k (tr_eg p k)))) false = EgOk).
    { rewrite F0. destruct Ha as [[-> ->]|(H1 & Cp & ->)].
      - cbn [Nat.eqb]. apply veg_int. symmetry. now apply H0.
      - replace (Nat.eqb k 0) with false by (symmetry; apply Nat.eqb_neq; lia).
        cbn [ing_ifid]. destruct (ingress_type k r H1 Hk' Cp) as (Lt & _ & _). rewrite Lt.
        apply veg_ext. destruct (link_fact _ _ _ HG k Hk C) as (_ & _ & Tf & _). rewrite Tf.
        now apply (types_intra _ _ _ HG). }
    destruct (egress_tail q1 k ing r false V1 Hk C Hv) as (s' & q' & Eax & Efin & Vq & Frq).
    cbv zeta in Eax. rewrite Eax. exists q'.
    split; [exact Efin|]. split; [exact Vq|]. split; [reflexivity|]. split; [exact Hk|]. split; [exact C|].
    apply (frame_trans jlim q q1 q' Fr1). now apply Frq.
  - (* effective segment change: the next hop field is used *)
    replace (Nat.eqb (S k) n) with false in * by (symmetry; apply Nat.eqb_neq; lia).
    destruct (after_junction k Hk C) as (C1 & N3 & Ph1 & Ph & L & J & K1).
    destruct Ha as [[-> _]|(_ & Cp & ->)]; [lia|].
    destruct (types_xover _ _ _ HG k K1 ltac:(lia) Hk Cp C) as (Tx & Iax).
    assert (As1 : asof (S k) = asof k) by (unfold as_of; now rewrite Iax).
    rewrite Ph in *.
    rewrite (xover_part_pass _ now _ (rhop (hop p (S k))) (rinfo p (S k) true (js (S k)))).
    + cbn [bind s_p s_peer s_eg].
      assert (V2 : View (inc_path q1) (S k) (S k) true).
      { apply (view_reinfo p pp lim jlim _ (S k) k true (S k) true).
        - now apply (view_inc p pp Hs).
        - intros j _ Hjs. apply rinfo_eq. now apply (sid_xover _ _ _ HG). }
      assert (Hv : validate_egress (from0 (InExt (tr_in p k))) (lt_of (cfg_of (asof (S k)) r) (ing_ifid (InExt (tr_in p k))))
                     (Some (if_of r (nifof (S k) (tr_eg p (S k))))) true = EgOk).
      { rewrite F0. replace (Nat.eqb k 0) with false by (symmetry; apply Nat.eqb_neq; lia).
        cbn [ing_ifid]. rewrite As1. destruct (ingress_type k r K1 Hk' Cp) as (Lt & _ & _). rewrite Lt.
        apply veg_ext. destruct (link_fact _ _ _ HG (S k) N3 C1) as (_ & _ & Tf & _). rewrite Tf. exact Tx. }
      destruct (egress_tail (inc_path q1) (S k) (InExt (tr_in p k)) r true V2 N3 C1 Hv)
        as (s' & q' & Eax & Efin & Vq & Frq).
      cbv zeta in Eax. rewrite As1, Ph1 in Eax. rewrite Eax. exists q'. rewrite As1 in Efin.
      split; [exact Efin|]. split; [exact Vq|]. split; [exact As1|]. split; [exact N3|]. split; [exact C1|].
      apply (frame_trans jlim q q1 q' Fr1). apply (frame_trans jlim q1 (inc_path q1) q'); [apply frame_inc|].
      now apply Frq.
    + cbn [s_p s_peer]. now rewrite Xo, L.
    + cbn [s_p]. rewrite (v_ch _ _ _ _ _ _ _ _ V1).
      replace (N.of_nat k + 1)%N with (N.of_nat (S k)) by lia. rewrite nthN_of_nat.
      apply (v_hops _ _ _ _ _ _ _ _ V1); assumption.
    + cbn [s_p]. rewrite (inf_index_meta _ _ _ M1), (v_ch _ _ _ _ _ _ _ _ V1).
      replace (N.of_nat k + 1)%N with (N.of_nat (S k)) by lia.
      rewrite (inf_index_render p pp Hs k true (S k) Hk). rewrite nthN_of_nat.
      pose proof (js_lt p Hs (S k) Hk) as Jl.
      rewrite (v_infos _ _ _ _ _ _ _ _ V1) by assumption.
      f_equal. apply rinfo_eq. apply (sid_xover _ _ _ HG); assumption.
    + now apply unexpired.
    + rewrite <- As1. apply mac_ok; [assumption|]. now apply (sid_cur_mid p Hs).
Qed.

(** * The last router hands the packet to the destination host *)
Lemma step_deliver q k ing r :
  View q k k false -> S k = n -> (k < lim)%nat -> (js k < jlim)%nat -> arrives k ing ->
  exists q' d,
    process_scion (macq (a_key (asof k))) (cfg_of (asof k) r) now ing q = Forward 0 q' (Some d) /\
    View q' k k true /\ deliver_target (asof k) pp = Some d.
Proof.
  intros V Hn Hl Hj Ha. assert (Hk : (k < n)%nat) by lia.
  destruct (as_of_ok _ _ _ HG k Hk) as [Ak Ik].
  destruct (ingress_arrive q k ing r V Hk Hl Hj Ha) as (q1 & Ein & V1 & _).
  unfold process_scion. rewrite Ein.
  rewrite (v_dst_ia _ _ _ _ _ _ _ _ V). cbn [cfg_of c_ia]. rewrite Ik.
  pose proof Hep as Hep'. unfold endpoints_ok in Hep'.
  apply andb_true_iff in Hep' as [E Dt]. apply andb_true_iff in E as [E _].
  apply andb_true_iff in E as [_ Ed]. apply N.eqb_eq in Ed. rewrite Ed in *.
  replace (n - 1)%nat with k in * by lia. rewrite N.eqb_refl.
  rewrite Ak in Dt. destruct (deliver_target (asof k) pp) as [d|] eqn:D; [|discriminate].
  exists q1, d. split; [|split; [exact V1|reflexivity]].
  unfold resolve_inbound. cbn [s_p s_eg].
  rewrite (v_dst_type _ _ _ _ _ _ _ _ V1), (v_dst_raw _ _ _ _ _ _ _ _ V1), (v_port _ _ _ _ _ _ _ _ V1).
  unfold deliver_target in D.
  destruct (parse_host (pp_dst_type pp) (pp_dst_raw pp)) as [ip|v|]; [| |discriminate].
  - destruct (pp_port pp) as [port|]; [|discriminate].
    destruct (is_4in6 ip || is_unspecified ip); [discriminate|]. now inversion D.
  - cbn [cfg_of c_svcs]. now rewrite D.
Qed.

(** * The egress router of an AS receives the packet from its sibling *)
Definition entry (k : nat) : nat := if is_first p k && negb (peerhop p k) then (k - 1)%nat else k.

Lemma entry_same k : (1 <= k)%nat -> (k < n)%nat -> crosses p (k - 1) = true -> entry k = k.
Proof.
  intros H1 Hk C. unfold entry. destruct k as [|k]; [lia|]. replace (S k - 1)%nat with k in C by lia.
  destruct (is_first p (S k)) eqn:F; [|reflexivity].
  destruct (arrive_first _ _ _ HG k Hk C F) as (_ & _ & _ & _ & _ & Ph & _). now rewrite Ph.
Qed.

Lemma entry_junction k : (S k < n)%nat -> crosses p k = false -> entry (S k) = k.
Proof.
  intros Hk C. destruct (after_junction k Hk C) as (_ & _ & Ph1 & _ & L & _).
  destruct (step_next p HP HT k Hk L) as (_ & O & _).
  unfold entry, is_first. rewrite O, Ph1. cbn. lia.
Qed.

Lemma step_mid q k k0 r :
  View q k k true -> (S k < n)%nat -> crosses p k = true -> (k < lim)%nat -> (js k < jlim)%nat ->
  entry k = k0 -> (1 <= k0)%nat -> crosses p (k0 - 1) = true -> asof k0 = asof k ->
  r = eg_rtr k -> in_rtr k0 <> r ->
  exists q',
    process_scion (macq (a_key (asof k))) (cfg_of (asof k) r) now (InSib (in_rtr k0 + 1)) q =
    Forward (tr_eg p k) q' None /\ View q' (S k) (S k) false /\ frame jlim q q'.
Proof.
  intros V Hk C Hl Hj He K0 C0 As0 Hr Hne. assert (Hk' : (k < n)%nat) by lia.
  assert (K1 : (1 <= k)%nat).
  { unfold entry in He. destruct (is_first p k && negb (peerhop p k)); lia. }
  assert (Hk0 : (k0 < n)%nat).
  { unfold entry in He. destruct (is_first p k && negb (peerhop p k)); lia. }
  destruct (as_of_ok _ _ _ HG k Hk') as [Ak Ik].
  set (ing := InSib (in_rtr k0 + 1)). set (c := cfg_of (asof k) r).
  set (h := rhop (hop p k)). set (i := rinfo p k true (js k)). set (pr := peerhop p k).
  pose proof (view_meta p pp _ _ _ _ _ _ true V) as M.
  pose proof Hep as Hep'. unfold endpoints_ok in Hep'.
  apply andb_true_iff in Hep' as [E _]. apply andb_true_iff in E as [E _].
  apply andb_true_iff in E as [Es Ed]. apply N.eqb_eq in Es, Ed.
  assert (Ein : ingress_part (macq (a_key (asof k))) c now ing q = Ok (mkSt q h i pr false 0)).
  { apply (ingress_part_pass _ c now ing q h i pr).
    - apply (parse_path_view p pp Hs lim jlim q k true V Hk' Hl Hj).
    - apply (determine_peer_view p pp Hs lim jlim q k k true true h V Hk').
    - now apply unexpired.
    - now left.
    - now rewrite (v_pay_len _ _ _ _ _ _ _ _ V), (v_pay_actual _ _ _ _ _ _ _ _ V).
    - (* the packet entered the AS through an interface of the sibling it comes from *)
      unfold validate_transit_underlay_src. cbn [s_p]. unfold is_first_hop.
      rewrite (v_ch _ _ _ _ _ _ _ _ V).
      replace (N.of_nat k =? 0)%N with false by lia. cbn [from0 ing ing_ifid N.eqb negb orb].
      assert (II : ingress_interface (mkSt q h i pr false 0) = Some (tr_in p k0)).
      { unfold ingress_interface. cbn [s_p s_peer s_inf s_hop].
        rewrite (first_after_xover_meta _ _ M), (first_after_xover_render p pp Hs k true Hk').
        replace (Nat.eqb k 0) with false by (symmetry; apply Nat.eqb_neq; lia). cbn [negb andb].
        unfold entry in He. unfold pr. rewrite andb_comm.
        destruct (is_first p k && negb (peerhop p k)) eqn:X.
        - apply andb_true_iff in X as [F _]. subst k0.
          destruct k as [|k]; [lia|]. replace (S k - 1)%nat with k in * by lia.
          destruct (prev_next p HP HT k Hk' F) as (_ & J).
          rewrite (v_ci _ _ _ _ _ _ _ _ V), (v_ch _ _ _ _ _ _ _ _ V). rewrite J.
          replace (N.of_nat (S (js k)) - 1)%N with (N.of_nat (js k)) by lia.
          replace (N.of_nat (S k) - 1)%N with (N.of_nat k) by lia.
          rewrite !nthN_of_nat.
          pose proof (js_lt p Hs k Hk0) as Jl.
          rewrite (v_infos _ _ _ _ _ _ _ _ V) by (lia || assumption).
          rewrite (v_hops _ _ _ _ _ _ _ _ V) by (lia || assumption).
          rewrite rinfo_consdir. unfold tr_in. reflexivity.
        - subst k0. unfold i, h. rewrite rinfo_consdir. unfold tr_in. reflexivity. }
      rewrite II.
      destruct (ingress_type k0 r K0 Hk0 C0) as (_ & Nz & Fg). rewrite As0 in Fg.
      unfold c. rewrite (get_if_cfg _ _ _ _ Nz Fg).
      unfold if_of.
      replace (ni_owner (nifof k0 (tr_in p k0)) =? r)%N with false
        by (symmetry; apply N.eqb_neq; exact Hne).
      cbn [if_link if_scope ing_link]. unfold in_rtr. now rewrite N.eqb_refl.
    - unfold validate_src_dst_ia. cbn [s_p]. unfold is_first_hop.
      rewrite (v_ch _ _ _ _ _ _ _ _ V), (v_dst_ia _ _ _ _ _ _ _ _ V).
      unfold c. cbn [cfg_of c_ia from0 ing ing_ifid N.eqb]. rewrite Ik, Ed.
      replace (N.of_nat k =? 0)%N with false by lia. cbn [andb].
      replace (ia p (n - 1) =? ia p k)%N with false
        by (symmetry; apply N.eqb_neq; intros X; apply (ia_not_dst _ _ _ HG k Hk); now symmetry).
      reflexivity.
    - unfold validate_src_host. cbn [s_p]. rewrite (v_src_ia _ _ _ _ _ _ _ _ V).
      unfold c. cbn [cfg_of c_ia]. rewrite Ik, Es.
      replace (ia p 0 =? ia p k)%N with false
        by (symmetry; apply N.eqb_neq; intros X; apply (ia_not_src _ _ _ HG k); [lia|lia|now symmetry]).
      reflexivity.
    - cbn [from0 ing ing_ifid N.eqb negb andb]. now rewrite andb_false_r.
    - cbn [s_inf].
      apply mac_ok; [assumption|]. now apply (sid_cur_mid p Hs).
    - reflexivity.
    - reflexivity. }
  unfold process_scion. fold c ing. rewrite Ein.
  rewrite (v_dst_ia _ _ _ _ _ _ _ _ V). unfold c at 1. cbn [cfg_of c_ia]. rewrite Ik, Ed.
  replace (ia p (n - 1) =? ia p k)%N with false
    by (symmetry; apply N.eqb_neq; intros X; apply (ia_not_dst _ _ _ HG k Hk); now symmetry).
  rewrite egress_part_split.
  rewrite xover_part_skip.
  2:{ cbn [s_p s_peer]. rewrite (is_xover_meta _ _ M), (is_xover_render p pp Hs k true Hk').
      replace (Nat.eqb (S k) n) with false by (symmetry; apply Nat.eqb_neq; lia). cbn [negb andb].
      destruct (is_last p k) eqn:L; [|reflexivity]. unfold pr. now rewrite (peer_exit k Hk C L). }
  cbn [bind].
  assert (Hv : validate_egress (from0 ing) (lt_of c (ing_ifid ing)) (Some (if_of r (nifof k (tr_eg p k)))) false = EgOk).
  { cbn [from0 ing ing_ifid N.eqb]. apply veg_int. now rewrite Hr. }
  destruct (egress_tail q k ing r false V Hk C Hv) as (s' & q' & Eax & Efin & Vq & Frq).
  cbv zeta in Eax. fold c h i pr in Eax. rewrite Eax. exists q'. split; [exact Efin|].
  rewrite Hr, N.eqb_refl in Vq. split; [exact Vq|now apply Frq].
Qed.

End Step.
