(** Lemmas about Model/PKI.v: TRC payload validation (C33). The update and signature
    lemmas (C32) are in Proofs/PKIUpdate.v. *)
From Coq Require Import List ZArith Bool Lia ZifyBool.
From Scion Require Import Lib.Check Model.PKI.
Import ListNotations.
Import PKI.
Local Open Scope Z_scope.

(** * Boolean equalities *)

Lemma ia_eqb_eq a b : ia_eqb a b = true <-> a = b.
Proof.
  destruct a as [| |i x], b as [| |j y]; cbn; split; intros H; try reflexivity; try discriminate.
  - apply andb_true_iff in H as [H1 H2]. apply Z.eqb_eq in H1, H2. now subst.
  - inversion H; subst. now rewrite !Z.eqb_refl.
Qed.

Lemma name_eqb_eq a b : name_eqb a b = true <-> a = b.
Proof.
  unfold name_eqb. destruct a as [i x], b as [j y]; cbn. split; intros H.
  - apply andb_true_iff in H as [H1 H2]. apply Z.eqb_eq in H1. apply ia_eqb_eq in H2. now subst.
  - inversion H; subst. rewrite Z.eqb_refl. now apply ia_eqb_eq.
Qed.

Lemma name_eqb_refl a : name_eqb a a = true.
Proof. now apply name_eqb_eq. Qed.

Lemma name_eqb_sym a b : name_eqb a b = name_eqb b a.
Proof.
  destruct (name_eqb a b) eqn:E.
  - apply name_eqb_eq in E. subst. now rewrite name_eqb_refl.
  - destruct (name_eqb b a) eqn:E'; [|reflexivity].
    apply name_eqb_eq in E'. subst. now rewrite name_eqb_refl in E.
Qed.

Lemma issuer_serial_eqb_eq a b : issuer_serial_eqb a b = true <-> a = b.
Proof.
  unfold issuer_serial_eqb. destruct a as [n s], b as [m r]; cbn. split; intros H.
  - apply andb_true_iff in H as [H1 H2]. apply Z.eqb_eq in H1. apply name_eqb_eq in H2. now subst.
  - inversion H; subst. rewrite Z.eqb_refl. now apply name_eqb_refl.
Qed.

Lemma existsb_eqb_in {A} (eqb : A -> A -> bool) :
  (forall x y, eqb x y = true <-> x = y) ->
  forall x l, existsb (eqb x) l = true <-> In x l.
Proof.
  intros H x l. rewrite existsb_exists. split.
  - intros [y [Hy E]]. apply H in E. now subst.
  - intros Hx. exists x. split; [assumption | now apply H].
Qed.

Lemma nodupb_NoDup {A} (eqb : A -> A -> bool) :
  (forall x y, eqb x y = true <-> x = y) ->
  forall l, nodupb eqb l = true <-> NoDup l.
Proof.
  intros H. induction l as [|x r IH]; cbn.
  - split; [constructor | reflexivity].
  - rewrite andb_true_iff, negb_true_iff, IH. split.
    + intros [E N]. constructor; [|assumption]. intros Hin.
      apply (existsb_eqb_in eqb H) in Hin. congruence.
    + intros N. inversion N as [|? ? Hn Hr]; subst. split; [|assumption].
      destruct (existsb (eqb x) r) eqn:E; [|reflexivity].
      apply (existsb_eqb_in eqb H) in E. contradiction.
Qed.

Lemma zeqb_iff x y : (x =? y) = true <-> x = y.
Proof. apply Z.eqb_eq. Qed.

Lemma zlist_eqb_eq a b : zlist_eqb a b = true <-> a = b.
Proof. apply list_eqb_eq. intros; apply Z.eqb_eq. Qed.

(** * Pieces of [trc_validate] against the pieces of [rules_b] *)

Lemma as_seq_go_ok l :
  as_seq_go l = None <-> negb (existsb (Z.eqb 0) l) && nodupb Z.eqb l = true.
Proof.
  induction l as [|a r IH]; cbn [as_seq_go existsb nodupb].
  - split; reflexivity.
  - destruct (a =? 0) eqn:E0.
    + split; [discriminate|]. apply Z.eqb_eq in E0. subst. cbn. discriminate.
    + assert (E0' : (0 =? a) = false) by lia. rewrite E0'. cbn [orb].
      destruct (existsb (Z.eqb a) r) eqn:Ed; cbn [negb andb].
      * split; [discriminate|]. intros H. apply andb_true_iff in H as [_ H]. discriminate.
      * rewrite IH. rewrite !andb_true_iff. tauto.
Qed.

Lemma as_seq_err_ok l : as_seq_err l = None <-> as_list_ok l = true.
Proof.
  unfold as_seq_err, as_list_ok. destruct l as [|a r].
  - cbn. split; discriminate.
  - rewrite as_seq_go_ok. unfold len. cbn [length].
    assert (E : (Z.of_nat (S (length r)) =? 0) = false) by lia. rewrite E. cbn [negb andb].
    reflexivity.
Qed.

Lemma first_err_none {A} (f : A -> option verr) (g : A -> bool) :
  (forall x, f x = None <-> g x = true) ->
  forall l, first_err f l = None <-> forallb g l = true.
Proof.
  intros H. induction l as [|x r IH]; cbn.
  - split; reflexivity.
  - destruct (f x) eqn:E.
    + split; [discriminate|]. intros G. apply andb_true_iff in G as [G _].
      apply H in G. congruence.
    + apply H in E. rewrite E. cbn. exact IH.
Qed.

Lemma cert_err_votable c : cert_err c = None <-> votable c = true.
Proof.
  unfold cert_err, votable, has_class. destruct (validate_cert c) as [[]|]; cbn; split;
    intros H; try reflexivity; try discriminate.
Qed.

Lemma classify_err_ok cs : classify_err cs = None <-> forallb votable cs = true.
Proof. apply first_err_none. apply cert_err_votable. Qed.

Lemma cert_trc_err_ok t c : cert_trc_err t c = None <-> in_isd t c && covers t c = true.
Proof.
  unfold cert_trc_err, in_isd, covers. destruct (find_ia (c_subject c)) as [| |i a].
  - split; discriminate.
  - cbn [andb]. destruct ((c_nb c <=? t_nb t) && (t_na t <=? c_na c)); split; congruence.
  - destruct (i =? t_isd t); cbn [negb andb].
    + destruct ((c_nb c <=? t_nb t) && (t_na t <=? c_na c)); split; congruence.
    + split; discriminate.
Qed.

Lemma cert_loop_ok t cs :
  first_err (cert_trc_err t) cs = None <->
  forallb (in_isd t) cs && forallb (covers t) cs = true.
Proof.
  rewrite (first_err_none _ (fun c => in_isd t c && covers t c) (cert_trc_err_ok t)).
  induction cs as [|c r IH]; cbn; [tauto|].
  rewrite !andb_true_iff in *. tauto.
Qed.

Lemma dup_issuer_serial_ok cs :
  dup_issuer_serial cs = false <->
  nodupb issuer_serial_eqb (map (fun c => (c_issuer c, c_serial c)) cs) = true.
Proof.
  induction cs as [|a r IH]; cbn [dup_issuer_serial map nodupb]; [tauto|].
  assert (E : existsb (same_issuer_serial a) r =
              existsb (issuer_serial_eqb (c_issuer a, c_serial a))
                      (map (fun c => (c_issuer c, c_serial c)) r)).
  { clear IH. induction r as [|b r IHr]; cbn; [reflexivity|]. now rewrite IHr. }
  rewrite E, orb_false_iff, andb_true_iff, negb_true_iff, IH. tauto.
Qed.

Lemma dup_subject_ok m : dup_subject m = false <-> nodupb name_eqb (subjects m) = true.
Proof.
  unfold subjects. induction m as [|a r IH]; cbn [dup_subject map nodupb]; [tauto|].
  assert (E : existsb (fun b => name_eqb (c_subject (snd a)) (c_subject (snd b))) r =
              existsb (name_eqb (c_subject (snd a))) (map (fun p => c_subject (snd p)) r)).
  { clear IH. induction r as [|b r IHr]; cbn; [reflexivity|]. now rewrite IHr. }
  rewrite E, orb_false_iff, andb_true_iff, negb_true_iff, IH. tauto.
Qed.

(** * [trc_validate] accepts exactly the payloads satisfying the rules *)

Ltac split_ands :=
  repeat match goal with
  | H : _ && _ = true |- _ => apply andb_true_iff in H; destruct H
  end.

Lemma validate_rules_b t : trc_validate t = None <-> rules_b t = true.
Proof.
  split.
  - unfold trc_validate. intros H.
    destruct (negb (t_version t =? 1)) eqn:E1; [discriminate|].
    destruct (negb (id_ok t)) eqn:E2; [discriminate|].
    destruct (negb (t_nb t <? t_na t)) eqn:E3; [discriminate|].
    destruct (is_base t && negb (t_grace t =? 0)) eqn:E4; [discriminate|].
    destruct (is_base t && negb (len (t_votes t) =? 0)) eqn:E5; [discriminate|].
    destruct ((t_quorum t <=? 0) || (255 <? t_quorum t)) eqn:E6; [discriminate|].
    destruct (as_seq_err (t_core t)) eqn:E7; [discriminate|].
    destruct (as_seq_err (t_auth t)) eqn:E8; [discriminate|].
    destruct (classify_err (t_certs t)) eqn:E9; [discriminate|].
    destruct (len (sens_of t) <? t_quorum t) eqn:E10; [discriminate|].
    destruct (len (reg_of t) <? t_quorum t) eqn:E11; [discriminate|].
    destruct (first_err (cert_trc_err t) (t_certs t)) eqn:E12; [discriminate|].
    destruct (dup_issuer_serial (t_certs t)) eqn:E13; [discriminate|].
    destruct (dup_subject (sens_of t) || dup_subject (reg_of t) || dup_subject (root_of t)) eqn:E14;
      [discriminate|].
    apply as_seq_err_ok in E7, E8. apply classify_err_ok in E9. apply cert_loop_ok in E12.
    apply dup_issuer_serial_ok in E13.
    apply orb_false_iff in E14 as [E14 E16]. apply orb_false_iff in E14 as [E14 E15].
    apply dup_subject_ok in E14, E15, E16.
    apply andb_true_iff in E12 as [E12a E12b].
    unfold id_ok, is_base in *. unfold rules_b.
    rewrite E7, E8, E9, E12a, E12b, E13, E14, E15, E16. cbn [andb].
    rewrite !andb_true_r. repeat (apply andb_true_iff; split); lia.
  - unfold rules_b. intros H. split_ands.
    unfold trc_validate, id_ok, is_base.
    replace (negb (t_version t =? 1)) with false by lia.
    replace (negb (negb (t_isd t =? 0) && (t_base t <=? t_serial t) && (0 <? t_base t)))
      with false by lia.
    replace (negb (t_nb t <? t_na t)) with false by lia.
    replace ((t_serial t =? t_base t) && negb (t_grace t =? 0)) with false by lia.
    replace ((t_serial t =? t_base t) && negb (len (t_votes t) =? 0)) with false by lia.
    replace ((t_quorum t <=? 0) || (255 <? t_quorum t)) with false by lia.
    repeat match goal with H : as_list_ok _ = true |- _ => apply as_seq_err_ok in H; rewrite H end.
    match goal with H : forallb votable _ = true |- _ => apply classify_err_ok in H; rewrite H end.
    replace (len (sens_of t) <? t_quorum t) with false by lia.
    replace (len (reg_of t) <? t_quorum t) with false by lia.
    assert (E12 : first_err (cert_trc_err t) (t_certs t) = None).
    { apply cert_loop_ok. apply andb_true_iff. split; assumption. }
    rewrite E12.
    match goal with H : nodupb issuer_serial_eqb _ = true |- _ =>
      apply dup_issuer_serial_ok in H; rewrite H end.
    repeat match goal with H : nodupb name_eqb (subjects _) = true |- _ =>
      apply dup_subject_ok in H; rewrite H end.
    reflexivity.
Qed.

(** * The rules as propositions *)

Definition as_list_rule (l : list Z) : Prop := l <> [] /\ ~ In 0 l /\ NoDup l.

Record trc_rules (t : trc) : Prop := mk_rules {
  r_version : t_version t = 1;
  r_isd : t_isd t <> 0;
  r_base : 1 <= t_base t <= t_serial t;
  r_validity : t_nb t < t_na t;
  r_base_trc : t_base t = t_serial t -> t_grace t = 0 /\ t_votes t = [];
  r_quorum : 1 <= t_quorum t <= 255;
  r_sensitive_voters : t_quorum t <= len (sens_of t);
  r_regular_voters : t_quorum t <= len (reg_of t);
  r_core : as_list_rule (t_core t);
  r_auth : as_list_rule (t_auth t);
  r_classifiable : forall c, In c (t_certs t) ->
      validate_cert c = Some Sensitive \/ validate_cert c = Some Regular \/
      validate_cert c = Some Root;
  r_cert_isd : forall c, In c (t_certs t) ->
      find_ia (c_subject c) <> FErr /\
      forall i a, find_ia (c_subject c) = FSome i a -> i = t_isd t;
  r_cover : forall c, In c (t_certs t) -> c_nb c <= t_nb t /\ t_na t <= c_na c;
  r_issuer_serial : NoDup (map (fun c => (c_issuer c, c_serial c)) (t_certs t));
  r_subject_sens : NoDup (subjects (sens_of t));
  r_subject_reg : NoDup (subjects (reg_of t));
  r_subject_root : NoDup (subjects (root_of t))
}.

Lemma as_list_ok_rule l : as_list_ok l = true <-> as_list_rule l.
Proof.
  unfold as_list_ok, as_list_rule, len. rewrite !andb_true_iff, !negb_true_iff.
  rewrite (nodupb_NoDup Z.eqb zeqb_iff).
  split.
  - intros [[Hn H0] Hd]. repeat split; [| |assumption].
    + intros ->. cbn in Hn. discriminate.
    + intros Hin. apply (existsb_eqb_in Z.eqb zeqb_iff) in Hin. congruence.
  - intros [Hn [H0 Hd]]. repeat split; [| |assumption].
    + destruct l; [contradiction|]. cbn [length]. lia.
    + destruct (existsb (Z.eqb 0) l) eqn:E; [|reflexivity].
      apply (existsb_eqb_in Z.eqb zeqb_iff) in E. contradiction.
Qed.

Lemma has_class_iff ty c : has_class ty c = true <-> validate_cert c = Some ty.
Proof.
  unfold has_class. destruct (validate_cert c) as [t'|]; [|split; discriminate].
  destruct t', ty; cbn; split; intros H; try reflexivity; try discriminate; inversion H.
Qed.

Lemma votable_iff c :
  votable c = true <->
  validate_cert c = Some Sensitive \/ validate_cert c = Some Regular \/ validate_cert c = Some Root.
Proof. unfold votable. rewrite !orb_true_iff, !has_class_iff. tauto. Qed.

Lemma in_isd_iff t c :
  in_isd t c = true <->
  find_ia (c_subject c) <> FErr /\ forall i a, find_ia (c_subject c) = FSome i a -> i = t_isd t.
Proof.
  unfold in_isd. destruct (find_ia (c_subject c)) as [| |i a].
  - split; [discriminate|]. intros [H _]. now elim H.
  - split; [|reflexivity]. intros _. split; [discriminate|]. intros; discriminate.
  - rewrite Z.eqb_eq. split.
    + intros E. split; [discriminate|]. intros j b Hj. inversion Hj; subst. reflexivity.
    + intros [_ H]. now apply (H i a).
Qed.

Lemma rules_b_iff t : rules_b t = true <-> trc_rules t.
Proof.
  split.
  - unfold rules_b. intros H. split_ands.
    repeat match goal with H : as_list_ok _ = true |- _ => apply as_list_ok_rule in H end.
    repeat match goal with H : nodupb name_eqb _ = true |- _ =>
      apply (nodupb_NoDup name_eqb name_eqb_eq) in H end.
    match goal with H : nodupb issuer_serial_eqb _ = true |- _ =>
      apply (nodupb_NoDup issuer_serial_eqb issuer_serial_eqb_eq) in H end.
    repeat match goal with H : forallb _ _ = true |- _ => rewrite forallb_forall in H end.
    constructor; try assumption; try lia.
    + intros E. split; [lia|]. assert (L : len (t_votes t) = 0) by lia.
      unfold len in L. destruct (t_votes t); [reflexivity|]. cbn in L. lia.
    + intros c Hc. apply votable_iff. auto.
    + intros c Hc. apply in_isd_iff. auto.
    + intros c Hc. match goal with H : forall x, In x _ -> covers t x = true |- _ =>
        specialize (H c Hc); unfold covers in H end. lia.
  - intros [].
    unfold rules_b.
    repeat match goal with H : as_list_rule _ |- _ => apply as_list_ok_rule in H; rewrite H end.
    repeat match goal with H : NoDup (subjects _) |- _ =>
      apply (nodupb_NoDup name_eqb name_eqb_eq) in H; rewrite H end.
    match goal with H : NoDup (map _ _) |- _ =>
      apply (nodupb_NoDup issuer_serial_eqb issuer_serial_eqb_eq) in H; rewrite H end.
    assert (F1 : forallb votable (t_certs t) = true).
    { apply forallb_forall. intros c Hc. apply votable_iff. auto. }
    assert (F2 : forallb (in_isd t) (t_certs t) = true).
    { apply forallb_forall. intros c Hc. apply in_isd_iff. auto. }
    assert (F3 : forallb (covers t) (t_certs t) = true).
    { apply forallb_forall. intros c Hc. unfold covers.
      match goal with H : forall c, In c _ -> c_nb c <= _ /\ _ |- _ => specialize (H c Hc) end. lia. }
    rewrite F1, F2, F3. cbn [andb]. rewrite !andb_true_r.
    assert (G : t_base t = t_serial t -> t_grace t = 0 /\ len (t_votes t) = 0).
    { intros E. match goal with H : t_base t = t_serial t -> _ |- _ => destruct (H E) as [? Hv] end.
      rewrite Hv. split; [assumption|reflexivity]. }
    repeat (apply andb_true_iff; split); lia.
Qed.

Theorem validate_iff_rules t : trc_validate t = None <-> trc_rules t.
Proof. rewrite validate_rules_b. apply rules_b_iff. Qed.

(** * The reported error names a rule that is really violated *)

Definition violated (e : verr) (t : trc) : Prop :=
  match e with
  | EVersion => t_version t <> 1
  | EID => ~ (t_isd t <> 0 /\ 1 <= t_base t <= t_serial t)
  | EValidity => ~ t_nb t < t_na t
  | EGrace => t_base t = t_serial t /\ t_grace t <> 0
  | EVotesOnBase => t_base t = t_serial t /\ t_votes t <> []
  | EQuorum => ~ 1 <= t_quorum t <= 255
  | ENoASes => t_core t = [] \/ t_auth t = []
  | EWildcardAS => In 0 (t_core t) \/ In 0 (t_auth t)
  | EDuplicateAS => ~ NoDup (t_core t) \/ ~ NoDup (t_auth t)
  | EUnclassified => exists c, In c (t_certs t) /\ validate_cert c = None
  | EInvalidCertType => exists c, In c (t_certs t) /\
                                  (validate_cert c = Some CA \/ validate_cert c = Some AS)
  | ENotEnoughVoters => len (sens_of t) < t_quorum t \/ len (reg_of t) < t_quorum t
  | EFindIA => exists c, In c (t_certs t) /\ find_ia (c_subject c) = FErr
  | EOtherISD => exists c i a, In c (t_certs t) /\ find_ia (c_subject c) = FSome i a /\ i <> t_isd t
  | ENotCovered => exists c, In c (t_certs t) /\ ~ (c_nb c <= t_nb t /\ t_na t <= c_na c)
  | EDuplicate => ~ NoDup (map (fun c => (c_issuer c, c_serial c)) (t_certs t)) \/
                  ~ NoDup (subjects (sens_of t)) \/ ~ NoDup (subjects (reg_of t)) \/
                  ~ NoDup (subjects (root_of t))
  end.

Lemma first_err_some {A} (f : A -> option verr) l e :
  first_err f l = Some e -> exists x, In x l /\ f x = Some e.
Proof.
  induction l as [|x r IH]; cbn; [discriminate|].
  destruct (f x) eqn:E.
  - intros H; inversion H; subst. exists x. auto.
  - intros H. destruct (IH H) as [y [Hy Ey]]. exists y. auto.
Qed.

Lemma as_seq_go_some l e :
  as_seq_go l = Some e ->
  (e = EWildcardAS /\ In 0 l) \/ (e = EDuplicateAS /\ ~ NoDup l).
Proof.
  induction l as [|a r IH]; cbn [as_seq_go]; [discriminate|].
  destruct (a =? 0) eqn:E0.
  - intros H; inversion H; subst. left. split; [reflexivity|]. left. lia.
  - destruct (existsb (Z.eqb a) r) eqn:Ed.
    + intros H; inversion H; subst. right. split; [reflexivity|].
      intros N. inversion N; subst. apply (existsb_eqb_in Z.eqb zeqb_iff) in Ed. contradiction.
    + intros H. destruct (IH H) as [[-> Hin]|[-> Hn]].
      * left. split; [reflexivity|now right].
      * right. split; [reflexivity|]. intros N. inversion N; subst. contradiction.
Qed.

Lemma as_seq_err_some l e :
  as_seq_err l = Some e ->
  (e = ENoASes /\ l = []) \/ (e = EWildcardAS /\ In 0 l) \/ (e = EDuplicateAS /\ ~ NoDup l).
Proof.
  unfold as_seq_err. destruct l as [|a r].
  - intros H; inversion H. left. auto.
  - intros H. right. now apply as_seq_go_some.
Qed.

Theorem validate_error_sound t e : trc_validate t = Some e -> violated e t.
Proof.
  unfold trc_validate. intros H.
  destruct (negb (t_version t =? 1)) eqn:E1; [inversion H; subst; cbn; lia|].
  destruct (negb (id_ok t)) eqn:E2; [inversion H; subst; unfold id_ok in E2; cbn; lia|].
  destruct (negb (t_nb t <? t_na t)) eqn:E3; [inversion H; subst; cbn; lia|].
  unfold is_base in H.
  destruct ((t_serial t =? t_base t) && negb (t_grace t =? 0)) eqn:E4;
    [inversion H; subst; cbn; lia|].
  destruct ((t_serial t =? t_base t) && negb (len (t_votes t) =? 0)) eqn:E5.
  { inversion H; subst; cbn. split; [lia|]. intros Hv. rewrite Hv in E5. cbn in E5. lia. }
  destruct ((t_quorum t <=? 0) || (255 <? t_quorum t)) eqn:E6; [inversion H; subst; cbn; lia|].
  destruct (as_seq_err (t_core t)) eqn:E7.
  { inversion H; subst. apply as_seq_err_some in E7 as [[-> ?]|[[-> ?]|[-> ?]]]; cbn; auto. }
  destruct (as_seq_err (t_auth t)) eqn:E8.
  { inversion H; subst. apply as_seq_err_some in E8 as [[-> ?]|[[-> ?]|[-> ?]]]; cbn; auto. }
  destruct (classify_err (t_certs t)) eqn:E9.
  { inversion H; subst. apply first_err_some in E9 as [c [Hc Ec]]. unfold cert_err in Ec.
    destruct (validate_cert c) as [[]|] eqn:Ev; inversion Ec; subst; cbn; exists c; auto. }
  destruct (len (sens_of t) <? t_quorum t) eqn:E10; [inversion H; subst; cbn; lia|].
  destruct (len (reg_of t) <? t_quorum t) eqn:E11; [inversion H; subst; cbn; lia|].
  destruct (first_err (cert_trc_err t) (t_certs t)) eqn:E12.
  { inversion H; subst. apply first_err_some in E12 as [c [Hc Ec]]. unfold cert_trc_err in Ec.
    destruct (find_ia (c_subject c)) as [| |i a] eqn:Ei.
    - inversion Ec; subst. cbn. exists c. auto.
    - destruct ((c_nb c <=? t_nb t) && (t_na t <=? c_na c)) eqn:Ecov; inversion Ec; subst.
      cbn. exists c. split; [assumption|lia].
    - destruct (negb (i =? t_isd t)) eqn:Eisd.
      + inversion Ec; subst. cbn. exists c, i, a. repeat split; try assumption. lia.
      + destruct ((c_nb c <=? t_nb t) && (t_na t <=? c_na c)) eqn:Ecov; inversion Ec; subst.
        cbn. exists c. split; [assumption|lia]. }
  destruct (dup_issuer_serial (t_certs t)) eqn:E13.
  { inversion H; subst. cbn. left. intros N.
    apply (nodupb_NoDup issuer_serial_eqb issuer_serial_eqb_eq) in N.
    apply dup_issuer_serial_ok in N. congruence. }
  destruct (dup_subject (sens_of t) || dup_subject (reg_of t) || dup_subject (root_of t)) eqn:E14;
    [|discriminate].
  inversion H; subst. cbn. right.
  apply orb_true_iff in E14 as [E14|E14]; [apply orb_true_iff in E14 as [E14|E14]|].
  - left. intros N. apply (nodupb_NoDup name_eqb name_eqb_eq) in N. apply dup_subject_ok in N.
    congruence.
  - right; left. intros N. apply (nodupb_NoDup name_eqb name_eqb_eq) in N.
    apply dup_subject_ok in N. congruence.
  - right; right. intros N. apply (nodupb_NoDup name_eqb name_eqb_eq) in N.
    apply dup_subject_ok in N. congruence.
Qed.

(** [findIA] cannot fail in the certificate loop: voting and root certificates were
    validated with the same function. *)
Lemma votable_no_findia_error c : votable c = true -> find_ia (c_subject c) <> FErr.
Proof.
  intros V. apply votable_iff in V. unfold validate_cert in V.
  destruct (classify c) as [ty|]; [|destruct V as [V|[V|V]]; discriminate].
  destruct (validate_as c ty) eqn:Ev; [|destruct V as [V|[V|V]]; discriminate].
  assert (T : ty = Sensitive \/ ty = Regular \/ ty = Root)
    by (destruct V as [V|[V|V]]; inversion V; auto).
  intros Hf.
  destruct T as [ -> | [ -> | -> ] ]; cbn [validate_as] in Ev; unfold voting_common, ca_common in Ev;
    split_ands; unfold ia_noerr, ia_set in *;
    rewrite Hf in *; discriminate.
Qed.

Theorem validate_never_findia t : trc_validate t <> Some EFindIA.
Proof.
  unfold trc_validate.
  repeat match goal with |- context [if ?b then _ else _] => destruct b; [discriminate|] end.
  destruct (as_seq_err (t_core t)) eqn:E7.
  { apply as_seq_err_some in E7 as [[-> ?]|[[-> ?]|[-> ?]]]; discriminate. }
  destruct (as_seq_err (t_auth t)) eqn:E8.
  { apply as_seq_err_some in E8 as [[-> ?]|[[-> ?]|[-> ?]]]; discriminate. }
  destruct (classify_err (t_certs t)) eqn:E9.
  { apply first_err_some in E9 as [c [Hc Ec]]. unfold cert_err in Ec.
    destruct (validate_cert c) as [[]|]; inversion Ec; discriminate. }
  repeat match goal with |- context [if ?b then _ else _] => destruct b; [discriminate|] end.
  destruct (first_err (cert_trc_err t) (t_certs t)) eqn:E12.
  { apply first_err_some in E12 as [c [Hc Ec]].
    apply classify_err_ok in E9. rewrite forallb_forall in E9. specialize (E9 c Hc).
    apply votable_no_findia_error in E9. unfold cert_trc_err in Ec.
    destruct (find_ia (c_subject c)); [now elim E9| |];
      repeat match type of Ec with context [if ?b then _ else _] => destruct b end;
      inversion Ec; discriminate. }
  repeat match goal with |- context [if ?b then _ else _] => destruct b; try discriminate end.
Qed.
