(** C18: composition of the per-layer lemmas over Model/Hdr.v — the oracle used by the
    correspondence check holds on the model, decoders never panic, over-long length fields
    are rejected. *)
From Coq Require Import List Arith NArith ZArith Bool Lia ZifyN ZifyNat ZifyBool.
From Scion Require Import Lib.Bytes Lib.BytesX Lib.Check.
From Scion Require Import Model.HdrPath Model.HdrScion Model.HdrL4 Model.HdrExt Model.Hdr.
From Scion Require Import Proofs.HdrPath Proofs.HdrScion Proofs.HdrL4 Proofs.HdrExt.
Import ListNotations.
Import Scion.Model.HdrPath.HdrPath Scion.Model.HdrScion.HdrScion Scion.Model.HdrL4.HdrL4
       Scion.Model.HdrExt.HdrExt Scion.Model.Hdr.Hdr.
Local Open Scope N_scope.

(** ------------------------------------------------------------ boolean reflection *)
Ltac b2p := repeat match goal with
  | H : (_ && _) = true |- _ => let H2 := fresh "B" in apply andb_true_iff in H as [H H2]
  | H : N.ltb _ _ = true |- _ => apply N.ltb_lt in H
  | H : N.eqb _ _ = true |- _ => apply N.eqb_eq in H
  | H : Nat.eqb _ _ = true |- _ => apply Nat.eqb_eq in H
  | H : Nat.ltb _ _ = true |- _ => apply Nat.ltb_lt in H
  | H : Nat.leb _ _ = true |- _ => apply Nat.leb_le in H
  | H : wf_bytesb _ = true |- _ => apply wf_bytesb_spec in H
  | H : negb _ = true |- _ => apply negb_true_iff in H
  | H : Bool.eqb _ _ = true |- _ => apply eqb_prop in H
  end.

Lemma bytes_eqb_refl l : bytes_eqb l l = true.
Proof. now apply bytes_eqb_eq. Qed.

Lemma list_eqb_refl {A} (eqb : A -> A -> bool) l : (forall x, eqb x x = true) -> list_eqb eqb l l = true.
Proof. intros H. induction l as [|x t IH]; cbn; [reflexivity|]. now rewrite H, IH. Qed.

Ltac refl_tac := repeat (rewrite ?N.eqb_refl, ?eqb_reflx, ?bytes_eqb_refl, ?Nat.eqb_refl; cbn [andb]); try reflexivity.

Lemma hop_eqb_refl x : hop_eqb x x = true. Proof. unfold hop_eqb. refl_tac. Qed.
Lemma info_eqb_refl x : info_eqb x x = true. Proof. unfold info_eqb. refl_tac. Qed.
Lemma meta_eqb_refl x : meta_eqb x x = true. Proof. unfold meta_eqb. refl_tac. Qed.
Lemma base_eqb_refl x : base_eqb x x = true. Proof. unfold base_eqb. rewrite meta_eqb_refl. refl_tac. Qed.
Lemma raw_eqb_refl x : raw_eqb x x = true. Proof. unfold raw_eqb. rewrite base_eqb_refl. refl_tac. Qed.
Lemma dec_eqb_refl x : dec_eqb x x = true.
Proof.
  unfold dec_eqb. rewrite base_eqb_refl, !list_eqb_refl; auto using info_eqb_refl, hop_eqb_refl.
Qed.
Lemma onehop_eqb_refl x : onehop_eqb x x = true.
Proof. unfold onehop_eqb. now rewrite info_eqb_refl, !hop_eqb_refl. Qed.
Lemma epic_eqb_refl x : epic_eqb x x = true. Proof. unfold epic_eqb. rewrite raw_eqb_refl. refl_tac. Qed.
Lemma path_eqb_refl x : path_eqb x x = true.
Proof.
  destruct x; cbn; auto using raw_eqb_refl, onehop_eqb_refl, epic_eqb_refl, dec_eqb_refl.
  now rewrite N.eqb_refl, bytes_eqb_refl.
Qed.
Lemma scion_eqb_refl x : scion_eqb x x = true. Proof. unfold scion_eqb. rewrite path_eqb_refl. refl_tac. Qed.
Lemma vals_eqb_refl x : vals_eqb x x = true.
Proof. unfold vals_eqb. apply list_eqb_refl. apply N.eqb_refl. Qed.
Lemma opt_eqb_refl x : opt_eqb x x = true. Proof. unfold opt_eqb. refl_tac. Qed.
Lemma ext_eqb_refl x : ext_eqb x x = true.
Proof. unfold ext_eqb. rewrite list_eqb_refl by apply opt_eqb_refl. refl_tac. Qed.
Lemma spao_eqb_refl x : spao_eqb x x = true. Proof. unfold spao_eqb. refl_tac. Qed.
Lemma host_eqb_refl x : host_eqb x x = true.
Proof. destruct x; cbn; auto using bytes_eqb_refl, N.eqb_refl. Qed.

Lemma hdr_eqb_refl h : hdr_eqb h h = true.
Proof.
  destruct h as [x|x|x|x|x|x|x| |x|x|b m|i x|k x|x|x]; cbn [hdr_eqb];
    auto using hop_eqb_refl, info_eqb_refl, meta_eqb_refl, raw_eqb_refl, dec_eqb_refl, onehop_eqb_refl,
      epic_eqb_refl, scion_eqb_refl, vals_eqb_refl, spao_eqb_refl, host_eqb_refl.
  - now rewrite !vals_eqb_refl.
  - now rewrite N.eqb_refl, vals_eqb_refl.
  - destruct k; apply ext_eqb_refl.
Qed.

Ltac andb_split H := rewrite !andb_true_iff in H.

Lemma wf_hopb_spec h : wf_hopb h = true -> wf_hop h.
Proof.
  unfold wf_hopb, wf_hop. intros H. andb_split H. destruct H as [[[[H1 H2] H3] H4] H5]. b2p. auto.
Qed.
Lemma wf_infob_spec i : wf_infob i = true -> wf_info i.
Proof. unfold wf_infob, wf_info. intros H. andb_split H. destruct H as [H1 H2]. b2p. auto. Qed.
Lemma wf_metab_spec m : wf_metab m = true -> wf_meta m.
Proof.
  unfold wf_metab, wf_meta. intros H. andb_split H. destruct H as [[[[H1 H2] H3] H4] H5]. b2p. auto.
Qed.

Lemma meta_eqb_eq a b : meta_eqb a b = true -> a = b.
Proof.
  destruct a, b. unfold meta_eqb. cbn. intros H. andb_split H.
  destruct H as [[[[H1 H2] H3] H4] H5]. b2p. now subst.
Qed.
Lemma base_eqb_eq a b : base_eqb a b = true -> a = b.
Proof.
  destruct a as [ma ia ha], b as [mb ib hb]. unfold base_eqb. cbn. intros H. andb_split H.
  destruct H as [[H1 H2] H3]. b2p. apply meta_eqb_eq in H1. now subst.
Qed.
Lemma res_base_eqb_eq r b : res_base_eqb r b = true -> r = Ok b.
Proof. destruct r; cbn; try discriminate. intros H. apply base_eqb_eq in H. now subst. Qed.

Lemma wf_rawb_spec p : wf_rawb p = true -> wf_raw p.
Proof.
  unfold wf_rawb, wf_raw. intros H. andb_split H. destruct H as [[[H1 H2] H3] H4]. b2p.
  apply wf_metab_spec in H1. apply res_base_eqb_eq in H2. auto.
Qed.

Lemma forallb_Forall {A} (f : A -> bool) (P : A -> Prop) l :
  (forall x, f x = true -> P x) -> forallb f l = true -> Forall P l.
Proof.
  intros H F. apply Forall_forall. intros x Hx. apply H. rewrite forallb_forall in F. now apply F.
Qed.

Lemma wf_decb_spec d : wf_decb d = true -> wf_dec d.
Proof.
  unfold wf_decb, wf_dec. intros H. andb_split H. destruct H as [[[[[H1 H2] H3] H4] H5] H6]. b2p.
  apply wf_metab_spec in H1. apply res_base_eqb_eq in H2.
  apply (forallb_Forall _ _ _ wf_infob_spec) in H5. apply (forallb_Forall _ _ _ wf_hopb_spec) in H6.
  auto 7.
Qed.
Lemma wf_onehopb_spec o : wf_onehopb o = true -> wf_onehop o.
Proof.
  unfold wf_onehopb, wf_onehop. intros H. andb_split H. destruct H as [[H1 H2] H3].
  auto using wf_infob_spec, wf_hopb_spec.
Qed.
Lemma wf_epicb_spec e : wf_epicb e = true -> wf_epic e.
Proof.
  unfold wf_epicb, wf_epic. intros H. andb_split H. destruct H as [[[[[[H1 H2] H3] H4] H5] H6] H7].
  b2p. apply wf_rawb_spec in H7. auto 10.
Qed.
Lemma wf_pathb_spec p : wf_pathb p = true -> wf_path p.
Proof.
  destruct p; cbn; auto using wf_rawb_spec, wf_onehopb_spec, wf_epicb_spec, wf_decb_spec.
  intros H. apply andb_true_iff in H as [H1 H2]. b2p. auto.
Qed.

Lemma wf_scion_nolenb_spec h : wf_scion_nolenb h = true -> wf_scion_nolen h.
Proof.
  unfold wf_scion_nolenb, wf_scion_nolen. intros H. andb_split H.
  destruct H as [[[[[[[[[[[[[[H1 H2] H3] H4] H5] H6] H7] H8] H9] H10] H11] H12] H13] H14] H15].
  b2p. apply wf_pathb_spec in H14.
  repeat (split; [assumption|]). intros d E. rewrite E in H15. discriminate.
Qed.
Lemma wf_scionb_spec h : wf_scionb h = true -> wf_scion h.
Proof.
  unfold wf_scionb, wf_scion. intros H. andb_split H. destruct H as [[[H1 H2] H3] H4]. b2p.
  apply wf_scion_nolenb_spec in H1. auto.
Qed.

Lemma wf_optb_spec o : wf_optb o = true -> wf_opt o.
Proof.
  unfold wf_optb, wf_opt. intros H. apply andb_true_iff in H as [H1 H2]. b2p. split; [assumption|].
  apply orb_true_iff in H2 as [H2|H2]; [b2p; now left|].
  andb_split H2. destruct H2 as [[H2 H3] H4]. b2p. auto.
Qed.
Lemma wf_opt_fixb_spec o : wf_opt_fixb o = true -> wf_opt_fix o.
Proof.
  unfold wf_opt_fixb, wf_opt_fix. intros H. apply andb_true_iff in H as [H H4].
  andb_split H. destruct H as [[H1 H2] H3]. b2p. repeat (split; [assumption|]).
  apply orb_true_iff in H4 as [H4|H4]; [b2p; now left|].
  apply andb_true_iff in H4 as [H4 H5]. b2p. auto.
Qed.
Lemma wf_extb_spec k e : wf_extb k e = true -> wf_ext k e.
Proof.
  unfold wf_extb, wf_ext. intros H. andb_split H. destruct H as [[[[H1 H2] H3] H4] H5]. b2p.
  apply (forallb_Forall _ _ _ wf_optb_spec) in H3. auto.
Qed.
Lemma wf_ext_fixb_spec k e : wf_ext_fixb k e = true -> wf_ext_fix k e.
Proof.
  unfold wf_ext_fixb, wf_ext_fix. intros H. andb_split H. destruct H as [[[H1 H2] H3] H4]. b2p.
  apply (forallb_Forall _ _ _ wf_opt_fixb_spec) in H3. auto.
Qed.
Lemma wf_spaob_spec p : wf_spaob p = true -> wf_spao p.
Proof.
  unfold wf_spaob, wf_spao. intros H. andb_split H. destruct H as [[[H1 H2] H3] H4]. b2p. auto.
Qed.

(** ------------------------------------------------------------ encoder direction *)
Lemma spao_of_opt_ext o o' : o_type o = o_type o' -> o_data o = o_data o' -> spao_of_opt o = spao_of_opt o'.
Proof. intros Ht Hd. unfold spao_of_opt. now rewrite Ht, Hd. Qed.

Lemma enc_ok fx h payload :
  wfb fx (aux_of payload) h = true -> (takes_payload h = true \/ payload = []) ->
  exists e, encode fx (aux_of payload) h = Ok e /\
            decode (lay_of h) (e ++ payload) = Ok (canon fx (aux_of payload) h, payload).
Proof.
  intros W TP. destruct h as [x|x|x|x|x|x|x| |x|v|b m|id v|k x|x|x];
    cbn [wfb encode lay_of decode canon takes_payload] in *.
  - (* hop *) apply wf_hopb_spec in W. eexists. split; [reflexivity|].
    unfold lift. now rewrite hop_dec_enc.
  - apply wf_infob_spec in W. eexists. split; [reflexivity|]. unfold lift. now rewrite info_dec_enc.
  - apply wf_metab_spec in W. eexists. split; [reflexivity|]. unfold lift. now rewrite meta_dec_enc.
  - (* raw *) apply wf_rawb_spec in W.
    destruct (raw_dec_enc_canon x payload W) as (e & E & D & _ & _).
    exists e. split; [exact E|]. unfold lift. now rewrite D.
  - (* decoded *) apply wf_decb_spec in W.
    destruct (dec_dec_enc x payload W) as (e & E & D). exists e. split; [exact E|].
    unfold lift. now rewrite D.
  - apply wf_onehopb_spec in W. eexists. split; [reflexivity|]. unfold lift. now rewrite onehop_dec_enc.
  - (* epic *) apply wf_epicb_spec in W.
    destruct (epic_dec_enc x payload W) as (bs & E & sp & Esp & D).
    destruct W as (_ & _ & _ & _ & _ & _ & Wr). destruct (raw_encode_ok _ Wr) as [Esp' _].
    rewrite Esp' in Esp. injection Esp as <-.
    exists bs. split; [exact E|]. unfold lift. now rewrite D.
  - (* empty *) destruct TP as [TP | ->]; [discriminate|]. exists []. split; reflexivity.
  - (* scion *) cbv zeta in W. apply andb_true_iff in W as [W WD]. apply andb_true_iff in W as [W NO].
    apply negb_true_iff in NO.
    destruct (s_path x) as [|r|o|e0|d|t b] eqn:P.
    5:{ (* decoded path *) apply wf_decb_spec in WD.
        assert (W' : if fx then wf_scion_nolen (scion_undecoded x) /\
                                 (scn_len (scion_undecoded x) <= max_hdr_len)%nat /\
                                 Nat.modulo (scn_len (scion_undecoded x)) line_len = 0%nat
                     else wf_scion (scion_undecoded x)).
        { destruct fx.
          - andb_split W. destruct W as [[W W1] W2]. b2p. apply wf_scion_nolenb_spec in W. auto.
          - now apply wf_scionb_spec in W. }
        destruct (scion_dec_enc_decoded fx (aux_of payload) x d P WD W') as (e & r & E & _ & _ & D).
        exists e. split; [exact E|]. unfold lift. now rewrite D. }
    all: assert (U : scion_undecoded x = x) by (apply scion_undecoded_other; now rewrite P).
    all: rewrite U in *; destruct fx;
      [ andb_split W; destruct W as [[W W1] W2]; b2p; apply wf_scion_nolenb_spec in W;
        destruct (scion_dec_enc_fix x (aux_of payload) W NO W1 W2) as (e & E & _ & D)
      | apply wf_scionb_spec in W; destruct (scion_dec_enc x W NO) as (e & E & _ & D) ];
      (exists e; split; [exact E|]; unfold lift; now rewrite D).
  - (* udp *) apply andb_true_iff in W as [W W1]. apply wf_valsb_spec in W.
    eexists. split; [reflexivity|].
    unfold aux_of in *. destruct fx.
    + destruct (udp_dec_enc_fix v payload W) as [_ D]. cbv zeta in D.
      replace (N.of_nat (length payload) + 8) with (N.of_nat (8 + length payload)) by lia.
      now rewrite D.
    + cbn [orb] in W1.
      change (udp_encode false (N.of_nat (length payload) + 8) v) with (udp_encode false 0 v).
      rewrite udp_dec_enc; [reflexivity | exact W |].
      apply orb_true_iff in W1 as [W1|W1]; b2p; [now left | right; lia].
  - (* scmp *) apply andb_true_iff in W as [W W1]. apply wf_valsb_spec in W.
    eexists. split; [reflexivity|].
    rewrite scmp_dec_enc; [reflexivity|]. split; [exact W|].
    destruct (scmp_msg_fmt (hd 0 b)); [now apply wf_valsb_spec | destruct m; [reflexivity | discriminate]].
  - (* single message *) apply wf_valsb_spec in W. eexists. split; [reflexivity|].
    unfold lift. now rewrite fmt_dec_enc.
  - (* extension *) destruct fx.
    + apply wf_ext_fixb_spec in W. destruct (ext_dec_enc_fix k x payload W) as (en & E & D & _).
      exists en. split; [exact E|]. unfold lift. now rewrite D.
    + apply wf_extb_spec in W. destruct (ext_dec_enc k x payload W) as (en & E & D).
      exists en. split; [exact E|]. unfold lift. now rewrite D.
  - (* spao *) destruct TP as [TP | ->]; [discriminate|]. apply andb_true_iff in W as [W W1].
    apply wf_spaob_spec in W.
    destruct (spao_dec_enc x W) as (o & E & D & T). rewrite E. cbn [bind].
    eexists. split; [reflexivity|]. rewrite app_nil_r.
    rewrite (spao_of_opt_ext _ o) by (cbn [o_type o_data]; auto). rewrite D. reflexivity.
  - (* host address *) destruct TP as [TP | ->]; [discriminate|].
    assert (Wh : wf_host x).
    { destruct x; cbn [wf_host]; rewrite ?andb_true_iff in W; b2p; intuition; b2p; auto. }
    pose proof (parse_pack x Wh) as P. destruct (pack_addr x) as [t raw]. cbn [fst snd] in P.
    eexists. split; [reflexivity|]. rewrite app_nil_r. rewrite P. reflexivity.
Qed.

Theorem enc_oracle_model fx h payload :
  let m := encode fx (aux_of payload) h in
  enc_oracle fx h payload (res_opt m)
    (match m with Ok e => res_opt (decode (lay_of h) (e ++ payload)) | _ => None end) = true.
Proof.
  cbv zeta. unfold enc_oracle.
  destruct (wfb fx (aux_of payload) h) eqn:W; [|reflexivity]. cbn [andb].
  destruct (takes_payload h || match payload with [] => true | _ :: _ => false end) eqn:TP; [|reflexivity].
  assert (TP' : takes_payload h = true \/ payload = []).
  { apply orb_true_iff in TP as [TP|TP]; [now left | right; now destruct payload]. }
  destruct (enc_ok fx h payload W TP') as (e & E & D). rewrite E. cbn [res_opt]. rewrite D. cbn [res_opt].
  now rewrite hdr_eqb_refl, bytes_eqb_refl.
Qed.

(** ------------------------------------------------------------ decoder direction *)
Lemma lift_inv {A} (f : A -> hdr) r h rest : lift f r = Ok (h, rest) -> exists a, r = Ok (a, rest) /\ h = f a.
Proof.
  unfold lift. destruct r as [[a r']| |]; cbn [bind]; try discriminate.
  intros H; injection H as <- <-. eauto.
Qed.

Lemma parse_addr_type t raw h : parse_addr t raw = Ok h -> t < 16.
Proof.
  unfold parse_addr. destruct (t =? T4Ip) eqn:E0; [apply N.eqb_eq in E0; subst; reflexivity|].
  destruct (t =? T4Svc) eqn:E1; [apply N.eqb_eq in E1; subst; reflexivity|].
  destruct (t =? T16Ip) eqn:E2; [apply N.eqb_eq in E2; subst; reflexivity|]. discriminate.
Qed.

Lemma raw_decode_base bs p rest : raw_decode bs = Ok (p, rest) ->
  exists r, base_decode bs = Ok (rp_base p, r).
Proof.
  unfold raw_decode. destruct (base_decode bs) as [[b r]| |]; cbn [bind]; try discriminate.
  destruct (Nat.ltb _ _); [discriminate|].
  destruct (takeP _ _) as [[a c]| |]; cbn [bind]; try discriminate.
  intros H; injection H as <- <-. eauto.
Qed.

Lemma dec_decode_base bs d rest : dec_decode bs = Ok (d, rest) ->
  exists r, base_decode bs = Ok (dp_base d, r).
Proof.
  unfold dec_decode. destruct (base_decode bs) as [[b r]| |]; cbn [bind]; try discriminate.
  destruct (Nat.ltb _ _); [discriminate|].
  destruct (read_list _ _ _ _) as [[is r1]| |]; cbn [bind]; try discriminate.
  destruct (read_list _ _ _ _) as [[hs r2]| |]; cbn [bind]; try discriminate.
  intros H; injection H as <- <-. eauto.
Qed.

Lemma dec_ok l bs h rest : wf_bytes bs -> decode l bs = Ok (h, rest) -> known l bs = false ->
  overlong l bs = false /\
  (addr_exempt l bs h = true \/ exists e, encode false 0 h = Ok e /\ e ++ rest = mask l bs).
Proof.
  intros W D K. destruct l as [| | | | | | | | | | |id|k| | |]; cbn [decode overlong mask addr_exempt known] in *.
  - apply lift_inv in D as (a & D & ->). destruct (hop_enc_dec _ _ _ W D) as (M & _).
    split; [reflexivity|]. right. eexists. split; [reflexivity | exact M].
  - apply lift_inv in D as (a & D & ->). destruct (info_enc_dec _ _ _ W D) as (M & _).
    split; [reflexivity|]. right. eexists. split; [reflexivity | exact M].
  - apply lift_inv in D as (a & D & ->). destruct (meta_enc_dec _ _ _ W D) as (M & _).
    split; [reflexivity|]. right. eexists. split; [reflexivity | exact M].
  - (* raw *) apply lift_inv in D as (a & D & ->).
    destruct (raw_enc_dec _ _ _ W D) as (e & E & M & _ & _ & L).
    destruct (raw_decode_base _ _ _ D) as (r & ->). split.
    + apply Nat.ltb_ge. lia.
    + right. exists e. auto.
  - (* decoded *) apply lift_inv in D as (a & D & ->).
    destruct (dec_enc_dec _ _ _ W D) as (e & E & M & _ & _ & L).
    destruct (dec_decode_base _ _ _ D) as (r & ->). split.
    + apply Nat.ltb_ge. lia.
    + right. exists e. auto.
  - apply lift_inv in D as (a & D & ->). destruct (onehop_enc_dec _ _ _ W D) as (M & _).
    split; [reflexivity|]. right. eexists. split; [reflexivity | exact M].
  - apply lift_inv in D as (a & D & ->). destruct (epic_enc_dec _ _ _ W D) as (e & E & M & _).
    split; [reflexivity|]. right. exists e. auto.
  - (* empty *) unfold empty_decode in D. destruct (Nat.eqb (length bs) 0) eqn:E; cbn [bind] in D; try discriminate.
    injection D as <- <-. apply Nat.eqb_eq in E. destruct bs; [|discriminate].
    split; [reflexivity|]. right. exists []. auto.
  - (* scion *) apply lift_inv in D as (a & D & ->). rewrite D in K.
    apply negb_false_iff, Nat.eqb_eq in K.
    destruct (scion_enc_dec _ _ _ W D) as (_ & _ & _ & _ & _ & _ & R).
    destruct (R K) as (e & E & M). split.
    + destruct (scion_overlong bs) eqn:O; [|reflexivity].
      rewrite (scion_reject_overlong _ W O) in D. discriminate.
    + right. exists e. auto.
  - (* udp *) split; [exact K|]. right.
    destruct (udp_decode bs) as [[[v p] tr]| |] eqn:E; cbn [bind] in D; try discriminate.
    injection D as <- <-. destruct (udp_enc_dec _ _ _ _ W E) as (M & _).
    eexists. split; [reflexivity | exact M].
  - (* scmp *) split; [reflexivity|]. right.
    destruct (scmp_decode bs) as [[[b m] r]| |] eqn:E; cbn [bind] in D; try discriminate.
    injection D as <- <-. destruct (scmp_enc_dec _ _ _ _ W E) as (M & _).
    eexists. split; [reflexivity | exact M].
  - apply lift_inv in D as (a & D & ->). destruct (fmt_enc_dec _ _ _ _ W D) as (M & _).
    split; [reflexivity|]. right. eexists. split; [reflexivity | exact M].
  - (* extension *) apply lift_inv in D as (a & D & ->).
    destruct (ext_enc_dec _ _ _ _ W D) as (E & M & _). split.
    + destruct (ext_overlong bs) eqn:O; [|reflexivity].
      rewrite (ext_reject_overlong _ _ W O) in D. discriminate.
    + right. eexists. split; [exact E | exact M].
  - (* spao *) split; [reflexivity|]. right.
    destruct (spao_of_opt _) as [p| |] eqn:E; cbn [bind] in D; try discriminate.
    injection D as <- <-.
    match type of E with spao_of_opt ?o = _ =>
      destruct (spao_enc_dec o p W E) as (o' & E' & Hd & _) end.
    cbn [encode]. rewrite E'. cbn [bind]. eexists. split; [reflexivity|].
    rewrite app_nil_r. exact Hd.
  - (* host address *) split; [reflexivity|]. destruct bs as [|t raw]; [discriminate|].
    destruct (parse_addr t raw) as [a| |] eqn:E; cbn [bind] in D; try discriminate.
    injection D as <- <-. inversion W as [|? ? Wt Wr]; subst.
    destruct (Nat.eqb (length raw) (addr_len t)) eqn:L; [|now left]. cbn [negb orb].
    apply Nat.eqb_eq in L.
    destruct a as [b|b|s].
    + right. destruct (pack_parse _ _ _ Wr L (parse_addr_type _ _ _ E) E) as [P _]; [discriminate|].
      cbn [encode]. rewrite P. eexists. split; [reflexivity|]. now rewrite app_nil_r.
    + destruct (is_v4mapped b) eqn:V; [now left|]. right.
      destruct (pack_parse _ _ _ Wr L (parse_addr_type _ _ _ E) E) as [P _].
      { intros b' Hb. injection Hb as <-. exact V. }
      cbn [encode]. rewrite P. eexists. split; [reflexivity|]. now rewrite app_nil_r.
    + right. destruct (pack_parse _ _ _ Wr L (parse_addr_type _ _ _ E) E) as [P _]; [discriminate|].
      cbn [encode]. rewrite P. eexists. split; [reflexivity|]. now rewrite app_nil_r.
  - (* scion, recycling layer *) apply lift_inv in D as (a & D & ->). rewrite D in K.
    apply negb_false_iff, Nat.eqb_eq in K.
    destruct (scion_r_enc_dec _ _ _ W D) as (_ & _ & _ & _ & _ & _ & R).
    destruct (R K) as (e & E & M). split.
    + destruct (scion_overlong bs) eqn:O; [|reflexivity].
      rewrite (scion_r_reject_overlong _ W O) in D. discriminate.
    + right. exists e. auto.
Qed.

Theorem dec_oracle_model l bs : wf_bytes bs -> known l bs = false ->
  let m := decode l bs in
  dec_oracle l bs (res_opt m)
    (match m with Ok (h, _) => res_opt (encode false 0 h) | _ => None end) = true.
Proof.
  intros W K. cbv zeta. unfold dec_oracle.
  destruct (decode l bs) as [[h rest]| |] eqn:D; cbn [res_opt]; try reflexivity.
  destruct (dec_ok _ _ _ _ W D K) as (O & [X | (e & E & M)]).
  - rewrite O, X. reflexivity.
  - rewrite O, E. cbn [res_opt negb andb]. rewrite M, bytes_eqb_refl. apply orb_true_r.
Qed.

(** ------------------------------------------------------------ totality *)
Lemma lift_no_panic {A} (f : A -> hdr) r : r <> Panic -> lift f r <> Panic.
Proof. unfold lift. destruct r as [[a r']| |]; cbn [bind]; congruence. Qed.

Theorem decode_no_panic l bs : l <> LAddr -> decode l bs <> Panic.
Proof.
  intros NA. destruct l as [| | | | | | | | | | |id|k| | |]; cbn [decode];
    try (apply lift_no_panic;
         auto using hop_no_panic, info_no_panic, meta_no_panic, raw_no_panic, dec_no_panic,
           onehop_no_panic, epic_no_panic, scion_no_panic, scion_r_no_panic, fmt_decode_no_panic, ext_no_panic).
  - unfold empty_decode. destruct (Nat.eqb _ _); cbn [bind]; discriminate.
  - pose proof (udp_no_panic bs). destruct (udp_decode bs) as [[[v p] t]| |]; cbn [bind]; congruence.
  - pose proof (scmp_no_panic bs). destruct (scmp_decode bs) as [[[b m] r]| |]; cbn [bind]; congruence.
  - match goal with |- context [spao_of_opt ?o] => pose proof (spao_no_panic o); destruct (spao_of_opt o) end;
      cbn [bind]; congruence.
  - congruence.
Qed.

(** ParseAddr on what DecodeAddrHdr produces *)
Theorem parse_addr_no_panic t raw : length raw = addr_len t -> parse_addr t raw <> Panic.
Proof.
  intros L. unfold parse_addr. destruct (t =? T4Ip); [discriminate|].
  destruct (t =? T4Svc) eqn:E.
  - apply N.eqb_eq in E. subst t. change (addr_len T4Svc) with 4%nat in L.
    destruct (wordP 2 raw) as [[s r]| |] eqn:Ew; cbn [bind]; try discriminate.
    apply wordP_panic in Ew. lia.
  - destruct (t =? T16Ip); discriminate.
Qed.

(** declared lengths beyond the data are rejected (UDP excepted: [known]) *)
Theorem decode_reject_overlong l bs : wf_bytes bs -> overlong l bs = true -> known l bs = false ->
  decode l bs = Err.
Proof.
  intros W O K. destruct (decode l bs) as [[h rest]| |] eqn:D; [|reflexivity|].
  - destruct (dec_ok _ _ _ _ W D K) as (O' & _). congruence.
  - exfalso. destruct l; try (now apply (decode_no_panic _ bs) in D; [|discriminate]).
    all: try discriminate.
Qed.
