(** C04: one MAC-protected value of a valid path is altered before the walk.
    Up to the AS that owns the first hop field whose MAC input depends on the
    altered value, every router sees the packet exactly as in the valid walk
    (the packet stays in [view] below the altered position); at that AS the
    router either stops the packet or has accepted a MAC for an input the AS
    never authenticated ([forged]). *)
From Scion Require Import Proofs.Router.
From Coq Require Import List NArith Bool Arith Lia ZifyBool ZifyN ZifyNat.
From Scion Require Import Lib.Check Model.Router Model.Network Model.Prov.
From Scion Require Import Proofs.ProvStruct Proofs.ProvRender Proofs.ForwardView Proofs.ProvFacts
  Proofs.RouterPass Proofs.ForwardStep Proofs.Forward Proofs.RouterStops Proofs.ReverseStruct.
Import ListNotations.
Import Router Network Prov.

(** positions before the first hop of slice [j] lie in earlier slices *)
Lemma seg_idx_before : forall ls j x, (j <= length ls)%nat -> (x < seg_start ls j)%nat -> (seg_idx ls x < j)%nat.
Proof.
  induction ls as [|l r IH]; intros j x Hj Hx.
  - destruct j; cbn in Hx; lia.
  - destruct j as [|j]; [rewrite seg_start_0 in Hx; lia|]. rewrite seg_start_S in Hx.
    cbn [seg_idx]. destruct (x <? l)%nat eqn:E; [lia|]. apply Nat.ltb_ge in E.
    cbn [length] in Hj. specialize (IH j (x - l)%nat ltac:(lia) ltac:(lia)). lia.
Qed.

Section Tamper.
Variable mac : N -> N -> N -> N -> N -> N -> list N.
Variable t : topology.
Variable now : N.
Variable p : prov.
Variable pp : pparams.
Hypothesis HG : good mac t p.
Hypothesis Hep : endpoints_ok t p pp = true.
Hypothesis Hexp : all_unexpired now p = true.
Variable f : field.
Variable idx : nat.
Variable v : N.

Notation n := (nhops p).
Notation js := (seg_idx (lens p)).
Notation nsegs := (length (pv_segs p)).
Notation macq := (macq_of mac).
Notation Hs := (Hshape mac t p HG).
Notation HT := (Htot p Hs).
Notation HP := (Hpos p Hs).
Notation asof := (as_of t p).
Notation eff := (eff p).
Notation in_rtr := (in_rtr t p).
Notation eg_rtr := (eg_rtr t p).
Notation arrives := (arrives p).
Notation entry := (entry p).

Definition q0 : pkt := render p pp 0 false.
Definition qt : pkt := tamper f idx v q0.
Hypothesis Hch : changed f idx v q0 = true.

Definition lim : nat := if is_hop_field f then idx else n.
Definition jlim : nat := if is_hop_field f then nsegs else idx.
Definition d : nat := depends_on p f idx.
Definition kd : nat := entry d.
Notation View := (view p pp lim jlim).

(** * The altered packet *)
Lemma idx_range : if is_hop_field f then (idx < n)%nat else (idx < nsegs)%nat.
Proof.
  unfold changed, q0 in Hch. destruct (is_hop_field f).
  - destruct (nth_error (p_hops (render p pp 0 false)) idx) eqn:E; [|discriminate].
    assert (X : nth_error (p_hops (render p pp 0 false)) idx <> None) by (rewrite E; discriminate).
    apply nth_error_Some in X. unfold render in X. cbn [p_hops] in X. now rewrite map_length in X.
  - destruct (nth_error (p_infos (render p pp 0 false)) idx) eqn:E; [|discriminate].
    assert (X : nth_error (p_infos (render p pp 0 false)) idx <> None) by (rewrite E; discriminate).
    apply nth_error_Some in X. unfold render in X. cbn [p_infos] in X. now rewrite rinfos_length in X.
Qed.

Lemma d_lt : (d < n)%nat.
Proof.
  unfold d, depends_on. pose proof idx_range as R. destruct (is_hop_field f); [exact R|].
  pose proof (seg_start_total (lens p) idx ltac:(now rewrite lens_length)) as T.
  rewrite HT in T. pose proof (lens_ge1 p Hs idx R). lia.
Qed.

Lemma d_info : is_hop_field f = false -> js d = idx /\ is_first p d = true.
Proof.
  intros Hf. pose proof idx_range as R. rewrite Hf in R. unfold d, depends_on. rewrite Hf.
  destruct (seg_compose (lens p) idx 0) as [A B].
  - now rewrite lens_length.
  - pose proof (lens_ge1 p Hs idx R). lia.
  - rewrite Nat.add_0_r in A, B. split; [exact A|]. unfold is_first. now rewrite B.
Qed.

Lemma tamper_view : View qt 0 0 false.
Proof.
  pose proof (view_render p pp lim jlim 0 false) as V.
  unfold qt, tamper, q0. pose proof idx_range as R. unfold lim, jlim in *.
  destruct (is_hop_field f) eqn:Hf.
  - destruct (nth_error (p_hops (render p pp 0 false)) idx) as [h|]; [|exact V].
    destruct V. constructor; cbn [with_hops p_dst_ia p_src_ia p_dst_type p_src_type p_dst_raw p_src_raw
      p_pay_len p_pay_actual p_l4_port p_curr_inf p_curr_hf p_seg0 p_seg1 p_seg2 p_meta_rsv p_infos p_hops];
      try assumption.
    + now rewrite set_nth_len.
    + intros k' Hk' Hn. rewrite nth_error_set_nth.
      destruct (Nat.eqb k' idx) eqn:E; [apply Nat.eqb_eq in E; lia|]. now apply v_hops.
  - destruct (nth_error (p_infos (render p pp 0 false)) idx) as [i|]; [|exact V].
    destruct V. constructor; cbn [with_infos p_dst_ia p_src_ia p_dst_type p_src_type p_dst_raw p_src_raw
      p_pay_len p_pay_actual p_l4_port p_curr_inf p_curr_hf p_seg0 p_seg1 p_seg2 p_meta_rsv p_infos p_hops];
      try assumption.
    + now rewrite set_nth_len.
    + intros j Hj Hsn. rewrite nth_error_set_nth.
      destruct (Nat.eqb j idx) eqn:E; [apply Nat.eqb_eq in E; lia|]. now apply v_infos.
Qed.

(** the altered hop / info field as it is in the altered packet *)
Definition hq : Router.hop :=
  if is_hop_field f then tamper_hop f v (rhop (hop p d)) else rhop (hop p d).
Definition iq (ki : nat) (mid : bool) : info :=
  if is_hop_field f then rinfo p ki mid (js d) else tamper_info f v (rinfo p 0 false (js d)).

Lemma qt_hop : nth_error (p_hops qt) d = Some hq.
Proof.
  pose proof d_lt as Dl. unfold qt, tamper, q0, hq, d, depends_on in *.
  destruct (is_hop_field f) eqn:Hf.
  - assert (E : nth_error (p_hops (render p pp 0 false)) idx = Some (rhop (hop p idx)))
      by (rewrite <- nthN_of_nat; now apply hop_render).
    rewrite E. cbn [with_hops p_hops]. rewrite nth_error_set_nth, Nat.eqb_refl, E. reflexivity.
  - destruct (nth_error (p_infos (render p pp 0 false)) idx); cbn [with_infos p_hops];
      rewrite <- nthN_of_nat; now apply hop_render.
Qed.

Lemma qt_info ki mid : is_hop_field f = false -> nth_error (p_infos qt) (js d) = Some (iq ki mid).
Proof.
  intros Hf. destruct (d_info Hf) as [Jd _]. pose proof idx_range as R. rewrite Hf in R.
  unfold qt, tamper, q0, iq. rewrite Hf, Jd.
  assert (E : nth_error (p_infos (render p pp 0 false)) idx = Some (rinfo p 0 false idx))
    by (rewrite <- nthN_of_nat; now apply info_render).
  rewrite E. cbn [with_infos p_infos]. rewrite nth_error_set_nth, Nat.eqb_refl, E. reflexivity.
Qed.

(** what [changed] says about the altered field *)
Lemma hq_changed : is_hop_field f = true ->
  (h_mac hq, h_exp hq, h_in hq, h_eg hq) <>
  (ph_mac (hop p d), ph_exp (hop p d), ph_in (hop p d), ph_eg (hop p d)).
Proof.
  intros Hf X. pose proof d_lt as Dl. unfold changed, q0 in Hch. rewrite Hf in Hch.
  unfold d, depends_on in *. rewrite Hf in *.
  assert (E : nth_error (p_hops (render p pp 0 false)) idx = Some (rhop (hop p idx)))
    by (rewrite <- nthN_of_nat; now apply hop_render).
  rewrite E in Hch.
  apply negb_true_iff in Hch. unfold hq in X. rewrite Hf in X.
  inversion X as [[A B C D]]. unfold hop_eqb in Hch.
  destruct f; try discriminate; cbn [tamper_hop rhop h_mac h_exp h_in h_eg h_ialert h_ealert h_rsv] in *;
    rewrite ?A, ?B, ?C, ?D, ?N.eqb_refl, ?list_eqb_N_refl in Hch; cbn in Hch; discriminate.
Qed.

Lemma iq_changed ki mid : is_hop_field f = false ->
  (i_segid (iq ki mid), i_ts (iq ki mid)) <> (beta p d, sg_ts (hdr p d)).
Proof.
  intros Hf X. destruct (d_info Hf) as [Jd Fd]. pose proof idx_range as R. rewrite Hf in R.
  pose proof d_lt as Dl.
  unfold changed, q0 in Hch. rewrite Hf in Hch.
  assert (E : nth_error (p_infos (render p pp 0 false)) idx = Some (rinfo p 0 false idx))
    by (rewrite <- nthN_of_nat; now apply info_render).
  rewrite E in Hch.
  apply negb_true_iff in Hch. unfold iq in X. rewrite Hf, Jd in X.
  assert (S0 : sid p idx 0 false = beta p d).
  { pose proof (n_ge2 _ _ _ HG) as N2. destruct (first_0 p HP HT ltac:(lia)) as [F0 J0].
    assert (Dd : d = seg_start (lens p) idx) by (unfold d, depends_on; now rewrite Hf).
    rewrite Dd. destruct (Nat.eq_dec idx 0) as [Ei|Ei].
    - rewrite Ei. rewrite seg_start_0. rewrite <- J0 at 1.
      rewrite (sid_cur_arrive p Hs 0 ltac:(lia)). now rewrite F0, orb_true_r.
    - now rewrite (sid_after p Hs idx 0 false) by (try lia; rewrite J0; lia). }
  assert (T0 : sg_ts (nth idx (pv_segs p) dseg) = sg_ts (hdr p d)) by (unfold hdr; now rewrite Jd).
  inversion X as [[A B]]. unfold info_eqb in Hch.
  destruct f; try discriminate; cbn [tamper_info rinfo i_peer i_consdir i_segid i_ts i_rsv] in *;
    rewrite ?S0, ?T0, ?A, ?B, ?N.eqb_refl, ?eqb_reflx in Hch; cbn in Hch; discriminate.
Qed.

(** * The AS of the first dependent hop *)
Definition arrive_state (k : nat) : Prop := k = 0%nat \/ crosses p (k - 1) = true.

Lemma seg_len2 k : (k < n)%nat -> sg_peer (hdr p k) = false -> (2 <= sg_len (hdr p k))%nat.
Proof.
  intros Hk P. destruct (shape_parts p Hs) as (_ & _ & _ & Fa). rewrite Forall_forall in Fa.
  destruct (Fa (hdr p k)) as [_ [X|X]]; [|congruence|assumption].
  unfold hdr. apply nth_In. apply (js_lt p Hs). assumption.
Qed.

Lemma kd_facts :
  (kd <= d)%nat /\ (kd < n)%nat /\ arrive_state kd /\
  (kd = d \/ (d = S kd /\ crosses p kd = false /\ (S kd < n)%nat)).
Proof.
  pose proof d_lt as Dl. unfold kd, ForwardStep.entry, arrive_state.
  destruct (is_first p d && negb (peerhop p d)) eqn:X.
  - apply andb_true_iff in X as [F Ph]. apply negb_true_iff in Ph.
    destruct d as [|d'] eqn:Ed.
    + cbn [Nat.sub]. repeat split; try lia; auto.
    + replace (S d' - 1)%nat with d' by lia.
      assert (C : crosses p d' = false).
      { destruct (crosses p d') eqn:C; [|reflexivity].
        destruct (arrive_first _ _ _ HG d' Dl C F) as (_ & _ & _ & _ & _ & Ph' & _). congruence. }
      destruct (after_junction mac t now p pp HG Hep Hexp d' Dl C) as (_ & _ & _ & _ & L & _ & K1).
      repeat split; try lia.
      * right. unfold crosses in C. apply orb_false_iff in C as [_ P].
        pose proof (seg_len2 d' ltac:(lia) P) as L2.
        unfold is_last in L. apply Nat.eqb_eq in L.
        destruct d' as [|d'']; [lia|]. replace (S d'' - 1)%nat with d'' by lia.
        destruct (is_first p (S d'')) eqn:F1.
        { unfold is_first in F1. apply Nat.eqb_eq in F1. lia. }
        destruct (prev_same p HP HT d'' ltac:(lia) F1) as (Ll & _). unfold crosses. now rewrite Ll.
  - repeat split; try lia.
    destruct d as [|d'] eqn:Ed; [now left|right]. replace (S d' - 1)%nat with d' by lia.
    apply andb_false_iff in X as [F|Ph].
    + destruct (prev_same p HP HT d' Dl F) as (Ll & _). unfold crosses. now rewrite Ll.
    + apply negb_false_iff in Ph. unfold peerhop in Ph. apply andb_true_iff in Ph as [P _].
      unfold crosses. rewrite (peer_same p Hs d' (S d')) by lia. now rewrite P, orb_true_r.
Qed.

(** routers before that AS touch neither the altered hop field nor the altered info field *)
Lemma safe k : (k < kd)%nat -> arrive_state k ->
  (S k < n)%nat /\ (eff k < lim)%nat /\ (js (eff k) < jlim)%nat /\ (S (eff k) <= kd)%nat.
Proof.
  intros Hk Ak. destruct kd_facts as (Kd & Kn & Akd & _). pose proof d_lt as Dl.
  assert (Hn : (S k < n)%nat) by lia.
  assert (E : (eff k < kd)%nat /\ (S (eff k) <= kd)%nat).
  { unfold ForwardStep.eff. destruct (crosses p k) eqn:C; cbn [orb]; [lia|].
    replace (Nat.eqb (S k) n) with false by (symmetry; apply Nat.eqb_neq; lia).
    assert (kd <> S k).
    { intros X. destruct Akd as [A|A]; [lia|]. rewrite X in A. replace (S k - 1)%nat with k in A by lia. congruence. }
    lia. }
  destruct E as [E1 E2]. split; [exact Hn|]. split; [|split; [|exact E2]].
  - unfold lim. destruct (is_hop_field f) eqn:Hf; [|lia].
    assert (d = idx) by (unfold d, depends_on; now rewrite Hf). lia.
  - unfold jlim. destruct (is_hop_field f) eqn:Hf; [apply (js_lt p Hs); lia|].
    pose proof idx_range as R. rewrite Hf in R.
    apply seg_idx_before; [rewrite lens_length; lia|].
    assert (d = seg_start (lens p) idx) by (unfold d, depends_on; now rewrite Hf). lia.
Qed.

Definition start_rtr (k : nat) (r : N) : Prop :=
  (k = 0%nat -> r = eg_rtr (eff k)) /\ ((1 <= k)%nat -> r = in_rtr k).

Definition arr_ing (k : nat) (ing : ingress) : Prop := arrives k ing.

(** the walk up to the AS of the first dependent hop is the valid walk *)
Lemma walk_prefix : forall m k fu q ing r,
  (kd - k <= m)%nat -> (k <= kd)%nat -> View q k k false -> arrives k ing -> start_rtr k r ->
  frame jlim qt q -> (2 * (kd - k) + 1 <= fu)%nat ->
  exists tr0 qd ingd rd fd,
    run_fuel macq t now fu (mkLoc (ia p k) r ing) q =
      (let '(tr, fin) := run_fuel macq t now (S fd) (mkLoc (ia p kd) rd ingd) qd in (tr0 ++ tr, fin)) /\
    View qd kd kd false /\ arrives kd ingd /\ start_rtr kd rd /\ frame jlim qt qd /\
    Forall (fun x => exists j, (j <= kd)%nat /\ t_ia (fst x) = ia p j) tr0.
Proof.
  induction m as [|m IH]; intros k fu q ing r Hm Hk V Ha Hr Fr Hf.
  - assert (k = kd) by lia. subst k. destruct fu as [|fu]; [lia|].
    exists [], q, ing, r, fu. cbn [app]. split.
    + destruct (run_fuel macq t now (S fu) (mkLoc (ia p kd) r ing) q). reflexivity.
    + split; [exact V|]. split; [exact Ha|]. split; [exact Hr|]. split; [exact Fr|constructor].
  - destruct (Nat.eq_dec k kd) as [->|Ne].
    { destruct fu as [|fu]; [lia|]. exists [], q, ing, r, fu. cbn [app]. split.
      - destruct (run_fuel macq t now (S fu) (mkLoc (ia p kd) r ing) q). reflexivity.
      - split; [exact V|]. split; [exact Ha|]. split; [exact Hr|]. split; [exact Fr|constructor]. }
    assert (Hlt : (k < kd)%nat) by lia.
    assert (Ak : arrive_state k).
    { destruct Ha as [[-> _]|(K1 & C & _)]; [now left|now right]. }
    destruct (safe k Hlt Ak) as (Hn & Sl & Sj & Se).
    destruct fu as [|fu]; [lia|].
    destruct Hr as [H0 H1].
    destruct (run_arrive mac t now p pp HG Hep Hexp lim jlim fu q k ing r V Hn Sl Sj Ha H0)
      as (q' & st & Tia & Ting & Teg & Trt & Hn' & C & Iae & Frq & Rest).
    assert (Arr' : arrives (S (eff k)) (InExt (tr_in p (S (eff k))))).
    { right. replace (S (eff k) - 1)%nat with (eff k) by lia. repeat split; [lia|assumption]. }
    assert (Sr' : start_rtr (S (eff k)) (in_rtr (S (eff k)))).
    { split; [intros; lia|reflexivity]. }
    assert (El : (k <= eff k)%nat).
    { unfold ForwardStep.eff. destruct (crosses p k || Nat.eqb (S k) n); lia. }
    destruct (eg_rtr (eff k) =? r)%N eqn:Ow.
    + destruct Rest as (Text & Vq & Er).
      destruct (IH (S (eff k)) fu q' _ _ ltac:(lia) Se Vq Arr' Sr' (frame_trans _ _ _ _ Fr Frq) ltac:(lia))
        as (tr0 & qd & ingd & rd & fd & Er' & Vd & Ad & Sd & Frd & Tr).
      exists ((st, q') :: tr0), qd, ingd, rd, fd.
      split.
      * rewrite Er. unfold ext_loc. rewrite Er'.
        destruct (run_fuel macq t now (S fd) (mkLoc (ia p kd) rd ingd) qd). reflexivity.
      * split; [exact Vd|]. split; [exact Ad|]. split; [exact Sd|]. split; [exact Frd|].
        constructor; [|exact Tr]. exists k. split; [lia|exact Tia].
    + destruct Rest as (Text & Vq & Er).
      assert (K1 : (1 <= k)%nat).
      { destruct k; [|lia]. rewrite <- (H0 eq_refl) in Ow. rewrite N.eqb_refl in Ow. discriminate. }
      pose proof Ha as Ha'. destruct Ha' as [[-> _]|(_ & Cp & Eing)]; [lia|].
      rewrite (H1 K1) in *.
      destruct fu as [|fu]; [lia|].
      assert (En : entry (eff k) = k).
      { unfold ForwardStep.eff in *. destruct (crosses p k) eqn:Ck; cbn [orb] in *.
        - apply (entry_same mac t now p pp HG Hep Hexp); [exact K1|lia|exact Cp].
        - replace (Nat.eqb (S k) n) with false in * by (symmetry; apply Nat.eqb_neq; lia).
          apply (entry_junction mac t now p pp HG Hep Hexp); [lia|exact Ck]. }
      assert (As0 : asof k = asof (eff k)) by (unfold as_of; now rewrite Iae).
      assert (Hne : in_rtr k <> eg_rtr (eff k)).
      { intros X. rewrite X, N.eqb_refl in Ow. discriminate. }
      destruct (run_mid mac t now p pp HG Hep Hexp lim jlim fu q' (eff k) k Vq Hn' C Sl Sj En K1 Cp As0 Hne)
        as (q2 & st2 & Tia2 & Ting2 & Teg2 & Text2 & Vq2 & Frq2 & Er2).
      rewrite <- Iae in Er. rewrite Er2 in Er.
      destruct (IH (S (eff k)) fu q2 _ _ ltac:(lia) Se Vq2 Arr' Sr'
                  (frame_trans _ _ _ _ (frame_trans _ _ _ _ Fr Frq) Frq2) ltac:(lia))
        as (tr0 & qd & ingd & rd & fd & Er' & Vd & Ad & Sd & Frd & Tr).
      exists ((st, q') :: (st2, q2) :: tr0), qd, ingd, rd, fd.
      split.
      * rewrite Iae in Er. rewrite Er. unfold ext_loc. rewrite Er'.
        destruct (run_fuel macq t now (S fd) (mkLoc (ia p kd) rd ingd) qd). reflexivity.
      * split; [exact Vd|]. split; [exact Ad|]. split; [exact Sd|]. split; [exact Frd|].
        constructor; [exists k; split; [lia|exact Tia]|].
        constructor; [exists (eff k); split; [lia|exact Tia2]|exact Tr].
Qed.

(** * The forgery event *)

(** The router of the AS owning hop [d] accepted the MAC carried by the altered packet for
    hop [d] although the input it verified it against — SegID [s'], timestamp [ts'] and
    the hop's expiry and interfaces as carried — is not the input the AS created the hop
    field with.  [s'] is the SegID the router computes: beta itself, the altered SegID, or
    beta with the original MAC prefix replaced by the carried one. *)
Definition forged : Prop :=
  exists s' ts',
    h_mac hq = mac (a_key (asof d)) s' ts' (h_exp hq) (h_in hq) (h_eg hq) /\
    (s', ts', h_exp hq, h_in hq, h_eg hq) <>
      (beta p d, sg_ts (hdr p d), ph_exp (hop p d), ph_in (hop p d), ph_eg (hop p d)) /\
    ts' = (if is_hop_field f then sg_ts (hdr p d) else i_ts (iq 0 false)) /\
    (s' = beta p d \/ (is_hop_field f = false /\ s' = i_segid (iq 0 false)) \/
     s' = N.lxor (N.lxor (beta p d) (sigma p d)) (mac_prefix (h_mac hq))).

Lemma forged_hop s' : is_hop_field f = true ->
  h_mac hq = mac (a_key (asof d)) s' (sg_ts (hdr p d)) (h_exp hq) (h_in hq) (h_eg hq) ->
  (s' = beta p d \/ s' = N.lxor (N.lxor (beta p d) (sigma p d)) (mac_prefix (h_mac hq))) ->
  forged.
Proof.
  intros Hf M S. exists s', (sg_ts (hdr p d)). split; [exact M|]. rewrite Hf.
  split; [|split; [reflexivity|destruct S; auto]].
  intros X. inversion X as [[A B C D]]. apply (hq_changed Hf).
  rewrite M, A, B, C, D. now rewrite <- (mac_fact _ _ _ HG d d_lt).
Qed.

Lemma forged_info : is_hop_field f = false ->
  ph_mac (hop p d) = mac (a_key (asof d)) (i_segid (iq 0 false)) (i_ts (iq 0 false))
                         (ph_exp (hop p d)) (ph_in (hop p d)) (ph_eg (hop p d)) ->
  forged.
Proof.
  intros Hf M. exists (i_segid (iq 0 false)), (i_ts (iq 0 false)).
  unfold hq. rewrite Hf. cbn [rhop h_mac h_exp h_in h_eg].
  split; [exact M|]. split; [|split; [reflexivity|right; left; auto]].
  intros X. inversion X as [[A B]]. apply (iq_changed 0 false Hf). now rewrite A, B.
Qed.

(** * The router of the dependent AS *)
Lemma run_stop fu l a q r :
  find_as t (l_ia l) = Some a ->
  process_scion (macq (a_key a)) (cfg_of a (l_rtr l)) now (l_ing l) q = r ->
  (forall e o dd, r <> Forward e o dd) -> okres r ->
  run_fuel macq t now (S fu) l q = ([], Stopped (a_ia a) (l_rtr l) (stop_of r)).
Proof.
  intros Fa Er Nf Ok. cbn [run_fuel]. rewrite Fa, Er.
  destruct r; try reflexivity; try (exfalso; exact Ok). exfalso. eapply Nf. reflexivity.
Qed.

Lemma view_wf q k ki mid : View q k ki mid -> well_formed q = true.
Proof.
  intros V. pose proof (view_meta p pp _ _ _ _ _ _ false V) as M.
  unfold well_formed. rewrite (num_inf_meta _ _ M), (num_hops_meta _ _ M).
  rewrite (num_inf_render p pp Hs), (num_hops_render p pp Hs).
  rewrite (v_ilen _ _ _ _ _ _ _ _ V), (v_hlen _ _ _ _ _ _ _ _ V). lia.
Qed.

(** [peering_of] on a packet in view *)
Lemma peering_view q k mid : View q k k mid -> (k < n)%nat -> (js k < jlim)%nat -> peering_of q = peerhop p k.
Proof.
  intros V Hk Hj. unfold peering_of.
  rewrite (v_ci _ _ _ _ _ _ _ _ V), nthN_of_nat, (v_infos _ _ _ _ _ _ _ _ V) by (assumption || apply (js_lt p Hs); assumption).
  unfold rinfo at 1. cbn [i_peer]. rewrite <- hdr_nth.
  destruct (sg_peer (hdr p k)) eqn:P.
  - destruct (peering_formula p Hs k Hk P) as (F & _).
    rewrite (v_ch _ _ _ _ _ _ _ _ V), (v_s0 _ _ _ _ _ _ _ _ V). cbn [andb]. exact F.
  - unfold peerhop. now rewrite P.
Qed.

Lemma iq_consdir ki mid : i_consdir (iq ki mid) = cons p d.
Proof. unfold iq. destruct (is_hop_field f); [reflexivity|]. destruct f; reflexivity. Qed.

Lemma lxor_move a b c : N.lxor a b = c -> a = N.lxor c b.
Proof. intros <-. now rewrite N.lxor_assoc, N.lxor_nilpotent, N.lxor_0_r. Qed.

(** the dependent hop is current on arrival *)
Lemma dep_A qd ingd rd e o dd :
  kd = d -> View qd d d false -> arrives d ingd -> frame jlim qt qd ->
  process_scion (macq (a_key (asof d))) (cfg_of (asof d) rd) now ingd qd = Forward e o dd -> forged.
Proof.
  intros Ekd V Ha [Fh Fi] H. pose proof d_lt as Dl.
  change (macq (a_key (asof d))) with (Proofs.Router.total (mac (a_key (asof d)))) in H.
  apply Proofs.Router.forward_sound in H as (i & h & Ci & Ch & Mv & _).
  unfold cur_hop in Ch. rewrite (v_ch _ _ _ _ _ _ _ _ V), nthN_of_nat, Fh, qt_hop in Ch.
  inversion Ch; subst h. clear Ch.
  pose proof (arrives_from0 mac t now p pp HG Hep Hexp d ingd Dl Ha) as F0. unfold from0 in F0.
  unfold cur_inf in Ci. rewrite (v_ci _ _ _ _ _ _ _ _ V), nthN_of_nat in Ci.
  unfold mac_valid, verif_info in Mv.
  destruct (is_hop_field f) eqn:Hf.
  - assert (Jl : (js d < jlim)%nat) by (unfold jlim; rewrite Hf; apply (js_lt p Hs); exact Dl).
    rewrite (v_infos _ _ _ _ _ _ _ _ V) in Ci by (assumption || apply (js_lt p Hs); assumption).
    inversion Ci; subst i. clear Ci.
    rewrite (peering_view qd d false V Dl Jl), F0 in Mv. rewrite (rinfo_consdir p d d false) in Mv.
    fold (upd_in p d) in Mv.
    assert (Hc : d = 0%nat \/ crosses p (d - 1) = true).
    { destruct Ha as [[-> _]|(_ & C & _)]; auto. }
    pose proof (arrive_beta _ _ _ HG d Dl Hc) as AB.
    destruct (upd_in p d).
    + apply lxor_move in AB. unfold upd_segid in Mv. cbn [i_segid i_ts] in Mv.
      rewrite (rinfo_segid p (js d) d false), AB, (rinfo_ts p d d false) in Mv.
      apply (forged_hop _ Hf Mv). now right.
    + rewrite (rinfo_segid p (js d) d false), AB, (rinfo_ts p d d false) in Mv.
      apply (forged_hop _ Hf Mv). now left.
  - destruct (d_info Hf) as [Jd Fd].
    assert (Jl : (jlim <= js d)%nat) by (unfold jlim; rewrite Hf; lia).
    rewrite (Fi _ Jl), (qt_info 0 false Hf) in Ci. inversion Ci; subst i. clear Ci.
    rewrite iq_consdir in Mv.
    assert (NF : negb (cons p d) && negb (ing_ifid ingd =? 0)%N = false).
    { destruct Ha as [[E0 ->]|(K1 & C & ->)]; [now rewrite andb_false_r|].
      destruct d as [|d'] eqn:Ed; [lia|]. replace (S d' - 1)%nat with d' in C by lia.
      destruct (arrive_first _ _ _ HG d' Dl C Fd) as (_ & _ & _ & Cd & _). now rewrite Cd. }
    rewrite NF in Mv. cbn [andb] in Mv.
    apply (forged_info Hf). unfold hq in Mv. rewrite Hf in Mv. exact Mv.
Qed.

(** the dependent hop becomes current at an effective segment change *)
Lemma dep_B qd ingd rd e o dd :
  d = S kd -> crosses p kd = false -> (S kd < n)%nat ->
  View qd kd kd false -> arrives kd ingd -> frame jlim qt qd ->
  process_scion (macq (a_key (asof kd))) (cfg_of (asof kd) rd) now ingd qd = Forward e o dd -> forged.
Proof.
  intros Ed C Hn V Ha [Fh Fi] H. pose proof d_lt as Dl.
  destruct (after_junction mac t now p pp HG Hep Hexp kd Hn C) as (C1 & N3 & Ph1 & Ph & L & J & K1).
  destruct Ha as [[E0 _]|(_ & Cp & Eing)]; [lia|].
  destruct (types_xover _ _ _ HG kd K1 ltac:(lia) Hn Cp C) as (_ & Iax).
  assert (As1 : asof d = asof kd) by (rewrite Ed; unfold as_of; now rewrite Iax).
  destruct (as_of_ok _ _ _ HG kd ltac:(lia)) as [Ak Ik].
  assert (Jk : (js kd < jlim)%nat).
  { unfold jlim. destruct (is_hop_field f) eqn:Hf; [apply (js_lt p Hs); lia|].
    destruct (d_info Hf) as [Jd _]. rewrite Ed, J in Jd. lia. }
  change (macq (a_key (asof kd))) with (Proofs.Router.total (mac (a_key (asof kd)))) in H.
  apply Proofs.Router.forward_sound in H as (_ & _ & _ & _ & _ & _ & X).
  destruct X as (i' & h' & Ci & Ch & Mv & _).
  - rewrite (v_dst_ia _ _ _ _ _ _ _ _ V). cbn [cfg_of c_ia]. rewrite Ik.
    pose proof Hep as E. unfold endpoints_ok in E.
    apply andb_true_iff in E as [E _]. apply andb_true_iff in E as [E _].
    apply andb_true_iff in E as [_ Edd]. apply N.eqb_eq in Edd. rewrite Edd.
    intros Y. apply (ia_not_dst _ _ _ HG kd Hn). now symmetry.
  - unfold eff_xover. rewrite (peering_view qd kd false V ltac:(lia) Jk), Ph.
    rewrite (is_xover_meta _ _ (view_meta p pp _ _ _ _ _ _ false V)), (is_xover_render p pp Hs kd false ltac:(lia)).
    replace (Nat.eqb (S kd) n) with false by (symmetry; apply Nat.eqb_neq; lia). now rewrite L.
  - rewrite (v_ch _ _ _ _ _ _ _ _ V) in Ch.
    replace (N.of_nat kd + 1)%N with (N.of_nat d) in Ch by lia.
    rewrite nthN_of_nat, Fh, qt_hop in Ch. inversion Ch; subst h'. clear Ch.
    rewrite (v_ci _ _ _ _ _ _ _ _ V) in Ci.
    replace (N.of_nat (js kd) + 1)%N with (N.of_nat (js d)) in Ci by (rewrite Ed, J; lia).
    rewrite nthN_of_nat in Ci. unfold mac_valid in Mv. rewrite <- As1 in Mv.
    destruct (is_hop_field f) eqn:Hf.
    + assert (Jl : (js d < jlim)%nat) by (unfold jlim; rewrite Hf; apply (js_lt p Hs); exact Dl).
      rewrite (v_infos _ _ _ _ _ _ _ _ V) in Ci by (assumption || apply (js_lt p Hs); assumption).
      inversion Ci; subst i'. clear Ci.
      rewrite (rinfo_segid p (js d) kd false), (rinfo_ts p d kd false) in Mv.
      destruct (step_next p HP HT kd Hn L) as (_ & _ & St).
      rewrite (sid_after p Hs (js d) kd false) in Mv by (try lia; try (apply (js_lt p Hs); lia); rewrite Ed, J; lia).
      replace (seg_start (lens p) (js d)) with d in Mv by (rewrite Ed, J; now rewrite St).
      apply (forged_hop _ Hf Mv). now left.
    + destruct (d_info Hf) as [Jd Fd].
      assert (Jl : (jlim <= js d)%nat) by (unfold jlim; rewrite Hf; lia).
      rewrite (Fi _ Jl), (qt_info 0 false Hf) in Ci. inversion Ci; subst i'. clear Ci.
      apply (forged_info Hf). unfold hq in Mv. rewrite Hf in Mv. exact Mv.
Qed.

(** the altered packet carries either the original MAC of hop [d] or its original
    expiry and interfaces *)
Lemma hq_cases :
  h_mac hq = ph_mac (hop p d) \/
  (is_hop_field f = true /\ h_exp hq = ph_exp (hop p d) /\ h_in hq = ph_in (hop p d) /\ h_eg hq = ph_eg (hop p d)).
Proof. unfold hq. destruct f; cbn; auto. Qed.

Lemma iq_hop ki mid : is_hop_field f = true -> iq ki mid = rinfo p ki mid (js d).
Proof. intros Hf. unfold iq. now rewrite Hf. Qed.

Lemma hq_info : is_hop_field f = false -> hq = rhop (hop p d).
Proof. intros Hf. unfold hq. now rewrite Hf. Qed.

(** * The reduction *)
Lemma mem_upto j : (j <= d)%nat -> memN2 (ia p j) (ases_upto p d) = true.
Proof.
  intros Hj. unfold memN2, ases_upto. apply existsb_exists. exists (ia p j). split; [|apply N.eqb_refl].
  apply in_map. unfold range. apply in_seq. lia.
Qed.

Theorem tamper_reduction :
  c04_ok p f idx (walk_from macq t now q0 qt) = true \/ forged.
Proof.
  pose proof (n_ge2 _ _ _ HG) as N2. pose proof d_lt as Dl.
  destruct kd_facts as (Kd & Kn & Akd & Kcase).
  unfold walk_from, q0. rewrite (start_loc_render mac t now p pp HG Hep Hexp). fold q0.
  unfold forward, run.
  assert (Fu : fuel_for qt = (2 * n + 2)%nat).
  { unfold fuel_for. rewrite (num_hops_meta _ _ (view_meta p pp _ _ _ _ _ _ false tamper_view)).
    rewrite (num_hops_render p pp Hs). now rewrite Nat2N.id. }
  rewrite Fu.
  destruct (walk_prefix kd 0 (2 * n + 2) qt InInt (eg_rtr 0))
    as (tr0 & qd & ingd & rd & fd & Er & Vd & Ad & Sd & Frd & Tr).
  - lia.
  - lia.
  - apply tamper_view.
  - left. auto.
  - split; [intros _; now rewrite (eff_0 mac t now p pp HG Hep Hexp)|intros; lia].
  - apply frame_refl.
  - lia.
  - rewrite Er. clear Er.
    destruct (as_of_ok _ _ _ HG kd Kn) as [Ak Ik].
    set (l := mkLoc (ia p kd) rd ingd).
    destruct (process_scion (macq (a_key (asof kd))) (cfg_of (asof kd) (l_rtr l)) now (l_ing l) qd) as
      [| | |e o dd|rq e o| |] eqn:Ep.
    5:{ (* SlowPath *)
        left. rewrite (run_stop fd l (asof kd) qd _ Ak Ep) by (try discriminate; exact I).
        cbn [fst snd]. rewrite app_nil_r. unfold c04_ok. cbv zeta. fold d. cbn [fst snd]. rewrite Ik.
        rewrite (mem_upto kd Kd), andb_true_r.
        apply forallb_forall. intros s Hin. apply in_map_iff in Hin as (x & <- & Hx).
        rewrite Forall_forall in Tr. destruct (Tr x Hx) as (j & Hj & ->). apply mem_upto. lia. }
    4:{ (* Forward: the router accepted a forged MAC *)
        right. destruct Kcase as [E|(E & C & Hn)].
        - rewrite E in *. eapply dep_A; eauto.
        - eapply dep_B; eauto. }
    1-3: left; rewrite (run_stop fd l (asof kd) qd _ Ak Ep) by (try discriminate; exact I);
      cbn [fst snd]; rewrite app_nil_r; unfold c04_ok; cbv zeta; fold d; cbn [fst snd]; rewrite Ik;
      rewrite (mem_upto kd Kd), andb_true_r;
      apply forallb_forall; intros s Hin; apply in_map_iff in Hin as (x & <- & Hx);
      rewrite Forall_forall in Tr; destruct (Tr x Hx) as (j & Hj & ->); apply mem_upto; lia.
    all: exfalso; pose proof (process_sok (macq (a_key (asof kd))) ltac:(discriminate)
           (cfg_of (asof kd) (l_rtr l)) now (l_ing l) qd (view_wf qd kd kd false Vd)) as Ok;
         rewrite Ep in Ok; exact Ok.
Qed.

End Tamper.
