(** The declarative relation [valid_combination] and its enumerator
    [all_combinations] (Model/CombSpec.v) describe the same set. *)
From Coq Require Import List NArith Bool Arith Lia.
From Scion Require Import Lib.Check Model.Segment Model.CombSpec.
Import ListNotations.
Import Segment CombSpec.
Local Open Scope N_scope.

Lemma in_enum' {A} (l : list A) i a : In (i, a) (enum l) <-> nth_error l i = Some a.
Proof.
  unfold enum.
  assert (G : forall (l : list A) s i a, In (i, a) (combine (seq s (length l)) l) <->
                (s <= i)%nat /\ nth_error l (i - s) = Some a).
  { clear. induction l as [|x l IH]; intros s i a; cbn [length seq combine].
    - split; [intros [] | intros [_ H]; destruct (i - s)%nat; discriminate].
    - cbn [In]. rewrite IH. split.
      + intros [E | [L H]].
        * inversion E; subst. split; [lia|]. now rewrite Nat.sub_diag.
        * split; [lia|]. replace (i - s)%nat with (S (i - S s)) by lia. exact H.
      + intros [L H]. destruct (Nat.eq_dec s i) as [->|N].
        * left. rewrite Nat.sub_diag in H. cbn in H. now inversion H.
        * right. split; [lia|]. replace (i - s)%nat with (S (i - S s)) in H by lia. exact H. }
  rewrite G. rewrite Nat.sub_0_r. split; [now intros [_ H] | intros H; split; [lia | exact H]].
Qed.

Lemma plink_eqb_eq a b : plink_eqb a b = true <-> a = b.
Proof.
  destruct a as [[[a1 a2] a3] a4], b as [[[b1 b2] b3] b4]. cbn.
  rewrite !andb_true_iff, !N.eqb_eq. split.
  - intros [[[-> ->] ->] ->]. reflexivity.
  - intros E. inversion E. auto.
Qed.

Lemma in_up_pieces u p : In p (up_pieces u) <-> up_piece u p.
Proof.
  unfold up_pieces. rewrite in_flat_map. split.
  - intros [[i c] [H1 H2]]. apply in_enum' in H1.
    destruct (Nat.ltb_spec (S i) (length (sg_entries u))); [|destruct H2].
    destruct H2 as [<-|[]]. now constructor.
  - intros H. inversion H as [i c Hc Hl]; subst. exists (i, c). split; [now apply in_enum'|].
    destruct (Nat.ltb_spec (S i) (length (sg_entries u))); [now left | lia].
Qed.

Lemma in_core_pieces c p : In p (core_pieces c) <-> core_piece c p.
Proof.
  unfold core_pieces. split.
  - intros H. destruct (sg_entries c) eqn:E; [destruct H|]. destruct H as [<-|[]].
    rewrite <- E. constructor. rewrite E. discriminate.
  - intros H. inversion H as [Hne]; subst. destruct (sg_entries c); [contradiction | now left].
Qed.

Lemma in_down_pieces d p : In p (down_pieces d) <-> down_piece d p.
Proof.
  unfold down_pieces. rewrite in_flat_map. split.
  - intros [[i c] [H1 H2]]. apply in_enum' in H1.
    destruct (Nat.ltb_spec (S i) (length (sg_entries d))); [|destruct H2].
    destruct H2 as [<-|[]]. now constructor.
  - intros H. inversion H as [i c Hc Hl]; subst. exists (i, c). split; [now apply in_enum'|].
    destruct (Nat.ltb_spec (S i) (length (sg_entries d))); [now left | lia].
Qed.

Lemma in_up_halves u x : In x (up_halves u) <-> up_half u x.
Proof.
  unfold up_halves. rewrite in_flat_map. split.
  - intros [[i c] [H1 H2]]. apply in_enum' in H1. apply in_map_iff in H2 as [p [<- Hp]].
    apply In_nth_error in Hp as [k Hk]. econstructor; eauto.
  - intros H. inversion H as [i c k p Hc Hp]; subst. exists (i, c). split; [now apply in_enum'|].
    apply in_map_iff. exists p. split; [reflexivity | eapply nth_error_In; exact Hp].
Qed.

Lemma in_down_halves d x : In x (down_halves d) <-> down_half d x.
Proof.
  unfold down_halves. rewrite in_flat_map. split.
  - intros [[i c] [H1 H2]]. apply in_enum' in H1. apply in_map_iff in H2 as [p [<- Hp]].
    apply In_nth_error in Hp as [k Hk]. econstructor; eauto.
  - intros H. inversion H as [i c k p Hc Hp]; subst. exists (i, c). split; [now apply in_enum'|].
    apply in_map_iff. exists p. split; [reflexivity | eapply nth_error_In; exact Hp].
Qed.

Lemma in_fm_pieces {S P} (f : S -> list P) (R : S -> P -> Prop) l p :
  (forall s p, In p (f s) <-> R s p) ->
  (In p (flat_map f l) <-> exists s, In s l /\ R s p).
Proof.
  intros H. rewrite in_flat_map. split; intros [s [H1 H2]]; exists s; split; auto; now apply H.
Qed.

Ltac unpack :=
  repeat match goal with
  | H : _ /\ _ |- _ => destruct H
  | H : exists _, _ |- _ => destruct H
  | H : In _ (filter _ _) |- _ => apply filter_In in H
  | H : In _ (map _ _) |- _ => apply in_map_iff in H
  | H : In _ (flat_map up_pieces _) |- _ => apply (in_fm_pieces _ _ _ _ in_up_pieces) in H
  | H : In _ (flat_map core_pieces _) |- _ => apply (in_fm_pieces _ _ _ _ in_core_pieces) in H
  | H : In _ (flat_map down_pieces _) |- _ => apply (in_fm_pieces _ _ _ _ in_down_pieces) in H
  | H : In _ (flat_map up_halves _) |- _ => apply (in_fm_pieces _ _ _ _ in_up_halves) in H
  | H : In _ (flat_map down_halves _) |- _ => apply (in_fm_pieces _ _ _ _ in_down_halves) in H
  | H : In _ (flat_map _ _) |- _ => apply in_flat_map in H
  | H : (_ && _) = true |- _ => apply andb_true_iff in H
  | H : (_ =? _) = true |- _ => apply N.eqb_eq in H
  | H : plink_eqb _ _ = true |- _ => apply plink_eqb_eq in H
  end.

Theorem all_combinations_sound ups cores downs src dst ifs :
  In ifs (all_combinations ups cores downs src dst) -> valid_combination ups cores downs src dst ifs.
Proof.
  unfold all_combinations. rewrite !in_app_iff.
  intros [H|[H|[H|[H|[H|[H|[H|H]]]]]]]; unpack; subst.
  - eapply VC_up; eauto.
  - eapply VC_core; eauto.
  - eapply VC_down; eauto.
  - eapply VC_up_core; eauto.
  - eapply VC_up_down; eauto.
  - eapply VC_core_down; eauto.
  - eapply VC_up_core_down; eauto.
  - eapply VC_peering; eauto.
Qed.

Ltac pack :=
  repeat match goal with
  | |- In _ (filter _ _) => apply filter_In; split
  | |- In _ (flat_map up_pieces _) => apply (in_fm_pieces _ _ _ _ in_up_pieces); eexists; split; [eassumption | eassumption]
  | |- In _ (flat_map core_pieces _) => apply (in_fm_pieces _ _ _ _ in_core_pieces); eexists; split; [eassumption | eassumption]
  | |- In _ (flat_map down_pieces _) => apply (in_fm_pieces _ _ _ _ in_down_pieces); eexists; split; [eassumption | eassumption]
  | |- In _ (flat_map up_halves _) => apply (in_fm_pieces _ _ _ _ in_up_halves); eexists; split; [eassumption | eassumption]
  | |- In _ (flat_map down_halves _) => apply (in_fm_pieces _ _ _ _ in_down_halves); eexists; split; [eassumption | eassumption]
  | |- (_ && _) = true => apply andb_true_iff; split
  | |- (_ =? _) = true => apply N.eqb_eq; (assumption || (symmetry; assumption) || reflexivity)
  | |- plink_eqb _ _ = true => apply plink_eqb_eq; assumption
  end.

Theorem all_combinations_complete ups cores downs src dst ifs :
  valid_combination ups cores downs src dst ifs -> In ifs (all_combinations ups cores downs src dst).
Proof.
  unfold all_combinations. rewrite !in_app_iff. intros H.
  destruct H as [u p Hu Hp Hf Ht | c p Hc Hp Hf Ht | d p Hd Hp Hf Ht
                | u p c q Hu Hp Hc Hq Hf Hj Ht | u p d q Hu Hp Hd Hq Hf Hj Ht
                | c p d q Hc Hp Hd Hq Hf Hj Ht
                | u p c q d r Hu Hp Hc Hq Hd Hr Hf Hj1 Hj2 Ht
                | u x d y Hu Hx Hd Hy Hf Hl Ht].
  - left. apply in_map. pack.
  - right; left. apply in_map. pack.
  - right; right; left. apply in_map. pack.
  - right; right; right; left. apply in_flat_map. exists p. split; [pack|].
    apply in_map_iff. exists q. split; [reflexivity|]. pack.
  - right; right; right; right; left. apply in_flat_map. exists p. split; [pack|].
    apply in_map_iff. exists q. split; [reflexivity|]. pack.
  - right; right; right; right; right; left. apply in_flat_map. exists p. split; [pack|].
    apply in_map_iff. exists q. split; [reflexivity|]. pack.
  - right; right; right; right; right; right; left. apply in_flat_map. exists p. split; [pack|].
    apply in_flat_map. exists q. split; [pack|].
    apply in_map_iff. exists r. split; [reflexivity|]. pack.
  - right; right; right; right; right; right; right. apply in_flat_map. exists x. split; [pack|].
    apply in_map_iff. exists y. split; [reflexivity|]. pack.
Qed.

Theorem all_combinations_spec ups cores downs src dst ifs :
  In ifs (all_combinations ups cores downs src dst) <-> valid_combination ups cores downs src dst ifs.
Proof. split; [apply all_combinations_sound | apply all_combinations_complete]. Qed.
