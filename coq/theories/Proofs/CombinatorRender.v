(** Lemmas about traverseSegment's tuples and pathSolution.Path (rendering):
    closed forms for the rendered segment, interfaces, MTU, expiry. *)
From Coq Require Import List NArith Bool Arith Lia.
From Scion Require Import Lib.Check Model.Segment Model.CombSpec Model.Combinator Proofs.CombinatorGraph.
Import ListNotations.
Import Segment Combinator.
Local Open Scope N_scope.

Definition entries (e : edge) : list as_entry := sg_entries (is_seg (e_seg e)).

(** ---- which AddEdge calls are made for a segment ---- *)
Inductive tuple_of (s : inseg) : edge -> Prop :=
| TCore : is_ty s = CoreT ->
    tuple_of s (mkEdge (v_ia (last_ia (is_seg s))) (v_ia (first_ia (is_seg s))) s
                       (N.of_nat (length (sg_entries (is_seg s)) - 1)) 0 0)
| TReg idx a : is_ty s <> CoreT -> nth_error (sg_entries (is_seg s)) idx = Some a ->
    idx <> (length (sg_entries (is_seg s)) - 1)%nat ->
    tuple_of s (mk_tuple s (last_ia (is_seg s)) (length (sg_entries (is_seg s))) idx (v_ia (ae_ia a)) 0)
| TPeer idx a k p : is_ty s <> CoreT -> nth_error (sg_entries (is_seg s)) idx = Some a ->
    nth_error (ae_peers a) k = Some p ->
    tuple_of s (mk_tuple s (last_ia (is_seg s)) (length (sg_entries (is_seg s))) idx
                         (v_peer (ae_ia a) (h_in (pe_hop p)) (pe_ia p) (pe_if p)) (S k)).

Lemma in_entry_tuples s pinned n idx a e :
  In e (entry_tuples s pinned n (idx, a)) <->
  (idx <> (n - 1)%nat /\ e = mk_tuple s pinned n idx (v_ia (ae_ia a)) 0) \/
  (exists k p, nth_error (ae_peers a) k = Some p /\
     e = mk_tuple s pinned n idx (v_peer (ae_ia a) (h_in (pe_hop p)) (pe_ia p) (pe_if p)) (S k)).
Proof.
  unfold entry_tuples. rewrite in_app_iff, in_map_iff. split.
  - intros [H|[[k p] [<- H]]].
    + destruct (Nat.eqb_spec idx (n - 1)); [destruct H|]. destruct H as [<-|[]]. now left.
    + right. apply in_enum in H. exists k, p. cbn. auto.
  - intros [[Hn ->]|[k [p [H ->]]]].
    + left. destruct (Nat.eqb_spec idx (n - 1)); [contradiction | now left].
    + right. exists (k, p). split; [reflexivity | now apply in_enum].
Qed.

Lemma in_seg_tuples s e : In e (seg_tuples s) <-> tuple_of s e.
Proof.
  unfold seg_tuples. destruct (is_ty s) eqn:T.
  - rewrite in_flat_map. split.
    + intros [[idx a] [H1 H2]]. apply in_rev, in_enum in H1.
      apply in_entry_tuples in H2 as [[Hn ->]|[k [p [Hp ->]]]].
      * apply TReg; [congruence | exact H1 | exact Hn].
      * eapply TPeer; [congruence | exact H1 | exact Hp].
    + intros H. inversion H; subst; try congruence.
      * exists (idx, a). split; [now apply in_rev; rewrite rev_involutive; apply in_enum|].
        apply in_entry_tuples. now left.
      * exists (idx, a). split; [now apply in_rev; rewrite rev_involutive; apply in_enum|].
        apply in_entry_tuples. right. eauto.
  - split.
    + intros [<-|[]]. now apply TCore.
    + intros H. inversion H; subst; try congruence. now left.
  - rewrite in_flat_map. split.
    + intros [[idx a] [H1 H2]]. apply in_rev, in_enum in H1.
      apply in_entry_tuples in H2 as [[Hn ->]|[k [p [Hp ->]]]].
      * apply TReg; [congruence | exact H1 | exact Hn].
      * eapply TPeer; [congruence | exact H1 | exact Hp].
    + intros H. inversion H; subst; try congruence.
      * exists (idx, a). split; [now apply in_rev; rewrite rev_involutive; apply in_enum|].
        apply in_entry_tuples. now left.
      * exists (idx, a). split; [now apply in_rev; rewrite rev_involutive; apply in_enum|].
        apply in_entry_tuples. right. eauto.
Qed.

Lemma in_all_tuples segs e : In e (all_tuples segs) <-> exists s, In s segs /\ tuple_of s e.
Proof.
  unfold all_tuples. rewrite in_flat_map. split; intros [s [H1 H2]]; exists s; split; auto;
    now apply in_seg_tuples.
Qed.

Lemma mk_tuple_seg s pinned n idx v k : e_seg (mk_tuple s pinned n idx v k) = s.
Proof. unfold mk_tuple. destruct (is_ty s); reflexivity. Qed.
Lemma mk_tuple_sc s pinned n idx v k : e_sc (mk_tuple s pinned n idx v k) = idx.
Proof. unfold mk_tuple. destruct (is_ty s); reflexivity. Qed.
Lemma mk_tuple_peer s pinned n idx v k : e_peer (mk_tuple s pinned n idx v k) = k.
Proof. unfold mk_tuple. destruct (is_ty s); reflexivity. Qed.

Lemma tuple_seg s e : tuple_of s e -> e_seg e = s.
Proof. intros H. inversion H; subst; cbn; auto using mk_tuple_seg. Qed.

(** ---- a renderable edge: its cut entry and peer entry exist ---- *)
Definition peer_ok (e : edge) (c : as_entry) : Prop :=
  e_peer e = O \/ exists p, nth_error (ae_peers c) (e_peer e - 1) = Some p.

Definition edge_good (e : edge) : Prop :=
  exists c, nth_error (entries e) (e_sc e) = Some c /\ peer_ok e c.

Lemma tuple_good s e : tuple_of s e -> sg_entries (is_seg s) <> [] -> edge_good e.
Proof.
  intros H Hne. unfold edge_good, entries.
  inversion H as [T | idx a T Ha Hn | idx a k p T Ha Hp]; subst e.
  - cbn. destruct (sg_entries (is_seg s)) as [|c t]; [contradiction|]. exists c. split; [reflexivity | now left].
  - rewrite mk_tuple_sc, mk_tuple_seg. exists a. split; [assumption|]. left. apply mk_tuple_peer.
  - rewrite mk_tuple_sc, mk_tuple_seg. exists a. split; [assumption|]. right. rewrite mk_tuple_peer. cbn.
    rewrite Nat.sub_0_r. eauto.
Qed.

(** ---- closed form of the rendering loop ---- *)
Definition reg (a : as_entry) : N * hopf := (ae_ia a, ae_hop a).

Definition cut_hop (e : edge) (c : as_entry) : hopf :=
  match e_peer e with
  | O => ae_hop c
  | S k => match nth_error (ae_peers c) k with Some p => pe_hop p | None => ae_hop c end
  end.

(** interfaces listed for the entry at the cut, against construction direction *)
Definition cut_ifs (e : edge) (c : as_entry) : list iface :=
  nz (ae_ia c) (h_eg (cut_hop e c)) ++
  (if Nat.eqb (e_sc e) 0 || negb (Nat.eqb (e_peer e) 0) then nz (ae_ia c) (h_in (cut_hop e c)) else []).

Definition mtu_reg (m : N) (a : as_entry) : N :=
  N.min (if ae_inmtu a =? 0 then m else N.min m (u16 (ae_inmtu a))) (u16 (ae_mtu a)).

Definition mtu_cut (e : edge) (c : as_entry) (m : N) : N :=
  N.min (match e_peer e with
         | O => if (ae_inmtu c =? 0) || negb (Nat.eqb (e_sc e) 0) then m else N.min m (u16 (ae_inmtu c))
         | S k => match nth_error (ae_peers c) k with Some p => N.min m (u16 (pe_mtu p)) | None => m end
         end) (u16 (ae_mtu c)).

Lemma nz_if ia x : (if x =? 0 then [] else [(ia, x)]) = nz ia x.
Proof. reflexivity. Qed.

Lemma fold_step_regular e l : forall H I m,
  fold_left (step_entry e) (map (pair false) l) (Some (H, I, m)) =
  Some (H ++ map reg l, I ++ flat_map entry_bwd l, fold_left mtu_reg l m).
Proof.
  induction l as [|a l IH]; intros H I m; cbn [map fold_left flat_map].
  - now rewrite !app_nil_r.
  - cbn [step_entry andb negb orb]. rewrite IH. f_equal. f_equal; [f_equal|].
    + now rewrite <- app_assoc.
    + rewrite <- app_assoc. f_equal. unfold entry_bwd, hop_bwd, nz.
      destruct (h_in (ae_hop a) =? 0); reflexivity.
    + f_equal. unfold mtu_reg. destruct (ae_inmtu a =? 0); reflexivity.
Qed.

Lemma step_cut e c H I m :
  peer_ok e c ->
  step_entry e (Some (H, I, m)) (true, c) =
  Some (H ++ [(ae_ia c, cut_hop e c)], I ++ cut_ifs e c, mtu_cut e c m).
Proof.
  intros Hp. unfold peer_ok in Hp. unfold step_entry, cut_ifs, mtu_cut, cut_hop. cbn [andb].
  destruct (e_peer e) as [|k] eqn:EP.
  - cbn [Nat.eqb negb]. unfold nz.
    destruct (Nat.eqb (e_sc e) 0); cbn [negb andb orb];
      destruct (ae_inmtu c =? 0); cbn [negb andb orb];
      destruct (h_in (ae_hop c) =? 0); cbn [negb andb orb]; reflexivity.
  - destruct Hp as [Hp|[p Hp]]; [discriminate|]. cbn [Nat.eqb negb] in *.
    replace (S k - 1)%nat with k in * by lia. rewrite Hp. unfold nz.
    destruct (Nat.eqb (e_sc e) 0); cbn [negb andb orb];
      destruct (h_in (pe_hop p) =? 0); cbn [negb andb orb]; reflexivity.
Qed.

(** the rendered segment of an edge (total; meaningful for good edges) *)
Definition edge_rest (e : edge) : list as_entry := skipn (S (e_sc e)) (entries e).
Definition edge_cut (e : edge) : as_entry :=
  nth (e_sc e) (entries e) (mkAS 0 (mkHop 0 0 0 []) 0 0 []).

Definition edge_info (e : edge) : info :=
  mkInfo (u32 (sg_ts (is_seg (e_seg e)))) (calc_beta e) (is_down e) (negb (Nat.eqb (e_peer e) 0)).

(** hops and interfaces in visiting order (from the last entry to the cut) *)
Definition trav_hops (e : edge) : list (N * hopf) :=
  map reg (rev (edge_rest e)) ++ [(ae_ia (edge_cut e), cut_hop e (edge_cut e))].
Definition trav_ifs (e : edge) : list iface :=
  flat_map entry_bwd (rev (edge_rest e)) ++ cut_ifs e (edge_cut e).

Definition edge_hops (e : edge) : list (N * hopf) :=
  if is_down e then rev (trav_hops e) else trav_hops e.
Definition edge_ifs (e : edge) : list iface :=
  if is_down e then rev (trav_ifs e) else trav_ifs e.
Definition edge_slice (e : edge) : slice := mkSlice (edge_info e) (edge_hops e) (edge_ifs e).
Definition edge_mtu (m : N) (e : edge) : N :=
  mtu_cut e (edge_cut e) (fold_left mtu_reg (rev (edge_rest e)) m).

Lemma skipn_cut {A} (l : list A) i c :
  nth_error l i = Some c -> skipn i l = c :: skipn (S i) l.
Proof.
  revert i. induction l as [|x l IH]; intros [|i] H; cbn in *; try discriminate.
  - now inversion H.
  - now apply IH.
Qed.

Lemma render_edge_good e m :
  edge_good e -> render_edge m e = Some (edge_slice e, edge_mtu m e).
Proof.
  intros [c [Hc Hp]]. unfold render_edge, trav_list. fold (entries e).
  rewrite (skipn_cut _ _ _ Hc). rewrite fold_left_app, fold_step_regular. cbn [fold_left].
  assert (Ec : edge_cut e = c). { unfold edge_cut. now apply nth_error_nth. }
  rewrite step_cut by exact Hp. cbn [app].
  unfold edge_slice, edge_hops, edge_ifs, trav_hops, trav_ifs, edge_mtu, edge_rest, edge_info.
  rewrite Ec. destruct (is_down e); reflexivity.
Qed.

Lemma render_fold_good es : forall sls m,
  Forall edge_good es ->
  fold_left render_step es (Some (sls, m)) =
  Some (sls ++ map edge_slice es, fold_left edge_mtu es m).
Proof.
  induction es as [|e es IH]; intros sls m H; cbn [fold_left map].
  - now rewrite app_nil_r.
  - inversion H; subst. cbn [render_step]. rewrite render_edge_good by assumption.
    rewrite IH by assumption. now rewrite <- app_assoc.
Qed.

Definition sol_ifs (es : list edge) : list iface := flat_map edge_ifs es.

Lemma flat_map_sl_ifs es : flat_map sl_ifs (map edge_slice es) = sol_ifs es.
Proof. unfold sol_ifs. induction es as [|e es IH]; cbn; [reflexivity | now rewrite IH]. Qed.

Definition sol_path (s : psol) : path :=
  mkPath (map edge_slice (ps_edges s)) (sol_ifs (ps_edges s))
         (fold_left edge_mtu (ps_edges s) 65535) (path_exp (map edge_slice (ps_edges s))) (ps_cost s).

Lemma render_sol_good s :
  Forall edge_good (ps_edges s) ->
  render_sol s = if Nat.odd (length (sol_ifs (ps_edges s))) then None else Some (sol_path s).
Proof.
  intros H. unfold render_sol. rewrite render_fold_good by exact H. cbn [app].
  rewrite flat_map_sl_ifs. reflexivity.
Qed.

Lemma render_all_some l ps :
  render_all l = Some ps ->
  (forall s, In s l -> Forall edge_good (ps_edges s)) ->
  ps = map sol_path l /\ forall s, In s l -> Nat.odd (length (sol_ifs (ps_edges s))) = false.
Proof.
  revert ps. induction l as [|s l IH]; intros ps H G; cbn in H.
  - inversion H. split; [reflexivity | intros ? []].
  - rewrite render_sol_good in H by (apply G; now left).
    destruct (Nat.odd (length (sol_ifs (ps_edges s)))) eqn:O; [discriminate|].
    destruct (render_all l) as [ps'|]; [|discriminate]. inversion H; subst.
    destruct (IH ps' eq_refl) as [-> Hodd]; [intros; apply G; now right|].
    split; [reflexivity|]. intros s' [<-|H']; [exact O | now apply Hodd].
Qed.

Lemma render_all_good l :
  (forall s, In s l -> Forall edge_good (ps_edges s)) ->
  (forall s, In s l -> Nat.odd (length (sol_ifs (ps_edges s))) = false) ->
  render_all l = Some (map sol_path l).
Proof.
  induction l as [|s l IH]; intros G O; cbn; [reflexivity|].
  rewrite render_sol_good by (apply G; now left). rewrite (O s) by now left.
  rewrite IH; [reflexivity | intros; apply G; now right | intros; apply O; now right].
Qed.
