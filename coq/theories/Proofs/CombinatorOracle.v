(** The oracles [ok28] / [ok29] of Model/Combinator.v hold on the model's own
    output, for every input. *)
From Coq Require Import List NArith Bool Arith Lia Sorted.
From Scion Require Import Lib.Check Model.Segment Model.CombSpec Model.Combinator.
From Scion Require Import Proofs.CombinatorGraph Proofs.CombinatorRender Proofs.CombinatorFilter
  Proofs.CombinatorPaths Proofs.CombinatorIfs Proofs.CombSpec Proofs.CombinatorSpec
  Proofs.CombinatorSound Proofs.CombinatorComplete Proofs.CombinatorMain Proofs.CombinatorExact.
Import ListNotations.
Import Segment Combinator.
Local Open Scope N_scope.

(** ---- reflexivity of the equality tests ---- *)
Lemma list_eqb_refl {A} (eqb : A -> A -> bool) (l : list A) :
  (forall x, eqb x x = true) -> list_eqb eqb l l = true.
Proof. intros H. induction l as [|x l IH]; cbn; [reflexivity | now rewrite H, IH]. Qed.

Lemma hopf_eqb_refl h : hopf_eqb h h = true.
Proof.
  unfold hopf_eqb. rewrite !N.eqb_refl. cbn. unfold bytes_eqb. apply list_eqb_refl. apply N.eqb_refl.
Qed.

Lemma info_eqb_refl i : info_eqb i i = true.
Proof. unfold info_eqb. rewrite !N.eqb_refl, !Bool.eqb_reflx. reflexivity. Qed.

Lemma obs_eqb_refl o : obs_eqb o o = true.
Proof.
  unfold obs_eqb. rewrite ifs_eqb_refl, !N.eqb_refl.
  rewrite (list_eqb_refl N.eqb) by apply N.eqb_refl.
  rewrite (list_eqb_refl info_eqb) by apply info_eqb_refl.
  rewrite (list_eqb_refl hopf_eqb) by apply hopf_eqb_refl. reflexivity.
Qed.

Lemma mem_obs_in p l : In p l -> mem_obs (obs_of p) (map obs_of l) = true.
Proof.
  intros H. unfold mem_obs. apply existsb_exists. exists (obs_of p). split; [now apply in_map | apply obs_eqb_refl].
Qed.

Lemma nodupb_of_NoDup (l : list (list iface)) : NoDup l -> nodupb ifs_eqb l = true.
Proof.
  induction 1 as [|x l Hx Hn IH]; cbn; [reflexivity|]. rewrite IH, andb_true_r. apply negb_true_iff.
  destruct (existsb (ifs_eqb x) l) eqn:E; [|reflexivity]. apply existsb_exists in E as [y [Hy E]].
  apply ifs_eqb_eq in E. subst y. contradiction.
Qed.

Lemma sorted_w_of ps : StronglySorted weight_le ps -> sorted_w (map obs_of ps) = true.
Proof.
  induction 1 as [|p ps Hs IH Hp]; [reflexivity|]. destruct ps as [|q ps]; [reflexivity|].
  cbn [map sorted_w] in *. rewrite IH, andb_true_r. apply N.leb_le.
  inversion Hp; subst. assumption.
Qed.

(** ---- the shape seen in the decoded path ---- *)
Definition lenN (sl : slice) : N := N.of_nat (length (sl_hops sl)).

Lemma obs_of_path_of es :
  obs_of (path_of es) =
  mkObs (sol_ifs es) (pad3 (map lenN (map edge_slice es))) (map sl_info (map edge_slice es))
        (flat_map (fun sl => map snd (sl_hops sl)) (map edge_slice es))
        (path_exp (map edge_slice es)) (fold_left edge_mtu es 65535) (sum_w es).
Proof. reflexivity. Qed.

Lemma lenN_pos e : edge_good e -> 1 <= lenN (edge_slice e).
Proof. intros H. unfold lenN. cbn [edge_slice sl_hops]. pose proof (edge_hops_nonempty e H). lia. Qed.

Lemma is_down_ety e : i_consdir (sl_info (edge_slice e)) = segtype_eqb (ety e) Down.
Proof. reflexivity. Qed.

Lemma direct_shape_path es :
  Forall edge_good es -> types_ok None es -> es <> [] -> direct_shape (obs_of (path_of es)) = true.
Proof.
  intros Hg Hty Hne. pose proof (types_ok_cases es Hty Hne) as Cases.
  rewrite obs_of_path_of. unfold direct_shape. cbn [o_infos o_seglen o_hops].
  destruct es as [|e1 [|e2 [|e3 [|e4 t]]]]; cbn [map] in Cases;
    try (repeat destruct Cases as [Cases|Cases]; discriminate).
  - inversion Hg as [|? ? G1 _]; subst. pose proof (lenN_pos _ G1) as L1.
    cbn [map length pad3 firstn skipn forallb fold_left flat_map]. rewrite app_nil_r, map_length.
    apply N.leb_le in L1. rewrite L1. cbn [andb Nat.leb Nat.eqb N.eqb]. cbn [i_consdir sl_info edge_slice edge_info].
    repeat (apply andb_true_iff; split); try reflexivity;
      try (destruct (is_down e1); reflexivity);
      try (match goal with |- (if ?b then true else true) = true => destruct b; reflexivity end);
      try (apply N.eqb_eq; unfold lenN; cbn [edge_slice sl_hops]; lia).
  - inversion Hg as [|? ? G1 Hg']; subst. inversion Hg' as [|? ? G2 _]; subst.
    pose proof (lenN_pos _ G1) as L1. pose proof (lenN_pos _ G2) as L2.
    cbn [map length pad3 firstn skipn forallb fold_left flat_map]. rewrite app_nil_r, app_length, !map_length.
    apply N.leb_le in L1, L2. rewrite L1, L2. rewrite !is_down_ety.
    assert (T1 : ety e1 <> Down) by (repeat destruct Cases as [Cases|Cases]; inversion Cases; congruence).
    replace (segtype_eqb (ety e1) Down) with false by (destruct (ety e1); [reflexivity | reflexivity | contradiction]).
    cbn [andb Nat.leb Nat.eqb N.eqb].
    repeat (apply andb_true_iff; split); try reflexivity;
      try (destruct (is_down e1); reflexivity);
      try (match goal with |- (if ?b then true else true) = true => destruct b; reflexivity end);
      try (apply N.eqb_eq; unfold lenN; cbn [edge_slice sl_hops]; lia).
  - inversion Hg as [|? ? G1 Hg']; subst. inversion Hg' as [|? ? G2 Hg'']; subst. inversion Hg'' as [|? ? G3 _]; subst.
    pose proof (lenN_pos _ G1) as L1. pose proof (lenN_pos _ G2) as L2. pose proof (lenN_pos _ G3) as L3.
    cbn [map length pad3 firstn skipn forallb fold_left flat_map]. rewrite app_nil_r, !app_length, !map_length.
    apply N.leb_le in L1, L2, L3. rewrite L1, L2, L3. rewrite !is_down_ety.
    assert (T : ety e1 = Up /\ ety e2 = CoreT /\ ety e3 = Down)
      by (repeat destruct Cases as [Cases|Cases]; inversion Cases; auto).
    destruct T as [-> [-> ->]]. cbn [andb Nat.leb Nat.eqb N.eqb segtype_eqb].
    repeat (apply andb_true_iff; split); try reflexivity;
      try (destruct (is_down e1); reflexivity);
      try (match goal with |- (if ?b then true else true) = true => destruct b; reflexivity end);
      try (apply N.eqb_eq; unfold lenN; cbn [edge_slice sl_hops]; lia).
Qed.

(** ---- the expiry recomputed from the decoded fields ---- *)
Lemma firstn_len_app {A} (l1 l2 : list A) : firstn (length l1) (l1 ++ l2) = l1.
Proof. induction l1 as [|x l1 IH]; cbn; [now destruct l2 | now rewrite IH]. Qed.
Lemma skipn_len_app {A} (l1 l2 : list A) : skipn (length l1) (l1 ++ l2) = l2.
Proof. induction l1 as [|x l1 IH]; cbn; [reflexivity | exact IH]. Qed.

Lemma split_hops_slices sls :
  split_hops (map lenN sls) (flat_map (fun sl => map snd (sl_hops sl)) sls) =
  map (fun sl => map snd (sl_hops sl)) sls.
Proof.
  induction sls as [|sl sls IH]; cbn [map flat_map split_hops]; [reflexivity|].
  assert (E : N.to_nat (lenN sl) = length (map snd (sl_hops sl))).
  { unfold lenN. now rewrite Nat2N.id, map_length. }
  rewrite E, firstn_len_app, skipn_len_app. now rewrite IH.
Qed.

Lemma firstn_pad3 (l : list N) : (length l <= 3)%nat -> firstn (length l) (pad3 l) = l.
Proof. destruct l as [|a [|b [|c [|d t]]]]; cbn; intros; try reflexivity; lia. Qed.

Lemma fold_min_map {A B} (f : B -> N) (g : A -> B) l m :
  fold_left (fun m h => N.min m (f h)) (map g l) m = fold_left (fun m h => N.min m (f (g h))) l m.
Proof. revert m. induction l as [|x l IH]; intros m; cbn; [reflexivity | apply IH]. Qed.

Lemma direct_exp_path es : (length es <= 3)%nat -> direct_exp (obs_of (path_of es)) = p_exp (path_of es).
Proof.
  intros Hl. rewrite obs_of_path_of. unfold direct_exp. cbn [o_infos o_seglen o_hops path_of p_exp].
  set (sls := map edge_slice es). assert (Hs : (length sls <= 3)%nat) by (unfold sls; now rewrite map_length).
  rewrite map_length. rewrite <- (map_length lenN sls) at 1. rewrite firstn_pad3 by now rewrite map_length.
  rewrite split_hops_slices. unfold path_exp. clear Hs Hl. generalize max_exp_ms. unfold sls. clear sls.
  generalize (map edge_slice es). intros sls. induction sls as [|sl sls IH]; intros m; cbn; [reflexivity|].
  rewrite IH. f_equal. f_equal. unfold slice_exp. cbn [fst snd].
  rewrite (fold_min_map (fun h => exp_ms (h_exp h)) snd). reflexivity.
Qed.

(** ---- the MTU recomputed from the input segments ---- *)
Lemma in_product (ts : list (list N)) : forall cands,
  Forall2 (fun t cs => In t cs) ts cands ->
  In (concat ts) (fold_right (fun cs acc => flat_map (fun t => map (app t) acc) cs) [[]] cands).
Proof.
  induction ts as [|t ts IH]; intros cands H; inversion H; subst; cbn [fold_right concat].
  - now left.
  - apply in_flat_map. exists t. split; [assumption|]. apply in_map. now apply IH.
Qed.

Lemma explain_edge e :
  edge_good e ->
  exists hs, explain (is_seg (e_seg e)) (e_sc e) (e_peer e) = Some (hs, edge_mtu_terms e) /\
             hs = map snd (if is_down e then edge_hops e else rev (edge_hops e)).
Proof.
  intros Hg. destruct (edge_slice_exact e Hg) as [c [rest [hc [Hs [Hh [Ho [_ Hm]]]]]]].
  cbn [edge_slice sl_hops] in Ho. unfold explain. rewrite Hs.
  assert (Hmap : map snd (if is_down e then edge_hops e else rev (edge_hops e)) = hc :: map ae_hop rest).
  { rewrite Ho. cbn [map snd]. now rewrite map_map. }
  rewrite Hmap, Hm. unfold cut_mtus.
  destruct Hh as [[Hp ->]|[Hp [p [Hk ->]]]].
  - rewrite Hp. eexists. split; reflexivity.
  - destruct (e_peer e) as [|k] eqn:EP; [contradiction|]. replace (S k - 1)%nat with k in Hk by lia.
    rewrite Hk. eexists. split; reflexivity.
Qed.

Lemma in_cuts_of e :
  edge_good e -> ety e <> CoreT \/ (e_sc e = O /\ e_peer e = O) ->
  In (e_sc e, e_peer e) (cuts_of (is_seg (e_seg e)) (segtype_eqb (ety e) CoreT)).
Proof.
  intros [c [Hc Hp]] H. unfold cuts_of. destruct (segtype_eqb (ety e) CoreT) eqn:T.
  - apply segtype_eqb_eq in T. destruct H as [H|[-> ->]]; [contradiction | now left].
  - apply in_flat_map. exists (e_sc e, c). split; [now apply in_enum|]. cbn [fst snd].
    apply in_map. apply in_seq. split; [lia|]. cbn. unfold peer_ok in Hp.
    destruct Hp as [->|[p Hp]]; [lia|].
    assert (e_peer e - 1 < length (ae_peers c))%nat by (apply nth_error_Some; congruence). lia.
Qed.

Lemma slice_cand_edge ups cores downs e :
  edge_good e -> from_segs (insegs ups cores downs) e ->
  In (edge_mtu_terms e)
     (slice_mtu_cands (segs_of ups) (segs_of cores) (segs_of downs) (sl_info (edge_slice e))
                      (map snd (sl_hops (edge_slice e)))).
Proof.
  intros Hg [s [Hs Ht]]. pose proof (tuple_seg _ _ Ht) as Es.
  pose proof (insegs_seg_in _ _ _ _ Hs) as Hrole. rewrite <- Es in Hrole. fold (ety e) in Hrole.
  destruct (explain_edge e Hg) as [hs [Hex Hhs]].
  assert (Hcore : ety e <> CoreT \/ (e_sc e = O /\ e_peer e = O)).
  { inversion Ht as [T | idx a T Ha Hn | idx a k p T Ha Hp]; subst e.
    - right. split; reflexivity.
    - left. unfold ety. now rewrite mk_tuple_seg.
    - left. unfold ety. now rewrite mk_tuple_seg. }
  pose proof (in_cuts_of e Hg Hcore) as Hcut.
  assert (Hseg : forall core, core = segtype_eqb (ety e) CoreT ->
     In (edge_mtu_terms e)
        (seg_mtu_cands (sl_info (edge_slice e))
           (if is_down e then map snd (edge_hops e) else rev (map snd (edge_hops e))) core (is_seg (e_seg e)))).
  { intros core ->. unfold seg_mtu_cands. cbn [edge_slice sl_info edge_info i_ts i_peer].
    rewrite N.eqb_refl. apply in_flat_map. exists (e_sc e, e_peer e). split; [exact Hcut|].
    cbn [fst snd]. rewrite Hex.
    assert (E : hs = if is_down e then map snd (edge_hops e) else rev (map snd (edge_hops e))).
    { rewrite Hhs. destruct (is_down e); [reflexivity | now rewrite map_rev]. }
    rewrite E, (list_eqb_refl hopf_eqb) by apply hopf_eqb_refl. rewrite Bool.eqb_reflx. now left. }
  unfold slice_mtu_cands. cbn [edge_slice sl_info sl_hops edge_info i_consdir].
  unfold is_down in *. fold (ety e) in *. destruct (ety e) eqn:Ty; cbn [segtype_eqb] in *.
  - apply in_or_app. left. apply in_flat_map. exists (is_seg (e_seg e)). split; [exact Hrole|]. now apply Hseg.
  - apply in_or_app. right. apply in_flat_map. exists (is_seg (e_seg e)). split; [exact Hrole|]. now apply Hseg.
  - apply in_flat_map. exists (is_seg (e_seg e)). split; [exact Hrole|]. now apply Hseg.
Qed.

Lemma direct_mtu_path ups cores downs es :
  (length es <= 3)%nat -> Forall edge_good es -> Forall (from_segs (insegs ups cores downs)) es ->
  direct_mtu_ok (segs_of ups) (segs_of cores) (segs_of downs) (obs_of (path_of es)) = true.
Proof.
  intros Hl Hg Hf. rewrite obs_of_path_of. unfold direct_mtu_ok. cbn [o_infos o_seglen o_hops o_mtu].
  set (sls := map edge_slice es). assert (Hs : (length sls <= 3)%nat) by (unfold sls; now rewrite map_length).
  rewrite map_length. rewrite <- (map_length lenN sls) at 1. rewrite firstn_pad3 by now rewrite map_length.
  rewrite split_hops_slices. apply existsb_exists. exists (concat (map edge_mtu_terms es)). split.
  - apply in_product. unfold sls. clear - Hg Hf.
    induction es as [|e es IH]; cbn; constructor.
    + inversion Hg; inversion Hf; subst. now apply slice_cand_edge.
    + inversion Hg; inversion Hf; subst. now apply IH.
  - apply N.eqb_eq. rewrite sol_mtu_fold. now rewrite flat_map_concat_map.
Qed.

(** ---- C28 ---- *)
Theorem ok28_model src dst ups cores downs fa ps :
  combine src dst ups cores downs fa = Done ps ->
  ok28 src dst ups cores downs fa (map obs_of ps) = true.
Proof.
  intros Hc. destruct (combine_done _ _ _ _ _ _ _ Hc) as [all [Ha Eps]].
  unfold ok28. rewrite Ha.
  assert (Hsub : forall p, In p ps -> In p all /\ is_long (p_ifs p) = false)
    by (apply (combine_sub _ _ _ _ _ _ _ _ Ha Hc)).
  assert (Hpaths : forall p, In p ps -> exists es, is_chain (insegs ups cores downs) src dst es /\ p = path_of es).
  { intros p Hp. apply (all_paths_in _ _ _ _ Ha). now apply Hsub. }
  pose proof (all_paths_done _ _ _ _ Ha) as [Hne _].
  repeat (apply andb_true_iff; split).
  - apply forallb_forall. intros o Ho. apply in_map_iff in Ho as [p [<- Hp]]. apply mem_obs_in. now apply Hsub.
  - apply forallb_forall. intros o Ho. apply in_map_iff in Ho as [p [<- Hp]].
    destruct (Hpaths p Hp) as [es [Hch ->]]. apply direct_shape_path.
    + eapply chain_good; eauto.
    + eapply chain_types; eauto.
    + eapply chain_nonempty; eauto.
  - apply forallb_forall. intros o Ho. apply in_map_iff in Ho as [p [<- Hp]].
    destruct (Hpaths p Hp) as [es [Hch ->]]. apply N.eqb_eq. symmetry. apply direct_exp_path.
    pose proof (types_ok_length _ _ (chain_types _ _ _ _ _ Hch)). cbn in H. lia.
  - apply forallb_forall. intros o Ho. apply in_map_iff in Ho as [p [<- Hp]].
    destruct (Hpaths p Hp) as [es [Hch ->]]. apply direct_mtu_path.
    + pose proof (types_ok_length _ _ (chain_types _ _ _ _ _ Hch)). cbn in H. lia.
    + eapply chain_good; eauto.
    + eapply chain_from_segs; eauto.
  - apply forallb_forall. intros o Ho. apply in_map_iff in Ho as [p [<- Hp]]. apply negb_true_iff. now apply Hsub.
  - apply sorted_w_of. eapply combine_sorted; eauto.
  - destruct fa; [reflexivity|]. cbn [orb]. destruct (combine_dedup _ _ _ _ _ _ Hc) as [Hnd Hmax].
    apply andb_true_iff; split.
    + rewrite map_map. cbn [obs_of o_ifs]. apply nodupb_of_NoDup. exact Hnd.
    + apply forallb_forall. intros o Ho. apply in_map_iff in Ho as [p [<- Hp]].
      apply forallb_forall. intros c Hcand. apply in_map_iff in Hcand as [q [<- Hq]].
      apply filter_In in Hq as [Hq Hnl]. cbn [obs_of o_ifs o_exp].
      destruct (ifs_eqb (p_ifs q) (p_ifs p)) eqn:E; [|reflexivity]. cbn [negb orb].
      apply ifs_eqb_eq in E. apply N.leb_le. eapply (Hmax all Ha p q); eauto.
      apply is_long_false. unfold not_long in Hnl. now apply negb_true_iff.
  - destruct (valid_input (segs_of ups) (segs_of cores) (segs_of downs)) eqn:V; [|reflexivity]. cbn [negb orb].
    apply forallb_forall. intros o Ho. apply in_map_iff in Ho as [p [<- Hp]].
    apply existsb_exists. exists (p_ifs p). split; [|apply ifs_eqb_refl].
    apply all_combinations_complete. eapply combine_sound; eauto.
Qed.

(** ---- C29 ---- *)
Theorem ok29_model src dst ups cores downs fa ps :
  combine src dst ups cores downs fa = Done ps ->
  ok29 src dst ups cores downs (map obs_of ps) = true.
Proof.
  intros Hc. unfold ok29.
  destruct (wf_input (segs_of ups) (segs_of cores) (segs_of downs)) eqn:Hw; [|reflexivity]. cbn [negb orb].
  apply forallb_forall. intros ifs Hin. apply all_combinations_sound in Hin.
  destruct (is_long ifs) eqn:L; [reflexivity|]. cbn [orb]. apply is_long_false in L.
  destruct (combine_complete _ _ _ _ _ _ _ _ Hw Hc Hin L) as [p [Hp E]].
  apply existsb_exists. exists (obs_of p). split; [now apply in_map|]. cbn [obs_of o_ifs]. rewrite E. apply ifs_eqb_refl.
Qed.

Theorem panic_only_ill_formed src dst ups cores downs fa :
  combine src dst ups cores downs fa = Panic ->
  wf_input (segs_of ups) (segs_of cores) (segs_of downs) = false.
Proof.
  intros H. destruct (wf_input (segs_of ups) (segs_of cores) (segs_of downs)) eqn:Hw; [|reflexivity].
  destruct (combine_no_panic src dst ups cores downs fa Hw) as [ps E]. congruence.
Qed.
