(** Lemmas about Model/Select.v. *)
From Coq Require Import List NArith ZArith Bool Lia Sorting.Sorted.
From Coq Require Import ZifyBool ZifyN ZifyNat.
From Scion Require Import Lib.Check Model.Select.
Import ListNotations.
Import Select.
Local Open Scope Z_scope.

(** ---------- diversity *)
Lemma diversity_fold_ge other ls acc :
  acc <= fold_left (fun diff l => if has_link other l then diff else diff + 1) ls acc.
Proof.
  revert acc. induction ls as [|l t IH]; intros acc; cbn [fold_left]; [lia|].
  destruct (has_link other l); [apply IH|]. specialize (IH (acc + 1)). lia.
Qed.

Lemma diversity_nonneg a b : 0 <= diversity a b.
Proof. apply diversity_fold_ge. Qed.

(** ---------- find: first element satisfying a predicate *)
Lemma find_first {A} (p : A -> bool) l x :
  find p l = Some x <->
  exists l1 l2, l = l1 ++ x :: l2 /\ p x = true /\ forall y, In y l1 -> p y = false.
Proof.
  induction l as [|a t IH]; cbn [find].
  - split; [discriminate|]. intros (l1 & l2 & E & _). destruct l1; discriminate.
  - destruct (p a) eqn:Pa.
    + split.
      * intros E; inversion E; subst. exists [], t. repeat split; auto. intros y [].
      * intros (l1 & l2 & E & Px & Hl1). destruct l1 as [|b l1]; cbn in E; inversion E; subst.
        -- reflexivity.
        -- rewrite (Hl1 b (or_introl eq_refl)) in Pa. discriminate.
    + rewrite IH. split.
      * intros (l1 & l2 & E & Px & Hl1). exists (a :: l1), l2. subst. repeat split; auto.
        intros y [<-|Hy]; auto.
      * intros (l1 & l2 & E & Px & Hl1). destruct l1 as [|b l1]; cbn in E; inversion E; subst.
        -- rewrite Px in Pa. discriminate.
        -- exists l1, l2. repeat split; auto. intros y Hy. apply Hl1. now right.
Qed.

(** ---------- the declarative notion: [x] is the most link-diverse candidate of
    [bs] with respect to [best], the shortest among equally diverse ones, the
    first among equally diverse and equally long ones. *)
Definition most_diverse_wrt (best : beacon) (bs : list beacon) (x : beacon) : Prop :=
  exists l1 l2, bs = l1 ++ x :: l2 /\
    (forall y, In y bs -> diversity best y <= diversity best x) /\
    (forall y, In y bs -> diversity best y = diversity best x -> nentries x <= nentries y) /\
    (forall y, In y l1 -> ~ (diversity best y = diversity best x /\ nentries y = nentries x)).

Lemma is_best_true best bs b :
  is_best best bs b = true <->
  forall y, In y bs -> diversity best y < diversity best b \/
                       (diversity best y = diversity best b /\ nentries b <= nentries y).
Proof.
  unfold is_best. rewrite forallb_forall. split; intros H y Hy; specialize (H y Hy); lia.
Qed.

Lemma most_diverse_wrt_find best bs x :
  most_diverse_wrt best bs x <-> spec_most_diverse best bs = Some x.
Proof.
  unfold spec_most_diverse. rewrite find_first. split.
  - intros (l1 & l2 & E & Hmax & Hlen & Hfirst). exists l1, l2. split; [exact E|]. split.
    + apply is_best_true. intros y Hy. specialize (Hmax y Hy). specialize (Hlen y Hy). lia.
    + intros y Hy. destruct (is_best best bs y) eqn:B; [|reflexivity]. exfalso.
      rewrite is_best_true in B.
      assert (Hx : In x bs) by (subst bs; apply in_or_app; right; now left).
      assert (Hyb : In y bs) by (subst bs; apply in_or_app; now left).
      specialize (B x Hx). specialize (Hmax y Hyb). specialize (Hlen y Hyb).
      apply (Hfirst y Hy). lia.
  - intros (l1 & l2 & E & Hb & Hfirst). exists l1, l2. split; [exact E|].
    rewrite is_best_true in Hb. split; [|split].
    + intros y Hy. specialize (Hb y Hy). lia.
    + intros y Hy Hd. specialize (Hb y Hy). lia.
    + intros y Hy [Hd Hl].
      assert (B : is_best best bs y = true).
      { apply is_best_true. intros z Hz. specialize (Hb z Hz). lia. }
      rewrite (Hfirst y Hy) in B. discriminate.
Qed.

Lemma most_diverse_wrt_unique best bs x y :
  most_diverse_wrt best bs x -> most_diverse_wrt best bs y -> x = y.
Proof. rewrite !most_diverse_wrt_find. congruence. Qed.

(** ---------- max_div *)
Lemma max_div_snoc best bs b :
  max_div best (bs ++ [b]) = Z.max (max_div best bs) (diversity best b).
Proof.
  induction bs as [|a t IH]; cbn [app max_div fold_right].
  - pose proof (diversity_nonneg best b). lia.
  - fold (max_div best (t ++ [b])). fold (max_div best t). rewrite IH. lia.
Qed.

Lemma max_div_ge best bs : -1 <= max_div best bs.
Proof. induction bs as [|a t IH]; cbn [max_div fold_right]; [lia|]. fold (max_div best t). lia. Qed.

Lemma max_div_upper best bs y : In y bs -> diversity best y <= max_div best bs.
Proof.
  induction bs as [|a t IH]; [intros []|]. cbn [max_div fold_right]. fold (max_div best t).
  intros [<-|H]; [lia|]. specialize (IH H). lia.
Qed.

Lemma max_div_attained best bs : bs <> [] -> exists y, In y bs /\ diversity best y = max_div best bs.
Proof.
  induction bs as [|a t IH]; [congruence|]. intros _. cbn [max_div fold_right]. fold (max_div best t).
  destruct t as [|b t].
  - exists a. split; [now left|]. cbn. pose proof (diversity_nonneg best a). lia.
  - destruct IH as (y & Hy & E); [discriminate|].
    destruct (Z_le_gt_dec (max_div best (b :: t)) (diversity best a)).
    + exists a. split; [now left|]. lia.
    + exists y. split; [now right|]. lia.
Qed.

Lemma max_div_nil best : max_div best [] = -1.
Proof. reflexivity. Qed.

(** ---------- the loop of selectMostDiverse *)
Definition md_inv (best : beacon) (pre : list beacon) (s : mdst) : Prop :=
  md_div s = max_div best pre /\
  match md_b s with
  | None => pre = [] /\ s = md_init
  | Some x => most_diverse_wrt best pre x /\ md_len s = nentries x /\ md_div s = diversity best x
  end.

Lemma md_inv_init best : md_inv best [] md_init.
Proof. split; [reflexivity|]. cbn. split; reflexivity. Qed.

Lemma md_inv_step best pre s b :
  md_inv best pre s -> md_inv best (pre ++ [b]) (md_step best s b).
Proof.
  intros [Hd Hs]. unfold md_step.
  pose proof (diversity_nonneg best b) as Hb0.
  destruct (md_b s) as [x|] eqn:Ex.
  - destruct Hs as ((l1 & l2 & E & Hmax & Hlen & Hfirst) & Hl & Hdx).
    destruct ((diversity best b >? md_div s) || ((diversity best b =? md_div s) && (md_len s >? nentries b)))
      eqn:C.
    + (* b replaces x *)
      split; cbn [md_div md_b md_len]; [rewrite max_div_snoc; lia|].
      split; [|split; reflexivity].
      exists pre, []. split; [reflexivity|]. split; [|split].
      * intros y Hy. apply in_app_or in Hy as [Hy|[<-|[]]]; [|lia]. specialize (Hmax y Hy). lia.
      * intros y Hy Hdy. apply in_app_or in Hy as [Hy|[<-|[]]]; [|lia].
        specialize (Hmax y Hy). specialize (Hlen y Hy). lia.
      * intros y Hy [Hdy Hly]. specialize (Hmax y Hy). specialize (Hlen y Hy). lia.
    + (* x stays *)
      split; [rewrite max_div_snoc; lia|]. rewrite Ex. split; [|split; assumption].
      exists l1, (l2 ++ [b]). split; [subst pre; rewrite <- app_assoc; reflexivity|].
      split; [|split].
      * intros y Hy. apply in_app_or in Hy as [Hy|[<-|[]]]; [now apply Hmax|lia].
      * intros y Hy Hdy. apply in_app_or in Hy as [Hy|[<-|[]]]; [now apply Hlen|lia].
      * exact Hfirst.
  - destruct Hs as [-> ->]. cbn [md_init md_div md_len].
    replace ((diversity best b >? -1) || _) with true by lia.
    split; cbn [md_div md_b md_len]; [cbn; lia|]. split; [|split; reflexivity].
    exists [], []. split; [reflexivity|]. split; [|split].
    + intros y [<-|[]]. lia.
    + intros y [<-|[]] _. lia.
    + intros y [].
Qed.

Lemma md_inv_fold best bs : forall pre s,
  md_inv best pre s -> md_inv best (pre ++ bs) (fold_left (md_step best) bs s).
Proof.
  induction bs as [|b t IH]; intros pre s H; cbn [fold_left].
  - now rewrite app_nil_r.
  - replace (pre ++ b :: t) with ((pre ++ [b]) ++ t) by (rewrite <- app_assoc; reflexivity).
    apply IH. now apply md_inv_step.
Qed.

Lemma most_diverse_snd bs best : snd (most_diverse bs best) = max_div best bs.
Proof.
  destruct bs as [|b t]; [reflexivity|]. unfold most_diverse. cbn [snd].
  apply (md_inv_fold best (b :: t) [] md_init (md_inv_init best)).
Qed.

Lemma most_diverse_nonempty bs best :
  bs <> [] -> exists x, most_diverse bs best = (Some x, diversity best x) /\ most_diverse_wrt best bs x.
Proof.
  intros Hne. destruct bs as [|b t]; [congruence|]. unfold most_diverse.
  destruct (md_inv_fold best (b :: t) [] md_init (md_inv_init best)) as [Hd Hs].
  cbn [app] in *. destruct (md_b (fold_left (md_step best) (b :: t) md_init)) as [x|] eqn:E.
  - destruct Hs as (Hmd & _ & Hdx). exists x. rewrite Hdx. split; [reflexivity|exact Hmd].
  - destruct Hs as [Hs _]. discriminate.
Qed.

(** ---------- SelectBeacons *)
Lemma skipn_nonempty {A} (l : list A) n : (n < length l)%nat -> skipn n l <> [].
Proof.
  intros H E. pose proof (skipn_length n l) as L. rewrite E in L. cbn in L. lia.
Qed.

(** the functional statement: for k >= 1 the model never panics and returns
    what [spec_select] describes *)
Lemma select_is_spec k bs : 1 <= k -> exists l, select_beacons k bs = Ok l /\ spec_select k bs = Some l.
Proof.
  intros Hk. unfold select_beacons, spec_select.
  destruct (Z.of_nat (length bs) <=? k) eqn:Hn; [eexists; split; reflexivity|].
  destruct bs as [|best t]; [cbn in Hn; lia|]. set (bs := best :: t) in *.
  replace (k <=? 0) with false by lia.
  set (k1 := Z.to_nat (k - 1)).
  assert (Hk1 : (k1 < length bs)%nat) by lia.
  pose proof (skipn_nonempty bs k1 Hk1) as Hne.
  destruct (most_diverse_nonempty (skipn k1 bs) best Hne) as (x & Emd & Hmd).
  rewrite Emd, most_diverse_snd. apply most_diverse_wrt_find in Hmd. rewrite Hmd.
  destruct (skipn k1 bs) as [|r0 rest] eqn:Er; [congruence|].
  destruct (diversity best x >? max_div best (firstn k1 bs)); eexists; split; reflexivity.
Qed.

Lemma select_total k bs : 1 <= k -> select_beacons k bs <> Panic.
Proof. intros Hk. destruct (select_is_spec k bs Hk) as (l & E & _). congruence. Qed.

Lemma map_bid_eqb l : list_eqb N.eqb l l = true.
Proof. apply list_eqb_eq; [intros; apply N.eqb_eq|reflexivity]. Qed.

Lemma oracle_model k bs : oracle k bs (obs (select_beacons k bs)) = true.
Proof.
  unfold oracle. destruct (k <? 1) eqn:Hk; [reflexivity|].
  destruct (select_is_spec k bs) as (l & E & S); [lia|]. rewrite E, S. cbn. apply map_bid_eqb.
Qed.

(** the full characterisation in the words of the statement *)
Lemma select_spec k bs : 1 <= k ->
  (Z.of_nat (length bs) <= k -> select_beacons k bs = Ok bs) /\
  (k < Z.of_nat (length bs) ->
   let k1 := Z.to_nat (k - 1) in
   let heads := firstn k1 bs in
   let rest := skipn k1 bs in
   exists first x md r0,
     hd_error bs = Some first /\
     select_beacons k bs = Ok (heads ++ [x]) /\
     Z.of_nat (length (heads ++ [x])) = k /\
     In x rest /\
     most_diverse_wrt first rest md /\
     nth_error bs k1 = Some r0 /\
     x = (if diversity first md >? max_div first heads then md else r0)).
Proof.
  intros Hk. split.
  - intros Hn. unfold select_beacons. now replace (Z.of_nat (length bs) <=? k) with true by lia.
  - intros Hn. cbv zeta.
    destruct (select_is_spec k bs Hk) as (l & E & S). unfold spec_select in S.
    replace (Z.of_nat (length bs) <=? k) with false in S by lia.
    remember (Z.to_nat (k - 1)) as k1 eqn:Ek1.
    destruct bs as [|first t] eqn:Eb; [discriminate|]. rewrite <- Eb in *.
    destruct (skipn k1 bs) as [|r0 rest'] eqn:Er; [discriminate|].
    destruct (spec_most_diverse first (r0 :: rest')) as [md|] eqn:Emd; [|discriminate].
    assert (Hk1 : (k1 < length bs)%nat) by lia.
    assert (Hnth : nth_error bs k1 = Some r0).
    { rewrite <- (firstn_skipn k1 bs) at 1.
      rewrite nth_error_app2; rewrite firstn_length_le by lia; [|lia].
      rewrite Nat.sub_diag, Er. reflexivity. }
    assert (Hmdin : In md (r0 :: rest')).
    { apply most_diverse_wrt_find in Emd. destruct Emd as (l1 & l2 & El & _).
      rewrite El. apply in_or_app. right. now left. }
    exists first, (if diversity first md >? max_div first (firstn k1 bs) then md else r0), md, r0.
    split; [subst bs; reflexivity|].
    split; [rewrite E; destruct (diversity first md >? max_div first (firstn k1 bs)); congruence|].
    split; [rewrite app_length, firstn_length_le by lia; cbn; lia|].
    split; [destruct (diversity first md >? max_div first (firstn k1 bs)); [exact Hmdin|now left]|].
    split; [now apply most_diverse_wrt_find|]. split; [exact Hnth|reflexivity].
Qed.

(** when the candidates are ordered by length the fall-back choice is a shortest
    of the remaining candidates *)
Definition by_length (a b : beacon) : Prop := nentries a <= nentries b.

Lemma sorted_skipn n : forall l, StronglySorted by_length l -> StronglySorted by_length (skipn n l).
Proof.
  induction n as [|n IH]; intros l H; [exact H|]. destruct l as [|a t]; [exact H|].
  cbn [skipn]. apply IH. now apply StronglySorted_inv in H.
Qed.

Lemma fallback_shortest bs n r0 rest :
  StronglySorted by_length bs -> skipn n bs = r0 :: rest ->
  forall y, In y (r0 :: rest) -> nentries r0 <= nentries y.
Proof.
  intros Hs E y Hy. pose proof (sorted_skipn n bs Hs) as H. rewrite E in H.
  apply StronglySorted_inv in H as [_ H]. destruct Hy as [<-|Hy]; [lia|].
  rewrite Forall_forall in H. now apply H.
Qed.
