(** Exact rendering (audit follow-up): one sequence of edges, every edge one of the
    AddEdge calls made for the INPUT segments, determines the returned path
    completely: weights by formula, hop fields position by position, MTU as
    the minimum over exactly the MTU fields of the traversed entries. *)
From Coq Require Import List NArith Bool Arith Lia Sorted.
From Scion Require Import Lib.Check Model.Segment Model.CombSpec Model.Combinator.
From Scion Require Import Proofs.CombinatorGraph Proofs.CombinatorRender Proofs.CombinatorFilter
  Proofs.CombinatorPaths.
Import ListNotations.
Import Segment Combinator.
Local Open Scope N_scope.

(** Weight of an edge: AS hops between the pinned (last) entry and the cut, plus
    one for the peering link, counted on the down side only. *)
Definition edge_weight (e : edge) : N :=
  N.of_nat (length (sg_entries (is_seg (e_seg e))) - 1 - e_sc e) +
  (if is_down e && negb (Nat.eqb (e_peer e) 0) then 1 else 0).

(** The hop field used at the cut entry [c]. *)
Definition cut_hop_is (e : edge) (c : as_entry) (hc : hopf) : Prop :=
  (e_peer e = O /\ hc = ae_hop c) \/
  (e_peer e <> O /\ exists p, nth_error (ae_peers c) (e_peer e - 1) = Some p /\ hc = pe_hop p).

(** The MTU values of the traversed part, given the cut entry [c] and the
    entries [rest] after it: per entry after the cut its announced (non-zero)
    ingress-link MTU and its internal MTU; at the cut the peering-link MTU if a
    peer entry is used, else the announced ingress-link MTU only when the cut is
    entry 0, and the internal MTU.  All as uint16. *)
Definition entry_mtus (a : as_entry) : list N :=
  (if ae_inmtu a =? 0 then [] else [u16 (ae_inmtu a)]) ++ [u16 (ae_mtu a)].
Definition cut_mtus (e : edge) (c : as_entry) : list N :=
  (match e_peer e with
   | O => if (ae_inmtu c =? 0) || negb (Nat.eqb (e_sc e) 0) then [] else [u16 (ae_inmtu c)]
   | S k => match nth_error (ae_peers c) k with Some p => [u16 (pe_mtu p)] | None => [] end
   end) ++ [u16 (ae_mtu c)].

(** [exact_slice e sl mt]: [sl] is the rendering of edge [e], [mt] its MTU values. *)
Definition exact_slice (e : edge) (sl : slice) (mt : list N) : Prop :=
  exists c rest hc,
    skipn (e_sc e) (sg_entries (is_seg (e_seg e))) = c :: rest /\
    cut_hop_is e c hc /\
    (* hop fields in construction order: the cut entry's, then entry by entry *)
    (if is_down e then sl_hops sl else rev (sl_hops sl)) =
      (ae_ia c, hc) :: map (fun a => (ae_ia a, ae_hop a)) rest /\
    sl_info sl = mkInfo (u32 (sg_ts (is_seg (e_seg e)))) (calc_beta e) (is_down e) (negb (Nat.eqb (e_peer e) 0)) /\
    mt = flat_map entry_mtus (rev rest) ++ cut_mtus e c.

Inductive exact_slices : list edge -> list slice -> list (list N) -> Prop :=
| XS_nil : exact_slices [] [] []
| XS_cons e es sl sls mt mts : exact_slice e sl mt -> exact_slices es sls mts ->
    exact_slices (e :: es) (sl :: sls) (mt :: mts).

Lemma tuple_weight s e : tuple_of s e -> e_w e = edge_weight e.
Proof.
  intros H. unfold edge_weight, is_down.
  inversion H as [T | idx a T Ha Hn | idx a k p T Ha Hp]; subst e.
  - cbn [e_w e_seg e_sc e_peer]. rewrite T. cbn. rewrite Nat.sub_0_r. lia.
  - rewrite mk_tuple_seg, mk_tuple_sc, mk_tuple_peer. unfold mk_tuple.
    destruct (is_ty s); try contradiction; cbn; lia.
  - rewrite mk_tuple_seg, mk_tuple_sc, mk_tuple_peer. unfold mk_tuple.
    destruct (is_ty s); try contradiction; cbn; lia.
Qed.

Lemma reg_mtu_terms_eq : forall l, flat_map reg_mtu_terms l = flat_map entry_mtus l.
Proof. reflexivity. Qed.

Lemma edge_slice_exact e : edge_good e -> exact_slice e (edge_slice e) (edge_mtu_terms e).
Proof.
  intros [c [Hc Hp]]. pose proof (skipn_cut _ _ _ Hc) as Hs. fold (edge_rest e) in Hs.
  assert (Ec : edge_cut e = c) by (unfold edge_cut; now apply nth_error_nth).
  exists c, (edge_rest e), (cut_hop e c). split; [exact Hs|]. split; [|split; [|split]].
  - unfold cut_hop_is, cut_hop. unfold peer_ok in Hp. destruct (e_peer e) as [|k] eqn:EP.
    + left. auto.
    + right. split; [discriminate|]. destruct Hp as [Hp|[p Hp]]; [discriminate|].
      replace (S k - 1)%nat with k in * by lia. rewrite Hp. eauto.
  - cbn [edge_slice sl_hops]. unfold edge_hops.
    assert (R : rev (trav_hops e) = (ae_ia c, cut_hop e c) :: map reg (edge_rest e)).
    { unfold trav_hops. rewrite Ec, rev_app_distr. cbn [rev app]. now rewrite <- map_rev, rev_involutive. }
    destruct (is_down e); exact R.
  - reflexivity.
  - unfold edge_mtu_terms. rewrite Ec. reflexivity.
Qed.

Lemma edges_exact es : Forall edge_good es ->
  exact_slices es (map edge_slice es) (map edge_mtu_terms es).
Proof.
  induction 1 as [|e es He Hg IH]; cbn; constructor; [now apply edge_slice_exact | exact IH].
Qed.

Definition sum_weight (es : list edge) : N := fold_right (fun e a => edge_weight e + a) 0 es.

Lemma sum_w_weight es : Forall (fun e => e_w e = edge_weight e) es -> sum_w es = sum_weight es.
Proof.
  induction 1 as [|e es He Hg IH]; [reflexivity|].
  unfold sum_w, sum_weight in *. cbn [fold_right]. now rewrite He, IH.
Qed.

Lemma flat_map_id_map {A B} (f : A -> list B) l : flat_map f l = concat (map f l).
Proof. apply flat_map_concat_map. Qed.

Theorem exact_lemma src dst ups cores downs fa ps p :
  combine src dst ups cores downs fa = Done ps -> In p ps ->
  exists (es : list edge) (mts : list (list N)),
    Forall (fun e => In e (all_tuples (insegs ups cores downs))) es /\
    (map ety es = [Up] \/ map ety es = [CoreT] \/ map ety es = [Down] \/
     map ety es = [Up; CoreT] \/ map ety es = [Up; Down] \/ map ety es = [CoreT; Down] \/
     map ety es = [Up; CoreT; Down]) /\
    Forall (fun e => e_w e = edge_weight e) es /\
    exact_slices es (p_slices p) mts /\
    p_mtu p = fold_left N.min (concat mts) 65535 /\
    p_weight p = sum_weight es.
Proof.
  intros Hc Hp. destruct (combine_in _ _ _ _ _ _ _ _ Hc Hp) as [es [Hch [-> _]]].
  destruct (combine_done _ _ _ _ _ _ _ Hc) as [all [Ha _]].
  pose proof (all_paths_done _ _ _ _ Ha) as [Hne _].
  pose proof (chain_good _ _ _ _ _ Hne Hch) as Hg.
  assert (Hin : Forall (fun e => In e (all_tuples (insegs ups cores downs))) es).
  { eapply Forall_impl; [|eapply chain_in; exact Hch]. intros e. apply in_build_tuples. }
  assert (Hw : Forall (fun e => e_w e = edge_weight e) es).
  { eapply Forall_impl; [|exact Hin]. intros e He. apply in_all_tuples in He as [s [_ Ht]]. eapply tuple_weight; eauto. }
  exists es, (map edge_mtu_terms es). split; [exact Hin|]. split; [|split; [exact Hw|split; [|split]]].
  - apply types_ok_cases; [eapply chain_types; eauto | eapply chain_nonempty; eauto].
  - cbn [path_of p_slices]. now apply edges_exact.
  - cbn [path_of p_mtu]. rewrite sol_mtu_fold. now rewrite flat_map_concat_map.
  - cbn [path_of p_weight]. now apply sum_w_weight.
Qed.
