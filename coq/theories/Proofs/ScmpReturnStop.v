(** C10, part 5: the router that answers.  A router whose egress interface is down
    or unknown does everything a healthy router does up to the egress lookup;
    the packet it hands to the slow path is the packet of the path with the
    current hop "between the routers of the AS" — the state part 1 starts from. *)
From Coq Require Import List NArith Bool Arith Lia ZifyBool ZifyN ZifyNat.
From Scion Require Import Lib.Check Lib.Bytes Model.Router Model.Network Model.Prov Model.RouterScmp
  Model.ScmpReturn.
From Scion Require Import Proofs.Router Proofs.ProvStruct Proofs.ProvRender Proofs.ForwardView Proofs.ProvFacts
  Proofs.RouterPass Proofs.ForwardStep.
Import ListNotations.
Import Scion.Model.Router.Router Network Prov.

(** * A faulty configuration *)
Section Cfg.
Variable c : cfg.
Variable e : N.

Lemma find_if_filter l : find_if (filter (fun y => negb (if_id y =? e)%N) l) e = None.
Proof.
  induction l as [|y l IH]; [reflexivity|]. cbn [filter].
  destruct (if_id y =? e)%N eqn:E; cbn [negb]; [exact IH|]. cbn [find_if]. now rewrite E.
Qed.

Lemma find_if_filter_other l x : x <> e ->
  find_if (filter (fun y => negb (if_id y =? e)%N) l) x = find_if l x.
Proof.
  intros Hx. induction l as [|y l IH]; [reflexivity|]. cbn [filter find_if].
  destruct (if_id y =? e)%N eqn:E; cbn [negb].
  - apply N.eqb_eq in E. replace (if_id y =? x)%N with false by (symmetry; apply N.eqb_neq; congruence). exact IH.
  - cbn [find_if]. destruct (if_id y =? x)%N; [reflexivity|exact IH].
Qed.

Lemma find_if_map (f : iface -> iface) l x : (forall y, if_id (f y) = if_id y) ->
  find_if (map f l) x = option_map f (find_if l x).
Proof.
  intros H. induction l as [|y l IH]; [reflexivity|]. cbn [map find_if]. rewrite H.
  destruct (if_id y =? x)%N; [reflexivity|exact IH].
Qed.

Lemma get_if_unknown : e <> 0%N -> get_if (ScmpReturn.apply_cfault (ScmpReturn.CUnknown e) c) e = None.
Proof.
  intros He. unfold get_if. replace (e =? 0)%N with false by (symmetry; now apply N.eqb_neq).
  cbn [ScmpReturn.apply_cfault ScmpReturn.with_ifs c_ifs]. apply find_if_filter.
Qed.

Lemma get_if_unknown_other x : x <> e ->
  get_if (ScmpReturn.apply_cfault (ScmpReturn.CUnknown e) c) x = get_if c x.
Proof.
  intros Hx. unfold get_if. destruct (x =? 0)%N; [reflexivity|].
  cbn [ScmpReturn.apply_cfault ScmpReturn.with_ifs c_ifs]. now apply find_if_filter_other.
Qed.

Lemma c_ia_fault cf : c_ia (ScmpReturn.apply_cfault cf c) = c_ia c.
Proof.
  destruct cf as [x|x]; cbn [ScmpReturn.apply_cfault]; [|reflexivity].
  destruct (find_if (c_ifs c) x); reflexivity.
Qed.

Lemma c_svcs_fault cf : c_svcs (ScmpReturn.apply_cfault cf c) = c_svcs c.
Proof.
  destruct cf as [x|x]; cbn [ScmpReturn.apply_cfault]; [|reflexivity].
  destruct (find_if (c_ifs c) x); reflexivity.
Qed.

(** the interface that is down: same scope and link type, not up *)
Lemma get_if_down fe : e <> 0%N -> get_if c e = Some fe ->
  get_if (ScmpReturn.apply_cfault (ScmpReturn.CDown e) c) e = Some (ScmpReturn.set_down fe).
Proof.
  intros He G. unfold get_if in *. replace (e =? 0)%N with false in * by (symmetry; now apply N.eqb_neq).
  cbn [ScmpReturn.apply_cfault]. rewrite G. cbn [ScmpReturn.with_ifs c_ifs].
  rewrite find_if_map.
  2:{ intros y. destruct (scope_eqb (if_scope fe) External); [destruct (if_id y =? e)%N|destruct (_ && _)]; reflexivity. }
  rewrite G. cbn [option_map]. f_equal.
  assert (Ie : if_id fe = e).
  { clear -G. induction (c_ifs c) as [|y l IH]; [discriminate|]. cbn [find_if] in G.
    destruct (if_id y =? e)%N eqn:E; [injection G as <-; now apply N.eqb_eq|auto]. }
  destruct (scope_eqb (if_scope fe) External).
  - now rewrite Ie, N.eqb_refl.
  - unfold scope_eqb. now rewrite !N.eqb_refl.
Qed.

(** every interface keeps its link type in a configuration with a link down *)
Lemma lt_of_down x : lt_of (ScmpReturn.apply_cfault (ScmpReturn.CDown e) c) x = lt_of c x.
Proof.
  unfold lt_of, get_if. destruct (x =? 0)%N; [reflexivity|].
  cbn [ScmpReturn.apply_cfault]. destruct (find_if (c_ifs c) e) as [fe|]; [|reflexivity].
  cbn [ScmpReturn.with_ifs c_ifs]. rewrite find_if_map.
  2:{ intros y. destruct (scope_eqb (if_scope fe) External); [destruct (if_id y =? e)%N|destruct (_ && _)]; reflexivity. }
  destruct (find_if (c_ifs c) x) as [f|]; [|reflexivity]. cbn [option_map].
  destruct (scope_eqb (if_scope fe) External); [destruct (if_id f =? e)%N|destruct (_ && _)]; reflexivity.
Qed.

Lemma lt_of_unknown_other x : x <> e ->
  lt_of (ScmpReturn.apply_cfault (ScmpReturn.CUnknown e) c) x = lt_of c x.
Proof. intros Hx. unfold lt_of. now rewrite get_if_unknown_other. Qed.

End Cfg.

(** * The ingress half does not depend on the fault *)
Section Ingress.
Variable macq : N -> N -> N -> N -> N -> option (list N).
Variable c c' : cfg.
Variable now : N.
Variable ing : ingress.
Hypothesis Hia : c_ia c' = c_ia c.

Lemma src_dst_cfg s : validate_src_dst_ia c' ing s = validate_src_dst_ia c ing s.
Proof. unfold validate_src_dst_ia. now rewrite Hia. Qed.

Lemma src_host_cfg s : validate_src_host c' s = validate_src_host c s.
Proof. unfold validate_src_host. now rewrite Hia. Qed.

Lemma ingress_part_cfg q :
  (forall s, s_p s = q -> validate_transit_underlay_src c' ing s = validate_transit_underlay_src c ing s) ->
  ingress_part macq c' now ing q = ingress_part macq c now ing q.
Proof.
  intros HT. unfold ingress_part.
  set (o5 := parse_path q >>= determine_peer >>= validate_hop_expiry now >>= validate_ingress_id ing >>=
             validate_pkt_len).
  destruct o5 as [s5|r5] eqn:O5; [|reflexivity].
  assert (S5 : s_p s5 = q).
  { unfold o5 in O5.
    apply bind_ok in O5 as (s4 & H & E5). apply bind_ok in H as (s3 & H & E4).
    apply bind_ok in H as (s2 & H & E3). apply bind_ok in H as (s1 & H & E2).
    destruct (parse_path_ok _ _ H) as (X1 & _).
    assert (S1 : s_p s1 = q) by (rewrite X1; reflexivity).
    assert (S2 : s_p s2 = q).
    { destruct (determine_peer_ok _ _ E2) as [X|[_ X]]; rewrite X; [cbn [s_p]; exact S1|exact S1]. }
    destruct (validate_hop_expiry_ok _ _ _ E3) as [X3 _].
    destruct (validate_ingress_id_ok _ _ _ E4) as [X4 _].
    destruct (validate_pkt_len_ok _ _ E5) as [X5 _].
    rewrite X5, X4, X3. exact S2. }
  cbn [bind]. rewrite (HT s5 S5).
  destruct (validate_transit_underlay_src c ing s5) as [s6|r6]; [|reflexivity].
  cbn [bind]. rewrite src_dst_cfg.
  destruct (validate_src_dst_ia c ing s6) as [s7|r7]; [|reflexivity].
  cbn [bind]. rewrite src_host_cfg. reflexivity.
Qed.

End Ingress.
