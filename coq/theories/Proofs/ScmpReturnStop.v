(** C10, part 5: the router that answers.  A router whose egress interface is down
    or unknown does everything a healthy router does up to the egress lookup;
    the packet it hands to the slow path is the packet of the path with the
    current hop "between the routers of the AS" — the state part 1 starts from. *)
From Coq Require Import List NArith Bool Arith Lia ZifyBool ZifyN ZifyNat.
From Scion Require Import Lib.Check Lib.Bytes Model.Router Model.Network Model.Prov Model.RouterScmp
  Model.ScmpReturn.
From Scion Require Import Proofs.Router Proofs.ProvStruct Proofs.ProvRender Proofs.ForwardView Proofs.ProvFacts
  Proofs.RouterPass Proofs.ForwardStep.
Import ListNotations.
Import Scion.Model.Router.Router Network Prov.

(** * A faulty configuration *)
Section Cfg.
Variable c : cfg.
Variable e : N.

Lemma find_if_filter l : find_if (filter (fun y => negb (if_id y =? e)%N) l) e = None.
Proof.
  induction l as [|y l IH]; [reflexivity|]. cbn [filter].
  destruct (if_id y =? e)%N eqn:E; cbn [negb]; [exact IH|]. cbn [find_if]. now rewrite E.
Qed.

Lemma find_if_filter_other l x : x <> e ->
  find_if (filter (fun y => negb (if_id y =? e)%N) l) x = find_if l x.
Proof.
  intros Hx. induction l as [|y l IH]; [reflexivity|]. cbn [filter find_if].
  destruct (if_id y =? e)%N eqn:E; cbn [negb].
  - apply N.eqb_eq in E. replace (if_id y =? x)%N with false by (symmetry; apply N.eqb_neq; congruence). exact IH.
  - cbn [find_if]. destruct (if_id y =? x)%N; [reflexivity|exact IH].
Qed.

Lemma find_if_map (f : iface -> iface) l x : (forall y, if_id (f y) = if_id y) ->
  find_if (map f l) x = option_map f (find_if l x).
Proof.
  intros H. induction l as [|y l IH]; [reflexivity|]. cbn [map find_if]. rewrite H.
  destruct (if_id y =? x)%N; [reflexivity|exact IH].
Qed.

Lemma get_if_unknown : e <> 0%N -> get_if (ScmpReturn.apply_cfault (ScmpReturn.CUnknown e) c) e = None.
Proof.
  intros He. unfold get_if. replace (e =? 0)%N with false by (symmetry; now apply N.eqb_neq).
  cbn [ScmpReturn.apply_cfault ScmpReturn.with_ifs c_ifs]. apply find_if_filter.
Qed.

Lemma get_if_unknown_other x : x <> e ->
  get_if (ScmpReturn.apply_cfault (ScmpReturn.CUnknown e) c) x = get_if c x.
Proof.
  intros Hx. unfold get_if. destruct (x =? 0)%N; [reflexivity|].
  cbn [ScmpReturn.apply_cfault ScmpReturn.with_ifs c_ifs]. now apply find_if_filter_other.
Qed.

Lemma c_ia_fault cf : c_ia (ScmpReturn.apply_cfault cf c) = c_ia c.
Proof.
  destruct cf as [x|x]; cbn [ScmpReturn.apply_cfault]; [|reflexivity].
  destruct (find_if (c_ifs c) x); reflexivity.
Qed.

Lemma c_svcs_fault cf : c_svcs (ScmpReturn.apply_cfault cf c) = c_svcs c.
Proof.
  destruct cf as [x|x]; cbn [ScmpReturn.apply_cfault]; [|reflexivity].
  destruct (find_if (c_ifs c) x); reflexivity.
Qed.

(** the interface that is down: same scope and link type, not up *)
Lemma get_if_down fe : e <> 0%N -> get_if c e = Some fe ->
  get_if (ScmpReturn.apply_cfault (ScmpReturn.CDown e) c) e = Some (ScmpReturn.set_down fe).
Proof.
  intros He G. unfold get_if in *. replace (e =? 0)%N with false in * by (symmetry; now apply N.eqb_neq).
  cbn [ScmpReturn.apply_cfault]. rewrite G. cbn [ScmpReturn.with_ifs c_ifs].
  rewrite find_if_map.
  2:{ intros y. destruct (scope_eqb (if_scope fe) External); [destruct (if_id y =? e)%N|destruct (_ && _)]; reflexivity. }
  rewrite G. cbn [option_map]. f_equal.
  assert (Ie : if_id fe = e).
  { clear -G. induction (c_ifs c) as [|y l IH]; [discriminate|]. cbn [find_if] in G.
    destruct (if_id y =? e)%N eqn:E; [injection G as <-; now apply N.eqb_eq|auto]. }
  destruct (scope_eqb (if_scope fe) External).
  - now rewrite Ie, N.eqb_refl.
  - unfold scope_eqb. now rewrite !N.eqb_refl.
Qed.

(** every interface keeps its link type in a configuration with a link down *)
Lemma lt_of_down x : lt_of (ScmpReturn.apply_cfault (ScmpReturn.CDown e) c) x = lt_of c x.
Proof.
  unfold lt_of, get_if. destruct (x =? 0)%N; [reflexivity|].
  cbn [ScmpReturn.apply_cfault]. destruct (find_if (c_ifs c) e) as [fe|]; [|reflexivity].
  cbn [ScmpReturn.with_ifs c_ifs]. rewrite find_if_map.
  2:{ intros y. destruct (scope_eqb (if_scope fe) External); [destruct (if_id y =? e)%N|destruct (_ && _)]; reflexivity. }
  destruct (find_if (c_ifs c) x) as [f|]; [|reflexivity]. cbn [option_map].
  destruct (scope_eqb (if_scope fe) External); [destruct (if_id f =? e)%N|destruct (_ && _)]; reflexivity.
Qed.

(** an external link down leaves the other interfaces alone *)
Lemma get_if_down_other fe x : e <> 0%N -> get_if c e = Some fe ->
  scope_eqb (if_scope fe) External = true -> x <> e ->
  get_if (ScmpReturn.apply_cfault (ScmpReturn.CDown e) c) x = get_if c x.
Proof.
  intros He G Sc Hx. unfold get_if in *. destruct (x =? 0)%N; [reflexivity|].
  replace (e =? 0)%N with false in G by (symmetry; now apply N.eqb_neq).
  cbn [ScmpReturn.apply_cfault]. rewrite G. cbn [ScmpReturn.with_ifs c_ifs]. rewrite Sc. clear G.
  induction (c_ifs c) as [|y l IH]; [reflexivity|]. cbn [map find_if].
  destruct (if_id y =? e)%N eqn:E.
  - cbn [ScmpReturn.set_down if_id]. apply N.eqb_eq in E.
    replace (if_id y =? x)%N with false by (symmetry; apply N.eqb_neq; congruence). exact IH.
  - destruct (if_id y =? x)%N; [reflexivity|exact IH].
Qed.

Lemma lt_of_unknown_other x : x <> e ->
  lt_of (ScmpReturn.apply_cfault (ScmpReturn.CUnknown e) c) x = lt_of c x.
Proof. intros Hx. unfold lt_of. now rewrite get_if_unknown_other. Qed.

End Cfg.

(** * The ingress half does not depend on the fault *)
Section Ingress.
Variable macq : N -> N -> N -> N -> N -> option (list N).
Variable c c' : cfg.
Variable now : N.
Variable ing : ingress.
Hypothesis Hia : c_ia c' = c_ia c.

Lemma src_dst_cfg s : validate_src_dst_ia c' ing s = validate_src_dst_ia c ing s.
Proof. unfold validate_src_dst_ia. now rewrite Hia. Qed.

Lemma src_host_cfg s : validate_src_host c' s = validate_src_host c s.
Proof. unfold validate_src_host. now rewrite Hia. Qed.

Lemma ingress_part_cfg q :
  (forall s, s_p s = q -> validate_transit_underlay_src c' ing s = validate_transit_underlay_src c ing s) ->
  ingress_part macq c' now ing q = ingress_part macq c now ing q.
Proof.
  intros HT. unfold ingress_part.
  set (o5 := parse_path q >>= determine_peer >>= validate_hop_expiry now >>= validate_ingress_id ing >>=
             validate_pkt_len).
  destruct o5 as [s5|r5] eqn:O5; [|reflexivity].
  assert (S5 : s_p s5 = q).
  { unfold o5 in O5.
    apply bind_ok in O5 as (s4 & H & E5). apply bind_ok in H as (s3 & H & E4).
    apply bind_ok in H as (s2 & H & E3). apply bind_ok in H as (s1 & H & E2).
    destruct (parse_path_ok _ _ H) as (X1 & _).
    assert (S1 : s_p s1 = q) by (rewrite X1; reflexivity).
    assert (S2 : s_p s2 = q).
    { destruct (determine_peer_ok _ _ E2) as [X|[_ X]]; rewrite X; [cbn [s_p]; exact S1|exact S1]. }
    destruct (validate_hop_expiry_ok _ _ _ E3) as [X3 _].
    destruct (validate_ingress_id_ok _ _ _ E4) as [X4 _].
    destruct (validate_pkt_len_ok _ _ E5) as [X5 _].
    rewrite X5, X4, X3. exact S2. }
  cbn [bind]. rewrite (HT s5 S5).
  destruct (validate_transit_underlay_src c ing s5) as [s6|r6]; [|reflexivity].
  cbn [bind]. rewrite src_dst_cfg.
  destruct (validate_src_dst_ia c ing s6) as [s7|r7]; [|reflexivity].
  cbn [bind]. rewrite src_host_cfg. reflexivity.
Qed.

End Ingress.

(** * The state of a router of the path when it looks up the egress interface *)
Section Stop.
Variable mac : N -> N -> N -> N -> N -> N -> list N.
Variable t : topology.
Variable now : N.
Variable p : prov.
Variable pp : pparams.
Hypothesis HG : good mac t p.
Hypothesis Hep : endpoints_ok t p pp = true.
Hypothesis Hexp : all_unexpired now p = true.

Notation n := (nhops p).
Notation js := (seg_idx (lens p)).
Notation nsegs := (length (pv_segs p)).
Notation macq := (macq_of mac).
Notation Hs := (Hshape mac t p HG).
Notation HT := (Htot p Hs).
Notation HP := (Hpos p Hs).
Notation asof := (as_of t p).
Notation nifof := (nif_of t p).
Notation View := (view p pp n nsegs).
Notation eff := (ForwardStep.eff p).
Notation in_rtr := (ForwardStep.in_rtr t p).
Notation eg_rtr := (ForwardStep.eg_rtr t p).
Notation arrives := (ForwardStep.arrives p).

(** the state in which [after_xover] (egress lookup, link types, alert, BFD) starts *)
Definition stop_state (kc : nat) (xo : bool) : st :=
  mkSt (render p pp kc true) (rhop (hop p kc)) (rinfo p kc true (js kc)) (peerhop p kc) xo 0.

(** arrival from the host or from the previous AS *)
Lemma arrive_state q k ing r :
  View q k k false -> (S k < n)%nat -> arrives k ing -> (k = 0%nat -> r = eg_rtr (eff k)) ->
  exists s1 xo,
    ingress_part (macq (a_key (asof k))) (cfg_of (asof k) r) now ing q = Ok s1 /\
    s_p s1 = render p pp k true /\
    (p_dst_ia q =? a_ia (asof k))%N = false /\
    xover_part (macq (a_key (asof k))) now s1 = Ok (stop_state (eff k) xo) /\
    asof (eff k) = asof k /\ (S (eff k) < n)%nat /\ crosses p (eff k) = true /\
    validate_egress (from0 ing) (lt_of (cfg_of (asof k) r) (ing_ifid ing))
                    (Some (if_of r (nifof (eff k) (tr_eg p (eff k))))) xo = EgOk.
Proof.
  intros V Hk Ha H0. assert (Hk' : (k < n)%nat) by lia.
  pose proof (arrives_from0 mac t now p pp HG Hep Hexp k ing Hk' Ha) as F0.
  destruct (as_of_ok _ _ _ HG k Hk') as [Ak Ik].
  assert (Hle : (eff k < n)%nat).
  { unfold ForwardStep.eff. destruct (crosses p k || Nat.eqb (S k) n); lia. }
  assert (Hll : (k < n)%nat /\ (js k < nsegs)%nat) by (split; [lia|now apply (js_lt p Hs)]).
  destruct Hll as [Hlk Hjk].
  destruct (ingress_arrive mac t now p pp HG Hep Hexp n nsegs q k ing r V Hk' Hlk Hjk Ha) as (q1 & Ein & V1 & Fr1).
  pose proof (view_full p pp Hs q1 k true V1) as Eq1.
  exists (mkSt q1 (rhop (hop p k)) (rinfo p k true (js k)) (peerhop p k) false 0).
  assert (Dst : (p_dst_ia q =? a_ia (asof k))%N = false).
  { rewrite (v_dst_ia _ _ _ _ _ _ _ _ V), Ik.
    pose proof Hep as Hep'. unfold endpoints_ok in Hep'.
    apply andb_true_iff in Hep' as [E _]. apply andb_true_iff in E as [E _].
    apply andb_true_iff in E as [_ Ed]. apply N.eqb_eq in Ed. rewrite Ed.
    apply N.eqb_neq. intros X. apply (ia_not_dst _ _ _ HG k Hk). now symmetry. }
  pose proof (view_meta p pp _ _ _ _ _ _ true V1) as M1.
  assert (Xo : is_xover q1 = is_last p k).
  { rewrite (is_xover_meta _ _ M1), (is_xover_render p pp Hs k true Hk').
    replace (Nat.eqb (S k) n) with false by (symmetry; apply Nat.eqb_neq; lia). reflexivity. }
  unfold ForwardStep.eff in *. destruct (crosses p k) eqn:C; cbn [orb] in *.
  - (* no segment change *)
    exists false. split; [exact Ein|]. split; [exact Eq1|]. split; [exact Dst|].
    split.
    { rewrite xover_part_skip.
      - unfold stop_state. now rewrite Eq1.
      - cbn [s_p s_peer]. rewrite Xo. destruct (is_last p k) eqn:L; [|reflexivity].
        now rewrite (peer_exit mac t p HG k Hk C L). }
    split; [reflexivity|]. split; [exact Hk|]. split; [exact C|].
    rewrite F0. destruct Ha as [[-> ->]|(H1 & Cp & ->)].
    + cbn [Nat.eqb]. apply veg_int. symmetry. now apply H0.
    + replace (Nat.eqb k 0) with false by (symmetry; apply Nat.eqb_neq; lia).
      cbn [ing_ifid]. destruct (ingress_type mac t now p pp HG Hep Hexp k r H1 Hk' Cp) as (Lt & _ & _). rewrite Lt.
      apply veg_ext. destruct (link_fact _ _ _ HG k Hk C) as (_ & _ & Tf & _). rewrite Tf.
      now apply (types_intra _ _ _ HG).
  - (* effective segment change *)
    replace (Nat.eqb (S k) n) with false in * by (symmetry; apply Nat.eqb_neq; lia).
    destruct (after_junction mac t now p pp HG Hep Hexp k Hk C) as (C1 & N3 & Ph1 & Ph & L & J & K1).
    destruct Ha as [[-> _]|(_ & Cp & ->)]; [lia|].
    destruct (types_xover _ _ _ HG k K1 ltac:(lia) Hk Cp C) as (Tx & Iax).
    assert (As1 : asof (S k) = asof k) by (unfold as_of; now rewrite Iax).
    exists true. split; [exact Ein|]. split; [exact Eq1|]. split; [exact Dst|].
    assert (V2 : View (inc_path q1) (S k) (S k) true).
    { apply (view_reinfo p pp n nsegs _ (S k) k true (S k) true).
      - now apply (view_inc p pp Hs).
      - intros j _ Hjs. apply rinfo_eq. now apply (sid_xover _ _ _ HG). }
    split.
    { rewrite Ph.
      rewrite (xover_part_pass _ now _ (rhop (hop p (S k))) (rinfo p (S k) true (js (S k)))).
      - cbn [s_p s_peer s_eg]. unfold stop_state. rewrite (view_full p pp Hs _ _ _ V2). now rewrite Ph1.
      - cbn [s_p s_peer]. now rewrite Xo, L.
      - cbn [s_p]. rewrite (v_ch _ _ _ _ _ _ _ _ V1).
        replace (N.of_nat k + 1)%N with (N.of_nat (S k)) by lia. rewrite nthN_of_nat.
        apply (v_hops _ _ _ _ _ _ _ _ V1); assumption.
      - cbn [s_p]. rewrite (inf_index_meta _ _ _ M1), (v_ch _ _ _ _ _ _ _ _ V1).
        replace (N.of_nat k + 1)%N with (N.of_nat (S k)) by lia.
        rewrite (inf_index_render p pp Hs k true (S k) Hk). rewrite nthN_of_nat.
        pose proof (js_lt p Hs (S k) Hk) as Jl.
        rewrite (v_infos _ _ _ _ _ _ _ _ V1) by assumption.
        f_equal. apply rinfo_eq. apply (sid_xover _ _ _ HG); assumption.
      - now apply (unexpired now p Hexp).
      - rewrite <- As1. apply (mac_ok mac t p HG); [assumption|]. now apply (sid_cur_mid p Hs). }
    split; [exact As1|]. split; [exact N3|]. split; [exact C1|].
    rewrite F0. replace (Nat.eqb k 0) with false by (symmetry; apply Nat.eqb_neq; lia).
    cbn [ing_ifid]. destruct (ingress_type mac t now p pp HG Hep Hexp k r K1 Hk' Cp) as (Lt & _ & _). rewrite Lt.
    apply veg_ext. destruct (link_fact _ _ _ HG (S k) N3 C1) as (_ & _ & Tf & _). rewrite Tf. exact Tx.
Qed.

(** ** the egress lookup of the faulty router *)
Definition down_req (ext : bool) : spreq :=
  if ext then SpScmp ScmpExternalInterfaceDown 0 0 else SpScmp ScmpInternalConnectivityDown 0 0.

Definition unknown_req (consdir : bool) (q : pkt) : spreq :=
  SpScmp ScmpParameterProblem
         (if consdir then CodeUnknownHopFieldEgress else CodeUnknownHopFieldIngress) (hop_ptr q).

Lemma after_xover_unknown c' ing s :
  get_if c' (egress_interface s) = None ->
  after_xover c' ing s =
  Stop (SlowPath (unknown_req (i_consdir (s_inf s)) (s_p s)) (egress_interface s) (s_p s)).
Proof.
  intros G. unfold after_xover, set_egress. cbn [bind].
  unfold validate_egress_id. cbn [s_eg s_xover s_inf s_p]. rewrite G.
  unfold validate_egress. reflexivity.
Qed.

Lemma after_xover_down c' ing s f :
  get_if c' (egress_interface s) = Some f ->
  validate_egress (from0 ing) (lt_of c' (ing_ifid ing)) (Some f) (s_xover s) = EgOk ->
  h_ialert (s_hop s) = false -> h_ealert (s_hop s) = false -> if_up f = false ->
  after_xover c' ing s =
  Stop (SlowPath (down_req (scope_eqb (if_scope f) External)) (egress_interface s) (s_p s)).
Proof.
  intros G V Hi He Up. unfold after_xover, set_egress. cbn [bind].
  unfold validate_egress_id. cbn [s_eg s_xover s_inf s_p]. rewrite G, V. cbn [bind].
  unfold handle_egress_router_alert. cbn [s_inf s_hop]. rewrite Hi, He.
  destruct (i_consdir (s_inf s)); cbn [negb bind];
    unfold validate_egress_up, egress_if; cbn [s_eg]; rewrite G, Up;
    unfold down_req, slow; cbn [s_eg s_p]; destruct (scope_eqb (if_scope f) External); reflexivity.
Qed.

(** what the router with the faulty egress interface hands to its slow path *)
Definition fault_req (cf : ScmpReturn.cfault) (kc : nat) (own : bool) : spreq :=
  match cf with
  | ScmpReturn.CUnknown _ => unknown_req (cons p kc) (render p pp kc true)
  | ScmpReturn.CDown _ => down_req own
  end.

Definition fault_if (cf : ScmpReturn.cfault) : N :=
  match cf with ScmpReturn.CUnknown e => e | ScmpReturn.CDown e => e end.

Lemma stop_state_fault c0 cf ing kc xo r :
  (S kc < n)%nat -> crosses p kc = true -> c0 = cfg_of (asof kc) r ->
  fault_if cf = tr_eg p kc ->
  validate_egress (from0 ing) (lt_of c0 (ing_ifid ing)) (Some (if_of r (nifof kc (tr_eg p kc)))) xo = EgOk ->
  after_xover (ScmpReturn.apply_cfault cf c0) ing (stop_state kc xo) =
  Stop (SlowPath (fault_req cf kc (eg_rtr kc =? r)%N) (tr_eg p kc) (render p pp kc true)).
Proof.
  intros Hk C -> Fe Hv. assert (Hk' : (kc < n)%nat) by lia.
  destruct (link_fact _ _ _ HG kc Hk C) as (Ff & _ & _ & _ & Ez & _ & Up & _).
  set (f := nifof kc (tr_eg p kc)) in *.
  assert (Eg : egress_interface (stop_state kc xo) = tr_eg p kc).
  { unfold egress_interface, stop_state. cbn [s_inf s_hop]. rewrite (rinfo_consdir p kc kc true). reflexivity. }
  assert (Gi : get_if (cfg_of (asof kc) r) (tr_eg p kc) = Some (if_of r f)) by (apply get_if_cfg; assumption).
  destruct cf as [e|e]; cbn [fault_if] in Fe; subst e; cbn [fault_req].
  - rewrite (after_xover_down _ ing (stop_state kc xo) (ScmpReturn.set_down (if_of r f))).
    + rewrite Eg. cbn [stop_state s_p]. do 3 f_equal.
      unfold ScmpReturn.set_down. cbn [if_scope]. unfold if_of, ForwardStep.eg_rtr. fold f.
      destruct (ni_owner f =? r)%N; reflexivity.
    + rewrite Eg. now apply get_if_down.
    + rewrite lt_of_down. cbn [stop_state s_xover].
      unfold ScmpReturn.set_down. unfold validate_egress in *. cbn [if_scope if_lt]. exact Hv.
    + reflexivity.
    + reflexivity.
    + reflexivity.
  - rewrite after_xover_unknown.
    + rewrite Eg. cbn [stop_state s_p s_inf]. now rewrite (rinfo_consdir p kc kc true).
    + rewrite Eg. now apply get_if_unknown.
Qed.

(** arrival from the host or the previous AS at the router whose egress interface is faulty *)
Theorem fault_arrive q k ing r cf :
  View q k k false -> (S k < n)%nat -> arrives k ing -> (k = 0%nat -> r = eg_rtr (eff k)) ->
  fault_if cf = tr_eg p (eff k) ->
  process_scion (macq (a_key (asof k))) (ScmpReturn.apply_cfault cf (cfg_of (asof k) r)) now ing q =
  SlowPath (fault_req cf (eff k) (eg_rtr (eff k) =? r)%N) (tr_eg p (eff k)) (render p pp (eff k) true).
Proof.
  intros V Hk Ha H0 Fe. assert (Hk' : (k < n)%nat) by lia.
  destruct (arrive_state q k ing r V Hk Ha H0) as (s1 & xo & Ein & S1 & Dst & Ex & As & Hn & C & Hv).
  pose proof (arrives_from0 mac t now p pp HG Hep Hexp k ing Hk' Ha) as F0.
  unfold process_scion.
  rewrite (ingress_part_cfg (macq (a_key (asof k))) (cfg_of (asof k) r) _ now ing (c_ia_fault _ cf) q).
  2:{ intros s Sp. unfold validate_transit_underlay_src. rewrite Sp. unfold is_first_hop.
      rewrite (v_ch _ _ _ _ _ _ _ _ V), F0.
      destruct k as [|k0]; [reflexivity|]. cbn [Nat.eqb negb]. now rewrite orb_true_r. }
  rewrite Ein. rewrite c_ia_fault. cbn [cfg_of c_ia]. rewrite Dst.
  rewrite egress_part_split, Ex. cbn [bind].
  rewrite (stop_state_fault (cfg_of (asof k) r) cf ing (eff k) xo r Hn C); try assumption;
    try reflexivity; now rewrite As.
Qed.

(** ** the egress router of an AS, reached over the sibling link *)

(** its ingress half, for any configuration that agrees with the healthy one on the ISD-AS and
    on the interface through which the packet entered the AS *)
Lemma ingress_mid c' q k k0 r :
  View q k k true -> (S k < n)%nat -> crosses p k = true ->
  ForwardStep.entry p k = k0 -> (1 <= k0)%nat -> crosses p (k0 - 1) = true -> asof k0 = asof k ->
  in_rtr k0 <> r ->
  c_ia c' = ia p k -> get_if c' (tr_in p k0) = get_if (cfg_of (asof k) r) (tr_in p k0) ->
  ingress_part (macq (a_key (asof k))) c' now (InSib (in_rtr k0 + 1)) q =
  Ok (mkSt q (rhop (hop p k)) (rinfo p k true (js k)) (peerhop p k) false 0).
Proof.
  intros V Hk C He K0 C0 As0 Hne Cia Gi. assert (Hk' : (k < n)%nat) by lia.
  assert (K1 : (1 <= k)%nat).
  { unfold ForwardStep.entry in He. destruct (is_first p k && negb (peerhop p k)); lia. }
  assert (Hk0 : (k0 < n)%nat).
  { unfold ForwardStep.entry in He. destruct (is_first p k && negb (peerhop p k)); lia. }
  destruct (as_of_ok _ _ _ HG k Hk') as [Ak Ik].
  set (ing := InSib (in_rtr k0 + 1)).
  set (h := rhop (hop p k)). set (i := rinfo p k true (js k)). set (pr := peerhop p k).
  pose proof (view_meta p pp _ _ _ _ _ _ true V) as M.
  pose proof Hep as Hep'. unfold endpoints_ok in Hep'.
  apply andb_true_iff in Hep' as [E _]. apply andb_true_iff in E as [E _].
  apply andb_true_iff in E as [Es Ed]. apply N.eqb_eq in Es, Ed.
  pose proof (js_lt p Hs k Hk') as Hj.
  apply (ingress_part_pass _ c' now ing q h i pr).
  - apply (parse_path_view p pp Hs n nsegs q k true V Hk' Hk' Hj).
  - apply (determine_peer_view p pp Hs n nsegs q k k true true h V Hk').
  - now apply (unexpired now p Hexp).
  - now left.
  - now rewrite (v_pay_len _ _ _ _ _ _ _ _ V), (v_pay_actual _ _ _ _ _ _ _ _ V).
  - unfold validate_transit_underlay_src. cbn [s_p]. unfold is_first_hop.
    rewrite (v_ch _ _ _ _ _ _ _ _ V).
    replace (N.of_nat k =? 0)%N with false by lia. cbn [from0 ing ing_ifid N.eqb negb orb].
    assert (II : ingress_interface (mkSt q h i pr false 0) = Some (tr_in p k0)).
    { unfold ingress_interface. cbn [s_p s_peer s_inf s_hop].
      rewrite (first_after_xover_meta _ _ M), (first_after_xover_render p pp Hs k true Hk').
      replace (Nat.eqb k 0) with false by (symmetry; apply Nat.eqb_neq; lia). cbn [negb andb].
      unfold ForwardStep.entry in He. unfold pr. rewrite andb_comm.
      destruct (is_first p k && negb (peerhop p k)) eqn:X.
      - apply andb_true_iff in X as [F _]. subst k0.
        destruct k as [|k]; [lia|]. replace (S k - 1)%nat with k in * by lia.
        destruct (prev_next p HP HT k Hk' F) as (_ & J).
        rewrite (v_ci _ _ _ _ _ _ _ _ V), (v_ch _ _ _ _ _ _ _ _ V). rewrite J.
        replace (N.of_nat (S (js k)) - 1)%N with (N.of_nat (js k)) by lia.
        replace (N.of_nat (S k) - 1)%N with (N.of_nat k) by lia.
        rewrite !nthN_of_nat.
        pose proof (js_lt p Hs k Hk0) as Jl.
        rewrite (v_infos _ _ _ _ _ _ _ _ V) by (lia || assumption).
        rewrite (v_hops _ _ _ _ _ _ _ _ V) by (lia || assumption).
        rewrite (rinfo_consdir p k (S k) true). unfold tr_in. reflexivity.
      - subst k0. unfold i, h. rewrite (rinfo_consdir p k k true). unfold tr_in. reflexivity. }
    rewrite II.
    destruct (ingress_type mac t now p pp HG Hep Hexp k0 r K0 Hk0 C0) as (_ & Nz & Fg). rewrite As0 in Fg.
    rewrite Gi. rewrite (get_if_cfg _ _ _ _ Nz Fg).
    unfold if_of.
    replace (ni_owner (nifof k0 (tr_in p k0)) =? r)%N with false
      by (symmetry; apply N.eqb_neq; exact Hne).
    cbn [if_link if_scope ing_link]. unfold ForwardStep.in_rtr. now rewrite N.eqb_refl.
  - unfold validate_src_dst_ia. cbn [s_p]. unfold is_first_hop.
    rewrite (v_ch _ _ _ _ _ _ _ _ V), (v_dst_ia _ _ _ _ _ _ _ _ V).
    rewrite Cia. cbn [from0 ing ing_ifid N.eqb]. rewrite Ed.
    replace (N.of_nat k =? 0)%N with false by lia. cbn [andb].
    replace (ia p (n - 1) =? ia p k)%N with false
      by (symmetry; apply N.eqb_neq; intros X; apply (ia_not_dst _ _ _ HG k Hk); now symmetry).
    reflexivity.
  - unfold validate_src_host. cbn [s_p]. rewrite (v_src_ia _ _ _ _ _ _ _ _ V).
    rewrite Cia, Es.
    replace (ia p 0 =? ia p k)%N with false
      by (symmetry; apply N.eqb_neq; intros X; apply (ia_not_src _ _ _ HG k); [lia|lia|now symmetry]).
    reflexivity.
  - cbn [from0 ing ing_ifid N.eqb negb andb]. now rewrite andb_false_r.
  - cbn [s_inf].
    apply (mac_ok mac t p HG); [assumption|]. now apply (sid_cur_mid p Hs).
  - reflexivity.
  - reflexivity.
Qed.

Theorem fault_mid q k k0 cf :
  View q k k true -> (S k < n)%nat -> crosses p k = true ->
  ForwardStep.entry p k = k0 -> (1 <= k0)%nat -> crosses p (k0 - 1) = true -> asof k0 = asof k ->
  in_rtr k0 <> eg_rtr k ->
  fault_if cf = tr_eg p k ->
  process_scion (macq (a_key (asof k))) (ScmpReturn.apply_cfault cf (cfg_of (asof k) (eg_rtr k))) now
                (InSib (in_rtr k0 + 1)) q =
  SlowPath (fault_req cf k true) (tr_eg p k) (render p pp k true).
Proof.
  intros V Hk C He K0 C0 As0 Hne Fe. assert (Hk' : (k < n)%nat) by lia.
  assert (Hk0 : (k0 < n)%nat).
  { unfold ForwardStep.entry in He. destruct (is_first p k && negb (peerhop p k)); lia. }
  destruct (as_of_ok _ _ _ HG k Hk') as [Ak Ik].
  destruct (link_fact _ _ _ HG k Hk C) as (Ff & _ & _ & _ & Ez & _ & Up & _).
  set (r := eg_rtr k) in *. set (c0 := cfg_of (asof k) r).
  assert (Gi0 : get_if c0 (tr_eg p k) = Some (if_of r (nifof k (tr_eg p k)))) by (apply get_if_cfg; assumption).
  assert (Sc : scope_eqb (if_scope (if_of r (nifof k (tr_eg p k)))) External = true).
  { unfold if_of, r, ForwardStep.eg_rtr. now rewrite N.eqb_refl. }
  destruct (ingress_type mac t now p pp HG Hep Hexp k0 r K0 Hk0 C0) as (_ & Nz & Fg). rewrite As0 in Fg.
  assert (Ne : tr_in p k0 <> tr_eg p k).
  { intros X. apply Hne. unfold r, ForwardStep.in_rtr, ForwardStep.eg_rtr. rewrite X.
    rewrite X in Fg. rewrite Ff in Fg. injection Fg as Fg. now rewrite Fg. }
  assert (Gi : get_if (ScmpReturn.apply_cfault cf c0) (tr_in p k0) = get_if c0 (tr_in p k0)).
  { destruct cf as [e|e]; cbn [fault_if] in Fe; subst e.
    - now apply (get_if_down_other c0 (tr_eg p k) (if_of r (nifof k (tr_eg p k)))).
    - now apply get_if_unknown_other. }
  unfold process_scion.
  rewrite (ingress_mid (ScmpReturn.apply_cfault cf c0) q k k0 r V Hk C He K0 C0 As0 Hne).
  2:{ rewrite c_ia_fault. unfold c0. cbn [cfg_of c_ia]. exact Ik. }
  2:{ exact Gi. }
  rewrite (v_dst_ia _ _ _ _ _ _ _ _ V). rewrite c_ia_fault. unfold c0 at 1. cbn [cfg_of c_ia]. rewrite Ik.
  pose proof Hep as Hep'. unfold endpoints_ok in Hep'.
  apply andb_true_iff in Hep' as [E _]. apply andb_true_iff in E as [E _].
  apply andb_true_iff in E as [_ Ed]. apply N.eqb_eq in Ed. rewrite Ed.
  replace (ia p (n - 1) =? ia p k)%N with false
    by (symmetry; apply N.eqb_neq; intros X; apply (ia_not_dst _ _ _ HG k Hk); now symmetry).
  rewrite egress_part_split.
  pose proof (view_meta p pp _ _ _ _ _ _ true V) as M.
  rewrite xover_part_skip.
  2:{ cbn [s_p s_peer]. rewrite (is_xover_meta _ _ M), (is_xover_render p pp Hs k true Hk').
      replace (Nat.eqb (S k) n) with false by (symmetry; apply Nat.eqb_neq; lia). cbn [negb andb].
      destruct (is_last p k) eqn:L; [|reflexivity]. now rewrite (peer_exit mac t p HG k Hk C L). }
  cbn [bind]. rewrite (view_full p pp Hs q k true V). fold (stop_state k false).
  rewrite (stop_state_fault c0 cf (InSib (in_rtr k0 + 1)) k false r Hk C eq_refl Fe).
  - unfold r. now rewrite N.eqb_refl.
  - cbn [from0 ing_ifid N.eqb]. apply veg_int. reflexivity.
Qed.

End Stop.
