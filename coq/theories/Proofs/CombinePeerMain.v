(** C02, layer 3: solutions of the path combinator over a peering link.  Which solutions have
    peering edges (exactly [up; down], both cut at mutually announced peer entries), and that the
    provenance path of such a solution is well formed, renders to the packet built from the
    combinator's path and has the path metadata as its interface list. *)
From Coq Require Import List NArith Bool Arith Lia.
From Scion Require Import Lib.Check Model.Router Model.Network Model.Prov.
From Scion Require Import Model.Segment Model.SegID Model.CombSpec Model.Combinator Model.CombProv.
From Scion Require Import Proofs.SegID.
From Scion Require Import Proofs.CombinatorGraph Proofs.CombinatorRender Proofs.CombinatorPaths
  Proofs.CombinatorIfs Proofs.CombinatorSpec.
From Scion Require Import Proofs.ProvStruct Proofs.ProvRender Proofs.ForwardView Proofs.ProvFacts
  Proofs.ProvSlices Proofs.ProvLoopFree Proofs.ProvPeer Proofs.CombineProv Proofs.CombineProvMain
  Proofs.CombinePeer.
Import ListNotations.
Import CombProv.
Import Segment CombSpec Combinator.
Local Open Scope N_scope.

Definition third (v : vertex) : N := match v with (_, _, i, _, _) => i end.

Lemma third_ia x : third (v_ia x) = 0.
Proof. reflexivity. Qed.

(** * Which edges of a solution are peering edges *)
Section Edges.
Variable mac : N -> N -> N -> N -> N -> N -> list N.
Variable t : Nw.topology.
Hypothesis Hwt : Nw.wf_topo t = true.
Variables ups cores downs : list (N * segment).
Hypothesis HBu : Forall (beaconed mac t false) (segs_of ups).
Hypothesis HBc : Forall (beaconed mac t true) (segs_of cores).
Hypothesis HBd : Forall (beaconed mac t false) (segs_of downs).
Notation segs := (insegs ups cores downs).

Lemma seg_facts e : from_segs segs e ->
  exists s, tuple_of s e /\ e_seg e = s /\ beaconed mac t (is_core e) (is_seg (e_seg e)) /\ edge_good e.
Proof.
  intros (s & Hs & Ht). exists s. split; [exact Ht|].
  pose proof (tuple_seg _ _ Ht) as Es. split; [exact Es|]. pose proof (insegs_seg_in _ _ _ _ Hs) as Hr.
  assert (B : beaconed mac t (is_core e) (is_seg s)).
  { unfold is_core. rewrite Es. rewrite Forall_forall in HBu, HBc, HBd.
    destruct (is_ty s); [now apply HBu|now apply HBc|now apply HBd]. }
  rewrite Es. split; [exact B|]. eapply tuple_good; [exact Ht|]. apply validate_ne. apply B.
Qed.

(** a peering edge: what its two vertices are *)
Lemma peer_edge_facts e k : from_segs segs e -> e_peer e = S k ->
  beaconed mac t false (is_seg (e_seg e)) /\ edge_good e /\
  exists pk, nth_error (ae_peers (edge_cut e)) k = Some pk /\
    h_in (pe_hop pk) <> 0 /\ pe_if pk <> 0 /\
    ((is_ty (e_seg e) = Up /\ e_src e = v_ia (last_ia (is_seg (e_seg e))) /\
      e_dst e = v_peer (ae_ia (edge_cut e)) (h_in (pe_hop pk)) (pe_ia pk) (pe_if pk)) \/
     (is_ty (e_seg e) = Down /\
      e_src e = v_rev (v_peer (ae_ia (edge_cut e)) (h_in (pe_hop pk)) (pe_ia pk) (pe_if pk)) /\
      e_dst e = v_ia (last_ia (is_seg (e_seg e))))).
Proof.
  intros F Pk. destruct (seg_facts e F) as (s & Ht & Es & B & G).
  destruct (pr_tuple s e k Ht Pk) as (_ & Nc & a & p0 & Ha & Hp & Cases).
  assert (Ic : is_core e = false) by (unfold is_core; rewrite Es; destruct (is_ty s); congruence).
  rewrite Ic in B. split; [exact B|]. split; [exact G|].
  destruct (peer_link mac t Hwt e B G k Pk) as (pk & _ & _ & Hpk & _ & _ & _ & _ & _ & _ & Z1 & Z2).
  assert (Ec : edge_cut e = a).
  { unfold edge_cut, entries. rewrite Es. now apply nth_error_nth. }
  rewrite Ec in Hpk. assert (p0 = pk) by congruence. subst p0.
  exists pk. rewrite Ec, Es. repeat split; assumption.
Qed.

Lemma edge_class e : from_segs segs e ->
  (third (e_src e) <> 0 -> exists k, e_peer e = S k /\ is_ty (e_seg e) = Down) /\
  (third (e_dst e) <> 0 -> exists k, e_peer e = S k /\ is_ty (e_seg e) = Up) /\
  (forall k, e_peer e = S k ->
     (is_ty (e_seg e) = Up /\ third (e_src e) = 0 /\ third (e_dst e) <> 0) \/
     (is_ty (e_seg e) = Down /\ third (e_src e) <> 0 /\ third (e_dst e) = 0)).
Proof.
  intros F.
  assert (C : forall k, e_peer e = S k ->
     (is_ty (e_seg e) = Up /\ third (e_src e) = 0 /\ third (e_dst e) <> 0) \/
     (is_ty (e_seg e) = Down /\ third (e_src e) <> 0 /\ third (e_dst e) = 0)).
  { intros k Pk. destruct (peer_edge_facts e k F Pk) as (_ & _ & pk & _ & Z1 & Z2 & [(Ty & S' & D)|(Ty & S' & D)]).
    - left. rewrite S', D. cbn. auto.
    - right. rewrite S', D. cbn. auto. }
  destruct (e_peer e) as [|k] eqn:Pk.
  - destruct (seg_facts e F) as (s & Ht & Es & _ & _).
    destruct (np_tuple s e Ht Pk) as (_ & Cases).
    assert (Z : third (e_src e) = 0 /\ third (e_dst e) = 0).
    { destruct Cases as [(_ & _ & S' & D)|[(_ & _ & S' & D)|(_ & _ & S' & D)]]; rewrite S', D; now split. }
    destruct Z as [Z1 Z2]. split; [congruence|]. split; [congruence|]. intros k Hk. discriminate.
  - destruct (C k eq_refl) as [(Ty & Zs & Zd)|(Ty & Zs & Zd)].
    + split; [congruence|]. split; [intros _; now exists k|]. intros k' Hk'. now left.
    + split; [intros _; now exists k|]. split; [congruence|]. intros k' Hk'. now right.
Qed.

Theorem chain_peer_cases src dst es : is_chain segs src dst es ->
  Forall nopeer es \/
  exists e1 e2 k1 k2, es = [e1; e2] /\ e_peer e1 = S k1 /\ e_peer e2 = S k2 /\
    is_ty (e_seg e1) = Up /\ is_ty (e_seg e2) = Down.
Proof.
  intros Hch. pose proof (chain_from_segs _ _ _ _ _ Hch) as Hf.
  pose proof (types_ok_length _ _ (chain_types _ _ _ _ _ Hch)) as Le. cbn [rank] in Le.
  unfold is_chain in Hch.
  destruct es as [|e1 [|e2 [|e3 [|e4 r]]]]; cbn [length] in Le; try lia.
  - now left.
  - (* one edge *)
    inversion Hf as [|? ? F1 _]; subst. destruct (edge_class e1 F1) as (_ & _ & C1).
    cbn [chain] in Hch. destruct Hch as (_ & S1 & _ & D1).
    left. constructor; [|constructor]. unfold nopeer. destruct (e_peer e1) as [|k] eqn:P; [reflexivity|exfalso].
    rewrite S1, D1 in C1. destruct (C1 k eq_refl) as [(_ & _ & Z)|(_ & Z & _)]; now apply Z.
  - (* two edges *)
    inversion Hf as [|? ? F1 Hf']; subst. inversion Hf' as [|? ? F2 _]; subst.
    destruct (edge_class e1 F1) as (_ & B1 & C1). destruct (edge_class e2 F2) as (A2 & _ & C2).
    cbn [chain] in Hch. destruct Hch as (_ & S1 & _ & _ & _ & S2 & _ & D2).
    destruct (e_peer e1) as [|k1] eqn:P1.
    + destruct (e_peer e2) as [|k2] eqn:P2.
      * left. repeat constructor; assumption.
      * exfalso. rewrite D2, S2 in C2. destruct (C2 k2 eq_refl) as [(_ & _ & Z)|(_ & Z & _)]; [now apply Z|].
        destruct (B1 Z) as (k & Hk & _). discriminate.
    + right. rewrite S1 in C1. destruct (C1 k1 eq_refl) as [(Ty1 & _ & Z)|(_ & Z & _)]; [|exfalso; now apply Z].
      rewrite <- S2 in Z. destruct (A2 Z) as (k2 & Hk2 & Ty2).
      exists e1, e2, k1, k2. auto.
  - (* three edges: up, core, down *)
    inversion Hf as [|? ? F1 Hf']; subst. inversion Hf' as [|? ? F2 Hf'']; subst.
    inversion Hf'' as [|? ? F3 _]; subst.
    destruct (edge_class e1 F1) as (_ & B1 & C1). destruct (edge_class e2 F2) as (A2 & B2 & C2).
    destruct (edge_class e3 F3) as (A3 & _ & C3).
    cbn [chain] in Hch. destruct Hch as (_ & S1 & V1 & _ & _ & S2 & V2 & _ & _ & S3 & V3 & D3).
    unfold ety in V1, V2, V3.
    assert (T : is_ty (e_seg e1) = Up /\ is_ty (e_seg e2) = CoreT /\ is_ty (e_seg e3) = Down).
    { destruct (is_ty (e_seg e1)), (is_ty (e_seg e2)), (is_ty (e_seg e3)); cbn in V1, V2, V3;
        try discriminate; auto. }
    destruct T as (T1 & T2 & T3).
    assert (N2 : e_peer e2 = 0%nat).
    { destruct (e_peer e2) as [|k] eqn:P; [reflexivity|exfalso].
      destruct (C2 k eq_refl) as [(Ty & _)|(Ty & _)]; congruence. }
    left. constructor; [|constructor; [exact N2|constructor; [|constructor]]]; unfold nopeer.
    + destruct (e_peer e1) as [|k] eqn:P; [reflexivity|exfalso].
      destruct (C1 k eq_refl) as [(_ & _ & Z)|(Ty & _)]; [|congruence].
      rewrite <- S2 in Z. destruct (A2 Z) as (k' & _ & Ty'). congruence.
    + destruct (e_peer e3) as [|k] eqn:P; [reflexivity|exfalso].
      destruct (C3 k eq_refl) as [(Ty & _)|(_ & Z & _)]; [congruence|].
      rewrite S3 in Z. destruct (B2 Z) as (k' & _ & Ty'). congruence.
Qed.

End Edges.

(** * Lists and traversals *)
Lemma hd_rev {A} (l : list A) d : hd d (rev l) = last l d.
Proof.
  destruct l as [|x l] using rev_ind; [reflexivity|]. rewrite rev_app_distr. cbn [rev app hd].
  now rewrite last_last.
Qed.

Lemma last_rev {A} (l : list A) d : last (rev l) d = hd d l.
Proof. rewrite <- (rev_involutive l) at 2. now rewrite hd_rev. Qed.

Lemma last_map' {A B} (f : A -> B) l d : last (map f l) (f d) = f (last l d).
Proof. induction l as [|x l IH]; [reflexivity|]. destruct l as [|y l]; [reflexivity|]. exact IH. Qed.

Lemma hd_map' {A B} (f : A -> B) l d : hd (f d) (map f l) = f (hd d l).
Proof. destruct l; reflexivity. Qed.

Lemma trav_peer_up hs d : hs <> [] ->
  traversed false true hs = traversed false false hs ++ nz (fst (last hs d)) (h_in (snd (last hs d))).
Proof.
  destruct hs as [|x tl]; [congruence|]. intros _. destruct tl as [|y tl'].
  - cbn. unfold hop_ifs, leave. cbn. rewrite ?app_nil_r. reflexivity.
  - rewrite !(traversed_cons _ _ x (y :: tl')) by discriminate. cbn [andb negb].
    change (last (x :: y :: tl') d) with (last (y :: tl') d).
    rewrite (last_indep (y :: tl') d x) by discriminate.
    unfold hop_ifs at 3 6. unfold leave. cbn [app]. rewrite app_nil_r, <- !app_assoc. reflexivity.
Qed.

Lemma trav_peer_down hs d : hs <> [] ->
  traversed true true hs = nz (fst (hd d hs)) (h_in (snd (hd d hs))) ++ traversed true false hs.
Proof.
  destruct hs as [|x tl]; [congruence|]. intros _. destruct tl as [|y tl'].
  - cbn. unfold hop_ifs, enter. cbn. rewrite ?app_nil_r. reflexivity.
  - rewrite !(traversed_cons _ _ x (y :: tl')) by discriminate. cbn [andb negb hd].
    unfold hop_ifs at 1 4. unfold enter. cbn [app]. rewrite <- !app_assoc. reflexivity.
Qed.

Lemma pairs_traversed1 sl hs :
  (forall i h h', nth_error hs i = Some h -> nth_error hs (S i) = Some h' ->
     s_tr_eg sl h <> 0 /\ s_tr_in sl h' <> 0) ->
  (1 <= length hs)%nat ->
  pairs_ifs sl hs = traversed (Prov.sl_consdir sl) false (map proj_hop hs).
Proof.
  intros NZ L. destruct hs as [|x [|y r]]; [cbn in L; lia| |apply pairs_traversed; [exact NZ|cbn; lia]].
  cbn. unfold hop_ifs. cbn. reflexivity.
Qed.

Lemma peer_cons_last e : (e_sc e < length (entries e))%nat ->
  last (peer_cons e) Prov.dhop =
  if Nat.eqb (S (e_sc e)) (length (entries e)) then peer_ph e
  else ph_of (is_seg (e_seg e)) (length (entries e) - 1) (nth (length (entries e) - 1) (entries e) dflt_entry).
Proof.
  intros L. rewrite <- nth_last by (unfold peer_cons; discriminate). rewrite (peer_cons_length e L).
  destruct (Nat.eqb_spec (S (e_sc e)) (length (entries e))) as [Q|Q].
  - replace (length (entries e) - e_sc e - 1)%nat with 0%nat by lia. reflexivity.
  - replace (length (entries e) - e_sc e - 1)%nat with (S (length (entries e) - e_sc e - 2)) by lia.
    rewrite (nth_error_nth _ _ Prov.dhop (peer_cons_S e (length (entries e) - e_sc e - 2) ltac:(lia))).
    replace (e_sc e + S (length (entries e) - e_sc e - 2))%nat with (length (entries e) - 1)%nat by lia.
    reflexivity.
Qed.

(** * A solution [up; down] over a peering link *)
Section Pair.
Variable mac : N -> N -> N -> N -> N -> N -> list N.
Variable t : Nw.topology.
Hypothesis Hwt : Nw.wf_topo t = true.
Variables ups cores downs : list (N * segment).
Hypothesis HBu : Forall (beaconed mac t false) (segs_of ups).
Hypothesis HBc : Forall (beaconed mac t true) (segs_of cores).
Hypothesis HBd : Forall (beaconed mac t false) (segs_of downs).
Notation segs := (insegs ups cores downs).
Variables src dst : N.
Variables e1 e2 : edge.
Variables k1 k2 : nat.
Hypothesis Hch : is_chain segs src dst [e1; e2].
Hypothesis P1 : e_peer e1 = S k1.
Hypothesis P2 : e_peer e2 = S k2.
Hypothesis Ty1 : is_ty (e_seg e1) = Up.
Hypothesis Ty2 : is_ty (e_seg e2) = Down.

Notation s1 := (is_seg (e_seg e1)).
Notation s2 := (is_seg (e_seg e2)).
Notation h1 := (rev (peer_cons e1)).
Notation h2 := (peer_cons e2).
Definition pair_prov : Prov.prov := peer_prov (ts_of s1) (ts_of s2) h1 h2.
Notation p := pair_prov.

Lemma Dn1 : is_down e1 = false.
Proof. unfold is_down. now rewrite Ty1. Qed.
Lemma Dn2 : is_down e2 = true.
Proof. unfold is_down. now rewrite Ty2. Qed.
Lemma Eh1 : peer_hops e1 = h1.
Proof. unfold peer_hops. now rewrite Dn1. Qed.
Lemma Eh2 : peer_hops e2 = h2.
Proof. unfold peer_hops. now rewrite Dn2. Qed.

Lemma F12 : from_segs segs e1 /\ from_segs segs e2.
Proof.
  pose proof (chain_from_segs _ _ _ _ _ Hch) as Hf. inversion Hf as [|? ? F1 Hf']; subst.
  inversion Hf' as [|? ? F2 _]; subst. now split.
Qed.

Lemma chain12 : e_src e1 = v_ia src /\ e_src e2 = e_dst e1 /\ e_dst e2 = v_ia dst.
Proof.
  unfold is_chain in Hch. cbn [chain] in Hch. destruct Hch as (_ & S1 & _ & _ & _ & S2 & _ & D2). auto.
Qed.

Lemma facts1 : beaconed mac t false s1 /\ edge_good e1 /\
  exists pk, nth_error (ae_peers (edge_cut e1)) k1 = Some pk /\
    e_src e1 = v_ia (last_ia s1) /\
    e_dst e1 = v_peer (ae_ia (edge_cut e1)) (h_in (pe_hop pk)) (pe_ia pk) (pe_if pk).
Proof.
  destruct F12 as [F1 _].
  destruct (peer_edge_facts mac t Hwt ups cores downs HBu HBc HBd e1 k1 F1 P1)
    as (B & G & pk & Hpk & _ & _ & [(_ & S' & D)|(Ty & _)]); [|congruence].
  split; [exact B|]. split; [exact G|]. exists pk. auto.
Qed.

Lemma facts2 : beaconed mac t false s2 /\ edge_good e2 /\
  exists pk, nth_error (ae_peers (edge_cut e2)) k2 = Some pk /\
    e_src e2 = v_rev (v_peer (ae_ia (edge_cut e2)) (h_in (pe_hop pk)) (pe_ia pk) (pe_if pk)) /\
    e_dst e2 = v_ia (last_ia s2).
Proof.
  destruct F12 as [_ F2].
  destruct (peer_edge_facts mac t Hwt ups cores downs HBu HBc HBd e2 k2 F2 P2)
    as (B & G & pk & Hpk & _ & _ & [(Ty & _)|(_ & S' & D)]); [congruence|].
  split; [exact B|]. split; [exact G|]. exists pk. auto.
Qed.

Lemma sc1 : (e_sc e1 < length (entries e1))%nat.
Proof. destruct facts1 as (_ & [c [Hc _]] & _). apply nth_error_Some. congruence. Qed.
Lemma sc2 : (e_sc e2 < length (entries e2))%nat.
Proof. destruct facts2 as (_ & [c [Hc _]] & _). apply nth_error_Some. congruence. Qed.

Lemma len1 : (1 <= length h1)%nat.
Proof. rewrite rev_length, (peer_cons_length e1 sc1). pose proof sc1. lia. Qed.
Lemma len2 : (1 <= length h2)%nat.
Proof. rewrite (peer_cons_length e2 sc2). pose proof sc2. lia. Qed.

Lemma last_h1 : last h1 Prov.dhop = peer_ph e1.
Proof. now rewrite last_rev. Qed.
Lemma hd_h2 : hd Prov.dhop h2 = peer_ph e2.
Proof. reflexivity. Qed.

(** the peering link between the two cut entries *)
Lemma junction : exists a f,
  Nw.find_as t (Prov.ph_ia (peer_ph e1)) = Some a /\
  Nw.find_nif (Nw.a_ifs a) (Prov.ph_in (peer_ph e1)) = Some f /\
  Nw.ni_nbr f = Prov.ph_ia (peer_ph e2) /\ Nw.ni_remote f = Prov.ph_in (peer_ph e2) /\
  Nw.ni_lt f = R.Peer /\ Prov.ph_in (peer_ph e1) <> 0 /\ Prov.ph_in (peer_ph e2) <> 0.
Proof.
  destruct facts1 as (B1 & G1 & pk1 & Hp1 & _ & D1).
  destruct facts2 as (B2 & G2 & pk2 & Hp2 & S2 & _).
  destruct chain12 as (_ & Adj & _). rewrite S2, D1 in Adj.
  unfold v_rev, v_peer in Adj. inversion Adj as [[A1 A2 A3 A4]].
  destruct (peer_link mac t Hwt e1 B1 G1 k1 P1) as (q1 & a & f & Hq1 & In1 & Fa & Ff & Lt & Nb & Rm & Z1 & _).
  destruct (peer_link mac t Hwt e2 B2 G2 k2 P2) as (q2 & _ & _ & Hq2 & In2 & _ & _ & _ & _ & _ & Z2 & _).
  assert (q1 = pk1) by congruence. assert (q2 = pk2) by congruence. subst q1 q2.
  exists a, f. rewrite In1, In2. change (Prov.ph_ia (peer_ph e2)) with (ae_ia (edge_cut e2)).
  repeat split; try assumption; congruence.
Qed.

(** nonzero interfaces along the two slices *)
Lemma nz1 i h h' : nth_error h1 i = Some h -> nth_error h1 (S i) = Some h' ->
  Prov.ph_in h <> 0 /\ Prov.ph_eg h' <> 0.
Proof.
  intros Hi Hi'. destruct facts1 as (B1 & G1 & _).
  destruct (rev_pair mac t Hwt e1 B1 G1 k1 P1 i h h' Hi Hi') as (_ & a & f & Fa & Ff & _ & Rm & _).
  destruct (find_as_ia _ _ _ Fa) as [Ia _].
  destruct (far t Hwt a _ f ltac:(now rewrite Ia) Ff) as (_ & _ & _ & _ & _ & _ & _ & Z1 & Z2).
  split; [exact Z1|]. now rewrite <- Rm.
Qed.

Lemma nz2 i h h' : nth_error h2 i = Some h -> nth_error h2 (S i) = Some h' ->
  Prov.ph_eg h <> 0 /\ Prov.ph_in h' <> 0.
Proof.
  intros Hi Hi'. destruct facts2 as (B2 & G2 & _).
  destruct (cons_pair mac t Hwt e2 B2 G2 k2 P2 i h h' Hi Hi') as (_ & a & f & Fa & Ff & _ & Rm & _).
  destruct (find_as_ia _ _ _ Fa) as [Ia _].
  destruct (far t Hwt a _ f ltac:(now rewrite Ia) Ff) as (_ & _ & _ & _ & _ & _ & _ & Z1 & Z2).
  split; [exact Z1|]. now rewrite <- Rm.
Qed.

(** * Interfaces *)
Lemma proj1 : map proj_hop h1 = edge_hops e1.
Proof. rewrite <- Eh1. apply peer_proj. apply facts1. Qed.
Lemma proj2 : map proj_hop h2 = edge_hops e2.
Proof. rewrite <- Eh2. apply peer_proj. apply facts2. Qed.

Theorem pair_interfaces : Prov.interfaces p = p_ifs (path_of [e1; e2]).
Proof.
  unfold pair_prov. rewrite interfaces_peer; [|exact len1|exact len2].
  cbn [path_of p_ifs]. unfold sol_ifs. cbn [flat_map]. rewrite app_nil_r.
  destruct facts1 as (B1 & G1 & _). destruct facts2 as (B2 & G2 & _).
  destruct junction as (_ & _ & _ & _ & _ & _ & _ & Z1 & Z2).
  rewrite (trav_ifs_traversed e1 G1 ltac:(apply B1)), (trav_ifs_traversed e2 G2 ltac:(apply B2)).
  rewrite P1, P2, Dn1, Dn2. cbn [Nat.eqb negb]. rewrite <- proj1, <- proj2.
  rewrite (trav_peer_up _ (proj_hop Prov.dhop)) by (destruct h1 eqn:E; [pose proof len1 as L; rewrite E in L; cbn in L; lia|discriminate]).
  rewrite (trav_peer_down _ (proj_hop Prov.dhop)) by (unfold peer_cons; discriminate).
  rewrite last_map', hd_map', last_h1, hd_h2. cbn [proj_hop fst snd h_in].
  rewrite !nz_ne by assumption.
  pose proof (pairs_traversed1 (peer_sl1 (ts_of s1) h1) h1 (fun i h h' Hi Hi' => nz1 i h h' Hi Hi') len1) as Q1.
  pose proof (pairs_traversed1 (peer_sl2 (ts_of s2) h2) h2 (fun i h h' Hi Hi' => nz2 i h h' Hi Hi') len2) as Q2.
  change (Prov.sl_consdir (peer_sl1 (ts_of s1) h1)) with false in Q1.
  change (Prov.sl_consdir (peer_sl2 (ts_of s2) h2)) with true in Q2.
  rewrite <- Q1, <- Q2, <- !app_assoc. reflexivity.
Qed.

(** * First and last hop *)
Lemma cons_last_ia e : (e_sc e < length (entries e))%nat ->
  Prov.ph_ia (last (peer_cons e) Prov.dhop) = last_ia (is_seg (e_seg e)).
Proof.
  intros L. assert (Ne : sg_entries (is_seg (e_seg e)) <> []).
  { intros X. unfold entries in L. rewrite X in L. cbn in L. lia. }
  rewrite (last_ia_nth' _ Ne), (peer_cons_last e L). fold (entries e).
  destruct (Nat.eqb_spec (S (e_sc e)) (length (entries e))) as [Q|Q].
  - unfold peer_ph. cbn. unfold edge_cut. do 2 f_equal. lia.
  - reflexivity.
Qed.

Lemma hop_first : Prov.hop p 0 = last (peer_cons e1) Prov.dhop.
Proof.
  unfold pair_prov. rewrite hop1 by exact len1. rewrite <- hd_rev. destruct h1; reflexivity.
Qed.

Lemma hop_last : Prov.hop p (Prov.nhops p - 1) = last (peer_cons e2) Prov.dhop.
Proof.
  unfold pair_prov. rewrite pp_n. pose proof len2 as L2.
  replace (length h1 + length h2 - 1)%nat with (length h1 + (length h2 - 1))%nat by lia.
  rewrite hop2. apply nth_last. unfold peer_cons. discriminate.
Qed.

Lemma pair_ia_first : Prov.ia p 0 = src.
Proof.
  unfold Prov.ia. rewrite hop_first, (cons_last_ia e1 sc1).
  destruct facts1 as (_ & _ & pk & _ & S1 & _). destruct chain12 as (S1' & _).
  apply v_ia_inj. now rewrite <- S1.
Qed.

Lemma pair_ia_last : Prov.ia p (Prov.nhops p - 1) = dst.
Proof.
  unfold Prov.ia. rewrite hop_last, (cons_last_ia e2 sc2).
  destruct facts2 as (_ & _ & pk & _ & _ & D2). destruct chain12 as (_ & _ & D2').
  apply v_ia_inj. now rewrite <- D2.
Qed.

Lemma pair_endpoints pp : hosts_ok t src dst pp -> Prov.endpoints_ok t p pp = true.
Proof.
  intros (S' & D & Hs & a & d & Fa & Dt). unfold Prov.endpoints_ok.
  rewrite pair_ia_first, pair_ia_last, S', D, !N.eqb_refl, Hs, Fa, Dt. reflexivity.
Qed.

Lemma pair_unexpired now : path_unexpired now (path_of [e1; e2]) -> Prov.all_unexpired now p = true.
Proof.
  intros U. unfold path_unexpired in U. cbn [path_of p_slices map] in U.
  inversion U as [|? ? U1 U']; subst. inversion U' as [|? ? U2 _]; subst.
  cbn [edge_slice Cb.sl_hops Cb.sl_info edge_info Cb.i_ts] in U1, U2.
  rewrite <- proj1 in U1. rewrite <- proj2 in U2. rewrite Forall_forall in U1, U2.
  unfold Prov.all_unexpired. apply forallb_forall. intros k Hk. apply in_seq in Hk.
  unfold pair_prov in *. rewrite pp_n in Hk. unfold Prov.hop_unexpired. apply negb_true_iff.
  destruct (Nat.lt_ge_cases k (length h1)) as [K|K].
  - rewrite hdr1, hop1 by exact K. apply (U1 (proj_hop (nth k h1 Prov.dhop))). apply in_map. now apply nth_In.
  - replace k with (length h1 + (k - length h1))%nat by lia. rewrite hdr2, hop2 by lia.
    apply (U2 (proj_hop (nth (k - length h1) h2 Prov.dhop))). apply in_map. apply nth_In. lia.
Qed.

(** * The packet *)
Lemma sid0 : Prov.sid p 0 0 false = Prov.ph_beta (last (peer_cons e1) Prov.dhop).
Proof.
  unfold Prov.sid. rewrite <- hop_first. unfold Prov.beta. f_equal.
Qed.

Lemma sid1 : Prov.sid p 1 0 false = Prov.ph_beta (peer_ph e2).
Proof.
  unfold Prov.sid, Prov.beta. unfold pair_prov. rewrite pp_lens.
  change (nth 1 (Prov.pv_segs (peer_prov (ts_of s1) (ts_of s2) h1 h2)) Prov.dseg)
    with (hdr_of (peer_sl2 (ts_of s2) h2)).
  unfold Prov.clampi. cbn [hdr_of Prov.sg_consdir peer_sl2 Prov.sl_consdir orb Prov.seg_start firstn fold_right].
  replace (length h1 + 0 + Nat.min (0 - (length h1 + 0)) (Prov.sg_len (hdr_of (peer_sl2 (ts_of s2) h2)) - 1))%nat
    with (length h1 + 0)%nat by lia.
  now rewrite hop2.
Qed.

Lemma beta1 : calc_beta e1 = Prov.ph_beta (last (peer_cons e1) Prov.dhop).
Proof.
  pose proof sc1 as L. rewrite (peer_cons_last e1 L).
  assert (Bi : beta_index e1 =
               if Nat.eqb (S (e_sc e1)) (length (entries e1)) then S (e_sc e1) else (length (entries e1) - 1)%nat).
  { unfold beta_index. rewrite Dn1, P1. fold (entries e1).
    change (negb (Nat.eqb (S k1) 0)) with true. rewrite andb_true_r.
    destruct (Nat.eqb_spec (S (e_sc e1)) (length (entries e1))) as [Q|Q];
      destruct (Nat.eqb_spec (length (entries e1) - 1) (e_sc e1)) as [Q'|Q']; lia. }
  rewrite calc_beta_at by (rewrite Bi; destruct (Nat.eqb (S (e_sc e1)) (length (entries e1))); lia).
  rewrite Bi. destruct (Nat.eqb (S (e_sc e1)) (length (entries e1))); reflexivity.
Qed.

Lemma beta2 : calc_beta e2 = Prov.ph_beta (peer_ph e2).
Proof.
  pose proof sc2 as L.
  assert (Bi : beta_index e2 = S (e_sc e2)) by (unfold beta_index; rewrite Dn2, P2; lia).
  rewrite calc_beta_at by (rewrite Bi; lia). rewrite Bi. reflexivity.
Qed.

Lemma pair_infos : Prov.rinfos p 0 false = map pkt_info [edge_slice e1; edge_slice e2].
Proof.
  unfold Prov.rinfos.
  change (length (Prov.pv_segs p)) with 2%nat. cbn [seq map]. unfold Prov.rinfo. cbv zeta.
  rewrite sid0, sid1, <- beta1, <- beta2.
  unfold pkt_info, edge_slice, edge_info. cbn [Cb.sl_info Cb.i_peer Cb.i_consdir Cb.i_segid Cb.i_ts].
  rewrite P1, P2, Dn1, Dn2. reflexivity.
Qed.

Lemma pair_hops : map Prov.rhop (Prov.pv_hops p) =
  flat_map (fun sl => map pkt_hop (Cb.sl_hops sl)) [edge_slice e1; edge_slice e2].
Proof.
  unfold pair_prov. rewrite pp_hops, map_app. cbn [flat_map edge_slice Cb.sl_hops].
  rewrite <- proj1, <- proj2, !map_map, app_nil_r. reflexivity.
Qed.

Lemma pair_len j :
  Prov.len_at p j = N.of_nat (length (Cb.sl_hops (nth j [edge_slice e1; edge_slice e2] dflt_slice))).
Proof.
  unfold Prov.len_at, pair_prov. rewrite pp_lens. f_equal.
  destruct j as [|[|j]]; cbn [nth edge_slice Cb.sl_hops].
  - now rewrite <- proj1, map_length.
  - now rewrite <- proj2, map_length.
  - destruct j; reflexivity.
Qed.

Theorem pair_render pp : Prov.render p pp 0 false = pkt_of_path (path_of [e1; e2]) pp.
Proof.
  unfold Prov.render, pkt_of_path. cbv zeta. cbn [path_of p_slices map].
  rewrite !pair_len, pair_infos, pair_hops. cbn [map].
  rewrite seg_idx_00; [reflexivity|].
  intros x Hx. unfold pair_prov in Hx. rewrite pp_lens in Hx. cbn in Hx. inversion Hx. exact len1.
Qed.

(** * Well-formedness *)
Hypothesis H64' : (length (path_ias (path_of [e1; e2])) <= 64)%nat.
Hypothesis Hn3 : no_as_thrice (p_ifs (path_of [e1; e2])).
Hypothesis Hsd : src <> dst.

Lemma pair_tot : (length h1 + length h2 <= 64)%nat.
Proof.
  unfold path_ias in H64'. cbn [path_of p_slices map flat_map edge_slice Cb.sl_hops] in H64'.
  rewrite <- proj1, <- proj2, app_nil_r, map_length, app_length, !map_length in H64'. exact H64'.
Qed.

Lemma pair_htot : total (Prov.lens p) = Prov.nhops p.
Proof. unfold pair_prov. rewrite pp_n, pp_lens. cbn. lia. Qed.

Lemma pair_cross k : (S k < Prov.nhops p)%nat -> Prov.crosses p k = true.
Proof.
  unfold pair_prov. rewrite pp_n. intros H. destruct (Nat.lt_ge_cases k (length h1)) as [K|K].
  - now apply crosses1.
  - replace k with (length h1 + (k - length h1))%nat by lia. apply crosses2. lia.
Qed.

Theorem pair_wf_prov : Prov.wf_prov_b (macq_of mac) t p = true.
Proof.
  destruct facts1 as (B1 & G1 & _). destruct facts2 as (B2 & G2 & _).
  assert (N3 : no_as_thrice (Prov.interfaces p)) by (rewrite pair_interfaces; exact Hn3).
  assert (D : Prov.ia p 0 <> Prov.ia p (Prov.nhops p - 1)) by (rewrite pair_ia_first, pair_ia_last; exact Hsd).
  unfold pair_prov. apply wf_peer_prov. apply Build_wf_peer.
  - exact len1.
  - exact len2.
  - exact pair_tot.
  - intros h Hin. apply (peer_hops_good mac t Hwt e1 B1 G1 k1 P1); [reflexivity|now rewrite Eh1].
  - intros h Hin. apply (peer_hops_good mac t Hwt e2 B2 G2 k2 P2); [reflexivity|now rewrite Eh2].
  - intros i h h' Hi Hi'. rewrite rev_length. exact (rev_pair mac t Hwt e1 B1 G1 k1 P1 i h h' Hi Hi').
  - intros i h h' Hi Hi'. exact (cons_pair mac t Hwt e2 B2 G2 k2 P2 i h h' Hi Hi').
  - rewrite last_h1, hd_h2. destruct junction as (a & f & Fa & Ff & Nb & Rm & Lt & _). exists a, f. auto.
  - intros k K1 K2. apply (xsrc_free p pair_htot pair_cross N3 k K1 K2). congruence.
  - intros k K. apply (xdst_free p pair_htot pair_cross N3 k K D).
Qed.

End Pair.
