(** C02, layer 3: solutions of the path combinator over a peering link.  Which solutions have
    peering edges (exactly [up; down], both cut at mutually announced peer entries), and that the
    provenance path of such a solution is well formed, renders to the packet built from the
    combinator's path and has the path metadata as its interface list. *)
From Coq Require Import List NArith Bool Arith Lia.
From Scion Require Import Lib.Check Model.Router Model.Network Model.Prov.
From Scion Require Import Model.Segment Model.SegID Model.CombSpec Model.Combinator Model.CombProv.
From Scion Require Import Proofs.SegID.
From Scion Require Import Proofs.CombinatorGraph Proofs.CombinatorRender Proofs.CombinatorPaths
  Proofs.CombinatorIfs Proofs.CombinatorSpec.
From Scion Require Import Proofs.ProvStruct Proofs.ProvRender Proofs.ForwardView Proofs.ProvFacts
  Proofs.ProvSlices Proofs.ProvLoopFree Proofs.ProvPeer Proofs.CombineProv Proofs.CombineProvMain
  Proofs.CombinePeer.
Import ListNotations.
Import CombProv.
Import Segment CombSpec Combinator.
Local Open Scope N_scope.

Definition third (v : vertex) : N := match v with (_, _, i, _, _) => i end.

Lemma third_ia x : third (v_ia x) = 0.
Proof. reflexivity. Qed.

(** * Which edges of a solution are peering edges *)
Section Edges.
Variable mac : N -> N -> N -> N -> N -> N -> list N.
Variable t : Nw.topology.
Hypothesis Hwt : Nw.wf_topo t = true.
Variables ups cores downs : list (N * segment).
Hypothesis HBu : Forall (beaconed mac t false) (segs_of ups).
Hypothesis HBc : Forall (beaconed mac t true) (segs_of cores).
Hypothesis HBd : Forall (beaconed mac t false) (segs_of downs).
Notation segs := (insegs ups cores downs).

Lemma seg_facts e : from_segs segs e ->
  exists s, tuple_of s e /\ e_seg e = s /\ beaconed mac t (is_core e) (is_seg (e_seg e)) /\ edge_good e.
Proof.
  intros (s & Hs & Ht). exists s. split; [exact Ht|].
  pose proof (tuple_seg _ _ Ht) as Es. split; [exact Es|]. pose proof (insegs_seg_in _ _ _ _ Hs) as Hr.
  assert (B : beaconed mac t (is_core e) (is_seg s)).
  { unfold is_core. rewrite Es. rewrite Forall_forall in HBu, HBc, HBd.
    destruct (is_ty s); [now apply HBu|now apply HBc|now apply HBd]. }
  rewrite Es. split; [exact B|]. eapply tuple_good; [exact Ht|]. apply validate_ne. apply B.
Qed.

(** a peering edge: what its two vertices are *)
Lemma peer_edge_facts e k : from_segs segs e -> e_peer e = S k ->
  beaconed mac t false (is_seg (e_seg e)) /\ edge_good e /\
  exists pk, nth_error (ae_peers (edge_cut e)) k = Some pk /\
    h_in (pe_hop pk) <> 0 /\ pe_if pk <> 0 /\
    ((is_ty (e_seg e) = Up /\ e_src e = v_ia (last_ia (is_seg (e_seg e))) /\
      e_dst e = v_peer (ae_ia (edge_cut e)) (h_in (pe_hop pk)) (pe_ia pk) (pe_if pk)) \/
     (is_ty (e_seg e) = Down /\
      e_src e = v_rev (v_peer (ae_ia (edge_cut e)) (h_in (pe_hop pk)) (pe_ia pk) (pe_if pk)) /\
      e_dst e = v_ia (last_ia (is_seg (e_seg e))))).
Proof.
  intros F Pk. destruct (seg_facts e F) as (s & Ht & Es & B & G).
  destruct (pr_tuple s e k Ht Pk) as (_ & Nc & a & p0 & Ha & Hp & Cases).
  assert (Ic : is_core e = false) by (unfold is_core; rewrite Es; destruct (is_ty s); congruence).
  rewrite Ic in B. split; [exact B|]. split; [exact G|].
  destruct (peer_link mac t Hwt e B G k Pk) as (pk & _ & _ & Hpk & _ & _ & _ & _ & _ & _ & Z1 & Z2).
  assert (Ec : edge_cut e = a).
  { unfold edge_cut, entries. rewrite Es. now apply nth_error_nth. }
  rewrite Ec in Hpk. assert (p0 = pk) by congruence. subst p0.
  exists pk. rewrite Ec, Es. repeat split; assumption.
Qed.

Lemma edge_class e : from_segs segs e ->
  (third (e_src e) <> 0 -> exists k, e_peer e = S k /\ is_ty (e_seg e) = Down) /\
  (third (e_dst e) <> 0 -> exists k, e_peer e = S k /\ is_ty (e_seg e) = Up) /\
  (forall k, e_peer e = S k ->
     (is_ty (e_seg e) = Up /\ third (e_src e) = 0 /\ third (e_dst e) <> 0) \/
     (is_ty (e_seg e) = Down /\ third (e_src e) <> 0 /\ third (e_dst e) = 0)).
Proof.
  intros F.
  assert (C : forall k, e_peer e = S k ->
     (is_ty (e_seg e) = Up /\ third (e_src e) = 0 /\ third (e_dst e) <> 0) \/
     (is_ty (e_seg e) = Down /\ third (e_src e) <> 0 /\ third (e_dst e) = 0)).
  { intros k Pk. destruct (peer_edge_facts e k F Pk) as (_ & _ & pk & _ & Z1 & Z2 & [(Ty & S' & D)|(Ty & S' & D)]).
    - left. rewrite S', D. cbn. auto.
    - right. rewrite S', D. cbn. auto. }
  destruct (e_peer e) as [|k] eqn:Pk.
  - destruct (seg_facts e F) as (s & Ht & Es & _ & _).
    destruct (np_tuple s e Ht Pk) as (_ & Cases).
    assert (Z : third (e_src e) = 0 /\ third (e_dst e) = 0).
    { destruct Cases as [(_ & _ & S' & D)|[(_ & _ & S' & D)|(_ & _ & S' & D)]]; rewrite S', D; now split. }
    destruct Z as [Z1 Z2]. split; [congruence|]. split; [congruence|]. intros k Hk. discriminate.
  - destruct (C k eq_refl) as [(Ty & Zs & Zd)|(Ty & Zs & Zd)].
    + split; [congruence|]. split; [intros _; now exists k|]. intros k' Hk'. now left.
    + split; [intros _; now exists k|]. split; [congruence|]. intros k' Hk'. now right.
Qed.

Theorem chain_peer_cases src dst es : is_chain segs src dst es ->
  Forall nopeer es \/
  exists e1 e2 k1 k2, es = [e1; e2] /\ e_peer e1 = S k1 /\ e_peer e2 = S k2 /\
    is_ty (e_seg e1) = Up /\ is_ty (e_seg e2) = Down.
Proof.
  intros Hch. pose proof (chain_from_segs _ _ _ _ _ Hch) as Hf.
  pose proof (types_ok_length _ _ (chain_types _ _ _ _ _ Hch)) as Le. cbn [rank] in Le.
  unfold is_chain in Hch.
  destruct es as [|e1 [|e2 [|e3 [|e4 r]]]]; cbn [length] in Le; try lia.
  - now left.
  - (* one edge *)
    inversion Hf as [|? ? F1 _]; subst. destruct (edge_class e1 F1) as (_ & _ & C1).
    cbn [chain] in Hch. destruct Hch as (_ & S1 & _ & D1).
    left. constructor; [|constructor]. unfold nopeer. destruct (e_peer e1) as [|k] eqn:P; [reflexivity|exfalso].
    rewrite S1, D1 in C1. destruct (C1 k eq_refl) as [(_ & _ & Z)|(_ & Z & _)]; now apply Z.
  - (* two edges *)
    inversion Hf as [|? ? F1 Hf']; subst. inversion Hf' as [|? ? F2 _]; subst.
    destruct (edge_class e1 F1) as (_ & B1 & C1). destruct (edge_class e2 F2) as (A2 & _ & C2).
    cbn [chain] in Hch. destruct Hch as (_ & S1 & _ & _ & _ & S2 & _ & D2).
    destruct (e_peer e1) as [|k1] eqn:P1.
    + destruct (e_peer e2) as [|k2] eqn:P2.
      * left. repeat constructor; assumption.
      * exfalso. rewrite D2, S2 in C2. destruct (C2 k2 eq_refl) as [(_ & _ & Z)|(_ & Z & _)]; [now apply Z|].
        destruct (B1 Z) as (k & Hk & _). discriminate.
    + right. rewrite S1 in C1. destruct (C1 k1 eq_refl) as [(Ty1 & _ & Z)|(_ & Z & _)]; [|exfalso; now apply Z].
      rewrite <- S2 in Z. destruct (A2 Z) as (k2 & Hk2 & Ty2).
      exists e1, e2, k1, k2. auto.
  - (* three edges: up, core, down *)
    inversion Hf as [|? ? F1 Hf']; subst. inversion Hf' as [|? ? F2 Hf'']; subst.
    inversion Hf'' as [|? ? F3 _]; subst.
    destruct (edge_class e1 F1) as (_ & B1 & C1). destruct (edge_class e2 F2) as (A2 & B2 & C2).
    destruct (edge_class e3 F3) as (A3 & _ & C3).
    cbn [chain] in Hch. destruct Hch as (_ & S1 & V1 & _ & _ & S2 & V2 & _ & _ & S3 & V3 & D3).
    unfold ety in V1, V2, V3.
    assert (T : is_ty (e_seg e1) = Up /\ is_ty (e_seg e2) = CoreT /\ is_ty (e_seg e3) = Down).
    { destruct (is_ty (e_seg e1)), (is_ty (e_seg e2)), (is_ty (e_seg e3)); cbn in V1, V2, V3;
        try discriminate; auto. }
    destruct T as (T1 & T2 & T3).
    assert (N2 : e_peer e2 = 0%nat).
    { destruct (e_peer e2) as [|k] eqn:P; [reflexivity|exfalso].
      destruct (C2 k eq_refl) as [(Ty & _)|(Ty & _)]; congruence. }
    left. constructor; [|constructor; [exact N2|constructor; [|constructor]]]; unfold nopeer.
    + destruct (e_peer e1) as [|k] eqn:P; [reflexivity|exfalso].
      destruct (C1 k eq_refl) as [(_ & _ & Z)|(Ty & _)]; [|congruence].
      rewrite <- S2 in Z. destruct (A2 Z) as (k' & _ & Ty'). congruence.
    + destruct (e_peer e3) as [|k] eqn:P; [reflexivity|exfalso].
      destruct (C3 k eq_refl) as [(Ty & _)|(_ & Z & _)]; [congruence|].
      rewrite S3 in Z. destruct (B2 Z) as (k' & _ & Ty'). congruence.
Qed.

End Edges.

(** * Lists and traversals *)
Lemma hd_rev {A} (l : list A) d : hd d (rev l) = last l d.
Proof.
  destruct l as [|x l] using rev_ind; [reflexivity|]. rewrite rev_app_distr. cbn [rev app hd].
  now rewrite last_last.
Qed.

Lemma last_rev {A} (l : list A) d : last (rev l) d = hd d l.
Proof. rewrite <- (rev_involutive l) at 2. now rewrite hd_rev. Qed.

Lemma last_map' {A B} (f : A -> B) l d : last (map f l) (f d) = f (last l d).
Proof. induction l as [|x l IH]; [reflexivity|]. destruct l as [|y l]; [reflexivity|]. exact IH. Qed.

Lemma hd_map' {A B} (f : A -> B) l d : hd (f d) (map f l) = f (hd d l).
Proof. destruct l; reflexivity. Qed.

Lemma trav_peer_up hs d : hs <> [] ->
  traversed false true hs = traversed false false hs ++ nz (fst (last hs d)) (h_in (snd (last hs d))).
Proof.
  destruct hs as [|x tl]; [congruence|]. intros _. destruct tl as [|y tl'].
  - cbn. unfold hop_ifs, leave. cbn. rewrite ?app_nil_r. reflexivity.
  - rewrite !(traversed_cons _ _ x (y :: tl')) by discriminate. cbn [andb negb].
    change (last (x :: y :: tl') d) with (last (y :: tl') d).
    rewrite (last_indep (y :: tl') d x) by discriminate.
    unfold hop_ifs at 3 6. unfold leave. cbn [app]. rewrite app_nil_r, <- !app_assoc. reflexivity.
Qed.

Lemma trav_peer_down hs d : hs <> [] ->
  traversed true true hs = nz (fst (hd d hs)) (h_in (snd (hd d hs))) ++ traversed true false hs.
Proof.
  destruct hs as [|x tl]; [congruence|]. intros _. destruct tl as [|y tl'].
  - cbn. unfold hop_ifs, enter. cbn. rewrite ?app_nil_r. reflexivity.
  - rewrite !(traversed_cons _ _ x (y :: tl')) by discriminate. cbn [andb negb hd].
    unfold hop_ifs at 1 4. unfold enter. cbn [app]. rewrite <- !app_assoc. reflexivity.
Qed.

Lemma pairs_traversed1 sl hs :
  (forall i h h', nth_error hs i = Some h -> nth_error hs (S i) = Some h' ->
     s_tr_eg sl h <> 0 /\ s_tr_in sl h' <> 0) ->
  (1 <= length hs)%nat ->
  pairs_ifs sl hs = traversed (Prov.sl_consdir sl) false (map proj_hop hs).
Proof.
  intros NZ L. destruct hs as [|x [|y r]]; [cbn in L; lia| |apply pairs_traversed; [exact NZ|cbn; lia]].
  cbn. unfold hop_ifs. cbn. reflexivity.
Qed.

Lemma peer_cons_last e : (e_sc e < length (entries e))%nat ->
  last (peer_cons e) Prov.dhop =
  if Nat.eqb (S (e_sc e)) (length (entries e)) then peer_ph e
  else ph_of (is_seg (e_seg e)) (length (entries e) - 1) (nth (length (entries e) - 1) (entries e) dflt_entry).
Proof.
  intros L. rewrite <- nth_last by (unfold peer_cons; discriminate). rewrite (peer_cons_length e L).
  destruct (Nat.eqb_spec (S (e_sc e)) (length (entries e))) as [Q|Q].
  - replace (length (entries e) - e_sc e - 1)%nat with 0%nat by lia. reflexivity.
  - replace (length (entries e) - e_sc e - 1)%nat with (S (length (entries e) - e_sc e - 2)) by lia.
    rewrite (nth_error_nth _ _ Prov.dhop (peer_cons_S e (length (entries e) - e_sc e - 2) ltac:(lia))).
    replace (e_sc e + S (length (entries e) - e_sc e - 2))%nat with (length (entries e) - 1)%nat by lia.
    reflexivity.
Qed.
