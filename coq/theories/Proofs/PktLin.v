(** Correctness of the generic linearizability search of Model/PktLin.v (both
    directions), and facts about the pktRing history specification. *)
From Coq Require Import List NArith ZArith Bool Arith Lia Permutation.
From Scion Require Import Lib.Check Model.Ring Model.PktLin Proofs.Ring Proofs.RingLTS Proofs.RingLin.
Import ListNotations.
Import Ring PktLin.

Section GenFacts.
  Variables (R St : Type) (inv ret : R -> N) (stp : St -> R -> option St).

  Notation exec := (gexec R St stp).
  Notation rt := (grt_ok R inv ret).
  Notation minimal := (gminimal R inv ret).

  Definition GIsLin (s : St) (rem l : list R) : Prop :=
    Permutation l rem /\ rt l /\ exists s', exec s l = Some s'.
  Definition GNoneLin (s : St) (rem : list R) : Prop :=
    forall l, Permutation l rem -> rt l -> exec s l = None.
  Definition GLinearizable (s0 : St) (h : list R) : Prop := exists l, GIsLin s0 h l.

  Lemma gminimal_forall x rem :
    minimal x rem = true <-> Forall (fun b => (inv x < ret b)%N) rem.
  Proof.
    unfold gminimal. rewrite forallb_forall, Forall_forall.
    split; intros H b Hb; specialize (H b Hb); now apply N.ltb_lt.
  Qed.

  Lemma perm_pick (rem pre t : list R) x :
    Permutation rem (pre ++ x :: t) -> Permutation rem (x :: rev_append pre t).
  Proof.
    intros P. rewrite P, rev_append_rev. rewrite <- Permutation_middle. constructor.
    apply Permutation_app_tail. apply Permutation_rev.
  Qed.

  Lemma GNoneLin_perm s a b : Permutation a b -> GNoneLin s a -> GNoneLin s b.
  Proof. intros P H l Pl. apply H. now rewrite Pl, P. Qed.

  Section LoopFacts.
    Variable rec : nat -> St -> list R -> answer R * nat.
    Variable s : St.
    Variable rem : list R.

    Lemma gloop_sound :
      (forall fuel s' rest l fu, rec fuel s' rest = (Found l, fu) -> GIsLin s' rest l) ->
      forall suf pre fuel l fu,
        Permutation rem (pre ++ suf) ->
        gloop R St inv ret stp rec s rem pre suf fuel = (Found l, fu) -> GIsLin s rem l.
    Proof.
      intros HR. induction suf as [|x t IH]; intros pre fuel l fu P E; cbn [gloop] in E; [discriminate|].
      assert (P' : Permutation rem ((x :: pre) ++ t)).
      { rewrite P. cbn [app]. symmetry. apply Permutation_middle. }
      destruct (minimal x rem) eqn:Em; [|eapply IH; eauto].
      destruct (stp s x) as [s'|] eqn:Es; [|eapply IH; eauto].
      destruct fuel as [|fuel']; [discriminate|].
      destruct (rec fuel' s' (rev_append pre t)) as [[l'| |] fu'] eqn:Er; [| eapply IH; eauto | discriminate].
      inversion E; subst. destruct (HR _ _ _ _ _ Er) as (Pl & Rl & s2 & Sl).
      assert (Px := perm_pick _ _ _ _ P).
      assert (Pf : Permutation (x :: l') rem) by (rewrite Px; now constructor).
      split; [exact Pf|]. split.
      - cbn [grt_ok]. split; [|exact Rl]. apply gminimal_forall in Em.
        eapply Permutation_Forall; [symmetry; exact Pf | exact Em].
      - exists s2. cbn [gexec]. now rewrite Es.
    Qed.

    Lemma gloop_nolin n :
      (forall fuel s' rest fu, rec fuel s' rest = (NoLin, fu) -> length rest <= n -> GNoneLin s' rest) ->
      length rem <= S n ->
      forall suf pre fuel fu,
        Permutation rem (pre ++ suf) ->
        gloop R St inv ret stp rec s rem pre suf fuel = (NoLin, fu) ->
        forall x rest s', In x suf -> Permutation rem (x :: rest) -> minimal x rem = true ->
                          stp s x = Some s' -> GNoneLin s' rest.
    Proof.
      intros HR Hn. induction suf as [|y t IH]; intros pre fuel fu P E x rest s' Hin Px Em Es; [destruct Hin|].
      cbn [gloop] in E.
      assert (P' : Permutation rem ((y :: pre) ++ t)).
      { rewrite P. cbn [app]. symmetry. apply Permutation_middle. }
      destruct Hin as [->|Hin].
      - rewrite Em, Es in E. destruct fuel as [|fuel']; [discriminate|].
        destruct (rec fuel' s' (rev_append pre t)) as [[l'| |] fu'] eqn:Er; try discriminate.
        assert (Py := perm_pick _ _ _ _ P).
        assert (Pr : Permutation (rev_append pre t) rest).
        { eapply Permutation_cons_inv. rewrite <- Py. exact Px. }
        eapply GNoneLin_perm; [exact Pr|]. eapply HR; [exact Er|].
        apply Permutation_length in Py. cbn [length] in Py. lia.
      - destruct (minimal y rem); [|eapply IH; eauto].
        destruct (stp s y) as [sy|]; [|eapply IH; eauto].
        destruct fuel as [|fuel']; [discriminate|].
        destruct (rec fuel' sy (rev_append pre t)) as [[l'| |] fu'] eqn:Er; try discriminate.
        eapply IH; eauto.
    Qed.
  End LoopFacts.

  Theorem gdfs_sound n : forall fuel s rem l fu,
    gdfs R St inv ret stp n fuel s rem = (Found l, fu) -> GIsLin s rem l.
  Proof.
    induction n as [|n IH]; intros fuel s rem l fu E.
    - destruct rem; cbn in E; [|discriminate]. inversion E; subst.
      split; [reflexivity|]. split; [exact I|]. now exists s.
    - destruct rem as [|a rem]; cbn [gdfs] in E.
      + inversion E; subst. split; [reflexivity|]. split; [exact I|]. now exists s.
      + eapply gloop_sound; [exact IH | | exact E]. reflexivity.
  Qed.

  Theorem gdfs_nolin n : forall fuel s rem fu,
    gdfs R St inv ret stp n fuel s rem = (NoLin, fu) -> length rem <= n -> GNoneLin s rem.
  Proof.
    induction n as [|n IH]; intros fuel s rem fu E Hn.
    - destruct rem; cbn in E; discriminate.
    - destruct rem as [|a rem]; cbn [gdfs] in E; [discriminate|].
      intros l P Rl. destruct l as [|x l'].
      { apply Permutation_nil in P. discriminate. }
      assert (Hx : In x (a :: rem)) by (eapply Permutation_in; [exact P | now left]).
      cbn [grt_ok] in Rl. destruct Rl as [F Rl].
      assert (Em : minimal x (a :: rem) = true).
      { apply gminimal_forall. eapply Permutation_Forall; [exact P | exact F]. }
      cbn [gexec]. destruct (stp s x) as [s'|] eqn:Es; [|reflexivity].
      assert (Q := gloop_nolin (gdfs R St inv ret stp n) s (a :: rem) n IH Hn (a :: rem) [] fuel fu
                     (Permutation_refl _) E x l' s' Hx (Permutation_sym P) Em Es).
      apply Q; [reflexivity | exact Rl].
  Qed.

  Theorem glin_check_found fuel s0 h l :
    glin_check R St inv ret stp fuel s0 h = Found l -> GLinearizable s0 h.
  Proof.
    unfold glin_check. destruct (gdfs R St inv ret stp (length h) fuel s0 h) as [a fu] eqn:E.
    cbn [fst]. intros ->. exists l. eapply gdfs_sound; eauto.
  Qed.

  Theorem glin_check_nolin fuel s0 h :
    glin_check R St inv ret stp fuel s0 h = NoLin -> ~ GLinearizable s0 h.
  Proof.
    unfold glin_check. destruct (gdfs R St inv ret stp (length h) fuel s0 h) as [a fu] eqn:E.
    cbn [fst]. intros ->. intros (l & P & Rl & s' & S).
    rewrite (gdfs_nolin _ _ _ _ _ E (Nat.le_refl _) l P Rl) in S. discriminate.
  Qed.
End GenFacts.

(** ------------------------------------------------------------------ pktRing *)
Definition PLinearizable (fill : list N) (h : list prec) : Prop :=
  GLinearizable prec pst p_inv p_ret pstep_rec (pst_init fill) h.

(** the list specification of Model/Ring.v is the iteration of [pspec_step] *)
Lemma pkt_spec_run_step : forall ops qs n c,
  pkt_spec_run qs n c ops =
  match ops with
  | [] => []
  | o :: t =>
    match pspec_step {| ps_q := qs; ps_buf := n; ps_cl := c |} o with
    | (s', PRet k x) => Some (k, x) :: pkt_spec_run (ps_q s') (ps_buf s') (ps_cl s') t
    | (_, PBlocks) => [None]
    end
  end.
Proof.
  intros ops qs n c. destruct ops as [|o t]; [reflexivity|].
  destruct o as [v b | b |]; cbn [pkt_spec_run pspec_step ps_q ps_buf ps_cl].
  - destruct c; [reflexivity|]. destruct (ring_size + n <=? length qs); [destruct b|]; reflexivity.
  - destruct qs as [|v rest]; [destruct c; [|destruct b]; reflexivity|]. reflexivity.
  - reflexivity.
Qed.

Lemma list_N_eqb_eq a b : list_N_eqb a b = true -> a = b.
Proof. apply list_eqb_eq. intros; apply N.eqb_eq. Qed.

(** Content: along any legal run of the specification, what was held initially
    followed by the accepted packets equals what was delivered followed by what
    is still held -- as sequences. *)
Lemma pstep_rec_content s e s' :
  pstep_rec s e = Some s' -> ps_q s ++ accepted e = delivered e ++ ps_q s'.
Proof.
  unfold pstep_rec, accepted, delivered. destruct e as [o k c i t]. cbn [p_op p_k p_pkt].
  destruct o as [[v b | b |] | vs]; cbn [pspec_step].
  - destruct (ps_cl s).
    + destruct (Z.eqb (-1) k) eqn:Ek; [|discriminate]. cbn [andb].
      destruct (cell_eqb None c); [|discriminate]. intros E; inversion E; subst.
      apply Z.eqb_eq in Ek. subst k. cbn. now rewrite app_nil_r.
    + destruct (ring_size + ps_buf s <=? length (ps_q s)).
      * destruct b; [discriminate|]. destruct (Z.eqb 0 k) eqn:Ek; [|discriminate]. cbn [andb].
        destruct (cell_eqb None c); [|discriminate]. intros E; inversion E; subst.
        apply Z.eqb_eq in Ek. subst k. cbn. now rewrite app_nil_r.
      * destruct (Z.eqb 1 k) eqn:Ek; [|discriminate]. cbn [andb].
        destruct (cell_eqb None c); [|discriminate]. intros E; inversion E; subst.
        apply Z.eqb_eq in Ek. subst k. reflexivity.
  - destruct (ps_q s) as [|v rest] eqn:Eq.
    + destruct (ps_cl s).
      * destruct (Z.eqb (-1) k); [|discriminate]. cbn [andb].
        destruct (cell_eqb None c) eqn:Ec; [|discriminate]. intros E; inversion E; subst.
        apply cell_eqb_eq in Ec. subst c. reflexivity.
      * destruct b; [discriminate|]. destruct (Z.eqb 0 k); [|discriminate]. cbn [andb].
        destruct (cell_eqb None c) eqn:Ec; [|discriminate]. intros E; inversion E; subst.
        apply cell_eqb_eq in Ec. subst c. reflexivity.
    + destruct (Z.eqb 1 k); [|discriminate]. cbn [andb].
      destruct (cell_eqb (Some v) c) eqn:Ec; [|discriminate]. intros E; inversion E; subst.
      apply cell_eqb_eq in Ec. subst c. cbn. now rewrite app_nil_r.
  - destruct (Z.eqb 0 k); [|discriminate]. cbn [andb].
    destruct (cell_eqb None c); [|discriminate]. intros E; inversion E; subst. cbn. now rewrite app_nil_r.
  - destruct (list_N_eqb (ps_q s) vs) eqn:El; [|discriminate]. intros E; inversion E; subst.
    apply list_N_eqb_eq in El. subst vs. cbn. now rewrite !app_nil_r.
Qed.

Theorem pexec_content : forall l s s',
  gexec prec pst pstep_rec s l = Some s' ->
  ps_q s ++ flat_map accepted l = flat_map delivered l ++ ps_q s'.
Proof.
  induction l as [|e l IH]; intros s s' E; cbn [gexec flat_map] in *.
  - inversion E; subst. now rewrite app_nil_r.
  - destruct (pstep_rec s e) as [s1|] eqn:Es; [|discriminate].
    rewrite app_assoc, (pstep_rec_content _ _ _ Es), <- app_assoc, (IH _ _ E). now rewrite app_assoc.
Qed.

(** the boolean content oracle follows from linearizability when packet
    identities are unique and the run ends with nothing held (the drain) *)
Lemma mem_in v l : mem v l = true <-> In v l.
Proof.
  unfold mem. rewrite existsb_exists. split.
  - intros (x & Hx & E). apply N.eqb_eq in E. now subst.
  - intros H. exists v. split; [exact H | apply N.eqb_refl].
Qed.

Lemma nodupb_nodup l : NoDup l -> nodupb l = true.
Proof.
  induction 1 as [|x l Hn _ IH]; [reflexivity|]. cbn [nodupb]. rewrite IH, andb_true_r.
  apply negb_true_iff. destruct (mem x l) eqn:E; [|reflexivity]. apply mem_in in E. contradiction.
Qed.

Theorem content_ok_of_linearizable fill h l s' :
  GIsLin prec pst p_inv p_ret pstep_rec (pst_init fill) h l ->
  gexec prec pst pstep_rec (pst_init fill) l = Some s' -> ps_q s' = [] ->
  NoDup (fill ++ flat_map accepted h) ->
  content_ok fill h = true.
Proof.
  intros (P & _ & _) E Hq ND.
  assert (C := pexec_content l _ _ E). cbn [pst_init ps_q] in C. rewrite Hq, app_nil_r in C.
  assert (PA : Permutation (fill ++ flat_map accepted h) (flat_map delivered h)).
  { rewrite <- (Permutation_flat_map delivered P), <- C.
    apply Permutation_app_head. symmetry. apply Permutation_flat_map. exact P. }
  unfold content_ok. apply andb_true_iff. split; [apply andb_true_iff; split|].
  - apply nodupb_nodup. eapply Permutation_NoDup; [exact PA | exact ND].
  - apply forallb_forall. intros v Hv. apply mem_in. eapply Permutation_in; [symmetry; exact PA | exact Hv].
  - apply forallb_forall. intros v Hv. apply mem_in. eapply Permutation_in; [exact PA | exact Hv].
Qed.

(** a history that is itself a real-time-ordered legal run (e.g. any sequential
    run of the model) is never rejected *)
Theorem plin_check_accepts_runs fuel fill l :
  grt_ok prec p_inv p_ret l -> gexec prec pst pstep_rec (pst_init fill) l <> None ->
  plin_check fuel fill l <> NoLin.
Proof.
  intros Rl E N. apply glin_check_nolin in N. apply N. exists l. split; [reflexivity|]. split; [exact Rl|].
  destruct (gexec prec pst pstep_rec (pst_init fill) l) as [s'|]; [now exists s' | contradiction].
Qed.
