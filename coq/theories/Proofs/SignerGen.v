(** Lemmas about Model/SignerGen.v (C36). *)
From Coq Require Import List NArith ZArith Bool Lia.
From Scion Require Import Lib.Check Model.PKIChain Model.SignerGen Proofs.PKIChain.
Import ListNotations.
Import PKIChain SignerGen.
Local Open Scope N_scope.

Lemma min_time_min a b : min_time a b = Z.min a b.
Proof. unfold min_time. destruct (a <? b)%Z eqn:E; [apply Z.ltb_lt in E | apply Z.ltb_ge in E]; lia. Qed.

(** ---------------------------------------------------------------- bestChain *)

Definition best_inv (t : trc) (now : Z) (seen : list chain) (acc : option chain) : Prop :=
  match acc with
  | None => forall c, In c seen -> verifies t now c = false
  | Some b => In b seen /\ verifies t now b = true
              /\ forall c, In c seen -> verifies t now c = true -> (as_na c <= as_na b)%Z
  end.

Lemma best_fold t now : forall cs seen acc,
  best_inv t now seen acc -> best_inv t now (seen ++ cs) (fold_left (best_step t now) cs acc).
Proof.
  induction cs as [|c r IH]; intros seen acc Hinv; cbn [fold_left].
  - now rewrite app_nil_r.
  - replace (seen ++ c :: r) with ((seen ++ [c]) ++ r) by now rewrite <- app_assoc.
    apply IH. unfold best_step. fold (verifies t now c).
    destruct (verifies t now c) eqn:V.
    + destruct acc as [b|]; cbn [best_inv] in *.
      * destruct Hinv as (Hb & Vb & Hmax).
        destruct (as_na c <? as_na b)%Z eqn:L.
        -- apply Z.ltb_lt in L. split; [apply in_or_app; now left|]. split; auto.
           intros x Hx Vx. apply in_app_or in Hx as [Hx|[<-|[]]]; [now apply Hmax | lia].
        -- apply Z.ltb_ge in L. split; [apply in_or_app; right; now left|]. split; auto.
           intros x Hx Vx. apply in_app_or in Hx as [Hx|[<-|[]]]; [|lia].
           specialize (Hmax x Hx Vx). lia.
      * split; [apply in_or_app; right; now left|]. split; auto.
        intros x Hx Vx. apply in_app_or in Hx as [Hx|[<-|[]]]; [|lia].
        rewrite (Hinv x Hx) in Vx. discriminate.
    + destruct acc as [b|]; cbn [best_inv] in *.
      * destruct Hinv as (Hb & Vb & Hmax). split; [apply in_or_app; now left|]. split; auto.
        intros x Hx Vx. apply in_app_or in Hx as [Hx|[<-|[]]]; [now apply Hmax | congruence].
      * intros x Hx. apply in_app_or in Hx as [Hx|[<-|[]]]; auto.
Qed.

Lemma best_chain_spec t now cs : best_inv t now cs (best_chain t now cs).
Proof. apply (best_fold t now cs [] None). intros c []. Qed.

(** ---------------------------------------------------------------- candidates *)

Lemma filter_eku_In eku cs ch : In ch (filter_eku eku cs) -> In ch cs.
Proof.
  unfold filter_eku. destruct (eku =? 0); auto. intros H. now apply filter_In in H.
Qed.

Lemma candidates_In d isd asn eku now k ch :
  In ch (candidates d isd asn eku now k) ->
  In ch (d_chains d) /\ chain_matches (mkq isd asn (k_skid k) true now now) ch = true
  /\ as_key ch = k_h k.
Proof.
  unfold candidates. intros H. apply filter_eku_In in H. apply filter_In in H as [H K].
  unfold db_chains in H. apply filter_In in H as [H M]. apply N.eqb_eq in K. auto.
Qed.

Lemma chain_in_In ch cs : In ch cs -> chain_in ch cs = true.
Proof. intros H. apply existsb_exists. exists ch. split; auto. apply ids_eqb_refl. Qed.

Lemma chain_matches_skid q ch : chain_matches q ch = true -> q_skid q <> 0 -> as_skid ch = q_skid q.
Proof.
  destruct ch as [|a r]; cbn; try discriminate. intros H Hs.
  apply andb_true_iff in H as [H _]. apply andb_true_iff in H as [_ H].
  apply orb_true_iff in H as [H|H]; apply N.eqb_eq in H; congruence.
Qed.

(** ---------------------------------------------------------------- bestForKey *)

(** what a generated signer satisfies, given the active TRCs [trcs] *)
Lemma best_for_key_got d isd asn eku now trcs k s :
  best_for_key d isd asn eku now trcs k = KGot s ->
  k_skid k <> 0 /\ s_key s = k_h k /\ s_skid s = as_skid (s_chain s)
  /\ In (s_chain s) (candidates d isd asn eku now k)
  /\ exists t rest, trcs = t :: rest /\ s_trc s = trc_id t
     /\ ((s_grace s = false /\ verifies t now (s_chain s) = true
          /\ (forall c, In c (candidates d isd asn eku now k) -> verifies t now c = true ->
                        (as_na c <= as_na (s_chain s))%Z)
          /\ s_expiry s = Z.min (as_na (s_chain s)) (t_na t))
         \/ (exists g, rest = [g] /\ s_grace s = true
             /\ (forall c, In c (candidates d isd asn eku now k) -> verifies t now c = false)
             /\ verifies g now (s_chain s) = true
             /\ (forall c, In c (candidates d isd asn eku now k) -> verifies g now c = true ->
                           (as_na c <= as_na (s_chain s))%Z)
             /\ s_expiry s = Z.min (Z.min (as_na (s_chain s)) (t_na t)) (Z.min (grace_end t) (t_na g)))).
Proof.
  unfold best_for_key. destruct (k_skid k =? 0) eqn:Sk; try discriminate.
  destruct (k_algo_ok k); cbn [negb]; try discriminate.
  apply N.eqb_neq in Sk. set (cs := candidates d isd asn eku now k).
  destruct trcs as [|t [|g [|x r]]]; try discriminate.
  - assert (B := best_chain_spec t now cs). destruct (best_chain t now cs) as [ch|]; try discriminate.
    intros H; inversion H; subst s; cbn. destruct B as (Hin & V & Hmax).
    repeat split; auto. exists t, []. repeat split; auto. left. repeat split; auto. apply min_time_min.
  - assert (B := best_chain_spec t now cs). destruct (best_chain t now cs) as [ch|].
    + intros H; inversion H; subst s; cbn. destruct B as (Hin & V & Hmax).
      repeat split; auto. exists t, [g]. repeat split; auto. left. repeat split; auto. apply min_time_min.
    + assert (B2 := best_chain_spec g now cs). destruct (best_chain g now cs) as [ch|]; try discriminate.
      intros H; inversion H; subst s; cbn. destruct B2 as (Hin & V & Hmax). cbn [best_inv] in B.
      repeat split; auto. exists t, [g]. repeat split; auto. right. exists g. repeat split; auto.
      rewrite !min_time_min. lia.
Qed.

Lemma gen_keys_In d isd asn eku now trcs ks : forall l s,
  gen_keys d isd asn eku now trcs ks = Some l -> In s l ->
  exists k, In k ks /\ best_for_key d isd asn eku now trcs k = KGot s.
Proof.
  induction ks as [|k r IH]; intros l s H Hin; cbn [gen_keys] in H.
  - inversion H; subst. destruct Hin.
  - destruct (best_for_key d isd asn eku now trcs k) as [| |s0] eqn:B; try discriminate.
    + destruct (IH l s H Hin) as (k' & Hk & Hb). exists k'. split; [now right | assumption].
    + destruct (gen_keys d isd asn eku now trcs r) as [l0|] eqn:G; try discriminate.
      inversion H; subst l. destruct Hin as [<-|Hin].
      * exists k. split; [now left | assumption].
      * destruct (IH l0 s eq_refl Hin) as (k' & Hk & Hb). exists k'. split; [now right | assumption].
Qed.

Lemma signer_gen_In d isd asn eku now ks l s :
  signer_gen d isd asn eku now ks = Some l -> In s l ->
  exists trcs k, active_trcs (d_trcs d) isd now = Some trcs /\ In k ks
                 /\ best_for_key d isd asn eku now trcs k = KGot s.
Proof.
  unfold signer_gen. destruct (is_nil ks); try discriminate.
  destruct (active_trcs (d_trcs d) isd now) as [trcs|]; try discriminate.
  destruct (gen_keys d isd asn eku now trcs ks) as [[|s0 l0]|] eqn:G; try discriminate.
  intros H Hin. inversion H; subst l.
  destruct (gen_keys_In _ _ _ _ _ _ _ _ _ G Hin) as (k & Hk & Hb). exists trcs, k. auto.
Qed.

(** ---------------------------------------------------------------- the per-signer property *)

Lemma spec_signer_ok_model d isd asn eku now ks l s :
  signer_gen d isd asn eku now ks = Some l -> In s l ->
  exists k, In k ks /\ s_key s = k_h k
    /\ spec_signer_ok d isd asn eku now k (s_chain s) (s_expiry s) (s_grace s) = true.
Proof.
  intros G Hin. destruct (signer_gen_In _ _ _ _ _ _ _ _ G Hin) as (trcs & k & A & Hk & B).
  exists k. split; auto.
  destruct (best_for_key_got _ _ _ _ _ _ _ _ B) as (Sk & Key & Skid & Hc & t & rest & -> & Tid & Cases).
  split; auto.
  destruct (candidates_In _ _ _ _ _ _ _ Hc) as (Hdb & Hm & Hkey).
  unfold spec_signer_ok. rewrite (chain_in_In _ _ Hc), Hkey, N.eqb_refl. cbn [andb].
  apply active_trcs_cases in A as (t' & L & C & [[Gr E]|[Gr (g' & F & E)]]); inversion E; subst t' rest;
    rewrite L, C; cbn [andb].
  - destruct Cases as [(G0 & V & Hmax & Ex)|(g & Eg & _)]; [|discriminate].
    rewrite G0. rewrite (verify_chain_trc_spec _ _ _ V). cbn [andb].
    rewrite Ex, Z.eqb_refl, andb_true_r.
    apply forallb_forall. intros c Hcin. destruct (verifies t now c) eqn:Vc; cbn [negb orb]; auto.
    apply Z.leb_le. now apply Hmax.
  - destruct Cases as [(G0 & V & Hmax & Ex)|(g & Eg & G1 & Hnone & V & Hmax & Ex)].
    + rewrite G0. rewrite (verify_chain_trc_spec _ _ _ V). cbn [andb].
      rewrite Ex, Z.eqb_refl, andb_true_r.
      apply forallb_forall. intros c Hcin. destruct (verifies t now c) eqn:Vc; cbn [negb orb]; auto.
      apply Z.leb_le. now apply Hmax.
    + inversion Eg; subst g'. rewrite G1, Gr, F. cbn [andb].
      rewrite (verify_chain_trc_spec _ _ _ V). cbn [andb].
      rewrite Ex, Z.eqb_refl, andb_true_r.
      apply andb_true_iff. split.
      * apply negb_true_iff. destruct (existsb (verifies t now) (candidates d isd asn eku now k)) eqn:X; auto.
        apply existsb_exists in X as (c & Hcin & Vc). rewrite (Hnone c Hcin) in Vc. discriminate.
      * apply forallb_forall. intros c Hcin. destruct (verifies g now c) eqn:Vc; cbn [negb orb]; auto.
        apply Z.leb_le. now apply Hmax.
Qed.

(** ---------------------------------------------------------------- sign / verify *)

Lemma sign_ok_iff s now : sign_ok s now = true <-> (now <= s_expiry s)%Z.
Proof. unfold sign_ok. apply Z.leb_le. Qed.

Lemma verifier_ok_model d isd asn eku now ks l s :
  isd <> 0 -> asn <> 0 ->
  signer_gen d isd asn eku now ks = Some l -> In s l ->
  verifier_ok d isd asn s isd asn now = true
  /\ verifier_ok d isd asn s 0 0 now = true
  /\ forall bisd basn, (bisd, basn) <> (isd, asn) -> (bisd, basn) <> (0, 0) ->
       verifier_ok d isd asn s bisd basn now = false.
Proof.
  intros Hi Ha G Hin. destruct (signer_gen_In _ _ _ _ _ _ _ _ G Hin) as (trcs & k & A & Hk & B).
  destruct (best_for_key_got _ _ _ _ _ _ _ _ B) as (Sk & Key & Skid & Hc & t & rest & -> & Tid & Cases).
  destruct (candidates_In _ _ _ _ _ _ _ Hc) as (Hdb & Hm & Hkey).
  assert (Hsk : s_skid s = k_skid k).
  { rewrite Skid. now apply (chain_matches_skid _ _ Hm). }
  (* the part that does not depend on the binding *)
  assert (Core : negb (s_skid s =? 0) = true
     /\ negb ((isd =? 0) || (asn =? 0)) = true
     /\ match latest_trc (d_trcs d) isd with
        | Some l0 => let '(_, b, sr) := s_trc s in (t_base l0 =? b) && (sr <=? t_serial l0)
        | None => false end = true
     /\ match fst (get_chains d (mkq isd asn (s_skid s) false 0 0) false false None now) with
        | Some l0 => existsb (fun ch => as_key ch =? s_key s) l0
        | None => false end = true).
  { split; [rewrite Hsk; apply negb_true_iff; now apply N.eqb_neq|].
    apply N.eqb_neq in Hi, Ha. split; [now rewrite Hi, Ha|].
    assert (A' := A). apply active_trcs_cases in A' as (t' & L & C & Cs).
    assert (Et : t' = t) by (destruct Cs as [[_ E]|[_ (g' & _ & E)]]; now inversion E). subst t'.
    split.
    { rewrite L, Tid. unfold trc_id. rewrite N.eqb_refl. cbn. apply N.leb_le. lia. }
    unfold get_chains. cbn [q_isd q_as]. rewrite Hi, Ha. cbn [orb andb]. rewrite A.
    set (q := mkq isd asn (s_skid s) false 0 0).
    assert (Hq : In (s_chain s) (db_chains d q)).
    { apply filter_In. split; auto. subst q. destruct (s_chain s) as [|a r]; [discriminate|].
      cbn [chain_matches q_isd q_as q_skid q_has_val] in *.
      apply andb_true_iff in Hm as [Hm _]. apply andb_true_iff in Hm as [Hia _].
      rewrite Hia. cbn [as_skid] in Skid. rewrite Skid, N.eqb_refl, orb_true_r. reflexivity. }
    assert (Hv : In (s_chain s) (filter_verifiable (db_chains d q) (t :: rest) now)).
    { apply filter_verifiable_In. split; auto.
      destruct Cases as [(_ & V & _)|(g & -> & _ & _ & V & _)].
      - exists t. split; [now left | exact V].
      - exists g. split; [right; now left | exact V]. }
    destruct (filter_verifiable (db_chains d q) (t :: rest) now) as [|x v] eqn:Fv; [destruct Hv|].
    cbn [is_nil negb fst]. apply existsb_exists. exists (s_chain s). split; auto.
    rewrite Hkey, Key. apply N.eqb_refl. }
  destruct Core as (C1 & C2 & C3 & C4).
  unfold verifier_ok. rewrite C1, C2, C3, C4. cbn [andb]. rewrite !andb_true_r.
  split; [now rewrite !N.eqb_refl, orb_true_r|]. split; [reflexivity|].
  intros bisd basn Hne Hnz.
  destruct ((bisd =? 0) && (basn =? 0)) eqn:Z0.
  { apply andb_true_iff in Z0 as [Z1 Z2]. apply N.eqb_eq in Z1, Z2. subst. now elim Hnz. }
  destruct ((bisd =? isd) && (basn =? asn)) eqn:Z1; auto.
  apply andb_true_iff in Z1 as [Z1 Z2]. apply N.eqb_eq in Z1, Z2. subst. now elim Hne.
Qed.

(** ---------------------------------------------------------------- over the signer's lifetime *)

(** what cppki.TRC.Validate guarantees for every decoded TRC (trc.go: each
    certificate of the TRC covers the TRC validity) *)
Definition trcs_cover (d : db) : Prop :=
  forall t r, In t (d_trcs d) -> In r (t_certs t) -> (c_nb r <= t_nb t /\ t_na t <= c_na r)%Z.

Lemma latest_in_trcs ts isd l : latest_trc ts isd = Some l -> In l ts /\ t_isd l = isd.
Proof.
  induction ts as [|t r IH]; cbn [latest_trc]; try discriminate.
  destruct (t_isd t =? isd) eqn:E.
  - destruct (latest_trc r isd) as [u|].
    + destruct (id_lt (t_base t) (t_serial t) (t_base u) (t_serial u)); intros H; inversion H; subst.
      * destruct (IH eq_refl). split; [now right | assumption].
      * split; [now left | now apply N.eqb_eq].
    + intros H; inversion H; subst. split; [now left | now apply N.eqb_eq].
  - intros H. destruct (IH H). split; [now right | assumption].
Qed.

Lemma find_trc_In ts isd b sr g : find_trc ts isd b sr = Some g -> In g ts.
Proof. unfold find_trc. intros H. now apply find_some in H. Qed.

(** a chain that verifies at [now] still verifies at any later time up to the
    expiry of the AS certificate and of the TRC *)
Lemma verify_later ch t now now' :
  verify_chain_trc ch (Some t) now = true ->
  (forall r, In r (t_certs t) -> (t_na t <= c_na r)%Z) ->
  (now <= now')%Z -> (now' <= as_na ch)%Z -> (now' <= t_na t)%Z ->
  verify_chain_trc ch (Some t) now' = true.
Proof.
  intros V Hcov Hle Ha Ht. apply verify_chain_trc_iff in V as (a & c & r & -> & A).
  apply verify_chain_trc_iff. exists a, c, r. split; auto. destruct A. cbn [as_na] in Ha.
  specialize (Hcov r acc_root_in). constructor; auto; lia.
Qed.

Lemma verifier_ok_later d isd asn eku now ks l s now' :
  isd <> 0 -> asn <> 0 -> trcs_cover d ->
  signer_gen d isd asn eku now ks = Some l -> In s l ->
  (now <= now')%Z -> sign_ok s now' = true ->
  verifier_ok d isd asn s isd asn now' = true.
Proof.
  intros Hi Ha Hcov G Hin Hle Hsg. apply sign_ok_iff in Hsg.
  destruct (signer_gen_In _ _ _ _ _ _ _ _ G Hin) as (trcs & k & A & Hk & B).
  destruct (best_for_key_got _ _ _ _ _ _ _ _ B) as (Sk & Key & Skid & Hc & t & rest & -> & Tid & Cases).
  destruct (candidates_In _ _ _ _ _ _ _ Hc) as (Hdb & Hm & Hkey).
  assert (Hsk : s_skid s = k_skid k).
  { rewrite Skid. now apply (chain_matches_skid _ _ Hm). }
  assert (A' := A). apply active_trcs_cases in A' as (t' & L & C & Cs).
  assert (Et : t' = t) by (destruct Cs as [[_ E]|[_ (g' & _ & E)]]; now inversion E). subst t'.
  destruct (latest_in_trcs _ _ _ L) as [Lin _].
  apply contains_iff in C.
  (* the TRCs that are active at now' still verify the chain *)
  assert (Act : exists trcs', active_trcs (d_trcs d) isd now' = Some trcs'
            /\ exists u, In u trcs' /\ verify_chain_trc (s_chain s) (Some u) now' = true).
  { destruct Cases as [(G0 & V & _ & Ex)|(g & -> & G1 & _ & V & _ & Ex)].
    - assert (V' : verify_chain_trc (s_chain s) (Some t) now' = true).
      { apply (verify_later _ _ now); auto; try lia. intros r Hr. now apply (Hcov t r Lin Hr). }
      assert (Ct : trc_contains t now' = true) by (apply contains_iff; lia).
      unfold active_trcs. rewrite L, Ct. cbn [negb].
      destruct (in_grace t now') eqn:G'; cbn [negb].
      + assert (Gn : in_grace t now = true).
        { unfold in_grace in *. apply andb_true_iff in G' as [Bs Cg]. rewrite Bs. cbn [andb].
          apply contains_iff in Cg. apply contains_iff. lia. }
        destruct Cs as [[Gr _]|[_ (g' & F & _)]]; [congruence|].
        rewrite F. eexists. split; [reflexivity|]. exists t. split; [now left | exact V'].
      + eexists. split; [reflexivity|]. exists t. split; [now left | exact V'].
    - destruct Cs as [[_ E]|[Gr (g' & F & E)]]; inversion E; subst g'.
      assert (Gin : In g (d_trcs d)) by (eapply find_trc_In; eauto).
      assert (V' : verify_chain_trc (s_chain s) (Some g) now' = true).
      { apply (verify_later _ _ now); auto; try lia. intros r Hr. now apply (Hcov g r Gin Hr). }
      assert (Ct : trc_contains t now' = true) by (apply contains_iff; lia).
      assert (G' : in_grace t now' = true).
      { unfold in_grace in *. apply andb_true_iff in Gr as [Bs Cg]. rewrite Bs. cbn [andb].
        apply contains_iff in Cg. apply contains_iff. lia. }
      unfold active_trcs. rewrite L, Ct, G', F. cbn [negb].
      eexists. split; [reflexivity|]. exists g. split; [right; now left | exact V']. }
  destruct Act as (trcs' & A2 & u & Hu & Vu).
  unfold verifier_ok.
  rewrite Hsk. apply N.eqb_neq in Sk. rewrite Sk. cbn [negb andb].
  rewrite !N.eqb_refl. cbn [andb orb]. rewrite orb_true_r. cbn [andb].
  apply N.eqb_neq in Hi, Ha. rewrite Hi, Ha. cbn [orb negb andb].
  rewrite L, Tid. unfold trc_id. rewrite N.eqb_refl.
  assert (Sl : (t_serial t <=? t_serial t) = true) by (apply N.leb_le; lia). rewrite Sl. cbn [andb].
  unfold get_chains. cbn [q_isd q_as]. rewrite Hi, Ha. cbn [orb andb]. rewrite A2.
  set (q := mkq isd asn (k_skid k) false 0 0).
  assert (Hq : In (s_chain s) (db_chains d q)).
  { apply filter_In. split; auto. subst q. destruct (s_chain s) as [|a r]; [discriminate|].
    cbn [chain_matches q_isd q_as q_skid q_has_val] in *.
    apply andb_true_iff in Hm as [Hm _]. apply andb_true_iff in Hm as [Hia Hs].
    rewrite Hia, Hs. reflexivity. }
  assert (Hv : In (s_chain s) (filter_verifiable (db_chains d q) trcs' now')).
  { apply filter_verifiable_In. split; auto. exists u. auto. }
  destruct (filter_verifiable (db_chains d q) trcs' now') as [|x v] eqn:Fv; [destruct Hv|].
  cbn [is_nil negb fst]. apply existsb_exists. exists (s_chain s). split; auto.
  rewrite Hkey, Key. apply N.eqb_refl.
Qed.
