(** Lemmas about Model/HdrScion.v (C18 layer 3). *)
From Coq Require Import List Arith NArith ZArith Bool Lia ZifyN ZifyNat ZifyBool.
From Scion Require Import Lib.Bytes Lib.BytesX Lib.Check Model.HdrPath Proofs.HdrPath Model.HdrScion.
Import ListNotations.
Import HdrPath HdrScion.
Local Open Scope N_scope.
Ltac Zify.zify_post_hook ::= Z.div_mod_to_equations.

Ltac pows2 :=
  change (2 ^ 28) with 268435456 in *; change (2 ^ 20) with 1048576 in *;
  change (2 ^ 64) with 18446744073709551616 in *.

Lemma addr_len_cases t : addr_len t = 4%nat \/ addr_len t = 8%nat \/ addr_len t = 12%nat \/ addr_len t = 16%nat.
Proof.
  unfold addr_len, line_len.
  assert (H : t mod 4 = 0 \/ t mod 4 = 1 \/ t mod 4 = 2 \/ t mod 4 = 3) by lia.
  destruct H as [->|[->|[->| ->]]]; cbn; auto.
Qed.

Lemma first_line_lt h : first_line h < 4294967296.
Proof. unfold first_line. pows2. lia. Qed.

Lemma tl_split dt st : dt < 16 -> st < 16 ->
  ((dt mod 16 * 16 + st mod 16) / 16) mod 16 = dt /\ (dt mod 16 * 16 + st mod 16) mod 16 = st /\
  dt mod 16 * 16 + st mod 16 < 256.
Proof. intros. repeat split; lia. Qed.

Lemma tl_join tl : tl < 256 -> ((tl / 16) mod 16) mod 16 * 16 + (tl mod 16) mod 16 = tl.
Proof. intros. lia. Qed.

Lemma line_split v tc fl : v < 16 -> tc < 256 -> fl < 1048576 ->
  let line := v mod 16 * 268435456 + tc mod 256 * 1048576 + fl mod 1048576 in
  line / 268435456 = v /\ (line / 1048576) mod 256 = tc /\ line mod 1048576 = fl.
Proof. intros. subst line. repeat split; lia. Qed.

Lemma line_join line : line < 4294967296 ->
  (line / 268435456) mod 16 * 268435456 + ((line / 1048576) mod 256) mod 256 * 1048576 +
  (line mod 1048576) mod 1048576 = line.
Proof. intros. lia. Qed.

(** ------------------------------------------------------------ serialize then decode *)
Lemma path_type_lt p : is_opaque p = false -> path_type p < 4.
Proof. destruct p; cbn; intros; try discriminate; lia. Qed.

Lemma scion_dec_enc h : wf_scion h -> is_opaque (s_path h) = false ->
  exists e, scion_encode_nofix h = Ok e /\ length e = scn_len h /\
    forall payload, scion_decode (e ++ payload) = Ok (scion_canon false 0 h, payload).
Proof.
  intros (WN & Hpl & Hlen & Hhl) NO.
  destruct WN as (Hv & Htc & Hfl & Hnh & Hpt & Hdt & Hst & Hdia & Hsia & Ld & Wd & Ls & Ws & Wp & ND).
  destruct (path_dec_enc (s_path h) Wp ND NO) as (pe & Epe & Lpe & Dpe & _).
  unfold scion_encode_nofix.
  rewrite (proj2 (Nat.ltb_ge _ _)) by (unfold max_hdr_len, line_len in *; lia).
  replace (Nat.eqb (Nat.modulo (scn_len h) line_len) 0) with true.
  2:{ symmetry. apply Nat.eqb_eq. rewrite <- Hlen. apply Nat.mod_mul. unfold line_len. lia. }
  cbn [negb]. rewrite Epe. cbn [bind].
  eexists. split; [reflexivity|].
  rewrite (fit_exact _ _ Ld), (fit_exact _ _ Ls).
  split.
  { len_norm. rewrite Ld, Ls, Lpe. unfold scn_len, addr_hdr_len, cmn_hdr_len, ia_bytes. lia. }
  intros payload. unfold scion_decode, scion_decode_gen.
  rewrite ltb_false by (len_norm; unfold cmn_hdr_len; lia).
  rewrite <- !app_assoc.
  destruct (tl_split _ _ Hdt Hst) as (Edt & Est & Htl).
  pose proof (first_line_lt h) as Hline.
  assert (Hptl : s_pathtype h < 256) by (rewrite Hpt; pose proof (path_type_lt _ NO); lia).
  rewrite wordP_be_small by lt_pow. cbn [bind].
  do 6(rewrite wordP_be_small by lt_pow; cbn [bind]).
  cbv zeta. rewrite !Edt, !Est.
  rewrite ltb_false by (len_norm; rewrite Ld, Ls; unfold addr_hdr_len, ia_bytes; lia).
  pows2.
  do 2 (rewrite wordP_be_small by lt_pow; cbn [bind]).
  rewrite takeP_app' by exact Ld. cbn [bind].
  rewrite takeP_app' by exact Ls. cbn [bind].
  rewrite ltb_false by (unfold scn_len in Hlen; lia).
  rewrite ltb_false by (len_norm; rewrite Ld, Ls, Lpe; unfold scn_len, addr_hdr_len, cmn_hdr_len, ia_bytes in *; lia).
  rewrite takeP_app' by (unfold scn_len in Hlen; lia). cbn [bind].
  rewrite Hpt, Dpe. cbn [bind].
  unfold first_line. pows2.
  destruct (line_split _ _ _ Hv Htc Hfl) as (-> & -> & ->).
  unfold scion_canon. rewrite Hpt. reflexivity.
Qed.

(** FixLengths: a header without (valid) length fields is completed by the serializer *)
Lemma scion_fix_wf h n : wf_scion_nolen h ->
  (scn_len h <= max_hdr_len)%nat -> Nat.modulo (scn_len h) line_len = 0%nat ->
  wf_scion (scion_fix n h).
Proof.
  intros WN Hmax Hmod. split; [exact WN|]. unfold scion_fix.
  cbn [s_paylen s_hdrlen].
  match goal with |- context [scn_len (mkScion ?a ?b ?c ?d ?e ?f ?g ?i ?j ?k ?l ?m ?o ?q)] =>
    change (scn_len (mkScion a b c d e f g i j k l m o q)) with (scn_len h) end.
  unfold max_hdr_len, line_len in *.
  apply Nat.mod_divides in Hmod; [|lia]. destruct Hmod as [c Hc]. rewrite Hc in *.
  replace (N.of_nat (4 * c) / 4) with (N.of_nat c) by lia.
  repeat split; lia.
Qed.

Lemma scion_dec_enc_fix h n : wf_scion_nolen h -> is_opaque (s_path h) = false ->
  (scn_len h <= max_hdr_len)%nat -> Nat.modulo (scn_len h) line_len = 0%nat ->
  exists e, scion_encode true n h = Ok e /\ length e = scn_len h /\
    forall payload, scion_decode (e ++ payload) = Ok (scion_canon true n h, payload).
Proof.
  intros WN NO Hmax Hmod. pose proof (scion_fix_wf h n WN Hmax Hmod) as W.
  destruct (scion_dec_enc _ W NO) as (e & E & L & D). exists e. split; [exact E|]. split; [exact L|].
  exact D.
Qed.

(** with FixLengths the payload length field is the real payload length *)
Lemma scion_fix_paylen h n : n < 65536 -> s_paylen (scion_canon true n h) = n.
Proof. intros H. cbn. lia. Qed.

(** ------------------------------------------------------------ decode then serialize *)
Lemma mask_scion_struct (c10 x ad pb payload : bytes) :
  length c10 = 10%nat -> length x = 2%nat ->
  length ad = addr_hdr_len ((nth 9 c10 0 / 16) mod 16) (nth 9 c10 0 mod 16) ->
  length pb = (N.to_nat (nth 5 c10 0%N) * line_len - cmn_hdr_len - length ad)%nat ->
  mask_scion (c10 ++ x ++ ad ++ pb ++ payload) =
  c10 ++ [0; 0] ++ ad ++ mask_path (nth 8 c10 0) pb ++ payload.
Proof.
  intros L10 Lx Lad Lpb. unfold mask_scion.
  rewrite !(app_nth1 c10) by lia.
  rewrite <- Lad, <- Lpb.
  rewrite firstn_app_exact by exact L10. f_equal. f_equal.
  replace cmn_hdr_len with (length (c10 ++ x)) by (rewrite app_length; unfold cmn_hdr_len; lia).
  rewrite (app_assoc c10 x). rewrite skipn_app_exact by reflexivity.
  rewrite firstn_app_exact by reflexivity. f_equal.
  replace (length (c10 ++ x) + length ad)%nat with (length ((c10 ++ x) ++ ad)) by (now rewrite app_length).
  rewrite (app_assoc (c10 ++ x) ad). rewrite skipn_app_exact by reflexivity.
  rewrite firstn_app_exact by reflexivity. f_equal.
  replace (length ((c10 ++ x) ++ ad) + length pb)%nat with (length (((c10 ++ x) ++ ad) ++ pb))
    by (now rewrite app_length).
  rewrite (app_assoc _ pb). now rewrite skipn_app_exact by reflexivity.
Qed.

Lemma nth_c10 line nh hl pl pt tl : nh < 256 -> hl < 256 -> pt < 256 -> tl < 256 ->
  let c10 := be 4 line ++ be 1 nh ++ be 1 hl ++ be 2 pl ++ be 1 pt ++ be 1 tl in
  length c10 = 10%nat /\ nth 5 c10 0 = hl /\ nth 8 c10 0 = pt /\ nth 9 c10 0 = tl.
Proof.
  intros Hnh Hhl Hpt Htl c10. subst c10. split; [len_norm; reflexivity|].
  rewrite !be_1. cbn [be app]. cbn [nth].
  repeat split; apply N.mod_small; assumption.
Qed.

Section AnyPathDecoder.
(** everything below holds for the strict decoder and for the recycling one alike *)
Variable pd : N -> bytes -> res (path * bytes).
Hypothesis pd_np : forall pt bs, pd pt bs <> Panic.
Hypothesis pd_spec : forall pt bs p rest, pt < 256 -> wf_bytes bs -> pd pt bs = Ok (p, rest) ->
  exists e, path_encode p = Ok e /\ e ++ rest = mask_path pt bs /\ wf_path p /\ wf_bytes rest /\
            path_type p = pt /\ length bs = (path_len p + length rest)%nat /\
            (forall d, p <> PDecoded d).

Lemma scion_enc_dec_gen bs h payload : wf_bytes bs -> scion_decode_gen pd bs = Ok (h, payload) ->
  wf_scion_nolen h /\ s_paylen h < 65536 /\ s_hdrlen h < 256 /\ wf_bytes payload /\
  (scn_len h <= N.to_nat (s_hdrlen h) * line_len)%nat /\
  length bs = (N.to_nat (s_hdrlen h) * line_len + length payload)%nat /\
  (scion_slack h = 0%nat ->
   exists e, scion_encode_nofix h = Ok e /\ e ++ payload = mask_scion bs).
Proof.
  intros W. unfold scion_decode_gen. destruct (Nat.ltb (length bs) cmn_hdr_len); [discriminate|].
  do 7 inv_word. cbv zeta.
  set (dt := (n4 / 16) mod 16). set (st := n4 mod 16).
  destruct (Nat.ltb (length r) (addr_hdr_len dt st)); [discriminate|].
  do 2 inv_word. do 2 inv_take.
  destruct (Nat.ltb (N.to_nat n1 * line_len) (cmn_hdr_len + addr_hdr_len dt st)) eqn:L1; [discriminate|].
  apply Nat.ltb_ge in L1.
  match goal with |- context [Nat.ltb ?a ?b] => destruct (Nat.ltb a b) eqn:L2; [discriminate|] end.
  apply Nat.ltb_ge in L2.
  inv_take.
  destruct (pd n3 a1) as [[p slack]| |] eqn:Ep; cbn [bind]; try discriminate.
  intros H; injection H as <- <-.
  assert (Hpt256 : n3 < 256) by (pow256; lia).
  destruct (pd_spec _ _ _ _ Hpt256 Wa1 Ep) as (pe & Epe & Mpe & Wp & Wslack & Hpt & Lpb & ND).
  pows2. pow256.
  assert (Hdt : dt < 16) by (subst dt; lia). assert (Hst : st < 16) by (subst st; lia).
  cbn [s_paylen s_hdrlen]. unfold scn_len, scion_slack, scn_len.
  cbn [s_dt s_st s_path s_hdrlen].
  split.
  { unfold wf_scion_nolen.
    cbn [s_version s_tc s_flowid s_nexthdr s_pathtype s_dt s_st s_dstia s_srcia s_rawdst s_rawsrc s_path].
    pows2. repeat (split; [first [assumption | lia | congruence]|]). exact ND. }
  split; [lia|]. split; [lia|]. split; [assumption|].
  split; [lia|].
  split.
  { len_norm. rewrite Ha, Ha0, Ha1. unfold addr_hdr_len, cmn_hdr_len, ia_bytes in *. lia. }
  intros Hslack.
  assert (slack = []) as ->.
  { destruct slack; [reflexivity|]. cbn [length] in Lpb. lia. }
  rewrite app_nil_r in Mpe.
  unfold scion_encode_nofix, scn_len.
  cbn [s_version s_tc s_flowid s_nexthdr s_hdrlen s_paylen s_pathtype s_dt s_st s_dstia s_srcia
       s_rawdst s_rawsrc s_path].
  rewrite (proj2 (Nat.ltb_ge _ _)) by (unfold max_hdr_len, line_len in *; lia).
  replace (Nat.eqb (Nat.modulo (cmn_hdr_len + addr_hdr_len dt st + path_len p) line_len) 0) with true.
  2:{ symmetry. apply Nat.eqb_eq.
      replace (cmn_hdr_len + addr_hdr_len dt st + path_len p)%nat with (N.to_nat n1 * line_len)%nat by lia.
      apply Nat.mod_mul. unfold line_len. lia. }
  cbn [negb]. rewrite Epe. cbn [bind].
  eexists. split; [reflexivity|].
  rewrite (fit_exact _ _ Ha), (fit_exact _ _ Ha0).
  unfold first_line.
  cbn [s_version s_tc s_flowid]. pows2. rewrite line_join by lia.
  subst dt st. rewrite tl_join by lia.
  destruct (nth_c10 n n0 n1 n2 n3 n4) as (L10 & N5 & N8 & N9); try lia.
  cbv zeta in L10, N5, N8, N9.
  set (c10 := be 4 n ++ be 1 n0 ++ be 1 n1 ++ be 2 n2 ++ be 1 n3 ++ be 1 n4) in *.
  replace (be 4 n ++ be 1 n0 ++ be 1 n1 ++ be 2 n2 ++ be 1 n3 ++ be 1 n4 ++ be 2 n5 ++
           be 8 n6 ++ be 8 n7 ++ a ++ a0 ++ a1 ++ r0)
    with (c10 ++ be 2 n5 ++ (be 8 n6 ++ be 8 n7 ++ a ++ a0) ++ a1 ++ r0)
    by (subst c10; now rewrite <- !app_assoc).
  rewrite mask_scion_struct.
  - rewrite N8, Mpe. subst c10. rewrite <- !app_assoc. reflexivity.
  - exact L10.
  - apply be_length.
  - rewrite N9. len_norm. rewrite Ha, Ha0. unfold addr_hdr_len, ia_bytes. lia.
  - rewrite N5. len_norm. rewrite Ha, Ha0, Ha1. unfold addr_hdr_len, ia_bytes, cmn_hdr_len. lia.
Qed.

(** ------------------------------------------------------------ totality *)
Lemma scion_no_panic_gen bs : scion_decode_gen pd bs <> Panic.
Proof.
  unfold scion_decode_gen. destruct (Nat.ltb (length bs) cmn_hdr_len) eqn:L; [discriminate|].
  apply Nat.ltb_ge in L. unfold cmn_hdr_len in L.
  do 7 (np_word lia). cbv zeta.
  set (dt := (n4 / 16) mod 16). set (st := n4 mod 16).
  destruct (Nat.ltb (length r5) (addr_hdr_len dt st)) eqn:L0; [discriminate|].
  apply Nat.ltb_ge in L0. unfold addr_hdr_len, ia_bytes in L0.
  do 2 (np_word lia). do 2 (np_take lia).
  match goal with |- context [Nat.ltb ?a ?b] => destruct (Nat.ltb a b) eqn:L1; [discriminate|] end.
  apply Nat.ltb_ge in L1.
  match goal with |- context [Nat.ltb ?a ?b] => destruct (Nat.ltb a b) eqn:L2; [discriminate|] end.
  apply Nat.ltb_ge in L2.
  np_take ltac:(unfold addr_hdr_len, ia_bytes, cmn_hdr_len in *; lia).
  pose proof (pd_np n3 a1).
  destruct (pd n3 a1) as [[p s]| |]; cbn [bind]; congruence.
Qed.

Lemma nth5_word line nh hl r : hl < 256 -> nth 5 (be 4 line ++ be 1 nh ++ be 1 hl ++ r) 0 = hl.
Proof.
  intros H. rewrite !be_1. cbn [be app nth]. now apply N.mod_small.
Qed.

(** HdrLen announcing more bytes than there are is rejected *)
Lemma scion_reject_overlong_gen bs : wf_bytes bs -> scion_overlong bs = true -> scion_decode_gen pd bs = Err.
Proof.
  intros W H. pose proof (scion_no_panic_gen bs) as NP.
  destruct (scion_decode_gen pd bs) as [[h payload]| |] eqn:E; [|reflexivity|congruence].
  exfalso. destruct (scion_enc_dec_gen _ _ _ W E) as (_ & _ & Hhl & _ & _ & Hlen & _).
  unfold scion_overlong in H. apply andb_true_iff in H as [_ H]. apply Nat.ltb_lt in H.
  assert (nth 5 bs 0 = s_hdrlen h).
  { revert E. unfold scion_decode_gen. destruct (Nat.ltb (length bs) cmn_hdr_len); [discriminate|].
    do 3 inv_word. intros E.
    assert (s_hdrlen h = n1).
    { revert E. repeat match goal with
        | |- context [bind (wordP ?k ?l) _] => destruct (wordP k l) as [[? ?]| |]; cbn [bind]; try discriminate
        | |- context [bind (takeP ?k ?l) _] => destruct (takeP k l) as [[? ?]| |]; cbn [bind]; try discriminate
        | |- context [if ?c then Err else _] => destruct c; try discriminate
        | |- context [bind (pd ?k ?l) _] => destruct (pd k l) as [[? ?]| |]; cbn [bind]; try discriminate
        | _ => progress cbv zeta
        end.
      intros E; injection E as <- <-. reflexivity. }
    rewrite H0. apply nth5_word. pow256. lia. }
  rewrite H0 in H. lia.
Qed.

End AnyPathDecoder.

Lemma scion_enc_dec bs h payload : wf_bytes bs -> scion_decode bs = Ok (h, payload) ->
  wf_scion_nolen h /\ s_paylen h < 65536 /\ s_hdrlen h < 256 /\ wf_bytes payload /\
  (scn_len h <= N.to_nat (s_hdrlen h) * line_len)%nat /\
  length bs = (N.to_nat (s_hdrlen h) * line_len + length payload)%nat /\
  (scion_slack h = 0%nat ->
   exists e, scion_encode_nofix h = Ok e /\ e ++ payload = mask_scion bs).
Proof. exact (scion_enc_dec_gen path_decode path_no_panic (fun pt bs p rest _ => path_enc_dec pt bs p rest) bs h payload). Qed.
Lemma scion_no_panic bs : scion_decode bs <> Panic.
Proof. exact (scion_no_panic_gen path_decode path_no_panic (fun pt bs p rest _ => path_enc_dec pt bs p rest) bs). Qed.
Lemma scion_reject_overlong bs : wf_bytes bs -> scion_overlong bs = true -> scion_decode bs = Err.
Proof. exact (scion_reject_overlong_gen path_decode path_no_panic (fun pt bs p rest _ => path_enc_dec pt bs p rest) bs). Qed.

Lemma scion_r_enc_dec bs h payload : wf_bytes bs -> scion_decode_r bs = Ok (h, payload) ->
  wf_scion_nolen h /\ s_paylen h < 65536 /\ s_hdrlen h < 256 /\ wf_bytes payload /\
  (scn_len h <= N.to_nat (s_hdrlen h) * line_len)%nat /\
  length bs = (N.to_nat (s_hdrlen h) * line_len + length payload)%nat /\
  (scion_slack h = 0%nat ->
   exists e, scion_encode_nofix h = Ok e /\ e ++ payload = mask_scion bs).
Proof. exact (scion_enc_dec_gen path_decode_r path_r_no_panic path_r_enc_dec bs h payload). Qed.
Lemma scion_r_no_panic bs : scion_decode_r bs <> Panic.
Proof. exact (scion_no_panic_gen path_decode_r path_r_no_panic path_r_enc_dec bs). Qed.
Lemma scion_r_reject_overlong bs : wf_bytes bs -> scion_overlong bs = true -> scion_decode_r bs = Err.
Proof. exact (scion_reject_overlong_gen path_decode_r path_r_no_panic path_r_enc_dec bs). Qed.

(** a recycling layer and a fresh one agree on every packet whose path type is registered *)
Lemma scion_r_same bs : nth 8 bs 0 <= 3 -> wf_bytes bs -> scion_decode_r bs = scion_decode bs.
Proof.
  intros H8 W. unfold scion_decode_r, scion_decode, scion_decode_gen.
  destruct (Nat.ltb (length bs) cmn_hdr_len); [reflexivity|].
  destruct (wordP 4 bs) as [[n r]| |] eqn:E1; cbn [bind]; try reflexivity.
  apply (wordP_inv _ _ _ _ W) in E1 as (-> & Hn & W1).
  destruct (wordP 1 r) as [[n0 r0]| |] eqn:E2; cbn [bind]; try reflexivity.
  apply (wordP_inv _ _ _ _ W1) in E2 as (-> & Hn0 & W2).
  destruct (wordP 1 r0) as [[n1 r1]| |] eqn:E3; cbn [bind]; try reflexivity.
  apply (wordP_inv _ _ _ _ W2) in E3 as (-> & Hn1 & W3).
  destruct (wordP 2 r1) as [[n2 r2]| |] eqn:E4; cbn [bind]; try reflexivity.
  apply (wordP_inv _ _ _ _ W3) in E4 as (-> & Hn2 & W4).
  destruct (wordP 1 r2) as [[n3 r3]| |] eqn:E5; cbn [bind]; try reflexivity.
  apply (wordP_inv _ _ _ _ W4) in E5 as (-> & Hn3 & W5).
  assert (E8 : nth 8 (be 4 n ++ be 1 n0 ++ be 1 n1 ++ be 2 n2 ++ be 1 n3 ++ r3) 0 = n3).
  { rewrite !be_1. cbn [be app nth]. apply N.mod_small. pow256. lia. }
  rewrite E8 in H8.
  repeat match goal with
    | |- context [bind (wordP ?k ?l) _] => destruct (wordP k l) as [[? ?]| |]; cbn [bind]; try reflexivity
    | |- context [bind (takeP ?k ?l) _] => destruct (takeP k l) as [[? ?]| |]; cbn [bind]; try reflexivity
    | |- context [if ?c then Err else _] => destruct c; try reflexivity
    | _ => progress cbv zeta
    end.
  now rewrite path_r_same.
Qed.

(** ------------------------------------------------------------ headers carrying a decoded path *)
Lemma to_raw_ok d : wf_dec d ->
  exists e, dec_encode d = Ok e /\ to_raw d = PScion (mkRaw (dp_base d) e) /\
            length e = base_len (dp_base d) /\ raw_encode (mkRaw (dp_base d) e) = Ok e /\
            raw_canon (mkRaw (dp_base d) e) = mkRaw (dp_base d) e /\ dec_decode e = Ok (d, []).
Proof.
  intros W. destruct (dec_encode_ok d W) as [E L]. destruct (dec_dec_enc d [] W) as (e & E' & D).
  rewrite E in E'. injection E' as <-. rewrite app_nil_r in D.
  eexists. split; [exact E|]. split; [unfold to_raw; now rewrite E|]. split; [exact L|].
  pose proof (base_len_ge (dp_base d)) as G.
  assert (S4 : skipn meta_len (meta_encode (b_meta (dp_base d)) ++
                concat (map info_encode (dp_infos d)) ++ concat (map hop_encode (dp_hops d))) =
               concat (map info_encode (dp_infos d)) ++ concat (map hop_encode (dp_hops d)))
    by (apply skipn_app_exact, meta_encode_length).
  split; [|split; [|exact D]].
  - unfold raw_encode. cbn [rp_raw rp_base]. rewrite ltb_false by lia. rewrite S4. now rewrite fit_exact.
  - unfold raw_canon. cbn [rp_raw rp_base]. now rewrite S4.
Qed.

Lemma scion_undecoded_other h : is_decoded (s_path h) = false -> scion_undecoded h = h.
Proof. unfold scion_undecoded. destruct (s_path h); try reflexivity. discriminate. Qed.

Lemma scion_undecoded_encode h d : s_path h = PDecoded d -> wf_dec d ->
  scion_encode_nofix (scion_undecoded h) = scion_encode_nofix h.
Proof.
  intros P W. destruct (to_raw_ok d W) as (e & E & T & L & R & _).
  unfold scion_undecoded. rewrite P, T. unfold scion_encode_nofix, scn_len.
  cbn [s_version s_tc s_flowid s_nexthdr s_hdrlen s_paylen s_pathtype s_dt s_st s_dstia s_srcia
       s_rawdst s_rawsrc s_path first_line]. rewrite P.
  cbn [path_len path_encode rp_base]. rewrite R, E. reflexivity.
Qed.

Lemma scion_undecoded_fix h d n : s_path h = PDecoded d -> wf_dec d ->
  scion_undecoded (scion_fix n h) = scion_fix n (scion_undecoded h).
Proof.
  intros P W. destruct (to_raw_ok d W) as (e & E & T & L & R & _).
  unfold scion_undecoded, scion_fix, scn_len. cbn [s_path s_version s_tc s_flowid s_nexthdr s_hdrlen
    s_paylen s_pathtype s_dt s_st s_dstia s_srcia s_rawdst s_rawsrc]. rewrite P, T.
  cbn [s_path s_version s_tc s_flowid s_nexthdr s_hdrlen s_paylen s_pathtype s_dt s_st s_dstia s_srcia
    s_rawdst s_rawsrc path_len rp_base]. reflexivity.
Qed.

(** serializing a header with a decoded path and decoding the bytes yields the same header with the
    path in raw form, and that raw path decodes (ToDecoded) to exactly the original fields *)
Lemma scion_dec_enc_decoded (fx : bool) n h d : s_path h = PDecoded d -> wf_dec d ->
  (if fx then wf_scion_nolen (scion_undecoded h) /\ (scn_len (scion_undecoded h) <= max_hdr_len)%nat /\
              Nat.modulo (scn_len (scion_undecoded h)) line_len = 0%nat
   else wf_scion (scion_undecoded h)) ->
  exists e r, scion_encode fx n h = Ok e /\
    s_path (scion_canon fx n (scion_undecoded h)) = PScion r /\ dec_decode (rp_raw r) = Ok (d, []) /\
    forall payload, scion_decode (e ++ payload) = Ok (scion_canon fx n (scion_undecoded h), payload).
Proof.
  intros P Wd W. destruct (to_raw_ok d Wd) as (e0 & E0 & T & L0 & R0 & C0 & D0).
  assert (NO : is_opaque (s_path (scion_undecoded h)) = false)
    by (unfold scion_undecoded; rewrite P, T; reflexivity).
  assert (Enc : scion_encode fx n h = scion_encode fx n (scion_undecoded h)).
  { unfold scion_encode. destruct fx.
    - rewrite <- (scion_undecoded_fix h d n P Wd). symmetry. apply (scion_undecoded_encode _ d); [exact P | exact Wd].
    - symmetry. now apply (scion_undecoded_encode h d). }
  assert (Hp : s_path (scion_canon fx n (scion_undecoded h)) = PScion (mkRaw (dp_base d) e0)).
  { unfold scion_canon, scion_undecoded. rewrite P, T. destruct fx; cbn [s_path scion_fix path_canon]; now rewrite C0. }
  destruct fx.
  - destruct W as (W & Hm & Hmod). destruct (scion_dec_enc_fix _ n W NO Hm Hmod) as (e & E & _ & D).
    exists e, (mkRaw (dp_base d) e0). rewrite Enc. auto.
  - destruct (scion_dec_enc _ W NO) as (e & E & _ & D).
    exists e, (mkRaw (dp_base d) e0). rewrite Enc. auto.
Qed.

(** the path type of every decoded header fits the PathType byte *)
Lemma scion_r_pathtype_lt bs h payload : wf_bytes bs -> scion_decode_r bs = Ok (h, payload) ->
  s_pathtype h < 256.
Proof.
  intros W D. destruct (scion_r_enc_dec _ _ _ W D) as (WN & _).
  destruct WN as (_ & _ & _ & _ & Hpt & _ & _ & _ & _ & _ & _ & _ & _ & Wp & _).
  rewrite Hpt. destruct (s_path h); cbn in *; lia.
Qed.

(** ------------------------------------------------------------ ParseAddr / PackAddr *)
Lemma parse_pack h : wf_host h ->
  parse_addr (fst (pack_addr h)) (snd (pack_addr h)) = Ok h.
Proof.
  destruct h as [b|b|s]; cbn [wf_host pack_addr].
  - intros [L W]. cbn [fst snd]. unfold parse_addr. change (T4Ip =? T4Ip) with true. cbv iota.
    now rewrite fit_exact.
  - intros (L & W & M). rewrite M. cbn [fst snd]. unfold parse_addr.
    change (T16Ip =? T4Ip) with false. change (T16Ip =? T4Svc) with false.
    change (T16Ip =? T16Ip) with true. cbv iota. now rewrite fit_exact.
  - intros H. cbn [fst snd]. unfold parse_addr.
    change (T4Svc =? T4Ip) with false. change (T4Svc =? T4Svc) with true. cbv iota.
    rewrite wordP_be_small by lt_pow. reflexivity.
Qed.

Lemma pack_parse t raw h : wf_bytes raw -> length raw = addr_len t -> t < 16 ->
  parse_addr t raw = Ok h ->
  (forall b, h = HostIP6 b -> is_v4mapped b = false) ->
  pack_addr h = (t, mask_addr t raw) /\ wf_host h.
Proof.
  intros W L Ht. unfold parse_addr.
  destruct (t =? T4Ip) eqn:E0.
  { apply N.eqb_eq in E0. subst t. intros H; injection H as <-. intros _.
    cbn in L. rewrite fit_exact by exact L. cbn. auto. }
  destruct (t =? T4Svc) eqn:E1.
  { apply N.eqb_eq in E1. subst t. cbn in L.
    destruct (wordP 2 raw) as [[s r]| |] eqn:Ew; cbn [bind]; try discriminate.
    intros H; injection H as <-. intros _.
    apply (wordP_inv _ _ _ _ W) in Ew as (-> & Hs & Wr).
    cbn [pack_addr]. unfold mask_addr. change (T4Svc =? T4Svc) with true. cbv iota.
    rewrite firstn_app_exact by apply be_length. split; [reflexivity|]. cbn [wf_host]. pow256. lia. }
  destruct (t =? T16Ip) eqn:E2; [|discriminate].
  apply N.eqb_eq in E2. subst t. change (addr_len T16Ip) with 16%nat in L.
  rewrite fit_exact by exact L. intros H; injection H as <-. intros NM.
  cbn [pack_addr]. rewrite (NM raw eq_refl). unfold mask_addr.
  change (T16Ip =? T4Svc) with false. cbv iota. cbn [wf_host]. auto.
Qed.
