(** The structure of [Combinator.combine]'s result and the per-path facts
    (shape, interfaces, expiry, MTU, filters, order) behind Props/C28.v. *)
From Coq Require Import List NArith Bool Arith Lia Sorted.
From Scion Require Import Lib.Check Model.Segment Model.CombSpec Model.Combinator.
From Scion Require Import Proofs.CombinatorGraph Proofs.CombinatorRender Proofs.CombinatorFilter.
Import ListNotations.
Import Segment Combinator.
Local Open Scope N_scope.

(** the path rendered from a sequence of edges *)
Definition path_of (es : list edge) : path :=
  mkPath (map edge_slice es) (sol_ifs es) (fold_left edge_mtu es 65535)
         (path_exp (map edge_slice es)) (sum_w es).

Lemma sol_path_walk src es : sol_path (walk (init_sol src) es) = path_of es.
Proof.
  unfold sol_path, path_of. rewrite walk_edges, walk_cost. cbn [init_sol ps_edges ps_cost app].
  reflexivity.
Qed.

Definition nonempty_segs (segs : list inseg) : Prop :=
  forall s, In s segs -> sg_entries (is_seg s) <> [].

Lemma nonempty_segs_iff segs : existsb seg_empty segs = false <-> nonempty_segs segs.
Proof.
  unfold nonempty_segs. split.
  - intros H s Hs E. assert (T : existsb seg_empty segs = true).
    { apply existsb_exists. exists s. split; [exact Hs|]. unfold seg_empty. now rewrite E. }
    congruence.
  - intros H. destruct (existsb seg_empty segs) eqn:E; [|reflexivity].
    apply existsb_exists in E as [s [Hs E]]. unfold seg_empty in E. specialize (H s Hs).
    destruct (sg_entries (is_seg s)); [contradiction | discriminate].
Qed.

(** an edge of the graph comes from an input segment *)
Definition from_segs (segs : list inseg) (e : edge) : Prop := exists s, In s segs /\ tuple_of s e.

Lemma build_from_segs segs e : In e (build segs) -> from_segs segs e.
Proof. intros H. apply in_build_tuples in H. now apply in_all_tuples. Qed.

Lemma from_segs_good segs e : nonempty_segs segs -> from_segs segs e -> edge_good e.
Proof. intros Hn [s [Hs Ht]]. eapply tuple_good; [exact Ht | now apply Hn]. Qed.

Lemma chain_from_segs segs dst cur cs es :
  chain (build segs) dst cur cs es -> Forall (from_segs segs) es.
Proof.
  intros H. apply chain_in in H. eapply Forall_impl; [|exact H]. intros e. apply build_from_segs.
Qed.

Lemma chain_good segs dst cur cs es :
  nonempty_segs segs -> chain (build segs) dst cur cs es -> Forall edge_good es.
Proof.
  intros Hn H. apply chain_from_segs in H. eapply Forall_impl; [|exact H].
  intros e. now apply from_segs_good.
Qed.

(** ---- all_paths ---- *)
Definition is_chain (segs : list inseg) (src dst : N) (es : list edge) : Prop :=
  chain (build segs) (v_ia dst) (v_ia src) None es.

Lemma all_paths_not_out_of_fuel src dst segs : all_paths src dst segs <> OutOfFuel.
Proof.
  unfold all_paths. destruct (existsb seg_empty segs); [discriminate|].
  destruct (get_paths_total (build segs) (v_ia src) (v_ia dst)) as [L ->].
  destruct (render_all L); discriminate.
Qed.

Lemma all_paths_done src dst segs ps :
  all_paths src dst segs = Done ps ->
  nonempty_segs segs /\
  exists sols, get_paths (build segs) (v_ia src) (v_ia dst) = Done sols /\ ps = map sol_path sols /\
               forall s, In s sols -> Nat.odd (length (sol_ifs (ps_edges s))) = false.
Proof.
  unfold all_paths. destruct (existsb seg_empty segs) eqn:E; [discriminate|].
  apply nonempty_segs_iff in E.
  destruct (get_paths (build segs) (v_ia src) (v_ia dst)) as [sols| |] eqn:G; try discriminate.
  destruct (render_all sols) as [ps'|] eqn:R; [|discriminate]. intros H. inversion H; subst ps'.
  split; [exact E|]. exists sols. split; [reflexivity|].
  apply render_all_some in R; [exact R|].
  intros s Hs. apply (get_paths_spec _ _ _ _ G) in Hs as [es [Hc ->]].
  rewrite walk_edges. cbn. eapply chain_good; eauto.
Qed.

Lemma all_paths_in src dst segs ps :
  all_paths src dst segs = Done ps ->
  forall p, In p ps <-> exists es, is_chain segs src dst es /\ p = path_of es.
Proof.
  intros H p. apply all_paths_done in H as [Hn [sols [G [-> _]]]]. rewrite in_map_iff. split.
  - intros [s [<- Hs]]. apply (get_paths_spec _ _ _ _ G) in Hs as [es [Hc ->]].
    exists es. split; [exact Hc | apply sol_path_walk].
  - intros [es [Hc ->]]. exists (walk (init_sol (v_ia src)) es). split; [apply sol_path_walk|].
    apply (get_paths_spec _ _ _ _ G). eauto.
Qed.

Definition weight_le (a b : path) : Prop := p_weight a <= p_weight b.

Lemma all_paths_sorted src dst segs ps :
  all_paths src dst segs = Done ps -> StronglySorted weight_le ps.
Proof.
  intros H. apply all_paths_done in H as [_ [sols [G [-> _]]]].
  apply get_paths_sorted in G. eapply map_sorted; [|exact G]. intros a b Hab. exact Hab.
Qed.

(** when does the model panic: an empty segment, or a solution with an odd number of interfaces *)
Lemma all_paths_panic src dst segs :
  all_paths src dst segs = Panic ->
  ~ nonempty_segs segs \/ exists es, is_chain segs src dst es /\ Nat.odd (length (sol_ifs es)) = true.
Proof.
  unfold all_paths. destruct (existsb seg_empty segs) eqn:E.
  - intros _. left. intros Hn. apply nonempty_segs_iff in Hn. congruence.
  - apply nonempty_segs_iff in E.
    destruct (get_paths_total (build segs) (v_ia src) (v_ia dst)) as [sols G]. rewrite G.
    destruct (render_all sols) eqn:R; [discriminate|]. intros _. right.
    destruct (List.existsb (fun s => Nat.odd (length (sol_ifs (ps_edges s)))) sols) eqn:X.
    + apply existsb_exists in X as [s [Hs Ho]].
      apply (get_paths_spec _ _ _ _ G) in Hs as [es [Hc ->]]. rewrite walk_edges in Ho. cbn in Ho. eauto.
    + exfalso. rewrite render_all_good in R; [discriminate| |].
      * intros s Hs. apply (get_paths_spec _ _ _ _ G) in Hs as [es [Hc ->]].
        rewrite walk_edges. cbn. eapply chain_good; eauto.
      * intros s Hs. destruct (Nat.odd (length (sol_ifs (ps_edges s)))) eqn:O; [|reflexivity].
        assert (T : existsb (fun s => Nat.odd (length (sol_ifs (ps_edges s)))) sols = true)
          by (apply existsb_exists; eauto). congruence.
Qed.

Lemma all_paths_no_panic src dst segs :
  nonempty_segs segs ->
  (forall es, is_chain segs src dst es -> Nat.odd (length (sol_ifs es)) = false) ->
  exists ps, all_paths src dst segs = Done ps.
Proof.
  intros Hn Hev. destruct (all_paths src dst segs) as [ps| |] eqn:E; [eauto | |].
  - now apply all_paths_not_out_of_fuel in E.
  - apply all_paths_panic in E as [E|[es [Hc Ho]]]; [contradiction|].
    rewrite (Hev es Hc) in Ho. discriminate.
Qed.

(** ---- combine ---- *)
Lemma combine_not_out_of_fuel src dst ups cores downs fa :
  combine src dst ups cores downs fa <> OutOfFuel.
Proof.
  unfold combine. pose proof (all_paths_not_out_of_fuel src dst (insegs ups cores downs)).
  destruct (all_paths src dst (insegs ups cores downs)); congruence.
Qed.

Lemma combine_done src dst ups cores downs fa ps :
  combine src dst ups cores downs fa = Done ps ->
  exists all, all_paths src dst (insegs ups cores downs) = Done all /\
              ps = if fa then filter not_long all else filter_dups (filter not_long all).
Proof.
  unfold combine. destruct (all_paths src dst (insegs ups cores downs)) as [all| |]; try discriminate.
  intros H. inversion H. eauto.
Qed.

Lemma combine_sub src dst ups cores downs fa ps all :
  all_paths src dst (insegs ups cores downs) = Done all ->
  combine src dst ups cores downs fa = Done ps ->
  forall p, In p ps -> In p all /\ is_long (p_ifs p) = false.
Proof.
  intros Ha Hc p Hp. apply combine_done in Hc as [all' [Ha' ->]]. rewrite Ha in Ha'. inversion Ha'; subst all'.
  assert (In p (filter not_long all)).
  { destruct fa; [exact Hp | now apply filter_dups_in]. }
  apply filter_In in H as [H1 H2]. split; [exact H1|]. unfold not_long in H2. now apply negb_true_iff.
Qed.

Lemma combine_in src dst ups cores downs fa ps p :
  combine src dst ups cores downs fa = Done ps -> In p ps ->
  exists es, is_chain (insegs ups cores downs) src dst es /\ p = path_of es /\
             no_as_thrice (p_ifs p).
Proof.
  intros Hc Hp. destruct (combine_done _ _ _ _ _ _ _ Hc) as [all [Ha _]].
  destruct (combine_sub _ _ _ _ _ _ _ _ Ha Hc p Hp) as [Hin Hl].
  apply (all_paths_in _ _ _ _ Ha) in Hin as [es [Hch ->]].
  exists es. split; [exact Hch|]. split; [reflexivity|]. now apply is_long_false.
Qed.

Lemma combine_represents src dst ups cores downs fa ps es :
  combine src dst ups cores downs fa = Done ps ->
  is_chain (insegs ups cores downs) src dst es -> no_as_thrice (sol_ifs es) ->
  exists p, In p ps /\ p_ifs p = sol_ifs es.
Proof.
  intros Hc Hch Hn. destruct (combine_done _ _ _ _ _ _ _ Hc) as [all [Ha ->]].
  assert (Hin : In (path_of es) (filter not_long all)).
  { apply filter_In. split; [apply (all_paths_in _ _ _ _ Ha); eauto|].
    unfold not_long. apply negb_true_iff. now apply is_long_false. }
  destruct fa.
  - exists (path_of es). split; [exact Hin | reflexivity].
  - apply filter_dups_represents in Hin as [p [Hp E]]. exists p. split; [exact Hp | exact E].
Qed.

Lemma combine_sorted src dst ups cores downs fa ps :
  combine src dst ups cores downs fa = Done ps -> StronglySorted weight_le ps.
Proof.
  intros Hc. destruct (combine_done _ _ _ _ _ _ _ Hc) as [all [Ha ->]].
  apply all_paths_sorted in Ha. destruct fa.
  - now apply filter_sorted.
  - apply filter_dups_sorted. now apply filter_sorted.
Qed.

Lemma combine_dedup src dst ups cores downs ps :
  combine src dst ups cores downs false = Done ps ->
  NoDup (map p_ifs ps) /\
  forall all, all_paths src dst (insegs ups cores downs) = Done all ->
    forall p q, In p ps -> In q all -> no_as_thrice (p_ifs q) -> p_ifs q = p_ifs p -> p_exp q <= p_exp p.
Proof.
  intros Hc. destruct (combine_done _ _ _ _ _ _ _ Hc) as [all [Ha ->]]. split.
  - apply filter_dups_nodup.
  - intros all' Ha' p q Hp Hq Hn E. rewrite Ha in Ha'. inversion Ha'; subst all'.
    eapply filter_dups_max; [exact Hp | | exact E].
    apply filter_In. split; [exact Hq|]. unfold not_long. apply negb_true_iff. now apply is_long_false.
Qed.

(** ---- segment types along a chain ---- *)
Lemma types_ok_cases es : types_ok None es -> es <> [] ->
  map ety es = [Up] \/ map ety es = [CoreT] \/ map ety es = [Down] \/
  map ety es = [Up; CoreT] \/ map ety es = [Up; Down] \/ map ety es = [CoreT; Down] \/
  map ety es = [Up; CoreT; Down].
Proof.
  intros H Hne. destruct es as [|e1 [|e2 [|e3 [|e4 t]]]]; [contradiction| | | |].
  - cbn. destruct (ety e1); auto.
  - cbn in *. destruct H as [_ [H2 _]]. destruct (ety e1), (ety e2); cbn in H2; try discriminate; auto 7.
  - cbn in *. destruct H as [_ [H2 [H3 _]]].
    destruct (ety e1), (ety e2), (ety e3); cbn in H2, H3; try discriminate; auto 7.
  - exfalso. apply types_ok_length in H. cbn in H. lia.
Qed.

(** ---- the hop fields of a rendered segment come from its input segment ---- *)
Lemma edge_cut_in e : edge_good e -> In (edge_cut e) (entries e).
Proof.
  intros [c [Hc _]]. unfold edge_cut. erewrite nth_error_nth by exact Hc. eapply nth_error_In; exact Hc.
Qed.

Lemma edge_rest_in e a : In a (edge_rest e) -> In a (entries e).
Proof.
  unfold edge_rest. intros H. rewrite <- (firstn_skipn (S (e_sc e)) (entries e)).
  apply in_or_app. now right.
Qed.

Definition hop_of_entry (x : N * hopf) (a : as_entry) : Prop :=
  fst x = ae_ia a /\ (snd x = ae_hop a \/ exists p, In p (ae_peers a) /\ snd x = pe_hop p).

Lemma cut_hop_of_entry e : edge_good e -> hop_of_entry (ae_ia (edge_cut e), cut_hop e (edge_cut e)) (edge_cut e).
Proof.
  intros [c [Hc Hp]]. assert (Ec : edge_cut e = c) by (unfold edge_cut; now apply nth_error_nth).
  rewrite Ec. split; [reflexivity|]. unfold cut_hop. cbn [snd].
  destruct (e_peer e) as [|k] eqn:EP; [now left|].
  unfold peer_ok in Hp. rewrite EP in Hp. destruct Hp as [Hp|[p Hp]]; [discriminate|].
  replace (S k - 1)%nat with k in Hp by lia.
  rewrite Hp. right. exists p. split; [eapply nth_error_In; exact Hp | reflexivity].
Qed.

Lemma trav_hops_from_segment e x :
  edge_good e -> In x (trav_hops e) -> exists a, In a (entries e) /\ hop_of_entry x a.
Proof.
  intros Hg H. unfold trav_hops in H. apply in_app_or in H as [H|[<-|[]]].
  - apply in_map_iff in H as [a [<- Ha]]. apply in_rev in Ha. exists a. split; [now apply edge_rest_in|].
    split; [reflexivity | now left].
  - exists (edge_cut e). split; [now apply edge_cut_in | now apply cut_hop_of_entry].
Qed.

Lemma edge_hops_from_segment e x :
  edge_good e -> In x (edge_hops e) -> exists a, In a (entries e) /\ hop_of_entry x a.
Proof.
  intros Hg H. apply trav_hops_from_segment; [exact Hg|]. unfold edge_hops in H.
  destruct (is_down e); [now apply in_rev | exact H].
Qed.

Lemma edge_hops_length e : edge_good e -> length (edge_hops e) = (length (entries e) - e_sc e)%nat.
Proof.
  intros [c [Hc _]]. unfold edge_hops.
  assert (L : length (trav_hops e) = (length (entries e) - e_sc e)%nat).
  { unfold trav_hops, edge_rest. rewrite app_length, map_length, rev_length, skipn_length. cbn.
    assert (e_sc e < length (entries e))%nat by (apply nth_error_Some; congruence). lia. }
  destruct (is_down e); [now rewrite rev_length | exact L].
Qed.

Lemma edge_hops_nonempty e : edge_good e -> (1 <= length (edge_hops e))%nat.
Proof.
  intros Hg. rewrite edge_hops_length by exact Hg. destruct Hg as [c [Hc _]].
  assert (e_sc e < length (entries e))%nat by (apply nth_error_Some; congruence). lia.
Qed.

(** the ASes of the hops, against construction direction, are those of the entries from the cut on *)
Lemma trav_hops_ases e : edge_good e ->
  map fst (trav_hops e) = rev (map ae_ia (skipn (e_sc e) (entries e))).
Proof.
  intros [c [Hc _]]. assert (Ec : edge_cut e = c) by (unfold edge_cut; now apply nth_error_nth).
  unfold trav_hops, edge_rest. rewrite (skipn_cut _ _ _ Hc), Ec. cbn [map rev].
  rewrite map_app, map_map, map_rev. reflexivity.
Qed.

(** ---- expiry ---- *)
Lemma exp_ms_le h : h < 256 -> exp_ms h <= max_ttl_ms.
Proof. unfold exp_ms, exp_unit_ms, max_ttl_ms. lia. Qed.

Definition hop_exp (ts : N) (x : N * hopf) : N := ts * 1000 + exp_ms (h_exp (snd x)).

Lemma slice_exp_spec sl :
  sl_hops sl <> [] -> (forall x, In x (sl_hops sl) -> h_exp (snd x) < 256) ->
  (forall x, In x (sl_hops sl) -> slice_exp sl <= hop_exp (i_ts (sl_info sl)) x) /\
  (exists x, In x (sl_hops sl) /\ slice_exp sl = hop_exp (i_ts (sl_info sl)) x).
Proof.
  intros Hne Hw. unfold slice_exp, hop_exp. split.
  - intros x Hx. pose proof (fold_min_le_in (fun h : N * hopf => exp_ms (h_exp (snd h))) (sl_hops sl) max_ttl_ms x Hx). cbn in H. lia.
  - destruct (fold_min_attained (fun h : N * hopf => exp_ms (h_exp (snd h))) (sl_hops sl) max_ttl_ms) as [E|[x [Hx E]]].
    + destruct (sl_hops sl) as [|x t] eqn:Eh; [contradiction|]. exists x. split; [now left|].
      f_equal. pose proof (fold_min_le_in (fun h : N * hopf => exp_ms (h_exp (snd h))) (x :: t) max_ttl_ms x (or_introl eq_refl)) as L.
      cbn beta in L. rewrite E in L |- *. pose proof (exp_ms_le _ (Hw x (or_introl eq_refl))). lia.
    + exists x. split; [exact Hx|]. now rewrite E.
Qed.

Lemma slice_exp_le_max sl : i_ts (sl_info sl) < 4294967296 -> slice_exp sl <= max_exp_ms.
Proof.
  intros H. unfold slice_exp, max_exp_ms.
  pose proof (fold_min_le (fun h : N * hopf => exp_ms (h_exp (snd h))) (sl_hops sl) max_ttl_ms). cbn in H0. lia.
Qed.

Lemma path_exp_spec sls :
  sls <> [] -> (forall sl, In sl sls -> i_ts (sl_info sl) < 4294967296) ->
  (forall sl, In sl sls -> path_exp sls <= slice_exp sl) /\
  (exists sl, In sl sls /\ path_exp sls = slice_exp sl).
Proof.
  intros Hne Hts. unfold path_exp. split.
  - intros sl Hsl. apply (fold_min_le_in slice_exp sls max_exp_ms sl Hsl).
  - destruct (fold_min_attained slice_exp sls max_exp_ms) as [E|[sl [Hsl E]]].
    + destruct sls as [|sl t]; [contradiction|]. exists sl. split; [now left|].
      pose proof (fold_min_le_in slice_exp (sl :: t) max_exp_ms sl (or_introl eq_refl)) as L.
      pose proof (slice_exp_le_max sl (Hts sl (or_introl eq_refl))). rewrite E in L |- *. lia.
    + eauto.
Qed.

(** ---- MTU ---- *)
Definition reg_mtu_terms (a : as_entry) : list N :=
  (if ae_inmtu a =? 0 then [] else [u16 (ae_inmtu a)]) ++ [u16 (ae_mtu a)].

Definition cut_mtu_terms (e : edge) (c : as_entry) : list N :=
  (match e_peer e with
   | O => if (ae_inmtu c =? 0) || negb (Nat.eqb (e_sc e) 0) then [] else [u16 (ae_inmtu c)]
   | S k => match nth_error (ae_peers c) k with Some p => [u16 (pe_mtu p)] | None => [] end
   end) ++ [u16 (ae_mtu c)].

(** the MTU values along the used part of an edge's segment: the internal MTU of
    every AS entry used; the ingress-link MTU (when announced, i.e. non-zero) of
    every entry used except the one at an inner cut; the peering-link MTU when
    the cut is a peering hop (instead of the ingress-link MTU of that entry) *)
Definition edge_mtu_terms (e : edge) : list N :=
  flat_map reg_mtu_terms (rev (edge_rest e)) ++ cut_mtu_terms e (edge_cut e).

Lemma fold_reg_terms l : forall m, fold_left mtu_reg l m = fold_left N.min (flat_map reg_mtu_terms l) m.
Proof.
  induction l as [|a l IH]; intros m; cbn [fold_left flat_map]; [reflexivity|].
  rewrite fold_left_app, IH. f_equal. unfold mtu_reg, reg_mtu_terms.
  destruct (ae_inmtu a =? 0); reflexivity.
Qed.

Lemma edge_mtu_fold m e : edge_mtu m e = fold_left N.min (edge_mtu_terms e) m.
Proof.
  unfold edge_mtu, edge_mtu_terms. rewrite fold_left_app, <- fold_reg_terms.
  unfold mtu_cut, cut_mtu_terms. destruct (e_peer e) as [|k].
  - destruct ((ae_inmtu (edge_cut e) =? 0) || negb (Nat.eqb (e_sc e) 0)); reflexivity.
  - destruct (nth_error (ae_peers (edge_cut e)) k); reflexivity.
Qed.

Lemma sol_mtu_fold es : forall m,
  fold_left edge_mtu es m = fold_left N.min (flat_map edge_mtu_terms es) m.
Proof.
  induction es as [|e es IH]; intros m; cbn [fold_left flat_map]; [reflexivity|].
  now rewrite fold_left_app, IH, edge_mtu_fold.
Qed.

Lemma min_fold_spec l m :
  fold_left N.min l m <= m /\ (forall x, In x l -> fold_left N.min l m <= x) /\
  (fold_left N.min l m = m \/ In (fold_left N.min l m) l).
Proof.
  change (fold_left N.min l m) with (fold_left (fun m x => N.min m (id x)) l m). split; [|split].
  - apply fold_min_le.
  - intros x Hx. apply (fold_min_le_in id l m x Hx).
  - destruct (fold_min_attained id l m) as [E|[x [Hx E]]]; [now left|]. right. rewrite E. exact Hx.
Qed.

