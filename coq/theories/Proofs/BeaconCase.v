(** [BeaconCase.beaconed_b] reflects [CombProv.beaconed]: sound for every total MAC function that
    extends the option-valued one the boolean was evaluated with (a table of real MACs), and
    complete for a total MAC. *)
From Coq Require Import List NArith ZArith Bool Arith Lia.
From Scion Require Import Lib.Check Model.Router Model.Network Model.Prov.
From Scion Require Import Model.Segment Model.SegID Model.Combinator Model.CombProv Model.Beaconing Model.BeaconCase.
Import ListNotations.
Import BeaconCase.
Local Open Scope N_scope.

Lemma lt_eqb_iff a b : R.lt_eqb a b = true <-> a = b.
Proof. split; [destruct a, b; cbn; intros H; try reflexivity; discriminate|intros ->; destruct b; reflexivity]. Qed.

Section Sound.
Variable macq : N -> N -> N -> N -> N -> N -> option (list N).
Variable mac : N -> N -> N -> N -> N -> N -> list N.
Variable t : Nw.topology.
Hypothesis Hsub : forall k b ts e i g m, macq k b ts e i g = Some m -> mac k b ts e i g = m.

Lemma hop_maced_sound ia_ b ts h : hop_maced_b macq t ia_ b ts h = true -> CP.hop_maced mac t ia_ b ts h.
Proof.
  unfold hop_maced_b, CP.hop_maced. destruct (Nw.find_as t ia_) as [a|]; [|discriminate].
  destruct (macq _ _ _ _ _ _) as [m|] eqn:M; [|discriminate]. intros E. apply bytes_eqb_eq in E.
  exists a. split; [reflexivity|]. rewrite (Hsub _ _ _ _ _ _ _ M). exact E.
Qed.

Lemma link_to_sound ia_ ifid lt nbr rem : link_to_b t ia_ ifid lt nbr rem = true -> CP.link_to t ia_ ifid lt nbr rem.
Proof.
  unfold link_to_b, CP.link_to. destruct (Nw.find_as t ia_) as [a|]; [|discriminate].
  destruct (Nw.find_nif (Nw.a_ifs a) ifid) as [f|] eqn:Ff; [|discriminate]. intros H.
  apply andb_true_iff in H as [H H3]. apply andb_true_iff in H as [H1 H2].
  exists a, f. apply lt_eqb_iff in H1. apply N.eqb_eq in H2. apply N.eqb_eq in H3. repeat split; auto.
Qed.

Lemma entry_ok_sound core s i e : entry_ok_b macq t core s i e = true -> CP.entry_ok mac t core s i e.
Proof.
  unfold entry_ok_b, CP.entry_ok. intros H. apply andb_true_iff in H as [H H3]. apply andb_true_iff in H as [H1 H2].
  split; [now apply hop_maced_sound|]. split.
  - apply Forall_forall. intros pe Hpe. rewrite forallb_forall in H2. specialize (H2 pe Hpe).
    unfold peer_ok_b in H2. apply andb_true_iff in H2 as [H2 P3]. apply andb_true_iff in H2 as [P1 P2].
    split; [now apply hop_maced_sound|]. split; [now apply N.eqb_eq|now apply link_to_sound].
  - destruct (nth_error (Sg.sg_entries s) (S i)) as [e'|]; [now apply link_to_sound|exact I].
Qed.

Theorem beaconed_b_sound core s : beaconed_b macq t core s = true -> CP.beaconed mac t core s.
Proof.
  unfold beaconed_b, CP.beaconed. intros H. apply andb_true_iff in H as [H H4]. apply andb_true_iff in H as [H H3].
  apply andb_true_iff in H as [H1 H2]. split; [exact H1|]. split; [exact H2|]. split.
  - intros ->. cbn [negb orb] in H3. now apply Nat.leb_le.
  - intros i e Hn. rewrite forallb_forall in H4.
    assert (Hi : In i (seq 0 (length (Sg.sg_entries s)))).
    { apply in_seq. split; [lia|]. cbn. apply nth_error_Some. congruence. }
    specialize (H4 i Hi). rewrite Hn in H4. now apply entry_ok_sound.
Qed.
End Sound.

Section Complete.
Variable mac : N -> N -> N -> N -> N -> N -> list N.
Variable t : Nw.topology.
Notation macq := (fun k b ts e i g => Some (mac k b ts e i g)).

Lemma hop_maced_complete ia_ b ts h : CP.hop_maced mac t ia_ b ts h -> hop_maced_b macq t ia_ b ts h = true.
Proof.
  unfold hop_maced_b, CP.hop_maced. intros (a & Fa & E). rewrite Fa, E. now apply bytes_eqb_eq.
Qed.

Lemma link_to_complete ia_ ifid lt nbr rem : CP.link_to t ia_ ifid lt nbr rem -> link_to_b t ia_ ifid lt nbr rem = true.
Proof.
  unfold link_to_b, CP.link_to. intros (a & f & Fa & Ff & L & Nb & Rm). rewrite Fa, Ff.
  apply lt_eqb_iff in L. rewrite L, Nb, Rm, !N.eqb_refl. reflexivity.
Qed.

Lemma entry_ok_complete core s i e : CP.entry_ok mac t core s i e -> entry_ok_b macq t core s i e = true.
Proof.
  unfold entry_ok_b, CP.entry_ok. intros (H1 & H2 & H3).
  rewrite (hop_maced_complete _ _ _ _ H1). cbn [andb].
  replace (forallb (peer_ok_b macq t s i e) (Sg.ae_peers e)) with true.
  - cbn [andb]. destruct (nth_error (Sg.sg_entries s) (S i)); [now apply link_to_complete|reflexivity].
  - symmetry. apply forallb_forall. intros pe Hpe. rewrite Forall_forall in H2.
    destruct (H2 pe Hpe) as (P1 & P2 & P3). unfold peer_ok_b.
    rewrite (hop_maced_complete _ _ _ _ P1), P2, N.eqb_refl, (link_to_complete _ _ _ _ _ P3). reflexivity.
Qed.

Theorem beaconed_b_complete core s : CP.beaconed mac t core s -> beaconed_b macq t core s = true.
Proof.
  unfold beaconed_b, CP.beaconed. intros (H1 & H2 & H3 & H4). rewrite H1, H2. cbn [andb].
  replace (negb core || Nat.leb 2 (length (Sg.sg_entries s))) with true.
  - cbn [andb]. apply forallb_forall. intros i _.
    destruct (nth_error (Sg.sg_entries s) i) as [e|] eqn:Hn; [|reflexivity].
    apply entry_ok_complete. now apply H4.
  - destruct core; [|reflexivity]. cbn [negb orb]. symmetry. apply Nat.leb_le. now apply H3.
Qed.
End Complete.
