(** C10, part 4: the answer travels back.  The slow path's packet is the rendering
    of the reversed provenance path (part 1) with the router as source; it leaves
    over the link the offending packet came in on, so the next router is the one
    that sent the offending packet; from there part 3 (the walk of C02 for a
    packet whose source is not the path's first AS) takes it to the source host. *)
From Coq Require Import List NArith Bool Arith Lia ZifyBool ZifyN ZifyNat.
From Scion Require Import Lib.Check Lib.Bytes Model.Router Model.Network Model.Prov Model.RouterScmp
  Model.ScmpReturn.
From Scion Require Import Proofs.ProvStruct Proofs.ProvRender Proofs.ForwardView Proofs.ProvFacts
  Proofs.ReverseStruct Proofs.Reverse Proofs.Reply Proofs.ForwardStep Proofs.Forward
  Proofs.RouterInv Proofs.RouterScmp
  Proofs.ScmpReturnPath Proofs.ScmpReturnCong Proofs.ScmpReturnWalk.
Import ListNotations.
Import Scion.Model.Router.Router Network Prov.

(** * The slow path in terms of [reply_path] *)
Lemma prepare_path macq c ing x ty code body ie na ats r :
  RouterScmp.prepare macq c ing x ty code body ie na ats = RouterScmp.SReply r ->
  exists rp, ScmpReturn.reply_path (ScmpReturn.is_ext ing) (RouterScmp.sp_pkt x) = Some rp /\
             RouterScmp.build macq c x rp ty code body ie na ats = RouterScmp.SReply r.
Proof.
  unfold RouterScmp.prepare, ScmpReturn.reply_path.
  destruct (RouterScmp.reverse (RouterScmp.sp_pkt x)) as [r0|]; [|discriminate].
  destruct (nthN (p_infos r0) (p_curr_inf r0)) as [i0|]; [|discriminate].
  destruct (RouterScmp.det_peer r0 i0) as [pe|]; [|discriminate].
  destruct (RouterScmp.revert_xover r0 pe) as [r1|]; [|discriminate].
  change (RouterScmp.external ing) with (ScmpReturn.is_ext ing).
  destruct (RouterScmp.ext_inc (ScmpReturn.is_ext ing) r1 pe) as [| |r2]; try discriminate.
  intros H. exists r2. split; [reflexivity|exact H].
Qed.

(** a traceroute request that is answered *)
Lemma traceroute_inv macq c ing x ll ifid va ats r :
  RouterScmp.traceroute macq c ing x ll ifid va ats = RouterScmp.SReply r ->
  exists t0 cd c1 c2 rest,
    snd ll = t0 :: cd :: c1 :: c2 :: rest /\
    RouterScmp.prepare macq c ing x RouterScmp.ScmpTracerouteReply 0
      (firstn 4 rest ++ be 8 (c_ia c) ++ be 8 ifid) false (c_scmp_auth c && va) ats = RouterScmp.SReply r.
Proof.
  unfold RouterScmp.traceroute. destruct (negb (fst ll =? RouterScmp.L4SCMP)%N); [discriminate|].
  destruct (snd ll) as [|t0 [|cd [|c1 [|c2 rest]]]]; try discriminate.
  destruct (negb _); [discriminate|]. destruct (_ <? 20)%N; [discriminate|].
  intros H. exists t0, cd, c1, c2, rest. split; [reflexivity|exact H].
Qed.

(** every answer of the slow path is [build] on the reply path *)
Lemma slow_path_path macq c ing req eg x va ats r :
  RouterScmp.slow_path macq c ing req eg x va ats = RouterScmp.SReply r ->
  exists rp ty code body ie na,
    ScmpReturn.reply_path (ScmpReturn.is_ext ing) (RouterScmp.sp_pkt x) = Some rp /\
    RouterScmp.build macq c x rp ty code body ie na ats = RouterScmp.SReply r /\
    (RouterScmp.lenN body + 4 <= 28)%N.
Proof.
  destruct req as [ty code ptr| |].
  - intros H. apply slow_path_scmp_inv in H as (ll & body & _ & EB & _ & H).
    apply prepare_path in H as (rp & P & B).
    exists rp, ty, code, body, true, (c_scmp_auth c). split; [exact P|]. split; [exact B|].
    pose proof (scmp_body_size _ _ _ _ _ _ EB) as S. pose proof (scmp_header_size_bound ty). lia.
  - unfold RouterScmp.slow_path. destruct (_ || _); [discriminate|]. destruct (negb _); [discriminate|].
    destruct (RouterScmp.last_layer _ _) as [ll|]; [|discriminate].
    intros H. apply traceroute_inv in H as (t0 & cd & c1 & c2 & rest & _ & H).
    apply prepare_path in H as (rp & P & B).
    eexists rp, _, _, _, _, _. split; [exact P|]. split; [exact B|].
    rewrite !lenN_app, !lenN_be. unfold RouterScmp.lenN. pose proof (firstn_le_length 4 rest). lia.
  - unfold RouterScmp.slow_path. destruct (_ || _); [discriminate|]. destruct (negb _); [discriminate|].
    destruct (RouterScmp.last_layer _ _) as [ll|]; [|discriminate].
    intros H. apply traceroute_inv in H as (t0 & cd & c1 & c2 & rest & _ & H).
    apply prepare_path in H as (rp & P & B).
    eexists rp, _, _, _, _, _. split; [exact P|]. split; [exact B|].
    rewrite !lenN_app, !lenN_be. unfold RouterScmp.lenN. pose proof (firstn_le_length 4 rest). lia.
Qed.

(** the router's own address as packed into the reply is one every router accepts as a source *)
Lemma pack_local_good h lt lraw : RouterScmp.pack_local h = Some (lt, lraw) ->
  parse_host lt lraw = HIP lraw /\ is_4in6 lraw = false.
Proof.
  unfold RouterScmp.pack_local.
  destruct (RouterScmp.lenN h =? 4)%N eqn:E4.
  - intros H. apply some_pair_inj in H as [<- <-]. split; [reflexivity|].
    unfold is_4in6. apply N.eqb_eq in E4. unfold RouterScmp.lenN in E4. rewrite E4. reflexivity.
  - destruct (RouterScmp.lenN h =? 16)%N eqn:E16; [|discriminate].
    destruct (is_4in6 h) eqn:M.
    + intros H. apply some_pair_inj in H as [<- <-]. split; [reflexivity|].
      unfold is_4in6. apply N.eqb_eq in E16. unfold RouterScmp.lenN in E16.
      rewrite skipn_length. replace (N.of_nat (length h - 12)) with 4%N by lia. reflexivity.
    + intros H. apply some_pair_inj in H as [<- <-]. split; [reflexivity|exact M].
Qed.

(** * The reply as the routers see it *)
Section Packet.
Variable p : prov.
Variable pp : pparams.

(** header of the reply = rendering of the reversed path with the router as source *)
Lemma walk_pkt_render c x kc k' mid' lt lraw pay port p' :
  RouterScmp.sp_pkt x = render p pp kc true -> (pay < 65536)%N ->
  ScmpReturn.set_port (reply_hdr c x (render p' pp k' mid') lt lraw pay) port =
  set_src (c_ia c) (render p' (rev_params pp lt lraw pay port) k' mid').
Proof.
  intros E Hp. unfold ScmpReturn.set_port, reply_hdr, set_src. rewrite E.
  unfold render. cbn [p_dst_ia p_src_ia p_dst_type p_src_type p_dst_raw p_src_raw p_pay_len p_pay_actual p_l4_port
    p_curr_inf p_curr_hf p_seg0 p_seg1 p_seg2 p_meta_rsv p_infos p_hops rev_params
    pp_dst_ia pp_src_ia pp_dst_type pp_src_type pp_dst_raw pp_src_raw pp_pay pp_port].
  rewrite N.mod_small by exact Hp. reflexivity.
Qed.

End Packet.

Lemma seq_shift_map a m : seq a m = map (fun i => (a + i)%nat) (seq 0 m).
Proof.
  revert a. induction m as [|m IH]; intros a; [reflexivity|].
  cbn [seq map]. rewrite Nat.add_0_r. f_equal. rewrite (IH (S a)), <- seq_shift, map_map.
  apply map_ext. intros i. lia.
Qed.

(** * The walk back *)
Section Return.
Variable mac : N -> N -> N -> N -> N -> N -> list N.
Variable t : topology.
Variable p : prov.
Variable pp : pparams.
Hypothesis HG : good mac t p.
Hypothesis Hep : endpoints_ok t p pp = true.
Variable now' : N.
Hypothesis Hexp' : all_unexpired now' p = true.

Notation n := (nhops p).
Notation js := (seg_idx (lens p)).
Notation nsegs := (length (pv_segs p)).
Notation p' := (rev_prov p).
Notation macq := (macq_of mac).
Notation Hs := (Hshape mac t p HG).
Notation HT := (Htot p Hs).
Notation HP := (Hpos p Hs).
Notation HG' := (good_rev mac t p HG).
Notation ret_hop := (ScmpReturn.ret_hop p).
Notation asof := (as_of t p).

Lemma ifs_seg_from k m : ScmpReturn.ifs_seg p k m = Forward.ifs_from p k m.
Proof. reflexivity. Qed.

(** the interfaces up to hop [k0], reversed, are the interfaces of the reversed path from the
    mirrored hop on *)
Lemma ifs_rev k0 : (k0 < n)%nat ->
  Forward.ifs_from p' (n - 1 - k0) k0 = rev (ScmpReturn.ifs_seg p 0 k0).
Proof.
  intros Hk. unfold Forward.ifs_from, ScmpReturn.ifs_seg.
  rewrite (seq_shift_map (n - 1 - k0) k0). rewrite flat_map_concat_map, map_map, <- flat_map_concat_map.
  apply flat_map_rev. intros i Hi.
  unfold Forward.pairs_of, ScmpReturn.pairs_of.
  rewrite (rev_crosses p Hs) by lia.
  replace (n - 2 - (n - 1 - k0 + i))%nat with (k0 - 1 - i)%nat by lia.
  destruct (crosses p (k0 - 1 - i)); [|reflexivity].
  rewrite (rev_ia p Hs), (rev_ia p Hs (S (n - 1 - k0 + i))), (rev_tr_eg p Hs), (rev_tr_in p Hs (S (n - 1 - k0 + i))) by lia.
  replace (n - 1 - (n - 1 - k0 + i))%nat with (S (k0 - 1 - i)) by lia.
  replace (n - 1 - S (n - 1 - k0 + i))%nat with (k0 - 1 - i)%nat by lia. reflexivity.
Qed.

(** the AS through which the packet entered is the AS of the current hop *)
Lemma ret_hop_ia kc : (kc < n)%nat -> ia p (ret_hop kc) = ia p kc.
Proof.
  intros Hk. unfold ScmpReturn.ret_hop.
  destruct (is_first p kc && negb (peerhop p kc)) eqn:X; [|reflexivity].
  apply andb_true_iff in X as [F Ph]. apply negb_true_iff in Ph.
  destruct kc as [|k]; [reflexivity|]. replace (S k - 1)%nat with k by lia.
  assert (C : crosses p k = false).
  { destruct (crosses p k) eqn:C; [|reflexivity].
    destruct (arrive_first _ _ _ HG k Hk C F) as (_ & _ & _ & _ & _ & Ph' & _). congruence. }
  destruct (pair_fact _ _ _ HG k Hk) as (_ & _ & J). unfold junction_ok in J. rewrite C in J. cbn [orb] in J.
  apply andb_true_iff in J as [J _]. now apply N.eqb_eq in J.
Qed.

Lemma as_of_rev j : (j < n)%nat -> as_of t p' j = asof (n - 1 - j).
Proof. intros Hj. unfold as_of. now rewrite (rev_ia p Hs j Hj). Qed.

(** the far end of the link the offending packet came in on *)
Lemma next_ext k0 rr : (1 <= k0)%nat -> (k0 < n)%nat -> crosses p (k0 - 1) = true ->
  ScmpReturn.next_loc t (mkLoc (ia p k0) rr (InExt (tr_in p k0))) =
  Some (Some (Forward.ext_loc t p' (n - k0))).
Proof.
  intros K1 Hk C. destruct k0 as [|k]; [lia|]. replace (S k - 1)%nat with k in C by lia.
  destruct HG as (Hwt & _ & _).
  destruct (link_fact _ _ _ HG k Hk C) as (Ff & Fg & _ & _ & _ & _ & _ & Nb & Rm).
  destruct (as_of_ok _ _ _ HG k ltac:(lia)) as [Ak Ik].
  destruct (as_of_ok _ _ _ HG (S k) Hk) as [Ak1 Ik1].
  set (f := nif_of t p k (tr_eg p k)) in *. set (g := nif_of t p (S k) (tr_in p (S k))) in *.
  assert (Eb : find_as t (ni_nbr f) = Some (asof (S k))) by (now rewrite Nb).
  assert (Eg : find_nif (a_ifs (asof (S k))) (ni_remote f) = Some g) by (now rewrite Rm).
  destruct (far_end_back t (asof k) (tr_eg p k) f (asof (S k)) g Hwt (as_of_self _ _ _ HG k ltac:(lia)) Ff Eb Eg)
    as [Ng Rg].
  unfold ScmpReturn.next_loc. cbn [l_ing l_ia l_rtr].
  rewrite Ak1, Fg, Ng, (as_of_self _ _ _ HG k ltac:(lia)), Rg, Ff.
  unfold Forward.ext_loc, ForwardStep.in_rtr.
  replace (n - S k)%nat with (n - 1 - k)%nat by lia.
  rewrite (rev_ia p Hs (n - 1 - k)) by lia. rewrite (rev_tr_in p Hs (n - 1 - k)) by lia.
  replace (n - 1 - (n - 1 - k))%nat with k by lia.
  unfold nif_of at 1. rewrite (as_of_rev (n - 1 - k)) by lia.
  replace (n - 1 - (n - 1 - k))%nat with k by lia. fold (nif_of t p k (tr_eg p k)). fold f.
  now rewrite Ik.
Qed.

Lemma next_sib a r r0 :
  ScmpReturn.next_loc t (mkLoc a r (InSib (r0 + 1))) = Some (Some (mkLoc a r0 (InSib (r + 1)))).
Proof.
  unfold ScmpReturn.next_loc. cbn [l_ing l_ia l_rtr].
  replace (r0 + 1 =? 0)%N with false by lia. now replace (r0 + 1 - 1)%N with r0 by lia.
Qed.

(** the nominal parameters of the reply satisfy what C02 asks of end hosts *)
Lemma ret_endpoints h lt lraw pay pt :
  RouterScmp.pack_local h = Some (lt, lraw) -> ScmpReturn.src_ip_ok pp = true ->
  endpoints_ok t p' (rev_params pp lt lraw pay (Some pt)) = true.
Proof.
  intros PL SI. apply (endpoints_rev mac t p pp HG Hep).
  destruct (pack_local_good _ _ _ PL) as [PH M].
  unfold reply_ok, reply_target. rewrite PH, M. unfold ScmpReturn.src_ip_ok in SI.
  destruct (parse_host (pp_src_type pp) (pp_src_raw pp)) as [ip| |]; try discriminate.
  apply negb_true_iff in SI. now rewrite SI.
Qed.

Lemma ret_target lt lraw pay pt d0 :
  reply_target pp (Some pt) = Some d0 ->
  forall a, deliver_target a (rev_params pp lt lraw pay (Some pt)) = Some d0.
Proof.
  intros H a. unfold deliver_target, rev_params. cbn [pp_dst_type pp_dst_raw pp_port].
  unfold reply_target in H.
  destruct (parse_host (pp_src_type pp) (pp_src_raw pp)) as [ip| |]; try discriminate. exact H.
Qed.

Lemma src_ia_first : pp_src_ia pp = ia p 0.
Proof.
  unfold endpoints_ok in Hep. apply andb_true_iff in Hep as [E _]. apply andb_true_iff in E as [E _].
  apply andb_true_iff in E as [Es _]. now apply N.eqb_eq in Es.
Qed.

Lemma fuel_src s' k mid ppf :
  fuel_for (set_src s' (render p' ppf k mid)) = (2 * n + 2)%nat.
Proof.
  unfold fuel_for. change (num_hops (set_src s' (render p' ppf k mid))) with (num_hops (render p' ppf k mid)).
  rewrite (num_hops_render p' ppf (shape_rev mac t p HG)), Nat2N.id. now rewrite (rev_nhops p).
Qed.

(** ** over the external link the offending packet came in on *)
Theorem back_ext kc lia h lt lraw pay pt d0 :
  (kc < n)%nat -> (1 <= ret_hop kc)%nat -> crosses p (ret_hop kc - 1) = true ->
  (forall j, (j < ret_hop kc)%nat -> ia p j <> ia p kc) ->
  lia = ia p kc -> RouterScmp.pack_local h = Some (lt, lraw) -> ScmpReturn.src_ip_ok pp = true ->
  reply_target pp (Some pt) = Some d0 ->
  exists tr rtr,
    forward macq t now' (Forward.ext_loc t p' (n - ret_hop kc))
            (set_src lia (render p' (rev_params pp lt lraw pay (Some pt)) (n - ret_hop kc) false)) =
      (tr, Delivered (pp_src_ia pp) rtr (fst d0) (snd d0)) /\
    crossed tr = ScmpReturn.back_ifs p ScmpReturn.AExt kc.
Proof.
  intros Hk K1 C NR -> PL SI RT.
  set (k0 := ret_hop kc) in *. destruct (ret_hop_le p kc) as [R1 R2]. fold k0 in R1, R2.
  set (ppf := rev_params pp lt lraw pay (Some pt)).
  pose proof (ret_endpoints h lt lraw pay pt PL SI) as Hep'. fold ppf in Hep'.
  pose proof (unexpired_rev mac t p HG now' Hexp') as Hexp''.
  assert (Hn' : nhops p' = n) by apply (rev_nhops p).
  assert (Hsrc : forall j, (n - k0 <= j)%nat -> (j < nhops p')%nat -> ia p' j <> ia p kc).
  { intros j Hj Hjn. rewrite Hn' in Hjn. rewrite (rev_ia p Hs j Hjn). apply NR. lia. }
  set (k := (n - k0)%nat).
  assert (Ck : crosses p' (k - 1) = true).
  { rewrite (rev_crosses p Hs) by (unfold k; lia). rewrite <- C. f_equal. unfold k. lia. }
  destruct (walk_from_arrive_src mac t now' p' ppf HG' Hep' Hexp'' (ia p kc) k ltac:(unfold k; lia) Hsrc
              n k (2 * n + 2) (render p' ppf k false) (InExt (tr_in p' k)) (ForwardStep.in_rtr t p' k))
    as (tr & rtr & d & Er & Cr & Dt).
  - rewrite Hn'. lia.
  - rewrite Hn'. unfold k. lia.
  - lia.
  - apply view_render.
  - right. repeat split; [unfold k; lia|exact Ck].
  - reflexivity.
  - rewrite Hn'. lia.
  - rewrite Hn' in *. exists (map fst tr), rtr.
    unfold forward, run. rewrite (fuel_src (ia p kc) k false ppf).
    unfold Forward.ext_loc. fold k. rewrite Er. cbn [fst snd]. split.
    + rewrite (ret_target lt lraw pay pt d0 RT) in Dt. injection Dt as <-.
      rewrite (rev_ia p Hs (n - 1)) by lia. replace (n - 1 - (n - 1))%nat with 0%nat by lia.
      now rewrite src_ia_first.
    + rewrite Cr. unfold ScmpReturn.back_ifs. fold k0.
      rewrite <- (ifs_rev k0) by lia.
      replace k0 with (S (k0 - 1)) at 2 by lia. rewrite (ifs_from_S p').
      unfold Forward.pairs_of at 1.
      replace (n - 1 - k0)%nat with (k - 1)%nat by (unfold k; lia). rewrite Ck.
      cbn [app tl]. unfold Forward.pre.
      replace (S (k - 1)) with k by (unfold k; lia).
      replace (n - 1 - k)%nat with (k0 - 1)%nat by (unfold k; lia). reflexivity.
Qed.

(** ** over the sibling link: the sibling is the router through which the offending packet
    entered the AS; in the reversed path the roles of the two routers are exchanged *)
Lemma entry_rev kc : (S kc < n)%nat -> crosses p kc = true ->
  ForwardStep.entry p' (n - 1 - ret_hop kc) = (n - 1 - kc)%nat.
Proof.
  intros Hk C. assert (Hk' : (kc < n)%nat) by lia.
  destruct (ret_hop_le p kc) as [R1 R2].
  pose proof (ret_hop_peer mac t p HG kc Hk') as RP.
  (* the current hop is not the last of its slice, unless it is a peering hop *)
  assert (LP : is_last p kc && negb (peerhop p kc) = false).
  { destruct (is_last p kc) eqn:L; [|reflexivity]. now rewrite (peer_exit mac t p HG kc Hk C L). }
  unfold ForwardStep.entry.
  rewrite (rev_is_first p Hs) by lia. rewrite (rev_peerhop p Hs) by lia.
  replace (n - 1 - (n - 1 - ret_hop kc))%nat with (ret_hop kc) by lia.
  rewrite RP. unfold ScmpReturn.ret_hop in *.
  destruct (is_first p kc && negb (peerhop p kc)) eqn:X.
  - apply andb_true_iff in X as [F Ph]. rewrite Ph.
    destruct kc as [|k].
    + replace (0 - 1)%nat with 0%nat by lia. apply negb_true_iff in Ph. rewrite Ph in LP.
      rewrite andb_true_r in LP. rewrite LP. cbn [andb]. lia.
    + replace (S k - 1)%nat with k by lia.
      rewrite <- (first_last p Hs k) by lia. rewrite F. cbn [andb]. lia.
  - rewrite LP. lia.
Qed.

Lemma in_rtr_rev j : (j < n)%nat -> ForwardStep.in_rtr t p' j = ForwardStep.eg_rtr t p (n - 1 - j).
Proof.
  intros Hj. unfold ForwardStep.in_rtr, ForwardStep.eg_rtr, nif_of.
  rewrite (as_of_rev j Hj). now rewrite (rev_tr_in p Hs j Hj).
Qed.

Lemma eg_rtr_rev j : (j < n)%nat -> ForwardStep.eg_rtr t p' j = ForwardStep.in_rtr t p (n - 1 - j).
Proof.
  intros Hj. unfold ForwardStep.in_rtr, ForwardStep.eg_rtr, nif_of.
  rewrite (as_of_rev j Hj). now rewrite (rev_tr_eg p Hs j Hj).
Qed.

Theorem back_sib kc lia h lt lraw pay pt d0 :
  (S kc < n)%nat -> crosses p kc = true ->
  (1 <= ret_hop kc)%nat -> crosses p (ret_hop kc - 1) = true ->
  ForwardStep.in_rtr t p (ret_hop kc) <> ForwardStep.eg_rtr t p kc ->
  (forall j, (j < ret_hop kc)%nat -> ia p j <> ia p kc) ->
  lia = ia p kc -> RouterScmp.pack_local h = Some (lt, lraw) -> ScmpReturn.src_ip_ok pp = true ->
  reply_target pp (Some pt) = Some d0 ->
  exists tr rtr,
    forward macq t now'
            (mkLoc (ia p kc) (ForwardStep.in_rtr t p (ret_hop kc)) (InSib (ForwardStep.eg_rtr t p kc + 1)))
            (set_src lia (render p' (rev_params pp lt lraw pay (Some pt)) (n - 1 - ret_hop kc) true)) =
      (tr, Delivered (pp_src_ia pp) rtr (fst d0) (snd d0)) /\
    crossed tr = ScmpReturn.back_ifs p ScmpReturn.ASib kc.
Proof.
  intros Hk Cc K1 C Hne NR -> PL SI RT. assert (Hk' : (kc < n)%nat) by lia.
  pose proof (entry_rev kc Hk Cc) as ER. pose proof (ret_hop_ia kc Hk') as RI.
  set (k0 := ret_hop kc) in *. destruct (ret_hop_le p kc) as [R1 R2]. fold k0 in R1, R2.
  set (ppf := rev_params pp lt lraw pay (Some pt)).
  pose proof (ret_endpoints h lt lraw pay pt PL SI) as Hep'. fold ppf in Hep'.
  pose proof (unexpired_rev mac t p HG now' Hexp') as Hexp''.
  assert (Hn' : nhops p' = n) by apply (rev_nhops p).
  assert (Hsrc : forall j, (n - k0 <= j)%nat -> (j < nhops p')%nat -> ia p' j <> ia p kc).
  { intros j Hj Hjn. rewrite Hn' in Hjn. rewrite (rev_ia p Hs j Hjn). apply NR. lia. }
  set (k := (n - 1 - k0)%nat).
  assert (Ck : crosses p' k = true).
  { rewrite (rev_crosses p Hs) by (unfold k; lia). rewrite <- C. f_equal. unfold k. lia. }
  destruct (pack_local_good _ _ _ PL) as [PH M].
  destruct (walk_from_mid_src mac t now' p' ppf HG' Hep' Hexp'' (ia p kc) (n - k0) ltac:(lia) Hsrc
              (2 * n + 2) (render p' ppf k true) k (n - 1 - kc))
    as (tr & rtr & d & Er & Cr & Dt).
  - apply view_render.
  - rewrite Hn'. unfold k. lia.
  - exact Ck.
  - unfold src_host_good, render, ppf, rev_params.
    cbn [p_src_type p_src_raw pp_src_type pp_src_raw]. now rewrite PH, M.
  - exact ER.
  - lia.
  - rewrite (rev_crosses p Hs) by lia. rewrite <- Cc. f_equal. lia.
  - rewrite !as_of_rev by (unfold k; lia). unfold as_of.
    replace (n - 1 - (n - 1 - kc))%nat with kc by lia. replace (n - 1 - k)%nat with k0 by (unfold k; lia).
    now rewrite RI.
  - rewrite in_rtr_rev by lia. rewrite eg_rtr_rev by (unfold k; lia).
    replace (n - 1 - (n - 1 - kc))%nat with kc by lia. replace (n - 1 - k)%nat with k0 by (unfold k; lia).
    intros X. apply Hne. now symmetry.
  - unfold k. lia.
  - rewrite Hn'. lia.
  - rewrite Hn' in *. exists (map fst tr), rtr.
    unfold forward, run. rewrite (fuel_src (ia p kc) k true ppf).
    rewrite (rev_ia p Hs k) in Er by (unfold k; lia).
    rewrite eg_rtr_rev in Er by (unfold k; lia). rewrite in_rtr_rev in Er by lia.
    replace (n - 1 - (n - 1 - kc))%nat with kc in Er by lia.
    replace (n - 1 - k)%nat with k0 in Er by (unfold k; lia).
    rewrite RI in Er. rewrite Er. cbn [fst snd]. split.
    + rewrite (ret_target lt lraw pay pt d0 RT) in Dt. injection Dt as <-.
      rewrite (rev_ia p Hs (n - 1)) by lia. replace (n - 1 - (n - 1))%nat with 0%nat by lia.
      now rewrite src_ia_first.
    + rewrite Cr. unfold ScmpReturn.back_ifs. fold k0.
      rewrite <- (ifs_rev k0) by lia. fold k. f_equal. unfold k. lia.
Qed.

End Return.
