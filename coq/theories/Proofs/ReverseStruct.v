(** C03, part 1: positions of a reversed provenance path.  Hop [k] of
    [rev_prov p] is hop [n-1-k] of [p]; slices are reversed and their
    construction-direction flags flipped. *)
From Coq Require Import List NArith Bool Arith Lia.
From Scion Require Import Lib.Check Model.Router Model.Network Model.Prov.
From Scion Require Import Proofs.ProvStruct Proofs.ProvRender.
Import ListNotations.
Import Router Network Prov.

(** * List arithmetic *)
Lemma total_app a b : total (a ++ b) = (total a + total b)%nat.
Proof. induction a as [|x a IH]; cbn [app total fold_right]; [reflexivity|]. fold (total (a ++ b)) (total a). lia. Qed.

Lemma total_rev l : total (rev l) = total l.
Proof.
  induction l as [|x l IH]; [reflexivity|]. cbn [rev]. rewrite total_app, IH. cbn [total fold_right]. fold (total l). lia.
Qed.

Lemma total_split l j : total l = (total (firstn j l) + total (skipn j l))%nat.
Proof. rewrite <- (firstn_skipn j l) at 1. apply total_app. Qed.

Lemma seg_start_rev l j : (j <= length l)%nat ->
  (seg_start (rev l) j + seg_start l (length l - j) = total l)%nat.
Proof.
  intros H. unfold seg_start. fold (total (firstn j (rev l))) (total (firstn (length l - j) l)).
  rewrite firstn_rev, total_rev. rewrite (total_split l (length l - j)). lia.
Qed.

Lemma nth_rev_lens (l : list nat) j : (j < length l)%nat -> nth j (rev l) 0%nat = nth (length l - 1 - j) l 0%nat.
Proof. intros H. rewrite rev_nth by assumption. f_equal. lia. Qed.

(** position [k] of the reversed list of lengths *)
Lemma seg_rev l k : (k < total l)%nat ->
  let k2 := (total l - 1 - k)%nat in
  seg_idx (rev l) k = (length l - 1 - seg_idx l k2)%nat /\
  seg_off (rev l) k = (nth (seg_idx l k2) l 0 - 1 - seg_off l k2)%nat.
Proof.
  intros H k2. assert (H2 : (k2 < total l)%nat) by (unfold k2; lia).
  destruct (seg_decomp l k2 H2) as (A & B & C).
  set (j2 := seg_idx l k2) in *. set (o2 := seg_off l k2) in *.
  set (j := (length l - 1 - j2)%nat). set (o := (nth j2 l 0 - 1 - o2)%nat).
  assert (Hj : (j < length (rev l))%nat) by (rewrite rev_length; unfold j; lia).
  assert (Nj : nth j (rev l) 0%nat = nth j2 l 0%nat).
  { rewrite nth_rev_lens by (unfold j; lia). f_equal. unfold j. lia. }
  assert (Ho : (o < nth j (rev l) 0)%nat) by (rewrite Nj; unfold o; lia).
  destruct (seg_compose (rev l) j o Hj Ho) as [E1 E2].
  assert (St : (seg_start (rev l) j + o = k)%nat).
  { pose proof (seg_start_rev l j ltac:(unfold j; lia)) as R.
    replace (length l - j)%nat with (S j2) in R by (unfold j; lia).
    rewrite (seg_start_next l j2 A) in R. unfold o, k2 in *. lia. }
  rewrite St in E1, E2. auto.
Qed.

(** * Positions of the reversed path *)
Section Rev.
Variable p : prov.
Hypothesis Hshape : shape_ok p = true.

Notation n := (nhops p).
Notation js := (seg_idx (lens p)).
Notation nsegs := (length (pv_segs p)).
Notation p' := (rev_prov p).
Notation HT := (Htot p Hshape).
Notation HP := (Hpos p Hshape).

Lemma rev_nhops : nhops p' = n.
Proof. unfold nhops, rev_prov. cbn [pv_hops]. apply rev_length. Qed.

Lemma rev_lens : lens p' = rev (lens p).
Proof. unfold lens, rev_prov. cbn [pv_segs]. rewrite map_rev, map_map. f_equal. Qed.

Lemma rev_nsegs : length (pv_segs p') = nsegs.
Proof. unfold rev_prov. cbn [pv_segs]. now rewrite rev_length, map_length. Qed.

Lemma rev_hop k : (k < n)%nat -> hop p' k = hop p (n - 1 - k).
Proof.
  intros H. unfold hop, rev_prov. cbn [pv_hops]. rewrite rev_nth by assumption. f_equal. unfold nhops. lia.
Qed.

Lemma rev_seg_nth j : (j < nsegs)%nat ->
  nth j (pv_segs p') dseg = flip_seg (nth (nsegs - 1 - j) (pv_segs p) dseg).
Proof.
  intros H. unfold rev_prov. cbn [pv_segs]. rewrite rev_nth by now rewrite map_length.
  rewrite map_length. rewrite (nth_indep _ dseg (flip_seg dseg)) by (rewrite map_length; lia).
  rewrite map_nth. f_equal. f_equal. lia.
Qed.

Lemma rev_pos k : (k < n)%nat ->
  let k2 := (n - 1 - k)%nat in
  seg_idx (lens p') k = (nsegs - 1 - js k2)%nat /\
  seg_off (lens p') k = (sg_len (hdr p k2) - 1 - seg_off (lens p) k2)%nat.
Proof.
  intros H k2. rewrite rev_lens. rewrite <- HT in H.
  destruct (seg_rev (lens p) k H) as [A B]. rewrite HT, lens_length in *. fold k2 in A, B.
  split; [exact A|]. rewrite B. now rewrite nth_lens.
Qed.

Lemma rev_hdr k : (k < n)%nat -> hdr p' k = flip_seg (hdr p (n - 1 - k)).
Proof.
  intros H. unfold hdr at 1. destruct (rev_pos k H) as [A _]. rewrite A.
  assert (J : (js (n - 1 - k) < nsegs)%nat) by (apply (js_lt p Hshape); lia).
  rewrite rev_seg_nth by lia. unfold hdr. f_equal. f_equal. lia.
Qed.

Lemma rev_cons k : (k < n)%nat -> cons p' k = negb (cons p (n - 1 - k)).
Proof. intros H. unfold cons. now rewrite rev_hdr. Qed.

Lemma rev_is_first k : (k < n)%nat -> is_first p' k = is_last p (n - 1 - k).
Proof.
  intros H. unfold is_first, is_last. destruct (rev_pos k H) as [_ B]. rewrite B.
  destruct (pos_facts p HT (n - 1 - k) ltac:(lia)) as (_ & _ & C).
  destruct (Nat.eqb (S (seg_off (lens p) (n - 1 - k))) (sg_len (hdr p (n - 1 - k)))) eqn:E.
  - apply Nat.eqb_eq in E. apply Nat.eqb_eq. lia.
  - apply Nat.eqb_neq in E. apply Nat.eqb_neq. lia.
Qed.

Lemma rev_is_last k : (k < n)%nat -> is_last p' k = is_first p (n - 1 - k).
Proof.
  intros H. unfold is_first, is_last. destruct (rev_pos k H) as [_ B]. rewrite B.
  rewrite rev_hdr by assumption. cbn [flip_seg sg_len].
  destruct (pos_facts p HT (n - 1 - k) ltac:(lia)) as (_ & _ & C).
  destruct (Nat.eqb (seg_off (lens p) (n - 1 - k)) 0) eqn:E.
  - apply Nat.eqb_eq in E. apply Nat.eqb_eq. lia.
  - apply Nat.eqb_neq in E. apply Nat.eqb_neq. lia.
Qed.

Lemma rev_peerhop k : (k < n)%nat -> peerhop p' k = peerhop p (n - 1 - k).
Proof.
  intros H. unfold peerhop. rewrite rev_cons, rev_is_first, rev_is_last by assumption.
  rewrite rev_hdr by assumption. cbn [flip_seg sg_peer].
  destruct (cons p (n - 1 - k)); reflexivity.
Qed.

Lemma rev_tr_in k : (k < n)%nat -> tr_in p' k = tr_eg p (n - 1 - k).
Proof.
  intros H. unfold tr_in, tr_eg. rewrite rev_cons, rev_hop by assumption.
  destruct (cons p (n - 1 - k)); reflexivity.
Qed.

Lemma rev_tr_eg k : (k < n)%nat -> tr_eg p' k = tr_in p (n - 1 - k).
Proof.
  intros H. unfold tr_in, tr_eg. rewrite rev_cons, rev_hop by assumption.
  destruct (cons p (n - 1 - k)); reflexivity.
Qed.

Lemma rev_ia k : (k < n)%nat -> ia p' k = ia p (n - 1 - k).
Proof. intros H. unfold ia. now rewrite rev_hop. Qed.
Lemma rev_beta k : (k < n)%nat -> beta p' k = beta p (n - 1 - k).
Proof. intros H. unfold beta. now rewrite rev_hop. Qed.
Lemma rev_sigma k : (k < n)%nat -> sigma p' k = sigma p (n - 1 - k).
Proof. intros H. unfold sigma. now rewrite rev_hop. Qed.

(** first hop of a slice <-> last hop of the previous one *)
Lemma first_last k : (S k < n)%nat -> is_first p (S k) = is_last p k.
Proof.
  intros H. destruct (is_first p (S k)) eqn:F.
  - now destruct (prev_next p HP HT k H F).
  - now destruct (prev_same p HP HT k H F).
Qed.

Lemma peer_same k k2 : (k < n)%nat -> (k2 < n)%nat -> sg_peer (hdr p k) = sg_peer (hdr p k2).
Proof.
  intros H H2. destruct (sg_peer (hdr p k)) eqn:P.
  - symmetry. destruct (peer_shape p Hshape (js k) (js_lt p Hshape k H) P) as (a & b & E & Pa & Pb & _).
    pose proof (js_lt p Hshape k2 H2) as J. unfold hdr. rewrite E in *. cbn [length] in J.
    destruct (js k2) as [|[|x]]; cbn [nth]; try assumption; lia.
  - symmetry. pose proof (nopeer_all p Hshape (js k) (js k2) (js_lt p Hshape k H) (js_lt p Hshape k2 H2)) as X.
    now apply X.
Qed.

Lemma rev_crosses k : (S k < n)%nat -> crosses p' k = crosses p (n - 2 - k).
Proof.
  intros H. unfold crosses. rewrite rev_is_last by lia. rewrite rev_hdr by lia. cbn [flip_seg sg_peer].
  replace (n - 1 - k)%nat with (S (n - 2 - k)) by lia.
  rewrite first_last by lia. f_equal. apply peer_same; lia.
Qed.

End Rev.
