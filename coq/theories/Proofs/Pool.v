(** Proofs about Model/Pool.v (C14). *)
From Coq Require Import List Arith Bool Lia Permutation.
From Scion Require Import Lib.Check Model.Pool.
Import ListNotations.
Import Pool.

(* ------------------------------------------------------------------ *)
(** * Lists *)

Lemma upd_length {A} i (x : A) l : length (upd i x l) = length l.
Proof. revert i; induction l as [|h t IH]; intros [|i]; cbn; auto. Qed.

Lemma nth_error_upd_eq {A} i (x : A) l : i < length l -> nth_error (upd i x l) i = Some x.
Proof.
  revert i; induction l as [|h t IH]; intros [|i] H; cbn in *; try lia; auto.
  apply IH; lia.
Qed.

Lemma nth_error_upd_neq {A} i j (x : A) l : i <> j -> nth_error (upd i x l) j = nth_error l j.
Proof.
  revert i j; induction l as [|h t IH]; intros [|i] [|j] H; cbn; auto; try lia.
Qed.

Lemma nth_upd_neq {A} i j (x d : A) l : i <> j -> nth j (upd i x l) d = nth j l d.
Proof.
  revert i j; induction l as [|h t IH]; intros [|i] [|j] H; cbn; auto; try lia.
Qed.

Lemma nth_upd_eq {A} i (x d : A) l : i < length l -> nth i (upd i x l) d = x.
Proof.
  revert i; induction l as [|h t IH]; intros [|i] H; cbn in *; try lia; auto.
  apply IH; lia.
Qed.

Lemma firstn_upd_ge {A} n i (x : A) l : n <= i -> firstn n (upd i x l) = firstn n l.
Proof.
  revert n i; induction l as [|h t IH]; intros [|n] [|i] H; cbn; auto; try lia.
  f_equal; apply IH; lia.
Qed.

Lemma skipn_upd_lt {A} n i (x : A) l : i < n -> skipn n (upd i x l) = skipn n l.
Proof.
  revert n i; induction l as [|h t IH]; intros [|n] [|i] H; cbn; auto; try lia.
  apply IH; lia.
Qed.

Lemma firstn_S_upd {A} i (x : A) l :
  i < length l -> firstn (S i) (upd i x l) = firstn i l ++ [x].
Proof.
  revert i; induction l as [|h t IH]; intros [|i] H; cbn in *; try lia; auto.
  f_equal; apply IH; lia.
Qed.

Lemma upd_split {A} i (x y : A) l :
  nth_error l i = Some y ->
  l = firstn i l ++ y :: skipn (S i) l /\ upd i x l = firstn i l ++ x :: skipn (S i) l.
Proof.
  revert i; induction l as [|h t IH]; intros [|i] H; cbn in *; try discriminate.
  - inversion H; subst; auto.
  - destruct (IH _ H) as [E1 E2]. split; f_equal; auto.
Qed.

Lemma skipn_nth {A} i (l : list A) d : i < length l -> skipn i l = nth i l d :: skipn (S i) l.
Proof.
  revert i; induction l as [|h t IH]; intros [|i] H; cbn in *; try lia; auto.
  apply IH; lia.
Qed.

Lemma nth_firstn_lt {A} i n (l : list A) d : i < n -> nth i (firstn n l) d = nth i l d.
Proof.
  revert i n; induction l as [|h t IH]; intros [|i] [|n] H; cbn; auto; try lia.
  apply IH; lia.
Qed.

Lemma map_upd {A B} (f : A -> B) i x l : map f (upd i x l) = upd i (f x) (map f l).
Proof. revert i; induction l as [|h t IH]; intros [|i]; cbn; auto. f_equal; auto. Qed.

Lemma nth_error_of_nth {A} i (l : list A) d x : nth i l d = x -> x <> d -> nth_error l i = Some x.
Proof.
  revert i; induction l as [|h t IH]; intros [|i] H Hn; cbn in *; subst; try congruence; auto.
Qed.

Lemma nth_error_nth_lt {A} i (l : list A) d : i < length l -> nth_error l i = Some (nth i l d).
Proof.
  revert i; induction l as [|h t IH]; intros [|i] H; cbn in *; try lia; auto.
  apply IH; lia.
Qed.

(** Replacing one element of a list of lists: what [concat] gains and loses. *)
Lemma concat_upd_perm {A} (l : list (list A)) g x y :
  nth_error l g = Some x ->
  exists rest, Permutation (concat l) (x ++ rest) /\ Permutation (concat (upd g y l)) (y ++ rest).
Proof.
  intros H. destruct (upd_split g y x l H) as [E1 E2].
  exists (concat (firstn g l) ++ concat (skipn (S g) l)). split.
  - rewrite E1 at 1. rewrite concat_app. cbn [concat].
    rewrite app_assoc. rewrite (Permutation_app_comm (concat (firstn g l)) x).
    now rewrite <- app_assoc.
  - rewrite E2. rewrite concat_app. cbn [concat].
    rewrite app_assoc. rewrite (Permutation_app_comm (concat (firstn g l)) y).
    now rewrite <- app_assoc.
Qed.

(** Permutation goals over [nat] lists by counting occurrences. *)
Ltac perm_count :=
  unfold tok, tid, qid in *;
  repeat match goal with
         | H : Permutation _ _ |- _ =>
           let Q := fresh "Q" in
           pose proof (proj1 (Permutation_count_occ Nat.eq_dec _ _) H) as Q; clear H
         end;
  apply (Permutation_count_occ Nat.eq_dec);
  let x := fresh "x" in
  intro x;
  repeat match goal with
         | H : forall _ : nat, count_occ Nat.eq_dec _ _ = count_occ Nat.eq_dec _ _ |- _ =>
           let H' := fresh "Hc" in pose proof (H x) as H'; clear H
         end;
  repeat progress (repeat rewrite count_occ_app in *; cbn [count_occ] in *);
  repeat match goal with
         | H : context [Nat.eq_dec ?a ?b] |- _ => destruct (Nat.eq_dec a b)
         | |- context [Nat.eq_dec ?a ?b] => destruct (Nat.eq_dec a b)
         end;
  repeat rewrite count_occ_app in *;
  try lia.

(* ------------------------------------------------------------------ *)
(** * Part A: the ownership monitor *)

Lemma mrun_app m a b :
  mrun m (a ++ b) = match mrun m a with Some m' => mrun m' b | None => None end.
Proof.
  revert m; induction a as [|e a IH]; intros m; cbn; auto.
  destruct (mstep m e); auto.
Qed.

Lemma mstep_length m e m' : mstep m e = Some m' -> length m' = length m.
Proof.
  destruct e; cbn; intros H;
    repeat match type of H with
           | context [match ?x with _ => _ end] => destruct x; try discriminate
           end;
    inversion H; subst; auto using upd_length.
Qed.

Lemma fold_last_acc (t : tok) tr acc :
  fold_left (fun a e => if touches t e then Some e else a) tr acc =
  match fold_left (fun a e => if touches t e then Some e else a) tr None with
  | Some e => Some e
  | None => acc
  end.
Proof.
  revert acc; induction tr as [|e tr IH]; intros acc; cbn; auto.
  rewrite IH. rewrite (IH (if touches t e then Some e else None)).
  destruct (fold_left _ tr None); auto. destruct (touches t e); auto.
Qed.

Lemma last_own_app a b t :
  last_own (a ++ b) t = match last_own b t with Some e => Some e | None => last_own a t end.
Proof. unfold last_own. rewrite fold_left_app. apply fold_last_acc. Qed.

Lemma last_own_snoc a e t :
  last_own (a ++ [e]) t = if touches t e then Some e else last_own a t.
Proof. rewrite last_own_app. unfold last_own at 1. cbn. destruct (touches t e); auto. Qed.

Lemma last_own_in a t e : last_own a t = Some e -> In e a /\ touches t e = true.
Proof.
  revert e. induction a as [|x a IH] using rev_ind; intros e; [discriminate|].
  rewrite last_own_snoc. destruct (touches t x) eqn:E; intros H.
  - inversion H; subst. split; auto. apply in_or_app; right; left; auto.
  - destruct (IH _ H). split; auto. apply in_or_app; auto.
Qed.

(** The location the monitor has for [t] is determined by the last ownership
    event on [t]. *)
Definition loc_of (o : option event) : loc :=
  match o with
  | None => InPool
  | Some (EGet _ g) => Held g
  | Some (EPut _ _) => InPool
  | Some (EEnq _ _ q) => InQueue q
  | Some (EDeq _ g _) => Held g
  | Some (ELeak _ _) => Lost
  | Some (EUse _ _) => InPool
  end.

Lemma nth_error_repeat {A} (x : A) n t : t < n -> nth_error (repeat x n) t = Some x.
Proof. revert t; induction n; intros [|t] H; cbn; try lia; auto. apply IHn; lia. Qed.

Lemma mrun_loc n a m :
  mrun (minit n) a = Some m ->
  length m = n /\ forall t, t < n -> nth_error m t = Some (loc_of (last_own a t)).
Proof.
  revert m; induction a as [|e a IH] using rev_ind; intros m H.
  - cbn in H. inversion H; subst. unfold minit. split; [apply repeat_length|].
    intros t Ht. cbn. now apply nth_error_repeat.
  - rewrite mrun_app in H. destruct (mrun (minit n) a) as [m1|] eqn:E1; [|discriminate].
    destruct (IH _ eq_refl) as [L1 N1]. cbn in H.
    destruct (mstep m1 e) as [m2|] eqn:E2; [|discriminate]. injection H as <-.
    split; [rewrite (mstep_length _ _ _ E2); auto|].
    intros t Ht. rewrite last_own_snoc.
    destruct e as [t0 g|t0 g|t0 g q|t0 g q|t0 g|t0 g]; cbn [mstep touches] in *;
      destruct (nth_error m1 t0) as [[|g'|q'|]|] eqn:En; try discriminate;
      repeat match type of E2 with
             | context [if ?b then _ else _] => destruct b; try discriminate
             end;
      injection E2 as <-; auto;
      (destruct (Nat.eqb t0 t) eqn:Et;
       [ apply Nat.eqb_eq in Et; subst t0; cbn [loc_of];
         apply nth_error_upd_eq; rewrite L1; auto
       | apply Nat.eqb_neq in Et; rewrite nth_error_upd_neq by auto; auto ]).
Qed.

Lemma accepts_prefix n a e c :
  accepts n (a ++ e :: c) = true ->
  exists m m', mrun (minit n) a = Some m /\ mstep m e = Some m'.
Proof.
  unfold accepts. rewrite mrun_app. destruct (mrun (minit n) a) as [m|]; [|discriminate].
  cbn. destruct (mstep m e) as [m'|] eqn:E; [|discriminate]. intros _. exists m, m'. auto.
Qed.

(** Soundness, part 1: whatever only an owner may do to [t] (Put, send on a
    channel, socket I/O, drop) is done by the goroutine that the last ownership
    event on [t] gave it to. *)
Lemma accepts_owner n tr a e c t g :
  accepts n tr = true -> tr = a ++ e :: c -> acts t g e = true -> owned_by a t g.
Proof.
  intros Hacc -> Hact. destruct (accepts_prefix _ _ _ _ Hacc) as (m & m' & Hm & Hs).
  destruct (mrun_loc _ _ _ Hm) as [L N].
  assert (Hh : nth_error m t = Some (Held g)).
  { destruct e as [t0 g0|t0 g0|t0 g0 q|t0 g0 q|t0 g0|t0 g0]; cbn in Hact; try discriminate;
      apply andb_true_iff in Hact as [Ht Hg]; apply Nat.eqb_eq in Ht, Hg; subst t0 g0;
      cbn in Hs; destruct (nth_error m t) as [[|g'|q'|]|]; try discriminate;
      destruct (Nat.eqb g' g) eqn:Eg; try discriminate; apply Nat.eqb_eq in Eg; now subst. }
  assert (Ht : t < n). { rewrite <- L. apply nth_error_Some. congruence. }
  rewrite (N _ Ht) in Hh. inversion Hh as [Hl]; clear Hh.
  unfold owned_by. destruct (last_own a t) as [e0|] eqn:El; [|discriminate].
  destruct (last_own_in _ _ _ El) as [_ Ht0].
  exists e0; split; auto.
  destruct e0; cbn in Hl; try discriminate; inversion Hl; subst;
    cbn in *; rewrite Ht0, Nat.eqb_refl; auto.
Qed.

(** Soundness, part 2: the pool only hands out a buffer that is in the pool. *)
Lemma accepts_get n tr a c t g :
  accepts n tr = true -> tr = a ++ EGet t g :: c -> pooled a t.
Proof.
  intros Hacc ->. destruct (accepts_prefix _ _ _ _ Hacc) as (m & m' & Hm & Hs).
  destruct (mrun_loc _ _ _ Hm) as [L N]. cbn in Hs.
  destruct (nth_error m t) as [[|g'|q'|]|] eqn:En; try discriminate.
  assert (Ht : t < n). { rewrite <- L. apply nth_error_Some. congruence. }
  rewrite (N _ Ht) in En. inversion En as [Hl]; clear En.
  unfold pooled. destruct (last_own a t) as [e0|] eqn:El; auto.
  destruct (last_own_in _ _ _ El) as [_ Ht0].
  destruct e0; cbn in Hl; try discriminate; cbn in Ht0; try discriminate.
  apply Nat.eqb_eq in Ht0; subst. right; eauto.
Qed.

Lemma no_double_put n a t g1 b g2 c :
  accepts n (a ++ EPut t g1 :: b ++ EPut t g2 :: c) = true ->
  exists e, In e b /\ acquires t g2 e = true.
Proof.
  intros H.
  assert (E : a ++ EPut t g1 :: b ++ EPut t g2 :: c = (a ++ EPut t g1 :: b) ++ EPut t g2 :: c)
    by (rewrite <- app_assoc; reflexivity).
  destruct (accepts_owner n _ _ _ _ t g2 H E) as (e & El & Ha);
    [cbn; now rewrite !Nat.eqb_refl|].
  exists e; split; auto.
  change (a ++ EPut t g1 :: b) with (a ++ [EPut t g1] ++ b) in El.
  rewrite app_assoc, last_own_app in El.
  destruct (last_own b t) as [e'|] eqn:Eb.
  - inversion El; subst. now destruct (last_own_in _ _ _ Eb).
  - rewrite last_own_snoc in El. cbn in El. rewrite Nat.eqb_refl in El.
    inversion El; subst. cbn in Ha. discriminate.
Qed.

Lemma no_get_while_held n a t g1 b g2 c :
  accepts n (a ++ EGet t g1 :: b ++ EGet t g2 :: c) = true ->
  exists g', In (EPut t g') b.
Proof.
  intros H.
  assert (E : a ++ EGet t g1 :: b ++ EGet t g2 :: c = (a ++ EGet t g1 :: b) ++ EGet t g2 :: c)
    by (rewrite <- app_assoc; reflexivity).
  pose proof (accepts_get n _ _ _ _ _ H E) as Hp.
  change (a ++ EGet t g1 :: b) with (a ++ [EGet t g1] ++ b) in Hp.
  unfold pooled in Hp. rewrite app_assoc, last_own_app in Hp.
  destruct (last_own b t) as [e'|] eqn:Eb.
  - destruct Hp as [Hp|[g' Hp]]; [discriminate|]. inversion Hp; subst.
    exists g'. now destruct (last_own_in _ _ _ Eb).
  - rewrite last_own_snoc in Hp. cbn in Hp. rewrite Nat.eqb_refl in Hp.
    destruct Hp as [Hp|[g' Hp]]; discriminate.
Qed.

(** The completion only inserts channel hand-offs: the recorded events are
    exactly the Get/Put/Use events of the completed trace. *)
Definition is_raw (e : event) : bool :=
  match e with EGet _ _ | EPut _ _ | EUse _ _ => true | _ => false end.

Lemma chain_not_raw t from mid to : filter is_raw (chain t from mid to) = [].
Proof. revert from; induction mid as [|s mid IH]; intros from; cbn; auto. Qed.

Lemma handoff_not_raw kinds m e : filter is_raw (handoff kinds m e) = [].
Proof.
  unfold handoff. destruct e; auto;
    destruct (nth_error m t) as [[|g'|q'|]|]; auto;
    destruct (Nat.eqb g' g); auto;
    destruct (via _ _); auto using chain_not_raw.
Qed.

Lemma complete_raw kinds m raw :
  forallb is_raw raw = true -> filter is_raw (complete kinds m raw) = raw.
Proof.
  revert m; induction raw as [|e raw IH]; intros m H; cbn in *; auto.
  apply andb_true_iff in H as [He Hr].
  rewrite !filter_app, handoff_not_raw. cbn. rewrite He. cbn. f_equal. auto.
Qed.

(* ------------------------------------------------------------------ *)
(** * Part B: the goroutines *)

Lemma nth_skipn_add {A} k i (l : list A) d : nth i (skipn k l) d = nth (k + i) l d.
Proof.
  revert l; induction k as [|k IH]; intros l; cbn; auto.
  destruct l; cbn; auto. destruct i; auto.
Qed.

(** ** The leftover shift of udpConnection.send *)
Lemma shift_S w n pk :
  shift w (S n) pk = upd n (nth (n + w + 1) (shift w n pk) 0) (shift w n pk).
Proof. unfold shift. rewrite seq_S, fold_left_app. reflexivity. Qed.

Lemma shift_length w n pk : length (shift w n pk) = length pk.
Proof. induction n; [reflexivity|]. rewrite shift_S, upd_length; auto. Qed.

Lemma shift_nth_ge w n pk j : n <= j -> nth j (shift w n pk) 0 = nth j pk 0.
Proof.
  induction n as [|n IH]; intros H; [reflexivity|].
  rewrite shift_S, nth_upd_neq by lia. apply IH; lia.
Qed.

Lemma shift_nth_lt w n pk i :
  i < n -> n + w + 1 <= length pk -> nth i (shift w n pk) 0 = nth (i + w + 1) pk 0.
Proof.
  induction n as [|n IH]; intros Hi Hl; [lia|].
  rewrite shift_S. destruct (Nat.eq_dec i n) as [->|Hne].
  - rewrite nth_upd_eq by (rewrite shift_length; lia). apply shift_nth_ge; lia.
  - rewrite nth_upd_neq by lia. apply IH; lia.
Qed.

Lemma shift_firstn w n pk :
  n + w + 1 <= length pk -> firstn n (shift w n pk) = firstn n (skipn (w + 1) pk).
Proof.
  intros Hl. apply (nth_ext _ _ 0 0).
  - rewrite !firstn_length, shift_length, skipn_length. lia.
  - intros i Hi. rewrite firstn_length, shift_length in Hi.
    assert (i < n) by lia.
    rewrite !nth_firstn_lt by auto. rewrite shift_nth_lt by auto.
    rewrite nth_skipn_add. f_equal; lia.
Qed.

(** ** Every step of every goroutine moves at most one buffer, and the buffers
    named by its local variables afterwards are exactly those it had, plus the
    one received / minus the one given away. *)
Definition disciplined (th : thread) (a : action) (k : tok -> thread) : Prop :=
  match a with
  | ANone => Permutation (held (k 0)) (held th)
  | AUse l => Permutation (held (k 0)) (held th) /\ incl l (held th)
  | AGet | ADeq _ => forall t, Permutation (held (k t)) (t :: held th)
  | APut t | AEnq t _ | ALeak t => Permutation (t :: held (k 0)) (held th)
  end.

Ltac step_cases H :=
  unfold try_send in H;
  repeat match type of H with
         | context [if ?b then _ else _] => let E := fresh "E" in destruct b eqn:E
         | context [match ?x with _ => _ end] => destruct x
         end;
  try discriminate; inversion H; subst; clear H.

Ltac nat_bools :=
  repeat match goal with
         | H : (_ <? _) = true |- _ => apply Nat.ltb_lt in H
         | H : (_ <? _) = false |- _ => apply Nat.ltb_ge in H
         | H : (_ <=? _) = true |- _ => apply Nat.leb_le in H
         | H : (_ <=? _) = false |- _ => apply Nat.leb_gt in H
         | H : (_ =? _) = true |- _ => apply Nat.eqb_eq in H
         | H : (_ =? _) = false |- _ => apply Nat.eqb_neq in H
         end.

Lemma disc_simple sf th c a k :
  match th with
  | PTop _ _ | PWait _ _ | PHave _ _ _ | PDone | STop _ | SWait _ | SHave _ _ | SDone
  | BIdle | BHave _ | ITop _ | IHave _ _ | IDrain _ | IDrainHave _ _ | IDone | RDone | WDone => True
  | _ => False
  end ->
  tstep sf th c = Some (a, k) -> disciplined th a k /\ forall t, wf (k t).
Proof.
  intros Hk H. destruct th; try contradiction; destruct c; cbn [tstep] in H; try discriminate;
    step_cases H; cbn; auto.
Qed.

Lemma disc_recv sf th c a k :
  match th with RTop _ _ _ | RFill _ _ _ _ | RDeliver _ _ _ _ | RExit _ _ _ => True | _ => False end ->
  wf th -> tstep sf th c = Some (a, k) -> disciplined th a k /\ forall t, wf (k t).
Proof.
  intros Hk Hwf H. destruct th; try contradiction; destruct c; cbn [tstep] in H; try discriminate;
    step_cases H; cbn [disciplined held wf konst] in *; nat_bools.
  all: try (split; [|intros; try rewrite upd_length; lia]).
  all: try reflexivity.
  all: repeat match goal with H : _ /\ _ |- _ => destruct H end.
  all: try (rewrite (skipn_nth i pk 0) by lia; reflexivity).
  (* RFill: Get *)
  - intros t. rewrite firstn_S_upd by lia. rewrite skipn_upd_lt by lia. perm_count.
  (* RFill: ReadBatch returns k packets *)
  - assert (i = B - nr) by lia. subst i.
    cbn [skipn]. rewrite firstn_skipn. split; [reflexivity|apply incl_refl].
  (* RFill: ReadBatch error *)
  - assert (i = B - nr) by lia. subst i.
    rewrite Nat.sub_diag. cbn [skipn]. rewrite firstn_skipn. split; [reflexivity|apply incl_refl].
  (* RDeliver done -> RTop *)
  - assert (i = k0) by lia. subst.
    replace (length pk - (length pk - k0)) with k0 by lia. reflexivity.
  (* RExit done *)
  - rewrite skipn_all2 by lia. reflexivity.
Qed.

Lemma disc_send sf th c a k :
  match th with
  | WTop _ _ _ _ | WRead _ _ _ _ _ | WWrite _ _ _ _ | WPut _ _ _ _ _ _ | WExit _ _ _ _ _ => True
  | _ => False
  end ->
  wf th -> tstep sf th c = Some (a, k) -> disciplined th a k /\ forall t, wf (k t).
Proof.
  intros Hk Hwf H. destruct th; try contradiction; destruct c; cbn [tstep] in H; try discriminate;
    step_cases H; cbn [disciplined held wf konst] in *; nat_bools.
  all: repeat match goal with H : _ /\ _ |- _ => destruct H end.
  all: split; [|intros; try rewrite upd_length; try rewrite shift_length;
                 repeat split; try lia; try discriminate;
                 try (let HH := fresh in intros HH; apply Nat.eqb_eq in HH; lia)].
  all: try reflexivity.
  (* WRead: receive one more *)
  - intros t. rewrite firstn_S_upd by lia. perm_count.
  (* WWrite *)
  - split; [reflexivity|apply incl_refl].
  (* WPut: return a written packet *)
  - rewrite (skipn_nth i (firstn tw pk) 0) by (rewrite firstn_length; lia).
    rewrite nth_firstn_lt by lia. reflexivity.
  (* WPut: everything written *)
  - assert (i = tw) by lia. subst. rewrite skipn_all2 by (rewrite firstn_length; lia).
    reflexivity.
  (* WPut: drop one, shift the leftovers *)
  - assert (i = w) by lia. subst i.
    rewrite shift_firstn by lia.
    rewrite (skipn_nth w (firstn tw pk) 0) by (rewrite firstn_length; lia).
    rewrite nth_firstn_lt by lia.
    rewrite skipn_firstn_comm. replace (S w) with (w + 1) by lia. reflexivity.
  (* WExit *)
  - rewrite (skipn_nth i (firstn tw pk) 0) by (rewrite firstn_length; lia).
    rewrite nth_firstn_lt by lia. reflexivity.
  - rewrite skipn_all2 by (rewrite firstn_length; lia). reflexivity.
Qed.

Lemma tstep_disciplined sf th c a k :
  wf th -> tstep sf th c = Some (a, k) -> disciplined th a k /\ forall t, wf (k t).
Proof.
  intros Hwf H.
  destruct th;
    first [ eapply disc_simple; [exact I|eassumption]
          | eapply disc_recv; [exact I|eassumption|eassumption]
          | eapply disc_send; [exact I|eassumption|eassumption] ].
Qed.

(** ** The invariant: every buffer is in exactly one place. *)
Definition all_toks (st : state) : list tok := leaked st ++ owned st.

Definition inv (n : nat) (st : state) : Prop :=
  Permutation (all_toks st) (seq 0 n) /\ Forall wf (ths st).

Lemma Forall_upd {A} (P : A -> Prop) i x l : Forall P l -> P x -> Forall P (upd i x l).
Proof.
  intros H Hx. revert i; induction H; intros [|i]; cbn; auto.
Qed.

Lemma Forall_nth_error {A} (P : A -> Prop) l i x : Forall P l -> nth_error l i = Some x -> P x.
Proof. intros H E. rewrite Forall_forall in H. apply H. eapply nth_error_In; eauto. Qed.

Lemma gstep_inv sf n st g c st' es :
  inv n st -> gstep sf st g c = Some (st', es) -> inv n st'.
Proof.
  intros [Hp Hw] H. unfold gstep in H.
  destruct (nth_error (ths st) g) as [th|] eqn:Hth; [|discriminate].
  destruct (tstep sf th c) as [[a k]|] eqn:Ht; [|discriminate].
  destruct (tstep_disciplined _ _ _ _ _ (Forall_nth_error _ _ _ _ Hw Hth) Ht) as [Hd Hwk].
  assert (Hm : nth_error (map held (ths st)) g = Some (held th)) by (now apply map_nth_error).
  unfold inv, all_toks, owned in *.
  destruct a; cbn [disciplined] in Hd.
  - (* ANone *)
    inversion H; subst; clear H. cbn [pool qs ths leaked]. split; [|apply Forall_upd; auto].
    rewrite map_upd. destruct (concat_upd_perm _ g _ (held (k 0)) Hm) as (R & P1 & P2).
    perm_count.
  - (* AUse *)
    inversion H; subst; clear H. cbn [pool qs ths leaked]. split; [|apply Forall_upd; auto].
    destruct Hd as [Hd _].
    rewrite map_upd. destruct (concat_upd_perm _ g _ (held (k 0)) Hm) as (R & P1 & P2).
    perm_count.
  - (* AGet *)
    destruct (pool st) as [|t p'] eqn:Epool; [discriminate|].
    inversion H; subst; clear H. cbn [pool qs ths leaked]. split; [|apply Forall_upd; auto].
    specialize (Hd t).
    rewrite map_upd. destruct (concat_upd_perm _ g _ (held (k t)) Hm) as (R & P1 & P2).
    perm_count.
  - (* ADeq *)
    destruct (nth q (qs st) []) as [|t l'] eqn:Eq; [discriminate|].
    inversion H; subst; clear H. cbn [pool qs ths leaked]. split; [|apply Forall_upd; auto].
    specialize (Hd t).
    assert (Hq : nth_error (qs st) q = Some (t :: l'))
      by (eapply nth_error_of_nth; [exact Eq|discriminate]).
    rewrite map_upd. destruct (concat_upd_perm _ g _ (held (k t)) Hm) as (R & P1 & P2).
    destruct (concat_upd_perm _ q _ l' Hq) as (R' & P3 & P4).
    perm_count.
  - (* APut *)
    inversion H; subst; clear H. cbn [pool qs ths leaked]. split; [|apply Forall_upd; auto].
    rewrite map_upd. destruct (concat_upd_perm _ g _ (held (k 0)) Hm) as (R & P1 & P2).
    perm_count.
  - (* AEnq *)
    destruct (q <? length (qs st)) eqn:Eq; [|discriminate]. apply Nat.ltb_lt in Eq.
    inversion H; subst; clear H. cbn [pool qs ths leaked]. split; [|apply Forall_upd; auto].
    pose proof (nth_error_nth_lt q (qs st) [] Eq) as Hq.
    rewrite map_upd. destruct (concat_upd_perm _ g _ (held (k 0)) Hm) as (R & P1 & P2).
    destruct (concat_upd_perm _ q _ (nth q (qs st) [] ++ [t]) Hq) as (R' & P3 & P4).
    perm_count.
  - (* ALeak *)
    inversion H; subst; clear H. cbn [pool qs ths leaked]. split; [|apply Forall_upd; auto].
    rewrite map_upd. destruct (concat_upd_perm _ g _ (held (k 0)) Hm) as (R & P1 & P2).
    perm_count.
Qed.

Lemma grun_inv sf n sched st st' es :
  inv n st -> grun sf st sched = Some (st', es) -> inv n st'.
Proof.
  revert st es; induction sched as [|[g c] rest IH]; intros st es Hi H; cbn in H.
  - inversion H; subst; auto.
  - destruct (gstep sf st g c) as [[st1 es1]|] eqn:E1; [|discriminate].
    destruct (grun sf st1 rest) as [[st2 es2]|] eqn:E2; [|discriminate].
    inversion H; subst. eapply IH; [|exact E2]. eapply gstep_inv; eauto.
Qed.

Lemma concat_repeat_nil {A} k : concat (repeat (@nil A) k) = [].
Proof. induction k; cbn; auto. Qed.

Lemma initial_held th : initial th -> held th = [] /\ wf th.
Proof.
  destruct th; cbn; try contradiction; auto.
  - intros [Hl ->]. rewrite Nat.sub_0_r. split; [apply skipn_all2; lia|lia].
  - intros [Hl ->]. split; [reflexivity|lia].
Qed.

Lemma init_inv n nq threads : Forall initial threads -> inv n (init_state n nq threads).
Proof.
  intros H. unfold inv, all_toks, owned, init_state; cbn [pool qs ths leaked]. split.
  - rewrite concat_repeat_nil. cbn [app].
    assert (E : concat (map held threads) = []).
    { induction H as [|th l Hth _ IH]; cbn; auto.
      destruct (initial_held _ Hth) as [-> _]. auto. }
    rewrite E, app_nil_r. reflexivity.
  - induction H as [|th l Hth _ IH]; constructor; auto. now destruct (initial_held _ Hth).
Qed.

(** What the invariant means. *)
Lemma inv_nodup n st : inv n st -> NoDup (all_toks st).
Proof. intros [H _]. eapply Permutation_NoDup; [symmetry; exact H|apply seq_NoDup]. Qed.

Lemma inv_once n st t : inv n st -> t < n -> count_occ Nat.eq_dec (all_toks st) t = 1.
Proof.
  intros Hi Ht. pose proof (inv_nodup _ _ Hi) as Hn.
  rewrite (NoDup_count_occ' Nat.eq_dec) in Hn. apply Hn.
  destruct Hi as [Hp _]. eapply Permutation_in; [symmetry; exact Hp|]. apply in_seq. lia.
Qed.

Lemma inv_range n st t : inv n st -> In t (all_toks st) -> t < n.
Proof.
  intros [Hp _] Hin. apply (Permutation_in _ Hp) in Hin. apply in_seq in Hin. lia.
Qed.

Lemma inv_count n st :
  inv n st ->
  length (leaked st) + length (pool st) + length (concat (qs st)) +
  length (concat (map held (ths st))) = n.
Proof.
  intros [Hp _]. apply Permutation_length in Hp. unfold all_toks, owned in Hp.
  rewrite !app_length, seq_length in Hp. lia.
Qed.

(** Without a serialization failure in bfdSend.Send nothing is ever lost. *)
Lemma tstep_no_leak th c t k : tstep false th c = Some (ALeak t, k) -> False.
Proof.
  intros H. destruct th; destruct c; cbn [tstep] in H; try discriminate;
    unfold try_send in H;
    repeat match type of H with
           | context [if ?b then _ else _] => destruct b
           | context [match ?x with _ => _ end] => destruct x
           end; discriminate.
Qed.

Lemma gstep_leaked st g c st' es :
  gstep false st g c = Some (st', es) -> leaked st' = leaked st.
Proof.
  unfold gstep. destruct (nth_error (ths st) g) as [th|]; [|discriminate].
  destruct (tstep false th c) as [[a k]|] eqn:Ht; [|discriminate].
  destruct a; intros H;
    repeat match type of H with
           | context [if ?b then _ else _] => destruct b
           | context [match ?x with _ => _ end] => destruct x
           end; try discriminate; inversion H; subst; auto.
  exfalso. eapply tstep_no_leak; eauto.
Qed.

Lemma grun_leaked sched st st' es :
  grun false st sched = Some (st', es) -> leaked st' = leaked st.
Proof.
  revert st es; induction sched as [|[g c] rest IH]; intros st es H; cbn in H.
  - inversion H; auto.
  - destruct (gstep false st g c) as [[st1 es1]|] eqn:E1; [|discriminate].
    destruct (grun false st1 rest) as [[st2 es2]|] eqn:E2; [|discriminate].
    inversion H; subst. rewrite (IH _ _ E2). eapply gstep_leaked; eauto.
Qed.

(** ** One goroutine on its own: what it obtained is what it gave back. *)
Definition recv_tok (a : action) (t : tok) : tok :=
  match a with AGet | ADeq _ => t | _ => 0 end.
Definition acq_of (a : action) (t : tok) : list tok :=
  match a with AGet | ADeq _ => [t] | _ => [] end.
Definition rel_of (a : action) : list tok :=
  match a with APut t | AEnq t _ => [t] | _ => [] end.
Definition lost_of (a : action) : list tok :=
  match a with ALeak t => [t] | _ => [] end.

(** [lrun sf th acq rel lost th']: goroutine [th] makes some steps of its own,
    obtaining the buffers [acq] (from the pool or a queue, whatever they are),
    returning or enqueueing [rel], dropping [lost], and ends in [th']. *)
Inductive lrun (sf : bool) : thread -> list tok -> list tok -> list tok -> thread -> Prop :=
| lrun_nil th : lrun sf th [] [] [] th
| lrun_step th c a k t acq rel lost th' :
    tstep sf th c = Some (a, k) ->
    lrun sf (k (recv_tok a t)) acq rel lost th' ->
    lrun sf th (acq_of a t ++ acq) (rel_of a ++ rel) (lost_of a ++ lost) th'.

Lemma lrun_balance sf th acq rel lost th' :
  wf th -> lrun sf th acq rel lost th' ->
  wf th' /\ Permutation (acq ++ held th) (rel ++ lost ++ held th').
Proof.
  intros Hwf H. induction H as [th|th c a k t acq rel lost th' Hs Hr IH].
  - split; auto.
  - destruct (tstep_disciplined _ _ _ _ _ Hwf Hs) as [Hd Hwk].
    destruct (IH (Hwk _)) as [Hw' Hp]. split; auto.
    destruct a; cbn [disciplined recv_tok acq_of rel_of lost_of] in *;
      try (destruct Hd as [Hd _]); try specialize (Hd t); perm_count.
Qed.

(** Loop heads at which a goroutine holds nothing. *)
Definition empty_handed (th : thread) : Prop :=
  match th with
  | PTop _ _ | PWait _ _ | PDone | STop _ | SWait _ | SDone | BIdle
  | ITop _ | IDrain _ | IDone | RDone | WDone => True
  | _ => False
  end.

Lemma empty_handed_held th : empty_handed th -> held th = [].
Proof. destruct th; cbn; try contradiction; auto. Qed.

(* ------------------------------------------------------------------ *)
(** * The model's traces are accepted by the monitor *)

Definition loc_ok (st : state) (t : tok) (l : loc) : Prop :=
  match l with
  | InPool => In t (pool st)
  | Held g => exists th, nth_error (ths st) g = Some th /\ In t (held th)
  | InQueue q => In t (nth q (qs st) [])
  | Lost => In t (leaked st)
  end.

Definition sim (n : nat) (st : state) (m : list loc) : Prop :=
  length m = n /\ forall t l, nth_error m t = Some l -> loc_ok st t l.

Lemma count_pos (l : list nat) t : In t l -> 1 <= count_occ Nat.eq_dec l t.
Proof. intros H. apply (count_occ_In Nat.eq_dec) in H. lia. Qed.

Lemma count_concat_one (l : list (list nat)) i a t :
  nth_error l i = Some a -> In t a -> 1 <= count_occ Nat.eq_dec (concat l) t.
Proof.
  intros H Hin. apply count_pos. apply in_concat. exists a; split; auto.
  eapply nth_error_In; eauto.
Qed.

Lemma count_concat_two (l : list (list nat)) i j a b t :
  i <> j -> nth_error l i = Some a -> nth_error l j = Some b -> In t a -> In t b ->
  2 <= count_occ Nat.eq_dec (concat l) t.
Proof.
  revert i j; induction l as [|h l IH]; intros [|i] [|j] Hne Hi Hj Ha Hb; cbn in *;
    try discriminate; try lia; rewrite count_occ_app.
  - inversion Hi; subst. pose proof (count_pos _ _ Ha).
    pose proof (count_concat_one _ _ _ _ Hj Hb). lia.
  - inversion Hj; subst. pose proof (count_pos _ _ Hb).
    pose proof (count_concat_one _ _ _ _ Hi Ha). lia.
  - assert (i <> j) by lia. pose proof (IH _ _ H Hi Hj Ha Hb). lia.
Qed.

Lemma nth_in_error {A} q (l : list (list A)) t :
  In t (nth q l []) -> exists a, nth_error l q = Some a /\ In t a /\ nth q l [] = a.
Proof.
  revert q; induction l as [|h l IH]; intros [|q] H; cbn in *; try contradiction; eauto.
Qed.

Lemma loc_unique n st t l1 l2 :
  inv n st -> loc_ok st t l1 -> loc_ok st t l2 -> l1 = l2.
Proof.
  intros Hi H1 H2.
  assert (Hc : forall l, loc_ok st t l ->
               1 <= count_occ Nat.eq_dec
                      match l with InPool => pool st | Held _ => concat (map held (ths st))
                                 | InQueue _ => concat (qs st) | Lost => leaked st end t).
  { intros [|g|q|] H; cbn in H.
    - now apply count_pos.
    - destruct H as (th & Hth & Hin). eapply count_concat_one; [|exact Hin].
      apply map_nth_error; exact Hth.
    - destruct (nth_in_error _ _ _ H) as (a & Ha & Hin & _). eapply count_concat_one; eauto.
    - now apply count_pos. }
  pose proof (Hc _ H1) as C1. pose proof (Hc _ H2) as C2.
  assert (Hin : In t (all_toks st)).
  { unfold all_toks, owned. destruct l1; cbn in H1.
    - apply in_or_app; right; apply in_or_app; left; auto.
    - destruct H1 as (th & Hth & Hin). apply in_or_app; right; apply in_or_app; right.
      apply in_or_app; right. apply in_concat. exists (held th); split; auto.
      apply in_map. eapply nth_error_In; eauto.
    - destruct (nth_in_error _ _ _ H1) as (a & Ha & Hin & _).
      apply in_or_app; right; apply in_or_app; right; apply in_or_app; left.
      apply in_concat. exists a; split; auto. eapply nth_error_In; eauto.
    - apply in_or_app; left; auto. }
  pose proof (inv_once _ _ _ Hi (inv_range _ _ _ Hi Hin)) as H1c.
  unfold all_toks, owned in H1c. rewrite !count_occ_app in H1c.
  unfold tok, tid, qid in *.
  destruct l1 as [|g1|q1|], l2 as [|g2|q2|]; auto; try lia.
  - (* two goroutines *)
    destruct (Nat.eq_dec g1 g2) as [->|Hne]; auto. exfalso.
    cbn in H1, H2. destruct H1 as (th1 & Ht1 & Hi1), H2 as (th2 & Ht2 & Hi2).
    pose proof (count_concat_two (map held (ths st)) g1 g2 _ _ t Hne
                  (map_nth_error held _ _ Ht1) (map_nth_error held _ _ Ht2) Hi1 Hi2).
    unfold tok, tid, qid in *. lia.
  - (* two queues *)
    destruct (Nat.eq_dec q1 q2) as [->|Hne]; auto. exfalso.
    cbn in H1, H2.
    destruct (nth_in_error _ _ _ H1) as (a1 & Ha1 & Hi1 & _).
    destruct (nth_in_error _ _ _ H2) as (a2 & Ha2 & Hi2 & _).
    pose proof (count_concat_two (qs st) q1 q2 _ _ t Hne Ha1 Ha2 Hi1 Hi2).
    unfold tok, tid, qid in *. lia.
Qed.

Lemma loc_ok_in st t l : loc_ok st t l -> In t (all_toks st).
Proof.
  unfold all_toks, owned. destruct l; cbn; intros H.
  - apply in_or_app; right; apply in_or_app; left; auto.
  - destruct H as (th & Hth & Hin). apply in_or_app; right; apply in_or_app; right.
    apply in_or_app; right. apply in_concat. exists (held th); split; auto.
    apply in_map. eapply nth_error_In; eauto.
  - destruct (nth_in_error _ _ _ H) as (a & Ha & Hin & _).
    apply in_or_app; right; apply in_or_app; right; apply in_or_app; left.
    apply in_concat. exists a; split; auto. eapply nth_error_In; eauto.
  - apply in_or_app; left; auto.
Qed.

Lemma sim_lookup n st m t l :
  inv n st -> sim n st m -> loc_ok st t l -> nth_error m t = Some l.
Proof.
  intros Hi [Hl Hs] H.
  assert (Ht : t < length m).
  { rewrite Hl. eapply inv_range; eauto. eapply loc_ok_in; eauto. }
  destruct (nth_error m t) as [l0|] eqn:E; [|apply nth_error_None in E; lia].
  f_equal. eapply loc_unique; eauto.
Qed.

(** A step that only moves buffer [t]. *)
Definition keeps (t : tok) (A B : list tok) : Prop := forall t', t' <> t -> In t' A -> In t' B.

Lemma keeps_refl t A : keeps t A A.
Proof. intros t' _ H; auto. Qed.

Lemma frame st st' t :
  keeps t (pool st) (pool st') ->
  keeps t (leaked st) (leaked st') ->
  (forall q, keeps t (nth q (qs st) []) (nth q (qs st') [])) ->
  (forall g th, nth_error (ths st) g = Some th ->
                exists th', nth_error (ths st') g = Some th' /\ keeps t (held th) (held th')) ->
  forall t' l, t' <> t -> loc_ok st t' l -> loc_ok st' t' l.
Proof.
  intros Hp Hl Hq Hth t' l Hne H. destruct l; cbn in *.
  - apply Hp; auto.
  - destruct H as (th & Ht & Hin). destruct (Hth _ _ Ht) as (th' & Ht' & Hk).
    exists th'; split; auto.
  - eapply Hq; eauto.
  - apply Hl; auto.
Qed.

Lemma threads_frame (ths0 : list thread) g th th' t :
  nth_error ths0 g = Some th -> keeps t (held th) (held th') ->
  forall g' x, nth_error ths0 g' = Some x ->
               exists x', nth_error (upd g th' ths0) g' = Some x' /\ keeps t (held x) (held x').
Proof.
  intros Hg Hk g' x Hx. destruct (Nat.eq_dec g g') as [<-|Hne].
  - exists th'. split.
    + apply nth_error_upd_eq. apply nth_error_Some. congruence.
    + rewrite Hg in Hx. inversion Hx; subst. auto.
  - exists x. split; [rewrite nth_error_upd_neq; auto|apply keeps_refl].
Qed.

Lemma queues_frame (qs0 : list (list tok)) q newq t :
  keeps t (nth q qs0 []) newq ->
  forall q', keeps t (nth q' qs0 []) (nth q' (upd q newq qs0) []).
Proof.
  intros Hk q'. destruct (Nat.eq_dec q q') as [<-|Hne].
  - destruct (Nat.lt_ge_cases q (length qs0)) as [Hlt|Hge].
    + rewrite nth_upd_eq by auto. auto.
    + rewrite (nth_overflow qs0) by auto. intros t' _ [].
  - rewrite nth_upd_neq by auto. apply keeps_refl.
Qed.

Lemma perm_keeps_add t A B : Permutation B (t :: A) -> keeps t A B.
Proof. intros P t' _ H. eapply Permutation_in; [symmetry; exact P|]. right; auto. Qed.

Lemma perm_keeps_del t A B : Permutation (t :: B) A -> keeps t A B.
Proof.
  intros P t' Hne H. eapply Permutation_in in H; [|symmetry; exact P].
  destruct H; [congruence|auto].
Qed.

Lemma perm_keeps t A B : Permutation B A -> keeps t A B.
Proof. intros P t' _ H. eapply Permutation_in; [symmetry; exact P|auto]. Qed.

Lemma mrun_use m g l :
  (forall t, In t l -> nth_error m t = Some (Held g)) ->
  mrun m (map (fun t => EUse t g) l) = Some m.
Proof.
  induction l as [|t l IH]; intros H; cbn; auto.
  rewrite (H t) by (left; auto). rewrite Nat.eqb_refl. apply IH. intros; apply H; right; auto.
Qed.

(** Installing the new location of the moved buffer. *)
Lemma sim_move n st st' m t newl :
  sim n st m -> t < n ->
  loc_ok st' t newl ->
  (forall t' l, t' <> t -> loc_ok st t' l -> loc_ok st' t' l) ->
  sim n st' (upd t newl m).
Proof.
  intros [Hl Hs] Ht Hnew Hfr. split; [rewrite upd_length; auto|].
  intros t' l H. destruct (Nat.eq_dec t t') as [<-|Hne].
  - rewrite nth_error_upd_eq in H by lia. inversion H; subst; auto.
  - rewrite nth_error_upd_neq in H by auto. apply Hfr; auto.
Qed.

Lemma gstep_sim sf n st g c st' es m :
  inv n st -> sim n st m -> gstep sf st g c = Some (st', es) ->
  exists m', mrun m es = Some m' /\ sim n st' m'.
Proof.
  intros Hi Hs H. pose proof Hi as [Hp Hw]. unfold gstep in H.
  destruct (nth_error (ths st) g) as [th|] eqn:Hth; [|discriminate].
  destruct (tstep sf th c) as [[a k]|] eqn:Ht; [|discriminate].
  destruct (tstep_disciplined _ _ _ _ _ (Forall_nth_error _ _ _ _ Hw Hth) Ht) as [Hd _].
  assert (Hheld : forall t, In t (held th) -> nth_error m t = Some (Held g)).
  { intros t Hin. eapply sim_lookup; eauto. cbn. eauto. }
  assert (Hrange : forall t l, loc_ok st t l -> t < n).
  { intros t l Hl. eapply inv_range; eauto. eapply loc_ok_in; eauto. }
  destruct a; cbn [disciplined] in Hd.
  - (* ANone *)
    inversion H; subst; clear H. exists m. split; [reflexivity|].
    destruct Hs as [Hl Hs]. split; auto. intros t l Hm. specialize (Hs _ _ Hm).
    destruct l; cbn in *; auto.
    destruct Hs as (x & Hx & Hin).
    destruct (threads_frame (ths st) g th (k 0) n Hth (perm_keeps _ _ _ Hd) _ _ Hx)
      as (x' & Hx' & Hk).
    exists x'; split; auto. destruct (Nat.eq_dec g g0) as [<-|Hne].
    + rewrite nth_error_upd_eq in Hx' by (apply nth_error_Some; congruence).
      inversion Hx'; subst. rewrite Hth in Hx. inversion Hx; subst.
      eapply Permutation_in; [symmetry; exact Hd|auto].
    + rewrite nth_error_upd_neq in Hx' by auto. congruence.
  - (* AUse *)
    destruct Hd as [Hd Hincl]. inversion H; subst; clear H. exists m. split.
    + apply mrun_use. intros t Hin. apply Hheld. apply Hincl; auto.
    + destruct Hs as [Hl Hs]. split; auto. intros t l' Hm. specialize (Hs _ _ Hm).
      destruct l'; cbn in *; auto.
      destruct Hs as (x & Hx & Hin). destruct (Nat.eq_dec g g0) as [<-|Hne].
      * exists (k 0). split; [apply nth_error_upd_eq; apply nth_error_Some; congruence|].
        rewrite Hth in Hx. inversion Hx; subst.
        eapply Permutation_in; [symmetry; exact Hd|auto].
      * exists x. split; [rewrite nth_error_upd_neq; auto|auto].
  - (* AGet *)
    destruct (pool st) as [|t p'] eqn:Epool; [discriminate|].
    inversion H; subst; clear H. specialize (Hd t).
    assert (Hin : loc_ok st t InPool) by (cbn; rewrite Epool; left; auto).
    exists (upd t (Held g) m). split.
    + cbn. rewrite (sim_lookup _ _ _ _ _ Hi Hs Hin). reflexivity.
    + apply (sim_move n st); eauto.
      * cbn. exists (k t). split; [apply nth_error_upd_eq; apply nth_error_Some; congruence|].
        eapply Permutation_in; [symmetry; exact Hd|left; auto].
      * apply frame; cbn [pool qs ths leaked].
        -- rewrite Epool. intros t' Hne [E|E]; [congruence|auto].
        -- apply keeps_refl.
        -- intros q. apply keeps_refl.
        -- apply (threads_frame _ _ _ _ _ Hth). apply perm_keeps_add; auto.
  - (* ADeq *)
    destruct (nth q (qs st) []) as [|t l'] eqn:Eq; [discriminate|].
    inversion H; subst; clear H. specialize (Hd t).
    assert (Hin : loc_ok st t (InQueue q)) by (cbn; rewrite Eq; left; auto).
    exists (upd t (Held g) m). split.
    + cbn. rewrite (sim_lookup _ _ _ _ _ Hi Hs Hin). rewrite Nat.eqb_refl. reflexivity.
    + apply (sim_move n st); eauto.
      * cbn. exists (k t). split; [apply nth_error_upd_eq; apply nth_error_Some; congruence|].
        eapply Permutation_in; [symmetry; exact Hd|left; auto].
      * apply frame; cbn [pool qs ths leaked].
        -- apply keeps_refl.
        -- apply keeps_refl.
        -- apply queues_frame. rewrite Eq. intros t' Hne [E|E]; [congruence|auto].
        -- apply (threads_frame _ _ _ _ _ Hth). apply perm_keeps_add; auto.
  - (* APut *)
    inversion H; subst; clear H.
    assert (Hin : In t (held th)) by (eapply Permutation_in; [exact Hd|left; auto]).
    exists (upd t InPool m). split.
    + cbn. rewrite (Hheld _ Hin). rewrite Nat.eqb_refl. reflexivity.
    + apply (sim_move n st); auto.
      * apply (Hrange t (Held g)). cbn; eauto.
      * cbn. apply in_or_app; right; left; auto.
      * apply frame; cbn [pool qs ths leaked].
        -- intros t' _ Hp'. apply in_or_app; auto.
        -- apply keeps_refl.
        -- intros q. apply keeps_refl.
        -- apply (threads_frame _ _ _ _ _ Hth). apply perm_keeps_del; auto.
  - (* AEnq *)
    destruct (q <? length (qs st)) eqn:Eq; [|discriminate]. apply Nat.ltb_lt in Eq.
    inversion H; subst; clear H.
    assert (Hin : In t (held th)) by (eapply Permutation_in; [exact Hd|left; auto]).
    exists (upd t (InQueue q) m). split.
    + cbn. rewrite (Hheld _ Hin). rewrite Nat.eqb_refl. reflexivity.
    + apply (sim_move n st); auto.
      * apply (Hrange t (Held g)). cbn; eauto.
      * cbn. rewrite nth_upd_eq by auto. apply in_or_app; right; left; auto.
      * apply frame; cbn [pool qs ths leaked].
        -- apply keeps_refl.
        -- apply keeps_refl.
        -- apply queues_frame. intros t' _ Hq'. apply in_or_app; auto.
        -- apply (threads_frame _ _ _ _ _ Hth). apply perm_keeps_del; auto.
  - (* ALeak *)
    inversion H; subst; clear H.
    assert (Hin : In t (held th)) by (eapply Permutation_in; [exact Hd|left; auto]).
    exists (upd t Lost m). split.
    + cbn. rewrite (Hheld _ Hin). rewrite Nat.eqb_refl. reflexivity.
    + apply (sim_move n st); auto.
      * apply (Hrange t (Held g)). cbn; eauto.
      * cbn. left; auto.
      * apply frame; cbn [pool qs ths leaked].
        -- apply keeps_refl.
        -- intros t' _ Hl'. right; auto.
        -- intros q. apply keeps_refl.
        -- apply (threads_frame _ _ _ _ _ Hth). apply perm_keeps_del; auto.
Qed.

Lemma grun_sim sf n sched st st' es m :
  inv n st -> sim n st m -> grun sf st sched = Some (st', es) ->
  exists m', mrun m es = Some m' /\ sim n st' m'.
Proof.
  revert st es m; induction sched as [|[g c] rest IH]; intros st es m Hi Hs H; cbn in H.
  - inversion H; subst. exists m; split; auto.
  - destruct (gstep sf st g c) as [[st1 es1]|] eqn:E1; [|discriminate].
    destruct (grun sf st1 rest) as [[st2 es2]|] eqn:E2; [|discriminate].
    inversion H; subst; clear H.
    destruct (gstep_sim _ _ _ _ _ _ _ _ Hi Hs E1) as (m1 & R1 & S1).
    destruct (IH _ _ _ (gstep_inv _ _ _ _ _ _ _ Hi E1) S1 E2) as (m2 & R2 & S2).
    exists m2. split; auto. rewrite mrun_app, R1. auto.
Qed.

Lemma init_sim n nq threads : sim n (init_state n nq threads) (minit n).
Proof.
  unfold minit. split; [apply repeat_length|].
  intros t l H.
  assert (Ht : t < n).
  { rewrite <- (repeat_length InPool n). apply nth_error_Some. congruence. }
  rewrite nth_error_repeat in H by auto. inversion H; subst. cbn. apply in_seq. lia.
Qed.

(** Every trace of the model is accepted by the monitor. *)
Lemma model_accepted sf n nq threads sched st es :
  Forall initial threads ->
  grun sf (init_state n nq threads) sched = Some (st, es) ->
  accepts n es = true.
Proof.
  intros Hin H.
  destruct (grun_sim _ _ _ _ _ _ _ (init_inv n nq threads Hin) (init_sim n nq threads) H)
    as (m' & R & _).
  unfold accepts. now rewrite R.
Qed.

Lemma lrun_no_lost th acq rel lost th' : lrun false th acq rel lost th' -> lost = [].
Proof.
  induction 1 as [|th c a k t acq rel lost th' Hs _ IH]; auto.
  subst. destruct a; cbn; auto. exfalso. eapply tstep_no_leak; eauto.
Qed.

Lemma NoDup_app_tail {A} (a b : list A) : NoDup (a ++ b) -> NoDup b.
Proof. induction a; cbn; auto. intros H. inversion H; auto. Qed.
