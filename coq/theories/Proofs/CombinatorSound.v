(** Soundness of the combinator model w.r.t. the declarative specification:
    the interface sequence of every chain of graph edges (every solution) is a
    valid combination, for validated segments without wildcard ISD-AS. *)
From Coq Require Import List NArith Bool Arith Lia.
From Scion Require Import Lib.Check Model.Segment Model.CombSpec Model.Combinator.
From Scion Require Import Proofs.CombinatorGraph Proofs.CombinatorRender Proofs.CombinatorFilter
  Proofs.CombinatorPaths Proofs.CombinatorIfs Proofs.CombSpec Proofs.CombinatorSpec.
Import ListNotations.
Import Segment Combinator.
Local Open Scope N_scope.

Lemma vlink_ia l z : vlink l = v_ia z -> fst (fst (fst l)) = 0 /\ snd (fst l) = 0.
Proof.
  destruct l as [[[a i] b] j]. unfold vlink, v_peer, v_ia. intros H. inversion H. cbn. auto.
Qed.

Ltac vcontra :=
  exfalso;
  match goal with
  | H1 : ?v = vlink ?l, H2 : ?v = v_ia ?z, N : fst (fst (fst ?l)) <> 0 |- _ =>
    rewrite H1 in H2; apply vlink_ia in H2 as [? ?]; contradiction
  | H1 : ?v = vlink ?l, H2 : ?v = v_ia ?z, N : snd (fst ?l) <> 0 |- _ =>
    rewrite H1 in H2; apply vlink_ia in H2 as [? ?]; contradiction
  | H1 : ?v = vlink ?l, H2 : ?w = v_ia ?z, E : ?w = ?v, N : fst (fst (fst ?l)) <> 0 |- _ =>
    rewrite E, H1 in H2; apply vlink_ia in H2 as [? ?]; contradiction
  | H1 : ?v = vlink ?l, H2 : ?w = v_ia ?z, E : ?w = ?v, N : snd (fst ?l) <> 0 |- _ =>
    rewrite E, H1 in H2; apply vlink_ia in H2 as [? ?]; contradiction
  | H1 : ?v = vlink ?l, H2 : ?w = v_ia ?z, E : ?v = ?w, N : fst (fst (fst ?l)) <> 0 |- _ =>
    rewrite <- E, H1 in H2; apply vlink_ia in H2 as [? ?]; contradiction
  | H1 : ?v = vlink ?l, H2 : ?w = v_ia ?z, E : ?v = ?w, N : snd (fst ?l) <> 0 |- _ =>
    rewrite <- E, H1 in H2; apply vlink_ia in H2 as [? ?]; contradiction
  end.

Ltac vi := apply v_ia_inj; congruence.

Theorem chain_sound ups cores downs src dst es :
  valid_input (segs_of ups) (segs_of cores) (segs_of downs) = true ->
  is_chain (insegs ups cores downs) src dst es ->
  valid_combination (segs_of ups) (segs_of cores) (segs_of downs) src dst (sol_ifs es).
Proof.
  intros V Hc. unfold is_chain in Hc.
  pose proof (chain_from_segs _ _ _ _ _ Hc) as Hf.
  assert (Hcls : Forall (edge_class (segs_of ups) (segs_of cores) (segs_of downs)) es).
  { eapply Forall_impl; [|exact Hf]. intros e. now apply classify. }
  pose proof (chain_types _ _ _ _ _ Hc) as Hty. pose proof (chain_nonempty _ _ _ _ _ Hc) as Hne.
  pose proof (types_ok_cases es Hty Hne) as Cases. clear Hf Hty Hne.
  unfold sol_ifs.
  destruct es as [|e1 [|e2 [|e3 [|e4 t]]]]; cbn [map] in Cases;
    try (repeat destruct Cases as [Cases|Cases]; discriminate).
  - (* one edge *)
    cbn [chain] in Hc. destruct Hc as [_ [Hs1 [_ Hd1]]].
    inversion Hcls as [|? ? C1 _]; subst. cbn [flat_map]. rewrite app_nil_r.
    destruct C1 as [u p T1 Hu Hp S1 D1 I1 | c p T1 Hu Hp S1 D1 I1 | d p T1 Hu Hp S1 D1 I1
                   | u x T1 Hu Hx S1 D1 I1 N1 | d y T1 Hd Hy S1 D1 I1 N1]; rewrite I1.
    + eapply VC_up; eauto; vi.
    + eapply VC_core; eauto; vi.
    + eapply VC_down; eauto; vi.
    + vcontra.
    + vcontra.
  - (* two edges *)
    cbn [chain] in Hc. destruct Hc as [_ [Hs1 [_ [_ [_ [Hs2 [_ Hd2]]]]]]].
    inversion Hcls as [|? ? C1 Hcls']; subst. inversion Hcls' as [|? ? C2 _]; subst.
    cbn [flat_map]. rewrite app_nil_r.
    assert (Ty : (ety e1 = Up /\ ety e2 = CoreT) \/ (ety e1 = Up /\ ety e2 = Down) \/ (ety e1 = CoreT /\ ety e2 = Down)).
    { repeat destruct Cases as [Cases|Cases]; inversion Cases; auto. }
    clear Cases.
    destruct C1 as [u p T1 Hu Hp S1 D1 I1 | c p T1 Hu Hp S1 D1 I1 | d p T1 Hu Hp S1 D1 I1
                   | u x T1 Hu Hx S1 D1 I1 N1 | d y T1 Hd Hy S1 D1 I1 N1];
    destruct C2 as [u' p' T2 Hu' Hp' S2 D2 I2 | c' p' T2 Hu' Hp' S2 D2 I2 | d' p' T2 Hu' Hp' S2 D2 I2
                   | u' x' T2 Hu' Hx' S2 D2 I2 N2 | d' y' T2 Hd' Hy' S2 D2 I2 N2];
    try (exfalso; destruct Ty as [[? ?]|[[? ?]|[? ?]]]; congruence); rewrite I1, I2.
    + eapply VC_up_core; eauto; vi.
    + eapply VC_up_down; eauto; vi.
    + vcontra.
    + eapply VC_core_down; eauto; vi.
    + vcontra.
    + vcontra.
    + vcontra.
    + eapply VC_peering; eauto; try vi. apply vlink_inj. congruence.
  - (* three edges *)
    cbn [chain] in Hc. destruct Hc as [_ [Hs1 [_ [_ [_ [Hs2 [_ [_ [_ [Hs3 [_ Hd3]]]]]]]]]]].
    inversion Hcls as [|? ? C1 Hcls']; subst. inversion Hcls' as [|? ? C2 Hcls'']; subst.
    inversion Hcls'' as [|? ? C3 _]; subst.
    cbn [flat_map]. rewrite app_nil_r.
    assert (Ty : ety e1 = Up /\ ety e2 = CoreT /\ ety e3 = Down).
    { repeat destruct Cases as [Cases|Cases]; inversion Cases; auto. }
    clear Cases. destruct Ty as [Ty1 [Ty2 Ty3]].
    destruct C1 as [u p T1 Hu Hp S1 D1 I1 | c p T1 Hu Hp S1 D1 I1 | d p T1 Hu Hp S1 D1 I1
                   | u x T1 Hu Hx S1 D1 I1 N1 | d y T1 Hd Hy S1 D1 I1 N1]; try congruence;
    destruct C2 as [u' p' T2 Hu' Hp' S2 D2 I2 | c' p' T2 Hu' Hp' S2 D2 I2 | d' p' T2 Hu' Hp' S2 D2 I2
                   | u' x' T2 Hu' Hx' S2 D2 I2 N2 | d' y' T2 Hd' Hy' S2 D2 I2 N2]; try congruence;
    destruct C3 as [u'' p'' T3 Hu'' Hp'' S3 D3 I3 | c'' p'' T3 Hu'' Hp'' S3 D3 I3 | d'' p'' T3 Hu'' Hp'' S3 D3 I3
                   | u'' x'' T3 Hu'' Hx'' S3 D3 I3 N3 | d'' y'' T3 Hd'' Hy'' S3 D3 I3 N3]; try congruence;
    rewrite I1, I2, I3.
    + eapply VC_up_core_down; eauto; vi.
    + vcontra.
    + vcontra.
    + vcontra.
Qed.
