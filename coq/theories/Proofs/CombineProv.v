(** C02, layer 3: the solutions of the path combinator without peering edges, over
    beaconed segments, are provenance paths. *)
From Coq Require Import List NArith Bool Arith Lia.
From Scion Require Import Lib.Check Model.Router Model.Network Model.Prov.
From Scion Require Import Model.Segment Model.SegID Model.CombSpec Model.Combinator Model.CombProv.
From Scion Require Import Proofs.SegID.
From Scion Require Import Proofs.CombinatorGraph Proofs.CombinatorRender Proofs.CombinatorPaths
  Proofs.CombinatorIfs.
From Scion Require Import Proofs.ProvStruct Proofs.ProvRender Proofs.ForwardView Proofs.ProvFacts
  Proofs.ProvSlices.
Import ListNotations.
Import CombProv.
Import Segment CombSpec Combinator.
Local Open Scope N_scope.

(** * Lists *)
Lemma skipn_seq_nth {A} (d : A) : forall l k,
  skipn k l = map (fun i => nth i l d) (seq k (length l - k)).
Proof.
  assert (Z : forall l : list A, l = map (fun i => nth i l d) (seq 0 (length l))).
  { induction l as [|x l IH]; [reflexivity|]. cbn [length seq map nth]. f_equal.
    rewrite <- seq_shift, map_map. exact IH. }
  intros l k. revert l. induction k as [|k IH]; intros l.
  - cbn [skipn]. rewrite Nat.sub_0_r. apply Z.
  - destruct l as [|x l]; [reflexivity|]. cbn [skipn length Nat.sub].
    rewrite IH, <- seq_shift, map_map. reflexivity.
Qed.

Lemma nth_error_map_seq' {A} (f : nat -> A) s c i : (i < c)%nat -> nth_error (map f (seq s c)) i = Some (f (s + i)%nat).
Proof.
  intros H. erewrite map_nth_error; [reflexivity|].
  rewrite (nth_error_nth' _ 0%nat) by now rewrite seq_length. now rewrite seq_nth.
Qed.

Lemma fold_lxor_map {A} (f : A -> N) : forall l b,
  fold_left (fun b a => N.lxor b (f a)) l b = fold_left N.lxor (map f l) b.
Proof. induction l as [|a l IH]; intros b; [reflexivity|]. cbn [fold_left map]. apply IH. Qed.

(** * One non-peering edge *)
Definition nopeer (e : edge) : Prop := e_peer e = 0%nat.

Lemma calc_beta_at e : (beta_index e <= length (entries e))%nat ->
  calc_beta e = beta_at (is_seg (e_seg e)) (beta_index e).
Proof.
  intros H. unfold calc_beta, beta_at, sigmas. rewrite fold_lxor_map, <- firstn_map.
  fold (SegID.extract_beta (sg_segid (is_seg (e_seg e)))
          (firstn (beta_index e) (map (fun a => mac16 (h_mac (ae_hop a))) (sg_entries (is_seg (e_seg e)))))).
  apply extract_beta_firstn. now rewrite map_length.
Qed.

(** the hop fields of the rendered slice are the regular hop fields from the cut on *)
Lemma edge_hops_nopeer e : edge_good e -> nopeer e ->
  edge_hops e = map reg (if is_down e then skipn (e_sc e) (entries e) else rev (skipn (e_sc e) (entries e))).
Proof.
  intros [c [Hc _]] Np. unfold nopeer in Np.
  assert (Ec : edge_cut e = c) by (unfold edge_cut; now apply nth_error_nth).
  pose proof (skipn_cut _ _ _ Hc) as Hs. fold (edge_rest e) in Hs.
  assert (T : trav_hops e = map reg (rev (skipn (e_sc e) (entries e)))).
  { unfold trav_hops, cut_hop. rewrite Np, Ec, Hs. cbn [rev]. rewrite map_app. reflexivity. }
  unfold edge_hops. rewrite T. destruct (is_down e); [|reflexivity].
  now rewrite <- map_rev, rev_involutive.
Qed.

Definition proj_hop (h : Prov.phop) : N * hopf :=
  (Prov.ph_ia h, mkHop (Prov.ph_in h) (Prov.ph_eg h) (Prov.ph_exp h) (Prov.ph_mac h)).

Lemma proj_ph_of s i a : proj_hop (ph_of s i a) = reg a.
Proof. unfold proj_hop, ph_of, reg. cbn. destruct (ae_hop a); reflexivity. Qed.

Lemma cons_hops_proj e : map proj_hop (cons_hops e) = map reg (skipn (e_sc e) (entries e)).
Proof.
  unfold cons_hops. fold (entries e). rewrite map_map, (skipn_seq_nth dflt_entry), map_map.
  apply map_ext. intros i. apply proj_ph_of.
Qed.

Lemma slice_hops_proj e : edge_good e -> nopeer e ->
  map proj_hop (Prov.sl_hops (pslice_of e)) = edge_hops e.
Proof.
  intros G Np. rewrite (edge_hops_nopeer e G Np). unfold pslice_of. cbn [Prov.sl_hops].
  destruct (is_down e).
  - apply cons_hops_proj.
  - now rewrite map_rev, cons_hops_proj, map_rev.
Qed.

Lemma cons_hops_length e : length (cons_hops e) = (length (entries e) - e_sc e)%nat.
Proof. unfold cons_hops. now rewrite map_length, seq_length. Qed.

Lemma slice_hops_length e : length (Prov.sl_hops (pslice_of e)) = (length (entries e) - e_sc e)%nat.
Proof.
  unfold pslice_of. cbn [Prov.sl_hops]. destruct (is_down e); [|rewrite rev_length]; apply cons_hops_length.
Qed.

Lemma cons_hops_nth e i : (i < length (entries e) - e_sc e)%nat ->
  nth_error (cons_hops e) i =
  Some (ph_of (is_seg (e_seg e)) (e_sc e + i) (nth (e_sc e + i) (entries e) dflt_entry)).
Proof. intros H. unfold cons_hops. fold (entries e). now rewrite nth_error_map_seq'. Qed.

(** hop [i] of the slice in traversal order: its construction index *)
Definition cidx (e : edge) (i : nat) : nat :=
  if is_down e then (e_sc e + i)%nat else (length (entries e) - 1 - i)%nat.

Lemma slice_hops_nth e i : (i < length (entries e) - e_sc e)%nat ->
  nth_error (Prov.sl_hops (pslice_of e)) i =
  Some (ph_of (is_seg (e_seg e)) (cidx e i) (nth (cidx e i) (entries e) dflt_entry)).
Proof.
  intros H. unfold pslice_of, cidx. cbn [Prov.sl_hops]. destruct (is_down e).
  - now apply cons_hops_nth.
  - rewrite (nth_error_nth' _ Prov.dhop) by (rewrite rev_length, cons_hops_length; lia).
    rewrite rev_nth by (rewrite cons_hops_length; lia). rewrite cons_hops_length.
    rewrite (nth_error_nth (cons_hops e) _ Prov.dhop (cons_hops_nth e (length (entries e) - e_sc e - S i) ltac:(lia))).
    replace (e_sc e + (length (entries e) - e_sc e - S i))%nat with (length (entries e) - 1 - i)%nat by lia.
    reflexivity.
Qed.

Lemma cidx_range e i : (i < length (entries e) - e_sc e)%nat ->
  (e_sc e <= cidx e i)%nat /\ (cidx e i < length (entries e))%nat.
Proof. intros H. unfold cidx. destruct (is_down e); lia. Qed.

Lemma cidx_next e i : (S i < length (entries e) - e_sc e)%nat ->
  if is_down e then cidx e (S i) = S (cidx e i) else cidx e i = S (cidx e (S i)).
Proof. intros H. unfold cidx. destruct (is_down e); lia. Qed.

(** * Beaconed segments give the slice-level conditions *)
Module R := Scion.Model.Router.Router.
Module Nw := Scion.Model.Network.Network.

Lemma mac16_prefix m : length m = 6%nat -> mac16 m = R.mac_prefix m.
Proof. destruct m as [|a [|b r]]; cbn [length]; intros H; try lia. reflexivity. Qed.

Lemma wf_fields_mac_len s a : wf_fields s = true -> In a (sg_entries s) -> length (h_mac (ae_hop a)) = 6%nat.
Proof.
  unfold wf_fields. intros H Ha. apply andb_true_iff in H as [_ H]. rewrite forallb_forall in H.
  specialize (H a Ha). unfold wf_entry in H. do 3 (apply andb_true_iff in H as [H _]).
  unfold wf_hop in H. apply andb_true_iff in H as [H _]. apply andb_true_iff in H as [_ H].
  now apply Nat.eqb_eq.
Qed.

Lemma sigmas_nth s c : nth c (sigmas s) 0 = mac16 (h_mac (ae_hop (nth c (sg_entries s) dflt_entry))).
Proof. unfold sigmas. change 0 with ((fun a => mac16 (h_mac (ae_hop a))) dflt_entry). apply map_nth. Qed.

Lemma beta_at_S s c : (c < length (sg_entries s))%nat ->
  beta_at s (S c) = N.lxor (beta_at s c) (mac16 (h_mac (ae_hop (nth c (sg_entries s) dflt_entry)))).
Proof.
  intros H. unfold beta_at. rewrite beta_S by (unfold sigmas; now rewrite map_length). now rewrite sigmas_nth.
Qed.

Section Beaconed.
Variable mac : N -> N -> N -> N -> N -> N -> list N.
Variable t : Nw.topology.
Hypothesis Hwt : Nw.wf_topo t = true.

(** the far end of a link (no assumption on link state) *)
Lemma far a x f :
  Nw.find_as t (Nw.a_ia a) = Some a -> Nw.find_nif (Nw.a_ifs a) x = Some f ->
  exists b g, Nw.find_as t (Nw.ni_nbr f) = Some b /\ Nw.find_nif (Nw.a_ifs b) (Nw.ni_remote f) = Some g /\
    Nw.mirrored (Nw.ni_lt f) (Nw.ni_lt g) = true /\ Nw.ni_nbr g = Nw.a_ia a /\ Nw.ni_remote g = x /\
    x <> 0 /\ Nw.ni_remote f <> 0.
Proof.
  intros Ha Hf. destruct (find_as_ia _ _ _ Ha) as [_ Ia]. destruct (find_nif_id _ _ _ Hf) as [Ix If].
  pose proof (nif_ok_in t Hwt a f Ia If) as K. unfold Nw.nif_ok in K.
  apply andb_true_iff in K as [K K2]. apply andb_true_iff in K as [K0 _].
  destruct (Nw.find_as t (Nw.ni_nbr f)) as [b|] eqn:Eb; [|discriminate].
  apply andb_true_iff in K2 as [_ K2].
  destruct (Nw.find_nif (Nw.a_ifs b) (Nw.ni_remote f)) as [g|] eqn:Eg; [|discriminate].
  apply andb_true_iff in K2 as [K2 M]. apply andb_true_iff in K2 as [K3 K4].
  apply N.eqb_eq in K3, K4.
  exists b, g. repeat split; try assumption.
  - now rewrite K4.
  - subst x. now apply N.eqb_neq, negb_true_iff.
  - destruct (find_as_ia _ _ _ Eb) as [_ Ib]. destruct (find_nif_id _ _ _ Eg) as [Ig Igl].
    pose proof (nif_ok_in t Hwt b g Ib Igl) as K'. unfold Nw.nif_ok in K'.
    apply andb_true_iff in K' as [K' _]. apply andb_true_iff in K' as [K' _].
    rewrite Ig in K'. now apply N.eqb_neq, negb_true_iff.
Qed.

Variable e : edge.
Notation s := (is_seg (e_seg e)).
Notation es := (entries e).
Definition is_core (e0 : edge) : bool := match is_ty (e_seg e0) with CoreT => true | _ => false end.
Hypothesis HB : beaconed mac t (is_core e) s.
Hypothesis HG : edge_good e.
Hypothesis HN : nopeer e.
Notation sl := (pslice_of e).
Notation m := (length es - e_sc e)%nat.

Lemma entry_at c : (c < length es)%nat -> entry_ok mac t (is_core e) s c (nth c es dflt_entry).
Proof. intros H. destruct HB as (_ & _ & _ & B). apply B. now apply nth_error_nth'. Qed.

Lemma mac_len_at c : (c < length es)%nat -> length (h_mac (ae_hop (nth c es dflt_entry))) = 6%nat.
Proof. intros H. destruct HB as (_ & W & _). apply (wf_fields_mac_len s); [exact W|]. now apply nth_In. Qed.

Lemma down_not_core : is_down e = true -> is_core e = false.
Proof. unfold is_down, is_core. destruct (is_ty (e_seg e)); cbn; congruence. Qed.

Lemma slice_hop_good h : In h (Prov.sl_hops sl) -> hop_good mac t sl h.
Proof.
  intros Hin. apply In_nth_error in Hin as [i Hi].
  assert (Li : (i < m)%nat).
  { rewrite <- slice_hops_length. apply nth_error_Some. congruence. }
  rewrite (slice_hops_nth e i Li) in Hi. inversion Hi; subst h. clear Hi.
  destruct (cidx_range e i Li) as [_ Hc].
  destruct (entry_at _ Hc) as ((a & Fa & M) & _).
  exists a. split; [exact Fa|]. exact M.
Qed.

Lemma slice_pair_good i h h' :
  nth_error (Prov.sl_hops sl) i = Some h -> nth_error (Prov.sl_hops sl) (S i) = Some h' ->
  pair_good t sl h h'.
Proof.
  intros Hi Hi'.
  assert (Li' : (S i < m)%nat).
  { rewrite <- slice_hops_length. apply nth_error_Some. congruence. }
  assert (Li : (i < m)%nat) by lia.
  rewrite (slice_hops_nth e i Li) in Hi. rewrite (slice_hops_nth e (S i) Li') in Hi'.
  inversion Hi; subst h. inversion Hi'; subst h'. clear Hi Hi'.
  destruct (cidx_range e i Li) as [_ Hc]. destruct (cidx_range e (S i) Li') as [_ Hc'].
  pose proof (cidx_next e i Li') as Nx.
  unfold pair_good, s_tr_eg, s_tr_in, base_of.
  change (Prov.sl_consdir (pslice_of e)) with (is_down e).
  change (Prov.sl_kind (pslice_of e)) with (match is_ty (e_seg e) with CoreT => Prov.KCore | _ => Prov.KIntra end).
  destruct (is_down e) eqn:D.
  - (* construction direction *)
    rewrite Nx. set (c := cidx e i) in *.
    split.
    + unfold ph_of. cbn [Prov.ph_beta Prov.ph_mac]. rewrite beta_at_S by exact Hc.
      now rewrite mac16_prefix by now apply mac_len_at.
    + destruct (entry_at _ Hc) as (_ & _ & L).
      rewrite (nth_error_nth' es dflt_entry) in L by lia.
      destruct L as (a & f & Fa & Ff & Lt & Nb & Rm).
      exists a, f. unfold ph_of. cbn [Prov.ph_ia Prov.ph_eg Prov.ph_in].
      repeat split; try assumption. rewrite Lt, (down_not_core D).
      unfold is_down in D. destruct (is_ty (e_seg e)); cbn in D; try discriminate. reflexivity.
  - (* against construction direction *)
    rewrite Nx. set (c := cidx e (S i)) in *.
    assert (Hcc : (c < length es)%nat) by exact Hc'.
    split.
    + unfold ph_of. cbn [Prov.ph_beta Prov.ph_mac]. rewrite (beta_at_S s c) by exact Hcc.
      rewrite mac16_prefix by now apply mac_len_at.
      now rewrite N.lxor_assoc, N.lxor_nilpotent, N.lxor_0_r.
    + destruct (entry_at _ Hcc) as (_ & _ & L).
      rewrite (nth_error_nth' es dflt_entry) in L by lia.
      destruct L as (a & f & Fa & Ff & Lt & Nb & Rm).
      destruct (find_as_ia _ _ _ Fa) as [Ia _].
      destruct (far a _ f ltac:(now rewrite Ia) Ff) as (b & g & Fb & Fg & Mi & Gn & Gr & _).
      exists b, g. unfold ph_of. cbn [Prov.ph_ia Prov.ph_eg Prov.ph_in].
      rewrite Nb in Fb. rewrite Rm in Fg. rewrite Ia in Gn.
      repeat split; try assumption.
      apply mirrored_mirror in Mi. rewrite Mi, Lt.
      unfold is_core. destruct (is_ty (e_seg e)); reflexivity.
Qed.

End Beaconed.

(** * The edges of a solution *)
Lemma np_tuple s e : tuple_of s e -> nopeer e ->
  e_seg e = s /\
  ((is_ty s = CoreT /\ e_sc e = 0%nat /\ e_src e = v_ia (last_ia (is_seg s)) /\ e_dst e = v_ia (first_ia (is_seg s))) \/
   (is_ty s = Up /\ (S (e_sc e) < length (sg_entries (is_seg s)))%nat /\
    e_src e = v_ia (last_ia (is_seg s)) /\ e_dst e = v_ia (ae_ia (nth (e_sc e) (sg_entries (is_seg s)) dflt_entry))) \/
   (is_ty s = Down /\ (S (e_sc e) < length (sg_entries (is_seg s)))%nat /\
    e_src e = v_ia (ae_ia (nth (e_sc e) (sg_entries (is_seg s)) dflt_entry)) /\ e_dst e = v_ia (last_ia (is_seg s)))).
Proof.
  intros T Np. split; [now apply tuple_seg|]. unfold nopeer in Np.
  inversion T as [Ty | idx a Ty Ha Hn | idx a k p0 Ty Ha Hp]; subst e.
  - left. cbn. auto.
  - assert (Hl : (idx < length (sg_entries (is_seg s)))%nat) by (apply nth_error_Some; congruence).
    assert (Ea : nth idx (sg_entries (is_seg s)) dflt_entry = a) by now apply nth_error_nth.
    rewrite mk_tuple_sc. unfold mk_tuple. destruct (is_ty s) eqn:E; [|congruence|].
    + right; left. cbn [e_src e_dst]. rewrite Ea. split; [reflexivity|]. split; [lia|]. split; reflexivity.
    + right; right. cbn [e_src e_dst v_rev v_ia]. rewrite Ea. split; [reflexivity|]. split; [lia|].
      split; reflexivity.
  - rewrite mk_tuple_peer in Np. discriminate.
Qed.

Lemma chain_adjacent g dst : forall es cur cs, chain g dst cur cs es ->
  forall j e e', nth_error es j = Some e -> nth_error es (S j) = Some e' ->
  e_src e' = e_dst e /\ valid_next (Some (ety e)) (ety e') = true.
Proof.
  induction es as [|x r IH]; intros cur cs H j e e' Hj Hj'; [destruct j; discriminate|].
  cbn [chain] in H. destruct H as (_ & _ & _ & H).
  destruct r as [|y r']; [destruct j; cbn in Hj'; try discriminate; destruct j; discriminate|].
  destruct H as [_ H]. destruct j as [|j].
  - cbn in Hj, Hj'. inversion Hj; inversion Hj'; subst. cbn [chain] in H. destruct H as (_ & S1 & V & _). auto.
  - apply (IH _ _ H j); assumption.
Qed.

(** first and last hop of the slice of an edge *)
Lemma slice_first e : (1 <= length (entries e) - e_sc e)%nat ->
  hd Prov.dhop (Prov.sl_hops (pslice_of e)) =
  ph_of (is_seg (e_seg e)) (cidx e 0) (nth (cidx e 0) (entries e) dflt_entry).
Proof.
  intros H. pose proof (slice_hops_nth e 0 ltac:(lia)) as N0.
  destruct (Prov.sl_hops (pslice_of e)); cbn in N0; [discriminate|]. now inversion N0.
Qed.

Lemma slice_last e : (1 <= length (entries e) - e_sc e)%nat ->
  last (Prov.sl_hops (pslice_of e)) Prov.dhop =
  ph_of (is_seg (e_seg e)) (cidx e (length (entries e) - e_sc e - 1))
        (nth (cidx e (length (entries e) - e_sc e - 1)) (entries e) dflt_entry).
Proof.
  intros H. pose proof (slice_hops_nth e (length (entries e) - e_sc e - 1) ltac:(lia)) as N0.
  rewrite <- (nth_last _ Prov.dhop).
  - rewrite slice_hops_length. now apply nth_error_nth.
  - intros X. apply (f_equal (@length _)) in X. rewrite slice_hops_length in X. cbn in X. lia.
Qed.

Lemma last_ia_nth' s : sg_entries s <> [] ->
  last_ia s = ae_ia (nth (length (sg_entries s) - 1) (sg_entries s) dflt_entry).
Proof. intros H. unfold last_ia. now rewrite (nth_last _ dflt_entry). Qed.

Lemma first_ia_nth' s : sg_entries s <> [] -> first_ia s = ae_ia (nth 0 (sg_entries s) dflt_entry).
Proof. unfold first_ia. destruct (sg_entries s); [congruence|reflexivity]. Qed.

Lemma v_ia_inj a b : v_ia a = v_ia b -> a = b.
Proof. unfold v_ia. congruence. Qed.

(** the AS where an edge starts / ends is the AS of the first / last hop of its slice *)
Lemma edge_ends s e : tuple_of s e -> nopeer e -> (is_ty s = CoreT -> (2 <= length (sg_entries (is_seg s)))%nat) ->
  (2 <= length (entries e) - e_sc e)%nat /\
  e_src e = v_ia (Prov.ph_ia (hd Prov.dhop (Prov.sl_hops (pslice_of e)))) /\
  e_dst e = v_ia (Prov.ph_ia (last (Prov.sl_hops (pslice_of e)) Prov.dhop)).
Proof.
  intros T Np Hc. destruct (np_tuple s e T Np) as (Es & Cases).
  unfold entries. rewrite Es.
  assert (L2 : (2 <= length (sg_entries (is_seg s)) - e_sc e)%nat).
  { destruct Cases as [(Ty & Sc & _)|[(Ty & L & _)|(Ty & L & _)]]; [rewrite Sc; specialize (Hc Ty); lia|lia|lia]. }
  split; [exact L2|].
  assert (Ne : sg_entries (is_seg s) <> []) by (intros X; rewrite X in L2; cbn in L2; lia).
  pose proof (slice_first e) as F. pose proof (slice_last e) as La. unfold entries in F, La. rewrite Es in F, La.
  rewrite F, La by lia. unfold ph_of. cbn [Prov.ph_ia]. unfold cidx, entries, is_down. rewrite Es.
  destruct Cases as [(Ty & Sc & S1 & D1)|[(Ty & L & S1 & D1)|(Ty & L & S1 & D1)]]; rewrite Ty; cbn [segtype_eqb];
    rewrite S1, D1.
  - rewrite Sc, (last_ia_nth' _ Ne), (first_ia_nth' _ Ne). split; do 3 f_equal; lia.
  - rewrite (last_ia_nth' _ Ne). split; do 3 f_equal; lia.
  - rewrite (last_ia_nth' _ Ne). split; do 3 f_equal; lia.
Qed.
