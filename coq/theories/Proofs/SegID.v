From Coq Require Import List NArith Bool Arith Lia.
From Scion Require Import Lib.Check Model.SegID.
Import ListNotations.
Import SegID.
Local Open Scope N_scope.

(** * The beta chain *)

Lemma beta_0 b0 sg : beta b0 sg 0 = b0.
Proof. unfold beta. destruct sg; reflexivity. Qed.

Lemma beta_cons b0 s t i : beta b0 (s :: t) (S i) = beta (N.lxor b0 s) t i.
Proof. reflexivity. Qed.

Lemma beta_S : forall sg b0 i, (i < length sg)%nat ->
  beta b0 sg (S i) = N.lxor (beta b0 sg i) (nth i sg 0).
Proof.
  induction sg as [|s t IH]; intros b0 i H; cbn [length] in H; [lia|].
  destruct i as [|i].
  - rewrite beta_cons, !beta_0. reflexivity.
  - rewrite beta_cons. rewrite IH by lia. rewrite beta_cons. reflexivity.
Qed.

Lemma extract_beta_firstn : forall sg b0 k, (k <= length sg)%nat ->
  extract_beta b0 (firstn k sg) = beta b0 sg k.
Proof.
  unfold extract_beta.
  induction sg as [|s t IH]; intros b0 k H; cbn [length] in H.
  - assert (k = 0%nat) by lia. subst. reflexivity.
  - destruct k as [|k]; [cbn [firstn fold_left]; now rewrite beta_0|].
    cbn [firstn fold_left]. rewrite IH by lia. now rewrite beta_cons.
Qed.

(** [extractBeta] over a whole segment gives the accumulator for the next hop *)
Lemma extract_beta_all sg b0 : extract_beta b0 sg = beta b0 sg (length sg).
Proof. rewrite <- (firstn_all sg) at 1. now apply extract_beta_firstn. Qed.

(** what the extender does when it appends entry [n]: hop MACed with
    [extract_beta] of the existing entries, peers with that xor the new sigma *)
Lemma extender_hop_beta sg b0 : extract_beta b0 sg = construction_segid b0 sg (length sg) false.
Proof. apply extract_beta_all. Qed.

(* beta over a prefix does not depend on the suffix *)
Lemma beta_app_prefix : forall sg b0 ext i, (i <= length sg)%nat ->
  beta b0 (sg ++ ext) i = beta b0 sg i.
Proof.
  induction sg as [|x t IH]; intros b0 ext i H; cbn [length] in H.
  - assert (i = 0%nat) by lia. subst. now rewrite !beta_0.
  - destruct i as [|i]; [now rewrite !beta_0|].
    cbn [app]. rewrite !beta_cons. apply IH. lia.
Qed.

Lemma extender_peer_beta sg b0 s :
  N.lxor (extract_beta b0 sg) s = construction_segid b0 (sg ++ [s]) (length sg) true.
Proof.
  unfold construction_segid. rewrite beta_S by (rewrite app_length; cbn; lia).
  rewrite app_nth2 by lia. rewrite Nat.sub_diag. cbn [nth].
  rewrite extract_beta_all. rewrite beta_app_prefix by lia. reflexivity.
Qed.

(** * Path combination *)

Lemma calculate_beta_down b0 sg (shortcut : nat) (peer : bool) :
  ((if peer then S shortcut else shortcut) <= length sg)%nat ->
  calculate_beta b0 sg true shortcut peer = construction_segid b0 sg shortcut peer.
Proof.
  intros H. unfold calculate_beta, calc_index, construction_segid.
  destruct peer; now apply extract_beta_firstn.
Qed.

Lemma calculate_beta_up b0 sg (shortcut : nat) (peer : bool) :
  (0 < length sg)%nat ->
  calculate_beta b0 sg false shortcut peer =
  construction_segid b0 sg (length sg - 1) (Nat.eqb (length sg - 1) shortcut && peer).
Proof.
  intros H. unfold calculate_beta, calc_index, construction_segid.
  destruct (Nat.eqb (length sg - 1) shortcut && peer); apply extract_beta_firstn; lia.
Qed.

(** * One AS *)

Lemma hop_walk_step c p sg s v t :
  hop_walk c p sg s (v :: t) =
  (fst (rstep c p sg s v) :: fst (hop_walk c p sg (snd (rstep c p sg s v)) t),
   snd (hop_walk c p sg (snd (rstep c p sg s v)) t)).
Proof.
  cbn [hop_walk]. destruct (rstep c p sg s v) as [u s1]. cbn [fst snd].
  destruct (hop_walk c p sg s1 t) as [us s2]. reflexivity.
Qed.

Lemma hop_walk_app c p sg : forall l1 l2 s,
  hop_walk c p sg s (l1 ++ l2) =
  (fst (hop_walk c p sg s l1) ++ fst (hop_walk c p sg (snd (hop_walk c p sg s l1)) l2),
   snd (hop_walk c p sg (snd (hop_walk c p sg s l1)) l2)).
Proof.
  induction l1 as [|v t IH]; intros l2 s.
  - cbn [app hop_walk fst snd]. now destruct (hop_walk c p sg s l2).
  - cbn [app]. rewrite !hop_walk_step. cbn [fst snd]. rewrite IH. reflexivity.
Qed.

Lemma hop_walk_peer consdir s sg vs :
  hop_walk consdir true sg s vs = (repeat s (length vs), s).
Proof.
  induction vs as [|v t IH]; [reflexivity|].
  rewrite hop_walk_step. unfold rstep. rewrite !andb_false_r. cbn [fst snd].
  rewrite IH. reflexivity.
Qed.

(** construction direction, no router sends the packet out: nothing changes *)
Lemma hop_walk_cons_inner sg : forall vs s,
  forallb (fun w => negb (eg_ext w)) vs = true ->
  hop_walk true false sg s vs = (repeat s (length vs), s).
Proof.
  induction vs as [|v t IH]; intros s H; [reflexivity|].
  cbn [forallb] in H. apply andb_true_iff in H as [H1 H2]. apply negb_true_iff in H1.
  rewrite hop_walk_step. unfold rstep. rewrite H1. cbn [negb andb fst snd].
  rewrite IH by exact H2. reflexivity.
Qed.

(** against construction direction, no router got the packet from outside *)
Lemma hop_walk_rev_inner sg : forall vs s,
  forallb (fun w => negb (in_ext w)) vs = true ->
  hop_walk false false sg s vs = (repeat s (length vs), s).
Proof.
  induction vs as [|v t IH]; intros s H; [reflexivity|].
  cbn [forallb] in H. apply andb_true_iff in H as [H1 H2]. apply negb_true_iff in H1.
  rewrite hop_walk_step. unfold rstep. rewrite H1. cbn [negb andb fst snd].
  rewrite IH by exact H2. reflexivity.
Qed.

Lemma repeat_snoc {A} (x : A) n : repeat x n ++ [x] = repeat x (S n).
Proof. induction n as [|n IH]; [reflexivity|]. cbn [repeat app]. now rewrite IH. Qed.

(** construction direction: every router verifies with the incoming value; the
    last one leaves value xor sigma when it sends the packet out *)
Lemma hop_walk_cons entered exits sg s vs :
  vis_ok entered exits vs = true ->
  hop_walk true false sg s vs = (repeat s (length vs), if exits then N.lxor s sg else s).
Proof.
  intros H. destruct vs as [|v t]; [discriminate|].
  unfold vis_ok in H.
  apply andb_true_iff in H as [H Hr]. apply andb_true_iff in H as [_ Hl]. apply eqb_prop in Hl.
  set (vs := v :: t) in *.
  assert (NE : vs <> []) by discriminate.
  rewrite (app_removelast_last v NE). rewrite hop_walk_app.
  rewrite (hop_walk_cons_inner sg _ s Hr). cbn [fst snd].
  rewrite hop_walk_step. cbn [hop_walk fst snd]. unfold rstep. cbn [negb andb fst snd].
  rewrite Hl. rewrite andb_true_r.
  rewrite app_length. cbn [length]. rewrite Nat.add_1_r. rewrite <- repeat_snoc.
  destruct exits; reflexivity.
Qed.

(** against construction direction: the first router applies sigma iff it got
    the packet from outside; everybody verifies with the result, which stays *)
Lemma hop_walk_rev entered exits sg s vs :
  vis_ok entered exits vs = true ->
  let s' := if entered then N.lxor s sg else s in
  hop_walk false false sg s vs = (repeat s' (length vs), s').
Proof.
  intros H s'. destruct vs as [|v t]; [discriminate|].
  unfold vis_ok in H.
  apply andb_true_iff in H as [H _]. apply andb_true_iff in H as [H _].
  apply andb_true_iff in H as [H1 Ht]. apply eqb_prop in H1.
  rewrite hop_walk_step. unfold rstep. rewrite H1. cbn [negb andb fst snd].
  rewrite andb_true_r. fold s'.
  rewrite (hop_walk_rev_inner sg t s' Ht). reflexivity.
Qed.

(** * A whole segment slice *)

Definition vis_any_entry (exits : bool) (vs : list visit) : bool :=
  vis_ok true exits vs || vis_ok false exits vs.

(** construction direction: hops a, a+1, ...; a peer hop field only first *)
Fixpoint wf_cons (sg : list N) (first : bool) (hs : list hopv) : bool :=
  match hs with
  | [] => true
  | h :: t =>
    (if peer h then first else N.eqb (sigma h) (nth (idx h) sg 0)) &&
    (idx h <? length sg)%nat &&
    match t with
    | [] => vis_any_entry true (visits h) || vis_any_entry false (visits h)
    | h' :: _ => vis_any_entry true (visits h) && Nat.eqb (idx h') (S (idx h))
    end && wf_cons sg false t
  end.

(** against construction direction: hops b, b-1, ...; a peer hop field only
    last; the first hop is handled without a preceding external ingress on that
    hop field (first hop of the path, or first hop after a cross-over) *)
Fixpoint wf_rev (sg : list N) (first : bool) (hs : list hopv) : bool :=
  match hs with
  | [] => true
  | h :: t =>
    (if peer h then match t with [] => true | _ => false end else N.eqb (sigma h) (nth (idx h) sg 0)) &&
    (idx h <? length sg)%nat &&
    (if first then vis_ok false true (visits h) || vis_ok false false (visits h)
     else vis_ok true true (visits h) || vis_ok true false (visits h)) &&
    match t with [] => true | h' :: _ => Nat.eqb (idx h) (S (idx h')) end &&
    wf_rev sg false t
  end.

Lemma forallb_repeat (f : N -> bool) x n : f x = true -> forallb f (repeat x n) = true.
Proof. intros H. induction n; cbn; [reflexivity|now rewrite H]. Qed.

Lemma walk_cons_ok b0 sg : forall hs s,
  wf_cons sg true hs = true \/ wf_cons sg false hs = true ->
  match hs with [] => True | h :: _ => s = construction_segid b0 sg (idx h) (peer h) end ->
  walk_ok b0 sg (fst (walk true s hs)) = true.
Proof.
  induction hs as [|h t IH]; intros s W S0; [reflexivity|].
  assert (W' : (if peer h then true else N.eqb (sigma h) (nth (idx h) sg 0)) = true /\
               (idx h <? length sg)%nat = true /\
               match t with
               | [] => vis_any_entry true (visits h) || vis_any_entry false (visits h)
               | h' :: _ => vis_any_entry true (visits h) && Nat.eqb (idx h') (S (idx h))
               end = true /\ wf_cons sg false t = true).
  { destruct W as [W|W]; cbn [wf_cons] in W;
      apply andb_true_iff in W as [W W4]; apply andb_true_iff in W as [W W3];
      apply andb_true_iff in W as [W1 W2]; repeat split; try assumption;
      destruct (peer h); try reflexivity; try assumption; discriminate. }
  destruct W' as (W1 & W2 & W3 & W4). apply Nat.ltb_lt in W2.
  cbn [walk].
  destruct (peer h) eqn:P.
  - (* peer hop: nothing changes, next hop is verified with the same value *)
    rewrite hop_walk_peer.
    destruct (walk true s t) as [r s''] eqn:Wk. cbn [fst].
    unfold walk_ok. cbn [forallb fst snd].
    rewrite forallb_repeat by (rewrite S0; apply N.eqb_refl). cbn [andb].
    specialize (IH s (or_intror W4)). rewrite Wk in IH. cbn [fst] in IH. apply IH.
    destruct t as [|h' t']; [exact I|].
    apply andb_true_iff in W3 as [_ W3]. apply Nat.eqb_eq in W3.
    (* h' cannot be a peer hop (only allowed first) *)
    cbn [wf_cons] in W4. destruct (peer h') eqn:P'; [discriminate|].
    rewrite S0, W3. reflexivity.
  - apply N.eqb_eq in W1.
    assert (V : exists en ex, vis_ok en ex (visits h) = true /\
                              (match t with [] => True | _ => ex = true end)).
    { destruct t as [|h' t'].
      - unfold vis_any_entry in W3.
        apply orb_true_iff in W3 as [W3|W3]; apply orb_true_iff in W3 as [W3|W3]; eauto.
      - apply andb_true_iff in W3 as [W3 _]. unfold vis_any_entry in W3.
        apply orb_true_iff in W3 as [W3|W3]; eauto. }
    destruct V as (en & ex & V & Vex).
    rewrite (hop_walk_cons en ex _ _ _ V).
    destruct (walk true (if ex then N.lxor s (sigma h) else s) t) as [r s''] eqn:Wk. cbn [fst].
    unfold walk_ok. cbn [forallb fst snd].
    rewrite forallb_repeat by (rewrite S0; apply N.eqb_refl). cbn [andb].
    specialize (IH (if ex then N.lxor s (sigma h) else s) (or_intror W4)).
    rewrite Wk in IH. cbn [fst] in IH. apply IH.
    destruct t as [|h' t']; [exact I|]. subst ex.
    apply andb_true_iff in W3 as [_ W3]. apply Nat.eqb_eq in W3.
    cbn [wf_cons] in W4. destruct (peer h') eqn:P'; [discriminate|].
    rewrite S0, W3, W1. unfold construction_segid. now rewrite beta_S.
Qed.

Lemma walk_rev_ok b0 sg : forall hs first s,
  wf_rev sg first hs = true ->
  match hs with
  | [] => True
  | h :: _ => s = if first then construction_segid b0 sg (idx h) (peer h)
                  else beta b0 sg (S (idx h))
  end ->
  walk_ok b0 sg (fst (walk false s hs)) = true.
Proof.
  induction hs as [|h t IH]; intros first s W S0; [reflexivity|].
  cbn [wf_rev] in W.
  apply andb_true_iff in W as [W W5]. apply andb_true_iff in W as [W W4].
  apply andb_true_iff in W as [W W3]. apply andb_true_iff in W as [W1 W2].
  apply Nat.ltb_lt in W2.
  cbn [walk].
  destruct (peer h) eqn:P.
  - (* peer hop: last of the slice *)
    destruct t; [|discriminate].
    rewrite hop_walk_peer. cbn [walk fst].
    unfold walk_ok. cbn [forallb fst snd].
    rewrite forallb_repeat; [reflexivity|].
    destruct first; rewrite S0; unfold construction_segid; apply N.eqb_refl.
  - apply N.eqb_eq in W1.
    assert (V : exists ex, vis_ok (negb first) ex (visits h) = true).
    { destruct first; cbn [negb]; apply orb_true_iff in W3 as [W3|W3]; eauto. }
    destruct V as (ex & V).
    rewrite (hop_walk_rev (negb first) ex _ _ _ V). cbv zeta.
    set (s' := if negb first then N.lxor s (sigma h) else s).
    assert (Es : s' = beta b0 sg (idx h)).
    { subst s'. destruct first; cbn [negb]; rewrite S0.
      - reflexivity.
      - rewrite beta_S by exact W2. rewrite W1. rewrite N.lxor_assoc, N.lxor_nilpotent. apply N.lxor_0_r. }
    destruct (walk false s' t) as [r s''] eqn:Wk. cbn [fst].
    unfold walk_ok. cbn [forallb fst snd].
    rewrite forallb_repeat by (rewrite Es; apply N.eqb_refl). cbn [andb].
    specialize (IH false s' W5). rewrite Wk in IH. cbn [fst] in IH. apply IH.
    destruct t as [|h' t']; [exact I|].
    apply Nat.eqb_eq in W4. rewrite Es, W4. reflexivity.
Qed.
