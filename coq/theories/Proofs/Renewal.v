(** Lemmas about Model/Renewal.v (C37). *)
From Coq Require Import List NArith ZArith Bool Lia.
From Scion Require Import Lib.Check Model.PKIChain Model.Renewal Proofs.PKIChain.
Import ListNotations.
Import PKIChain Renewal.
Local Open Scope N_scope.

Lemma ia_eqb_iff a b : ia_eqb a b = true <-> exists i s, a = IAOk i s /\ b = IAOk i s.
Proof.
  destruct a as [i s| |], b as [i' s'| |]; cbn; split; try discriminate;
    try (intros (x & y & H1 & H2); discriminate).
  - intros H. apply andb_true_iff in H as [H1 H2]. apply N.eqb_eq in H1, H2. subst. eauto.
  - intros (x & y & H1 & H2). inversion H1; inversion H2; subst. now rewrite !N.eqb_refl.
Qed.

Lemma normalise_some certs ch : normalise certs = Some ch ->
  validate_chain ch = true /\
  exists x y, certs = [x; y] /\ (ch = [x; y] \/ ch = [y; x]).
Proof.
  unfold normalise. destruct certs as [|x [|y [|z r]]]; try discriminate.
  destruct (validate_cert x) as [t|]; try discriminate.
  destruct (ctype_eqb t TCA).
  - destruct (validate_chain [y; x]) eqn:V; try discriminate. intros H; inversion H; subst.
    split; auto. exists x, y. auto.
  - destruct (validate_chain [x; y]) eqn:V; try discriminate. intros H; inversion H; subst.
    split; auto. exists x, y. auto.
Qed.

(** verifyClientChain in explicit form *)
Lemma client_chain_ok_iff ts ch now : client_chain_ok ts ch now = true <->
  exists a r isd asn t, ch = a :: r /\ c_subject_ia a = IAOk isd asn
    /\ latest_trc ts isd = Some t /\ (t_nb t <= now <= t_na t)%Z
    /\ (verify_chain_trc ch (Some t) now = true
        \/ (is_base t = false /\ (now <= grace_end t)%Z
            /\ exists g, find_trc ts isd (t_base t) (t_serial t - 1) = Some g
                 /\ (t_nb g <= now <= t_na g)%Z /\ verify_chain_trc ch (Some g) now = true)).
Proof.
  unfold client_chain_ok. split.
  - destruct ch as [|a r]; try discriminate. destruct (c_subject_ia a) as [isd asn| |] eqn:I; try discriminate.
    destruct (latest_trc ts isd) as [t|] eqn:L; try discriminate.
    intros H. apply andb_true_iff in H as [C H]. apply contains_iff in C.
    exists a, r, isd, asn, t. repeat split; auto; try lia.
    apply orb_true_iff in H as [H|H]; [now left|]. right.
    apply andb_true_iff in H as [H F]. apply andb_true_iff in H as [B G].
    apply negb_true_iff in B. apply Z.leb_le in G.
    destruct (find_trc ts isd (t_base t) (t_serial t - 1)) as [g|]; try discriminate.
    apply andb_true_iff in F as [Cg V]. apply contains_iff in Cg.
    repeat split; auto. exists g. repeat split; auto; lia.
  - intros (a & r & isd & asn & t & -> & I & L & C & H). rewrite I, L.
    apply contains_iff in C. unfold trc_contains. rewrite C. cbn [andb].
    destruct H as [H|(B & G & g & F & Cg & V)]; [now rewrite H|].
    rewrite B, F, V. apply Z.leb_le in G. rewrite G. apply contains_iff in Cg.
    unfold trc_contains. rewrite Cg. cbn. apply orb_true_r.
Qed.

Lemma client_chain_spec ts ch now : client_chain_ok ts ch now = true -> spec_client_ok ts ch now = true.
Proof.
  intros H. apply client_chain_ok_iff in H as (a & r & isd & asn & t & -> & I & L & C & H).
  unfold spec_client_ok. rewrite I, L. assert (C' := C). apply contains_iff in C'.
  unfold trc_contains. rewrite C'. cbn [andb].
  destruct H as [H|(B & G & g & F & Cg & V)].
  - now rewrite (verify_chain_trc_spec _ _ _ H).
  - rewrite F, (verify_chain_trc_spec _ _ _ V). apply contains_iff in Cg. rewrite Cg.
    unfold in_grace. rewrite B. cbn [negb andb].
    assert (K : contains (t_nb t) (grace_end t) now = true) by (apply contains_iff; lia).
    rewrite K. apply orb_true_r.
Qed.

(** what acceptance implies, conjunct by conjunct *)
Record accepted (ts : list trc) (r : request) (now : Z) (a c : cert) : Prop := {
  acc_parse : r_parse_ok r = true;
  acc_chain : normalise (r_certs r) = Some [a; c];
  acc_valid_chain : validate_chain [a; c] = true;
  acc_version : r_version r = 1;
  acc_single : r_nsigners r = 1;
  acc_signer_is_as : r_sid r = c_id a;
  acc_sid_named : r_sid r <> 0;
  acc_client : client_chain_ok ts [a; c] now = true;
  acc_data : r_type_data r = true;
  acc_digest : r_digest_ok r = true;
  acc_sig : r_sig_key r = c_key a /\ r_sig_key r <> 0;
  acc_csr : r_csr_parse r = true;
  acc_ia : ia_eqb (r_csr_ia r) (c_subject_ia a) = true;
  acc_csr_sig : r_csr_sig_key r = r_csr_key r /\ r_csr_sig_key r <> 0 }.

Lemma renewal_verify_iff ts r now :
  renewal_verify ts r now = true <-> exists a c, accepted ts r now a c.
Proof.
  unfold renewal_verify. split.
  - intros H. apply andb_true_iff in H as [P H].
    destruct (normalise (r_certs r)) as [[|a ch]|] eqn:Nm; try discriminate.
    destruct (normalise_some _ _ Nm) as (V & x & y & _ & Hch).
    assert (exists c, ch = [c]) as (c & ->).
    { destruct Hch as [E|E]; inversion E; eauto. }
    repeat match goal with H : _ && _ = true |- _ => apply andb_true_iff in H; destruct H end.
    repeat match goal with
           | H : negb _ = true |- _ => apply negb_true_iff in H
           | H : (_ =? _) = true |- _ => apply N.eqb_eq in H
           | H : (_ =? _) = false |- _ => apply N.eqb_neq in H
           end.
    exists a, c. constructor; auto.
  - intros (a & c & A). destruct A. rewrite acc_parse0, acc_chain0.
    destruct acc_sig0 as [S1 S2]. destruct acc_csr_sig0 as [Q1 Q2].
    apply N.eqb_neq in S2, Q2. apply N.eqb_eq in S1, Q1.
    assert (Nz := acc_sid_named0). apply N.eqb_neq in Nz. rewrite Nz.
    rewrite acc_version0, acc_single0, acc_signer_is_as0, acc_client0, acc_data0, acc_digest0,
      S1, S2, acc_csr0, acc_ia0, Q1, Q2, !N.eqb_refl. reflexivity.
Qed.

Lemma normalise_members certs a c : normalise certs = Some [a; c] -> In a certs /\ In c certs.
Proof.
  intros H. destruct (normalise_some _ _ H) as (_ & x & y & -> & [E|E]); inversion E; subst; cbn; auto.
Qed.

Lemma renewal_verify_spec ts r now :
  renewal_verify ts r now = true -> spec_request_ok ts r now = true.
Proof.
  intros H. apply renewal_verify_iff in H as (a & c & A). destruct A.
  destruct (normalise_members _ _ _ acc_chain0) as [Ia Ic].
  unfold spec_request_ok. rewrite acc_single0, N.eqb_refl. cbn [andb].
  destruct acc_sig0 as [S1 S2]. destruct acc_csr_sig0 as [Q1 Q2].
  apply N.eqb_neq in S2, Q2. apply N.eqb_eq in S1, Q1.
  rewrite Q1, Q2. cbn [negb andb]. rewrite andb_true_r.
  apply existsb_exists. exists a. split; auto. apply existsb_exists. exists c. split; auto.
  assert (Nz := acc_sid_named0). apply N.eqb_neq in Nz. rewrite Nz.
  rewrite acc_signer_is_as0, N.eqb_refl, (client_chain_spec _ _ _ acc_client0), acc_digest0, S1, S2, acc_ia0.
  reflexivity.
Qed.

(** ---------------------------------------------------------------- CreateChain *)

Lemma create_chain_some ca sk so now d q a :
  create_chain ca sk so now d q = Some a ->
  c_key a = q_key q /\ c_subject_ia a = q_ia q /\ c_subject a = q_subject q
  /\ c_nb a = now /\ c_na a = (now + d)%Z
  /\ (c_nb ca <= now /\ now + d <= c_na ca)%Z
  /\ validate_chain [a; ca] = true
  /\ c_signer a = c_key ca /\ c_issuer a = c_subject ca /\ c_akid a = c_skid ca.
Proof.
  unfold create_chain.
  destruct (covers (c_nb ca) (c_na ca) now (now + d)) eqn:C; cbn [negb]; try discriminate.
  destruct (q_skid q =? 0) eqn:Sk; try discriminate.
  destruct (sk =? c_key ca) eqn:K; cbn [negb]; try discriminate.
  match goal with |- (if validate_chain [?x; _] then _ else _) = _ -> _ => set (a0 := x) end.
  destruct (validate_chain [a0; ca]) eqn:V; try discriminate.
  intros H; inversion H; subst a. apply covers_iff in C. apply N.eqb_eq in K.
  repeat split; try reflexivity; try lia; auto.
Qed.

Lemma issue_oracle_model ca sk so now d q :
  issue_oracle ca q (create_chain ca sk so now d q) true = true.
Proof.
  destruct (create_chain ca sk so now d q) as [a|] eqn:E; [|reflexivity].
  destruct (create_chain_some _ _ _ _ _ _ _ E) as (K & I & _ & Nb & Na & (B1 & B2) & V & S & _).
  unfold issue_oracle. rewrite K, N.eqb_refl, I, V, S, N.eqb_refl, Nb, Na.
  assert (Hia : ia_eqb (q_ia q) (q_ia q) = true).
  { apply validate_chain_iff in V as (a' & c' & Eq & Ha & _). inversion Eq; subst a' c'.
    apply validate_cert_as in Ha. unfold validate_as in Ha.
    repeat match goal with H : _ && _ = true |- _ => apply andb_true_iff in H; destruct H end.
    rewrite I in *. destruct (q_ia q); try discriminate. cbn. now rewrite !N.eqb_refl. }
  rewrite Hia. cbn [andb].
  apply Z.leb_le in B1, B2. now rewrite B1, B2.
Qed.
