(** Lemmas about Model/RouterEpic.v. *)
From Coq Require Import List NArith Bool Lia.
From Scion Require Import Lib.Check Model.Router Proofs.Router Model.RouterEpic.
Import ListNotations.
Import Router RouterEpic.
Local Open Scope N_scope.

(** * Freshness *)
Lemma verify_timestamp_spec its ets now :
  verify_timestamp its ets now = true <->
  ts_sender its ets <= now + MaxClockSkewNs /\
  now <= ts_sender its ets + MaxPacketLifetimeNs + MaxClockSkewNs.
Proof.
  unfold verify_timestamp. rewrite andb_true_iff, !N.leb_le. reflexivity.
Qed.

(** * Big-endian fields are injective *)
Lemma be_bytes_length k n : length (be_bytes k n) = k.
Proof.
  revert n. induction k as [|k IH]; intros n; cbn [be_bytes]; [reflexivity|].
  rewrite app_length, IH. cbn. lia.
Qed.

Lemma app_inj_len {A} (a a' b b' : list A) :
  length a = length a' -> a ++ b = a' ++ b' -> a = a' /\ b = b'.
Proof.
  revert a'. induction a as [|x a IH]; intros [|x' a'] L E; cbn in *; try discriminate.
  - auto.
  - injection E as -> E. injection L as L. destruct (IH a' L E) as [-> ->]. auto.
Qed.

Lemma be_bytes_inj k : forall n m,
  n < 256 ^ N.of_nat k -> m < 256 ^ N.of_nat k -> be_bytes k n = be_bytes k m -> n = m.
Proof.
  induction k as [|k IH]; intros n m Hn Hm E.
  - cbn in Hn, Hm. lia.
  - cbn [be_bytes] in E.
    apply app_inj_len in E as [E1 E2]; [|now rewrite !be_bytes_length].
    injection E2 as E2.
    assert (P : 256 ^ N.of_nat (S k) = 256 * 256 ^ N.of_nat k).
    { rewrite Nat2N.inj_succ, N.pow_succ_r'. reflexivity. }
    rewrite P in Hn, Hm.
    assert (n / 256 = m / 256) as Q.
    { apply IH; [apply N.div_lt_upper_bound; lia | apply N.div_lt_upper_bound; lia | exact E1]. }
    rewrite (N.div_mod' n 256), (N.div_mod' m 256), Q, E2. reflexivity.
Qed.

(** * The input block of the EPIC MAC determines every field *)
Definition src_len_ok (st : N) (raw : list N) : Prop :=
  N.of_nat (length raw) = LineLen * (1 + N.land st 3).

Lemma head_app_inj {A} (x x' : A) r r' pad pad' :
  ([x] ++ r) ++ pad = ([x'] ++ r') ++ pad' -> x = x'.
Proof. cbn. intros H. injection H as H _. exact H. Qed.

Lemma tail_app_inj {A} (x x' : A) r r' : [x] ++ r = [x'] ++ r' -> r = r'.
Proof. cbn. intros H. injection H as _ H. exact H. Qed.

Lemma mac_input_inj st its pts ctr ia raw pl st' its' pts' ctr' ia' raw' pl' :
  its < 2 ^ 32 -> its' < 2 ^ 32 -> pts < 2 ^ 32 -> pts' < 2 ^ 32 -> ctr < 2 ^ 32 -> ctr' < 2 ^ 32 ->
  ia < 2 ^ 64 -> ia' < 2 ^ 64 -> pl < 2 ^ 16 -> pl' < 2 ^ 16 ->
  src_len_ok st raw -> src_len_ok st' raw' ->
  mac_input st its pts ctr ia raw pl = mac_input st' its' pts' ctr' ia' raw' pl' ->
  N.land st 3 = N.land st' 3 /\ its = its' /\ pts = pts' /\ ctr = ctr' /\ ia = ia' /\ raw = raw' /\
  pl = pl'.
Proof.
  intros B1 B1' B2 B2' B3 B3' B4 B4' B5 B5' L L' E.
  unfold mac_input in E. cbv zeta in E.
  (* the flags byte *)
  assert (F : N.land st 3 = N.land st' 3).
  { exact (head_app_inj _ _ _ _ _ _ E). }
  assert (LR : length raw = length raw').
  { unfold src_len_ok in L, L'. rewrite F in L. rewrite <- L' in L. apply Nat2N.inj. exact L. }
  match type of E with
  | ?b ++ _ = ?b' ++ _ =>
    assert (LB : length b = length b')
      by (rewrite !app_length, !be_bytes_length, LR; reflexivity);
    apply app_inj_len in E as [E _]; [|exact LB]
  end.
  apply tail_app_inj in E.
  apply app_inj_len in E as [E1 E]; [|now rewrite !be_bytes_length].
  apply app_inj_len in E as [E2 E]; [|now rewrite !be_bytes_length].
  apply app_inj_len in E as [E3 E]; [|now rewrite !be_bytes_length].
  apply app_inj_len in E as [E4 E]; [|now rewrite !be_bytes_length].
  apply app_inj_len in E as [E5 E6]; [|exact LR].
  apply (be_bytes_inj 4) in E1, E2, E3; try assumption.
  apply (be_bytes_inj 8) in E4; try assumption.
  apply (be_bytes_inj 2) in E6; try assumption.
  auto 10.
Qed.

(** * Reflexivity of the result comparison *)
Lemma info_eqb_refl i : info_eqb i i = true.
Proof. unfold info_eqb. now rewrite !eqb_reflx, !N.eqb_refl. Qed.

Lemma infos_eqb_refl l : list_eqb info_eqb l l = true.
Proof. induction l; cbn; [reflexivity | now rewrite info_eqb_refl]. Qed.

Lemma bytes_eqb_refl l : list_eqb N.eqb l l = true.
Proof. now apply list_eqb_N. Qed.

Lemma pkt_eqb_refl p : pkt_eqb p p = true.
Proof.
  unfold pkt_eqb. rewrite !N.eqb_refl, !bytes_eqb_refl, infos_eqb_refl, hops_eqb_refl.
  destruct (p_l4_port p); cbn; now rewrite ?N.eqb_refl.
Qed.

Definition proper (r : result) : Prop :=
  match r with MacMiss | BadInput => False | _ => True end.

Lemma result_eqb_refl r : proper r -> result_eqb r r = true.
Proof.
  destruct r as [| | |e o d|rq e o| |]; cbn; intros P; try reflexivity; try destruct P.
  - rewrite N.eqb_refl, pkt_eqb_refl. destruct d as [[ip port]|]; cbn; [|reflexivity].
    now rewrite bytes_eqb_refl, N.eqb_refl.
  - rewrite N.eqb_refl, pkt_eqb_refl. destruct rq; cbn; now rewrite ?N.eqb_refl.
Qed.

Lemma epic_view_proper r : proper r -> proper (epic_view r).
Proof.
  destruct r as [| | |e o d|[ty code ptr| |] e o| |]; cbn; try tauto.
  destruct (_ && _); cbn; tauto.
Qed.

Lemma result_same_refl r : result_same r r = true.
Proof.
  destruct r; try reflexivity; unfold result_same; apply result_eqb_refl; exact I.
Qed.

(** * processEPIC *)
Section Any.
Variable fullq : N -> N -> N -> N -> N -> option (list N).
Variable emacq : list N -> list N -> option (list N).
Variable c : cfg.
Variable now : N.
Variable ing : ingress.

Lemma epic_view_not_forward r e out d :
  not_forward r -> epic_view r <> Forward e out d.
Proof.
  destruct r as [| | |e' o' d'|[ty code ptr| |] e' o'| |]; cbn; intros NF H; try discriminate;
    try (destruct NF).
  destruct (_ && _); discriminate.
Qed.

(** every hop but the penultimate and the last one: exactly the embedded SCION path *)
Lemma process_epic_other ep p :
  epic_checked c p = false ->
  process_epic fullq emacq c now ing ep p = epic_view (process_scion (macq fullq) c now ing p).
Proof.
  intros P. unfold process_epic. rewrite P.
  destruct (process_scion (macq fullq) c now ing p); reflexivity.
Qed.

Lemma process_epic_forward ep p e out d :
  process_epic fullq emacq c now ing ep p = Forward e out d ->
  process_scion (macq fullq) c now ing p = Forward e out d /\
  (epic_checked c p = true -> epic_checks fullq emacq c now ing ep p out = EvOk).
Proof.
  unfold process_epic.
  destruct (process_scion (macq fullq) c now ing p) as [| | |e' o' d'|rq e' o'| |] eqn:E;
    try discriminate.
  - destruct (epic_checked c p).
    + destruct (epic_checks fullq emacq c now ing ep p o') eqn:C; try discriminate.
      intros H; injection H as <- <- <-. auto.
    + intros H; injection H as <- <- <-. split; [reflexivity | discriminate].
  - intros H. exfalso. revert H. apply epic_view_not_forward. exact I.
Qed.

(** whatever the embedded path's outcome, the EPIC wrapper never turns a refusal into an
    acceptance *)
Lemma process_epic_only_if_scion ep p e out d :
  process_epic fullq emacq c now ing ep p = Forward e out d ->
  process_scion (macq fullq) c now ing p = Forward e out d.
Proof. intros H. apply process_epic_forward in H. tauto. Qed.

End Any.

Section Total.
Variable full : N -> N -> N -> N -> N -> list N.
Variable emac : list N -> list N -> list N.
Variable c : cfg.
Variable now : N.
Variable ing : ingress.

Definition fullt : N -> N -> N -> N -> N -> option (list N) := fun a b c d e => Some (full a b c d e).
Definition emact : list N -> list N -> option (list N) := fun a x => Some (emac a x).
Definition mac6 : N -> N -> N -> N -> N -> list N := fun a b c d e => firstn 6 (full a b c d e).

Lemma macq_total : macq fullt = total mac6.
Proof. reflexivity. Qed.

Definition auth_of (i : info) (h : hop) : list N :=
  full (i_segid i) (i_ts i) (h_exp h) (h_in h) (h_eg h).

Lemma epic_checks_ok ep p out :
  epic_checks fullt emact c now ing ep p out = EvOk ->
  exists fi i h,
    nthN (p_infos out) 0 = Some fi /\
    verify_timestamp (i_ts fi) (e_ts ep) now = true /\
    last_verified fullt c now ing p = Some (i, h) /\
    N.of_nat (length (auth_of i h)) = AuthLen /\
    hvf_of ep (is_last_hop p) =
      emac (auth_of i h)
           (mac_input (p_src_type p) (i_ts fi) (e_ts ep) (e_ctr ep) (p_src_ia p) (p_src_raw p)
                      (p_pay_len p)).
Proof.
  unfold epic_checks.
  destruct (nthN (p_infos out) 0) as [fi|]; [|discriminate].
  destruct (negb (verify_timestamp _ _ _)) eqn:T; [discriminate|].
  destruct (last_verified fullt c now ing p) as [[i h]|]; [|discriminate].
  unfold fullt at 1, emact.
  destruct (negb (_ =? AuthLen)) eqn:A; [discriminate|].
  destruct (list_eqb N.eqb _ _) eqn:M; [|discriminate].
  intros _. exists fi, i, h.
  apply negb_false_iff in T, A. apply N.eqb_eq in A. apply list_eqb_N in M.
  repeat split; assumption.
Qed.

Lemma epic_checks_total ep p out :
  epic_checks fullt emact c now ing ep p out <> EvMiss.
Proof.
  unfold epic_checks.
  destruct (nthN (p_infos out) 0) as [fi|]; [|discriminate].
  destruct (negb (verify_timestamp _ _ _)); [discriminate|].
  destruct (last_verified fullt c now ing p) as [[i h]|]; [|discriminate].
  unfold fullt at 1, emact.
  destruct (negb _); [discriminate|]. destruct (list_eqb _ _ _); discriminate.
Qed.

(** a forwarded packet has a hop field that was verified last ... *)
Lemma last_verified_some p e out d :
  process_scion (macq fullt) c now ing p = Forward e out d ->
  exists ih, last_verified fullt c now ing p = Some ih.
Proof.
  unfold process_scion, last_verified. rewrite macq_total.
  destruct (ingress_part (total mac6) c now ing p) as [s|r] eqn:I.
  2:{ intros ->. apply ingress_part_nf in I. destruct I. }
  destruct (p_dst_ia p =? c_ia c); [eauto|].
  destruct (egress_part (total mac6) c now ing s) as [s'|r] eqn:G.
  2:{ intros ->. apply egress_part_nf in G. destruct G. }
  intros _. unfold egress_part in G.
  apply bind_ok in G as (s4 & G & _). apply bind_ok in G as (s3 & G & _).
  apply bind_ok in G as (s2 & G & _). apply bind_ok in G as (s1 & G & _).
  rewrite G. eauto.
Qed.

(** ... and it is a hop field of the received packet (the current one, or the first one of
    the next segment at a cross-over) whose 6 carried MAC bytes are the prefix of the
    authenticator *)
Lemma last_verified_valid p i h :
  last_verified fullt c now ing p = Some (i, h) ->
  mac_valid mac6 i h /\
  (cur_hop p = Some h \/ nthN (p_hops p) (p_curr_hf p + 1) = Some h).
Proof.
  unfold last_verified. rewrite macq_total.
  destruct (ingress_part (total mac6) c now ing p) as [s|r] eqn:IP; [|discriminate].
  destruct (ingress_part_ok _ _ _ _ _ _ IP) as (i0 & h0 & F).
  destruct (p_dst_ia p =? c_ia c).
  - intros H; injection H as <- <-.
    rewrite (if_sinf _ _ _ _ _ _ _ _ F), (if_shop _ _ _ _ _ _ _ _ F).
    split; [exact (if_mac _ _ _ _ _ _ _ _ F) | left; exact (if_hop _ _ _ _ _ _ _ _ F)].
  - destruct (xover_part (total mac6) now s) as [s1|r] eqn:X; [|discriminate].
    intros H; injection H as <- <-.
    apply xover_part_ok in X. destruct (xover_cond s).
    + destruct X as (h' & i' & Hh & Hi & -> & _ & M). cbn [s_inf s_hop].
      split; [exact M|]. right.
      assert (p_hops (s_p s) = p_hops p /\ p_curr_hf (s_p s) = p_curr_hf p) as [E1 E2].
      { rewrite (if_pkt _ _ _ _ _ _ _ _ F). destruct (folds _ _ _); split; reflexivity. }
      rewrite E1, E2 in Hh. exact Hh.
    + subst s1. rewrite (if_sinf _ _ _ _ _ _ _ _ F), (if_shop _ _ _ _ _ _ _ _ F).
      split; [exact (if_mac _ _ _ _ _ _ _ _ F) | left; exact (if_hop _ _ _ _ _ _ _ _ F)].
Qed.

(** the hop field verified last sits at [verified_index] *)
Lemma last_verified_index p i h :
  last_verified fullt c now ing p = Some (i, h) ->
  nthN (p_hops p) (verified_index c p) = Some h.
Proof.
  unfold last_verified, verified_index. rewrite macq_total.
  destruct (ingress_part (total mac6) c now ing p) as [s|r] eqn:IP; [|discriminate].
  destruct (ingress_part_ok _ _ _ _ _ _ IP) as (i0 & h0 & F).
  destruct (p_dst_ia p =? c_ia c).
  - intros H; injection H as <- <-. rewrite andb_false_r.
    rewrite (if_shop _ _ _ _ _ _ _ _ F). exact (if_hop _ _ _ _ _ _ _ _ F).
  - rewrite andb_true_r.
    destruct (xover_part (total mac6) now s) as [s1|r] eqn:X; [|discriminate].
    intros H; injection H as <- <-.
    apply xover_part_ok in X. rewrite (xover_cond_eff _ _ _ _ _ _ _ _ F) in X.
    destruct (eff_xover p).
    + destruct X as (h' & i' & Hh & Hi & -> & _ & M). cbn [s_hop].
      assert (p_hops (s_p s) = p_hops p /\ p_curr_hf (s_p s) = p_curr_hf p) as [E1 E2].
      { rewrite (if_pkt _ _ _ _ _ _ _ _ F). destruct (folds _ _ _); split; reflexivity. }
      rewrite E1, E2 in Hh. exact Hh.
    + subst s1. rewrite (if_shop _ _ _ _ _ _ _ _ F). exact (if_hop _ _ _ _ _ _ _ _ F).
Qed.

(** the oracle of the correspondence check holds on the model *)
Lemma c13_ok_model ep p :
  c13_ok fullt emact c now ing ep p (process_epic fullt emact c now ing ep p) = true.
Proof.
  unfold c13_ok. cbv zeta.
  destruct (epic_checked c p) eqn:PL.
  - unfold process_epic. rewrite PL.
    destruct (process_scion (macq fullt) c now ing p) as [| | |e out d|rq e out| |] eqn:S;
      try reflexivity.
    + destruct (epic_checks fullt emact c now ing ep p out) eqn:C.
      * cbv beta iota. rewrite C, result_eqb_refl by exact I. reflexivity.
      * reflexivity.
      * exfalso. exact (epic_checks_total _ _ _ C).
      * exfalso. destruct (last_verified_some _ _ _ _ S) as (ih & L).
        unfold epic_checks in C. rewrite L in C.
        destruct (nthN (p_infos out) 0) as [fi|]; [|discriminate].
        destruct (negb (verify_timestamp _ _ _)); [discriminate|]. destruct ih as [i h].
        unfold fullt at 1, emact in C.
        destruct (negb _); [discriminate|]. destruct (list_eqb _ _ _); discriminate.
    + pose proof (result_same_refl (epic_view (SlowPath rq e out))) as R.
      destruct rq as [ty code ptr| |]; cbn in *; [|exact R|exact R].
      destruct (_ && _); exact R.
  - rewrite (process_epic_other fullt emact c now ing ep p PL). apply result_same_refl.
Qed.

End Total.

(** the EPIC checks are applied exactly when the hop field verified last is the penultimate
    or the last hop field of the path *)
Lemma epic_checked_iff c p :
  epic_checked c p =
  (verified_index c p + 2 =? num_hops p) || (verified_index c p + 1 =? num_hops p).
Proof.
  unfold epic_checked, xover_to_penultimate, verified_index, is_penultimate, is_last_hop.
  destruct (eff_xover p) eqn:X; cbn [andb].
  - destruct (negb (p_dst_ia p =? c_ia c)); cbn [andb]; rewrite ?andb_true_r, ?andb_false_r.
    + unfold eff_xover, is_xover in X. apply andb_true_iff in X as [X _].
      apply andb_true_iff in X as [X _]. apply N.ltb_lt in X.
      assert ((p_curr_hf p + 1 =? num_hops p) = false) as -> by (apply N.eqb_neq; lia).
      replace (p_curr_hf p + 1 + 2) with (p_curr_hf p + 3) by lia.
      replace (p_curr_hf p + 1 + 1) with (p_curr_hf p + 2) by lia.
      rewrite orb_false_r. apply orb_comm.
    + now rewrite orb_false_r.
  - rewrite andb_false_r. now rewrite orb_false_r.
Qed.
