(** Segments produced by a beaconing run (Model/Beaconing.v: iterating the extension step of C23
    over a topology) satisfy [CombProv.beaconed], the hypothesis of C02's combinator layer.
    Induction on the run with the invariant [inv]; per step: [extend_ok] / [peer_entries_spec] /
    [expiry_bound] (Proofs/Extend.v, the lemmas behind C23_entry_wf / C23_macs_verify /
    C23_expiry_bound) for the entry shape and the MACs, Proofs/SegID.v for the beta chain. *)
From Coq Require Import List NArith ZArith Bool Arith Lia.
From Coq Require Import ZifyBool ZifyN ZifyNat.
From Scion Require Import Lib.Check Lib.Bytes Model.Router Model.Network Model.Prov.
From Scion Require Import Model.Segment Model.SegID Model.Combinator Model.CombProv Model.Extend Model.Beaconing.
From Scion Require Import Proofs.SegID Proofs.Extend Proofs.ForwardView.
Import ListNotations.
Import Beaconing.
Local Open Scope N_scope.

Module Sid := Scion.Model.SegID.SegID.
Module Cb := Scion.Model.Combinator.Combinator.
Module CP := Scion.Model.CombProv.CombProv.

(** * Translations *)
Lemma ia_n_of n : ia_n (ia_of n) = n.
Proof.
  unfold ia_n, ia_of. cbn [fst snd]. rewrite N.mul_comm. symmetry. apply N.div_mod. discriminate.
Qed.

Lemma lookup_intfs k a id :
  Ex.lookup (intfs_of k a) id =
  option_map (fun f => {| Ex.i_ia := ia_of (Nw.ni_nbr f); Ex.i_rif := Nw.ni_remote f;
                          Ex.i_mtu := k_ifmtu k (Nw.ni_id f) |}) (Nw.find_nif (Nw.a_ifs a) id).
Proof.
  unfold intfs_of. induction (Nw.a_ifs a) as [|f r IH]; [reflexivity|].
  cbn [map Ex.lookup Nw.find_nif]. destruct (Nw.ni_id f =? id); [reflexivity|exact IH].
Qed.

Lemma lt_eqb_eq a b : R.lt_eqb a b = true -> a = b.
Proof. destruct a, b; cbn; intros H; try reflexivity; discriminate. Qed.

Lemma sigma_mac16 m : length m = 6%nat -> Ex.sigma m = Sg.mac16 m.
Proof.
  destruct m as [|a [|b m]]; try discriminate. intros _.
  unfold Ex.sigma, Sg.mac16, unbe. cbn [firstn fold_left nth]. lia.
Qed.

Lemma mac_input_u32 b ts e i g :
  Ex.mac_input b (Z.of_N (Cb.u32 ts)) e i g = Ex.mac_input b (Z.of_N ts) e i g.
Proof.
  unfold Ex.mac_input, Cb.u32. do 3 f_equal.
  rewrite N2Z.inj_mod. change (Z.of_N 4294967296) with 4294967296%Z. now rewrite Z.mod_mod by lia.
Qed.

Lemma in_firstn {A} (x : A) : forall n l, In x (firstn n l) -> In x l.
Proof.
  induction n as [|n IH]; intros l H; [destruct H|]. destruct l as [|y l]; [destruct H|].
  destruct H as [H|H]; [now left|right; now apply IH].
Qed.

Lemma nth_error_last {A} (l : list A) (d x : A) :
  nth_error l (length l - 1) = Some x -> last l d = x.
Proof.
  induction l as [|y l IH]; [discriminate|]. cbn [length]. destruct l as [|z l].
  - cbn. intros H; now inversion H.
  - replace (S (length (z :: l)) - 1)%nat with (S (length (z :: l) - 1)) by (cbn [length]; lia).
    cbn [nth_error]. intros H. change (last (y :: z :: l) d) with (last (z :: l) d). now apply IH.
Qed.

(** * The run *)
Section Run.
Variable fullmac : N -> list N -> list N.
Variable ctl_of : N -> ctl.
Variable t : Nw.topology.
Hypothesis Hmac : mac_ok fullmac.
Hypothesis Hctl : ctl_ok ctl_of.
Hypothesis Hwt : Nw.wf_topo t = true.
Hypothesis Hids : ids16 t = true.

Notation mac := (mac6 fullmac).

Lemma mac6_wf k i :
  length (firstn 6 (fullmac k i)) = 6%nat /\ forallb (fun b => b <? 256) (firstn 6 (fullmac k i)) = true.
Proof.
  destruct (Hmac k i) as [L F]. split; [apply firstn_length_le; exact L|].
  apply forallb_forall. intros x Hx. apply in_firstn in Hx. rewrite Forall_forall in F.
  specialize (F x Hx). lia.
Qed.

(** interfaces of the topology *)
Lemma nif_facts a id f :
  In a t -> Nw.find_nif (Nw.a_ifs a) id = Some f ->
  Nw.ni_id f = id /\ id <> 0 /\ id < 65536 /\ Nw.ni_remote f < 65536.
Proof.
  intros Ha Hf. destruct (find_nif_id _ _ _ Hf) as [Hid Hin].
  unfold Nw.wf_topo in Hwt. apply andb_true_iff in Hwt as [_ W].
  rewrite forallb_forall in W. specialize (W a Ha). apply andb_true_iff in W as [_ W].
  rewrite forallb_forall in W. specialize (W f Hin). unfold Nw.nif_ok in W.
  apply andb_true_iff in W as [W W3]. apply andb_true_iff in W as [W1 _].
  unfold ids16 in Hids. rewrite forallb_forall in Hids. pose proof (Hids a Ha) as I.
  rewrite forallb_forall in I. pose proof (I f Hin) as If.
  destruct (Nw.find_as t (Nw.ni_nbr f)) as [b|] eqn:Fb; [|discriminate].
  apply andb_true_iff in W3 as [_ W3].
  destruct (Nw.find_nif (Nw.a_ifs b) (Nw.ni_remote f)) as [g|] eqn:Fg; [|discriminate].
  destruct (find_as_ia _ _ _ Fb) as [_ Hb]. destruct (find_nif_id _ _ _ Fg) as [Hg Hgin].
  pose proof (Hids b Hb) as Ib. rewrite forallb_forall in Ib. specialize (Ib g Hgin).
  repeat split; lia.
Qed.

(** * beta chain: the extender's accumulator is beta_n of the translated segment *)
Lemma sigmas_seg_of s :
  CP.sigmas (seg_of s) = map (fun x => Sg.mac16 (Ex.e_mac (fst x))) (Ex.s_entries s).
Proof. unfold CP.sigmas, seg_of, entries_of. cbn [Sg.sg_entries]. now rewrite map_map. Qed.

Lemma extract_beta_fold (l : list (Ex.entry * (N * N))) : forall b,
  fold_left (fun b e => N.lxor b (Ex.sigma (Ex.e_mac (fst e)))) l b =
  fold_left N.lxor (map (fun x => Ex.sigma (Ex.e_mac (fst x))) l) b.
Proof. induction l as [|x l IH]; intros b; [reflexivity|]. cbn [fold_left map]. apply IH. Qed.

Lemma wf_entry_mac_len e : Sg.wf_entry (entry_of e) = true -> length (Ex.e_mac e) = 6%nat.
Proof.
  unfold Sg.wf_entry, Sg.wf_hop, entry_of, hop_of. cbn [Sg.ae_hop Sg.h_mac]. intros H.
  repeat (apply andb_true_iff in H as [H ?]). now apply Nat.eqb_eq.
Qed.

Lemma extract_beta_bridge s :
  forallb Sg.wf_entry (entries_of s) = true ->
  Ex.extract_beta s = Sid.beta (Ex.s_segid s) (CP.sigmas (seg_of s)) (length (Ex.s_entries s)).
Proof.
  intros W. unfold Ex.extract_beta. rewrite extract_beta_fold.
  replace (map (fun x => Ex.sigma (Ex.e_mac (fst x))) (Ex.s_entries s)) with (CP.sigmas (seg_of s)).
  - change (fold_left N.lxor (CP.sigmas (seg_of s)) (Ex.s_segid s))
      with (Sid.extract_beta (Ex.s_segid s) (CP.sigmas (seg_of s))).
    rewrite extract_beta_all. f_equal. rewrite sigmas_seg_of. apply map_length.
  - rewrite sigmas_seg_of. apply map_ext_in. intros x Hx. symmetry. apply sigma_mac16.
    apply wf_entry_mac_len. unfold entries_of in W. rewrite forallb_forall in W. apply W.
    apply in_map_iff. now exists x.
Qed.

(** * The invariant of a run *)
Record inv (core : bool) (st : state) : Prop := {
  i_ts : (0 <= Ex.s_ts (b_seg st))%Z;
  i_sid : Ex.s_segid (b_seg st) < 65536;
  i_entries : forall i e, nth_error (entries_of (b_seg st)) i = Some e ->
              CP.entry_ok mac t core (seg_of (b_seg st)) i e;
  i_wf : forallb Sg.wf_entry (entries_of (b_seg st)) = true;
  i_peers : forallb Sg.peers_ok (entries_of (b_seg st)) = true;
  i_first : match entries_of (b_seg st) with
            | [] => b_in st = 0 /\ b_done st = false
            | e :: _ => Sg.h_in (Sg.ae_hop e) = 0 /\ Sg.h_eg (Sg.ae_hop e) <> 0
            end;
  i_last : forall e, nth_error (entries_of (b_seg st)) (length (entries_of (b_seg st)) - 1) = Some e ->
           if b_done st then Sg.h_eg (Sg.ae_hop e) = 0
           else CP.link_to t (Sg.ae_ia e) (Sg.h_eg (Sg.ae_hop e)) (egress_lt core) (b_at st) (b_in st)
}.

Lemma inv_init core origin ts segid : segid < 65536 -> inv core (init origin ts segid).
Proof.
  intros H. constructor; cbn; try reflexivity; try lia; try (intros [|i] e; discriminate); auto.
  intros e; discriminate.
Qed.

Lemma entries_snoc s e : entries_of (snoc s e) = entries_of s ++ [entry_of e].
Proof. unfold entries_of, snoc. cbn [Ex.s_entries]. now rewrite map_app. Qed.

Lemma entries_length s : length (entries_of s) = length (Ex.s_entries s).
Proof. apply map_length. Qed.

Lemma sigmas_length s : length (CP.sigmas (seg_of s)) = length (Ex.s_entries s).
Proof. rewrite sigmas_seg_of. apply map_length. Qed.

Lemma sigmas_snoc s e : CP.sigmas (seg_of (snoc s e)) = CP.sigmas (seg_of s) ++ [Sg.mac16 (Ex.e_mac e)].
Proof. rewrite !sigmas_seg_of. unfold snoc. cbn [Ex.s_entries]. now rewrite map_app. Qed.

Lemma beta_at_snoc s e i : (i <= length (Ex.s_entries s))%nat ->
  CP.beta_at (seg_of (snoc s e)) i = CP.beta_at (seg_of s) i.
Proof.
  intros H. unfold CP.beta_at. rewrite sigmas_snoc. cbn [seg_of Sg.sg_segid snoc Ex.s_segid].
  apply beta_app_prefix. now rewrite sigmas_length.
Qed.

Lemma ts_of_snoc s e : CP.ts_of (seg_of (snoc s e)) = CP.ts_of (seg_of s).
Proof. reflexivity. Qed.

(** ** one step *)
Section Step.
Variable core : bool.
Variable st : state.
Variable c : choice.
Variable a : Nw.nas.
Variables nbr rem : N.
Variable e : Ex.entry.
Variable idx : N.
Variable sg : Ex.signed_input.
Variable sgn : Ex.signer.
Notation k := (ctl_of (Nw.a_ia a)).
Notation s := (b_seg st).
Notation s' := (snoc (b_seg st) e).
Notation n := (length (Ex.s_entries (b_seg st))).
Hypothesis Hinv : inv core st.
Hypothesis Hnd : b_done st = false.
Hypothesis Ha : Nw.find_as t (b_at st) = Some a.
Hypothesis Hp : forallb (is_peer_if a) (ch_peers c) = true.
Hypothesis Ht : target core a (ch_eg c) = Some (nbr, rem).
Hypothesis A : accepted (fun i => Some (fullmac (Nw.a_key a) i)) (cfg_of k a) (k_signers k) (ch_now c)
                        s (b_in st) (ch_eg c) (ch_peers c) e idx sg sgn.

Let Haia : Nw.a_ia a = b_at st := proj1 (find_as_ia _ _ _ Ha).
Let Hain : In a t := proj2 (find_as_ia _ _ _ Ha).

Lemma new_ia : Sg.ae_ia (entry_of e) = b_at st.
Proof. cbn [entry_of Sg.ae_ia]. rewrite (a_local _ _ _ _ _ _ _ _ _ _ _ _ A). cbn [cfg_of Ex.c_ia]. now rewrite ia_n_of. Qed.

Lemma exp_range : (0 <= Ex.e_exp e <= 255)%Z.
Proof.
  destruct (Hctl (Nw.a_ia a)) as (Hm & _).
  pose proof (expiry_bound _ _ _ _ Hm (a_exp _ _ _ _ _ _ _ _ _ _ _ _ A)) as [He _].
  cbn [cfg_of Ex.c_maxexp] in He. lia.
Qed.

Lemma new_mac b ing eg m :
  Ex.hop_mac (fun i => Some (fullmac (Nw.a_key a) i)) b (Ex.s_ts s) (Ex.e_exp e) ing eg = Some m ->
  m = mac (Nw.a_key a) b (CP.ts_of (seg_of s')) (Z.to_N (Ex.e_exp e)) ing eg.
Proof.
  unfold Ex.hop_mac. cbn [option_map]. intros H. inversion H. unfold mac6. rewrite ts_of_snoc.
  unfold CP.ts_of. rewrite mac_input_u32. cbn [seg_of Sg.sg_ts].
  rewrite !Z2N.id; [reflexivity|apply exp_range|apply (i_ts _ _ Hinv)].
Qed.

Lemma ingress_ok : b_in st < 65536 /\ Ex.e_inmtu e < 2147483648.
Proof.
  destruct (a_mtus _ _ _ _ _ _ _ _ _ _ _ _ A) as [_ M]. unfold Ex.remote_mtu in M.
  destruct (b_in st =? 0) eqn:Z0; [inversion M; lia|].
  cbn [cfg_of Ex.c_ifs] in M. rewrite lookup_intfs in M.
  destruct (Nw.find_nif (Nw.a_ifs a) (b_in st)) as [f|] eqn:F; [|discriminate].
  cbn [option_map Ex.i_mtu] in M. inversion M.
  destruct (nif_facts _ _ _ Hain F) as (_ & _ & H16 & _). split; [exact H16|].
  destruct (Hctl (Nw.a_ia a)) as (_ & _ & Hi). apply Hi.
Qed.

Lemma egress_ok :
  ch_eg c < 65536 /\
  ((ch_eg c =? 0) = false ->
   CP.link_to t (b_at st) (ch_eg c) (egress_lt core) nbr rem).
Proof.
  pose proof Ht as Ht'. unfold target in Ht'. destruct (ch_eg c =? 0) eqn:Z0; [split; [lia|discriminate]|].
  destruct (Nw.find_nif (Nw.a_ifs a) (ch_eg c)) as [f|] eqn:F; [|discriminate].
  destruct (R.lt_eqb (Nw.ni_lt f) (egress_lt core)) eqn:L; [|discriminate].
  inversion Ht' as [[Q1 Q2]]. destruct (nif_facts _ _ _ Hain F) as (_ & _ & H16 & _).
  split; [exact H16|]. intros _. exists a, f. rewrite <- Haia at 1. rewrite Haia.
  repeat split; auto. now apply lt_eqb_eq.
Qed.

(** the peer entries of the new AS entry *)
Lemma new_peer p : In p (Ex.e_peers e) ->
  Ex.p_mac p = mac (Nw.a_key a) (N.lxor (Ex.extract_beta s) (Ex.sigma (Ex.e_mac e))) (CP.ts_of (seg_of s'))
                   (Z.to_N (Ex.e_exp e)) (Ex.p_in p) (ch_eg c) /\
  Ex.p_exp p = Ex.e_exp e /\ Ex.p_eg p = ch_eg c /\
  CP.link_to t (b_at st) (Ex.p_in p) R.Peer (ia_n (Ex.p_ia p)) (Ex.p_rif p) /\
  Ex.p_in p < 65536 /\ Ex.p_rif p < 65536 /\ Ex.p_mtu p < 2147483648.
Proof.
  intros Hin.
  destruct (peer_entries_spec _ _ _ _ _ _ _ _ (a_peers _ _ _ _ _ _ _ _ _ _ _ _ A)) as [F I].
  rewrite Forall_forall in F. destruct (F p Hin) as (P1 & P2 & P3 & P4). specialize (I p Hin).
  pose proof Hp as Hq. rewrite forallb_forall in Hq. specialize (Hq _ I). unfold is_peer_if in Hq.
  destruct (Nw.find_nif (Nw.a_ifs a) (Ex.p_in p)) as [f|] eqn:Ff; [|discriminate].
  destruct (nif_facts _ _ _ Hain Ff) as (Hid & Hnz & H16 & Hr16).
  unfold Ex.remote_info in P4. apply N.eqb_neq in Hnz. rewrite Hnz in P4.
  cbn [cfg_of Ex.c_ifs] in P4. rewrite lookup_intfs, Ff in P4. cbn [option_map Ex.i_rif Ex.i_ia Ex.i_mtu] in P4.
  destruct (Nw.ni_remote f =? 0); [discriminate|].
  destruct (Ex.wildcard (ia_of (Nw.ni_nbr f))); [discriminate|]. inversion P4 as [[Q1 Q2 Q3]].
  split; [apply new_mac; exact P1|]. split; [exact P2|]. split; [exact P3|]. split.
  - exists a, f. rewrite ia_n_of. repeat split; auto. now apply lt_eqb_eq.
  - split; [exact H16|]. split; [exact Hr16|]. destruct (Hctl (Nw.a_ia a)) as (_ & _ & Hi). apply Hi.
Qed.

Lemma new_wf_entry : Sg.wf_entry (entry_of e) = true /\ Sg.peers_ok (entry_of e) = true.
Proof.
  pose proof exp_range as Hx. destruct ingress_ok as [Hi Him]. destruct egress_ok as [He _].
  pose proof (a_mac _ _ _ _ _ _ _ _ _ _ _ _ A) as M. unfold Ex.hop_mac in M. cbn [option_map] in M.
  assert (M' : firstn 6 (fullmac (Nw.a_key a) (Ex.mac_input (Ex.extract_beta s) (Ex.s_ts s) (Ex.e_exp e) (b_in st) (ch_eg c)))
               = Ex.e_mac e) by congruence. clear M.
  destruct (mac6_wf (Nw.a_key a) (Ex.mac_input (Ex.extract_beta s) (Ex.s_ts s) (Ex.e_exp e) (b_in st) (ch_eg c)))
    as [ML MB].
  destruct (a_mtus _ _ _ _ _ _ _ _ _ _ _ _ A) as [Mt _]. cbn [cfg_of Ex.c_mtu] in Mt.
  destruct (Hctl (Nw.a_ia a)) as (_ & Hk & _).
  split.
  - unfold Sg.wf_entry, Sg.wf_hop, entry_of, hop_of.
    cbn [Sg.ae_hop Sg.ae_inmtu Sg.ae_mtu Sg.ae_peers Sg.h_in Sg.h_eg Sg.h_exp Sg.h_mac].
    rewrite (a_in _ _ _ _ _ _ _ _ _ _ _ _ A), (a_eg _ _ _ _ _ _ _ _ _ _ _ _ A), <- M', ML, MB, Mt.
    replace (b_in st <? 65536) with true by lia. replace (ch_eg c <? 65536) with true by lia.
    replace (Z.to_N (Ex.e_exp e) <? 256) with true by lia.
    replace (Ex.e_inmtu e <? 2147483648) with true by lia.
    replace (k_mtu k <? 2147483648) with true by lia. cbn [Nat.eqb andb].
    apply forallb_forall. intros q Hq. apply in_map_iff in Hq as (p & <- & Hp').
    destruct (new_peer p Hp') as (PM & PX & PE & _ & P16 & R16 & PMtu).
    cbn [peer_of Sg.pe_hop Sg.pe_if Sg.pe_mtu Sg.h_in Sg.h_eg Sg.h_exp Sg.h_mac].
    rewrite PM, PX, PE. unfold mac6. 
    match goal with |- context [firstn 6 (fullmac ?kk ?ii)] => destruct (mac6_wf kk ii) as [L2 B2] end.
    rewrite L2, B2.
    replace (Ex.p_in p <? 65536) with true by lia. replace (ch_eg c <? 65536) with true by lia.
    replace (Z.to_N (Ex.e_exp e) <? 256) with true by lia.
    replace (Ex.p_rif p <? 65536) with true by lia. replace (Ex.p_mtu p <? 2147483648) with true by lia.
    reflexivity.
  - unfold Sg.peers_ok, entry_of. cbn [Sg.ae_peers Sg.ae_hop hop_of Sg.h_eg].
    apply forallb_forall. intros q Hq. apply in_map_iff in Hq as (p & <- & Hp').
    destruct (new_peer p Hp') as (_ & _ & PE & _). cbn [peer_of Sg.pe_hop Sg.h_eg].
    rewrite PE, (a_eg _ _ _ _ _ _ _ _ _ _ _ _ A). apply N.eqb_refl.
Qed.

(** beta of the new entry and of its peers *)
Lemma new_beta : CP.beta_at (seg_of s') n = Ex.extract_beta s.
Proof. rewrite beta_at_snoc by lia. symmetry. apply extract_beta_bridge. apply (i_wf _ _ Hinv). Qed.

Lemma new_peer_beta :
  CP.beta_at (seg_of s') (S n) = N.lxor (Ex.extract_beta s) (Ex.sigma (Ex.e_mac e)).
Proof.
  unfold CP.beta_at. rewrite beta_S by (rewrite sigmas_length; unfold snoc; cbn [Ex.s_entries]; rewrite app_length; cbn; lia).
  fold (CP.beta_at (seg_of s') n). rewrite new_beta. f_equal.
  rewrite sigmas_snoc. rewrite app_nth2 by (rewrite sigmas_length; lia).
  rewrite sigmas_length, Nat.sub_diag. cbn [nth]. symmetry. apply sigma_mac16.
  apply wf_entry_mac_len. apply new_wf_entry.
Qed.

Lemma new_entry_ok : CP.entry_ok mac t core (seg_of s') n (entry_of e).
Proof.
  unfold CP.entry_ok. split; [|split].
  - exists a. rewrite new_ia. split; [exact Ha|].
    cbn [entry_of Sg.ae_hop hop_of Sg.h_mac Sg.h_exp Sg.h_in Sg.h_eg]. rewrite new_beta.
    rewrite (a_in _ _ _ _ _ _ _ _ _ _ _ _ A), (a_eg _ _ _ _ _ _ _ _ _ _ _ _ A).
    apply new_mac. exact (a_mac _ _ _ _ _ _ _ _ _ _ _ _ A).
  - apply Forall_forall. intros q Hq. cbn [entry_of Sg.ae_peers] in Hq.
    apply in_map_iff in Hq as (p & <- & Hp').
    destruct (new_peer p Hp') as (PM & PX & PE & PL & _).
    rewrite new_ia, new_peer_beta.
    cbn [peer_of Sg.pe_hop Sg.pe_ia Sg.pe_if entry_of Sg.ae_hop hop_of Sg.h_mac Sg.h_exp Sg.h_in Sg.h_eg].
    split; [|split].
    + exists a. split; [exact Ha|]. cbn [Sg.h_mac Sg.h_exp Sg.h_in Sg.h_eg]. rewrite PX, PE. exact PM.
    + rewrite PE. symmetry. exact (a_eg _ _ _ _ _ _ _ _ _ _ _ _ A).
    + exact PL.
  - cbn [seg_of Sg.sg_entries]. rewrite entries_snoc.
    replace (nth_error (entries_of s ++ [entry_of e]) (S n)) with (@None Sg.as_entry); [exact I|].
    symmetry. apply nth_error_None. rewrite app_length, entries_length. cbn. lia.
Qed.

Lemma old_entry_ok i e0 :
  nth_error (entries_of s) i = Some e0 -> CP.entry_ok mac t core (seg_of s') i e0.
Proof.
  intros Hn. pose proof (i_entries _ _ Hinv i e0 Hn) as (O1 & O2 & O3).
  assert (Hi : (i < n)%nat) by (rewrite <- entries_length; apply nth_error_Some; congruence).
  unfold CP.entry_ok. rewrite !beta_at_snoc by lia. rewrite ts_of_snoc. split; [exact O1|]. split; [exact O2|].
  cbn [seg_of Sg.sg_entries] in O3 |- *. rewrite entries_snoc.
  destruct (Nat.eq_dec (S i) n) as [E|E].
  - rewrite nth_error_app2 by (rewrite entries_length; lia). rewrite entries_length, E, Nat.sub_diag.
    cbn [nth_error]. rewrite new_ia. cbn [entry_of Sg.ae_hop hop_of Sg.h_in].
    rewrite (a_in _ _ _ _ _ _ _ _ _ _ _ _ A).
    assert (Hl : nth_error (entries_of s) (length (entries_of s) - 1) = Some e0).
    { rewrite entries_length. replace (n - 1)%nat with i by lia. exact Hn. }
    pose proof (i_last _ _ Hinv e0 Hl) as L. rewrite Hnd in L. exact L.
  - rewrite nth_error_app1 by (rewrite entries_length; lia). exact O3.
Qed.

Lemma step_inv : inv core (mkSt s' nbr rem (ch_eg c =? 0)).
Proof.
  destruct new_wf_entry as [W P].
  constructor; cbn [b_seg b_at b_in b_done].
  - exact (i_ts _ _ Hinv).
  - exact (i_sid _ _ Hinv).
  - intros i e0. rewrite entries_snoc. intros Hn.
    destruct (Nat.lt_ge_cases i n) as [L|G].
    + rewrite nth_error_app1 in Hn by (rewrite entries_length; lia). now apply old_entry_ok.
    + rewrite nth_error_app2 in Hn by (rewrite entries_length; lia). rewrite entries_length in Hn.
      destruct (i - n)%nat as [|j] eqn:D; [|destruct j; discriminate].
      cbn in Hn. inversion Hn; subst e0. replace i with n by lia. apply new_entry_ok.
  - rewrite entries_snoc, forallb_app, (i_wf _ _ Hinv). cbn [forallb andb]. now rewrite W.
  - rewrite entries_snoc, forallb_app, (i_peers _ _ Hinv). cbn [forallb andb]. now rewrite P.
  - rewrite entries_snoc. pose proof (i_first _ _ Hinv) as F.
    destruct (entries_of s) as [|e0 r] eqn:E; [|exact F].
    cbn [app entry_of Sg.ae_hop hop_of Sg.h_in Sg.h_eg].
    rewrite (a_in _ _ _ _ _ _ _ _ _ _ _ _ A), (a_eg _ _ _ _ _ _ _ _ _ _ _ _ A).
    destruct F as [F _]. split; [exact F|].
    pose proof (a_pos _ _ _ _ _ _ _ _ _ _ _ _ A) as Pz. unfold Ex.position_inconsistent in Pz.
    rewrite F in Pz. cbn [N.eqb] in Pz. intros Z0. rewrite Z0 in Pz. cbn in Pz.
    now rewrite orb_true_r in Pz.
  - intros e0. rewrite entries_snoc, app_length. cbn [length].
    rewrite nth_error_app2 by lia. replace (length (entries_of s) + 1 - 1 - length (entries_of s))%nat with 0%nat by lia.
    cbn [nth_error]. intros H. inversion H; subst e0. cbn [entry_of Sg.ae_hop hop_of Sg.h_eg].
    rewrite (a_eg _ _ _ _ _ _ _ _ _ _ _ _ A).
    destruct (ch_eg c =? 0) eqn:Z0; [lia|]. change (Sg.ae_ia _) with (Sg.ae_ia (entry_of e)). rewrite new_ia.
    now apply egress_ok.
Qed.

End Step.

Lemma step_preserves core st c st' : step fullmac ctl_of t core st c = Some st' -> inv core st -> inv core st'.
Proof.
  unfold step. destruct (b_done st) eqn:D; [discriminate|].
  destruct (Nw.find_as t (b_at st)) as [a|] eqn:Ha; [|discriminate].
  destruct (forallb (is_peer_if a) (ch_peers c)) eqn:Hp; [|discriminate]. cbn [negb].
  destruct (target core a (ch_eg c)) as [[nbr rem]|] eqn:Ht; [|discriminate].
  destruct (Ex.extend _ _ _ _ _ _ _ _ _) as [e idx sg| |] eqn:X; try discriminate.
  intros H Hinv. inversion H; subst st'. apply extend_ok in X as (_ & sgn & A).
  eapply step_inv; eauto.
Qed.

Lemma steps_preserve core cs : forall st st', steps fullmac ctl_of t core st cs = Some st' -> inv core st -> inv core st'.
Proof.
  induction cs as [|c r IH]; intros st st'; cbn [steps].
  - intros H; inversion H; auto.
  - destruct (step fullmac ctl_of t core st c) as [st1|] eqn:S1; [|discriminate]. intros H Hinv.
    apply (IH st1 st' H). eapply step_preserves; eauto.
Qed.

(** MAIN: every segment a beaconing run registers is [beaconed] *)
Theorem beaconing_beaconed core origin ts segid cs s :
  run fullmac ctl_of t core origin ts segid cs = Some s -> CP.beaconed mac t core s.
Proof.
  unfold run. destruct (segid <? 65536) eqn:S16; [|discriminate]. cbn [negb].
  destruct (steps fullmac ctl_of t core (init origin ts segid) cs) as [st|] eqn:St; [|discriminate].
  destruct (b_done st) eqn:D; [|discriminate]. intros H; inversion H; subst s; clear H.
  assert (Hinv : inv core st) by (eapply steps_preserve; [exact St|apply inv_init; lia]).
  pose proof (i_first _ _ Hinv) as F. pose proof (i_last _ _ Hinv) as L. rewrite D in L.
  destruct (entries_of (b_seg st)) as [|e0 r] eqn:E; [destruct F; congruence|].
  destruct F as [F1 F2].
  assert (Hlast : exists el, nth_error (e0 :: r) (length (e0 :: r) - 1) = Some el).
  { destruct (nth_error (e0 :: r) (length (e0 :: r) - 1)) as [el|] eqn:N; [now exists el|].
    apply nth_error_None in N. cbn [length] in N. lia. }
  destruct Hlast as (el & Hel). pose proof (L el Hel) as Lz.
  unfold CP.beaconed. split; [|split; [|split]].
  - unfold Sg.validate. cbn [seg_of Sg.sg_entries]. rewrite E.
    rewrite (nth_error_last _ e0 _ Hel), F1, Lz. cbn [N.eqb andb].
    rewrite <- E. apply (i_peers _ _ Hinv).
  - unfold Sg.wf_fields. cbn [seg_of Sg.sg_segid Sg.sg_entries].
    pose proof (i_sid _ _ Hinv). rewrite (i_wf _ _ Hinv). lia.
  - intros _. cbn [seg_of Sg.sg_entries]. rewrite E. destruct r as [|e1 r]; [|cbn; lia].
    cbn in Hel. inversion Hel; subst el. congruence.
  - cbn [seg_of Sg.sg_entries]. exact (i_entries _ _ Hinv).
Qed.

End Run.
