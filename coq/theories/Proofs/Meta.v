(** Lemmas about Model/Meta.v (C19). *)
From Coq Require Import List Arith NArith ZArith Bool Lia ZifyBool ZifyN ZifyNat.
From Scion Require Import Lib.Check Model.Meta.
Import ListNotations.
Import Meta.
Local Open Scope N_scope.

Ltac Zify.zify_post_hook ::= Z.div_mod_to_equations.

(** ------------------------------------------------------------------
    MetaHdr: the 32-bit word *)

Ltac pows :=
  change (2 ^ 32) with 4294967296 in *; change (2 ^ 30) with 1073741824 in *;
  change (2 ^ 24) with 16777216 in *; change (2 ^ 18) with 262144 in *;
  change (2 ^ 12) with 4096 in *; change (2 ^ 6) with 64 in *.

Lemma meta_decode_bits_eq w : meta_decode_bits w = meta_decode w.
Proof.
  unfold meta_decode_bits, meta_decode, u8.
  change 255 with (N.ones 8). change 63 with (N.ones 6).
  rewrite !N.land_ones, !N.shiftr_div_pow2. reflexivity.
Qed.

Lemma meta_decode_wf w : w < 2 ^ 32 -> wf_meta (meta_decode w).
Proof.
  intros H. unfold wf_meta, meta_decode, u8; cbn [curr_inf curr_hf seg0 seg1 seg2]. pows.
  repeat split; lia.
Qed.

Lemma mod256_64 x : (x mod 256) mod 64 = x mod 64.
Proof. lia. Qed.

(** base-64 digits of a word *)
Lemma split_word w :
  w = 64 * (w / 2 ^ 6) + w mod 64 /\
  w / 2 ^ 6 = 64 * (w / 2 ^ 12) + (w / 2 ^ 6) mod 64 /\
  w / 2 ^ 12 = 64 * (w / 2 ^ 18) + (w / 2 ^ 12) mod 64 /\
  w / 2 ^ 18 = 64 * (w / 2 ^ 24) + (w / 2 ^ 18) mod 64 /\
  w / 2 ^ 24 = 64 * (w / 2 ^ 30) + (w / 2 ^ 24) mod 64.
Proof.
  change (2 ^ 30) with (2 ^ 24 * 64). change (2 ^ 24) with (2 ^ 18 * 64).
  change (2 ^ 18) with (2 ^ 12 * 64). change (2 ^ 12) with (2 ^ 6 * 64).
  rewrite <- !N.div_div by discriminate.
  change (2 ^ 6) with 64.
  repeat split; apply N.div_mod'.
Qed.

Lemma meta_decode_alt w : w < 2 ^ 32 ->
  meta_decode w = {| curr_inf := w / 2 ^ 30; curr_hf := (w / 2 ^ 24) mod 64;
                     seg0 := (w / 2 ^ 12) mod 64; seg1 := (w / 2 ^ 6) mod 64; seg2 := w mod 64 |}.
Proof.
  intros H. unfold meta_decode, u8. rewrite !mod256_64. f_equal.
  apply N.mod_small. pows. lia.
Qed.

Ltac digits_of w :=
  let H := fresh in
  pose proof (split_word w) as H;
  pose proof (N.mod_lt w 64 ltac:(discriminate));
  pose proof (N.mod_lt (w / 2 ^ 6) 64 ltac:(discriminate));
  pose proof (N.mod_lt (w / 2 ^ 12) 64 ltac:(discriminate));
  pose proof (N.mod_lt (w / 2 ^ 18) 64 ltac:(discriminate));
  pose proof (N.mod_lt (w / 2 ^ 24) 64 ltac:(discriminate));
  generalize dependent (w mod 64); intros ?d0;
  generalize dependent ((w / 2 ^ 6) mod 64); intros ?d1;
  generalize dependent ((w / 2 ^ 12) mod 64); intros ?d2;
  generalize dependent ((w / 2 ^ 18) mod 64); intros ?d3;
  generalize dependent ((w / 2 ^ 24) mod 64); intros ?d4;
  generalize dependent (w / 2 ^ 6); intros ?a1;
  generalize dependent (w / 2 ^ 12); intros ?a2;
  generalize dependent (w / 2 ^ 18); intros ?a3;
  generalize dependent (w / 2 ^ 24); intros ?a4;
  generalize dependent (w / 2 ^ 30); intros ?a5.

Lemma meta_decode_fields w : w < 2 ^ 32 ->
  let m := meta_decode w in
  w = curr_inf m * 2 ^ 30 + curr_hf m * 2 ^ 24 + ((w / 2 ^ 18) mod 64) * 2 ^ 18
      + seg0 m * 2 ^ 12 + seg1 m * 2 ^ 6 + seg2 m.
Proof.
  intros H. cbv zeta. rewrite meta_decode_alt by exact H. cbn [curr_inf curr_hf seg0 seg1 seg2].
  digits_of w. intros. pows. lia.
Qed.

Lemma meta_decode_encode m : wf_meta m -> meta_decode (meta_encode m) = m.
Proof.
  destruct m as [ci ch s0 s1 s2]. unfold wf_meta, meta_decode, meta_encode, u8, u32.
  cbn [curr_inf curr_hf seg0 seg1 seg2]. pows. intros (H1 & H2 & H3 & H4 & H5).
  rewrite !mod256_64.
  rewrite (N.mod_small (ci * _)) by lia. rewrite (N.mod_small ch), (N.mod_small s0), (N.mod_small s1),
    (N.mod_small s2) by assumption.
  set (W := ci * 1073741824 + ch * 16777216 + s0 * 4096 + s1 * 64 + s2).
  assert (E5 : W / 1073741824 = ci).
  { symmetry. apply (N.div_unique _ _ _ (ch * 16777216 + s0 * 4096 + s1 * 64 + s2)); unfold W; lia. }
  assert (E4 : W / 16777216 = ci * 64 + ch).
  { symmetry. apply (N.div_unique _ _ _ (s0 * 4096 + s1 * 64 + s2)); unfold W; lia. }
  assert (E2 : W / 4096 = (ci * 64 + ch) * 4096 + s0).
  { symmetry. apply (N.div_unique _ _ _ (s1 * 64 + s2)); unfold W; lia. }
  assert (E1 : W / 64 = ((ci * 64 + ch) * 4096 + s0) * 64 + s1).
  { symmetry. apply (N.div_unique _ _ _ s2); unfold W; lia. }
  rewrite E5, E4, E2, E1. f_equal.
  - apply N.mod_small; lia.
  - symmetry. apply (N.mod_unique _ _ ci); lia.
  - symmetry. apply (N.mod_unique _ _ ((ci * 64 + ch) * 64)); lia.
  - symmetry. apply (N.mod_unique _ _ ((ci * 64 + ch) * 4096 + s0)); lia.
  - symmetry. apply (N.mod_unique _ _ (((ci * 64 + ch) * 4096 + s0) * 64 + s1)); unfold W; lia.
Qed.

(** what SerializeTo writes for arbitrary uint8 field values: the fields truncated to their widths *)
Lemma meta_encode_trunc m :
  meta_encode m = (curr_inf m mod 4) * 2 ^ 30 + (curr_hf m mod 64) * 2 ^ 24
                  + (seg0 m mod 64) * 2 ^ 12 + (seg1 m mod 64) * 2 ^ 6 + seg2 m mod 64.
Proof.
  unfold meta_encode, u32. do 4 f_equal. pows.
  generalize (curr_inf m); intros c. lia.
Qed.

Lemma meta_encode_lt m : meta_encode m < 2 ^ 32.
Proof.
  rewrite meta_encode_trunc.
  pose proof (N.mod_lt (curr_inf m) 4 ltac:(discriminate)).
  pose proof (N.mod_lt (curr_hf m) 64 ltac:(discriminate)).
  pose proof (N.mod_lt (seg0 m) 64 ltac:(discriminate)).
  pose proof (N.mod_lt (seg1 m) 64 ltac:(discriminate)).
  pose proof (N.mod_lt (seg2 m) 64 ltac:(discriminate)).
  generalize dependent (curr_inf m mod 4). generalize dependent (curr_hf m mod 64).
  generalize dependent (seg0 m mod 64). generalize dependent (seg1 m mod 64).
  generalize dependent (seg2 m mod 64). intros. pows. lia.
Qed.

Lemma meta_encode_decode w : w < 2 ^ 32 ->
  meta_encode (meta_decode w) + ((w / 2 ^ 18) mod 64) * 2 ^ 18 = w.
Proof.
  intros H. rewrite meta_encode_trunc, meta_decode_alt by exact H.
  cbn [curr_inf curr_hf seg0 seg1 seg2]. rewrite !N.mod_mod by discriminate.
  assert (L : w / 2 ^ 30 < 4) by (apply N.div_lt_upper_bound; [discriminate | exact H]).
  rewrite (N.mod_small _ 4) by exact L.
  digits_of w. intros. pows. lia.
Qed.

(** ------------------------------------------------------------------
    Base.DecodeFromBytes *)
Lemma ltb0 x : (0 <? x) = negb (x =? 0).
Proof. lia. Qed.

Definition decoded_base (m : meta) : base :=
  {| pm := m; num_inf := count_nonzero m; num_hops := seg0 m + seg1 m + seg2 m |}.

Lemma base_decode_spec m :
  base_decode m = if shape_ok m then Some (decoded_base m) else None.
Proof.
  destruct m as [ci ch a b c].
  unfold base_decode, shape_ok, decoded_base, count_nonzero, dec_step, max_hops.
  cbn [fold_left seglen seg0 seg1 seg2].
  destruct a as [|a]; destruct b as [|b]; destruct c as [|c]; cbn; try reflexivity;
    rewrite N.ltb_antisym;
    try replace (b + a)%positive with (a + b)%positive by lia;
    try replace (c + b + a)%positive with (a + b + c)%positive by lia;
    match goal with |- context [?x <=? 64] => destruct (x <=? 64) end; reflexivity.
Qed.

Lemma base_decode_accept_iff m :
  (exists b, base_decode m = Some b) <-> shape_ok m = true.
Proof.
  rewrite base_decode_spec. destruct (shape_ok m); split; intros H; try reflexivity; eauto.
  - destruct H as [b H]. discriminate.
  - discriminate.
Qed.

Lemma base_decode_some m b : base_decode m = Some b -> shape_ok m = true /\ b = decoded_base m.
Proof.
  rewrite base_decode_spec. destruct (shape_ok m); intros H; [|discriminate].
  inversion H. split; reflexivity.
Qed.

Lemma shape_ok_prop m :
  shape_ok m = true <->
  (seg1 m = 0 -> seg2 m = 0) /\ (seg0 m = 0 -> seg1 m = 0) /\ seg0 m + seg1 m + seg2 m <= 64.
Proof. unfold shape_ok. lia. Qed.

(** ------------------------------------------------------------------
    The layout list *)
Lemma nth_error_repeat {A} (x : A) k n : (n < k)%nat -> nth_error (repeat x k) n = Some x.
Proof.
  revert n; induction k as [|k IH]; intros n H; [lia|].
  destruct n; cbn; [reflexivity|]. apply IH. lia.
Qed.

Lemma nth_error_3 {A} (x y z : A) a b c n :
  nth_error (repeat x a ++ repeat y b ++ repeat z c) n =
  if (n <? a)%nat then Some x else if (n <? a + b)%nat then Some y
  else if (n <? a + b + c)%nat then Some z else None.
Proof.
  destruct (Nat.ltb_spec n a).
  - rewrite nth_error_app1 by (rewrite repeat_length; lia). now apply nth_error_repeat.
  - rewrite nth_error_app2 by (rewrite repeat_length; lia). rewrite repeat_length.
    destruct (Nat.ltb_spec n (a + b)).
    + rewrite nth_error_app1 by (rewrite repeat_length; lia). apply nth_error_repeat. lia.
    + rewrite nth_error_app2 by (rewrite repeat_length; lia). rewrite repeat_length.
      destruct (Nat.ltb_spec n (a + b + c)).
      * apply nth_error_repeat. lia.
      * apply nth_error_None. rewrite repeat_length. lia.
Qed.

Lemma seg_at_arith m hf :
  seg_at m hf = if hf <? seg0 m then Some 0 else if hf <? seg0 m + seg1 m then Some 1
                else if hf <? seg0 m + seg1 m + seg2 m then Some 2 else None.
Proof.
  unfold seg_at, seg_map. rewrite nth_error_3.
  destruct (Nat.ltb_spec (N.to_nat hf) (N.to_nat (seg0 m))); destruct (N.ltb_spec hf (seg0 m)); try lia;
    [reflexivity|].
  destruct (Nat.ltb_spec (N.to_nat hf) (N.to_nat (seg0 m) + N.to_nat (seg1 m)));
    destruct (N.ltb_spec hf (seg0 m + seg1 m)); try lia; [reflexivity|].
  destruct (Nat.ltb_spec (N.to_nat hf) (N.to_nat (seg0 m) + N.to_nat (seg1 m) + N.to_nat (seg2 m)));
    destruct (N.ltb_spec hf (seg0 m + seg1 m + seg2 m)); try lia; reflexivity.
Qed.

Lemma seg_map_length m : N.of_nat (length (seg_map m)) = seg0 m + seg1 m + seg2 m.
Proof. unfold seg_map. rewrite !app_length, !repeat_length. lia. Qed.

(** [infIndexForHF] on an accepted shape: the segment the layout assigns to the hop; 2 beyond the path *)
Lemma inf_index_arith m hf : seg0 m + seg1 m <= 64 ->
  inf_index_for_hf m hf = if hf <? seg0 m then 0 else if hf <? seg0 m + seg1 m then 1 else 2.
Proof. intros H. unfold inf_index_for_hf, u8. rewrite (N.mod_small (seg0 m + seg1 m)) by lia. reflexivity. Qed.

Lemma inf_index_seg_at m hf : shape_ok m = true -> hf < seg0 m + seg1 m + seg2 m ->
  seg_at m hf = Some (inf_index_for_hf m hf).
Proof.
  intros S H. apply shape_ok_prop in S. rewrite seg_at_arith, inf_index_arith by lia.
  destruct (N.ltb_spec hf (seg0 m)); [reflexivity|].
  destruct (N.ltb_spec hf (seg0 m + seg1 m)); [reflexivity|].
  destruct (N.ltb_spec hf (seg0 m + seg1 m + seg2 m)); [reflexivity|lia].
Qed.

Lemma seg_at_lt m hf k : seg_at m hf = Some k -> hf < seg0 m + seg1 m + seg2 m /\ k < 3.
Proof.
  rewrite seg_at_arith.
  destruct (N.ltb_spec hf (seg0 m)); [intros E; inversion E; lia|].
  destruct (N.ltb_spec hf (seg0 m + seg1 m)); [intros E; inversion E; lia|].
  destruct (N.ltb_spec hf (seg0 m + seg1 m + seg2 m)); [intros E; inversion E; lia|discriminate].
Qed.

(** ------------------------------------------------------------------
    Pointer arithmetic on an accepted shape (a, b, c) *)
Ltac bdestr :=
  repeat match goal with
  | |- context [N.ltb ?x ?y] => destruct (N.ltb_spec x y)
  | |- context [N.leb ?x ?y] => destruct (N.leb_spec x y)
  | |- context [N.eqb ?x ?y] => destruct (N.eqb_spec x y)
  end.

Section Shape.
Variables a b c : N.
Definition mk (ci ch : N) : meta := {| curr_inf := ci; curr_hf := ch; seg0 := a; seg1 := b; seg2 := c |}.
Hypothesis SOK : shape_ok (mk 0 0) = true.
Let tot := a + b + c.
Definition B (ci ch : N) : base := decoded_base (mk ci ch).

Lemma S' : (b = 0 -> c = 0) /\ (a = 0 -> b = 0) /\ a + b + c <= 64.
Proof. pose proof SOK as X. apply shape_ok_prop in X. exact X. Qed.

Lemma B_with ci ch ci' ch' : base_with_ptrs (B ci ch) ci' ch' = B ci' ch'.
Proof. reflexivity. Qed.

Lemma seg_at_mk ci ch hf :
  seg_at (mk ci ch) hf = if hf <? a then Some 0 else if hf <? a + b then Some 1
                         else if hf <? a + b + c then Some 2 else None.
Proof. apply seg_at_arith. Qed.

Lemma idx_mk ci ch hf :
  inf_index_for_hf (mk ci ch) hf = if hf <? a then 0 else if hf <? a + b then 1 else 2.
Proof. apply inf_index_arith. cbn [seg0 seg1 mk]. pose proof S'. lia. Qed.

Lemma seg_at_idx ci ch hf : hf < tot -> seg_at (mk ci ch) hf = Some (inf_index_for_hf (mk ci ch) hf).
Proof. intros H. rewrite seg_at_mk, idx_mk. unfold tot in H. bdestr; try reflexivity; lia. Qed.

Lemma seg_at_none ci ch hf : tot <= hf -> seg_at (mk ci ch) hf = None.
Proof. intros H. rewrite seg_at_mk. unfold tot in H. bdestr; try reflexivity; lia. Qed.

Lemma match_spec ci ch : ch < tot ->
  curr_inf_matches (B ci ch) = opt_eqb (seg_at (mk ci ch) ch) (Some ci).
Proof.
  intros H. rewrite (seg_at_idx _ _ _ H). unfold curr_inf_matches, opt_eqb, option_eqb.
  cbn [B decoded_base pm curr_inf curr_hf mk]. apply N.eqb_sym.
Qed.

Lemma last_spec ci ch : is_last_hop (B ci ch) = (ch + 1 =? tot).
Proof. reflexivity. Qed.

Lemma xover_spec ci ch : ch < tot ->
  is_xover (B ci ch) =
  match seg_at (mk ci ch) (ch + 1) with Some k => negb (k =? ci) | None => false end.
Proof.
  intros H. pose proof S' as (_ & _ & L). fold tot in L.
  unfold is_xover, u8. cbn [B decoded_base pm curr_inf curr_hf mk num_hops seg0 seg1 seg2]. fold tot.
  rewrite (N.mod_small (ch + 1)), (N.mod_small tot) by lia.
  destruct (N.ltb_spec (ch + 1) tot) as [H1|H1]; cbn [andb].
  - rewrite (seg_at_idx _ _ _ H1). cbn [mk]. now rewrite N.eqb_sym.
  - now rewrite seg_at_none.
Qed.

Lemma first_spec ci ch : seg_at (mk ci ch) ch = Some ci ->
  is_first_hop_after_xover (B ci ch) =
  if ch =? 0 then false
  else match seg_at (mk ci ch) (ch - 1) with Some k => negb (k =? ci) | None => false end.
Proof.
  intros V. pose proof S' as (S1 & S2 & L).
  unfold is_first_hop_after_xover. cbn [B decoded_base pm curr_inf curr_hf mk].
  rewrite idx_mk. rewrite seg_at_mk in V. rewrite seg_at_mk.
  destruct (N.eqb_spec ch 0) as [->|Hc]; [now rewrite andb_false_r|].
  revert V. bdestr; intros V; inversion V; subst; cbn; try reflexivity; try lia.
Qed.

Lemma inc_mid ci ch : ch + 1 < tot ->
  inc_path (B ci ch) = (B (inf_index_for_hf (mk ci ch) (ch + 1)) (ch + 1), IncOk).
Proof.
  intros H. pose proof S' as (S1 & S2 & L). fold tot in L.
  unfold inc_path, u8. cbn [B decoded_base pm curr_inf curr_hf mk num_hops num_inf seg0 seg1 seg2]. fold tot.
  assert (N0 : count_nonzero (mk ci ch) <> 0).
  { unfold count_nonzero, tot in *. cbn [mk seg0 seg1 seg2]. bdestr; lia. }
  destruct (N.eqb_spec (count_nonzero (mk ci ch)) 0); [contradiction|].
  destruct (N.leb_spec tot (ch + 1)); [lia|].
  rewrite (N.mod_small (ch + 1)) by lia. reflexivity.
Qed.

Lemma inc_last ci ch : ch + 1 = tot -> inc_path (B ci ch) = (B ci ch, IncEnd).
Proof.
  intros H. pose proof S' as (S1 & S2 & L). fold tot in L.
  unfold inc_path, u8. cbn [B decoded_base pm curr_inf curr_hf mk num_hops num_inf seg0 seg1 seg2]. fold tot.
  assert (N0 : count_nonzero (mk ci ch) <> 0).
  { unfold count_nonzero, tot in *. cbn [mk seg0 seg1 seg2]. bdestr; lia. }
  destruct (N.eqb_spec (count_nonzero (mk ci ch)) 0); [contradiction|].
  destruct (N.leb_spec tot (ch + 1)); [|lia].
  replace ((tot + 255) mod 256) with ch by lia. reflexivity.
Qed.

Lemma inc_empty ci ch : tot = 0 -> inc_path (B ci ch) = (B ci ch, IncEmpty).
Proof.
  intros H. unfold inc_path. cbn [B decoded_base pm num_inf].
  assert (N0 : count_nonzero (mk ci ch) = 0).
  { unfold count_nonzero, tot in *. cbn [mk seg0 seg1 seg2]. bdestr; lia. }
  rewrite N0. reflexivity.
Qed.

(** beyond the last hop IncPath fails and parks CurrHF on the last hop *)
Lemma inc_beyond ci ch : 0 < tot -> tot <= ch + 1 -> inc_path (B ci ch) = (B ci (tot - 1), IncEnd).
Proof.
  intros H0 H. pose proof S' as (S1 & S2 & L). fold tot in L.
  unfold inc_path, u8. cbn [B decoded_base pm curr_inf curr_hf mk num_hops num_inf seg0 seg1 seg2]. fold tot.
  assert (N0 : count_nonzero (mk ci ch) <> 0).
  { unfold count_nonzero, tot in *. cbn [mk seg0 seg1 seg2]. bdestr; lia. }
  destruct (N.eqb_spec (count_nonzero (mk ci ch)) 0); [contradiction|].
  destruct (N.leb_spec tot (ch + 1)); [|lia].
  replace ((tot + 255) mod 256) with (tot - 1) by lia. reflexivity.
Qed.

(** segment boundaries in numbers *)
Definition seg_start (k : N) : N := match k with 0 => 0 | 1 => a | _ => a + b end.
Definition seg_end (k : N) : N := match k with 0 => a | 1 => a + b | _ => a + b + c end.

Lemma valid_iff ci ch :
  seg_at (mk ci ch) ch = Some ci <-> ci < 3 /\ seg_start ci <= ch < seg_end ci.
Proof.
  rewrite seg_at_mk. unfold seg_start, seg_end. split.
  - bdestr; intros E; inversion E; subst; cbn; lia.
  - intros (H1 & H2). destruct ci as [|[[]|[]|]]; cbn in *; try lia; bdestr; try reflexivity; lia.
Qed.

Lemma xover_boundary ci ch : seg_at (mk ci ch) ch = Some ci ->
  is_xover (B ci ch) = true <-> ch + 1 = seg_end ci /\ ch + 1 < tot.
Proof.
  intros V. pose proof S' as (S1 & S2 & L). pose proof V as V'. apply valid_iff in V' as (V1 & V2).
  rewrite xover_spec by (unfold tot; destruct ci as [|[[]|[]|]]; cbn in *; lia).
  rewrite seg_at_mk. unfold tot.
  destruct ci as [|[[]|[]|]]; cbn in *; try lia; bdestr; cbn; split; intros; try lia; try discriminate.
Qed.

Lemma first_boundary ci ch : seg_at (mk ci ch) ch = Some ci ->
  is_first_hop_after_xover (B ci ch) = true <-> 0 < ci /\ ch = seg_start ci.
Proof.
  intros V. pose proof S' as (S1 & S2 & L). pose proof V as V'. apply valid_iff in V' as (V1 & V2).
  rewrite first_spec by exact V. rewrite seg_at_mk.
  destruct ci as [|[[]|[]|]]; cbn in *; try lia; bdestr; cbn; split; intros; try lia; try discriminate.
Qed.

(** IncPath at a cross-over moves to the next segment, otherwise stays *)
Lemma inc_segment ci ch : seg_at (mk ci ch) ch = Some ci -> ch + 1 < tot ->
  inf_index_for_hf (mk ci ch) (ch + 1) = if is_xover (B ci ch) then ci + 1 else ci.
Proof.
  intros V H. pose proof S' as (S1 & S2 & L). pose proof V as V'. apply valid_iff in V' as (V1 & V2).
  rewrite xover_spec by lia. rewrite seg_at_mk, idx_mk. unfold tot in *.
  destruct ci as [|[[]|[]|]]; cbn in *; try lia; bdestr; cbn; try reflexivity; try lia.
Qed.

(** the walk *)
Lemma skipn_nth {A} (l : list A) n x : nth_error l n = Some x -> skipn n l = x :: skipn (S n) l.
Proof.
  revert n; induction l as [|y t IH]; intros [|n] H; cbn in *; try discriminate.
  - now inversion H.
  - now apply IH.
Qed.

Lemma walk_from fuel : forall ch, ch < tot -> (N.to_nat (tot - ch) <= fuel)%nat ->
  walk fuel (B (inf_index_for_hf (mk 0 0) ch) ch) = skipn (N.to_nat ch) (seg_map (mk 0 0)).
Proof.
  induction fuel as [|fuel IH]; intros ch H F; [lia|].
  cbn [walk]. cbn [B decoded_base pm curr_inf mk].
  pose proof (seg_at_idx 0 0 ch H) as E. unfold seg_at in E.
  rewrite (skipn_nth _ _ _ E). f_equal.
  destruct (N.eq_dec (ch + 1) tot) as [L|L].
  - change (decoded_base (mk ?x ?y)) with (B x y). rewrite inc_last by exact L.
    symmetry. apply skipn_all2.
    pose proof (seg_map_length (mk 0 0)) as SL. cbn [mk seg0 seg1 seg2] in SL. fold tot in SL. lia.
  - change (decoded_base (mk ?x ?y)) with (B x y). rewrite inc_mid by lia.
    change (inf_index_for_hf (mk ?x ?y) (ch + 1)) with (inf_index_for_hf (mk 0 0) (ch + 1)).
    rewrite IH by lia. f_equal. lia.
Qed.

Lemma walk_all fuel : 0 < tot -> (N.to_nat tot <= fuel)%nat ->
  walk fuel (start (B 0 0)) = seg_map (mk 0 0).
Proof.
  intros H F. unfold start. rewrite B_with.
  assert (E : inf_index_for_hf (mk 0 0) 0 = 0).
  { rewrite idx_mk. pose proof S'. unfold tot in H. bdestr; try reflexivity; lia. }
  rewrite <- E at 1. rewrite walk_from by (try exact H; lia). reflexivity.
Qed.

(** the oracle of the pointer table holds for the model's observation, at every pointer *)
Lemma ptr_oracle_model ci ch :
  ptr_oracle (mk 0 0) tot ci ch (obs_of (B ci ch)) = true.
Proof.
  unfold ptr_oracle, ptr_oracle_on. fold (seg_at (mk 0 0)).
  destruct (N.leb_spec tot ch) as [H|H]; [reflexivity|].
  change (nth_error (seg_map (mk 0 0)) (N.to_nat ?h)) with (seg_at (mk ci ch) h).
  unfold obs_of. cbn [o_match o_last o_inc o_ci o_ch o_xover o_first].
  rewrite match_spec, last_spec by exact H. rewrite !eqb_reflx. cbn [andb].
  apply andb_true_iff; split.
  - destruct (N.eqb_spec (ch + 1) tot) as [L|L].
    + rewrite inc_last by exact L. cbn. rewrite !N.eqb_refl. reflexivity.
    + rewrite inc_mid by lia. cbn [fst snd inc_code B decoded_base pm curr_inf curr_hf mk].
      rewrite !N.eqb_refl. cbn [andb]. rewrite (seg_at_idx ci ch) by lia.
      unfold opt_eqb, option_eqb. apply N.eqb_refl.
  - destruct (opt_eqb (seg_at (mk ci ch) ch) (Some ci)) eqn:V; [|reflexivity]. cbn [negb orb].
    assert (V' : seg_at (mk ci ch) ch = Some ci).
    { unfold opt_eqb, option_eqb in V. destruct (seg_at (mk ci ch) ch); [|discriminate].
      apply N.eqb_eq in V. now subst. }
    rewrite xover_spec by exact H. rewrite first_spec by exact V'. now rewrite !eqb_reflx.
Qed.

End Shape.

(** general form of the statements above, for any decoded meta header *)
Lemma shape_ok_mk m : shape_ok m = shape_ok (mk (seg0 m) (seg1 m) (seg2 m) 0 0).
Proof. reflexivity. Qed.

(** ------------------------------------------------------------------
    Reversal *)
Lemma sub8_invol n x : x < 256 -> sub8 (sub8 n (sub8 (sub8 n x) 1)) 1 = x.
Proof. unfold sub8. intros H. generalize (n mod 256). intros. lia. Qed.

Lemma sub8_exact n x : x < n -> n < 256 -> sub8 (sub8 (u8 n) x) 1 = n - 1 - x.
Proof. unfold sub8, u8. intros. lia. Qed.

Lemma flip_flip i : flip (flip i) = i.
Proof. destruct i; unfold flip; cbn. now rewrite negb_involutive. Qed.

Lemma prefix_split {A} k (l l1 : list A) : length l1 = Nat.min k (length l) ->
  firstn k (l1 ++ skipn k l) = l1 /\ skipn k (l1 ++ skipn k l) = skipn k l.
Proof.
  intros H. destruct (Nat.le_gt_cases k (length l)) as [L|L].
  - assert (length l1 = k) by lia. split.
    + rewrite firstn_app. replace (k - length l1)%nat with 0%nat by lia.
      cbn [firstn]. rewrite app_nil_r. apply firstn_all2. lia.
    + rewrite skipn_app. replace (k - length l1)%nat with 0%nat by lia.
      cbn [skipn]. rewrite (skipn_all2 l1) by lia. reflexivity.
  - rewrite (skipn_all2 l) by lia. rewrite app_nil_r. split.
    + apply firstn_all2. lia.
    + apply skipn_all2. lia.
Qed.

Lemma rev_prefix_invol {A} k (l : list A) : rev_prefix k (rev_prefix k l) = l.
Proof.
  unfold rev_prefix.
  destruct (prefix_split k l (rev (firstn k l))) as [E1 E2].
  { rewrite rev_length, firstn_length. reflexivity. }
  rewrite E1, E2, rev_involutive. apply firstn_skipn.
Qed.

Lemma rev_prefix_length {A} k (l : list A) : length (rev_prefix k l) = length l.
Proof.
  unfold rev_prefix. rewrite app_length, rev_length. rewrite <- (firstn_skipn k l) at 3.
  now rewrite app_length.
Qed.

Lemma rev_prefix_all {A} k (l : list A) : (length l <= k)%nat -> rev_prefix k l = rev l.
Proof.
  intros H. unfold rev_prefix. rewrite firstn_all2, skipn_all2 by lia. apply app_nil_r.
Qed.

Lemma map_prefix_invol {A} (f : A -> A) k (l : list A) : (forall x, f (f x) = x) ->
  map_prefix f k (map_prefix f k l) = l.
Proof.
  intros Hf. unfold map_prefix.
  destruct (prefix_split k l (map f (firstn k l))) as [E1 E2].
  { rewrite map_length, firstn_length. reflexivity. }
  rewrite E1, E2, map_map. rewrite (map_ext _ (fun x => x)) by exact Hf. rewrite map_id.
  apply firstn_skipn.
Qed.

Lemma map_prefix_length {A} (f : A -> A) k (l : list A) : length (map_prefix f k l) = length l.
Proof.
  unfold map_prefix. rewrite app_length, map_length. rewrite <- (firstn_skipn k l) at 3.
  now rewrite app_length.
Qed.

Lemma map_prefix_all {A} (f : A -> A) k (l : list A) : (length l <= k)%nat -> map_prefix f k l = map f l.
Proof.
  intros H. unfold map_prefix. rewrite firstn_all2, skipn_all2 by lia. apply app_nil_r.
Qed.

Lemma swap_infos_cases n l :
  n = 1 \/ n = 2 \/ n = 3 \/ swap_infos n l = None.
Proof. destruct n as [|[[p|p|]|[p|p|]|]]; cbn; auto. Qed.

(** swapping, flipping, swapping and flipping again gives the list back *)
Lemma swap_flip_invol n l l1 : swap_infos n l = Some l1 ->
  swap_infos n (map_prefix flip (N.to_nat n) l1) = Some (map_prefix flip (N.to_nat n) l) /\
  (forall l2, swap_infos n (map_prefix flip (N.to_nat n) l1) = Some l2 ->
              map_prefix flip (N.to_nat n) l2 = l).
Proof.
  destruct (swap_infos_cases n l) as [ -> | [ -> | [ -> | -> ]]]; cbn [swap_infos]; try discriminate;
    change (N.to_nat 1) with 1%nat; change (N.to_nat 2) with 2%nat; change (N.to_nat 3) with 3%nat.
  - destruct l as [|x r]; try discriminate. intros E; inversion E; subst.
    cbn. split; [reflexivity|]. intros l2 E2; inversion E2; subst. cbn. now rewrite !flip_flip.
  - destruct l as [|x [|y r]]; try discriminate. intros E; inversion E; subst.
    cbn. split; [reflexivity|]. intros l2 E2; inversion E2; subst. cbn. now rewrite !flip_flip.
  - destruct l as [|x [|y [|z r]]]; try discriminate. intros E; inversion E; subst.
    cbn. split; [reflexivity|]. intros l2 E2; inversion E2; subst. cbn. now rewrite !flip_flip.
Qed.

Lemma swap_seglen_invol n m ci ch :
  with_ptrs (swap_seglen n (with_ptrs (swap_seglen n m) ci ch)) (curr_inf m) (curr_hf m) = m.
Proof. destruct m; destruct n as [|[[p|p|]|[p|p|]|]]; reflexivity. Qed.

Lemma swap_infos_length n l l1 : swap_infos n l = Some l1 -> length l1 = length l /\ (N.to_nat n <= length l)%nat /\ 1 <= n <= 3.
Proof.
  destruct (swap_infos_cases n l) as [ -> | [ -> | [ -> | -> ]]]; cbn [swap_infos]; try discriminate.
  - destruct l as [|x r]; try discriminate. intros E; inversion E; cbn; lia.
  - destruct l as [|x [|y r]]; try discriminate. intros E; inversion E; cbn; lia.
  - destruct l as [|x [|y [|z r]]]; try discriminate. intros E; inversion E; cbn; lia.
Qed.

(** [Decoded.Reverse] is an involution on everything it accepts (uint8 pointer values, no
    assumption that they are in range) *)
Lemma reverse_decoded_invol p q : wf_u8 (pm (pbase p)) ->
  reverse_decoded p = Ok q -> reverse_decoded q = Ok p.
Proof.
  intros (W1 & W2 & _) R. unfold reverse_decoded in R.
  destruct p as [[m ninf nh] is hs]. cbn [pbase pm num_inf num_hops infos hops] in *.
  destruct (ninf =? 0) eqn:E0; [discriminate|].
  destruct (swap_infos ninf is) as [is1|] eqn:ES; [|discriminate].
  destruct ((2 <=? nh) && (N.of_nat (length hs) <? nh)) eqn:EH; [discriminate|].
  inversion R; subst q; clear R.
  unfold reverse_decoded. cbn [pbase pm num_inf num_hops infos hops]. rewrite E0.
  destruct (swap_flip_invol _ _ _ ES) as [F1 F2]. rewrite F1.
  rewrite rev_prefix_length, EH. f_equal.
  cbn [with_ptrs curr_inf curr_hf].
  rewrite !sub8_invol by assumption.
  rewrite rev_prefix_invol. rewrite (F2 _ F1).
  f_equal. f_equal.
  destruct m; destruct ninf as [|[[p|p|]|[p|p|]|]]; reflexivity.
Qed.

Lemma reverse_decoded_ok_iff p : wf_path p ->
  (exists q, reverse_decoded p = Ok q) <-> num_inf (pbase p) <> 0.
Proof.
  intros (W1 & W2 & W3). unfold reverse_decoded.
  destruct (N.eqb_spec (num_inf (pbase p)) 0) as [E|E].
  - split; [intros [q H]; discriminate | contradiction].
  - split; [intros _; exact E|intros _].
    assert (X : exists l, swap_infos (num_inf (pbase p)) (infos p) = Some l).
    { rewrite W1 in *. destruct (infos p) as [|x [|y [|z [|u r]]]]; cbn in *; try lia; eauto. }
    destruct X as [l ->].
    replace (N.of_nat (length (hops p)) <? num_hops (pbase p)) with false by lia.
    rewrite andb_false_r. eauto.
Qed.

(** on a path with consistent lengths and pointers in range, [Decoded.Reverse] is the mirror image *)
Lemma reverse_decoded_spec p : wf_path p -> num_hops (pbase p) < 256 ->
  ptrs_in_range p = true -> reverse_decoded p = Ok (spec_reverse p).
Proof.
  intros (W1 & W2 & W3) W4 PR. unfold ptrs_in_range in PR. apply andb_true_iff in PR as [P1 P2].
  apply N.ltb_lt in P1, P2.
  destruct p as [[m ninf nh] is hs]. cbn [pbase pm num_inf num_hops infos hops] in *.
  unfold reverse_decoded, spec_reverse. cbn [pbase pm num_inf num_hops infos hops].
  destruct (N.eqb_spec ninf 0); [lia|].
  replace (N.of_nat (length hs) <? nh) with false by lia. rewrite andb_false_r.
  rewrite !sub8_exact by lia.
  rewrite rev_prefix_all by lia.
  destruct is as [|x [|y [|z [|u r]]]]; cbn [length] in W1; try lia; subst ninf;
    cbn; destruct m; reflexivity.
Qed.

(** [Decoded.Reverse] on a path with consistent lengths, any uint8 pointers *)
Definition rev_ptr (n x : N) : N := sub8 (sub8 (u8 n) x) 1.

Definition reversed (p : path) : path :=
  let b := pbase p in let m := pm b in
  {| pbase := {| pm := with_ptrs (swap_seglen (num_inf b) m) (rev_ptr (num_inf b) (curr_inf m))
                                 (rev_ptr (num_hops b) (curr_hf m));
                 num_inf := num_inf b; num_hops := num_hops b |};
     infos := map flip (rev (infos p)); hops := rev (hops p) |}.

Lemma reverse_decoded_wf p : wf_path p -> num_inf (pbase p) <> 0 -> reverse_decoded p = Ok (reversed p).
Proof.
  intros (W1 & W2 & W3) NZ.
  destruct p as [[m ninf nh] is hs]. cbn [pbase pm num_inf num_hops infos hops] in *.
  unfold reverse_decoded, reversed, rev_ptr. cbn [pbase pm num_inf num_hops infos hops].
  destruct (N.eqb_spec ninf 0); [contradiction|].
  replace (N.of_nat (length hs) <? nh) with false by lia. rewrite andb_false_r.
  rewrite rev_prefix_all by lia.
  destruct is as [|x [|y [|z [|u r]]]]; cbn [length] in W1; try lia; subst ninf; reflexivity.
Qed.

(** ------------------------------------------------------------------
    Raw <-> Decoded *)
Definition trunc (m : meta) : meta :=
  {| curr_inf := curr_inf m mod 4; curr_hf := curr_hf m mod 64;
     seg0 := seg0 m mod 64; seg1 := seg1 m mod 64; seg2 := seg2 m mod 64 |}.

Lemma trunc_wf m : wf_meta (trunc m).
Proof. unfold wf_meta, trunc; cbn. repeat split; apply N.mod_lt; discriminate. Qed.

Lemma trunc_id m : wf_meta m -> trunc m = m.
Proof.
  destruct m. unfold wf_meta, trunc; cbn. intros (?&?&?&?&?).
  rewrite !N.mod_small by assumption. reflexivity.
Qed.

Lemma meta_decode_encode_trunc m : meta_decode (meta_encode m) = trunc m.
Proof.
  assert (E : meta_encode m = meta_encode (trunc m)).
  { rewrite !meta_encode_trunc. unfold trunc; cbn [curr_inf curr_hf seg0 seg1 seg2].
    now rewrite !N.mod_mod by discriminate. }
  rewrite E. apply meta_decode_encode, trunc_wf.
Qed.

Definition canonical (p : path) : Prop :=
  wf_path p /\ wf_meta (pm (pbase p)) /\ shape_ok (pm (pbase p)) = true /\
  pbase p = decoded_base (pm (pbase p)).

Lemma firstn_exact {A} (l : list A) n : n = N.of_nat (length l) -> firstn (N.to_nat n) l = l.
Proof. intros ->. rewrite Nat2N.id. apply firstn_all. Qed.

(** serializing a path whose base is consistent with its meta header and decoding it as Raw:
    the same path with the pointers truncated to their field widths *)
Lemma to_raw_trunc p :
  wf_path p -> pbase p = decoded_base (pm (pbase p)) -> shape_ok (pm (pbase p)) = true ->
  seg0 (pm (pbase p)) < 64 -> seg1 (pm (pbase p)) < 64 -> seg2 (pm (pbase p)) < 64 ->
  to_raw p = Some {| pbase := decoded_base (trunc (pm (pbase p))); infos := infos p; hops := hops p |}.
Proof.
  intros (W1 & W2 & W3) EB SH L0 L1 L2. unfold to_raw.
  rewrite W1, W2, !N.eqb_refl. cbn [andb]. unfold path_decode.
  rewrite meta_decode_encode_trunc, base_decode_spec.
  assert (ES : shape_ok (trunc (pm (pbase p))) = shape_ok (pm (pbase p))).
  { unfold shape_ok, trunc; cbn [seg0 seg1 seg2]. now rewrite !N.mod_small by assumption. }
  rewrite ES, SH.
  assert (EL : base_len (decoded_base (trunc (pm (pbase p)))) = base_len (pbase p)).
  { rewrite EB at 2. unfold base_len, decoded_base, count_nonzero, trunc; cbn [num_inf num_hops seg0 seg1 seg2].
    now rewrite !N.mod_small by assumption. }
  rewrite EL, N.ltb_irrefl.
  assert (E1 : num_inf (decoded_base (trunc (pm (pbase p)))) = N.of_nat (length (infos p))).
  { rewrite <- W1. rewrite EB at 2. unfold decoded_base, count_nonzero, trunc; cbn [num_inf seg0 seg1 seg2].
    now rewrite !N.mod_small by assumption. }
  assert (E2 : num_hops (decoded_base (trunc (pm (pbase p)))) = N.of_nat (length (hops p))).
  { rewrite <- W2. rewrite EB at 2. unfold decoded_base, trunc; cbn [num_hops seg0 seg1 seg2].
    now rewrite !N.mod_small by assumption. }
  rewrite (firstn_exact _ _ E1), (firstn_exact _ _ E2). reflexivity.
Qed.

Lemma to_raw_canonical p : canonical p -> to_raw p = Some p.
Proof.
  intros (W & WM & SH & EB). pose proof WM as (?&?&?&?&?).
  rewrite to_raw_trunc by assumption. rewrite trunc_id by exact WM. rewrite <- EB.
  destruct p; reflexivity.
Qed.

Lemma path_decode_canonical w datalen is hs p : w < 2 ^ 32 ->
  path_decode w datalen is hs = Some p ->
  num_inf (pbase p) <= N.of_nat (length is) -> num_hops (pbase p) <= N.of_nat (length hs) ->
  canonical p.
Proof.
  intros Hw D. pose proof (meta_decode_wf w Hw) as WM. unfold path_decode in D.
  set (m := meta_decode w) in *. clearbody m. rewrite base_decode_spec in D.
  destruct (shape_ok m) eqn:SH; [|discriminate].
  destruct (datalen <? base_len (decoded_base m)); [discriminate|].
  inversion D; subst p; clear D. unfold decoded_base. cbn [pbase infos hops num_inf num_hops pm]. intros L1 L2.
  unfold canonical, wf_path, decoded_base. cbn [pbase infos hops num_inf num_hops pm].
  destruct WM as (?&?&?&?&?).
  rewrite !firstn_length. repeat split; try lia; try assumption.
  unfold count_nonzero. bdestr; lia.
Qed.

(** the segment lengths swapped by Reverse still form an accepted shape *)
Lemma swap_shape m : shape_ok m = true ->
  let m' := swap_seglen (count_nonzero m) m in
  shape_ok m' = true /\ count_nonzero m' = count_nonzero m /\
  seg0 m' + seg1 m' + seg2 m' = seg0 m + seg1 m + seg2 m /\
  (seg0 m < 64 -> seg1 m < 64 -> seg2 m < 64 -> seg0 m' < 64 /\ seg1 m' < 64 /\ seg2 m' < 64).
Proof.
  intros SH. apply shape_ok_prop in SH. destruct m as [ci ch x y z]. cbn [seg0 seg1 seg2] in SH.
  unfold count_nonzero; cbn [seg0 seg1 seg2].
  destruct (N.eqb_spec x 0), (N.eqb_spec y 0), (N.eqb_spec z 0); cbn -[N.leb]; try lia;
    rewrite shape_ok_prop; cbn [seg0 seg1 seg2]; bdestr; lia.
Qed.

Lemma forall_range n (f : N -> bool) :
  forallb f (map N.of_nat (seq 0 n)) = true -> forall k, k < N.of_nat n -> f k = true.
Proof.
  intros H k Hk. rewrite forallb_forall in H. apply H.
  apply in_map_iff. exists (N.to_nat k). split; [apply N2Nat.id|]. apply in_seq. lia.
Qed.

Lemma rev_ptr_u8 n x : rev_ptr n x = rev_ptr (n mod 256) x.
Proof. unfold rev_ptr, u8. now rewrite N.mod_mod by discriminate. Qed.

(** after the truncation of the pointers by serialization, reversing twice still restores them
    (checked on all 256 x 4 and 256 x 64 values) *)
Lemma rev_ptr_mod4 n x : x < 4 -> rev_ptr n (rev_ptr n x mod 4) mod 4 = x.
Proof.
  intros H. rewrite (rev_ptr_u8 n), (rev_ptr_u8 n x).
  assert (K : n mod 256 < 256) by (apply N.mod_lt; discriminate). revert K. generalize (n mod 256). intros k K.
  apply N.eqb_eq. revert x H.
  change (forall x, x < N.of_nat 4 -> (fun x => rev_ptr k (rev_ptr k x mod 4) mod 4 =? x) x = true).
  apply forall_range. revert k K.
  change (forall k, k < N.of_nat 256 ->
    (fun k => forallb (fun x => rev_ptr k (rev_ptr k x mod 4) mod 4 =? x) (map N.of_nat (seq 0 4))) k = true).
  apply forall_range. vm_compute. reflexivity.
Qed.

Lemma rev_ptr_mod64 n x : x < 64 -> rev_ptr n (rev_ptr n x mod 64) mod 64 = x.
Proof.
  intros H. rewrite (rev_ptr_u8 n), (rev_ptr_u8 n x).
  assert (K : n mod 256 < 256) by (apply N.mod_lt; discriminate). revert K. generalize (n mod 256). intros k K.
  apply N.eqb_eq. revert x H.
  change (forall x, x < N.of_nat 64 -> (fun x => rev_ptr k (rev_ptr k x mod 64) mod 64 =? x) x = true).
  apply forall_range. revert k K.
  change (forall k, k < N.of_nat 256 ->
    (fun k => forallb (fun x => rev_ptr k (rev_ptr k x mod 64) mod 64 =? x) (map N.of_nat (seq 0 64))) k = true).
  apply forall_range. vm_compute. reflexivity.
Qed.

Lemma trunc_small m : seg0 m < 64 -> seg1 m < 64 -> seg2 m < 64 ->
  trunc m = with_ptrs m (curr_inf m mod 4) (curr_hf m mod 64).
Proof.
  intros. unfold trunc, with_ptrs.
  now rewrite (N.mod_small (seg0 m)), (N.mod_small (seg1 m)), (N.mod_small (seg2 m)) by assumption.
Qed.

(** [Raw.Reverse] on a path as [Raw.DecodeFromBytes] delivers it *)
Definition rr (p : path) : path :=
  let b := pbase p in let m := pm b in
  {| pbase := decoded_base (with_ptrs (swap_seglen (num_inf b) m)
                                      (rev_ptr (num_inf b) (curr_inf m) mod 4)
                                      (rev_ptr (num_hops b) (curr_hf m) mod 64));
     infos := map flip (rev (infos p)); hops := rev (hops p) |}.

Lemma reverse_raw_canonical p : canonical p -> num_inf (pbase p) <> 0 ->
  reverse_raw p = Ok (rr p) /\ canonical (rr p) /\
  num_inf (pbase (rr p)) = num_inf (pbase p) /\ num_hops (pbase (rr p)) = num_hops (pbase p).
Proof.
  intros C NZ. pose proof C as (W & WM & SH & EB). pose proof W as (W1 & W2 & W3).
  pose proof WM as (M1 & M2 & M3 & M4 & M5).
  unfold reverse_raw, to_decoded. rewrite (to_raw_canonical p C). rewrite (reverse_decoded_wf p W NZ).
  set (m := pm (pbase p)) in *.
  assert (EN : num_inf (pbase p) = count_nonzero m) by (rewrite EB; reflexivity).
  assert (EH : num_hops (pbase p) = seg0 m + seg1 m + seg2 m) by (rewrite EB; reflexivity).
  destruct (swap_shape m SH) as (S1 & S2 & S3 & S4). cbv zeta in S1, S2, S3, S4.
  destruct (S4 M3 M4 M5) as (L0 & L1 & L2). rewrite <- EN in *.
  set (m' := swap_seglen (num_inf (pbase p)) m) in *.
  assert (WR : wf_path (reversed p)).
  { unfold wf_path, reversed. cbn [pbase infos hops num_inf num_hops]. rewrite map_length, !rev_length. tauto. }
  assert (ER : pbase (reversed p) = decoded_base (pm (pbase (reversed p)))).
  { unfold reversed, decoded_base. cbn [pbase pm]. fold m. fold m'.
    change (count_nonzero (with_ptrs m' ?x ?y)) with (count_nonzero m').
    cbn [with_ptrs seg0 seg1 seg2]. rewrite S2, S3, <- EH. reflexivity. }
  assert (SHR : shape_ok (pm (pbase (reversed p))) = true) by exact S1.
  assert (K0 : seg0 (pm (pbase (reversed p))) < 64) by exact L0.
  assert (K1 : seg1 (pm (pbase (reversed p))) < 64) by exact L1.
  assert (K2 : seg2 (pm (pbase (reversed p))) < 64) by exact L2.
  rewrite (to_raw_trunc _ WR ER SHR K0 K1 K2).
  rewrite (trunc_small _ K0 K1 K2).
  assert (E : {| pbase := decoded_base (with_ptrs (pm (pbase (reversed p)))
                                         (curr_inf (pm (pbase (reversed p))) mod 4)
                                         (curr_hf (pm (pbase (reversed p))) mod 64));
                 infos := infos (reversed p); hops := hops (reversed p) |} = rr p).
  { unfold rr, reversed. cbn [pbase pm infos hops with_ptrs curr_inf curr_hf seg0 seg1 seg2]. reflexivity. }
  rewrite E. split; [reflexivity|].
  assert (N1 : num_inf (pbase (rr p)) = num_inf (pbase p)).
  { unfold rr, decoded_base. cbn [pbase num_inf]. fold m. fold m'.
    change (count_nonzero (with_ptrs m' ?x ?y)) with (count_nonzero m'). exact S2. }
  assert (N2 : num_hops (pbase (rr p)) = num_hops (pbase p)).
  { unfold rr, decoded_base. cbn [pbase num_hops with_ptrs seg0 seg1 seg2]. fold m. fold m'. lia. }
  split; [|split; assumption].
  unfold canonical, wf_path. rewrite N1, N2. unfold rr at 1 2 3.
  cbn [infos hops]. rewrite map_length, !rev_length.
  repeat split; try assumption.
  - unfold rr. cbn [pbase pm decoded_base with_ptrs curr_inf]. apply N.mod_lt. discriminate.
  - unfold rr. cbn [pbase pm decoded_base with_ptrs curr_hf]. apply N.mod_lt. discriminate.
Qed.

Lemma swap_swap n m : swap_seglen n (swap_seglen n m) = m.
Proof. destruct m; destruct n as [|[[p|p|]|[p|p|]|]]; reflexivity. Qed.

Lemma swap_with n m x y : swap_seglen n (with_ptrs m x y) = with_ptrs (swap_seglen n m) x y.
Proof. destruct m; destruct n as [|[[p|p|]|[p|p|]|]]; reflexivity. Qed.

Lemma with_with m x y u v : with_ptrs (with_ptrs m x y) u v = with_ptrs m u v.
Proof. reflexivity. Qed.

Lemma with_same m : with_ptrs m (curr_inf m) (curr_hf m) = m.
Proof. destruct m; reflexivity. Qed.

Lemma rr_rr p : canonical p -> num_inf (pbase p) <> 0 -> rr (rr p) = p.
Proof.
  intros C NZ. destruct (reverse_raw_canonical p C NZ) as (_ & _ & N1 & N2).
  pose proof C as (W & WM & SH & EB). destruct WM as (M1 & M2 & _).
  unfold rr at 1. rewrite N1, N2.
  assert (PM : pm (pbase (rr p)) =
               with_ptrs (swap_seglen (num_inf (pbase p)) (pm (pbase p)))
                         (rev_ptr (num_inf (pbase p)) (curr_inf (pm (pbase p))) mod 4)
                         (rev_ptr (num_hops (pbase p)) (curr_hf (pm (pbase p))) mod 64)) by reflexivity.
  assert (IS : infos (rr p) = map flip (rev (infos p))) by reflexivity.
  assert (HS : hops (rr p) = rev (hops p)) by reflexivity.
  rewrite PM, IS, HS. cbn [with_ptrs curr_inf curr_hf].
  rewrite swap_with, swap_swap. cbn [with_ptrs curr_inf curr_hf].
  rewrite rev_ptr_mod4, rev_ptr_mod64 by assumption.
  rewrite <- !map_rev, !rev_involutive, map_map.
  rewrite (map_ext _ (fun x => x)) by apply flip_flip. rewrite map_id.
  rewrite with_with.
  rewrite with_same, <- EB. destruct p; reflexivity.
Qed.

(** reversing a Raw path twice restores it, whatever the pointers *)
Lemma reverse_raw_invol p : canonical p -> num_inf (pbase p) <> 0 ->
  exists r, reverse_raw p = Ok r /\ reverse_raw r = Ok p.
Proof.
  intros C NZ. destruct (reverse_raw_canonical p C NZ) as (R1 & C1 & N1 & N2).
  exists (rr p). split; [exact R1|].
  destruct (reverse_raw_canonical (rr p) C1) as (R2 & _); [now rewrite N1|].
  rewrite R2. now rewrite rr_rr.
Qed.

(** pointers in range: Raw and Decoded reversal give the very same path *)
Lemma rev_ptr_exact n x k : x < n -> n <= k -> k <= 64 -> rev_ptr n x mod k = n - 1 - x.
Proof.
  intros H1 H2 H3. unfold rev_ptr. rewrite sub8_exact by lia. apply N.mod_small. lia.
Qed.

Lemma rr_reversed p : canonical p -> ptrs_in_range p = true -> rr p = spec_reverse p.
Proof.
  intros C PR. pose proof C as (W & WM & SH & EB). pose proof W as (W1 & W2 & W3).
  unfold ptrs_in_range in PR. apply andb_true_iff in PR as [P1 P2]. apply N.ltb_lt in P1, P2.
  assert (HL : num_hops (pbase p) <= 64).
  { rewrite EB. cbn [decoded_base num_hops]. apply shape_ok_prop in SH. lia. }
  unfold rr, spec_reverse.
  rewrite (rev_ptr_exact _ _ 4), (rev_ptr_exact _ _ 64) by lia.
  f_equal.
  destruct p as [b is hs]. cbn [pbase] in *. clear W W1 W2 C.
  destruct (pm b) as [ci ch x y z] eqn:EM. subst b.
  unfold decoded_base, count_nonzero in *. cbn [pm num_inf num_hops seg0 seg1 seg2 curr_inf curr_hf] in *.
  apply shape_ok_prop in SH. cbn [seg0 seg1 seg2] in SH. clear EM.
  destruct (N.eqb_spec x 0), (N.eqb_spec y 0), (N.eqb_spec z 0); cbn in P1 |- *; try lia;
    (f_equal; first [lia | bdestr; lia | f_equal; lia]).
Qed.

(** ------------------------------------------------------------------
    The oracles of [check] hold on the model *)
Lemma list_eqb_refl {A} (e : A -> A -> bool) : (forall x, e x x = true) -> forall l, list_eqb e l l = true.
Proof. intros H. induction l as [|x t IH]; cbn; [reflexivity|]. now rewrite H, IH. Qed.

Lemma meta_eqb_refl m : meta_eqb m m = true.
Proof. unfold meta_eqb. now rewrite !N.eqb_refl. Qed.
Lemma base_eqb_refl b : base_eqb b b = true.
Proof. unfold base_eqb. now rewrite meta_eqb_refl, !N.eqb_refl. Qed.
Lemma info_eqb_refl i : info_eqb i i = true.
Proof. unfold info_eqb. now rewrite !eqb_reflx, !N.eqb_refl. Qed.
Lemma path_eqb_refl p : path_eqb p p = true.
Proof.
  unfold path_eqb. rewrite base_eqb_refl, (list_eqb_refl _ info_eqb_refl), (list_eqb_refl _ N.eqb_refl).
  reflexivity.
Qed.
Lemma res_eqb_refl r : res_eqb r r = true.
Proof. destruct r; cbn; auto using path_eqb_refl. Qed.

Lemma word_oracle_model w : w < 2 ^ 32 -> word_oracle w (word_obs w) = true.
Proof.
  intros H. unfold word_oracle, word_obs.
  pose proof (meta_decode_fields w H) as F. cbv zeta in F.
  pose proof (meta_decode_wf w H) as (W1 & W2 & W3 & W4 & W5).
  pose proof (meta_encode_decode w H) as E.
  rewrite <- F at 1. rewrite E. rewrite !N.eqb_refl.
  repeat (apply andb_true_iff; split); try reflexivity; now apply N.ltb_lt.
Qed.

Lemma enc_oracle_model ci ch s0 s1 s2 :
  enc_oracle ci ch s0 s1 s2
    (meta_encode {| curr_inf := ci; curr_hf := ch; seg0 := s0; seg1 := s1; seg2 := s2 |}) = true.
Proof. unfold enc_oracle. rewrite meta_encode_trunc. apply N.eqb_refl. Qed.

Lemma acc_pack_spec m : acc_pack m = spec_acc_pack m.
Proof. unfold acc_pack, spec_acc_pack. rewrite base_decode_spec. destruct (shape_ok m); reflexivity. Qed.

Lemma acc_entries_spec s0 : acc_entries acc_pack s0 = acc_entries spec_acc_pack s0.
Proof.
  unfold acc_entries. apply flat_map_ext. intros s1. apply map_ext. intros s2. apply acc_pack_spec.
Qed.

Lemma forallb_combine_map {A B} (f : A -> B) (g : A * B -> bool) l :
  forallb g (combine l (map f l)) = forallb (fun x => g (x, f x)) l.
Proof. induction l as [|x t IH]; cbn; [reflexivity|]. now rewrite IH. Qed.

(** the model's table of a shape *)
Definition model_table (b : base) : list obs :=
  map (fun pt => obs_of (base_with_ptrs b (fst pt) (snd pt))) ptrs.

Lemma table_oracle_model m : shape_ok m = true ->
  table_oracle m (seg0 m + seg1 m + seg2 m) (model_table (decoded_base m)) = true.
Proof.
  intros SH. unfold table_oracle, model_table. rewrite map_length, Nat.eqb_refl. cbn [andb].
  rewrite (forallb_combine_map _ (fun po => ptr_oracle_on (seg_map m) _ (fst (fst po)) (snd (fst po)) (snd po))).
  apply forallb_forall. intros [ci ch] _. cbn [fst snd].
  destruct m as [ci0 ch0 x y z]. cbn [seg0 seg1 seg2].
  exact (ptr_oracle_model x y z SH ci ch).
Qed.

Lemma table_agree_model b : table_agree b (model_table b) = true.
Proof.
  unfold table_agree, model_table. rewrite map_length, Nat.eqb_refl. cbn [andb].
  rewrite (forallb_combine_map _ (fun po => obs_eqb (obs_of (base_with_ptrs b (fst (fst po)) (snd (fst po)))) (snd po))).
  apply forallb_forall. intros pt _. cbn [fst snd].
  unfold obs_eqb. now rewrite !eqb_reflx, !N.eqb_refl.
Qed.

Lemma rev_oracle_model p : wf_path p -> wf_u8 (pm (pbase p)) ->
  rev_oracle p (reverse_decoded p) (twice reverse_decoded p) = true.
Proof.
  intros W U. unfold rev_oracle, twice.
  destruct (N.eqb_spec (num_inf (pbase p)) 0) as [E|E].
  - unfold reverse_decoded. rewrite E. reflexivity.
  - rewrite (reverse_decoded_wf p W E). cbn [is_ok andb].
    rewrite (reverse_decoded_invol p (reversed p) U (reverse_decoded_wf p W E)).
    apply res_eqb_refl.
Qed.

Definition model_path_oracle (w datalen : N) (is : list info) (hs : list hop) : bool :=
  let md := path_decode w datalen is hs in
  match md with
  | None => path_oracle None None Err Err Err Err None None
  | Some d =>
    path_oracle md md (reverse_decoded d) (twice reverse_decoded d) (reverse_raw d) (twice reverse_raw d)
                (match reverse_decoded d with Ok d1 => to_raw d1 | _ => None end)
                (match to_raw d with Some r => to_decoded r | None => None end)
  end.

Lemma path_oracle_canonical d : canonical d ->
  path_oracle (Some d) (Some d) (reverse_decoded d) (twice reverse_decoded d) (reverse_raw d)
              (twice reverse_raw d)
              (match reverse_decoded d with Ok d1 => to_raw d1 | _ => None end)
              (match to_raw d with Some r => to_decoded r | None => None end) = true.
Proof.
  intros C. pose proof C as (W & WM & SH & EB).
  assert (U : wf_u8 (pm (pbase d))) by (destruct WM as (?&?&?&?&?); unfold wf_u8; lia).
  unfold path_oracle. rewrite path_eqb_refl. cbn [andb].
  unfold to_decoded. rewrite (to_raw_canonical d C), (to_raw_canonical d C).
  unfold opath_eqb at 1, option_eqb. rewrite path_eqb_refl.
  destruct (N.eqb_spec (num_inf (pbase d)) 0) as [E|E].
  - unfold reverse_raw, to_decoded. rewrite (to_raw_canonical d C).
    unfold reverse_decoded. rewrite E. reflexivity.
  - destruct (reverse_raw_canonical d C E) as (R1 & C1 & N1 & N2).
    pose proof (reverse_decoded_wf d W E) as D1.
    assert (T : to_raw (reversed d) = Some (rr d)).
    { unfold reverse_raw, to_decoded in R1. rewrite (to_raw_canonical d C), D1 in R1.
      destruct (to_raw (reversed d)); [now inversion R1 | discriminate]. }
    rewrite D1, R1, T. unfold opath_eqb, option_eqb. rewrite path_eqb_refl.
    unfold twice. rewrite D1, R1.
    rewrite (reverse_decoded_invol d (reversed d) U D1), res_eqb_refl.
    destruct (reverse_raw_canonical (rr d) C1) as (R2 & _); [now rewrite N1|].
    rewrite R2, (rr_rr d C E), res_eqb_refl. cbn [andb].
    destruct (ptrs_in_range d) eqn:PR; [|reflexivity]. cbn [negb orb].
    assert (HL : num_hops (pbase d) < 256).
    { rewrite EB. cbn [decoded_base num_hops]. apply shape_ok_prop in SH. lia. }
    pose proof (reverse_decoded_spec d W HL PR) as D2.
    assert (D3 : reversed d = spec_reverse d) by congruence.
    rewrite D3, (rr_reversed d C PR), !path_eqb_refl. reflexivity.
Qed.

Lemma model_path_oracle_true w datalen is hs : w < 2 ^ 32 ->
  (forall d, path_decode w datalen is hs = Some d ->
             num_inf (pbase d) <= N.of_nat (length is) /\ num_hops (pbase d) <= N.of_nat (length hs)) ->
  model_path_oracle w datalen is hs = true.
Proof.
  intros Hw L. unfold model_path_oracle.
  destruct (path_decode w datalen is hs) as [d|] eqn:D; [|reflexivity].
  destruct (L d eq_refl) as [L1 L2].
  apply path_oracle_canonical. exact (path_decode_canonical w datalen is hs d Hw D L1 L2).
Qed.

Lemma nth_error_rev' {A} (l : list A) n : (n < length l)%nat ->
  nth_error (rev l) n = nth_error l (length l - S n).
Proof.
  intros H. destruct l as [|d t] eqn:E; [cbn in H; lia|]. rewrite <- E in *.
  rewrite (nth_error_nth' (rev l) d) by (rewrite rev_length; exact H).
  rewrite (nth_error_nth' l d) by lia. f_equal. now apply rev_nth.
Qed.

(** ------------------------------------------------------------------
    [MetaHdr.SerializeTo] with the operators of the Go code *)
Lemma lor_add_disjoint a b k : b < 2 ^ k -> N.lor (a * 2 ^ k) b = a * 2 ^ k + b.
Proof.
  intros H.
  assert (Z : N.land (a * 2 ^ k) b = 0).
  { apply N.bits_inj. intros n. rewrite N.land_spec, N.bits_0. destruct (N.ltb_spec n k) as [L|L].
    - now rewrite N.mul_pow2_bits_low.
    - assert (F : N.testbit b n = false).
      { rewrite <- (N.mod_small b (2 ^ k)) by exact H. now apply N.mod_pow2_bits_high. }
      rewrite F. apply andb_false_r. }
  rewrite <- (N.lxor_lor _ _ Z). symmetry. now apply N.add_nocarry_lxor.
Qed.

Lemma meta_encode_bits_eq m : meta_encode_bits m = meta_encode m.
Proof.
  rewrite meta_encode_trunc. unfold meta_encode_bits.
  change 63 with (N.ones 6). rewrite !N.land_ones, !N.shiftl_mul_pow2.
  assert (E : (curr_inf m * 2 ^ 30) mod 2 ^ 32 = (curr_inf m mod 4) * 2 ^ 30).
  { pose proof (meta_encode_trunc {| curr_inf := curr_inf m; curr_hf := 0; seg0 := 0; seg1 := 0; seg2 := 0 |}) as X.
    unfold meta_encode, u32 in X. cbn [curr_inf curr_hf seg0 seg1 seg2] in X.
    rewrite !N.mod_0_l, !N.mul_0_l, !N.add_0_r in X by discriminate. exact X. }
  rewrite E.
  pose proof (N.mod_lt (curr_inf m) 4 ltac:(discriminate)).
  pose proof (N.mod_lt (curr_hf m) (2 ^ 6) ltac:(discriminate)).
  pose proof (N.mod_lt (seg0 m) (2 ^ 6) ltac:(discriminate)).
  pose proof (N.mod_lt (seg1 m) (2 ^ 6) ltac:(discriminate)).
  pose proof (N.mod_lt (seg2 m) (2 ^ 6) ltac:(discriminate)).
  change (2 ^ 6) with 64 in *.
  set (a := curr_inf m mod 4) in *. set (b := curr_hf m mod 64) in *. set (c := seg0 m mod 64) in *.
  set (d := seg1 m mod 64) in *. set (e := seg2 m mod 64) in *. clearbody a b c d e.
  rewrite (lor_add_disjoint a (b * 2 ^ 24) 30) by (pows; lia).
  replace (a * 2 ^ 30 + b * 2 ^ 24) with ((a * 64 + b) * 2 ^ 24) by (pows; lia).
  rewrite (lor_add_disjoint _ (c * 2 ^ 12) 24) by (pows; lia).
  replace ((a * 64 + b) * 2 ^ 24 + c * 2 ^ 12) with (((a * 64 + b) * 4096 + c) * 2 ^ 12) by (pows; lia).
  rewrite (lor_add_disjoint _ (d * 64) 12) by (pows; lia).
  replace (((a * 64 + b) * 4096 + c) * 2 ^ 12 + d * 64) with ((((a * 64 + b) * 4096 + c) * 64 + d) * 2 ^ 6)
    by (pows; lia).
  rewrite (lor_add_disjoint _ e 6) by (pows; lia).
  pows. lia.
Qed.

(** ------------------------------------------------------------------
    Operation sequences on one Raw / one Decoded object *)

(** what every Decoded object reachable from DecodeFromBytes satisfies (pointers: any uint8 values) *)
Definition sc (p : path) : Prop :=
  wf_path p /\ shape_ok (pm (pbase p)) = true /\ pbase p = decoded_base (pm (pbase p)) /\
  wf_u8 (pm (pbase p)) /\
  seg0 (pm (pbase p)) < 64 /\ seg1 (pm (pbase p)) < 64 /\ seg2 (pm (pbase p)) < 64.

Definition op_ok (o : op) : Prop :=
  match o with
  | OSetPtr ci ch => ci < 4 /\ ch < 64
  | ODecode w datalen is hs =>
    w < 2 ^ 32 /\ exists q, path_decode w datalen is hs = Some q /\
      num_inf (pbase q) <= N.of_nat (length is) /\ num_hops (pbase q) <= N.of_nat (length hs)
  | _ => True
  end.

Lemma canonical_sc p : canonical p -> sc p.
Proof.
  intros (W & (M1 & M2 & M3 & M4 & M5) & SH & EB). unfold sc, wf_u8. repeat split; try assumption; try lia;
    apply W.
Qed.

Lemma sc_canonical p : sc p -> curr_inf (pm (pbase p)) < 4 -> curr_hf (pm (pbase p)) < 64 -> canonical p.
Proof.
  intros (W & SH & EB & U & S0 & S1 & S2) H1 H2. unfold canonical, wf_meta. repeat split; try assumption; apply W.
Qed.

Lemma sc_range p : sc p -> ptrs_in_range p = true -> canonical p.
Proof.
  intros S PR. pose proof S as (W & SH & EB & _). destruct W as (_ & _ & W3).
  unfold ptrs_in_range in PR. apply andb_true_iff in PR as [P1 P2]. apply N.ltb_lt in P1, P2.
  assert (num_hops (pbase p) <= 64).
  { rewrite EB. cbn [decoded_base num_hops]. apply shape_ok_prop in SH. lia. }
  apply sc_canonical; [exact S | lia | lia].
Qed.

Lemma sc_with_ptrs p ci ch : sc p -> ci < 256 -> ch < 256 ->
  sc (with_base p (base_with_ptrs (pbase p) ci ch)).
Proof.
  intros ((W1 & W2 & W3) & SH & EB & U & S0 & S1 & S2) H1 H2.
  unfold sc, wf_path, with_base, base_with_ptrs, wf_u8. cbn [pbase pm infos hops num_inf num_hops].
  destruct (pm (pbase p)) as [ci0 ch0 a b c] eqn:EM. cbn [with_ptrs curr_inf curr_hf seg0 seg1 seg2] in *.
  repeat split; try assumption; try lia.
  rewrite EB. reflexivity.
Qed.

Lemma inc_path_form b : shape_ok (pm b) = true -> b = decoded_base (pm b) -> wf_u8 (pm b) ->
  exists ci' ch', fst (inc_path b) = base_with_ptrs b ci' ch' /\ ci' < 256 /\ ch' < 256 /\
    (curr_inf (pm b) < 4 -> ci' < 4) /\ (curr_hf (pm b) < 64 -> ch' < 64).
Proof.
  intros SH EB (U1 & U2 & _). apply shape_ok_prop in SH.
  destruct (pm b) as [ci ch x y z] eqn:EM. cbn [seg0 seg1 seg2 curr_inf curr_hf] in *.
  unfold inc_path. rewrite EM. cbn [curr_inf curr_hf].
  assert (NH : num_hops b = x + y + z) by (rewrite EB; reflexivity).
  assert (NI : num_inf b = 0 -> x + y + z = 0).
  { rewrite EB. unfold decoded_base, count_nonzero. cbn [num_inf seg0 seg1 seg2]. bdestr; lia. }
  destruct (N.eqb_spec (num_inf b) 0) as [E|E].
  - exists ci, ch. cbn [fst]. split; [|repeat split; lia].
    destruct b as [m ni nh]. cbn [pm] in EM. subst m. reflexivity.
  - destruct (N.leb_spec (num_hops b) (ch + 1)) as [L|L]; cbn [fst].
    + exists ci, (u8 (num_hops b + 255)). split; [reflexivity|]. unfold u8. rewrite NH.
      assert (0 < x + y + z).
      { rewrite EB in E. unfold decoded_base, count_nonzero in E. cbn [num_inf seg0 seg1 seg2] in E.
        revert E. bdestr; lia. }
      repeat split; try lia.
    + exists (inf_index_for_hf {| curr_inf := ci; curr_hf := ch; seg0 := x; seg1 := y; seg2 := z |} (u8 (ch + 1))),
             (u8 (ch + 1)).
      split; [reflexivity|]. unfold inf_index_for_hf, u8. cbn [seg0 seg1].
      repeat split; try lia; bdestr; lia.
Qed.

Lemma sc_inc p : sc p -> sc (with_base p (fst (inc_path (pbase p)))).
Proof.
  intros S. pose proof S as (_ & SH & EB & U & _).
  destruct (inc_path_form (pbase p) SH EB U) as (ci' & ch' & -> & H1 & H2 & _). now apply sc_with_ptrs.
Qed.

Lemma canonical_inc p : canonical p -> canonical (with_base p (fst (inc_path (pbase p)))).
Proof.
  intros C. pose proof (canonical_sc p C) as S. pose proof S as (_ & SH & EB & U & _).
  destruct C as (_ & (M1 & M2 & _) & _).
  destruct (inc_path_form (pbase p) SH EB U) as (ci' & ch' & E & H1 & H2 & H3 & H4). rewrite E.
  apply sc_canonical; [now apply sc_with_ptrs | cbn; auto | cbn; auto].
Qed.

Lemma set_nth_length {A} (l : list A) i x : length (set_nth l i x) = length l.
Proof.
  unfold set_nth. rewrite app_length. rewrite <- (firstn_skipn i l) at 3. rewrite app_length. f_equal.
  destruct (skipn i l); reflexivity.
Qed.

Lemma sc_reversed p : sc p -> num_inf (pbase p) <> 0 -> sc (reversed p).
Proof.
  intros (W & SH & EB & U & S0 & S1 & S2) NZ. pose proof W as (W1 & W2 & W3).
  set (m := pm (pbase p)) in *.
  assert (EN : num_inf (pbase p) = count_nonzero m) by (rewrite EB; reflexivity).
  assert (EH : num_hops (pbase p) = seg0 m + seg1 m + seg2 m) by (rewrite EB; reflexivity).
  destruct (swap_shape m SH) as (X1 & X2 & X3 & X4). cbv zeta in X1, X2, X3, X4.
  destruct (X4 S0 S1 S2) as (L0 & L1 & L2). rewrite <- EN in *.
  unfold sc, wf_path, reversed, wf_u8. cbn [pbase pm infos hops num_inf num_hops]. fold m.
  rewrite map_length, !rev_length.
  change (shape_ok (with_ptrs ?mm ?x ?y)) with (shape_ok mm).
  cbn [with_ptrs curr_inf curr_hf seg0 seg1 seg2].
  repeat split; try assumption; try (unfold rev_ptr, sub8; apply N.mod_lt; discriminate); try lia.
  unfold decoded_base. cbn [pm].
  change (count_nonzero (with_ptrs ?mm ?x ?y)) with (count_nonzero mm).
  cbn [with_ptrs seg0 seg1 seg2]. rewrite X2, X3, <- EH. reflexivity.
Qed.

Lemma reverse_raw_empty p : canonical p -> num_inf (pbase p) = 0 -> reverse_raw p = Err.
Proof.
  intros C E. unfold reverse_raw, to_decoded. rewrite (to_raw_canonical p C).
  unfold reverse_decoded. rewrite E. reflexivity.
Qed.

(** every operation keeps the invariants *)
Lemma step_canonical p o : canonical p -> op_ok o -> canonical (so_path (step true p o)).
Proof.
  intros C OK. destruct o as [v| |ci ch| |i x|i x| |w dl is hs]; cbn [step so_path mk_sobs].
  - now apply canonical_inc.
  - destruct (N.eq_dec (num_inf (pbase p)) 0) as [E|E].
    + rewrite (reverse_raw_empty p C E). exact C.
    + destruct (reverse_raw_canonical p C E) as (-> & C' & _). exact C'.
  - destruct OK as [H1 H2]. apply sc_canonical; [apply sc_with_ptrs; [now apply canonical_sc | lia | lia] | |];
      cbn; assumption.
  - exact C.
  - destruct (i <? num_inf (pbase p)); [|exact C]. cbn [so_path mk_sobs].
    destruct C as ((W1 & W2 & W3) & WM & SH & EB). unfold canonical, wf_path. cbn [pbase infos hops].
    rewrite set_nth_length. tauto.
  - destruct (i <? num_hops (pbase p)); [|exact C]. cbn [so_path mk_sobs].
    destruct C as ((W1 & W2 & W3) & WM & SH & EB). unfold canonical, wf_path. cbn [pbase infos hops].
    rewrite set_nth_length. tauto.
  - exact C.
  - destruct OK as (Hw & q & E & L1 & L2). rewrite E. cbn [so_path mk_sobs].
    exact (path_decode_canonical w dl is hs q Hw E L1 L2).
Qed.

Lemma step_sc p o : sc p -> op_ok o -> sc (so_path (step false p o)).
Proof.
  intros S OK. destruct o as [v| |ci ch| |i x|i x| |w dl is hs]; cbn [step so_path mk_sobs].
  - now apply sc_inc.
  - destruct (N.eq_dec (num_inf (pbase p)) 0) as [E|E].
    + unfold reverse_decoded. rewrite E. exact S.
    + destruct S as (W & R). rewrite (reverse_decoded_wf p W E). apply sc_reversed; [exact (conj W R) | exact E].
  - destruct OK as [H1 H2]. apply sc_with_ptrs; [exact S | lia | lia].
  - exact S.
  - destruct (i <? num_inf (pbase p)); [|exact S]. cbn [so_path mk_sobs].
    destruct S as ((W1 & W2 & W3) & R). unfold sc, wf_path. cbn [pbase infos hops].
    rewrite set_nth_length. tauto.
  - destruct (i <? num_hops (pbase p)); [|exact S]. cbn [so_path mk_sobs].
    destruct S as ((W1 & W2 & W3) & R). unfold sc, wf_path. cbn [pbase infos hops].
    rewrite set_nth_length. tauto.
  - exact S.
  - destruct OK as (Hw & q & E & L1 & L2). rewrite E. cbn [so_path mk_sobs].
    apply canonical_sc. exact (path_decode_canonical w dl is hs q Hw E L1 L2).
Qed.

(** ... and shows what the property demands *)
Lemma inc_oracle_model raw p v : sc p -> inc_oracle p (step raw p (OInc v)) = true.
Proof.
  intros (W & SH & EB & U & _). unfold inc_oracle. cbn [step so_code so_path mk_sobs].
  destruct p as [b is hs]. cbn [pbase with_base infos hops] in *.
  destruct (pm b) as [ci ch x y z] eqn:EM. cbn [curr_inf curr_hf] in *.
  assert (SOK : shape_ok (mk x y z 0 0) = true) by exact SH.
  assert (EBB : b = B x y z ci ch) by exact EB.
  assert (NH : num_hops b = x + y + z) by (rewrite EB; reflexivity).
  rewrite NH. clear NH EB EM W U. subst b.
  destruct (N.leb_spec (x + y + z) ch) as [L|L]; [reflexivity|].
  destruct (N.eqb_spec (ch + 1) (x + y + z)) as [E|E].
  - rewrite (inc_last x y z SOK ci ch E). cbn [fst snd inc_code with_base pbase infos hops].
    rewrite N.eqb_refl, path_eqb_refl. reflexivity.
  - assert (L2 : ch + 1 < x + y + z) by lia.
    rewrite (inc_mid x y z SOK ci ch L2).
    cbn [fst snd inc_code with_base B decoded_base pm curr_inf curr_hf mk pbase infos hops].
    rewrite !N.eqb_refl. cbn [andb].
    change {| curr_inf := ci; curr_hf := ch; seg0 := x; seg1 := y; seg2 := z |} with (mk x y z ci ch).
    rewrite (seg_at_idx x y z SOK ci ch (ch + 1) L2). unfold opt_eqb, option_eqb. rewrite N.eqb_refl. cbn [andb].
    apply path_eqb_refl.
Qed.

Lemma step_oracle_raw p o : canonical p -> step_oracle p o (step true p o) = true.
Proof.
  intros C. destruct o as [v| |ci ch| |i x|i x| |w dl is hs]; cbn [step_oracle]; try reflexivity.
  - apply inc_oracle_model. now apply canonical_sc.
  - cbn [step]. destruct (N.eqb_spec (num_inf (pbase p)) 0) as [E|E].
    + rewrite (reverse_raw_empty p C E). reflexivity.
    + destruct (reverse_raw_canonical p C E) as (-> & _). cbn [so_code so_path mk_sobs].
      destruct (ptrs_in_range p) eqn:PR; [|reflexivity]. cbn [negb orb].
      rewrite (rr_reversed p C PR), path_eqb_refl. reflexivity.
  - cbn [step]. rewrite (to_raw_canonical p C). cbn [so_code so_path so_conv mk_sobs].
    rewrite path_eqb_refl. unfold opath_eqb, option_eqb. rewrite path_eqb_refl. apply orb_true_r.
  - cbn [step]. rewrite (to_raw_canonical p C). cbn [so_code so_path so_conv mk_sobs].
    rewrite path_eqb_refl. unfold opath_eqb, option_eqb. rewrite path_eqb_refl. apply orb_true_r.
Qed.

Lemma step_oracle_dec p o : sc p -> step_oracle p o (step false p o) = true.
Proof.
  intros S. destruct o as [v| |ci ch| |i x|i x| |w dl is hs]; cbn [step_oracle]; try reflexivity.
  - now apply inc_oracle_model.
  - cbn [step]. pose proof S as (W & SH & EB & _).
    destruct (N.eqb_spec (num_inf (pbase p)) 0) as [E|E].
    + unfold reverse_decoded. rewrite E. reflexivity.
    + rewrite (reverse_decoded_wf p W E). cbn [so_code so_path mk_sobs].
      destruct (ptrs_in_range p) eqn:PR; [|reflexivity]. cbn [negb orb].
      assert (HL : num_hops (pbase p) < 256).
      { rewrite EB. cbn [decoded_base num_hops]. apply shape_ok_prop in SH. lia. }
      pose proof (reverse_decoded_spec p W HL PR) as D2. rewrite (reverse_decoded_wf p W E) in D2.
      assert (D3 : reversed p = spec_reverse p) by congruence.
      rewrite D3, path_eqb_refl. reflexivity.
  - cbn [step]. destruct (ptrs_in_range p) eqn:PR; [|reflexivity]. cbn [negb orb].
    rewrite (to_raw_canonical p (sc_range p S PR)). cbn [so_code so_path so_conv mk_sobs].
    rewrite path_eqb_refl. unfold opath_eqb, option_eqb. rewrite path_eqb_refl. reflexivity.
  - cbn [step]. destruct (ptrs_in_range p) eqn:PR; [|reflexivity]. cbn [negb orb].
    rewrite (to_raw_canonical p (sc_range p S PR)). cbn [so_code so_path so_conv mk_sobs].
    rewrite path_eqb_refl. unfold opath_eqb, option_eqb. rewrite path_eqb_refl. reflexivity.
Qed.

Lemma pair_oracle_model r d o : op_ok o -> pair_oracle o (step true r o) (step false d o) = true.
Proof.
  intros OK. destruct o as [v| |ci ch| |i x|i x| |w dl is hs]; try reflexivity.
  destruct OK as (Hw & q & E & L1 & L2). cbn [pair_oracle step]. rewrite E. cbn [so_code so_path mk_sobs].
  destruct (path_decode_canonical w dl is hs q Hw E L1 L2) as ((W1 & W2 & _) & _).
  rewrite path_eqb_refl, <- W1, <- W2, !N.eqb_refl. reflexivity.
Qed.

Lemma sobs_eqb_refl s : sobs_eqb s s = true.
Proof.
  unfold sobs_eqb. rewrite N.eqb_refl, path_eqb_refl. unfold opath_eqb, option_eqb.
  destruct (so_conv s); [now rewrite path_eqb_refl | reflexivity].
Qed.

Lemma seq_model_ok ops : forall r d, canonical r -> sc d -> Forall op_ok ops ->
  seq_agree r d ops (seq_model r d ops) = true /\ seq_oracle r d ops (seq_model r d ops) = true.
Proof.
  induction ops as [|o ops IH]; intros r d C S OK; [split; reflexivity|].
  apply Forall_cons_iff in OK as [O1 OK]. cbn [seq_model seq_agree seq_oracle].
  destruct (IH _ _ (step_canonical r o C O1) (step_sc d o S O1) OK) as [A B].
  rewrite !sobs_eqb_refl, A, (step_oracle_raw r o C), (step_oracle_dec d o S), (pair_oracle_model r d o O1), B.
  split; reflexivity.
Qed.
