(** Lemmas about Model/Meta.v (C19). *)
From Coq Require Import List Arith NArith ZArith Bool Lia ZifyBool ZifyN ZifyNat.
From Scion Require Import Lib.Check Model.Meta.
Import ListNotations.
Import Meta.
Local Open Scope N_scope.

Ltac Zify.zify_post_hook ::= Z.div_mod_to_equations.

(** ------------------------------------------------------------------
    MetaHdr: the 32-bit word *)

Ltac pows :=
  change (2 ^ 32) with 4294967296 in *; change (2 ^ 30) with 1073741824 in *;
  change (2 ^ 24) with 16777216 in *; change (2 ^ 18) with 262144 in *;
  change (2 ^ 12) with 4096 in *; change (2 ^ 6) with 64 in *.

Lemma meta_decode_bits_eq w : meta_decode_bits w = meta_decode w.
Proof.
  unfold meta_decode_bits, meta_decode, u8.
  change 255 with (N.ones 8). change 63 with (N.ones 6).
  rewrite !N.land_ones, !N.shiftr_div_pow2. reflexivity.
Qed.

Lemma meta_decode_wf w : w < 2 ^ 32 -> wf_meta (meta_decode w).
Proof.
  intros H. unfold wf_meta, meta_decode, u8; cbn [curr_inf curr_hf seg0 seg1 seg2]. pows.
  repeat split; lia.
Qed.

Lemma meta_decode_fields w : w < 2 ^ 32 ->
  let m := meta_decode w in
  w = curr_inf m * 2 ^ 30 + curr_hf m * 2 ^ 24 + ((w / 2 ^ 18) mod 64) * 2 ^ 18
      + seg0 m * 2 ^ 12 + seg1 m * 2 ^ 6 + seg2 m.
Proof.
  intros H. unfold meta_decode, u8; cbn [curr_inf curr_hf seg0 seg1 seg2]. pows. lia.
Qed.

Lemma meta_decode_encode m : wf_meta m -> meta_decode (meta_encode m) = m.
Proof.
  destruct m as [ci ch s0 s1 s2]. unfold wf_meta, meta_decode, meta_encode, u8, u32.
  cbn [curr_inf curr_hf seg0 seg1 seg2]. pows. intros (H1 & H2 & H3 & H4 & H5).
  f_equal; lia.
Qed.

Lemma meta_encode_decode w : w < 2 ^ 32 ->
  meta_encode (meta_decode w) + ((w / 2 ^ 18) mod 64) * 2 ^ 18 = w.
Proof.
  intros H. unfold meta_decode, meta_encode, u8, u32; cbn [curr_inf curr_hf seg0 seg1 seg2]. pows. lia.
Qed.

(** what SerializeTo writes for arbitrary uint8 field values: the fields truncated to their widths *)
Lemma meta_encode_trunc m :
  meta_encode m = (curr_inf m mod 4) * 2 ^ 30 + (curr_hf m mod 64) * 2 ^ 24
                  + (seg0 m mod 64) * 2 ^ 12 + (seg1 m mod 64) * 2 ^ 6 + seg2 m mod 64.
Proof. unfold meta_encode, u32. pows. lia. Qed.

Lemma meta_encode_lt m : meta_encode m < 2 ^ 32.
Proof. rewrite meta_encode_trunc. pows. lia. Qed.
