(** C10, part 9: a traceroute request on a path.  Which router raises the router-alert
    request for a flagged hop field of a packet of a provenance path, in which state,
    and what the answer says. *)
From Coq Require Import List NArith Bool Arith Lia ZifyBool ZifyN ZifyNat.
From Scion Require Import Lib.Check Lib.Bytes Model.Router Model.Network Model.Prov Model.RouterScmp
  Model.ScmpReturn.
From Scion Require Import Proofs.Router Proofs.ProvStruct Proofs.ProvRender Proofs.ForwardView Proofs.ProvFacts
  Proofs.RouterPass Proofs.ForwardStep Proofs.RouterInv Proofs.RouterScmp
  Proofs.ScmpReturnCong Proofs.ScmpReturnStop Proofs.ScmpReturnAlert Proofs.ScmpReturn.
Import ListNotations.
Import Scion.Model.Router.Router Network Prov.

Lemma plain_rhop h : plain_hop (rhop h).
Proof. repeat split. Qed.

Section Trace.
Variable mac : N -> N -> N -> N -> N -> N -> list N.
Variable t : topology.
Variable now : N.
Variable p : prov.
Variable pp : pparams.
Hypothesis HG : good mac t p.
Hypothesis Hep : endpoints_ok t p pp = true.
Hypothesis Hexp : all_unexpired now p = true.

Notation n := (nhops p).
Notation js := (seg_idx (lens p)).
Notation nsegs := (length (pv_segs p)).
Notation macq := (macq_of mac).
Notation Hs := (Hshape mac t p HG).
Notation asof := (as_of t p).
Notation nifof := (nif_of t p).
Notation View := (view p pp n nsegs).
Notation eff := (ForwardStep.eff p).
Notation in_rtr := (ForwardStep.in_rtr t p).
Notation eg_rtr := (ForwardStep.eg_rtr t p).
Notation arrives := (ForwardStep.arrives p).

(** the flag of the interface through which hop [k] is entered / left, as bits on the wire *)
Definition in_flag (k : nat) (a e : bool) : bool := if cons p k then a else e.
Definition eg_flag (k : nat) (a e : bool) : bool := if cons p k then e else a.

Lemma src_view q k ki mid : View q k ki mid -> p_src_ia q = ia p 0.
Proof.
  intros V. rewrite (v_src_ia _ _ _ _ _ _ _ _ V).
  unfold endpoints_ok in Hep. apply andb_true_iff in Hep as [E _]. apply andb_true_iff in E as [E _].
  apply andb_true_iff in E as [Es _]. now apply N.eqb_eq in Es.
Qed.

(** the source checks do not notice that the packet has been rebuilt with the same source *)
Lemma src_ok_view q k ki mid r ing : View q k ki mid -> (k < n)%nat ->
  src_ok (p_src_ia q) (cfg_of (asof k) r) ing q.
Proof.
  intros V Hk. split; [now left|].
  destruct (as_of_ok _ _ _ HG k Hk) as [_ Ik].
  destruct k as [|k'].
  - left. unfold src_host_good. rewrite (v_src_type _ _ _ _ _ _ _ _ V), (v_src_raw _ _ _ _ _ _ _ _ V).
    unfold endpoints_ok in Hep. apply andb_true_iff in Hep as [E _]. apply andb_true_iff in E as [_ Sh].
    exact Sh.
  - right. cbn [cfg_of c_ia]. rewrite Ik, (src_view q _ _ _ V).
    assert (X : (ia p 0 =? ia p (S k'))%N = false).
    { apply N.eqb_neq. intros X. apply (ia_not_src _ _ _ HG (S k')); [lia|exact Hk|now symmetry]. }
    now rewrite X.
Qed.

(** ** the ingress router-alert flag of hop [k], reached from the previous AS *)
Theorem ingress_flag_answer q k r a e :
  View q k k false -> (k < n)%nat -> (1 <= k)%nat -> crosses p (k - 1) = true ->
  in_flag k a e = true -> eg_flag k a e = false ->
  process_scion (macq (a_key (asof k))) (cfg_of (asof k) r) now (InExt (tr_in p k))
                (ScmpReturn.set_alerts k a e q) =
  SlowPath SpAlertIngress 0 (render p pp k true).
Proof.
  intros V Hk K1 Cp Fi Fe.
  assert (Ha : arrives k (InExt (tr_in p k))) by (right; auto).
  destruct (ingress_arrive mac t now p pp HG Hep Hexp n nsegs q k (InExt (tr_in p k)) r V Hk Hk
              (js_lt p Hs k Hk) Ha) as (q1 & Ein & V1 & _).
  pose proof (view_full p pp Hs q1 k true V1) as Eq1.
  apply ingress_pre_of_part in Ein.
  rewrite <- (phi_flag k a e q).
  rewrite (proc_ingress_answer _ _ now _ k a e (p_src_ia q) (keeps_gflag k a e) q _
             (SlowPath SpAlertIngress 0 q1) (src_ok_view q k k false r _ V Hk) Ein).
  - now rewrite Eq1.
  - apply (ingress_answer (InExt (tr_in p k)) k a e (p_src_ia q)
             (mkSt q1 (rhop (hop p k)) (rinfo p k true (js k)) (peerhop p k) false 0) (rhop (hop p k))).
    + pose proof (arrives_from0 mac t now p pp HG Hep Hexp k _ Hk Ha) as F0. rewrite F0.
      apply Nat.eqb_neq. lia.
    + cbn [s_p]. rewrite (v_ch _ _ _ _ _ _ _ _ V1). apply Nat2N.id.
    + cbn [s_inf]. rewrite (rinfo_consdir p k k true). exact Fi.
    + cbn [s_inf]. rewrite (rinfo_consdir p k k true). exact Fe.
    + reflexivity.
    + apply plain_rhop.
    + cbn [s_p]. apply (v_hops _ _ _ _ _ _ _ _ V1); assumption.
    + cbn [s_p]. now rewrite (src_view q1 _ _ _ V1), (src_view q _ _ _ V).
Qed.

(** the state after the egress lookup of a healthy router *)
Definition eg_state (kc : nat) (xo : bool) : st :=
  mkSt (render p pp kc true) (rhop (hop p kc)) (rinfo p kc true (js kc)) (peerhop p kc) xo (tr_eg p kc).

Lemma egress_pre_state c ing s1 kc xo r :
  xover_part (macq (a_key (asof kc))) now s1 = Ok (stop_state p pp kc xo) ->
  (S kc < n)%nat -> crosses p kc = true -> c = cfg_of (asof kc) r ->
  validate_egress (from0 ing) (lt_of c (ing_ifid ing)) (Some (if_of r (nifof kc (tr_eg p kc)))) xo = EgOk ->
  egress_pre (macq (a_key (asof kc))) c now ing s1 = Ok (eg_state kc xo) /\
  egress_if c (eg_state kc xo) = if_of r (nifof kc (tr_eg p kc)).
Proof.
  intros Ex Hk C -> Hv.
  destruct (link_fact _ _ _ HG kc Hk C) as (Ff & _ & _ & _ & Ez & _ & Up & _).
  assert (Gi : get_if (cfg_of (asof kc) r) (tr_eg p kc) = Some (if_of r (nifof kc (tr_eg p kc))))
    by (apply get_if_cfg; assumption).
  split.
  - unfold egress_pre. rewrite Ex. cbn [bind]. unfold set_egress, egress_interface, stop_state.
    cbn [s_p s_hop s_inf s_peer s_xover bind]. rewrite (rinfo_consdir p kc kc true).
    change (if cons p kc then h_eg (rhop (hop p kc)) else h_in (rhop (hop p kc))) with (tr_eg p kc).
    unfold validate_egress_id. cbn [s_eg s_xover]. rewrite Gi, Hv. reflexivity.
  - unfold egress_if, eg_state. cbn [s_eg]. now rewrite Gi.
Qed.

(** ** the egress router-alert flag: the router that receives the packet owns the interface *)
Theorem egress_flag_answer q k ing r a e :
  View q k k false -> (S k < n)%nat -> arrives k ing -> (k = 0%nat -> r = eg_rtr (eff k)) ->
  eg_rtr (eff k) = r ->
  eg_flag (eff k) a e = true -> in_flag (eff k) a e = false ->
  process_scion (macq (a_key (asof k))) (cfg_of (asof k) r) now ing (ScmpReturn.set_alerts (eff k) a e q) =
  SlowPath SpAlertEgress (tr_eg p (eff k)) (render p pp (eff k) true).
Proof.
  intros V Hk Ha H0 Ow Fe Fi. assert (Hk' : (k < n)%nat) by lia.
  destruct (arrive_state mac t now p pp HG Hep Hexp q k ing r V Hk Ha H0)
    as (s1' & xo & Ein' & S1 & Dst & Ex & As & Hn & C & Hv).
  destruct (ingress_arrive mac t now p pp HG Hep Hexp n nsegs q k ing r V Hk' Hk'
              (js_lt p Hs k Hk') Ha) as (q1 & Ein & V1 & _).
  rewrite Ein in Ein'. injection Ein' as <-.
  set (s1 := mkSt q1 (rhop (hop p k)) (rinfo p k true (js k)) (peerhop p k) false 0) in *.
  apply ingress_pre_of_part in Ein.
  set (kc := eff k) in *. set (c := cfg_of (asof k) r).
  rewrite <- As in Ex.
  destruct (egress_pre_state c ing s1 kc xo r Ex Hn C ltac:(unfold c; now rewrite As) Hv) as [E2 Eif].
  rewrite As in E2.
  rewrite <- (phi_flag kc a e q).
  apply (proc_egress_answer _ c now ing kc a e (p_src_ia q) (keeps_gflag kc a e) q s1 (eg_state kc xo)).
  - apply (src_ok_view q k k false r ing V Hk').
  - exact Ein.
  - apply (ingress_quiet ing kc a e (p_src_ia q) s1); [apply plain_rhop|].
    right. cbn [s1 s_p s_inf]. rewrite (v_ch _ _ _ _ _ _ _ _ V1), Nat2N.id.
    destruct (Nat.eq_dec k kc) as [E|E]; [right|now left].
    rewrite (rinfo_consdir p k k true). rewrite E. exact Fi.
  - unfold c. cbn [cfg_of c_ia]. exact Dst.
  - exact E2.
  - apply (egress_answer c kc a e (p_src_ia q) (eg_state kc xo) (rhop (hop p kc))).
    + rewrite Eif. unfold if_of. fold (eg_rtr kc). rewrite Ow, N.eqb_refl. reflexivity.
    + cbn [eg_state s_p]. change (p_curr_hf (render p pp kc true)) with (N.of_nat kc). apply Nat2N.id.
    + cbn [eg_state s_inf]. rewrite (rinfo_consdir p kc kc true). exact Fe.
    + cbn [eg_state s_inf]. rewrite (rinfo_consdir p kc kc true). exact Fi.
    + reflexivity.
    + apply plain_rhop.
    + cbn [eg_state s_p]. rewrite <- nthN_of_nat. apply (hop_render p pp kc true kc). lia.
    + cbn [eg_state s_p]. symmetry. apply (v_src_ia _ _ _ _ _ _ _ _ V).
Qed.

End Trace.
